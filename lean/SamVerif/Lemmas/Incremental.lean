import SamVerif.Model.Incremental
/-! Helper lemmas for C10 (`Props/C10.lean`): association lists, the `transitive_set` loop,
the dependency graph, `recheck`. -/
set_option linter.unusedSectionVars false
namespace SamVerif.Incremental

section AList
variable {Mod : Type} [DecidableEq Mod] {α β : Type}

theorem lookup_erase (l : List (Mod × α)) (k x : Mod) :
    lookup (erase l k) x = if k = x then none else lookup l x := by
  induction l with
  | nil => simp [erase, lookup]
  | cons p t ih =>
    obtain ⟨k', v⟩ := p
    simp only [erase, List.filter_cons] at ih ⊢
    by_cases h : k' = k
    · subst h
      simp only [ne_eq, not_true_eq_false, decide_false, Bool.false_eq_true, ↓reduceIte, ih, lookup]
      split <;> simp_all
    · simp only [ne_eq, h, not_false_eq_true, decide_true, ↓reduceIte, lookup, ih]
      split <;> split <;> simp_all

theorem lookup_insert (l : List (Mod × α)) (k : Mod) (v : α) (x : Mod) :
    lookup (insert l k v) x = if k = x then some v else lookup l x := by
  simp only [insert, lookup, lookup_erase]
  split <;> simp_all

theorem mem_keys_of_lookup {l : List (Mod × α)} {k : Mod} {v : α} (h : lookup l k = some v) :
    k ∈ keys l := by
  induction l with
  | nil => simp [lookup] at h
  | cons p t ih =>
    obtain ⟨k', v'⟩ := p
    simp only [lookup] at h
    simp only [keys, List.map_cons, List.mem_cons]
    split at h
    · left; simp_all
    · right; exact ih h

theorem lookup_some_of_mem_keys {l : List (Mod × α)} {k : Mod} (h : k ∈ keys l) :
    ∃ v, lookup l k = some v := by
  induction l with
  | nil => simp [keys] at h
  | cons p t ih =>
    obtain ⟨k', v'⟩ := p
    simp only [keys, List.map_cons, List.mem_cons] at h
    simp only [lookup]
    by_cases hk : k' = k
    · exact ⟨v', by simp [hk]⟩
    · rcases h with h | h
      · exact absurd h.symm hk
      · obtain ⟨v, hv⟩ := ih h
        exact ⟨v, by simp [hk, hv]⟩

theorem lookup_map_val (l : List (Mod × α)) (f : Mod → α → β) (x : Mod) :
    lookup (l.map (fun p => (p.1, f p.1 p.2))) x = (lookup l x).map (f x) := by
  induction l with
  | nil => simp [lookup]
  | cons p t ih =>
    obtain ⟨k', v'⟩ := p
    simp only [List.map_cons, lookup, ih]
    split
    · simp_all
    · rfl

end AList

/-! ## `transitive_set` -/

section Dfs
variable {Mod : Type} [DecidableEq Mod]

/-- `b` is reachable from `a` along edges of `g` (reflexive-transitive). -/
inductive Reach (g : Mod → List Mod) : Mod → Mod → Prop
  | refl (a : Mod) : Reach g a a
  | step {a b c : Mod} : b ∈ g a → Reach g b c → Reach g a c

theorem Reach.trans {g : Mod → List Mod} {a b c : Mod} (h1 : Reach g a b) (h2 : Reach g b c) :
    Reach g a c := by
  induction h1 with
  | refl => exact h2
  | step e _ ih => exact .step e (ih h2)

theorem Reach.tail {g : Mod → List Mod} {a b c : Mod} (h1 : Reach g a b) (e : c ∈ g b) :
    Reach g a c := h1.trans (.step e (.refl c))

/-- Soundness of the loop for every fuel: only reachable nodes are added. -/
theorem dfs_sound (g : Mod → List Mod) (n : Nat) (st r : List Mod) (x : Mod)
    (hx : x ∈ dfs g n st r) : x ∈ r ∨ ∃ s ∈ st, Reach g s x := by
  induction n generalizing st r with
  | zero => left; simpa [dfs] using hx
  | succ n ih =>
    cases st with
    | nil => left; simpa [dfs] using hx
    | cons m st =>
      simp only [dfs] at hx
      split at hx
      · rcases ih st r hx with h | ⟨s, hs, hr⟩
        · exact .inl h
        · exact .inr ⟨s, List.mem_cons_of_mem _ hs, hr⟩
      · rcases ih (g m ++ st) (m :: r) hx with h | ⟨s, hs, hr⟩
        · rcases List.mem_cons.mp h with h | h
          · subst h; exact .inr ⟨x, List.mem_cons_self, .refl x⟩
          · exact .inl h
        · rcases List.mem_append.mp hs with hs | hs
          · exact .inr ⟨m, List.mem_cons_self, .step hs hr⟩
          · exact .inr ⟨s, List.mem_cons_of_mem _ hs, hr⟩

theorem wsum_mono (g : Mod → List Mod) (U r : List Mod) (m : Mod) :
    wsum g U (m :: r) ≤ wsum g U r := by
  induction U with
  | nil => simp [wsum]
  | cons u U ih =>
    simp only [wsum, List.mem_cons]
    split <;> split <;> simp_all <;> omega

theorem wsum_visit (g : Mod → List Mod) (U r : List Mod) (m : Mod) (hm : m ∈ U) (hr : m ∉ r) :
    wsum g U (m :: r) + 1 + (g m).length ≤ wsum g U r := by
  induction U with
  | nil => simp at hm
  | cons u U ih =>
    simp only [wsum, List.mem_cons]
    by_cases hum : u = m
    · subst hum
      have := wsum_mono g U r u
      simp [hr]; omega
    · have hm' : m ∈ U := by
        rcases List.mem_cons.mp hm with h | h
        · exact absurd h.symm hum
        · exact h
      have := ih hm'
      split <;> split <;> simp_all <;> omega

/-- With enough fuel the loop ends with an empty stack: the result contains the stack and the
old result and is closed under edges. -/
theorem dfs_closed (g : Mod → List Mod) (U : List Mod) (hU : ∀ x y, y ∈ g x → y ∈ U)
    (n : Nat) (st r : List Mod) (hst : ∀ x ∈ st, x ∈ U)
    (hinv : ∀ x ∈ r, ∀ y ∈ g x, y ∈ r ∨ y ∈ st)
    (hfuel : st.length + wsum g U r < n) :
    (∀ x ∈ r, x ∈ dfs g n st r) ∧ (∀ x ∈ st, x ∈ dfs g n st r) ∧
      (∀ x ∈ dfs g n st r, ∀ y ∈ g x, y ∈ dfs g n st r) := by
  induction n generalizing st r with
  | zero => omega
  | succ n ih =>
    cases st with
    | nil =>
      simp only [dfs]
      refine ⟨fun x h => h, by simp, fun x hx y hy => ?_⟩
      rcases hinv x hx y hy with h | h
      · exact h
      · simp at h
    | cons m st =>
      simp only [dfs]
      split
      · rename_i hm
        have h := ih st r (fun x hx => hst x (List.mem_cons_of_mem _ hx))
          (fun x hx y hy => by
            rcases hinv x hx y hy with h | h
            · exact .inl h
            · rcases List.mem_cons.mp h with h | h
              · subst h; exact .inl hm
              · exact .inr h)
          (by simp only [List.length_cons] at hfuel; omega)
        refine ⟨h.1, fun x hx => ?_, h.2.2⟩
        rcases List.mem_cons.mp hx with hx | hx
        · subst hx; exact h.1 _ hm
        · exact h.2.1 x hx
      · rename_i hm
        have hmU : m ∈ U := hst m List.mem_cons_self
        have hw := wsum_visit g U r m hmU hm
        have h := ih (g m ++ st) (m :: r)
          (fun x hx => by
            rcases List.mem_append.mp hx with hx | hx
            · exact hU m x hx
            · exact hst x (List.mem_cons_of_mem _ hx))
          (fun x hx y hy => by
            rcases List.mem_cons.mp hx with hx | hx
            · subst hx; exact .inr (List.mem_append_left _ hy)
            · rcases hinv x hx y hy with h | h
              · exact .inl (List.mem_cons_of_mem _ h)
              · rcases List.mem_cons.mp h with h | h
                · subst h; exact .inl List.mem_cons_self
                · exact .inr (List.mem_append_right _ h))
          (by simp only [List.length_cons, List.length_append] at hfuel ⊢; omega)
        refine ⟨fun x hx => h.1 x (List.mem_cons_of_mem _ hx), fun x hx => ?_, h.2.2⟩
        rcases List.mem_cons.mp hx with hx | hx
        · subst hx; exact h.1 _ List.mem_cons_self
        · exact h.2.1 x (List.mem_append_right _ hx)

/-- `transitive_set` computes exactly reachability from the initial set. -/
theorem mem_transitiveSet (g : Mod → List Mod) (U : List Mod) (hU : ∀ x y, y ∈ g x → y ∈ U)
    (init : List Mod) (x : Mod) :
    x ∈ transitiveSet g U init ↔ ∃ i ∈ init, Reach g i x := by
  constructor
  · intro h
    rcases dfs_sound g _ init [] x h with h | h
    · simp at h
    · exact h
  · rintro ⟨i, hi, hr⟩
    have h := dfs_closed g (U ++ init) (fun a b hb => List.mem_append_left _ (hU a b hb))
      (init.length + wsum g (U ++ init) [] + 1) init []
      (fun a ha => List.mem_append_right _ ha) (by simp) (by omega)
    have hi' : i ∈ transitiveSet g U init := h.2.1 i hi
    clear hi
    induction hr with
    | refl => exact hi'
    | step e _ ih => exact ih (h.2.2 _ hi' _ e)

end Dfs

/-! ## The dependency graph -/

section Graph
variable {Mod Content Sig Err : Type} [DecidableEq Mod]
variable (ck : Checker Mod Content Sig Err)

theorem fwd_mem_nodes (S : Sources Mod Content) (x y : Mod) (h : y ∈ fwdEdges ck S x) :
    y ∈ nodes ck S := by
  unfold fwdEdges at h
  split at h
  · rename_i c hc
    refine List.mem_append_right _ (List.mem_flatMap.mpr ⟨x, mem_keys_of_lookup hc, ?_⟩)
    simp [fwdEdges, hc, h]
  · simp at h

theorem mem_revEdges (S : Sources Mod Content) (x m : Mod) :
    m ∈ revEdges ck S x ↔ x ∈ fwdEdges ck S m := by
  simp only [revEdges, List.mem_filter, decide_eq_true_eq]
  constructor
  · exact fun h => h.2
  · intro h
    refine ⟨?_, h⟩
    unfold fwdEdges at h
    split at h
    · rename_i c hc; exact mem_keys_of_lookup hc
    · simp at h

theorem rev_mem_nodes (S : Sources Mod Content) (x y : Mod) (h : y ∈ revEdges ck S x) :
    y ∈ nodes ck S := by
  simp only [revEdges, List.mem_filter] at h
  exact List.mem_append_left _ h.1

/-- Reverse reachability is forward reachability read backwards. -/
theorem reach_rev (S : Sources Mod Content) (d m : Mod) :
    Reach (revEdges ck S) d m ↔ Reach (fwdEdges ck S) m d := by
  constructor
  · intro h
    induction h with
    | refl => exact .refl _
    | step e _ ih => exact ih.tail ((mem_revEdges ck S _ _).mp e)
  · intro h
    induction h with
    | refl => exact .refl _
    | step e _ ih => exact ih.tail ((mem_revEdges ck S _ _).mpr e)

/-- `affected_set(dirty)`: every module reachable (forwards) from a module that reaches
(forwards) a dirty one. -/
theorem mem_affectedSet (S : Sources Mod Content) (dirty : List Mod) (k : Mod) :
    k ∈ affectedSet ck S dirty ↔
      ∃ a, (∃ d ∈ dirty, Reach (fwdEdges ck S) a d) ∧ Reach (fwdEdges ck S) a k := by
  unfold affectedSet
  rw [mem_transitiveSet _ _ (fun x y h => fwd_mem_nodes ck S x y h)]
  constructor
  · rintro ⟨a, ha, hr⟩
    rw [mem_transitiveSet _ _ (fun x y h => rev_mem_nodes ck S x y h)] at ha
    obtain ⟨d, hd, hda⟩ := ha
    exact ⟨a, ⟨d, hd, (reach_rev ck S d a).mp hda⟩, hr⟩
  · rintro ⟨a, ⟨d, hd, hda⟩, hr⟩
    refine ⟨a, ?_, hr⟩
    rw [mem_transitiveSet _ _ (fun x y h => rev_mem_nodes ck S x y h)]
    exact ⟨d, hd, (reach_rev ck S d a).mpr hda⟩

end Graph

/-! ## `recheck`, `fresh` -/

section Recheck
variable {Mod Content Sig Err : Type} [DecidableEq Mod]
variable (ck : Checker Mod Content Sig Err)

theorem mem_groupFor (es : List (Mod × Err)) (k : Mod) (e : Err) :
    e ∈ groupFor es k ↔ (k, e) ∈ es := by
  simp only [groupFor, List.mem_map, List.mem_filter, decide_eq_true_eq]
  constructor
  · rintro ⟨⟨k', e'⟩, ⟨h1, h2⟩, h3⟩
    simp only at h2 h3; subst h2; subst h3; exact h1
  · intro h; exact ⟨(k, e), ⟨h, rfl⟩, rfl⟩

theorem lookup_overwrite (errs : List (Mod × List Err)) (produced : List (Mod × Err))
    (touched : List Mod) (k : Mod) :
    lookup (overwrite errs produced touched) k =
      if k ∈ touched then some (groupFor produced k) else lookup errs k := by
  unfold overwrite
  induction touched generalizing errs with
  | nil => simp
  | cons t ts ih =>
    simp only [List.foldl_cons, ih, lookup_insert, List.mem_cons]
    by_cases h1 : k ∈ ts
    · simp [h1]
    · by_cases h2 : t = k
      · subst h2; simp [h1]
      · have h3 : ¬ k = t := fun h => h2 h.symm
        simp [h1, h2, h3]

theorem mem_checkAll (S : Sources Mod Content) (G : List (Mod × Sig)) (R : List Mod)
    (k : Mod) (e : Err) :
    (k, e) ∈ checkAll ck S G R ↔
      ∃ m ∈ R, ∃ c, lookup S m = some c ∧ (k, e) ∈ ck.check m c (lookup G) := by
  simp only [checkAll, List.mem_flatMap]
  constructor
  · rintro ⟨m, hm, h⟩
    split at h
    · rename_i c hc; exact ⟨m, hm, c, hc, h⟩
    · simp at h
  · rintro ⟨m, hm, c, hc, h⟩
    exact ⟨m, hm, by simp [hc, h]⟩

/-- What `get_errors` returns after `recheck`. -/
theorem mem_getErrors_recheck (s : State Mod Content Sig Err) (pending : List (Mod × Err))
    (R : List Mod) (k : Mod) (e : Err) :
    e ∈ getErrors (recheck ck s pending R) k ↔
      (k, e) ∈ pending ++ checkAll ck s.sources s.globalCx R ∨
        (k ∉ R ∧ (∀ e', (k, e') ∉ pending ++ checkAll ck s.sources s.globalCx R) ∧
          e ∈ getErrors s k) := by
  simp only [getErrors, recheck, lookup_overwrite]
  split
  · rename_i ht
    simp only [Option.getD_some, mem_groupFor]
    constructor
    · exact fun h => .inl h
    · rintro (h | ⟨h1, h2, _⟩)
      · exact h
      · rcases List.mem_append.mp ht with ht | ht
        · obtain ⟨⟨k', e'⟩, hp, hk⟩ := List.mem_map.mp ht
          simp only at hk; subst hk
          exact absurd hp (h2 e')
        · exact absurd ht h1
  · rename_i ht
    have h1 : k ∉ R := fun h => ht (List.mem_append_right _ h)
    have h2 : ∀ e', (k, e') ∉ pending ++ checkAll ck s.sources s.globalCx R := fun e' h =>
      ht (List.mem_append_left _ (List.mem_map.mpr ⟨(k, e'), h, rfl⟩))
    constructor
    · exact fun h => .inr ⟨h1, h2, h⟩
    · rintro (h | ⟨_, _, h⟩)
      · exact absurd h (h2 e)
      · exact h

theorem lookup_freshCx (S : Sources Mod Content) (x : Mod) :
    lookup (freshCx ck S) x =
      if ck.root = x then some ck.builtin else (lookup S x).map (ck.sig x) := by
  simp only [freshCx, lookup_insert, lookup_map_val]

theorem mem_tagged (m k : Mod) (es : List Err) (e : Err) :
    (k, e) ∈ tagged m es ↔ k = m ∧ e ∈ es := by
  simp only [tagged, List.mem_map, Prod.mk.injEq]
  constructor
  · rintro ⟨a, ha, rfl, rfl⟩; exact ⟨rfl, ha⟩
  · rintro ⟨rfl, h⟩; exact ⟨e, h, rfl, rfl⟩

/-- The diagnostics a from-scratch server holds for module `k`. -/
theorem mem_getErrors_fresh (S : Sources Mod Content) (k : Mod) (e : Err) :
    e ∈ getErrors (fresh ck S) k ↔
      (∃ c, lookup S k = some c ∧ e ∈ ck.parseErrs c) ∨
        ∃ m c, lookup S m = some c ∧ (k, e) ∈ ck.check m c (lookup (freshCx ck S)) := by
  have hprod : (k, e) ∈ freshProduced ck S ↔
      (∃ c, lookup S k = some c ∧ e ∈ ck.parseErrs c) ∨
        ∃ m c, lookup S m = some c ∧ (k, e) ∈ ck.check m c (lookup (freshCx ck S)) := by
    simp only [freshProduced, List.mem_append, mem_checkAll, List.mem_flatMap]
    constructor
    · rintro (⟨m, hm, h⟩ | ⟨m, _, c, hc, h⟩)
      · split at h
        · rename_i c hc
          obtain ⟨rfl, he⟩ := (mem_tagged _ _ _ _).mp h
          exact .inl ⟨c, hc, he⟩
        · simp at h
      · exact .inr ⟨m, c, hc, h⟩
    · rintro (⟨c, hc, he⟩ | ⟨m, c, hc, h⟩)
      · exact .inl ⟨k, mem_keys_of_lookup hc, by simp [hc, mem_tagged, he]⟩
      · exact .inr ⟨m, mem_keys_of_lookup hc, c, hc, h⟩
  rw [← hprod]
  simp only [getErrors, fresh, lookup_overwrite]
  split
  · simp [mem_groupFor]
  · rename_i ht
    simp only [lookup, Option.getD_none, List.not_mem_nil, false_iff]
    exact fun h => ht (List.mem_map.mpr ⟨(k, e), h, rfl⟩)

end Recheck

/-! ## Side conditions, invariants -/

section Inv
variable {Mod Content Sig Err : Type} [DecidableEq Mod]
variable (ck : Checker Mod Content Sig Err)

/-- **Frame hypothesis** on the checker parameter: the diagnostics of `m` against a from-scratch
global signature depend only on the sources in the forward import closure of `m`
(ROOT's builtin signature is the same in every from-scratch signature). -/
def Frame : Prop :=
  ∀ (S S' : Sources Mod Content) (m : Mod) (c : Content), lookup S m = some c →
    (∀ x, Reach (fwdEdges ck S) m x → lookup S' x = lookup S x) →
    ck.check m c (lookup (freshCx ck S')) = ck.check m c (lookup (freshCx ck S))

/-- **Locality hypothesis**: checking `m` against a from-scratch global signature only reports
errors located in `m`.  (Against a *stale* signature the real checker does report errors located
in other modules — the locations inside the signature — which is part of finding C10-F1.) -/
def Local : Prop := ∀ (S : Sources Mod Content) (m : Mod) (c : Content) (k : Mod) (e : Err),
  (k, e) ∈ ck.check m c (lookup (freshCx ck S)) → k = m

/-- Signatures do not mention the module they were built under. -/
def SigIndep : Prop := ∀ (m m' : Mod) (c : Content), ck.sig m c = ck.sig m' c

/-- Every source parses without errors. -/
def CleanS (S : Sources Mod Content) : Prop :=
  ∀ (m : Mod) (c : Content), lookup S m = some c → ck.parseErrs c = []

/-- Side condition of the `_partial` theorem, per operation: ROOT is not an operand; written
contents parse without errors; renames only if signatures are module-independent. -/
def OpSafe : Op Mod Content → Prop
  | .update ups => ck.root ∉ keys ups ∧ ∀ p ∈ ups, ck.parseErrs p.2 = []
  | .rename rens => SigIndep ck ∧ ∀ p ∈ rens, p.1 ≠ ck.root ∧ p.2 ≠ ck.root
  | .remove ms => ck.root ∉ ms

def GoodCx (S : Sources Mod Content) (G : List (Mod × Sig)) : Prop :=
  ∀ x, lookup G x = lookup (freshCx ck S) x

def ErrInv (s : State Mod Content Sig Err) : Prop :=
  ∀ k e, e ∈ getErrors s k ↔ e ∈ getErrors (fresh ck s.sources) k

def Inv (s : State Mod Content Sig Err) : Prop :=
  GoodCx ck s.sources s.globalCx ∧ ErrInv ck s ∧ CleanS ck s.sources

/-- `global_cx` has an entry for every source (what the `unwrap()` of `rename_module` needs). -/
def KeysOk (s : State Mod Content Sig Err) : Prop :=
  ∀ m, (lookup s.sources m).isSome → (lookup s.globalCx m).isSome

theorem foldl_inv {σ α : Type} (P : σ → Prop) (f : σ → α → σ) (l : List α)
    (h : ∀ s a, a ∈ l → P s → P (f s a)) (s : σ) (hs : P s) : P (l.foldl f s) := by
  induction l generalizing s with
  | nil => exact hs
  | cons a l ih =>
    simp only [List.foldl_cons]
    exact ih (fun s b hb => h s b (List.mem_cons_of_mem _ hb)) _ (h s a List.mem_cons_self hs)

theorem fresh_local (hL : Local ck) (S : Sources Mod Content) (hc : CleanS ck S) (k : Mod) (e : Err) :
    e ∈ getErrors (fresh ck S) k ↔
      ∃ c, lookup S k = some c ∧ (k, e) ∈ ck.check k c (lookup (freshCx ck S)) := by
  rw [mem_getErrors_fresh]
  constructor
  · rintro (⟨c, h1, h2⟩ | ⟨m, c, h1, h2⟩)
    · rw [hc k c h1] at h2; simp at h2
    · have := hL S m c k e h2; subst this; exact ⟨c, h1, h2⟩
  · rintro ⟨c, h1, h2⟩; exact .inr ⟨k, c, h1, h2⟩

/-- The common core of the three operations: sources changed only inside `D`, `global_cx`
already equal to the from-scratch one, recheck set covering `D` and every module whose forward
closure (in the old or in the new graph) meets `D`. -/
theorem recheck_inv (hF : Frame ck) (hL : Local ck) (s s1 : State Mod Content Sig Err)
    (D R : List Mod) (hinv : Inv ck s) (herr : s1.errors = s.errors)
    (hcx : GoodCx ck s1.sources s1.globalCx) (hclean : CleanS ck s1.sources)
    (hD : ∀ x, x ∉ D → lookup s1.sources x = lookup s.sources x)
    (hDR : ∀ x ∈ D, x ∈ R)
    (hcov : ∀ k, k ∉ R → (∀ x, Reach (fwdEdges ck s.sources) k x → x ∉ D) ∨
      (∀ x, Reach (fwdEdges ck s1.sources) k x → x ∉ D)) :
    Inv ck (recheck ck s1 [] R) := by
  have hG : lookup s1.globalCx = lookup (freshCx ck s1.sources) := funext hcx
  refine ⟨hcx, ?_, hclean⟩
  intro k e
  rw [mem_getErrors_recheck]
  show _ ↔ e ∈ getErrors (fresh ck s1.sources) k
  rw [fresh_local ck hL s1.sources hclean]
  simp only [List.nil_append, mem_checkAll, hG]
  by_cases hk : k ∈ R
  · constructor
    · rintro (⟨m, _, c, h1, h2⟩ | ⟨h, _⟩)
      · have := hL s1.sources m c k e h2; subst this; exact ⟨c, h1, h2⟩
      · exact absurd hk h
    · rintro ⟨c, h1, h2⟩; exact .inl ⟨k, hk, c, h1, h2⟩
  · have hkD : k ∉ D := fun h => hk (hDR k h)
    have hno : ∀ e', ¬ ∃ m ∈ R, ∃ c, lookup s1.sources m = some c ∧
        (k, e') ∈ ck.check m c (lookup (freshCx ck s1.sources)) := by
      rintro e' ⟨m, hm, c, _, h2⟩
      have := hL s1.sources m c k e' h2; subst this; exact hk hm
    have hold : e ∈ getErrors s k ↔
        ∃ c, lookup s.sources k = some c ∧ (k, e) ∈ ck.check k c (lookup (freshCx ck s.sources)) := by
      rw [hinv.2.1 k e, fresh_local ck hL s.sources hinv.2.2]
    have hsame : (∃ c, lookup s.sources k = some c ∧
          (k, e) ∈ ck.check k c (lookup (freshCx ck s.sources))) ↔
        ∃ c, lookup s1.sources k = some c ∧
          (k, e) ∈ ck.check k c (lookup (freshCx ck s1.sources)) := by
      rw [hD k hkD]
      have heq : ∀ c, lookup s.sources k = some c →
          ck.check k c (lookup (freshCx ck s1.sources)) =
            ck.check k c (lookup (freshCx ck s.sources)) := by
        intro c hc
        rcases hcov k hk with h | h
        · exact hF s.sources s1.sources k c hc (fun x hx => hD x (h x hx))
        · exact (hF s1.sources s.sources k c (by rw [hD k hkD]; exact hc)
            (fun x hx => (hD x (h x hx)).symm)).symm
      constructor
      · rintro ⟨c, h1, h2⟩; exact ⟨c, h1, by rw [heq c h1]; exact h2⟩
      · rintro ⟨c, h1, h2⟩; exact ⟨c, h1, by rw [← heq c h1]; exact h2⟩
    have hge : getErrors s1 k = getErrors s k := by simp only [getErrors, herr]
    rw [hge]
    constructor
    · rintro (h | ⟨_, _, h⟩)
      · exact absurd h (hno e)
      · exact hsame.mp (hold.mp h)
    · intro h
      exact .inr ⟨hk, hno, hold.mpr (hsame.mpr h)⟩

end Inv

/-! ## The three operations preserve the invariant -/

section Ops
variable {Mod Content Sig Err : Type} [DecidableEq Mod]
variable (ck : Checker Mod Content Sig Err)

theorem self_mem_affectedSet (S : Sources Mod Content) (D : List Mod) (x : Mod) (hx : x ∈ D) :
    x ∈ affectedSet ck S D :=
  (mem_affectedSet ck S D x).mpr ⟨x, ⟨x, hx, .refl x⟩, .refl x⟩

theorem cov_affectedSet (S : Sources Mod Content) (D : List Mod) (k : Mod)
    (hk : k ∉ affectedSet ck S D) : ∀ x, Reach (fwdEdges ck S) k x → x ∉ D :=
  fun x hx hxD => hk ((mem_affectedSet ck S D k).mpr ⟨k, ⟨x, hxD, hx⟩, .refl k⟩)

theorem update_inv (hF : Frame ck) (hL : Local ck) (s : State Mod Content Sig Err)
    (ups : List (Mod × Content)) (hroot : ck.root ∉ keys ups)
    (hclean : ∀ p ∈ ups, ck.parseErrs p.2 = []) (hinv : Inv ck s) : Inv ck (update ck s ups) := by
  have hfold := foldl_inv
    (fun s' : State Mod Content Sig Err => s'.errors = s.errors ∧
      GoodCx ck s'.sources s'.globalCx ∧ CleanS ck s'.sources ∧
      ∀ x, x ∉ keys ups → lookup s'.sources x = lookup s.sources x)
    (updateOne ck) ups
    (by
      rintro s' p hp ⟨h1, h2, h3, h4⟩
      have hpk : p.1 ∈ keys ups := List.mem_map.mpr ⟨p, hp, rfl⟩
      refine ⟨h1, ?_, ?_, ?_⟩
      · intro x
        have := h2 x
        simp only [updateOne, lookup_insert, lookup_freshCx] at this ⊢
        by_cases hr : ck.root = x
        · have : p.1 ≠ x := fun h => hroot (by rw [hr, ← h]; exact hpk)
          simp_all
        · by_cases hx : p.1 = x
          · subst hx; simp [hr]
          · simp_all
      · intro m c hc
        simp only [updateOne, lookup_insert] at hc
        split at hc
        · cases hc; exact hclean p hp
        · exact h3 m c hc
      · intro x hx
        have : p.1 ≠ x := fun h => hx (h ▸ hpk)
        simp only [updateOne, lookup_insert, this, ↓reduceIte]
        exact h4 x hx)
    s ⟨rfl, hinv.1, hinv.2.2, fun _ _ => rfl⟩
  obtain ⟨h1, h2, h3, h4⟩ := hfold
  have hpend : ups.flatMap (fun p => tagged p.1 (ck.parseErrs p.2)) = [] := by
    rw [List.flatMap_eq_nil_iff]
    intro p hp; simp [tagged, hclean p hp]
  unfold update
  simp only [hpend]
  exact recheck_inv ck hF hL s _ (keys ups) _ hinv h1 h2 h3 h4
    (fun x hx => self_mem_affectedSet ck _ _ x hx)
    (fun k hk => .inr (cov_affectedSet ck _ _ k hk))

theorem remove_inv (hF : Frame ck) (hL : Local ck) (s : State Mod Content Sig Err)
    (ms : List Mod) (hroot : ck.root ∉ ms) (hinv : Inv ck s) : Inv ck (remove ck s ms) := by
  have hfold := foldl_inv
    (fun s' : State Mod Content Sig Err => s'.errors = s.errors ∧
      GoodCx ck s'.sources s'.globalCx ∧ CleanS ck s'.sources ∧
      ∀ x, x ∉ ms → lookup s'.sources x = lookup s.sources x)
    removeOne ms
    (by
      rintro s' m hm ⟨h1, h2, h3, h4⟩
      refine ⟨h1, ?_, ?_, ?_⟩
      · intro x
        have := h2 x
        simp only [removeOne, lookup_erase, lookup_freshCx] at this ⊢
        by_cases hr : ck.root = x
        · have : m ≠ x := fun h => hroot (by rw [hr, ← h]; exact hm)
          simp_all
        · by_cases hx : m = x
          · subst hx; simp [hr]
          · simp_all
      · intro k c hc
        simp only [removeOne, lookup_erase] at hc
        split at hc
        · cases hc
        · exact h3 k c hc
      · intro x hx
        have : m ≠ x := fun h => hx (h ▸ hm)
        simp only [removeOne, lookup_erase, this, ↓reduceIte]
        exact h4 x hx)
    s ⟨rfl, hinv.1, hinv.2.2, fun _ _ => rfl⟩
  obtain ⟨h1, h2, h3, h4⟩ := hfold
  unfold remove
  exact recheck_inv ck hF hL s _ ms _ hinv h1 h2 h3 h4
    (fun x hx => self_mem_affectedSet ck _ _ x hx)
    (fun k hk => .inl (cov_affectedSet ck _ _ k hk))

theorem rename_inv (hF : Frame ck) (hL : Local ck) (s : State Mod Content Sig Err)
    (rens : List (Mod × Mod)) (hsig : SigIndep ck)
    (hroot : ∀ p ∈ rens, p.1 ≠ ck.root ∧ p.2 ≠ ck.root) (hinv : Inv ck s) :
    Inv ck (rename ck s rens) := by
  have hfold := foldl_inv
    (fun acc : State Mod Content Sig Err × List (Mod × Err) => acc.2 = [] ∧
      acc.1.errors = s.errors ∧
      GoodCx ck acc.1.sources acc.1.globalCx ∧ CleanS ck acc.1.sources ∧
      ∀ x, x ∉ rens.flatMap (fun p => [p.1, p.2]) → lookup acc.1.sources x = lookup s.sources x)
    (renameOne ck) rens
    (by
      rintro ⟨s', pend⟩ p hp ⟨h0, h1, h2, h3, h4⟩
      simp only at h0 h1 h2 h3 h4
      have hpD1 : p.1 ∈ rens.flatMap (fun p => [p.1, p.2]) :=
        List.mem_flatMap.mpr ⟨p, hp, by simp⟩
      have hpD2 : p.2 ∈ rens.flatMap (fun p => [p.1, p.2]) :=
        List.mem_flatMap.mpr ⟨p, hp, by simp⟩
      have hr1 := (hroot p hp).1
      have hr2 := (hroot p hp).2
      unfold renameOne
      simp only
      cases hl : lookup s'.sources p.1 with
      | none => exact ⟨h0, h1, h2, h3, h4⟩
      | some c =>
        have hg : lookup s'.globalCx p.1 = some (ck.sig p.1 c) := by
          rw [h2 p.1, lookup_freshCx, hl]
          have : ¬ ck.root = p.1 := fun h => hr1 h.symm
          simp [this]
        simp only [hg]
        refine ⟨by simp [h0, tagged, h3 p.1 c hl], h1, ?_, ?_, ?_⟩
        · intro x
          have := h2 x
          simp only [lookup_insert, lookup_erase, lookup_freshCx] at this ⊢
          by_cases hr : ck.root = x
          · have e1 : p.1 ≠ x := fun h => hr1 (by rw [h, hr])
            have e2 : p.2 ≠ x := fun h => hr2 (by rw [h, hr])
            simp_all
          · by_cases hx2 : p.2 = x
            · subst hx2; simp [hr, hsig p.2 p.1 c]
            · by_cases hx1 : p.1 = x
              · subst hx1; simp [hr, hx2]
              · simp_all
        · intro k c' hc
          simp only [lookup_insert, lookup_erase] at hc
          split at hc
          · cases hc; exact h3 p.1 c hl
          · split at hc
            · cases hc
            · exact h3 k c' hc
        · intro x hx
          have e1 : p.1 ≠ x := fun h => hx (h ▸ hpD1)
          have e2 : p.2 ≠ x := fun h => hx (h ▸ hpD2)
          simp only [lookup_insert, lookup_erase, e1, e2, ↓reduceIte]
          exact h4 x hx)
    (s, []) ⟨rfl, rfl, hinv.1, hinv.2.2, fun _ _ => rfl⟩
  obtain ⟨h0, h1, h2, h3, h4⟩ := hfold
  unfold rename
  simp only [h0]
  exact recheck_inv ck hF hL s _ (rens.flatMap (fun p => [p.1, p.2])) _ hinv h1 h2 h3 h4
    (fun x hx => self_mem_affectedSet ck _ _ x hx)
    (fun k hk => .inl (cov_affectedSet ck _ _ k hk))

theorem step_inv (hF : Frame ck) (hL : Local ck) (s : State Mod Content Sig Err)
    (op : Op Mod Content) (hop : OpSafe ck op) (hinv : Inv ck s) : Inv ck (step ck s op) := by
  cases op with
  | update ups => exact update_inv ck hF hL s ups hop.1 hop.2 hinv
  | rename rens => exact rename_inv ck hF hL s rens hop.1 hop.2 hinv
  | remove ms => exact remove_inv ck hF hL s ms hop hinv

theorem fresh_inv (S : Sources Mod Content) (hc : CleanS ck S) : Inv ck (fresh ck S) :=
  ⟨fun _ => rfl, fun _ _ => Iff.rfl, hc⟩

/-! ### The server's file map is the file-system view -/

theorem sources_update_fold (s : State Mod Content Sig Err) (ups : List (Mod × Content)) :
    (ups.foldl (updateOne ck) s).sources = ups.foldl (fun S p => insert S p.1 p.2) s.sources := by
  induction ups generalizing s with
  | nil => rfl
  | cons p ps ih => simp only [List.foldl_cons, ih]; rfl

theorem sources_remove_fold (s : State Mod Content Sig Err) (ms : List Mod) :
    (ms.foldl removeOne s).sources = ms.foldl erase s.sources := by
  induction ms generalizing s with
  | nil => rfl
  | cons p ps ih => simp only [List.foldl_cons, ih]; rfl

theorem sources_renameOne (acc : State Mod Content Sig Err × List (Mod × Err)) (p : Mod × Mod) :
    (renameOne ck acc p).1.sources = applyRename acc.1.sources p := by
  unfold renameOne applyRename
  simp only
  cases lookup acc.1.sources p.1 <;> rfl

theorem sources_rename_fold (acc : State Mod Content Sig Err × List (Mod × Err))
    (rens : List (Mod × Mod)) :
    (rens.foldl (renameOne ck) acc).1.sources = rens.foldl applyRename acc.1.sources := by
  induction rens generalizing acc with
  | nil => rfl
  | cons p ps ih => simp only [List.foldl_cons, ih, sources_renameOne]

theorem sources_step (s : State Mod Content Sig Err) (op : Op Mod Content) :
    (step ck s op).sources = applyOp s.sources op := by
  cases op with
  | update ups => exact sources_update_fold ck s ups
  | rename rens => exact sources_rename_fold ck (s, []) rens
  | remove ms => exact sources_remove_fold s ms

theorem sources_run (ops : List (Op Mod Content)) (s : State Mod Content Sig Err) :
    (run ck ops s).sources = applyOps ops s.sources := by
  induction ops generalizing s with
  | nil => rfl
  | cons op ops ih =>
    simp only [run, applyOps, List.foldl_cons] at ih ⊢
    rw [ih, sources_step]

/-! ### The `unwrap()`s of `rename_module` -/

theorem keysOk_fresh (S : Sources Mod Content) : KeysOk (fresh ck S) := by
  intro m hm
  show (lookup (freshCx ck S) m).isSome
  rw [lookup_freshCx]
  have hm' : (lookup S m).isSome := hm
  split
  · rfl
  · simpa using hm'

theorem keysOk_updateOne (s : State Mod Content Sig Err) (p : Mod × Content) (h : KeysOk s) :
    KeysOk (updateOne ck s p) := by
  intro m hm
  have := h m
  simp only [updateOne, lookup_insert] at hm ⊢
  split <;> simp_all

theorem keysOk_removeOne (s : State Mod Content Sig Err) (m' : Mod) (h : KeysOk s) :
    KeysOk (removeOne s m') := by
  intro m hm
  have := h m
  simp only [removeOne, lookup_erase] at hm ⊢
  split <;> simp_all

theorem keysOk_renameOne (acc : State Mod Content Sig Err × List (Mod × Err)) (p : Mod × Mod)
    (h : KeysOk acc.1) : KeysOk (renameOne ck acc p).1 := by
  unfold renameOne
  simp only
  cases hl : lookup acc.1.sources p.1 with
  | none => exact h
  | some c =>
    have hs := h p.1 (by simp [hl])
    cases hg : lookup acc.1.globalCx p.1 with
    | none => simp [hg] at hs
    | some sg =>
      intro m hm
      have := h m
      simp only [lookup_insert, lookup_erase] at hm ⊢
      by_cases h2 : p.2 = m
      · simp [h2]
      · by_cases h1 : p.1 = m
        · simp [h1, h2] at hm
        · simp only [h1, h2, ↓reduceIte] at hm ⊢
          exact this hm

theorem renameOne_fst (s : State Mod Content Sig Err) (pend pend' : List (Mod × Err))
    (p : Mod × Mod) : (renameOne ck (s, pend) p).1 = (renameOne ck (s, pend') p).1 := by
  unfold renameOne
  simp only
  cases lookup s.sources p.1 <;> rfl

theorem renameOk_of_keysOk (s : State Mod Content Sig Err) (rens : List (Mod × Mod))
    (h : KeysOk s) : RenameOk ck s rens := by
  induction rens generalizing s with
  | nil => trivial
  | cons p ps ih => exact ⟨h p.1, ih _ (keysOk_renameOne ck (s, []) p h)⟩

theorem keysOk_step (s : State Mod Content Sig Err) (op : Op Mod Content) (h : KeysOk s) :
    KeysOk (step ck s op) := by
  cases op with
  | update ups =>
    show KeysOk (ups.foldl (updateOne ck) s)
    exact foldl_inv KeysOk (updateOne ck) ups (fun s p _ hs => keysOk_updateOne ck s p hs) s h
  | rename rens =>
    show KeysOk (rens.foldl (renameOne ck) (s, [])).1
    exact foldl_inv (fun acc => KeysOk acc.1) (renameOne ck) rens
      (fun acc p _ hs => keysOk_renameOne ck acc p hs) (s, []) h
  | remove ms =>
    show KeysOk (ms.foldl removeOne s)
    exact foldl_inv KeysOk removeOne ms (fun s p _ hs => keysOk_removeOne s p hs) s h

end Ops

end SamVerif.Incremental
