import SamVerif.Model.TailStmt
import SamVerif.Lemmas.TailRec
/-! Helper lemmas for C01 / K3b: the tail-recursion rewrite over statement lists. -/
namespace SamVerif.TailStmt
open SamVerif.TailRec (Name Expr Env upd bindParams seqAssign readsOther)
open SamVerif.Opt (Op)

variable (ev : Op → Int → Int → Option Int) (callee : List Int → Option Int)

theorem exec_append (a b : Blk) : ∀ (env : Env),
    execBlk ev callee env (a.append b) =
      match execBlk ev callee env a with
      | none => none
      | some (.broke v) => some (.broke v)
      | some (.next e) => execBlk ev callee e b := by
  induction a with
  | done => intro env; simp [Blk.append, execBlk]
  | bin x op e1 e2 k ih =>
    intro env
    simp only [Blk.append, execBlk]
    split
    · rfl
    · exact ih _
  | cast x e k ih => intro env; simp only [Blk.append, execBlk]; exact ih _
  | call args rc k ih =>
    intro env
    simp only [Blk.append, execBlk]
    split
    · rfl
    · exact ih _
  | ifElse c s1 s2 fs k _ _ ih =>
    intro env
    simp only [Blk.append, execBlk]
    split
    · split
      · rfl
      · rfl
      · exact ih _
    · split
      · rfl
      · rfl
      · exact ih _
  | sif c inv body k _ ih =>
    intro env
    simp only [Blk.append, execBlk]
    split
    · split
      · rfl
      · rfl
      · exact ih _
    · exact ih _
  | brk e => intro env; simp [Blk.append, execBlk]

theorem foldl_upd_notin (val : Final → Int) : ∀ (fs : List Final) (e0 : Env) (x : Name),
    x ∉ fs.map (·.1) → (fs.foldl (fun e f => upd e f.1 (val f)) e0) x = e0 x := by
  intro fs
  induction fs with
  | nil => intro e0 x _; rfl
  | cons g rest ih =>
    intro e0 x h
    simp only [List.map_cons, List.mem_cons, not_or] at h
    simp only [List.foldl_cons]
    rw [ih _ x h.2]
    simp [upd, h.1]

theorem foldl_upd_mem (val : Final → Int) : ∀ (fs : List Final) (e0 : Env) (f : Final),
    (fs.map (·.1)).Nodup → f ∈ fs → (fs.foldl (fun e g => upd e g.1 (val g)) e0) f.1 = val f := by
  intro fs
  induction fs with
  | nil => intro e0 f _ h; cases h
  | cons g rest ih =>
    intro e0 f hnd hm
    simp only [List.map_cons, List.nodup_cons] at hnd
    simp only [List.foldl_cons]
    rcases List.mem_cons.mp hm with h | h
    · subst h
      rw [foldl_upd_notin val rest _ _ hnd.1]
      simp [upd]
    · exact ih _ f hnd.2 h

theorem applyFinals_mem (env : Env) (b : Bool) (fs : List Final) (f : Final)
    (hnd : (fs.map (·.1)).Nodup) (hm : f ∈ fs) :
    applyFinals env b fs f.1 = (if b then f.2.1 else f.2.2).eval env :=
  foldl_upd_mem (fun g => (if b then g.2.1 else g.2.2).eval env) fs env f hnd hm

theorem tryRw_none_of_noBareTail (np : Nat) (b : Blk) : ∀ (n : Nat),
    noBareTail b = true → tryRw np b none n = none := by
  induction b with
  | done => intro n _; simp [tryRw]
  | brk e => intro n _; simp [tryRw]
  | bin x op e1 e2 k ih =>
    intro n h
    simp only [tryRw]
    split
    · rfl
    · rename_i hk
      simp only [noBareTail, hk, Bool.false_or] at h
      simp [ih n h]
  | cast x e k ih =>
    intro n h
    simp only [tryRw]
    split
    · rfl
    · rename_i hk
      simp only [noBareTail, hk, Bool.false_or] at h
      simp [ih n h]
  | sif c inv body k _ ih =>
    intro n h
    simp only [tryRw]
    split
    · rfl
    · rename_i hk
      simp only [noBareTail, hk, Bool.false_or] at h
      simp [ih n h]
  | call args rc k ih =>
    intro n h
    simp only [tryRw]
    split
    · rename_i hk
      simp only [noBareTail, hk, if_true] at h
      cases rc with
      | none => simp at h
      | some r => simp
    · rename_i hk
      simp only [noBareTail, hk] at h
      simp [ih n (by simpa using h)]
  | ifElse c s1 s2 fs k ih1 ih2 ihk =>
    intro n h
    simp only [tryRw]
    split
    · rename_i hk
      simp only [noBareTail, hk, if_true, Bool.and_eq_true] at h
      simp [ih1 n h.1, ih2 n h.2]
    · rename_i hk
      simp only [noBareTail, hk] at h
      simp [ihk n (by simpa using h)]

theorem plain_no_broke (b : Blk) : ∀ (env : Env) (v : Int), plain b = true →
    execBlk ev callee env b ≠ some (.broke v) := by
  induction b with
  | done => intro env v _; simp [execBlk]
  | brk e => intro env v h; simp [plain] at h
  | sif c inv body k _ _ => intro env v h; simp [plain] at h
  | bin x op e1 e2 k ih =>
    intro env v h
    simp only [execBlk]
    split
    · simp
    · exact ih _ v (by simpa [plain] using h)
  | cast x e k ih => intro env v h; simp only [execBlk]; exact ih _ v (by simpa [plain] using h)
  | call args rc k ih =>
    intro env v h
    simp only [execBlk]
    split
    · simp
    · exact ih _ v (by simpa [plain] using h)
  | ifElse c s1 s2 fs k ih1 ih2 ihk =>
    intro env v h
    simp only [plain, Bool.and_eq_true] at h
    simp only [execBlk]
    split
    · split
      · simp
      · rename_i hq; exact absurd hq (ih1 _ _ h.1.1)
      · exact ihk _ v h.2
    · split
      · simp
      · rename_i hq; exact absurd hq (ih2 _ _ h.1.2)
      · exact ihk _ v h.2

theorem tryRw_args_length (np : Nat) (b : Blk) : ∀ (erc : Option Name) (n : Nat) (res : RwRes),
    tryRw np b erc n = some res → good np b erc = true → res.2.1.length = np := by
  induction b with
  | done => intro erc n res h; simp [tryRw] at h
  | brk e => intro erc n res h; simp [tryRw] at h
  | bin x op e1 e2 k ih =>
    intro erc n res h hg
    simp only [tryRw] at h
    split at h
    · cases h
    · cases hk : tryRw np k erc n with
      | none => simp [hk] at h
      | some r => simp [hk] at h; subst h; exact ih erc n r hk (by simpa [good] using hg)
  | cast x e k ih =>
    intro erc n res h hg
    simp only [tryRw] at h
    split at h
    · cases h
    · cases hk : tryRw np k erc n with
      | none => simp [hk] at h
      | some r => simp [hk] at h; subst h; exact ih erc n r hk (by simpa [good] using hg)
  | sif c inv body k _ ih =>
    intro erc n res h hg
    simp only [tryRw] at h
    split at h
    · cases h
    · cases hk : tryRw np k erc n with
      | none => simp [hk] at h
      | some r => simp [hk] at h; subst h; exact ih erc n r hk (by simpa [good] using hg)
  | call args rc k ih =>
    intro erc n res h hg
    simp only [tryRw] at h
    split at h
    · rename_i hd
      split at h
      · cases h
        simp only [good, hd, if_true, Bool.and_eq_true, beq_iff_eq] at hg
        exact hg.1
      · cases h
    · rename_i hd
      cases hk : tryRw np k erc n with
      | none => simp [hk] at h
      | some r =>
        simp [hk] at h; subst h
        exact ih erc n r hk (by simpa [good, hd] using hg)
  | ifElse c s1 s2 fs k ih1 ih2 ihk =>
    intro erc n res h hg
    simp only [tryRw] at h
    split at h
    · rename_i hd
      split at h
      · cases h
      · rename_i c1 c2 hnew
        -- goodness of the branches under their collectors
        have hgs : good np s1 c1 = true ∧ good np s2 c2 = true := by
          simp only [good, hd, if_true, Bool.and_eq_true] at hg
          cases erc with
          | none =>
            simp at hnew
            obtain ⟨rfl, rfl⟩ := hnew
            simpa using hg.2
          | some x =>
            simp only at hnew
            split at hnew
            · rename_i f hf
              simp only [Option.some.injEq, Prod.mk.injEq] at hnew
              obtain ⟨rfl, rfl⟩ := hnew
              simp only [hf, Bool.and_eq_true] at hg
              exact ⟨hg.2.1.1.1, hg.2.1.1.2⟩
            · cases hnew
        split at h
        · split at h
          · cases h
          · rename_i st2 a2 n2 h2
            cases h
            exact ih2 c2 n (st2, a2, n2) h2 hgs.2
        · rename_i st1 a1 n1 h1
          split at h
          · cases h
            exact ih1 c1 n (st1, a1, n1) h1 hgs.1
          · rename_i st2 a2 n2 h2
            cases h
            have l1 := ih1 c1 n (st1, a1, n1) h1 hgs.1
            have l2 := ih2 c2 n1 (st2, a2, n2) h2 hgs.2
            simp only at l1 l2
            simp [mkTemps, l1, l2]
    · rename_i hd
      cases hk : tryRw np k erc n with
      | none => simp [hk] at h
      | some r =>
        simp [hk] at h; subst h
        exact ihk erc n r hk (by simpa [good, hd] using hg)

theorem mkTemps_nodup (n cnt : Nat) : (mkTemps n cnt).Nodup := by
  have : mkTemps n cnt = List.range' (tempBase + n) cnt := by
    unfold mkTemps
    rw [List.range'_eq_map_range]
  rw [this]
  exact List.nodup_range'

theorem mkTemps_length (n cnt : Nat) : (mkTemps n cnt).length = cnt := by simp [mkTemps]

theorem temp_value (e2 : Env) (b : Bool) (kept : List Final) (ts : List Name) (a1 a2 : List Expr)
    (hnd : ts.Nodup) (h1 : a1.length = ts.length) (h2 : a2.length = ts.length)
    (j : Nat) (hj : j < ts.length) :
    applyFinals e2 b (kept ++ (ts.zip (a1.zip a2)).map fun t => (t.1, t.2.1, t.2.2)) ts[j] =
      (if b then a1[j]'(by omega) else a2[j]'(by omega)).eval e2 := by
  unfold applyFinals
  rw [List.foldl_append]
  have hj1' : j < a1.length := by omega
  have hj2' : j < a2.length := by omega
  have hmem : (ts[j], a1[j], a2[j]) ∈ ((ts.zip (a1.zip a2)).map fun t => ((t.1, t.2.1, t.2.2) : Final)) := by
    apply List.mem_iff_getElem.mpr
    refine ⟨j, by simp; omega, ?_⟩
    simp
  have hnames : (((ts.zip (a1.zip a2)).map fun t => ((t.1, t.2.1, t.2.2) : Final)).map (·.1)) = ts := by
    simp only [List.map_map]
    have : ((fun x : Final => x.1) ∘ fun t : Name × Expr × Expr => ((t.1, t.2.1, t.2.2) : Final)) = Prod.fst := by
      funext t; rfl
    rw [this]
    exact List.map_fst_zip (by simp; omega)
  have := foldl_upd_mem (fun g => (if b then g.2.1 else g.2.2).eval e2)
    ((ts.zip (a1.zip a2)).map fun t => ((t.1, t.2.1, t.2.2) : Final))
    (kept.foldl (fun e f => upd e f.1 ((if b then f.2.1 else f.2.2).eval e2)) e2)
    (ts[j], a1[j], a2[j]) (by rw [hnames]; exact hnd) hmem
  simp only at this
  rw [this]

/-- After the final assignments of the `(Ok, Ok)` case, the fresh temporaries hold the loop values
of the taken branch, read at the end of that branch. -/
theorem temps_values (e2 : Env) (b : Bool) (kept : List Final) (ts : List Name) (a1 a2 : List Expr)
    (hnd : ts.Nodup) (h1 : a1.length = ts.length) (h2 : a2.length = ts.length) :
    (ts.map Expr.var).map (Expr.eval
        (applyFinals e2 b (kept ++ (ts.zip (a1.zip a2)).map fun t => (t.1, t.2.1, t.2.2)))) =
      (if b then a1 else a2).map (Expr.eval e2) := by
  apply List.ext_getElem
  · cases b <;> simp [h1, h2]
  · intro j hj1 hj2
    have hj : j < ts.length := by simpa using hj1
    simp only [List.getElem_map]
    show (applyFinals e2 b _) ts[j] = _
    rw [temp_value e2 b kept ts a1 a2 hnd h1 h2 j hj]
    cases b <;> simp


section core
variable (ev : Op → Int → Int → Option Int) (callee : List Int → Option Int)

/-- One activation of the recursive function (`r`) against one iteration of the loop body (`l`):
* the loop body traps            ⇒ so does the activation;
* the loop body breaks with `v`  ⇒ the activation ends with `v` in the expected collector;
* the loop body falls through with loop values `args` ⇒ the activation ends with whatever the
  callee returns on those values in the expected collector (and traps if the callee does). -/
def RelL (erc : Option Name) (args : List Expr) (r l : Option Flow) : Prop :=
  match l with
  | none => r = none
  | some (.broke v) => ∃ env', r = some (.next env') ∧ ∀ x, erc = some x → env' x = v
  | some (.next e2) =>
    match callee (args.map (Expr.eval e2)) with
    | none => r = none
    | some rv => ∃ env', r = some (.next env') ∧ ∀ x, erc = some x → env' x = rv

/-- Running a final `IfElse` branch and then its final assignments. -/
def thenFinals (b : Bool) (fs : List Final) : Option Flow → Option Flow
  | none => none
  | some (.broke v) => some (.broke v)
  | some (.next e1) => some (.next (applyFinals e1 b fs))

/-- Value transfer through the final assignments. -/
def VT (erc ci : Option Name) (b : Bool) (fs : List Final) : Prop :=
  ∀ (e' : Env) (v : Int), (∀ y, ci = some y → e' y = v) → ∀ x, erc = some x → applyFinals e' b fs x = v

theorem lift_direct (erc ci : Option Name) (args : List Expr) (b : Bool) (fs : List Final)
    (ri li : Option Flow) (h : RelL callee ci args ri li) (vt : VT erc ci b fs) :
    RelL callee erc args (thenFinals b fs ri) li := by
  cases li with
  | none =>
    have : ri = none := h
    subst this; exact rfl
  | some fl =>
    cases fl with
    | broke v =>
      obtain ⟨e', rfl, hc⟩ : ∃ env', ri = some (.next env') ∧ ∀ x, ci = some x → env' x = v := h
      exact ⟨_, rfl, vt e' v hc⟩
    | next e2 =>
      cases hcal : callee (args.map (Expr.eval e2)) with
      | none =>
        have : ri = none := by simpa [RelL, hcal] using h
        subst this
        simp [RelL, hcal, thenFinals]
      | some rv =>
        obtain ⟨e', rfl, hc⟩ : ∃ env', ri = some (.next env') ∧ ∀ x, ci = some x → env' x = rv := by
          simpa [RelL, hcal] using h
        simp only [RelL, hcal, thenFinals]
        exact ⟨_, rfl, vt e' rv hc⟩

theorem lift_merge (erc ci : Option Name) (ai : List Expr) (b : Bool) (fs kept : List Final)
    (ts : List Name) (a1 a2 : List Expr) (hai : ai = if b then a1 else a2)
    (hnd : ts.Nodup) (h1 : a1.length = ts.length) (h2 : a2.length = ts.length)
    (ri li : Option Flow) (h : RelL callee ci ai ri li) (vt : VT erc ci b fs) :
    RelL callee erc (ts.map Expr.var) (thenFinals b fs ri)
      (thenFinals b (kept ++ (ts.zip (a1.zip a2)).map fun t => (t.1, t.2.1, t.2.2)) li) := by
  cases li with
  | none =>
    have : ri = none := h
    subst this; exact rfl
  | some fl =>
    cases fl with
    | broke v =>
      obtain ⟨e', rfl, hc⟩ : ∃ env', ri = some (.next env') ∧ ∀ x, ci = some x → env' x = v := h
      exact ⟨_, rfl, vt e' v hc⟩
    | next e2 =>
      have hv := temps_values e2 b kept ts a1 a2 hnd h1 h2
      rw [← hai] at hv
      cases hcal : callee (ai.map (Expr.eval e2)) with
      | none =>
        have : ri = none := by simpa [RelL, hcal] using h
        subst this
        simp only [RelL, thenFinals, hv, hcal]
      | some rv =>
        obtain ⟨e', rfl, hc⟩ : ∃ env', ri = some (.next env') ∧ ∀ x, ci = some x → env' x = rv := by
          simpa [RelL, hcal] using h
        simp only [RelL, thenFinals, hv, hcal]
        exact ⟨_, rfl, vt e' rv hc⟩

theorem vt_none (ci : Option Name) (b : Bool) (fs : List Final) : VT none ci b fs := by
  intro e' v _ x hx; cases hx

theorem vt_some (x : Name) (b : Bool) (fs : List Final) (f : Final) (y : Name)
    (hnd : (fs.map (·.1)).Nodup) (hm : f ∈ fs) (hx : f.1 = x)
    (hy : (if b then f.2.1 else f.2.2) = .var y) : VT (some x) (some y) b fs := by
  intro e' v hc x' hx'
  cases hx'
  rw [← hx, applyFinals_mem e' b fs f hnd hm, hy]
  exact hc y rfl


theorem isDone_eq (k : Blk) (h : k.isDone = true) : k = .done := by
  cases k <;> simp [Blk.isDone] at h ⊢

theorem exec_ifElse_done (c : Expr) (s1 s2 : Blk) (fs : List Final) (env : Env) :
    execBlk ev callee env (.ifElse c s1 s2 fs .done) =
      if c.eval env ≠ 0 then thenFinals true fs (execBlk ev callee env s1)
      else thenFinals false fs (execBlk ev callee env s2) := by
  simp only [execBlk]
  split
  · split <;> simp_all [thenFinals]
  · split <;> simp_all [thenFinals]

/-- **Core**: a list accepted by the rewrite, executed once, against its rewritten form. -/
theorem core (np : Nat) (hadd : ∀ z, ev .add 0 0 = some z → True) (hadd' : (ev .add 0 0).isSome = true)
    (b : Blk) : ∀ (erc : Option Name) (n : Nat) (res : RwRes),
    tryRw np b erc n = some res → plain b = true → good np b erc = true → ∀ (env : Env),
      RelL callee erc res.2.1 (execBlk ev callee env b) (execBlk ev callee env res.1) := by
  induction b with
  | done => intro erc n res h; simp [tryRw] at h
  | brk e => intro erc n res h; simp [tryRw] at h
  | sif c inv body k _ _ => intro erc n res _ hp; simp [plain] at hp
  | bin x op e1 e2 k ih =>
    intro erc n res h hp hg env
    simp only [tryRw] at h
    split at h
    · cases h
    · cases hk : tryRw np k erc n with
      | none => simp [hk] at h
      | some r =>
        simp [hk] at h; subst h
        simp only [execBlk]
        split
        · exact rfl
        · exact ih erc n r hk (by simpa [plain] using hp) (by simpa [good] using hg) _
  | cast x e k ih =>
    intro erc n res h hp hg env
    simp only [tryRw] at h
    split at h
    · cases h
    · cases hk : tryRw np k erc n with
      | none => simp [hk] at h
      | some r =>
        simp [hk] at h; subst h
        simp only [execBlk]
        exact ih erc n r hk (by simpa [plain] using hp) (by simpa [good] using hg) _
  | call args rc k ih =>
    intro erc n res h hp hg env
    simp only [tryRw] at h
    split at h
    · rename_i hd
      have hkd := isDone_eq k hd
      subst hkd
      split at h
      · rename_i hrc
        cases h
        subst hrc
        simp only [good, Blk.isDone, if_true, Bool.and_eq_true, beq_iff_eq] at hg
        cases rc with
        | none =>
          simp only [execBlk]
          cases hcal : callee (args.map (Expr.eval env)) with
          | none => simp [RelL, hcal]
          | some rv => simp [RelL, hcal]
        | some r =>
          obtain ⟨z, hz⟩ := Option.isSome_iff_exists.mp hadd'
          have hfresh : ∀ a ∈ args, a ≠ .var r := by
            intro a ha hav
            have := hg.2
            simp only [Bool.not_eq_true', List.contains_eq_mem, decide_eq_false_iff_not,
              List.mem_flatMap, not_exists, not_and] at this
            exact this a ha (by subst hav; simp [exprVar])
          have hargs : args.map (Expr.eval (upd env r z)) = args.map (Expr.eval env) :=
            List.map_congr_left (fun a ha => TailRec.eval_upd_of_ne env r z a (hfresh a ha))
          simp only [execBlk, Expr.eval, hz]
          cases hcal : callee (args.map (Expr.eval env)) with
          | none => simp [RelL, hargs, hcal]
          | some rv =>
            simp only [RelL, hargs, hcal]
            exact ⟨_, rfl, fun x hx => by cases hx; simp [upd]⟩
      · cases h
    · rename_i hd
      cases hk : tryRw np k erc n with
      | none => simp [hk] at h
      | some r =>
        simp [hk] at h; subst h
        simp only [execBlk]
        split
        · exact rfl
        · exact ih erc n r hk (by simpa [plain] using hp) (by simpa [good, hd] using hg) _
  | ifElse c s1 s2 fs k ih1 ih2 ihk =>
    intro erc n res h hp hg env
    simp only [plain, Bool.and_eq_true] at hp
    simp only [tryRw] at h
    split at h
    · rename_i hd
      have hkd := isDone_eq k hd
      subst hkd
      rw [exec_ifElse_done]
      split at h
      · cases h
      · rename_i c1 c2 hnew
        have hgd : (fs.map (·.1)).Nodup ∧ good np s1 c1 = true ∧ good np s2 c2 = true ∧
            (∀ n1 r1, tryRw np s1 c1 n1 = some r1 → VT erc c1 true fs) ∧
            (∀ n2 r2, tryRw np s2 c2 n2 = some r2 → VT erc c2 false fs) ∧
            (∀ x, erc = some x → ∃ f, fs.find? (fun f => erc == some f.1) = some f ∧ f ∈ fs ∧ f.1 = x) := by
          simp only [good, Blk.isDone, if_true, Bool.and_eq_true, decide_eq_true_eq] at hg
          refine ⟨hg.1, ?_⟩
          cases erc with
          | none =>
            simp at hnew
            obtain ⟨rfl, rfl⟩ := hnew
            have := hg.2
            simp only [Bool.and_eq_true] at this
            exact ⟨this.1, this.2, fun _ _ _ => vt_none _ _ _, fun _ _ _ => vt_none _ _ _,
              fun x hx => by cases hx⟩
          | some x =>
            simp only at hnew
            split at hnew
            · rename_i f hf
              simp only [Option.some.injEq, Prod.mk.injEq] at hnew
              obtain ⟨rfl, rfl⟩ := hnew
              have hmem : f ∈ fs := List.mem_of_find?_eq_some hf
              have hfx : f.1 = x := by
                have := List.find?_some hf
                simp only [beq_iff_eq, Option.some.injEq] at this
                exact this.symm
              have hg2 := hg.2
              simp only [hf, Bool.and_eq_true, Bool.or_eq_true] at hg2
              refine ⟨hg2.1.1.1, hg2.1.1.2, ?_, ?_, ?_⟩
              · intro n1 r1 hs
                cases hq : f.2.1 with
                | var y => simpa [asVar, hq] using vt_some x true fs f y hg.1 hmem hfx (by simp [hq])
                | lit m =>
                  have : noBareTail s1 = true := by
                    rcases hg2.1.2 with h' | h'
                    · simp [asVar, hq] at h'
                    · exact h'
                  have := tryRw_none_of_noBareTail np s1 n1 this
                  simp [asVar, hq, this] at hs
              · intro n2 r2 hs
                cases hq : f.2.2 with
                | var y => simpa [asVar, hq] using vt_some x false fs f y hg.1 hmem hfx (by simp [hq])
                | lit m =>
                  have : noBareTail s2 = true := by
                    rcases hg2.2 with h' | h'
                    · simp [asVar, hq] at h'
                    · exact h'
                  have := tryRw_none_of_noBareTail np s2 n2 this
                  simp [asVar, hq, this] at hs
              · intro x' hx'; cases hx'; exact ⟨f, hf, hmem, hfx⟩
            · cases hnew
        obtain ⟨hnd, hg1, hg2, hvt1, hvt2, hrel⟩ := hgd
        split at h
        · -- s1: Err
          split at h
          · cases h
          · rename_i st2 a2 n2 h2
            cases h
            simp only [execBlk]
            by_cases hb : c.eval env ≠ 0
            · simp only [ne_eq, hb, not_false_eq_true, not_true_eq_false, if_true, if_false, decide_true, decide_false, Bool.true_bne, Bool.false_bne, Bool.not_false, Bool.not_true, bne_self_eq_false, Bool.false_eq_true, decide_not, Bool.not_eq_true']
              rw [exec_append]
              cases hs : execBlk ev callee env s1 with
              | none => simp [RelL, thenFinals]
              | some fl =>
                cases fl with
                | broke v => exact absurd hs (plain_no_broke ev callee s1 _ _ hp.1.1)
                | next e1 =>
                  simp only [execBlk, thenFinals, RelL]
                  refine ⟨_, rfl, ?_⟩
                  intro x hx
                  obtain ⟨f, hf, hm, hfx⟩ := hrel x hx
                  simp only [hf]
                  rw [← hfx, applyFinals_mem e1 true fs f hnd hm]
                  simp
            · have hb0 : c.eval env = 0 := by simpa using hb
              simp only [ne_eq, hb0, not_false_eq_true, not_true_eq_false, if_true, if_false, decide_true, decide_false, Bool.true_bne, Bool.false_bne, Bool.not_false, Bool.not_true, bne_self_eq_false, Bool.false_eq_true, decide_not, Bool.not_eq_true']
              exact lift_direct callee erc c2 a2 false fs _ _
                (ih2 c2 n (st2, a2, n2) h2 hp.1.2 hg2 env) (hvt2 n _ h2)
        · rename_i st1 a1 n1 h1
          split at h
          · -- s2: Err
            cases h
            simp only [execBlk]
            by_cases hb : c.eval env ≠ 0
            · simp only [ne_eq, hb, not_false_eq_true, not_true_eq_false, if_true, if_false, decide_true, decide_false, Bool.true_bne, Bool.false_bne, Bool.not_false, Bool.not_true, bne_self_eq_false, Bool.false_eq_true, decide_not, Bool.not_eq_true']
              exact lift_direct callee erc c1 a1 true fs _ _
                (ih1 c1 n (st1, a1, n1) h1 hp.1.1 hg1 env) (hvt1 n _ h1)
            · have hb0 : c.eval env = 0 := by simpa using hb
              simp only [ne_eq, hb0, not_false_eq_true, not_true_eq_false, if_true, if_false, decide_true, decide_false, Bool.true_bne, Bool.false_bne, Bool.not_false, Bool.not_true, bne_self_eq_false, Bool.false_eq_true, decide_not, Bool.not_eq_true']
              rw [exec_append]
              cases hs : execBlk ev callee env s2 with
              | none => simp [RelL, thenFinals]
              | some fl =>
                cases fl with
                | broke v => exact absurd hs (plain_no_broke ev callee s2 _ _ hp.1.2)
                | next e1 =>
                  simp only [execBlk, thenFinals, RelL]
                  refine ⟨_, rfl, ?_⟩
                  intro x hx
                  obtain ⟨f, hf, hm, hfx⟩ := hrel x hx
                  simp only [hf]
                  rw [← hfx, applyFinals_mem e1 false fs f hnd hm]
                  simp
          · rename_i st2 a2 n2 h2
            cases h
            have l1 := tryRw_args_length np s1 c1 n (st1, a1, n1) h1 hg1
            have l2 := tryRw_args_length np s2 c2 n1 (st2, a2, n2) h2 hg2
            simp only at l1 l2
            have hcnt : min (min a1.length a2.length) np = np := by omega
            rw [exec_ifElse_done]
            simp only [hcnt]
            have hnt := mkTemps_nodup n2 np
            have hlt := mkTemps_length n2 np
            by_cases hb : c.eval env ≠ 0
            · simp only [ne_eq, hb, not_false_eq_true, not_true_eq_false, if_true, if_false, decide_true, decide_false, Bool.true_bne, Bool.false_bne, Bool.not_false, Bool.not_true, bne_self_eq_false, Bool.false_eq_true, decide_not, Bool.not_eq_true']
              exact lift_merge callee erc c1 a1 true fs _ (mkTemps n2 np) a1 a2 (by simp) hnt
                (by omega) (by omega) _ _ (ih1 c1 n (st1, a1, n1) h1 hp.1.1 hg1 env) (hvt1 n _ h1)
            · have hb0 : c.eval env = 0 := by simpa using hb
              simp only [ne_eq, hb0, not_false_eq_true, not_true_eq_false, if_true, if_false, decide_true, decide_false, Bool.true_bne, Bool.false_bne, Bool.not_false, Bool.not_true, bne_self_eq_false, Bool.false_eq_true, decide_not, Bool.not_eq_true']
              exact lift_merge callee erc c2 a2 false fs _ (mkTemps n2 np) a1 a2 (by simp) hnt
                (by omega) (by omega) _ _ (ih2 c2 n1 (st2, a2, n2) h2 hp.1.2 hg2 env) (hvt2 n1 _ h2)
    · rename_i hd
      cases hk : tryRw np k erc n with
      | none => simp [hk] at h
      | some r =>
        simp [hk] at h; subst h
        have hgk : good np k erc = true := by simpa [good, hd] using hg
        simp only [execBlk]
        split
        · split
          · exact rfl
          · rename_i v hq; exact absurd hq (plain_no_broke ev callee s1 _ _ hp.1.1)
          · exact ihk erc n r hk hp.2 hgk _
        · split
          · exact rfl
          · rename_i v hq; exact absurd hq (plain_no_broke ev callee s2 _ _ hp.1.2)
          · exact ihk erc n r hk hp.2 hgk _

end core

end SamVerif.TailStmt
