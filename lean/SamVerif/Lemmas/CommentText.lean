import SamVerif.Model.CommentText
/-! Lemmas for the comment-text part of `Props/C09.lean`. -/
namespace SamVerif.CommentText
open SamVerif.Doc (isWs)

theorem dropWhile_replicate_sp (n : Nat) (s : Str) :
    (List.replicate n ' ' ++ s).dropWhile isWs = s.dropWhile isWs := by
  induction n with
  | zero => rfl
  | succ k ih =>
    have h : isWs ' ' = true := by decide
    simp [List.replicate_succ, h, ih]

theorem trimStart_of_head (c : Char) (s : Str) (h : isWs c = false) : trimStart (c :: s) = c :: s := by
  simp [trimStart, List.dropWhile, h]

theorem trimEnd_of_last (s : Str) (c : Char) (h : isWs c = false) : trimEnd (s ++ [c]) = s ++ [c] := by
  simp [trimEnd, h]

/-- The blank-joined words start and end with a non-whitespace character. -/
theorem joinSp_head (w : Str) (ws : List Str) (hw : Word w) :
    ∃ c r, joinSp (w :: ws) = c :: r ∧ isWs c = false := by
  obtain ⟨hne, hc⟩ := hw
  cases w with
  | nil => exact absurd rfl hne
  | cons c r =>
    cases ws with
    | nil => exact ⟨c, r, rfl, hc c (by simp)⟩
    | cons y rest => exact ⟨c, r ++ ' ' :: joinSp (y :: rest), by simp [joinSp], hc c (by simp)⟩

theorem joinSp_last (ws : List Str) (hne : ws ≠ []) (hw : ∀ w ∈ ws, Word w) :
    ∃ r c, joinSp ws = r ++ [c] ∧ isWs c = false := by
  induction ws with
  | nil => exact absurd rfl hne
  | cons w rest ih =>
    cases rest with
    | nil =>
      obtain ⟨hwne, hc⟩ := hw w (by simp)
      have hlast := List.dropLast_concat_getLast hwne
      exact ⟨w.dropLast, w.getLast hwne, by simp [joinSp, hlast], hc _ (List.getLast_mem hwne)⟩
    | cons y ys =>
      obtain ⟨r, c, hr, hc⟩ := ih (by simp) (fun x hx => hw x (List.mem_cons_of_mem _ hx))
      exact ⟨w ++ ' ' :: r, c, by simp [joinSp, hr], hc⟩

theorem trim_sp_joinSp (ws : List Str) (hne : ws ≠ []) (hw : ∀ w ∈ ws, Word w) :
    trim (' ' :: joinSp ws) = joinSp ws := by
  cases ws with
  | nil => exact absurd rfl hne
  | cons w rest =>
    obtain ⟨c, r, hj, hc⟩ := joinSp_head w rest (hw w (by simp))
    obtain ⟨r', c', hj', hc'⟩ := joinSp_last (w :: rest) (by simp) hw
    have hsp : isWs ' ' = true := by decide
    have h1 : trimStart (' ' :: joinSp (w :: rest)) = joinSp (w :: rest) := by
      rw [hj]; simp [trimStart, List.dropWhile, hsp, hc]
    rw [trim, h1, hj']
    exact trimEnd_of_last r' c' hc'

end SamVerif.CommentText
