import SamVerif.Lemmas.ScopeOrder
/-!
Block wrapping (C13): running a fragment with one additional, empty scope inserted `j` levels
below the top resolves every name to the same definition; only the scope *depth* of bindings below
the inserted scope shifts by one (which matters for capture recording only).
-/
namespace SamVerif.Scope

variable {α : Type} [DecidableEq α]

def insAt {β : Type} (j : Nat) (x : β) (l : List β) : List β := l.take j ++ x :: l.drop j

theorem insAt_zero {β : Type} (x : β) (l : List β) : insAt 0 x l = x :: l := by simp [insAt]
theorem insAt_succ_cons {β : Type} (j : Nat) (x a : β) (l : List β) :
    insAt (j + 1) x (a :: l) = a :: insAt j x l := by simp [insAt]
theorem insAt_length {β : Type} (j : Nat) (x : β) (l : List β) : (insAt j x l).length = l.length + 1 := by
  simp only [insAt, List.length_append, List.length_cons, List.length_take, List.length_drop]; omega

def shiftK (j k : Nat) : Nat := if k < j then k else k + 1

theorem lookupCtx_insAt (n : α) (j : Nat) (L : List (Scope α)) (hj : j ≤ L.length) :
    lookupCtx n (insAt j [] L) = (lookupCtx n L).map fun r => (shiftK j r.1, r.2) := by
  induction j generalizing L with
  | zero =>
    simp only [insAt_zero, lookupCtx, lookupKV, shiftK, Nat.not_lt_zero, if_false]
  | succ j ih =>
    cases L with
    | nil => simp at hj
    | cons a L =>
      simp only [insAt_succ_cons, lookupCtx]
      cases lookupKV n a with
      | some l => simp [shiftK]
      | none =>
        simp only [ih L (by simpa using hj), Option.map_map]
        congr 1
        funext r
        simp only [Function.comp, shiftK]
        by_cases h : r.1 < j
        · have : r.1 + 1 < j + 1 := by omega
          simp [h, this]
        · have : ¬ r.1 + 1 < j + 1 := by omega
          simp [h, this]

theorem previousDef_insAt (n : α) (j : Nat) (L : List (Scope α)) :
    previousDef n (insAt j [] L) = previousDef n L := by
  induction j generalizing L with
  | zero => simp only [insAt_zero, previousDef, lookupKV]; cases previousDef n L <;> rfl
  | succ j ih =>
    cases L with
    | nil => simp [insAt, previousDef, lookupKV]
    | cons a L => simp only [insAt_succ_cons, previousDef, ih L]

theorem recordCapture_insAt (n : α) (l j k : Nat) (cx : Scope α) (C : List (Scope α)) (hj : j ≤ C.length) :
    recordCapture n l (shiftK j k) (insAt j cx C)
      = insAt j (if k < j then cx else insertKV n l cx) (recordCapture n l k C) := by
  induction j generalizing k C with
  | zero => simp [shiftK, insAt_zero, recordCapture]
  | succ j ih =>
    cases C with
    | nil => simp at hj
    | cons c C =>
      cases k with
      | zero => simp [shiftK, recordCapture]
      | succ k =>
        have hs : shiftK (j + 1) (k + 1) = shiftK j k + 1 := by
          simp only [shiftK]; by_cases h : k < j
          · have : k + 1 < j + 1 := by omega
            simp [h, this]
          · have : ¬ k + 1 < j + 1 := by omega
            simp [h, this]
        have hc : (k + 1 < j + 1) = (k < j) := by simp
        simp only [hs, insAt_succ_cons, recordCapture, ih k C (by simpa using hj), hc]

/-- no definition at the depth of the inserted scope, no pop below it -/
def closedAt : Nat → List (Ev α) → Bool
  | _, [] => true
  | j, .push :: t => closedAt (j + 1) t
  | j, .pop _ _ :: t => decide (1 ≤ j) && closedAt (j - 1) t
  | j, .define _ _ :: t => decide (1 ≤ j) && closedAt j t
  | j, .use _ _ _ :: t => closedAt j t

def endDepth : Nat → List (Ev α) → Nat
  | j, [] => j
  | j, .push :: t => endDepth (j + 1) t
  | j, .pop _ _ :: t => endDepth (j - 1) t
  | j, _ :: t => endDepth j t

/-- `st'` is `st` with an empty scope (and some capture table) inserted `j` levels below the top -/
structure WRel (j : Nat) (st st' : St α) : Prop where
  jle : j ≤ st.locals.length
  wf : WF st
  locals : st'.locals = insAt j [] st.locals
  captured : ∃ cx, st'.captured = insAt j cx st.captured
  unbound : st'.unbound = st.unbound
  invalid : st'.invalid = st.invalid
  useDef : st'.useDef = st.useDef
  defLocs : st'.defLocs = st.defLocs
  scopedDefs : st'.scopedDefs = st.scopedDefs
  lambdaCaps : st'.lambdaCaps = st.lambdaCaps
  errors : st'.errors = st.errors
  underflow : st'.underflow = st.underflow

theorem step_wrel (j : Nat) (st st' : St α) (ev : Ev α) (h : WRel j st st')
    (hc : closedAt j [ev] = true) : WRel (endDepth j [ev]) (step st ev) (step st' ev) := by
  obtain ⟨L, C, u, i, ud, d, sd, lc, e, uf⟩ := st
  obtain ⟨L', C', u', i', ud', d', sd', lc', e', uf'⟩ := st'
  obtain ⟨hj, hw, h1, ⟨cx, h2⟩, h3, h4, h5, h6, h7, h8, h9, h10⟩ := h
  simp only [WF] at hj hw h1 h2 h3 h4 h5 h6 h7 h8 h9 h10
  subst h1 h2 h3 h4 h5 h6 h7 h8 h9 h10
  cases ev with
  | push =>
    exact ⟨by simp [step, endDepth]; omega, by simp [step, WF, hw], by simp [step, endDepth, insAt_succ_cons],
      ⟨cx, by simp [step, endDepth, insAt_succ_cons]⟩, rfl, rfl, rfl, rfl, rfl, rfl, rfl, rfl⟩
  | pop k loc =>
    simp only [closedAt, Bool.and_true, decide_eq_true_eq] at hc
    obtain ⟨j0, rfl⟩ : ∃ j0, j = j0 + 1 := ⟨j - 1, by omega⟩
    cases L with
    | nil => simp at hj
    | cons a L0 =>
      cases C with
      | nil => simp at hw
      | cons c C0 =>
        simp only [insAt_succ_cons, step, endDepth, Nat.add_sub_cancel]
        have hj0 : j0 ≤ L0.length := by simpa using hj
        rcases k with _ | _ | _
        · exact ⟨hj0, by simpa [WF] using hw, rfl, ⟨cx, rfl⟩, rfl, rfl, rfl, rfl, rfl, rfl, rfl, rfl⟩
        · exact ⟨hj0, by simpa [WF] using hw, rfl, ⟨cx, rfl⟩, rfl, rfl, rfl, rfl, rfl, rfl, rfl, rfl⟩
        · exact ⟨hj0, by simpa [WF] using hw, rfl, ⟨cx, rfl⟩, rfl, rfl, rfl, rfl, rfl, rfl, rfl, rfl⟩
  | define n l =>
    simp only [closedAt, Bool.and_true, decide_eq_true_eq] at hc
    obtain ⟨j0, rfl⟩ : ∃ j0, j = j0 + 1 := ⟨j - 1, by omega⟩
    cases L with
    | nil => simp at hj
    | cons a L0 =>
      have hp : previousDef n (insAt (j0 + 1) [] (a :: L0)) = previousDef n (a :: L0) := previousDef_insAt n _ _
      simp only [step, defineId, endDepth, hp]
      cases previousDef n (a :: L0) with
      | none =>
        exact ⟨by simpa [insertLocal] using hj, by simpa [WF, insertLocal] using hw,
          by simp [insertLocal, insAt_succ_cons], ⟨cx, rfl⟩, rfl, rfl, rfl, rfl, rfl, rfl, rfl, rfl⟩
      | some prev =>
        by_cases hin : l ∈ i'
        · simp only [List.contains_iff_mem, hin, if_true]
          exact ⟨by simpa [insertLocal] using hj, by simpa [WF, insertLocal] using hw,
            by simp [insertLocal, insAt_succ_cons], ⟨cx, rfl⟩, rfl, rfl, rfl, rfl, rfl, rfl, rfl, rfl⟩
        · simp only [List.contains_iff_mem, hin, if_false]
          exact ⟨by simpa [insertLocal] using hj, by simpa [WF, insertLocal] using hw,
            by simp [insertLocal, insAt_succ_cons], ⟨cx, rfl⟩, rfl, rfl, rfl, rfl, rfl, rfl, rfl, rfl⟩
  | use n l ft =>
    have hjc : j ≤ C.length := by omega
    simp only [step, useId, endDepth, lookupCtx_insAt n j L hj]
    cases lookupCtx n L with
    | none => exact ⟨hj, hw, rfl, ⟨cx, rfl⟩, rfl, rfl, rfl, rfl, rfl, rfl, rfl, rfl⟩
    | some r =>
      obtain ⟨k, l0⟩ := r
      simp only [Option.map_some]
      cases ft
      · refine ⟨hj, by simp [WF, recordCapture_length, hw], rfl,
          ⟨_, by simp only [Bool.false_eq_true, if_false]; exact recordCapture_insAt n l0 j k cx C hjc⟩,
          rfl, rfl, rfl, rfl, rfl, rfl, rfl, rfl⟩
      · exact ⟨hj, hw, rfl, ⟨cx, rfl⟩, rfl, rfl, rfl, rfl, rfl, rfl, rfl, rfl⟩

theorem closedAt_cons (j : Nat) (ev : Ev α) (t : List (Ev α)) (h : closedAt j (ev :: t) = true) :
    closedAt j [ev] = true ∧ closedAt (endDepth j [ev]) t = true := by
  cases ev <;> simp_all [closedAt, endDepth]

theorem run_wrel (evs : List (Ev α)) (j : Nat) (st st' : St α) (h : WRel j st st')
    (hc : closedAt j evs = true) : WRel (endDepth j evs) (run evs st) (run evs st') := by
  induction evs generalizing j st st' with
  | nil => exact h
  | cons ev t ih =>
    obtain ⟨h1, h2⟩ := closedAt_cons j ev t hc
    have := ih _ _ _ (step_wrel j st st' ev h h1) h2
    have he : endDepth j (ev :: t) = endDepth (endDepth j [ev]) t := by cases ev <;> rfl
    rw [he]
    exact this


theorem closedAt_append (j : Nat) (a b : List (Ev α)) :
    closedAt j (a ++ b) = (closedAt j a && closedAt (endDepth j a) b) := by
  induction a generalizing j with
  | nil => simp [closedAt, endDepth]
  | cons ev t ih => cases ev <;> simp [closedAt, endDepth, ih, Bool.and_assoc]

theorem endDepth_append (j : Nat) (a b : List (Ev α)) :
    endDepth j (a ++ b) = endDepth (endDepth j a) b := by
  induction a generalizing j with
  | nil => simp [endDepth]
  | cons ev t ih => cases ev <;> simp [endDepth, ih]

mutual
theorem endDepth_visit : ∀ (n : Node α) (j : Nat), endDepth j (visit n) = j
  | .mk tag name loc kids, j => by
    have hk := fun j => endDepth_visitList kids j
    match kids with
    | [] => cases tag <;> cases name <;> simp [visit, visitList, usesList, endDepth, endDepth_append]
    | [k1] =>
      have h1 := fun j => endDepth_visit k1 j
      cases tag <;> cases name <;> simp_all [visit, visitList, usesList, endDepth, endDepth_append]
    | [k1, k2] =>
      have h1 := fun j => endDepth_visit k1 j
      have h2 := fun j => endDepth_visit k2 j
      have v2 := fun j => endDepth_uses k2 j
      cases tag <;> cases name <;> simp_all [visit, visitList, usesList, endDepth, endDepth_append]
    | [k1, k2, k3] =>
      have h1 := fun j => endDepth_visit k1 j
      have h2 := fun j => endDepth_visit k2 j
      have h3 := fun j => endDepth_visit k3 j
      have v2 := fun j => endDepth_uses k2 j
      have v3 := fun j => endDepth_uses k3 j
      cases tag <;> cases name <;> simp_all [visit, visitList, usesList, endDepth, endDepth_append]
    | [k1, k2, k3, k4] =>
      have h1 := fun j => endDepth_visit k1 j
      have h2 := fun j => endDepth_visit k2 j
      have h3 := fun j => endDepth_visit k3 j
      have h4 := fun j => endDepth_visit k4 j
      have v2 := fun j => endDepth_uses k2 j
      have v3 := fun j => endDepth_uses k3 j
      have v4 := fun j => endDepth_uses k4 j
      cases tag <;> cases name <;> simp_all [visit, visitList, usesList, endDepth, endDepth_append]
    | k1 :: k2 :: k3 :: k4 :: k5 :: ks =>
      have h1 := fun j => endDepth_visit k1 j
      have u := fun j => endDepth_usesList (k2 :: k3 :: k4 :: k5 :: ks) j
      cases tag <;> cases name <;> simp_all [visit, endDepth, endDepth_append]
theorem endDepth_visitList : ∀ (ks : List (Node α)) (j : Nat), endDepth j (visitList ks) = j
  | [], j => by simp [visitList, endDepth]
  | k :: ks, j => by simp [visitList, endDepth_append, endDepth_visit k, endDepth_visitList ks]
theorem endDepth_uses : ∀ (n : Node α) (j : Nat), endDepth j (uses n) = j
  | .mk tag name loc kids, j => by
    have hu := endDepth_usesList kids j
    cases tag <;> cases name <;> simp_all [uses, endDepth]
theorem endDepth_usesList : ∀ (ks : List (Node α)) (j : Nat), endDepth j (usesList ks) = j
  | [], j => by simp [usesList, endDepth]
  | k :: ks, j => by simp [usesList, endDepth_append, endDepth_uses k, endDepth_usesList ks]
end

mutual
/-- below the top level (depth ≥ 1) every fragment is closed -/
theorem closed_visit_pos : ∀ (n : Node α) (j : Nat), closedAt (j + 1) (visit n) = true
  | .mk tag name loc kids, j => by
    have hk := fun j => closed_visitList_pos kids j
    match kids with
    | [] => cases tag <;> cases name <;> simp [visit, visitList, usesList, closedAt, closedAt_append]
    | [k1] =>
      have h1 := fun j => closed_visit_pos k1 j
      have e1 := fun j => endDepth_visit k1 j
      cases tag <;> cases name <;>
        simp_all [visit, visitList, usesList, closedAt, closedAt_append, endDepth, endDepth_append]
    | [k1, k2] =>
      have h1 := fun j => closed_visit_pos k1 j
      have h2 := fun j => closed_visit_pos k2 j
      have e1 := fun j => endDepth_visit k1 j
      have e2 := fun j => endDepth_visit k2 j
      have v2 := fun j => closed_uses k2 j
      have w2 := fun j => endDepth_uses k2 j
      cases tag <;> cases name <;>
        simp_all [visit, visitList, usesList, closedAt, closedAt_append, endDepth, endDepth_append]
    | [k1, k2, k3] =>
      have h1 := fun j => closed_visit_pos k1 j
      have h2 := fun j => closed_visit_pos k2 j
      have h3 := fun j => closed_visit_pos k3 j
      have e1 := fun j => endDepth_visit k1 j
      have e2 := fun j => endDepth_visit k2 j
      have e3 := fun j => endDepth_visit k3 j
      have v2 := fun j => closed_uses k2 j
      have v3 := fun j => closed_uses k3 j
      have w2 := fun j => endDepth_uses k2 j
      have w3 := fun j => endDepth_uses k3 j
      cases tag <;> cases name <;>
        simp_all [visit, visitList, usesList, closedAt, closedAt_append, endDepth, endDepth_append]
    | [k1, k2, k3, k4] =>
      have h1 := fun j => closed_visit_pos k1 j
      have h2 := fun j => closed_visit_pos k2 j
      have h3 := fun j => closed_visit_pos k3 j
      have h4 := fun j => closed_visit_pos k4 j
      have e1 := fun j => endDepth_visit k1 j
      have e2 := fun j => endDepth_visit k2 j
      have e3 := fun j => endDepth_visit k3 j
      have e4 := fun j => endDepth_visit k4 j
      have v2 := fun j => closed_uses k2 j
      have v3 := fun j => closed_uses k3 j
      have v4 := fun j => closed_uses k4 j
      have w2 := fun j => endDepth_uses k2 j
      have w3 := fun j => endDepth_uses k3 j
      have w4 := fun j => endDepth_uses k4 j
      cases tag <;> cases name <;>
        simp_all [visit, visitList, usesList, closedAt, closedAt_append, endDepth, endDepth_append]
    | k1 :: k2 :: k3 :: k4 :: k5 :: ks =>
      have h1 := fun j => closed_visit_pos k1 j
      have e1 := fun j => endDepth_visit k1 j
      have u := fun j => closed_usesList (k2 :: k3 :: k4 :: k5 :: ks) j
      have eu := fun j => endDepth_visitList (k1 :: k2 :: k3 :: k4 :: k5 :: ks) j
      cases tag <;> cases name <;>
        simp_all [visit, closedAt, closedAt_append, endDepth, endDepth_append]
theorem closed_visitList_pos : ∀ (ks : List (Node α)) (j : Nat), closedAt (j + 1) (visitList ks) = true
  | [], j => by simp [visitList, closedAt]
  | k :: ks, j => by
    simp [visitList, closedAt_append, closed_visit_pos k j, endDepth_visit k, closed_visitList_pos ks j]
theorem closed_uses : ∀ (n : Node α) (j : Nat), closedAt j (uses n) = true
  | .mk tag name loc kids, j => by
    have hu := closed_usesList kids j
    cases tag <;> cases name <;> simp_all [uses, closedAt]
theorem closed_usesList : ∀ (ks : List (Node α)) (j : Nat), closedAt j (usesList ks) = true
  | [], j => by simp [usesList, closedAt]
  | k :: ks, j => by
    simp [usesList, closedAt_append, closed_uses k j, endDepth_uses k, closed_usesList ks j]
end

mutual
/-- expression-like trees: nothing is bound at the tree's own top level (blocks, lambdas and match
cases open their own scope; `if let` binds inside its own scope; patterns, declarations and
parameters are excluded) -/
def isExpr : Node α → Bool
  | .mk tag _ _ kids =>
    match tag, kids with
    | .block, _ => true
    | .lambda, _ => true
    | .case, [_, _] => true
    | .ifGuard, [_, g, _, e2] => isExpr g && isExpr e2
    | .decl, _ => false
    | .pId, _ => false
    | .param, _ => false
    | .pOr, _ => false
    | _, ks => allExpr ks
def allExpr : List (Node α) → Bool
  | [] => true
  | k :: ks => isExpr k && allExpr ks
end

mutual
theorem closed_visit_expr : ∀ (n : Node α), isExpr n = true → closedAt 0 (visit n) = true
  | .mk tag name loc kids, h => by
    have hk := closed_visitList_expr kids
    have hp := closed_visitList_pos kids 0
    have he := fun j => endDepth_visitList kids j
    match kids with
    | [] => cases tag <;> cases name <;> simp_all [visit, visitList, closedAt, closedAt_append, isExpr, allExpr, endDepth, endDepth_append]
    | [k1] =>
      cases tag <;> cases name <;>
        simp_all [visit, visitList, closedAt, closedAt_append, isExpr, allExpr, endDepth, endDepth_append]
    | [k1, k2] =>
      have p1 := closed_visit_pos k1 0
      have p2 := closed_visit_pos k2 0
      have e1 := fun j => endDepth_visit k1 j
      have e2 := fun j => endDepth_visit k2 j
      cases tag <;> cases name <;>
        simp_all [visit, visitList, closedAt, closedAt_append, isExpr, allExpr, endDepth, endDepth_append]
    | [k1, k2, k3] =>
      cases tag <;> cases name <;>
        simp_all [visit, visitList, closedAt, closedAt_append, isExpr, allExpr, endDepth, endDepth_append]
    | [k1, k2, k3, k4] =>
      have p1 := closed_visit_pos k1 0
      have p3 := closed_visit_pos k3 0
      have x2 := closed_visit_expr k2
      have x4 := closed_visit_expr k4
      have e1 := fun j => endDepth_visit k1 j
      have e2 := fun j => endDepth_visit k2 j
      have e3 := fun j => endDepth_visit k3 j
      have e4 := fun j => endDepth_visit k4 j
      cases tag <;> cases name <;>
        simp_all [visit, visitList, closedAt, closedAt_append, isExpr, allExpr, endDepth, endDepth_append]
    | k1 :: k2 :: k3 :: k4 :: k5 :: ks =>
      cases tag <;> cases name <;>
        simp_all [visit, closedAt, closedAt_append, isExpr, endDepth, endDepth_append]
theorem closed_visitList_expr : ∀ (ks : List (Node α)), allExpr ks = true → closedAt 0 (visitList ks) = true
  | [], _ => by simp [visitList, closedAt]
  | k :: ks, h => by
    simp only [allExpr, Bool.and_eq_true] at h
    simp [visitList, closedAt_append, closed_visit_expr k h.1, endDepth_visit k, closed_visitList_expr ks h.2]
end

theorem wrap_sim (a : List (Ev α)) (hc : closedAt 0 a = true) (he : endDepth 0 a = 0) (loc : Nat)
    (st : St α) (hw : WF st) :
    (run ([.push] ++ a ++ [.pop .scoped loc]) st).locals = (run a st).locals ∧
    (run ([.push] ++ a ++ [.pop .scoped loc]) st).captured = (run a st).captured ∧
    (run ([.push] ++ a ++ [.pop .scoped loc]) st).useDef = (run a st).useDef ∧
    (run ([.push] ++ a ++ [.pop .scoped loc]) st).invalid = (run a st).invalid ∧
    (run ([.push] ++ a ++ [.pop .scoped loc]) st).defLocs = (run a st).defLocs ∧
    (run ([.push] ++ a ++ [.pop .scoped loc]) st).errors = (run a st).errors ∧
    (run ([.push] ++ a ++ [.pop .scoped loc]) st).unbound = (run a st).unbound ∧
    (run ([.push] ++ a ++ [.pop .scoped loc]) st).lambdaCaps = (run a st).lambdaCaps ∧
    (run ([.push] ++ a ++ [.pop .scoped loc]) st).scopedDefs = insertKV loc [] (run a st).scopedDefs := by
  have h0 : WRel 0 st (run [.push] st) :=
    ⟨Nat.zero_le _, hw, by simp [run, step, insAt_zero], ⟨[], by simp [run, step, insAt_zero]⟩,
      rfl, rfl, rfl, rfl, rfl, rfl, rfl, rfl⟩
  have h1 := run_wrel a 0 st (run [.push] st) h0 hc
  rw [he] at h1
  obtain ⟨_, hw1, hl, ⟨cx, hcx⟩, hu, hi, hud, hd, hs, hlc, hee, _⟩ := h1
  rw [run_append, run_append]
  generalize run a (run [.push] st) = st2 at *
  generalize run a st = st1 at *
  obtain ⟨L2, C2, u2, i2, ud2, d2, s2, lc2, e2, uf2⟩ := st2
  simp only [insAt_zero] at hl hcx hu hi hud hd hs hlc hee
  subst hl hcx hu hi hud hd hs hlc hee
  simp [run, step]

end SamVerif.Scope
