import SamVerif.Model.FmtPat
/-! Lemmas for the pattern model of C08: printed patterns parse back, by mutual structural recursion. -/
namespace SamVerif.FmtPat

def noLp (ts : List PTok) : Prop := ∀ r, ts ≠ .lp :: r
def noBar (ts : List PTok) : Prop := ∀ r, ts ≠ .bar :: r

/-- a printed single pattern starts with an identifier, tag, `_`, `(` or `{`. -/
def goodHead (ts : List PTok) : Prop :=
  ∃ t r, ts = t :: r ∧ t ≠ .rp ∧ t ≠ .rb ∧ t ≠ .comma ∧ t ≠ .bar

theorem goodHead_append {ts : List PTok} (h : goodHead ts) (T : List PTok) : goodHead (ts ++ T) := by
  obtain ⟨t, r, rfl, h⟩ := h; exact ⟨t, r ++ T, rfl, h⟩

theorem printP_head (p : Pat) : goodHead (printP p) := by
  cases p <;> simp only [printP] <;> exact ⟨_, _, rfl, by simp⟩

theorem printO_head (o : OPat) : goodHead (printO o) := by
  cases o <;> simp only [printO]
  · exact printP_head _
  · exact goodHead_append (printP_head _) _

theorem printPs_head (ps : Pats) : goodHead (printPs ps) := by
  cases ps <;> simp only [printPs]
  · exact printO_head _
  · exact goodHead_append (printO_head _) _

theorem printFs_head (fs : Fields) : goodHead (printFs fs) := by
  cases fs <;> simp only [printFs] <;> exact ⟨_, _, rfl, by simp⟩

theorem succ_of_le {n f : Nat} (h : n + 1 ≤ f) : ∃ f', f = f' + 1 ∧ n ≤ f' := ⟨f - 1, by omega, by omega⟩

mutual
theorem mP : (p : Pat) → ∀ rest, noLp rest → ∀ f, sizeP p ≤ f →
    parseP f (printP p ++ rest) = some (p, rest)
  | .id n, rest, _, f, hf => by
    obtain ⟨f', rfl, _⟩ := succ_of_le (n := 0) (by simpa [sizeP] using hf)
    simp [printP, parseP]
  | .wild, rest, _, f, hf => by
    obtain ⟨f', rfl, _⟩ := succ_of_le (n := 0) (by simpa [sizeP] using hf)
    simp [printP, parseP]
  | .variant t, rest, hl, f, hf => by
    obtain ⟨f', rfl, _⟩ := succ_of_le (n := 0) (by simpa [sizeP] using hf)
    simp only [printP, List.singleton_append]
    rw [parseP]
    intro ts he; cases he; exact hl _ rfl
  | .variantT t ps, rest, _, f, hf => by
    simp only [sizeP] at hf
    obtain ⟨f', rfl, hf'⟩ := succ_of_le (n := sizePs ps + 1) (by omega)
    simp only [printP, List.cons_append, List.append_assoc, List.singleton_append]
    simp [parseP, mPs ps rest f' (by omega)]
  | .tuple ps, rest, _, f, hf => by
    simp only [sizeP] at hf
    obtain ⟨f', rfl, hf'⟩ := succ_of_le (n := sizePs ps + 1) (by omega)
    simp only [printP, List.cons_append, List.append_assoc, List.singleton_append]
    simp [parseP, mPs ps rest f' (by omega)]
  | .obj fs, rest, _, f, hf => by
    simp only [sizeP] at hf
    obtain ⟨f', rfl, hf'⟩ := succ_of_le (n := sizeFs fs + 1) (by omega)
    simp only [printP, List.cons_append, List.append_assoc, List.singleton_append]
    simp [parseP, mFs fs rest f' (by omega)]
theorem mO : (o : OPat) → ∀ rest, noLp rest → noBar rest → ∀ f, sizeO o ≤ f →
    parseO f (printO o ++ rest) = some (o, rest)
  | .one p, rest, hl, hb, f, hf => by
    simp only [sizeO] at hf
    obtain ⟨f', rfl, hf'⟩ := succ_of_le hf
    simp only [printO]
    unfold parseO
    rw [mP p rest hl f' hf']
    cases rest with
    | nil => rfl
    | cons t r => cases t <;> first | exact absurd rfl (hb r) | rfl
  | .alt p o', rest, hl, hb, f, hf => by
    simp only [sizeO] at hf
    obtain ⟨f', rfl, hf'⟩ := succ_of_le (n := sizeP p + sizeO o') (by omega)
    simp only [printO, List.append_assoc, List.cons_append]
    unfold parseO
    rw [mP p (.bar :: (printO o' ++ rest)) (by intro r he; cases he) f' (by omega)]
    simp [mO o' rest hl hb f' (by omega)]
theorem mPs : (ps : Pats) → ∀ rest f, sizePs ps ≤ f →
    parsePs f (printPs ps ++ .rp :: rest) = some (ps, rest)
  | .one o, rest, f, hf => by
    simp only [sizePs] at hf
    obtain ⟨f', rfl, hf'⟩ := succ_of_le hf
    simp only [printPs]
    unfold parsePs
    rw [mO o (.rp :: rest) (by intro r he; cases he) (by intro r he; cases he) f' hf']
  | .cons o ps', rest, f, hf => by
    simp only [sizePs] at hf
    obtain ⟨f', rfl, hf'⟩ := succ_of_le (n := sizeO o + sizePs ps') (by omega)
    simp only [printPs, List.append_assoc, List.cons_append]
    unfold parsePs
    rw [mO o (.comma :: (printPs ps' ++ .rp :: rest)) (by intro r he; cases he)
      (by intro r he; cases he) f' (by omega)]
    obtain ⟨t, r, ht, h1, _⟩ := goodHead_append (printPs_head ps') (.rp :: rest)
    rw [ht]
    have := mPs ps' rest f' (by omega)
    rw [ht] at this
    cases t <;> first | exact absurd rfl h1 | simp [this]
theorem mFs : (fs : Fields) → ∀ rest f, sizeFs fs ≤ f →
    parseFs f (printFs fs ++ .rb :: rest) = some (fs, rest)
  | .oneS n, rest, f, hf => by
    obtain ⟨f', rfl, _⟩ := succ_of_le (n := 0) (by simpa [sizeFs] using hf)
    simp [printFs, parseFs]
  | .oneA n o, rest, f, hf => by
    simp only [sizeFs] at hf
    obtain ⟨f', rfl, hf'⟩ := succ_of_le hf
    simp only [printFs, List.cons_append]
    simp only [parseFs]
    rw [mO o (.rb :: rest) (by intro r he; cases he) (by intro r he; cases he) f' hf']
  | .consS n fs', rest, f, hf => by
    simp only [sizeFs] at hf
    obtain ⟨f', rfl, hf'⟩ := succ_of_le hf
    simp only [printFs, List.cons_append]
    obtain ⟨t, r, ht, _, h2, _⟩ := goodHead_append (printFs_head fs') (.rb :: rest)
    have := mFs fs' rest f' hf'
    rw [ht] at this ⊢
    rw [parseFs]
    · simp [this]
    all_goals (intro _ he; cases he; first | exact h2 rfl | skip)
  | .consA n o fs', rest, f, hf => by
    simp only [sizeFs] at hf
    obtain ⟨f', rfl, hf'⟩ := succ_of_le (n := sizeO o + sizeFs fs') (by omega)
    simp only [printFs, List.cons_append, List.append_assoc]
    simp only [parseFs]
    rw [mO o (.comma :: (printFs fs' ++ .rb :: rest)) (by intro r he; cases he)
      (by intro r he; cases he) f' (by omega)]
    obtain ⟨t, r, ht, _, h2, _⟩ := goodHead_append (printFs_head fs') (.rb :: rest)
    rw [ht]
    have := mFs fs' rest f' (by omega)
    rw [ht] at this
    cases t <;> first | exact absurd rfl h2 | simp [this]
end

mutual
theorem sizeP_le : (p : Pat) → sizeP p + 1 ≤ 2 * (printP p).length
  | .id n => by simp [sizeP, printP]
  | .wild => by simp [sizeP, printP]
  | .variant t => by simp [sizeP, printP]
  | .variantT t ps => by
    have := sizePs_le ps
    simp only [sizeP, printP, List.length_cons, List.length_append, List.length_nil]; omega
  | .tuple ps => by
    have := sizePs_le ps
    simp only [sizeP, printP, List.length_cons, List.length_append, List.length_nil]; omega
  | .obj fs => by
    have := sizeFs_le fs
    simp only [sizeP, printP, List.length_cons, List.length_append, List.length_nil]; omega
theorem sizeO_le : (o : OPat) → sizeO o ≤ 2 * (printO o).length
  | .one p => by have := sizeP_le p; simp only [sizeO, printO]; omega
  | .alt p rest => by
    have := sizeP_le p; have := sizeO_le rest
    simp only [sizeO, printO, List.length_append, List.length_cons]; omega
theorem sizePs_le : (ps : Pats) → sizePs ps ≤ 2 * (printPs ps).length + 1
  | .one o => by have := sizeO_le o; simp only [sizePs, printPs]; omega
  | .cons o rest => by
    have := sizeO_le o; have := sizePs_le rest
    simp only [sizePs, printPs, List.length_append, List.length_cons]; omega
theorem sizeFs_le : (fs : Fields) → sizeFs fs ≤ 2 * (printFs fs).length + 1
  | .oneS n => by simp [sizeFs, printFs]
  | .oneA n o => by
    have := sizeO_le o
    simp only [sizeFs, printFs, List.length_cons]; omega
  | .consS n rest => by
    have := sizeFs_le rest
    simp only [sizeFs, printFs, List.length_cons]; omega
  | .consA n o rest => by
    have := sizeO_le o; have := sizeFs_le rest
    simp only [sizeFs, printFs, List.length_cons, List.length_append]; omega
end

end SamVerif.FmtPat
