import SamVerif.Lemmas.Lexer
/-! UTF-8 boundary lemmas: every cut the scanner makes lies at a char boundary of a valid `&str`. -/
namespace SamVerif.Lexer

theorem isCont_ge {b : UInt8} (h : isCont b = true) : 128 ≤ b.toNat ∧ b.toNat < 192 := by
  simpa [isCont] using h

theorem not_isCont_of_lt {b : UInt8} (h : b.toNat < 128) : isCont b = false := by
  simp [isCont]; omega

/-- a valid string does not start with a continuation byte -/
theorem Valid.head_not_cont {b : UInt8} {r : Bytes} (h : Valid (b :: r)) : isCont b = false := by
  cases h <;> simp [isCont] <;> omega

/-- dropping an ASCII head keeps validity -/
theorem Valid.tail_of_ascii {b : UInt8} {r : Bytes} (h : Valid (b :: r)) (hb : b.toNat < 128) :
    Valid r := by
  cases h with
  | one _ _ _ hr => exact hr
  | two _ _ _ h1 => omega
  | three _ _ _ _ h1 => omega
  | four _ _ _ _ _ h1 => omega

/-- **cut at an ASCII byte**: the suffix starting at any ASCII byte of a valid string is valid -/
theorem Valid.drop_at_ascii {bs : Bytes} (h : Valid bs) :
    ∀ (n : Nat) (hn : n < bs.length), bs[n].toNat < 128 → Valid (bs.drop n) := by
  induction h with
  | nil => intro n hn; simp at hn
  | one b r hb hr ih =>
    intro n hn ha
    cases n with
    | zero => exact Valid.one b r hb hr
    | succ n => simpa using ih n (by simpa using hn) (by simpa using ha)
  | two b0 b1 r h0 h0' h1 hr ih =>
    intro n hn ha
    match n with
    | 0 => exact Valid.two b0 b1 r h0 h0' h1 hr
    | 1 => have := isCont_ge h1; simp at ha; omega
    | n + 2 => simpa using ih n (by simpa using hn) (by simpa using ha)
  | three b0 b1 b2 r h0 h0' h1 h2 hr ih =>
    intro n hn ha
    match n with
    | 0 => exact Valid.three b0 b1 b2 r h0 h0' h1 h2 hr
    | 1 => have := isCont_ge h1; simp at ha; omega
    | 2 => have := isCont_ge h2; simp at ha; omega
    | n + 3 => simpa using ih n (by simpa using hn) (by simpa using ha)
  | four b0 b1 b2 b3 r h0 h1 h2 h3 hr ih =>
    intro n hn ha
    match n with
    | 0 => exact Valid.four b0 b1 b2 b3 r h0 h1 h2 h3 hr
    | 1 => have := isCont_ge h1; simp at ha; omega
    | 2 => have := isCont_ge h2; simp at ha; omega
    | 3 => have := isCont_ge h3; simp at ha; omega
    | n + 4 => simpa using ih n (by simpa using hn) (by simpa using ha)

/-- **cut right after an ASCII byte** -/
theorem Valid.drop_after_ascii {bs : Bytes} (h : Valid bs) (n : Nat) (hn : n < bs.length)
    (ha : bs[n].toNat < 128) : Valid (bs.drop (n + 1)) := by
  have h1 := h.drop_at_ascii n hn ha
  rw [List.drop_eq_getElem_cons hn] at h1
  exact h1.tail_of_ascii ha

theorem Valid.drop_length (bs : Bytes) : Valid (bs.drop bs.length) := by
  simp [Valid.nil]

/-- a cut whose suffix is valid is a char boundary (`str::is_char_boundary`) -/
theorem isBoundary_of_valid_drop {bs : Bytes} {n : Nat} (hn : n ≤ bs.length)
    (h : Valid (bs.drop n)) : isBoundary bs n = true := by
  unfold isBoundary
  by_cases h0 : n = 0
  · simp [h0]
  by_cases h1 : n = bs.length
  · simp [h1]
  have hlt : n < bs.length := by omega
  rw [List.drop_eq_getElem_cons hlt] at h
  simp [List.getElem?_eq_getElem hlt, h.head_not_cont]

theorem bump_of_valid_drop {bs : Bytes} {n : Nat} (hn : n ≤ bs.length)
    (h : Valid (bs.drop n)) : bump bs n = some (bs.drop n) := by
  simp [bump, isBoundary_of_valid_drop hn h]

theorem run_le (p : UInt8 → Bool) (bs : Bytes) : run p bs ≤ bs.length := by
  induction bs with
  | nil => simp [run]
  | cons b bs ih => simp only [run]; split <;> simp <;> omega

/-- the run stops at the end of the input or at a byte that fails `p` -/
theorem run_stop (p : UInt8 → Bool) (bs : Bytes) :
    run p bs = bs.length ∨ ∃ h : run p bs < bs.length, p bs[run p bs] = false := by
  induction bs with
  | nil => simp [run]
  | cons b bs ih =>
    simp only [run]
    split
    · rename_i hp
      rcases ih with h | ⟨h, hf⟩
      · left; simp [h]
      · right; exact ⟨by simpa using h, by simpa using hf⟩
    · rename_i hp
      right; exact ⟨by simp, by simpa using hp⟩

/-- skipping a run of ASCII bytes keeps validity -/
theorem Valid.drop_run {p : UInt8 → Bool} (hp : ∀ b, p b = true → b.toNat < 128) {bs : Bytes}
    (h : Valid bs) : Valid (bs.drop (run p bs)) := by
  induction bs with
  | nil => simpa [run] using h
  | cons b bs ih =>
    simp only [run]
    split
    · rename_i hb
      simpa using ih (h.tail_of_ascii (hp b hb))
    · simpa using h

/-- skipping a run of bytes up to (not including) the first ASCII stopper keeps validity -/
theorem Valid.drop_run_until {p : UInt8 → Bool} (hp : ∀ b, p b = false → b.toNat < 128)
    {bs : Bytes} (h : Valid bs) : Valid (bs.drop (run p bs)) := by
  rcases run_stop p bs with he | ⟨hlt, hf⟩
  · rw [he]; exact Valid.drop_length bs
  · exact h.drop_at_ascii _ hlt (hp _ hf)

theorem isAsciiWs_lt {b : UInt8} (h : isAsciiWs b = true) : b.toNat < 128 := by
  simp [isAsciiWs] at h; omega

theorem isAlnum_lt {b : UInt8} (h : isAlnum b = true) : b.toNat < 128 := by
  simp [isAlnum, isUpper, isLower, isDigit] at h; omega

theorem isDigit_lt {b : UInt8} (h : isDigit b = true) : b.toNat < 128 := by
  simp [isDigit] at h; omega

/-- the closing quote found by `strEnd` is an ASCII `"` at index `n - 1 - pos` of the scanned bytes -/
theorem strEnd_spec (cs : Bytes) (esc pos n : Nat) (h : strEnd cs esc pos = some n) :
    ∃ i, ∃ hi : i < cs.length, n = pos + i + 1 ∧ cs[i].toNat = 34 := by
  fun_induction strEnd cs esc pos with
  | case1 => simp at h
  | case2 c cs esc pos hq =>
    simp at h; exact ⟨0, by simp, by omega, by simpa using hq.1⟩
  | case3 => simp at h
  | case4 c cs esc pos _ _ ih =>
    obtain ⟨i, hi, hn, hc⟩ := ih h
    exact ⟨i + 1, by simpa using hi, by omega, by simpa using hc⟩

/-- `blockEnd` stops right after a `*/` located at indices `i, i+1` of the scanned bytes -/
theorem blockEnd_spec (cs : Bytes) (p : Pos) (n m : Nat) (q : Pos)
    (h : blockEnd cs p n = some (m, q)) :
    ∃ i, ∃ hi : i + 1 < cs.length, m = n + i + 2 ∧ cs[i].toNat = 42 ∧ cs[i + 1].toNat = 47 := by
  fun_induction blockEnd cs p n with
  | case1 c d cs p n hq =>
    simp at h; exact ⟨0, by simp, by omega, by simpa using hq.1, by simpa using hq.2⟩
  | case2 c d cs p n _ ih =>
    obtain ⟨i, hi, hm, h1, h2⟩ := ih h
    exact ⟨i + 1, by simpa using hi, by omega, by simpa using h1, by simpa using h2⟩
  | case3 => simp at h

theorem hasEmptyDoc_drop (bs : Bytes) (n : Nat) (h : hasEmptyDoc bs = false) :
    hasEmptyDoc (bs.drop n) = false := by
  induction n generalizing bs with
  | zero => simpa using h
  | succ n ih =>
    cases bs with
    | nil => simp [hasEmptyDoc]
    | cons a rest =>
      simp only [List.drop_succ_cons]
      apply ih
      simp only [hasEmptyDoc, Bool.or_eq_false_iff] at h
      exact h.2

/-- the best literal is 0 or the length of a table entry that is a prefix -/
theorem bestLit_spec (table : List (Bytes × Bytes)) (rest : Bytes) :
    (bestLit table rest).1 = 0 ∨
      ∃ e ∈ table, e.1.isPrefixOf rest = true ∧ (bestLit table rest).1 = e.1.length := by
  unfold bestLit
  suffices H : ∀ (l : List (Bytes × Bytes)) (init : Nat × Bytes), (∀ e ∈ l, e ∈ table) →
      (init.1 = 0 ∨ ∃ e ∈ table, e.1.isPrefixOf rest = true ∧ init.1 = e.1.length) →
      ((l.foldl (fun best e => if e.1.isPrefixOf rest && best.1 < e.1.length then (e.1.length, e.2) else best) init).1 = 0 ∨
        ∃ e ∈ table, e.1.isPrefixOf rest = true ∧
          (l.foldl (fun best e => if e.1.isPrefixOf rest && best.1 < e.1.length then (e.1.length, e.2) else best) init).1 = e.1.length) from
    H table (0, []) (fun _ h => h) (Or.inl rfl)
  intro l
  induction l with
  | nil => intro init _ h; simpa using h
  | cons e t ih =>
    intro init hsub h
    simp only [List.foldl_cons]
    apply ih _ (fun x hx => hsub x (List.mem_cons_of_mem _ hx))
    split
    · rename_i hc
      simp only [Bool.and_eq_true] at hc
      right; exact ⟨e, hsub e (List.mem_cons_self ..), hc.1, rfl⟩
    · exact h

open SamVerif.Generated.Keywords

/-- all bytes of every token literal of the generated tables are ASCII (re-checked by the kernel
whenever the tables are regenerated from the source) -/
theorem keywords_ascii : ∀ e ∈ keywords, ∀ b ∈ e.1, b.toNat < 128 := by decide
theorem operators_ascii : ∀ e ∈ operators, ∀ b ∈ e.1, b.toNat < 128 := by decide

theorem Valid.drop_ascii_prefix {k bs : Bytes} (h : Valid bs) (hp : k.isPrefixOf bs = true)
    (ha : ∀ b ∈ k, b.toNat < 128) : Valid (bs.drop k.length) := by
  induction k generalizing bs with
  | nil => simpa using h
  | cons a k ih =>
    cases bs with
    | nil => simp [List.isPrefixOf] at hp
    | cons b bs =>
      simp only [List.isPrefixOf, Bool.and_eq_true, beq_iff_eq] at hp
      simp only [List.length_cons, List.drop_succ_cons]
      have hb : b.toNat < 128 := by rw [← hp.1]; exact ha a (List.mem_cons_self ..)
      exact ih (h.tail_of_ascii hb) hp.2 (fun x hx => ha x (List.mem_cons_of_mem _ hx))

theorem Valid.drop_bestLit {table : List (Bytes × Bytes)} (ht : ∀ e ∈ table, ∀ b ∈ e.1, b.toNat < 128)
    {rest : Bytes} (h : Valid rest) : Valid (rest.drop (bestLit table rest).1) := by
  rcases bestLit_spec table rest with h0 | ⟨e, he, hp, hl⟩
  · rw [h0]; simpa using h
  · rw [hl]; exact h.drop_ascii_prefix hp (ht e he)

theorem Valid.drop_regex {rest : Bytes} (h : Valid rest) : Valid (rest.drop (regexMatch rest).2) := by
  unfold regexMatch
  split
  · simpa using h
  · rename_i b bs
    have hr {p : UInt8 → Bool} (hp : ∀ b, p b = true → b.toNat < 128) (hb : b.toNat < 128) :
        Valid ((b :: bs).drop (run p bs + 1)) := by
      simpa using (h.tail_of_ascii hb).drop_run hp
    split
    · rename_i hu; exact hr (fun _ => isAlnum_lt) (by simp [isUpper] at hu; omega)
    · split
      · rename_i hu; exact hr (fun _ => isAlnum_lt) (by simp [isLower] at hu; omega)
      · split
        · rename_i hz; simpa using h.tail_of_ascii (by omega)
        · split
          · rename_i hd; exact hr (fun _ => isDigit_lt) (isDigit_lt hd)
          · simpa using h

/-- what the safety lemmas establish about a sub-lexer's answer -/
def TrySafe (rest : Bytes) (t : Try Scanned) : Prop :=
  t ≠ .panic ∧ ∀ s, t = .yes s → Valid s.rest ∧ ∃ k, s.rest = rest.drop k

theorem lexStrLit_safe (rest : Bytes) (pos : Pos) (h : Valid rest) :
    TrySafe rest (lexStrLit rest pos) := by
  unfold lexStrLit TrySafe
  split
  · rename_i q body
    split
    · rename_i hq
      split
      · simp
      · rename_i n hn
        obtain ⟨i, hi, hn', hc⟩ := strEnd_spec _ _ _ _ hn
        have hv : Valid ((q :: body).drop n) := by
          have := h.drop_after_ascii (i + 1) (by simpa using hi) (by simpa using (by omega : body[i].toNat < 128))
          rw [hn']; simpa [Nat.add_comm, Nat.add_left_comm] using this
        have hb := bump_of_valid_drop (by simp; omega) hv
        rw [hb]
        simp only [ne_eq, reduceCtorEq, not_false_eq_true, Try.yes.injEq, true_and]
        rintro s rfl
        exact ⟨hv, n, rfl⟩
    · simp
  · simp

theorem lexLineComment_safe (rest : Bytes) (pos : Pos) (h : Valid rest) :
    TrySafe rest (lexLineComment rest pos) := by
  unfold lexLineComment TrySafe
  split
  · rename_i a b body
    split
    · rename_i hq
      have hv : Valid ((a :: b :: body).drop (2 + run (fun c => decide (c.toNat ≠ 10)) body)) := by
        have hbody : Valid body := (h.tail_of_ascii (by omega)).tail_of_ascii (by omega)
        have := hbody.drop_run_until (p := fun c => decide (c.toNat ≠ 10)) (by intro b hb; simp at hb; omega)
        rw [Nat.add_comm]; simpa using this
      have hle := run_le (fun c => decide (c.toNat ≠ 10)) body
      have hb := bump_of_valid_drop (by simp only [List.length_cons]; omega) hv
      dsimp only
      rw [hb]
      simp only [ne_eq, reduceCtorEq, not_false_eq_true, Try.yes.injEq, true_and]
      rintro s rfl
      exact ⟨hv, _, rfl⟩
    · simp
  · simp

theorem lexBlockComment_safe (rest : Bytes) (pos : Pos) (h : Valid rest) :
    TrySafe rest (lexBlockComment rest pos) := by
  unfold lexBlockComment TrySafe
  split
  · rename_i a b body
    split
    · rename_i hq
      split
      · simp
      · rename_i n stop hn
        obtain ⟨i, hi, hn', h1, h2⟩ := blockEnd_spec _ _ _ _ _ hn
        have hv : Valid ((a :: b :: body).drop n) := by
          have := h.drop_after_ascii (i + 3) (by simp only [List.length_cons]; omega) (by simpa using (by omega : body[i + 1].toNat < 128))
          rw [hn']; simpa [Nat.add_comm, Nat.add_left_comm] using this
        have hlen : n ≤ (a :: b :: body).length := by simp; omega
        rw [bump_of_valid_drop hlen hv]
        dsimp only
        -- the slice `[3..len-2]` is only taken when `len > 4`, `[2..len-2]` always has `len ≥ 4`
        have hlt : (List.take n (a :: b :: body)).length = n := by
          simp only [List.length_take]; omega
        have hsl : ∃ bb, slice (List.take n (a :: b :: body))
            (if 4 < (List.take n (a :: b :: body)).length ∧
              Option.map (fun x => x.toNat) (List.take n (a :: b :: body))[2]? = some 42 then 3 else 2)
            ((List.take n (a :: b :: body)).length - 2) = some bb := by
          unfold slice
          rw [if_pos]
          · exact ⟨_, rfl⟩
          · rw [hlt]; split <;> omega
        obtain ⟨bb, hbb⟩ := hsl
        rw [hbb]
        simp only [ne_eq, reduceCtorEq, not_false_eq_true, Try.yes.injEq, true_and]
        rintro s rfl
        exact ⟨hv, n, rfl⟩
    · simp
  · simp

theorem lexError_safe (rest : Bytes) (pos : Pos) (h : Valid rest) :
    TrySafe rest (lexError rest pos) := by
  unfold lexError TrySafe
  dsimp only
  generalize hr : List.drop (1 + run isCont (List.drop 1 rest)) rest = remainder
  have hcut : remainder.drop (run (fun c => !isAsciiWs c) remainder) = [] ∨
      ∃ hlt : run (fun c => !isAsciiWs c) remainder < remainder.length,
        (remainder[run (fun c => !isAsciiWs c) remainder]).toNat < 128 := by
    rcases run_stop (fun c => !isAsciiWs c) remainder with he | ⟨hlt, hf⟩
    · left; rw [he]; simp
    · right; exact ⟨hlt, isAsciiWs_lt (by simpa using hf)⟩
  have hv : Valid (remainder.drop (run (fun c => !isAsciiWs c) remainder)) := by
    rcases hcut with he | ⟨hlt, ha⟩
    · rw [he]; exact Valid.nil
    · subst hr
      rw [List.drop_drop]
      apply h.drop_at_ascii
      · simpa [List.getElem_drop] using ha
      · simp only [List.length_drop] at hlt; omega
  rw [bump_of_valid_drop (run_le _ _) hv]
  simp only [ne_eq, reduceCtorEq, not_false_eq_true, Try.yes.injEq, true_and]
  rintro s rfl
  subst hr
  exact ⟨hv, _, by rw [List.drop_drop]⟩

theorem logosNext_valid {rest : Bytes} (h : Valid rest) {k : Kind} {n : Nat} {t : Bytes}
    (hl : logosNext rest = .tok k n t) : Valid (rest.drop n) := by
  unfold logosNext at hl
  simp only at hl
  split at hl
  · contradiction
  · split at hl
    · cases hl; exact h.drop_bestLit keywords_ascii
    · split at hl
      · cases hl; exact h.drop_bestLit operators_ascii
      · cases hl; exact h.drop_regex

/-- One scanner step on valid UTF-8: no panic, and the remaining input is again valid UTF-8. -/
theorem nextRaw_safe (input : Bytes) (pos0 : Pos) (h : Valid input) :
    nextRaw input pos0 ≠ .panic ∧ ∀ s, nextRaw input pos0 = .tok s → Valid s.rest := by
  unfold nextRaw
  simp only
  have hv : Valid (input.drop (run isAsciiWs input)) := h.drop_run (fun _ => isAsciiWs_lt)
  rw [bump_of_valid_drop (run_le _ _) hv]
  simp only
  generalize wsPos input pos0 = pos
  generalize input.drop (run isAsciiWs input) = rest at hv
  have fin : ∀ (t : Try Scanned) (o : Step), TrySafe rest t →
      (o ≠ .panic ∧ ∀ s, o = .tok s → Valid s.rest) →
      (ofTry t o ≠ .panic ∧ ∀ s, ofTry t o = .tok s → Valid s.rest) := by
    intro t o ht ho
    cases t with
    | no => simpa [ofTry] using ho
    | panic => exact absurd rfl ht.1
    | yes s0 =>
      simp only [ofTry, ne_eq, reduceCtorEq, not_false_eq_true, Step.tok.injEq, true_and]
      rintro s rfl
      exact (ht.2 s0 rfl).1
  apply fin _ _ (lexStrLit_safe rest pos hv)
  apply fin _ _ (lexLineComment_safe rest pos hv)
  apply fin _ _ (lexBlockComment_safe rest pos hv)
  split
  · simp
  · split
    · have hs := lexError_safe rest pos hv
      cases he : lexError rest pos with
      | no => unfold lexError at he; dsimp only at he; split at he <;> contradiction
      | panic => exact absurd he hs.1
      | yes s0 =>
        simp only [ofTry, ne_eq, reduceCtorEq, not_false_eq_true, Step.tok.injEq, true_and]
        rintro s rfl
        exact (hs.2 s0 he).1
    · rename_i k n text hl
      simp only [ne_eq, reduceCtorEq, not_false_eq_true, Step.tok.injEq, true_and]
      rintro s rfl
      exact logosNext_valid hv hl

end SamVerif.Lexer
