import SamVerif.Model.FmtDoc
import SamVerif.Lemmas.Doc
/-! Helper lemmas for the document theorems of `Props/C08b.lean` (`Model/FmtDoc.lean`). -/
namespace SamVerif.FmtDoc
open SamVerif.Doc SamVerif.FmtFull
open SamVerif.Fmt (BinOp UOp)

abbrev V : Doc → List Char := val textKey
abbrev A : Doc → Prop := Agree textKey

theorem hsp : textKey.text [' '] = [] := by decide

/-- The leaf documents have agreeing `Union`s. -/
structure Leaves.Ok (L : Leaves) : Prop where
  atom : ∀ a, A (L.atom a)
  name : ∀ p, A (L.name p)
  targs : ∀ p, A (L.targs p)
  pat : ∀ k, A (L.pat k)
  letPat : ∀ k, A (L.letPat k)
  letAnnot : ∀ k, A (L.letAnnot k)
  params : ∀ k, A (L.params k)

/-- `d` has agreeing `Union`s and reads `cs`. -/
def DocOk (d : Doc) (cs : List Char) : Prop := A d ∧ V d = cs
def DocsOk (ds : List Doc) (cs : List Char) : Prop := (∀ d ∈ ds, A d) ∧ ds.flatMap V = cs

theorem DocOk.cast {d cs cs'} (h : DocOk d cs) (e : cs = cs') : DocOk d cs' := e ▸ h
theorem DocsOk.cast {ds cs cs'} (h : DocsOk ds cs) (e : cs = cs') : DocsOk ds cs' := e ▸ h

theorem DocsOk.nil : DocsOk [] [] := ⟨fun _ h => (by cases h), rfl⟩
theorem DocsOk.cons {d c ds cs} (h : DocOk d c) (hs : DocsOk ds cs) : DocsOk (d :: ds) (c ++ cs) := by
  refine ⟨?_, ?_⟩
  · intro x hx
    rcases List.mem_cons.mp hx with rfl | hx
    · exact h.1
    · exact hs.1 x hx
  · simp [List.flatMap_cons, h.2, hs.2]
theorem DocsOk.append {as ca bs cb} (h : DocsOk as ca) (hs : DocsOk bs cb) :
    DocsOk (as ++ bs) (ca ++ cb) := by
  refine ⟨?_, ?_⟩
  · intro x hx
    rcases List.mem_append.mp hx with hx | hx
    · exact h.1 x hx
    · exact hs.1 x hx
  · simp [List.flatMap_append, h.2, hs.2]
theorem DocsOk.one {d c} (h : DocOk d c) : DocsOk [d] c := by
  have := DocsOk.cons h DocsOk.nil
  simpa using this

theorem concatV_ok {ds cs} (h : DocsOk ds cs) : DocOk (concatV ds) cs :=
  ⟨concatV_agree textKey ds h.1, by rw [show V = val textKey from rfl, concatV_val]; exact h.2⟩

theorem nil_ok : DocOk .nil [] := ⟨trivial, rfl⟩
theorem line_ok : DocOk .line [] := ⟨trivial, rfl⟩
theorem lineHard_ok : DocOk .lineHard [] := ⟨trivial, rfl⟩
theorem lineNil_ok : DocOk .lineNil [] := ⟨trivial, rfl⟩
theorem lit (s : Str) (c : List Char) (h : nonWs s = c := by decide) : DocOk (.text s) c := ⟨trivial, h⟩
theorem concat_ok {a b ca cb} (ha : DocOk a ca) (hb : DocOk b cb) : DocOk (.concat a b) (ca ++ cb) :=
  ⟨⟨ha.1, hb.1⟩, by show V a ++ V b = _; rw [ha.2, hb.2]⟩
theorem nest_ok {n d c} (h : DocOk d c) : DocOk (.nest n d) c := ⟨h.1, h.2⟩

theorem bracket_ok (l r : Str) (sep d : Doc) (cl cr c : List Char) (hl : nonWs l = cl)
    (hr : nonWs r = cr) (hs : DocOk sep []) (hd : DocOk d c) :
    DocOk (bracketFlexible l sep d r) (cl ++ c ++ cr) := by
  refine ⟨bracketFlexible_agree textKey hsp l r sep d hs.1 hd.1, ?_⟩
  show val textKey _ = _
  rw [bracketFlexible_val textKey hsp]
  have h1 : val textKey sep = [] := hs.2
  have h2 : val textKey d = c := hd.2
  have h3 : textKey.text l = cl := hl
  have h4 : textKey.text r = cr := hr
  simp [h1, h2, h3, h4]

theorem parenD_ok {d c} (h : DocOk d c) : DocOk (parenD d) ('(' :: c ++ [')']) :=
  (bracket_ok ['('] [')'] .lineNil d ['('] [')'] c (by decide) (by decide) lineNil_ok h).cast (by simp)
theorem bracesD_ok {d c} (h : DocOk d c) : DocOk (bracesD d) ('{' :: c ++ ['}']) :=
  (bracket_ok ['{'] ['}'] .line d ['{'] ['}'] c (by decide) (by decide) line_ok h).cast (by simp)

@[simp] theorem chars_nil (L : Leaves) : chars L [] = [] := rfl
@[simp] theorem chars_cons (L : Leaves) (t : FmtFull.Tok) (ts : List FmtFull.Tok) :
    chars L (t :: ts) = tokChars L t ++ chars L ts := by simp [chars]
@[simp] theorem chars_append (L : Leaves) (a b : List FmtFull.Tok) :
    chars L (a ++ b) = chars L a ++ chars L b := by simp [chars]
theorem chars_paren (L : Leaves) (ts : List FmtFull.Tok) :
    chars L (paren ts) = '(' :: chars L ts ++ [')'] := by simp [paren, tokChars]

theorem subD_ok (L : Leaves) (p : Nat) (eq : Bool) (e : Expr) {d ts} (h : DocOk d (chars L ts)) :
    DocOk (subD p eq e d) (chars L (sub p eq e ts)) := by
  unfold subD sub
  split
  · rw [chars_paren]; exact parenD_ok h
  · exact h

theorem operatorDoc_ok (o : BinOp) : DocOk (operatorDoc o) (opStr o) := by
  refine ⟨⟨trivial, trivial, trivial⟩, ?_⟩
  cases o <;> decide

theorem uop_ok (L : Leaves) (u : UOp) : DocOk (.text (uopStr u)) (tokChars L (utok u)) := by
  refine ⟨trivial, ?_⟩
  cases u
  · exact (by decide : nonWs ['!'] = ['!'])
  · exact (by decide : nonWs ['-'] = ['-'])

/-! ### Chains -/

def cval (ch : List (List Doc)) : List Char := ch.flatMap (fun ds => '.' :: ds.flatMap V)
def CA (ch : List (List Doc)) : Prop := ∀ ds ∈ ch, ∀ d ∈ ds, A d

/-- intermediate form: base and chain are fine and read `cs` together. -/
def IROk (ir : Doc × List (List Doc)) (cs : List Char) : Prop :=
  A ir.1 ∧ CA ir.2 ∧ V ir.1 ++ cval ir.2 = cs

theorem segs_ok (lead : Doc) (hl : DocOk lead []) (ch : List (List Doc)) (hc : CA ch) :
    DocsOk (ch.flatMap (seg lead)) (cval ch) := by
  induction ch with
  | nil => exact DocsOk.nil
  | cons x xs ih =>
    have hx : DocsOk x (x.flatMap V) := ⟨fun d hd => hc x (by simp) d hd, rfl⟩
    have := DocsOk.append (DocsOk.cons hl (DocsOk.cons (lit ['.'] ['.']) hx))
      (ih (fun ds hds => hc ds (List.mem_cons_of_mem _ hds)))
    simpa [seg, cval, List.flatMap_cons] using this

theorem dottedChain_ok (base : Doc) (cb : List Char) (hb : DocOk base cb) (ch : List (List Doc))
    (hc : CA ch) : DocOk (dottedChain base ch) (cb ++ cval ch) := by
  have hexp0 : DocOk (expanded0 base ch) (cb ++ cval ch) :=
    (concatV_ok (DocsOk.cons hb (DocsOk.one (nest_ok (concatV_ok (segs_ok _ lineHard_ok ch hc)))))).cast
      (by simp)
  have hexp : DocOk (expandedChain base ch) (cb ++ cval ch) := by
    cases ch with
    | nil => exact hexp0
    | cons first rest =>
      have hf : DocsOk first (first.flatMap V) := ⟨fun d hd => hc first (by simp) d hd, rfl⟩
      have hr : CA rest := fun ds hds => hc ds (List.mem_cons_of_mem _ hds)
      have hless : DocOk (concatV [base, .nil, .text ['.'], concatV first,
          .nest 2 (concatV (rest.flatMap (seg .lineHard)))]) (cb ++ cval (first :: rest)) :=
        (concatV_ok (DocsOk.cons hb (DocsOk.cons nil_ok (DocsOk.cons (lit ['.'] ['.'])
          (DocsOk.cons (concatV_ok hf)
            (DocsOk.one (nest_ok (concatV_ok (segs_ok _ lineHard_ok rest hr))))))))).cast
          (by simp [cval, List.flatMap_cons])
      exact ⟨⟨hless.2.trans hexp0.2.symm, hless.1, hexp0.1⟩, hless.2⟩
  have hflat : DocOk (concatV (base :: ch.flatMap (seg .nil))) (cb ++ cval ch) :=
    concatV_ok (DocsOk.cons hb (segs_ok _ nil_ok ch hc))
  unfold dottedChain
  split
  · rename_i f hf
    have hv : V f = cb ++ cval ch := (flatten_val textKey hsp _ f hf).trans hflat.2
    exact ⟨⟨hv.trans hexp.2.symm, flatten_agree textKey _ f hf, hexp.1⟩, hv⟩
  · exact hexp

theorem pushLast_ok (ch : List (List Doc)) (a : Doc) (ha : A a) (hne : ch ≠ []) (hc : CA ch) :
    CA (pushLast ch a) ∧ cval (pushLast ch a) = cval ch ++ V a := by
  induction ch with
  | nil => exact absurd rfl hne
  | cons x xs ih =>
    cases xs with
    | nil =>
      refine ⟨?_, by simp [pushLast, cval, List.flatMap_cons, List.flatMap_append]⟩
      intro ds hds d hd
      simp only [pushLast, List.mem_singleton] at hds
      subst hds
      rcases List.mem_append.mp hd with hd | hd
      · exact hc x (by simp) d hd
      · simp at hd; subst hd; exact ha
    | cons y r =>
      have ih' := ih (by simp) (fun ds hds => hc ds (List.mem_cons_of_mem _ hds))
      refine ⟨?_, ?_⟩
      · intro ds hds d hd
        simp only [pushLast] at hds
        rcases List.mem_cons.mp hds with rfl | hds
        · exact hc ds (by simp) d hd
        · exact ih'.1 ds hds d hd
      · have := ih'.2
        simp only [pushLast, cval, List.flatMap_cons] at this ⊢
        rw [this]
        simp

theorem pushArgs_ok {ir cs a ca} (h : IROk ir cs) (ha : DocOk a ca) : IROk (pushArgs ir a) (cs ++ ca) := by
  obtain ⟨h1, h2, h3⟩ := h
  unfold pushArgs
  split
  · rename_i hnil
    refine ⟨⟨h1, ha.1⟩, fun _ hds => (by cases hds), ?_⟩
    rw [hnil] at h3
    show (V ir.1 ++ V a) ++ cval [] = _
    rw [← h3, ha.2]
    simp [cval]
  · rename_i c cs' hcons
    rw [hcons] at h2 h3
    have := pushLast_ok (c :: cs') a ha.1 (by simp) h2
    refine ⟨h1, this.1, ?_⟩
    show V ir.1 ++ cval (pushLast (c :: cs') a) = _
    rw [this.2, ← h3, ha.2]
    simp

theorem pushArgs_chain_nil (ir : Doc × List (List Doc)) (a : Doc) (h : (pushArgs ir a).2 = []) :
    ir.2 = [] := by
  unfold pushArgs at h
  split at h
  · assumption
  · rename_i c cs hc
    cases cs with
    | nil => simp [pushLast] at h
    | cons y r => simp [pushLast] at h

theorem close_ok (e : Expr) {ir cs} (h : IROk ir cs) (hn : isChain e = false → ir.2 = []) :
    DocOk (close e ir) cs := by
  obtain ⟨h1, h2, h3⟩ := h
  unfold close
  split
  · exact (dottedChain_ok ir.1 (V ir.1) ⟨h1, rfl⟩ ir.2 h2).cast h3
  · rename_i hc
    have := hn (by simpa using hc)
    rw [this] at h3
    exact ⟨h1, by simpa [cval] using h3⟩

theorem baseIR_ok (L : Leaves) (e : Expr) {ir} (h : IROk ir (chars L (printE e)))
    (hn : isChain e = false → ir.2 = []) :
    IROk (baseIR e ir) (chars L (sub 1 false e (printE e))) := by
  unfold baseIR
  split
  · rename_i hc
    have : needParen 1 false e = false := by
      cases e <;> simp [isChain] at hc <;> simp [needParen, Expr.prec]
    simpa [sub, this] using h
  · have hd := subD_ok L 1 false e (close_ok e h hn)
    rename_i hc
    have hcl : close e ir = ir.1 := by simp [close, hc]
    rw [hcl] at hd
    exact ⟨hd.1, fun _ hds => (by cases hds), by simpa [cval] using hd.2⟩

/-! ### Blocks and if-else -/

theorem dropLast_val (l : List Doc) (h : ∀ x, l.getLast? = some x → V x = []) :
    l.dropLast.flatMap V = l.flatMap V := by
  rcases List.eq_nil_or_concat l with rfl | ⟨xs, x, rfl⟩
  · rfl
  · have := h x (by simp)
    simp [List.flatMap_append, this]

theorem segsWithFinal_ok (segs : List Doc) (cs : List Char) (hs : DocsOk segs cs)
    (hlast : ∀ x, segs.getLast? = some x → V x = [])
    (final : Option Doc) (cf : List Char) (hf : ∀ d, final = some d → DocOk d cf)
    (hnone : final = none → cf = []) : DocsOk (segsWithFinal segs final) (cs ++ cf) := by
  cases final with
  | none =>
    rw [hnone rfl]
    refine ⟨fun d hd => hs.1 d (List.dropLast_subset _ hd), ?_⟩
    show segs.dropLast.flatMap V = _
    rw [dropLast_val segs hlast, hs.2]; simp
  | some d => exact DocsOk.append hs (DocsOk.one (hf d rfl))

theorem blockOf_ok (fe : Bool) (segs : List Doc) (cs : List Char) (hs : DocsOk segs cs)
    (hlast : ∀ x, segs.getLast? = some x → V x = [])
    (final : Option Doc) (cf : List Char) (hf : ∀ d, final = some d → DocOk d cf)
    (hnone : final = none → cf = []) :
    DocOk (blockOf fe segs final) ('{' :: cs ++ cf ++ ['}']) := by
  have hfin : DocOk (final.getD .nil) cf := by
    cases final with
    | none => rw [hnone rfl]; exact nil_ok
    | some d => exact hf d rfl
  have hsegs' := segsWithFinal_ok segs cs hs hlast final cf hf hnone
  unfold blockOf
  split
  · rename_i hemp
    have : segs = [] := by simpa using hemp
    subst this
    have hcs : cs = [] := hs.2.symm
    subst hcs
    split
    · exact (concatV_ok (DocsOk.cons (lit ['{'] ['{']) (DocsOk.cons
        (nest_ok (concatV_ok (DocsOk.cons lineHard_ok (DocsOk.one hfin))))
        (DocsOk.cons line_ok (DocsOk.one (lit ['}'] ['}'])))))).cast (by simp)
    · exact (bracesD_ok hfin).cast (by simp)
  · have hsep : DocOk (if fe then Doc.lineHard else Doc.line) [] := by
      cases fe
      · exact line_ok
      · exact lineHard_ok
    exact (concatV_ok (DocsOk.cons (lit ['{'] ['{']) (DocsOk.cons
      (nest_ok (concatV_ok (DocsOk.cons hsep hsegs')))
      (DocsOk.cons hsep (DocsOk.one (lit ['}'] ['}'])))))).cast (by simp)

theorem ifElseCustom_ok {c t e cc ct ce} (hc : DocOk c cc) (ht : DocOk t ct) (he : DocOk e ce) :
    DocOk (ifElseCustom c t e) (['i', 'f'] ++ cc ++ ct ++ ['e', 'l', 's', 'e'] ++ ce) :=
  (concatV_ok (DocsOk.cons
    (concatV_ok (DocsOk.cons (lit ['i', 'f', ' '] ['i', 'f']) (DocsOk.cons hc (DocsOk.one (lit [' '] [])))))
    (DocsOk.cons ht (DocsOk.cons (lit [' ', 'e', 'l', 's', 'e', ' '] ['e', 'l', 's', 'e'])
      (DocsOk.one he))))).cast (by simp)

theorem ifElseDoc_ok {c tf ef tx ex cc ct ce} (hc : DocOk c cc) (htf : DocOk tf ct) (hef : DocOk ef ce)
    (htx : DocOk tx ct) (hex : DocOk ex ce) :
    DocOk (ifElseDoc c tf ef tx ex) (['i', 'f'] ++ cc ++ ct ++ ['e', 'l', 's', 'e'] ++ ce) := by
  have hflat := ifElseCustom_ok hc htf hef
  have hexp := ifElseCustom_ok hc htx hex
  unfold ifElseDoc
  split
  · rename_i f hf
    have hv : V f = _ := (flatten_val textKey hsp _ f hf).trans hflat.2
    exact ⟨⟨hv.trans hexp.2.symm, flatten_agree textKey _ f hf, hexp.1⟩, hv⟩
  · exact hexp

/-! ### The main induction -/

def IRFull (L : Leaves) (e : Expr) : Prop :=
  IROk (irOf L e) (chars L (printE e)) ∧ (isChain e = false → (irOf L e).2 = [])

theorem IRFull.doc {L : Leaves} {e : Expr} (h : IRFull L e) :
    DocOk (close e (irOf L e)) (chars L (printE e)) := close_ok e h.1 h.2

theorem irfull_of_doc (L : Leaves) (e : Expr) (hn : (irOf L e).2 = [])
    (h : DocOk (irOf L e).1 (chars L (printE e))) : IRFull L e := by
  unfold IRFull
  refine ⟨⟨h.1, ?_, ?_⟩, fun _ => hn⟩
  · rw [hn]; exact fun _ hds => (by cases hds)
  · rw [hn]; simpa [cval] using h.2

mutual
theorem ir_ok (L : Leaves) (hL : L.Ok) : (e : Expr) → IRFull L e
  | .atom a => irfull_of_doc L _ (by simp [irOf]) (by
      simp only [irOf]
      exact DocOk.cast (d := L.atom a) (cs := V (L.atom a)) ⟨hL.atom a, rfl⟩ (by simp [printE, tokChars]))
  | .tuple e es => irfull_of_doc L _ (by simp [irOf]) (by
      simp only [irOf]
      have he := (ir_ok L hL e).doc
      have hes := args_ok L hL es
      exact (parenD_ok (concatV_ok (DocsOk.cons he (DocsOk.cons (lit [','] [',']) (DocsOk.cons line_ok
        (DocsOk.one hes)))))).cast (by simp [printE, tokChars]))
  | .block b => irfull_of_doc L _ (by simp [irOf]) (by
      simp only [irOf]
      have := blk_ok L hL false b
      simpa [printE, tokChars] using this)
  | .post e p fld => by
    have hb := baseIR_ok L e (ir_ok L hL e).1 (ir_ok L hL e).2
    obtain ⟨h1, h2, h3⟩ := hb
    refine ⟨⟨h1, ?_, ?_⟩, fun h => by simp [isChain] at h⟩
    · intro ds hds d hd
      simp only [irOf] at hds
      rcases List.mem_append.mp hds with hds | hds
      · exact h2 ds hds d hd
      · simp only [List.mem_singleton] at hds
        subst hds
        simp only [List.mem_cons, List.not_mem_nil, or_false] at hd
        rcases hd with rfl | rfl
        · exact hL.name p
        · cases fld
          · exact hL.targs p
          · trivial
    · show V _ ++ cval _ = _
      simp only [irOf, printE, chars_append, ← h3]
      cases fld <;> simp [cval, List.flatMap_append, tokChars, V, val]
  | .call0 f => by
    have hb := baseIR_ok L f (ir_ok L hL f).1 (ir_ok L hL f).2
    have := pushArgs_ok hb (parenD_ok nil_ok)
    refine ⟨?_, fun h => by simp [isChain] at h⟩
    simpa [irOf, printE, tokChars] using this
  | .call f args => by
    have hb := baseIR_ok L f (ir_ok L hL f).1 (ir_ok L hL f).2
    have := pushArgs_ok hb (parenD_ok (args_ok L hL args))
    refine ⟨?_, fun h => by simp [isChain] at h⟩
    simpa [irOf, printE, tokChars] using this
  | .unary u e => irfull_of_doc L _ (by simp [irOf]) (by
      simp only [irOf]
      have he := subD_ok L 2 true e (ir_ok L hL e).doc
      exact (concat_ok (uop_ok L u) he).cast (by simp [printE]))
  | .binary o l r => by
    have hl := (ir_ok L hL l).doc
    have hr := (ir_ok L hL r).doc
    have hsl := subD_ok L (4 + o.pprec) true l hl
    have hsr := subD_ok L (4 + o.pprec) true r hr
    have hpl := parenD_ok hl
    have hop := operatorDoc_ok o
    by_cases h1 : o = .lt ∧ endsMember l = true
    · exact irfull_of_doc L _ (by simp [irOf]) (by
        simp only [irOf, if_pos h1]
        exact (concatV_ok (DocsOk.cons hpl (DocsOk.cons nil_ok (DocsOk.cons hop (DocsOk.one hsr))))).cast
          (by simp [printE, h1, tokChars, chars_paren]))
    · by_cases h2 : l.prec = 4 + o.pprec
      · exact irfull_of_doc L _ (by simp [irOf]) (by
          simp only [irOf, if_neg h1, if_pos h2]
          exact (concatV_ok (DocsOk.cons hl (DocsOk.cons nil_ok (DocsOk.cons hop (DocsOk.one hsr))))).cast
            (by simp [printE, h1, h2, tokChars]))
      · by_cases h3 : r.prec = 4 + o.pprec ∧ shortcutOk o r = true
        · exact irfull_of_doc L _ (by simp [irOf]) (by
            simp only [irOf, if_neg h1, if_neg h2, if_pos h3]
            exact (concatV_ok (DocsOk.cons hsl (DocsOk.cons nil_ok (DocsOk.cons hop (DocsOk.one hr))))).cast
              (by simp [printE, h1, h2, h3, tokChars]))
        · exact irfull_of_doc L _ (by simp [irOf]) (by
            simp only [irOf, if_neg h1, if_neg h2, if_neg h3]
            exact (concatV_ok (DocsOk.cons hsl (DocsOk.cons nil_ok (DocsOk.cons hop (DocsOk.one hsr))))).cast
              (by simp [printE, h1, h2, h3, tokChars]))
  | .ifElse c t e => irfull_of_doc L _ (by simp [irOf]) (by
      simp only [irOf]
      have hc := (ir_ok L hL c).doc
      exact (ifElseDoc_ok hc (blk_ok L hL false t) (blk_ok L hL false e) (blk_ok L hL true t)
        (blk_ok L hL true e)).cast (by simp [printE, tokChars]))
  | .matchE m cs => irfull_of_doc L _ (by simp [irOf]) (by
      simp only [irOf]
      have hm := (ir_ok L hL m).doc
      have hcs := cases_ok L hL cs
      exact (concatV_ok (DocsOk.cons (lit ['m', 'a', 't', 'c', 'h', ' '] ['m', 'a', 't', 'c', 'h'])
        (DocsOk.cons hm (DocsOk.cons (lit [' '] []) (DocsOk.one
          (bracket_ok ['{'] ['}'] .lineHard _ ['{'] ['}'] _ (by decide) (by decide) lineHard_ok
            (concatV_ok hcs))))))).cast (by simp [printE, tokChars]))
  | .lambda k body => irfull_of_doc L _ (by simp [irOf]) (by
      simp only [irOf]
      have hb := subD_ok L 12 false body (ir_ok L hL body).doc
      have hp : DocOk (L.params k) (V (L.params k)) := ⟨hL.params k, rfl⟩
      exact (concatV_ok (DocsOk.cons (parenD_ok hp) (DocsOk.cons (lit [' ', '-', '>', ' '] ['-', '>'])
        (DocsOk.one hb)))).cast (by simp [printE, tokChars]))
theorem args_ok (L : Leaves) (hL : L.Ok) : (as : Args) → DocOk (docArgs L as) (chars L (printArgs as))
  | .one e => by simpa [docArgs, printArgs] using (ir_ok L hL e).doc
  | .cons e rest => by
    have he := (ir_ok L hL e).doc
    have hr := args_ok L hL rest
    simp only [docArgs, printArgs]
    exact (concatV_ok (DocsOk.cons he (DocsOk.cons (lit [','] [',']) (DocsOk.cons line_ok
      (DocsOk.one hr))))).cast (by simp [tokChars])
theorem cases_ok (L : Leaves) (hL : L.Ok) : (cs : Cases) → DocsOk (docCases L cs) (chars L (printCases cs))
  | .one k b => by
    have hb := (ir_ok L hL b).doc
    have hp : DocOk (L.pat k) (V (L.pat k)) := ⟨hL.pat k, rfl⟩
    simp only [docCases, printCases]
    exact (DocsOk.cons hp (DocsOk.cons (lit [' ', '-', '>', ' '] ['-', '>']) (DocsOk.cons hb
      (DocsOk.one (lit [','] [',']))))).cast (by simp [tokChars])
  | .cons k b rest => by
    have hb := (ir_ok L hL b).doc
    have hr := cases_ok L hL rest
    have hp : DocOk (L.pat k) (V (L.pat k)) := ⟨hL.pat k, rfl⟩
    simp only [docCases, printCases]
    exact (DocsOk.cons hp (DocsOk.cons (lit [' ', '-', '>', ' '] ['-', '>']) (DocsOk.cons hb
      (DocsOk.cons (lit [','] [',']) (DocsOk.cons line_ok hr))))).cast (by simp [tokChars])
theorem blk_ok (L : Leaves) (hL : L.Ok) (fe : Bool) :
    (b : Blk) → DocOk (blockDoc L fe b) ('{' :: chars L (printBody b))
  | .fin ss e => by
    have hs := stmts_ok L hL ss
    have he := (ir_ok L hL e).doc
    simp only [blockDoc, printBody]
    exact (blockOf_ok fe _ _ hs.1 hs.2 (some _) _ (fun d hd => by cases hd; exact he)
      (fun h => by cases h)).cast (by simp [tokChars])
  | .noFin ss => by
    have hs := stmts_ok L hL ss
    simp only [blockDoc, printBody]
    exact (blockOf_ok fe _ _ hs.1 hs.2 none [] (fun d hd => by cases hd) (fun _ => rfl)).cast
      (by simp [tokChars])
theorem stmts_ok (L : Leaves) (hL : L.Ok) : (ss : Stmts) →
    DocsOk (stmtSegs L ss) (chars L (printStmts ss)) ∧
      ∀ x, (stmtSegs L ss).getLast? = some x → V x = []
  | .nil => ⟨by simpa [stmtSegs, printStmts] using DocsOk.nil, fun x h => by simp [stmtSegs] at h⟩
  | .letS k e rest => by
    have he := (ir_ok L hL e).doc
    have hr := stmts_ok L hL rest
    have hp : DocOk (L.letPat k) (V (L.letPat k)) := ⟨hL.letPat k, rfl⟩
    have ha : DocOk (L.letAnnot k) (V (L.letAnnot k)) := ⟨hL.letAnnot k, rfl⟩
    simp only [stmtSegs, printStmts]
    refine ⟨?_, ?_⟩
    · exact (DocsOk.cons (concatV_ok (DocsOk.cons nil_ok (DocsOk.cons
        (lit ['l', 'e', 't', ' '] ['l', 'e', 't']) (DocsOk.cons hp (DocsOk.cons ha
        (DocsOk.cons (lit [' ', '=', ' '] ['=']) (DocsOk.cons he (DocsOk.one (lit [';'] [';'])))))))))
        (DocsOk.cons lineHard_ok hr.1)).cast (by simp [tokChars])
    · intro x hx
      cases hrest : stmtSegs L rest with
      | nil => rw [hrest] at hx; simp at hx; subst hx; rfl
      | cons y ys =>
        rw [hrest] at hx
        apply hr.2 x
        rw [hrest]
        simpa [List.getLast?_cons_cons] using hx
  | .exprS e rest => by
    have he := (ir_ok L hL e).doc
    have hr := stmts_ok L hL rest
    simp only [stmtSegs, printStmts]
    refine ⟨?_, ?_⟩
    · exact (DocsOk.cons (concatV_ok (DocsOk.cons he (DocsOk.one (lit [';'] [';']))))
        (DocsOk.cons lineHard_ok hr.1)).cast (by simp [tokChars])
    · intro x hx
      cases hrest : stmtSegs L rest with
      | nil => rw [hrest] at hx; simp at hx; subst hx; rfl
      | cons y ys =>
        rw [hrest] at hx
        apply hr.2 x
        rw [hrest]
        simpa [List.getLast?_cons_cons] using hx
end

end SamVerif.FmtDoc
