import SamVerif.Model.CpeProg
import SamVerif.Lemmas.CpeSem
/-! Helper lemmas for C01 / K4c: simulations for constant-parameter elimination over a program. -/
namespace SamVerif.CpeProg
open SamVerif.TailRec
open SamVerif.Opt (Op)
open SamVerif.CpeSem (Res exprReads exprArg substExpr bindParams_erase bindParams_get map_eraseIdx')

/-- Environments that agree everywhere except on the hidden name. -/
def AgreeH (hide : Option Name) (e1 e2 : Env) : Prop := ∀ x, hide ≠ some x → e1 x = e2 x

theorem AgreeH.upd {hide : Option Name} {e1 e2 : Env} (h : AgreeH hide e1 e2) (x : Name) (v : Int) :
    AgreeH hide (upd e1 x v) (upd e2 x v) := by
  intro y hy
  simp only [TailRec.upd]
  split
  · rfl
  · exact h y hy

theorem eval_agreeH {hide : Option Name} {e1 e2 : Env} (h : AgreeH hide e1 e2) (e : Expr)
    (he : clean hide e) : e.eval e1 = e.eval e2 := by
  cases e with
  | lit n => rfl
  | var x => exact h x (fun hx => he x hx rfl)

theorem map_agreeH {hide : Option Name} {e1 e2 : Env} (h : AgreeH hide e1 e2) (es : List Expr)
    (hes : ∀ e ∈ es, clean hide e) : es.map (Expr.eval e1) = es.map (Expr.eval e2) :=
  List.map_congr_left (fun e he => eval_agreeH h e (hes e he))

theorem map_erase_agreeH {hide : Option Name} {e1 e2 : Env} (h : AgreeH hide e1 e2) :
    ∀ (args : List Expr) (i : Nat),
    (∀ (j : Nat) (a : Expr), j ≠ i → args[j]? = some a → clean hide a) →
    (args.map (Expr.eval e1)).eraseIdx i = (args.eraseIdx i).map (Expr.eval e2) := by
  intro args
  induction args with
  | nil => intro i _; simp
  | cons a rest ih =>
    intro i hj
    cases i with
    | zero =>
      simp only [List.map_cons, List.eraseIdx_cons_zero]
      apply List.map_congr_left
      intro b hb
      obtain ⟨k, hk⟩ := List.getElem?_of_mem hb
      exact eval_agreeH h b (hj (k + 1) b (by omega) (by simpa using hk))
    | succ k =>
      simp only [List.map_cons, List.eraseIdx_cons_succ]
      congr 1
      · exact eval_agreeH h a (hj 0 a (by omega) (by simp))
      · exact ih k (fun j b hjk hb => hj (j + 1) b (by omega) (by simpa using hb))

theorem agreeH_of_agree {p : Name} {e1 e2 : Env} (h : CpeSem.Agree p e1 e2) : AgreeH (some p) e1 e2 :=
  fun x hx => h x (fun hxp => hx (by rw [hxp]))

theorem agreeH_refl (e : Env) : AgreeH none e e := fun _ _ => rfl

theorem lookup_mem {prog : Prog} {g : Nat} {fn : PFn} (h : lookup prog g = some fn) :
    fn ∈ prog ∧ fn.name = g := by
  unfold lookup at h
  exact ⟨List.mem_of_find?_eq_some h, by simpa using List.find?_some h⟩

theorem lookup_map (prog : Prog) (T : PFn → PFn) (hT : ∀ fn, (T fn).name = fn.name) (g : Nat) :
    lookup (prog.map T) g = (lookup prog g).map T := by
  unfold lookup
  induction prog with
  | nil => rfl
  | cons fn rest ih =>
    simp only [List.map_cons, List.find?_cons, hT]
    split
    · rfl
    · exact ih

def hideOf (g : Nat) (p : Name) (fn : PFn) : Option Name := if fn.name = g then some p else none

/-- Simulation for an unused parameter, over the whole program. -/
theorem exec_dropParam (ev : Op → Int → Int → Option Int) (prog : Prog) (g i : Nat) (gfn : PFn) (p : Name)
    (hg : lookup prog g = some gfn) (hp : gfn.params[i]? = some p) (hnd : gfn.params.Nodup)
    (hall : ∀ fn ∈ prog, okU g i gfn.params.length (hideOf g p fn) fn.body) :
    ∀ (fuel : Nat) (b : PBody) (hide : Option Name) (e1 e2 : Env) (out : List (List Int)),
      AgreeH hide e1 e2 → okU g i gfn.params.length hide b →
      exec ev prog fuel e1 out b = exec ev (dropParam g i prog) fuel e2 out (dropArgs g i b) := by
  have hlk : ∀ h, lookup (dropParam g i prog) h = (lookup prog h).map fun fn =>
      { fn with params := if fn.name = g then fn.params.eraseIdx i else fn.params,
                body := dropArgs g i fn.body } :=
    fun h => lookup_map prog (fun fn =>
      { fn with params := if fn.name = g then fn.params.eraseIdx i else fn.params,
                body := dropArgs g i fn.body }) (fun _ => rfl) h
  intro fuel
  induction fuel with
  | zero =>
    intro b
    induction b with
    | ret e => intro hide e1 e2 out ha hk; simp [exec, dropArgs, eval_agreeH ha e hk]
    | bin x op a1 a2 k ih =>
      intro hide e1 e2 out ha hk
      obtain ⟨hx, h1, h2, hk'⟩ := hk
      simp only [exec, dropArgs, eval_agreeH ha a1 h1, eval_agreeH ha a2 h2]
      split
      · rfl
      · exact ih _ _ _ _ (ha.upd x _) hk'
    | print es k ih =>
      intro hide e1 e2 out ha hk
      simp only [exec, dropArgs, map_agreeH ha es hk.1]
      exact ih _ _ _ _ ha hk.2
    | ite c t e iht ihe =>
      intro hide e1 e2 out ha hk
      simp only [exec, dropArgs, eval_agreeH ha c hk.1]
      split
      · exact iht _ _ _ _ ha hk.2.1
      · exact ihe _ _ _ _ ha hk.2.2
    | call x h args k ih => intro hide e1 e2 out ha hk; simp [exec, dropArgs]
  | succ n ihn =>
    intro b
    induction b with
    | ret e => intro hide e1 e2 out ha hk; simp [exec, dropArgs, eval_agreeH ha e hk]
    | bin x op a1 a2 k ih =>
      intro hide e1 e2 out ha hk
      obtain ⟨hx, h1, h2, hk'⟩ := hk
      simp only [exec, dropArgs, eval_agreeH ha a1 h1, eval_agreeH ha a2 h2]
      split
      · rfl
      · exact ih _ _ _ _ (ha.upd x _) hk'
    | print es k ih =>
      intro hide e1 e2 out ha hk
      simp only [exec, dropArgs, map_agreeH ha es hk.1]
      exact ih _ _ _ _ ha hk.2
    | ite c t e iht ihe =>
      intro hide e1 e2 out ha hk
      simp only [exec, dropArgs, eval_agreeH ha c hk.1]
      split
      · exact iht _ _ _ _ ha hk.2.1
      · exact ihe _ _ _ _ ha hk.2.2
    | call x h args k ih =>
      intro hide e1 e2 out ha hk
      obtain ⟨hx, hargs, hk'⟩ := hk
      simp only [exec, dropArgs, hlk]
      cases hl : lookup prog h with
      | none => simp
      | some fn =>
        have hm := lookup_mem hl
        simp only [Option.map_some]
        by_cases hhg : h = g
        · subst hhg
          have hfn : fn = gfn := by rw [hl] at hg; exact Option.some.inj hg
          subst hfn
          simp only [if_true] at hargs
          simp only [hm.2, if_true]
          have hvals := map_erase_agreeH ha args i hargs.2
          have hcallee := ihn fn.body (some p)
            (bindParams fn.params (args.map (Expr.eval e1)))
            (bindParams (fn.params.eraseIdx i) ((args.eraseIdx i).map (Expr.eval e2))) out
            (by rw [← hvals]; exact agreeH_of_agree (bindParams_erase p fn.params _ i hp hnd))
            (by have := hall fn hm.1; simpa [hideOf, hm.2] using this)
          rw [hcallee]
          split
          · rfl
          · exact ih _ _ _ _ (ha.upd x _) hk'
        · simp only [hhg, if_false] at hargs
          have hne : fn.name ≠ g := fun hq => hhg (hm.2.symm.trans hq)
          simp only [hne, hhg, if_false]
          have hvals := map_agreeH ha args hargs
          have hcallee := ihn fn.body none
            (bindParams fn.params (args.map (Expr.eval e1)))
            (bindParams fn.params (args.map (Expr.eval e2))) out
            (by rw [hvals]; exact agreeH_refl _)
            (by have := hall fn hm.1; simpa [hideOf, hne] using this)
          rw [hcallee]
          split
          · rfl
          · exact ih _ _ _ _ (ha.upd x _) hk'

open SamVerif.CpeSem (eval_subst map_subst upd_keep) in
/-- Simulation for a constant parameter, over the whole program: inside `g` (A) the parameter holds
`n`, is replaced by the literal and dropped; in every other function (B) only the calls of `g` change. -/
theorem exec_substParam (ev : Op → Int → Int → Option Int) (prog : Prog) (g i : Nat) (gfn : PFn)
    (p : Name) (n : Int)
    (hg : lookup prog g = some gfn) (hp : gfn.params[i]? = some p) (hnd : gfn.params.Nodup)
    (hall : ∀ fn ∈ prog, okC g i gfn.params.length n (hideOf g p fn) fn.body) :
    ∀ (fuel : Nat),
      (∀ (b : PBody) (e1 e2 : Env) (out : List (List Int)), CpeSem.Agree p e1 e2 → e1 p = n →
        okC g i gfn.params.length n (some p) b →
        exec ev prog fuel e1 out b =
          exec ev (substParam g i p n prog) fuel e2 out (dropArgs g i (substVar p n b))) ∧
      (∀ (b : PBody) (e : Env) (out : List (List Int)), okC g i gfn.params.length n none b →
        exec ev prog fuel e out b = exec ev (substParam g i p n prog) fuel e out (dropArgs g i b)) := by
  have hlk : ∀ h, lookup (substParam g i p n prog) h = (lookup prog h).map fun fn =>
      { fn with params := if fn.name = g then fn.params.eraseIdx i else fn.params,
                body := dropArgs g i (if fn.name = g then substVar p n fn.body else fn.body) } :=
    fun h => lookup_map prog (fun fn =>
      { fn with params := if fn.name = g then fn.params.eraseIdx i else fn.params,
                body := dropArgs g i (if fn.name = g then substVar p n fn.body else fn.body) })
      (fun _ => rfl) h
  -- the two call cases, given the statements for the callee at the smaller fuel
  have callA : ∀ (m : Nat),
      ((∀ (b : PBody) (e1 e2 : Env) (out : List (List Int)), CpeSem.Agree p e1 e2 → e1 p = n →
        okC g i gfn.params.length n (some p) b →
        exec ev prog m e1 out b =
          exec ev (substParam g i p n prog) m e2 out (dropArgs g i (substVar p n b))) ∧
      (∀ (b : PBody) (e : Env) (out : List (List Int)), okC g i gfn.params.length n none b →
        exec ev prog m e out b = exec ev (substParam g i p n prog) m e out (dropArgs g i b))) →
      ∀ (h : Nat) (fn : PFn), lookup prog h = some fn →
        ∀ (vals1 vals2 : List Int) (out : List (List Int)), (h = g → vals1[i]? = some n) →
        (if h = g then vals1.eraseIdx i else vals1) = vals2 →
        exec ev prog m (bindParams fn.params vals1) out fn.body =
          exec ev (substParam g i p n prog) m
            (bindParams (if fn.name = g then fn.params.eraseIdx i else fn.params) vals2) out
            (dropArgs g i (if fn.name = g then substVar p n fn.body else fn.body)) := by
    intro m ihm h fn hl vals1 vals2 out harg hvals
    have hm := lookup_mem hl
    by_cases hhg : h = g
    · subst hhg
      have hfn : fn = gfn := by rw [hl] at hg; exact Option.some.inj hg
      subst hfn
      simp only [if_true] at hvals
      simp only [hm.2, if_true]
      rw [← hvals]
      exact ihm.1 fn.body _ _ out (bindParams_erase p fn.params _ i hp hnd)
        (bindParams_get p fn.params _ i n hp hnd (harg rfl))
        (by have := hall fn hm.1; simpa [hideOf, hm.2] using this)
    · have hne : fn.name ≠ g := fun hq => hhg (hm.2.symm.trans hq)
      simp only [hhg, if_false] at hvals
      simp only [hne, if_false]
      rw [← hvals]
      exact ihm.2 fn.body _ out (by have := hall fn hm.1; simpa [hideOf, hne] using this)
  intro fuel
  induction fuel with
  | zero =>
    constructor
    · intro b
      induction b with
      | ret e => intro e1 e2 out ha hn hk; simp [exec, dropArgs, substVar, eval_subst ha hn e]
      | bin x op a1 a2 k ih =>
        intro e1 e2 out ha hn hk
        simp only [exec, dropArgs, substVar, eval_subst ha hn a1, eval_subst ha hn a2]
        split
        · rfl
        · exact ih _ _ _ (ha.upd x _) (upd_keep hn x (fun h => hk.1 (by rw [h])) _) hk.2
      | print es k ih =>
        intro e1 e2 out ha hn hk
        simp only [exec, dropArgs, substVar, map_subst ha hn es]
        exact ih _ _ _ ha hn hk
      | ite c t e iht ihe =>
        intro e1 e2 out ha hn hk
        simp only [exec, dropArgs, substVar, eval_subst ha hn c]
        split
        · exact iht _ _ _ ha hn hk.1
        · exact ihe _ _ _ ha hn hk.2
      | call x h args k ih => intro e1 e2 out ha hn hk; simp [exec, dropArgs, substVar]
    · intro b
      induction b with
      | ret e => intro e out hk; simp [exec, dropArgs]
      | bin x op a1 a2 k ih =>
        intro e out hk
        simp only [exec, dropArgs]
        split
        · rfl
        · exact ih _ _ hk.2
      | print es k ih => intro e out hk; simp only [exec, dropArgs]; exact ih _ _ hk
      | ite c t e iht ihe =>
        intro e out hk
        simp only [exec, dropArgs]
        split
        · exact iht _ _ hk.1
        · exact ihe _ _ hk.2
      | call x h args k ih => intro e out hk; simp [exec, dropArgs]
  | succ m ihm =>
    constructor
    · intro b
      induction b with
      | ret e => intro e1 e2 out ha hn hk; simp [exec, dropArgs, substVar, eval_subst ha hn e]
      | bin x op a1 a2 k ih =>
        intro e1 e2 out ha hn hk
        simp only [exec, dropArgs, substVar, eval_subst ha hn a1, eval_subst ha hn a2]
        split
        · rfl
        · exact ih _ _ _ (ha.upd x _) (upd_keep hn x (fun h => hk.1 (by rw [h])) _) hk.2
      | print es k ih =>
        intro e1 e2 out ha hn hk
        simp only [exec, dropArgs, substVar, map_subst ha hn es]
        exact ih _ _ _ ha hn hk
      | ite c t e iht ihe =>
        intro e1 e2 out ha hn hk
        simp only [exec, dropArgs, substVar, eval_subst ha hn c]
        split
        · exact iht _ _ _ ha hn hk.1
        · exact ihe _ _ _ ha hn hk.2
      | call x h args k ih =>
        intro e1 e2 out ha hn hk
        obtain ⟨hx, hargs, hk'⟩ := hk
        simp only [exec, dropArgs, substVar, hlk]
        cases hl : lookup prog h with
        | none => simp
        | some fn =>
          simp only [Option.map_some]
          have hv : (if h = g then (args.map (Expr.eval e1)).eraseIdx i else args.map (Expr.eval e1)) =
              (if h = g then (args.map (substExpr p n)).eraseIdx i else args.map (substExpr p n)).map (Expr.eval e2) := by
            split
            · rw [map_eraseIdx', map_subst ha hn args]
            · rw [map_subst ha hn args]
          have := callA m ihm h fn hl (args.map (Expr.eval e1)) _ out
            (fun hh => by simp [(hargs hh).2, Expr.eval]) hv
          rw [this]
          split
          · rfl
          · exact ih _ _ _ (ha.upd x _) (upd_keep hn x (fun h' => hx (by rw [h'])) _) hk'
    · intro b
      induction b with
      | ret e => intro e out hk; simp [exec, dropArgs]
      | bin x op a1 a2 k ih =>
        intro e out hk
        simp only [exec, dropArgs]
        split
        · rfl
        · exact ih _ _ hk.2
      | print es k ih => intro e out hk; simp only [exec, dropArgs]; exact ih _ _ hk
      | ite c t e iht ihe =>
        intro e out hk
        simp only [exec, dropArgs]
        split
        · exact iht _ _ hk.1
        · exact ihe _ _ hk.2
      | call x h args k ih =>
        intro e out hk
        obtain ⟨hx, hargs, hk'⟩ := hk
        simp only [exec, dropArgs, hlk]
        cases hl : lookup prog h with
        | none => simp
        | some fn =>
          simp only [Option.map_some]
          have hv : (if h = g then (args.map (Expr.eval e)).eraseIdx i else args.map (Expr.eval e)) =
              (if h = g then args.eraseIdx i else args).map (Expr.eval e) := by
            split
            · rw [map_eraseIdx']
            · rfl
          have := callA m ihm h fn hl (args.map (Expr.eval e)) _ out
            (fun hh => by simp [(hargs hh).2, Expr.eval]) hv
          rw [this]
          split
          · rfl
          · exact ih _ _ hk'

open SamVerif.CpeSem (ne_var_of_not_reads mem_argReads)
/-- Names the decision kernel counts as read in a body of the function named `self`. -/
def readsOf (self : Nat) (params : List Name) (b : PBody) : List Name :=
  (atomsOf b).flatMap fun a => match a with
    | .read x => [x]
    | .call g args => if g = self then selfCallReads params args else argReads args

theorem localReads_fnOf (fn : PFn) : localReads (fnOf fn) = readsOf fn.name fn.params fn.body := rfl

theorem clean_none (e : Expr) : clean none e := fun _ h => by cases h

theorem clean_of_not_reads (p : Name) (e : Expr) (h : p ∉ exprReads e) : clean (some p) e := by
  intro q hq; cases hq; exact ne_var_of_not_reads p e h

/-- Inside `g`: the decision `Unused` gives the shape `okU`. -/
theorem okU_of_reads (g : Nat) (hg9 : g ≠ 999) (params : List Name) (p : Name) (i : Nat)
    (hp : params[i]? = some p) (hnd : params.Nodup) :
    ∀ (b : PBody), p ∉ readsOf g params b → assignsP p b = false →
      callsArityG g params.length b = true → okU g i params.length (some p) b := by
  intro b
  induction b with
  | ret e =>
    intro h _ _
    apply clean_of_not_reads
    simpa [readsOf, atomsOf, List.flatMap_map] using h
  | bin x op e1 e2 k ih =>
    intro h ha hc
    simp only [readsOf, atomsOf, List.flatMap_append, List.mem_append, not_or] at h
    simp only [assignsP, Bool.or_eq_false_iff, beq_eq_false_iff_ne] at ha
    refine ⟨fun hx => ha.1 (Option.some.inj hx).symm, ?_, ?_, ih h.2 ha.2 (by simpa [callsArityG] using hc)⟩
    · apply clean_of_not_reads
      have := h.1
      simp [List.flatMap_map] at this
      intro hm; cases e1 <;> simp_all [exprReads]
    · apply clean_of_not_reads
      have := h.1
      simp [List.flatMap_map] at this
      intro hm; cases e2 <;> simp_all [exprReads]
  | print es k ih =>
    intro h ha hc
    simp only [readsOf, atomsOf, List.flatMap_cons, List.mem_append, not_or] at h
    have hne : (999 : Nat) ≠ g := fun h => hg9 h.symm
    simp only [hne, if_false] at h
    refine ⟨?_, ih h.2 (by simpa [assignsP] using ha) (by simpa [callsArityG] using hc)⟩
    intro e he q hq hep
    cases hq
    subst hep
    exact h.1 ((mem_argReads es p).mpr he)
  | ite c t e iht ihe =>
    intro h ha hc
    simp only [readsOf, atomsOf, List.flatMap_append, List.mem_append, not_or] at h
    simp only [assignsP, Bool.or_eq_false_iff] at ha
    simp only [callsArityG, Bool.and_eq_true] at hc
    refine ⟨?_, iht h.1.2 ha.1 hc.1, ihe h.2 ha.2 hc.2⟩
    apply clean_of_not_reads
    have := h.1.1
    simp [List.flatMap_map] at this
    intro hm; cases c <;> simp_all [exprReads]
  | call x h' args k ih =>
    intro h ha hc
    simp only [readsOf, atomsOf, List.flatMap_cons, List.mem_append, not_or] at h
    simp only [assignsP, Bool.or_eq_false_iff, beq_eq_false_iff_ne] at ha
    simp only [callsArityG, Bool.and_eq_true, Bool.or_eq_true, bne_iff_ne, ne_eq, beq_iff_eq] at hc
    refine ⟨fun hx => ha.1 (Option.some.inj hx).symm, ?_, ih h.2 ha.2 hc.2⟩
    by_cases hh : h' = g
    · subst hh
      simp only [if_true] at h ⊢
      refine ⟨by rcases hc.1 with h0 | h0; exact absurd rfl h0; exact h0, ?_⟩
      intro j a hj haj q hq haq
      cases hq
      subst haq
      apply h.1
      rw [mem_selfCallReads_iff]
      refine ⟨j, by simp [haj, exprArg], ?_⟩
      intro hpj
      obtain ⟨hil, hie⟩ := List.getElem?_eq_some_iff.mp hp
      obtain ⟨hjl, hje⟩ := List.getElem?_eq_some_iff.mp hpj
      exact hj ((List.getElem_inj hnd).mp (hje.trans hie.symm))
    · simp only [hh, if_false] at h ⊢
      intro a ha' q hq haq
      cases hq
      subst haq
      exact h.1 ((mem_argReads args p).mpr ha')

/-- Outside `g` only the arity of the calls of `g` matters. -/
theorem okU_none (g i kg : Nat) : ∀ (b : PBody), callsArityG g kg b = true → okU g i kg none b := by
  intro b
  induction b with
  | ret e => intro _; exact clean_none e
  | bin x op e1 e2 k ih =>
    intro hc
    exact ⟨(fun h => by cases h), clean_none _, clean_none _, ih (by simpa [callsArityG] using hc)⟩
  | print es k ih => intro hc; exact ⟨fun e _ => clean_none e, ih (by simpa [callsArityG] using hc)⟩
  | ite c t e iht ihe =>
    intro hc
    simp only [callsArityG, Bool.and_eq_true] at hc
    exact ⟨clean_none _, iht hc.1, ihe hc.2⟩
  | call x h args k ih =>
    intro hc
    simp only [callsArityG, Bool.and_eq_true, Bool.or_eq_true, bne_iff_ne, ne_eq, beq_iff_eq] at hc
    refine ⟨(fun h => by cases h), ?_, ih hc.2⟩
    split
    · rename_i hh
      exact ⟨by rcases hc.1 with h0 | h0; exact absurd hh h0; exact h0, fun _ a _ _ => clean_none a⟩
    · exact fun a _ => clean_none a

theorem callsOf_atoms (g : Nat) (hg9 : g ≠ 999) : ∀ (b : PBody) (args : List Expr),
    args ∈ callsOf g b → Atom.call g (args.map exprArg) ∈ atomsOf b := by
  intro b
  induction b with
  | ret e => intro args h; simp [callsOf] at h
  | bin x op e1 e2 k ih => intro args h; simp only [atomsOf, List.mem_append]; exact Or.inr (ih args h)
  | print es k ih => intro args h; simp only [atomsOf, List.mem_cons]; exact Or.inr (ih args h)
  | ite c t e iht ihe =>
    intro args h
    simp only [callsOf, List.mem_append] at h
    simp only [atomsOf, List.mem_append]
    rcases h with h | h
    · exact Or.inl (Or.inr (iht args h))
    · exact Or.inr (ihe args h)
  | call x h' a k ih =>
    intro args h
    simp only [callsOf] at h
    simp only [atomsOf, List.mem_cons]
    split at h
    · rename_i hh
      subst hh
      rcases List.mem_cons.mp h with h | h
      · subst h; exact Or.inl rfl
      · exact Or.inr (ih args h)
    · exact Or.inr (ih args h)

theorem okC_of_calls (g i kg : Nat) (n : Int) (hide : Option Name) (hi : i < kg) : ∀ (b : PBody),
    (∀ args ∈ callsOf g b, ∀ a, (args.map exprArg)[i]? = some a → a = .i32 n) →
    (∀ p, hide = some p → assignsP p b = false) → callsArityG g kg b = true → okC g i kg n hide b := by
  intro b
  induction b with
  | ret e => intro _ _ _; trivial
  | bin x op e1 e2 b ih =>
    intro h ha hc
    refine ⟨?_, ih h (fun p hp => by have := ha p hp; simp only [assignsP, Bool.or_eq_false_iff] at this; exact this.2)
      (by simpa [callsArityG] using hc)⟩
    intro hx
    have := ha x hx
    simp [assignsP] at this
  | print es b ih =>
    intro h ha hc
    exact ih h (fun p hp => by simpa [assignsP] using ha p hp) (by simpa [callsArityG] using hc)
  | ite c t e iht ihe =>
    intro h ha hc
    simp only [callsArityG, Bool.and_eq_true] at hc
    exact ⟨iht (fun a ha' => h a (by simp [callsOf, ha']))
        (fun p hp => by have := ha p hp; simp only [assignsP, Bool.or_eq_false_iff] at this; exact this.1) hc.1,
      ihe (fun a ha' => h a (by simp [callsOf, ha']))
        (fun p hp => by have := ha p hp; simp only [assignsP, Bool.or_eq_false_iff] at this; exact this.2) hc.2⟩
  | call x h' args b ih =>
    intro h ha hc
    simp only [callsArityG, Bool.and_eq_true, Bool.or_eq_true, bne_iff_ne, ne_eq, beq_iff_eq] at hc
    refine ⟨?_, ?_, ih (fun a ha' => h a (by simp only [callsOf]; split <;> simp [ha']))
      (fun p hp => by have := ha p hp; simp only [assignsP, Bool.or_eq_false_iff] at this; exact this.2) hc.2⟩
    · intro hx
      have := ha x hx
      simp [assignsP] at this
    · intro hh
      subst hh
      have hlen : args.length = kg := by rcases hc.1 with h0 | h0; exact absurd rfl h0; exact h0
      refine ⟨hlen, ?_⟩
      have hlt : i < args.length := by omega
      have := h args (by simp [callsOf]) (exprArg args[i]) (by simp [hlt])
      rw [List.getElem?_eq_getElem hlt]
      cases hq : args[i] with
      | lit m => simp [hq, exprArg] at this; subst this; rfl
      | var y => simp [hq, exprArg] at this

/-- Run-level form of `exec_dropParam`: from the shape alone. -/
theorem run_dropParam (ev : Op → Int → Int → Option Int) (prog : Prog) (g i : Nat) (gfn : PFn) (p : Name)
    (hg : lookup prog g = some gfn) (hp : gfn.params[i]? = some p) (hnd : gfn.params.Nodup)
    (hall : ∀ fn ∈ prog, okU g i gfn.params.length (hideOf g p fn) fn.body) :
    ∀ (h : Nat) (fuel : Nat) (vals : List Int),
      run ev prog h fuel vals =
        run ev (dropParam g i prog) h fuel (if h = g then vals.eraseIdx i else vals) := by
  intro h fuel vals
  unfold run
  have hlk : lookup (dropParam g i prog) h = (lookup prog h).map (fun fn : PFn =>
      ({ fn with params := if fn.name = g then fn.params.eraseIdx i else fn.params,
                 body := dropArgs g i fn.body } : PFn)) :=
    lookup_map prog (fun fn : PFn =>
      ({ fn with params := if fn.name = g then fn.params.eraseIdx i else fn.params,
                 body := dropArgs g i fn.body } : PFn)) (fun _ => rfl) h
  rw [hlk]
  cases hl : lookup prog h with
  | none => rfl
  | some fn =>
    have hm := lookup_mem hl
    simp only [Option.map_some]
    by_cases hhg : h = g
    · subst hhg
      have hfn : fn = gfn := by rw [hl] at hg; exact Option.some.inj hg
      subst hfn
      simp only [hm.2, if_true]
      exact exec_dropParam ev prog h i fn p hl hp hnd hall fuel fn.body (some p) _ _ []
        (agreeH_of_agree (CpeSem.bindParams_erase p fn.params vals i hp hnd))
        (by have := hall fn hm.1; simpa [hideOf, hm.2] using this)
    · have hne : fn.name ≠ g := fun hq => hhg (hm.2.symm.trans hq)
      simp only [hne, hhg, if_false]
      exact exec_dropParam ev prog g i gfn p hg hp hnd hall fuel fn.body none _ _ []
        (agreeH_refl _) (by have := hall fn hm.1; simpa [hideOf, hne] using this)

/-- The shape for parameter `j` survives the removal of a later parameter `i`. -/
theorem okU_dropArgs (g i j kg : Nat) (hide : Option Name) (hji : j < i) (hi : i < kg) :
    ∀ (b : PBody), okU g j kg hide b → okU g j (kg - 1) hide (dropArgs g i b) := by
  intro b
  induction b with
  | ret e => intro h; exact h
  | bin x op e1 e2 k ih => intro h; exact ⟨h.1, h.2.1, h.2.2.1, ih h.2.2.2⟩
  | print es k ih => intro h; exact ⟨h.1, ih h.2⟩
  | ite c t e iht ihe => intro h; exact ⟨h.1, iht h.2.1, ihe h.2.2⟩
  | call x h' args k ih =>
    intro h
    obtain ⟨hx, hargs, hk⟩ := h
    refine ⟨hx, ?_, ih hk⟩
    by_cases hh : h' = g
    · simp only [hh, if_true] at hargs ⊢
      obtain ⟨hlen, hcl⟩ := hargs
      refine ⟨by rw [List.length_eraseIdx]; simp [hlen, hi], ?_⟩
      intro j' a hj' ha
      rw [List.getElem?_eraseIdx] at ha
      split at ha
      · exact hcl j' a hj' ha
      · exact hcl (j' + 1) a (by omega) ha
    · simp only [hh, if_false] at hargs ⊢
      exact hargs

open SamVerif.CpeSem (substExpr)

/-- Run-level form of `exec_substParam`: from the shape alone. -/
theorem run_substParam (ev : Op → Int → Int → Option Int) (prog : Prog) (g i : Nat) (gfn : PFn)
    (p : Name) (n : Int)
    (hg : lookup prog g = some gfn) (hp : gfn.params[i]? = some p) (hnd : gfn.params.Nodup)
    (hall : ∀ fn ∈ prog, okC g i gfn.params.length n (hideOf g p fn) fn.body) :
    ∀ (h : Nat) (fuel : Nat) (vals : List Int), (h = g → vals[i]? = some n) →
      run ev prog h fuel vals =
        run ev (substParam g i p n prog) h fuel (if h = g then vals.eraseIdx i else vals) := by
  intro h fuel vals hv
  have hsim := exec_substParam ev prog g i gfn p n hg hp hnd hall fuel
  unfold run
  have hlk : lookup (substParam g i p n prog) h = (lookup prog h).map (fun fn : PFn =>
      ({ fn with params := if fn.name = g then fn.params.eraseIdx i else fn.params,
                 body := dropArgs g i (if fn.name = g then substVar p n fn.body else fn.body) } : PFn)) :=
    lookup_map prog (fun fn : PFn =>
      ({ fn with params := if fn.name = g then fn.params.eraseIdx i else fn.params,
                 body := dropArgs g i (if fn.name = g then substVar p n fn.body else fn.body) } : PFn))
      (fun _ => rfl) h
  rw [hlk]
  cases hl : lookup prog h with
  | none => rfl
  | some fn =>
    have hm := lookup_mem hl
    simp only [Option.map_some]
    by_cases hhg : h = g
    · subst hhg
      have hfn : fn = gfn := by rw [hl] at hg; exact Option.some.inj hg
      subst hfn
      simp only [hm.2, if_true]
      exact hsim.1 fn.body _ _ [] (CpeSem.bindParams_erase p fn.params vals i hp hnd)
        (CpeSem.bindParams_get p fn.params vals i n hp hnd (hv rfl))
        (by have := hall fn hm.1; simpa [hideOf, hm.2] using this)
    · have hne : fn.name ≠ g := fun hq => hhg (hm.2.symm.trans hq)
      simp only [hne, hhg, if_false]
      exact hsim.2 fn.body _ [] (by have := hall fn hm.1; simpa [hideOf, hne] using this)

theorem okC_dropArgs (g i j kg : Nat) (m : Int) (hide : Option Name) (hji : j < i) (hi : i < kg) :
    ∀ (b : PBody), okC g j kg m hide b → okC g j (kg - 1) m hide (dropArgs g i b) := by
  intro b
  induction b with
  | ret e => intro h; exact h
  | bin x op e1 e2 k ih => intro h; exact ⟨h.1, ih h.2⟩
  | print es k ih => intro h; exact ih h
  | ite c t e iht ihe => intro h; exact ⟨iht h.1, ihe h.2⟩
  | call x h' args k ih =>
    intro h
    obtain ⟨hx, hargs, hk⟩ := h
    refine ⟨hx, ?_, ih hk⟩
    intro hh
    obtain ⟨hlen, hlit⟩ := hargs hh
    simp only [hh, if_true]
    refine ⟨by rw [List.length_eraseIdx]; simp [hlen, hi], ?_⟩
    rw [List.getElem?_eraseIdx]
    simp [hji, hlit]

theorem clean_subst (hide : Option Name) (p : Name) (n : Int) (e : Expr) (h : clean hide e) :
    clean hide (substExpr p n e) := by
  cases e with
  | lit m => exact h
  | var x =>
    simp only [substExpr]
    split
    · intro q _ hq; cases hq
    · exact h

theorem okU_substVar (g j kg : Nat) (hide : Option Name) (p : Name) (n : Int) :
    ∀ (b : PBody), okU g j kg hide b → okU g j kg hide (substVar p n b) := by
  intro b
  induction b with
  | ret e => intro h; exact clean_subst hide p n e h
  | bin x op e1 e2 k ih =>
    intro h; exact ⟨h.1, clean_subst _ _ _ _ h.2.1, clean_subst _ _ _ _ h.2.2.1, ih h.2.2.2⟩
  | print es k ih =>
    intro h
    refine ⟨?_, ih h.2⟩
    intro e he
    obtain ⟨e0, he0, rfl⟩ := List.mem_map.mp he
    exact clean_subst _ _ _ _ (h.1 e0 he0)
  | ite c t e iht ihe => intro h; exact ⟨clean_subst _ _ _ _ h.1, iht h.2.1, ihe h.2.2⟩
  | call x h' args k ih =>
    intro h
    obtain ⟨hx, hargs, hk⟩ := h
    refine ⟨hx, ?_, ih hk⟩
    by_cases hh : h' = g
    · simp only [hh, if_true] at hargs ⊢
      refine ⟨by simpa using hargs.1, ?_⟩
      intro j' a hj' ha
      rw [List.getElem?_map] at ha
      cases hq : args[j']? with
      | none => simp [hq] at ha
      | some a0 =>
        simp [hq] at ha
        subst ha
        exact clean_subst _ _ _ _ (hargs.2 j' a0 hj' hq)
    · simp only [hh, if_false] at hargs ⊢
      intro a ha
      obtain ⟨a0, ha0, rfl⟩ := List.mem_map.mp ha
      exact clean_subst _ _ _ _ (hargs a0 ha0)

theorem okC_substVar (g j kg : Nat) (m : Int) (hide : Option Name) (p : Name) (n : Int) :
    ∀ (b : PBody), okC g j kg m hide b → okC g j kg m hide (substVar p n b) := by
  intro b
  induction b with
  | ret e => intro _; trivial
  | bin x op e1 e2 k ih => intro h; exact ⟨h.1, ih h.2⟩
  | print es k ih => intro h; exact ih h
  | ite c t e iht ihe => intro h; exact ⟨iht h.1, ihe h.2⟩
  | call x h' args k ih =>
    intro h
    obtain ⟨hx, hargs, hk⟩ := h
    refine ⟨hx, ?_, ih hk⟩
    intro hh
    obtain ⟨hlen, hlit⟩ := hargs hh
    refine ⟨by simpa using hlen, ?_⟩
    rw [List.getElem?_map, hlit]
    rfl

end SamVerif.CpeProg
