import SamVerif.Model.EnumRepr
/-! Lemmas for the enum-representation kernel of C03 (`Model/EnumRepr.lean`). -/
namespace SamVerif.EnumRepr

def gB (fs : List Nat) : VL := if fs.isEmpty then .int31 else .boxed fs
def gU (f : Nat) (fs : List Nat) : VL := if fs.isEmpty then .int31 else .unboxed f

/-- the two shapes a layout can have: every payload variant boxed, or exactly one payload variant,
unboxed -/
theorem layoutOf_cases (p : Nat → Bool) (variants : List (List Nat)) :
    layoutOf p variants = variants.map gB ∨
    (∃ f, p f = true ∧ variants.filter (fun fs => !fs.isEmpty) = [[f]] ∧
      layoutOf p variants = variants.map (gU f)) := by
  unfold layoutOf
  split
  · rename_i f hf
    split
    · rename_i hp
      exact Or.inr ⟨f, hp, hf, rfl⟩
    · exact Or.inl rfl
  · exact Or.inl rfl

/-- at most one element satisfies `q` when the filter has at most one element -/
theorem filter_unique {α : Type} (q : α → Bool) : ∀ (l : List α) (i j : Nat) (a b : α),
    (l.filter q).length ≤ 1 → l[i]? = some a → l[j]? = some b → q a = true → q b = true → i = j
  | [], i, _, _, _, _, h, _, _, _ => by simp at h
  | x :: l, 0, 0, _, _, _, _, _, _, _ => rfl
  | x :: l, 0, j + 1, a, b, hl, ha, hb, hqa, hqb => by
    simp only [List.getElem?_cons_zero, Option.some.injEq] at ha
    simp only [List.getElem?_cons_succ] at hb
    subst ha
    simp only [List.filter_cons, hqa, if_true, List.length_cons] at hl
    have hmem : b ∈ l.filter q := List.mem_filter.mpr ⟨List.mem_of_getElem? hb, hqb⟩
    have : (l.filter q).length = 0 := by omega
    rw [List.length_eq_zero_iff] at this
    rw [this] at hmem; simp at hmem
  | x :: l, i + 1, 0, a, b, hl, ha, hb, hqa, hqb => by
    simp only [List.getElem?_cons_zero, Option.some.injEq] at hb
    simp only [List.getElem?_cons_succ] at ha
    subst hb
    simp only [List.filter_cons, hqb, if_true, List.length_cons] at hl
    have hmem : a ∈ l.filter q := List.mem_filter.mpr ⟨List.mem_of_getElem? ha, hqa⟩
    have : (l.filter q).length = 0 := by omega
    rw [List.length_eq_zero_iff] at this
    rw [this] at hmem; simp at hmem
  | x :: l, i + 1, j + 1, a, b, hl, ha, hb, hqa, hqb => by
    simp only [List.getElem?_cons_succ] at ha hb
    have hl' : (l.filter q).length ≤ 1 := by
      simp only [List.filter_cons] at hl
      split at hl
      · simp only [List.length_cons] at hl; omega
      · exact hl
    rw [filter_unique q l i j a b hl' ha hb hqa hqb]

theorem loadAll_obj (ty : TyName) : ∀ (ps pre : List RV),
    loadAll (.obj ty (pre ++ ps)) ps.length pre.length = some ps
  | [], _ => by simp [loadAll]
  | p :: ps, pre => by
    have ih := loadAll_obj ty ps (pre ++ [p])
    simp only [List.length_append, List.length_cons, List.length_nil, Nat.zero_add,
      List.append_assoc, List.cons_append, List.nil_append] at ih
    simp only [List.length_cons, loadAll, structGet]
    have hx : (pre ++ p :: ps)[pre.length]? = some p := by simp
    rw [hx, ih]

/-- representation of variant `j` with already represented payload `ps` -/
def reprV (vs : List VL) (e j : Nat) (ps : List RV) : RV :=
  match vs[j]? with
  | some .int31 => .i31 j
  | some (.unboxed _) => (ps.head?).getD (.i31 j)
  | some (.boxed _) => .obj (.sub e j) (.int (2 * j + 1) :: ps)
  | none => .i31 j

/-- wasm type of a local holding a value of the enum -/
def localTy (needs : List VL → Bool) (vs : List VL) (e : Nat) : WTy :=
  if needs vs then .eq else .ref (.base e)

/-- what `permit` guarantees about the payload of an unboxed variant: it is a pointer of its own type -/
def PayloadOk (vs : List VL) (j : Nat) (ps : List RV) : Prop :=
  ∀ f, vs[j]? = some (.unboxed f) → ∃ y, ps = [y] ∧ rvHasTy y (.ref (.base f)) = true

theorem rvHasTy_ref_obj (y : RV) (n : TyName) (h : rvHasTy y (.ref n) = true) : ∃ ty fs, y = .obj ty fs := by
  cases y with
  | int _ => simp [rvHasTy] at h
  | i31 _ => simp [rvHasTy] at h
  | obj ty fs => exact ⟨ty, fs, rfl⟩

theorem any_int31_map_gB (variants : List (List Nat)) :
    (variants.map gB).any VL.isInt31 =
      variants.any (fun fs => fs.isEmpty) := by
  induction variants with
  | nil => rfl
  | cons fs rest ih =>
    simp only [List.map_cons, List.any_cons, ih]
    unfold gB
    cases fs <;> simp [VL.isInt31]

theorem needsAny_map_gB (variants : List (List Nat)) :
    needsAny (variants.map gB) = variants.any (fun fs => fs.isEmpty) := by
  unfold needsAny
  induction variants with
  | nil => rfl
  | cons fs rest ih =>
    simp only [List.map_cons, List.any_cons, ih]
    unfold gB
    cases fs <;> simp [VL.isBoxed]

theorem needsAny_map_gU (f : Nat) (variants : List (List Nat)) (h : variants ≠ []) :
    needsAny (variants.map (gU f)) = true := by
  unfold needsAny
  cases variants with
  | nil => exact absurd rfl h
  | cons fs rest =>
    simp only [List.map_cons, List.any_cons]
    unfold gU
    cases fs <;> simp [VL.isBoxed]

theorem subTy_sub_base (e j : Nat) : subTy (.sub e j) (.base e) = true := by simp [subTy]
theorem subTy_sub_sub (e j k : Nat) : subTy (.sub e j) (.sub e k) = decide (j = k) := by
  simp only [subTy]
  by_cases h : j = k
  · subst h; simp
  · simp [h]

theorem mem_of_get {α : Type} (l : List α) (i : Nat) (a : α) (h : l[i]? = some a) : a ∈ l :=
  List.mem_of_getElem? h

/-- **The guard code of a `ConditionalDestructure` never traps and selects exactly the variant it
tests for**, for every layout the compiler can choose. -/
theorem destructure_safe_aux (p : Nat → Bool) (variants : List (List Nat)) (e j k : Nat)
    (ps : List RV) (fsj fsk : List Nat)
    (hj : variants[j]? = some fsj) (hk : variants[k]? = some fsk) (hlen : ps.length = fsj.length)
    (hpay : PayloadOk (layoutOf p variants) j ps) :
    runGuard (localTy needsAny (layoutOf p variants) e) (layoutOf p variants) e k
      (reprV (layoutOf p variants) e j ps) = if j = k then .success ps else .fail := by
  rcases layoutOf_cases p variants with hB | ⟨f, _, hfil, hU⟩
  · -- every payload variant boxed
    rw [hB] at hpay ⊢
    have hvj : (variants.map gB)[j]? = some (gB fsj) := by simp [List.getElem?_map, hj]
    have hvk : (variants.map gB)[k]? = some (gB fsk) := by simp [List.getElem?_map, hk]
    cases fsk with
    | nil =>
      cases fsj with
      | nil =>
        have hps : ps = [] := List.length_eq_zero_iff.mp (by simpa using hlen)
        subst hps
        simp [runGuard, reprV, hvj, hvk, gB]
      | cons a r =>
        have hne : j ≠ k := by
          intro h; subst h; rw [hj] at hk; cases hk
        simp [runGuard, reprV, hvj, hvk, gB, hne]
    | cons b r' =>
      have hgk : gB (b :: r') = .boxed (b :: r') := by simp [gB]
      rw [hgk] at hvk
      cases fsj with
      | nil =>
        have hne : j ≠ k := by
          intro h; subst h; rw [hj] at hk; cases hk
        have hany : variants.any (fun fs => fs.isEmpty) = true :=
          List.any_eq_true.mpr ⟨[], mem_of_get _ _ _ hj, rfl⟩
        have hI : (variants.map gB).any VL.isInt31 = true := by
          rw [any_int31_map_gB]; exact hany
        have hgj : gB [] = .int31 := by simp [gB]
        rw [hgj] at hvj
        have hx : reprV (variants.map gB) e j ps = .i31 j := by simp [reprV, hvj]
        rw [hx]
        simp only [runGuard, hvk, hI]
        simp [rvHasTy, hne]
      | cons a r =>
        have hgj : gB (a :: r) = .boxed (a :: r) := by simp [gB]
        rw [hgj] at hvj
        have hx : reprV (variants.map gB) e j ps = .obj (.sub e j) (.int (2 * j + 1) :: ps) := by
          simp [reprV, hvj]
        rw [hx]
        have hacc : accessOperand (localTy needsAny (variants.map gB) e) (.base e)
            (.obj (.sub e j) (.int (2 * j + 1) :: ps)) = some (.obj (.sub e j) (.int (2 * j + 1) :: ps)) := by
          unfold localTy accessOperand
          split <;> simp [refCast, rvHasTy, subTy_sub_base]
        by_cases hjk : j = k
        · subst hjk
          rw [hj] at hk
          have hfs : a :: r = b :: r' := Option.some.inj hk
          have hl : ps.length = (b :: r').length := by rw [← hfs]; exact hlen
          have hload : loadAll (.obj (.sub e j) (.int (2 * j + 1) :: ps)) (b :: r').length 1 = some ps := by
            have := loadAll_obj (.sub e j) ps [.int (2 * j + 1)]
            simpa [hl] using this
          simp only [runGuard, hvk]
          simp only [rvHasTy, subTy_sub_sub, decide_true, Bool.not_true, Bool.and_false,
            Bool.false_eq_true, if_false, hacc, structGet, List.getElem?_cons_zero, if_true,
            refCast, hload, if_pos]
        · simp only [runGuard, hvk]
          by_cases hany : variants.any (fun fs => fs.isEmpty) = true
          · have hI : (variants.map gB).any VL.isInt31 = true := by
              rw [any_int31_map_gB]; exact hany
            simp [hI, rvHasTy, subTy_sub_sub, hjk]
          · have hI : (variants.map gB).any VL.isInt31 = false := by
              rw [any_int31_map_gB]
              cases hh : variants.any (fun fs => fs.isEmpty) with
              | true => exact absurd hh hany
              | false => rfl
            have htag : ¬ ((2 * (j : Int) + 1) = 2 * (k : Int) + 1) := by omega
            simp [hI, hacc, structGet, htag, hjk]
  · -- exactly one payload variant, unboxed
    rw [hU] at hpay ⊢
    have hvj : (variants.map (gU f))[j]? = some (gU f fsj) := by simp [List.getElem?_map, hj]
    have hvk : (variants.map (gU f))[k]? = some (gU f fsk) := by simp [List.getElem?_map, hk]
    have huniq : fsj ≠ [] → fsk ≠ [] → j = k := by
      intro h1 h2
      refine filter_unique (fun fs : List Nat => !fs.isEmpty) variants j k fsj fsk (by simp [hfil]) hj hk ?_ ?_
      · cases fsj <;> simp_all
      · cases fsk <;> simp_all
    cases fsk with
    | nil =>
      cases fsj with
      | nil =>
        have hps : ps = [] := List.length_eq_zero_iff.mp (by simpa using hlen)
        subst hps
        simp [runGuard, reprV, hvj, hvk, gU]
      | cons a r =>
        have hne : j ≠ k := by
          intro h; subst h; rw [hj] at hk; cases hk
        obtain ⟨y, hy, hty⟩ := hpay f (by simp [hvj, gU])
        obtain ⟨ty, fs, hobj⟩ := rvHasTy_ref_obj y _ hty
        subst hy; subst hobj
        simp [runGuard, reprV, hvj, hvk, gU, hne]
    | cons b r' =>
      cases fsj with
      | nil =>
        have hne : j ≠ k := by
          intro h; subst h; rw [hj] at hk; cases hk
        simp [runGuard, reprV, hvj, hvk, gU, rvHasTy, hne]
      | cons a r =>
        have hjk : j = k := huniq (by simp) (by simp)
        subst hjk
        obtain ⟨y, hy, hty⟩ := hpay f (by simp [hvj, gU])
        subst hy
        simp [runGuard, reprV, hvj, hvk, gU, hty, refCast]

/-- a value of the enum fits the wasm type of the locals / parameters / fields that hold it
(so no `ref.cast` is needed to store it and the validator accepts the stores) -/
theorem repr_fits_local_aux (p : Nat → Bool) (variants : List (List Nat)) (e j : Nat)
    (ps : List RV) (fsj : List Nat) (hj : variants[j]? = some fsj)
    (hpay : PayloadOk (layoutOf p variants) j ps) :
    rvHasTy (reprV (layoutOf p variants) e j ps) (localTy needsAny (layoutOf p variants) e) = true := by
  have hne : variants ≠ [] := by intro h; rw [h] at hj; simp at hj
  rcases layoutOf_cases p variants with hB | ⟨f, _, _, hU⟩
  · rw [hB] at hpay ⊢
    have hvj : (variants.map gB)[j]? = some (gB fsj) := by simp [List.getElem?_map, hj]
    cases fsj with
    | nil =>
      have hany : variants.any (fun fs => fs.isEmpty) = true :=
        List.any_eq_true.mpr ⟨[], mem_of_get _ _ _ hj, rfl⟩
      simp [reprV, hvj, gB, localTy, needsAny_map_gB, hany, rvHasTy]
    | cons a r =>
      simp only [reprV, hvj, gB, List.isEmpty_cons, Bool.false_eq_true, if_false, localTy]
      split <;> simp [rvHasTy, subTy_sub_base]
  · rw [hU] at hpay ⊢
    have hvj : (variants.map (gU f))[j]? = some (gU f fsj) := by simp [List.getElem?_map, hj]
    cases fsj with
    | nil => simp [reprV, hvj, gU, localTy, needsAny_map_gU f variants hne, rvHasTy]
    | cons a r =>
      obtain ⟨y, hy, hty⟩ := hpay f (by simp [hvj, gU])
      obtain ⟨ty, fs, hobj⟩ := rvHasTy_ref_obj y _ hty
      subst hy; subst hobj
      simp [reprV, hvj, gU, localTy, needsAny_map_gU f variants hne, rvHasTy]

/-- what `type_permit_enum_boxed_optimization` buys: a typed value of a permitted type is represented
by a pointer to a struct of that type (never an `i31`, never an unboxed payload of another type) -/
theorem permit_payload_pointer (tbl : Table) (lay : Layouts) (self t : Nat) (v : SV)
    (hp : permit tbl lay self t = true) (hv : svTy tbl v t = true)
    (hlen : ∀ vs, tbl.getD t .prim = .enum vs → (layAt lay t).length = vs.length) :
    rvHasTy (repr lay v) (.ref (.base t)) = true := by
  unfold permit at hp
  cases hd : tbl.getD t .prim with
  | prim => rw [hd] at hp; simp at hp
  | struct tys =>
    have hd' : tbl[t]?.getD .prim = .struct tys := by simpa using hd
    cases v with
    | int n => simp [svTy, hd'] at hv
    | variant e k ps => simp [svTy, hd'] at hv
    | struct t' fs =>
      simp only [svTy, Bool.and_eq_true, beq_iff_eq] at hv
      rw [hv.1]
      simp [repr, rvHasTy, subTy]
  | enum vs =>
    have hd' : tbl[t]?.getD .prim = .enum vs := by simpa using hd
    simp only [hd] at hp
    split at hp
    · cases hp
    · simp only [Bool.and_eq_true, decide_eq_true_eq, List.all_eq_true] at hp
      cases v with
      | int n => simp [svTy, hd'] at hv
      | struct t' fs => simp [svTy, hd'] at hv
      | variant e k ps =>
        simp only [svTy, hd, Bool.and_eq_true, beq_iff_eq] at hv
        obtain ⟨he, hk⟩ := hv
        subst he
        cases hvk : vs[k]? with
        | none => simp [hvk] at hk
        | some tys =>
          have hkl : k < (layAt lay e).length := by
            rw [hlen vs hd]; exact (List.getElem?_eq_some_iff.mp hvk).1
          have hget : (layAt lay e)[k]? = some ((layAt lay e)[k]) := List.getElem?_eq_getElem hkl
          have hbox := hp.2 _ (List.getElem_mem hkl)
          cases hl : (layAt lay e)[k] with
          | int31 => rw [hl] at hbox; simp [VL.isBoxed] at hbox
          | unboxed t' => rw [hl] at hbox; simp [VL.isBoxed] at hbox
          | boxed fs' =>
            rw [hl] at hget
            simp [repr, hget, rvHasTy, subTy]

end SamVerif.EnumRepr
