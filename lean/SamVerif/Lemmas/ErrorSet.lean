import SamVerif.Model.ErrorSet
/-! Helper lemmas for C12: sorted-list sets, canonical form, lexicographic key order. -/
namespace SamVerif.ErrorSet

/-- The derived `Ord` is a strict total order. -/
structure StrictTotal {α : Type} (lt : α → α → Bool) : Prop where
  irrefl : ∀ (a : α), lt a a = false
  trans : ∀ (a b c : α), lt a b = true → lt b c = true → lt a c = true
  total : ∀ (a b : α), lt a b = false → lt b a = false → a = b

section Generic
variable {α : Type} {lt : α → α → Bool}

abbrev Sorted (lt : α → α → Bool) (l : List α) : Prop := l.Pairwise (fun a b => lt a b = true)

theorem mem_ins (x y : α) (s : List α) (h : StrictTotal lt) :
    y ∈ ins lt x s ↔ y = x ∨ y ∈ s := by
  induction s with
  | nil => simp [ins]
  | cons z zs ih =>
    simp only [ins]
    split
    · simp
    · split
      · simp only [List.mem_cons, ih]
        constructor
        · rintro (h1 | h1 | h1) <;> simp [h1]
        · rintro (h1 | h1 | h1) <;> simp [h1]
      · rename_i h1 h2
        have : x = z := h.total x z (by simpa using h1) (by simpa using h2)
        subst this
        simp

theorem ins_sorted (x : α) (s : List α) (h : StrictTotal lt) (hs : Sorted lt s) :
    Sorted lt (ins lt x s) := by
  induction s with
  | nil => simp [ins, Sorted]
  | cons z zs ih =>
    simp only [ins]
    have hz := List.pairwise_cons.mp hs
    split
    · rename_i h1
      refine List.pairwise_cons.mpr ⟨?_, hs⟩
      intro a ha
      rcases List.mem_cons.mp ha with rfl | ha
      · exact h1
      · exact h.trans _ _ _ h1 (hz.1 a ha)
    · split
      · rename_i h1 h2
        refine List.pairwise_cons.mpr ⟨?_, ih hz.2⟩
        intro a ha
        rcases (mem_ins x a zs h).mp ha with rfl | ha
        · exact h2
        · exact hz.1 a ha
      · exact hs

theorem merge_sorted (s t : List α) (h : StrictTotal lt) (hs : Sorted lt s) :
    Sorted lt (merge lt s t) := by
  induction t generalizing s with
  | nil => simpa [merge] using hs
  | cons x xs ih =>
    simp only [merge, List.foldl_cons]
    exact ih (ins lt x s) (ins_sorted x s h hs)

theorem mem_merge (s t : List α) (y : α) (h : StrictTotal lt) :
    y ∈ merge lt s t ↔ y ∈ s ∨ y ∈ t := by
  induction t generalizing s with
  | nil => simp [merge]
  | cons x xs ih =>
    simp only [merge, List.foldl_cons]
    have := ih (ins lt x s)
    simp only [merge] at this
    rw [this, mem_ins x y s h]
    simp only [List.mem_cons]
    constructor
    · rintro ((h1 | h1) | h1) <;> simp [h1]
    · rintro (h1 | h1 | h1) <;> simp [h1]

theorem mergeAll_sorted_aux (acc : List α) (ls : List (List α)) (h : StrictTotal lt)
    (hacc : Sorted lt acc) : Sorted lt (ls.foldl (merge lt) acc) := by
  induction ls generalizing acc with
  | nil => simpa using hacc
  | cons l ls ih => exact ih _ (merge_sorted acc l h hacc)

theorem mem_mergeAll_aux (acc : List α) (ls : List (List α)) (y : α) (h : StrictTotal lt) :
    y ∈ ls.foldl (merge lt) acc ↔ y ∈ acc ∨ ∃ l ∈ ls, y ∈ l := by
  induction ls generalizing acc with
  | nil => simp
  | cons l ls ih =>
    simp only [List.foldl_cons, ih, mem_merge acc l y h, List.mem_cons, exists_eq_or_imp]
    constructor
    · rintro ((h1 | h1) | h1)
      · exact .inl h1
      · exact .inr (.inl h1)
      · exact .inr (.inr h1)
    · rintro (h1 | h1 | h1)
      · exact .inl (.inl h1)
      · exact .inl (.inr h1)
      · exact .inr h1

/-- Canonical form: a strictly sorted list is determined by its members. -/
theorem sorted_ext (s t : List α) (h : StrictTotal lt) (hs : Sorted lt s) (ht : Sorted lt t)
    (hm : ∀ x, x ∈ s ↔ x ∈ t) : s = t := by
  induction s generalizing t with
  | nil =>
    cases t with
    | nil => rfl
    | cons y ys => exact absurd ((hm y).mpr (by simp)) (by simp)
  | cons x xs ih =>
    cases t with
    | nil => exact absurd ((hm x).mp (by simp)) (by simp)
    | cons y ys =>
      have hx := List.pairwise_cons.mp hs
      have hy := List.pairwise_cons.mp ht
      have hxy : x = y := by
        have h1 : x ∈ y :: ys := (hm x).mp (by simp)
        have h2 : y ∈ x :: xs := (hm y).mpr (by simp)
        rcases List.mem_cons.mp h1 with rfl | h1
        · rfl
        · rcases List.mem_cons.mp h2 with h2 | h2
          · exact h2.symm
          · have a := hy.1 x h1
            have b := hx.1 y h2
            have c := h.trans _ _ _ a b
            rw [h.irrefl] at c
            cases c
      subst hxy
      congr 1
      apply ih ys hx.2 hy.2
      intro z
      constructor
      · intro hz
        have h1 : z ∈ x :: ys := (hm z).mp (List.mem_cons_of_mem _ hz)
        rcases List.mem_cons.mp h1 with rfl | h1
        · have c := hx.1 z hz
          rw [h.irrefl] at c
          cases c
        · exact h1
      · intro hz
        have h1 : z ∈ x :: xs := (hm z).mpr (List.mem_cons_of_mem _ hz)
        rcases List.mem_cons.mp h1 with rfl | h1
        · have c := hy.1 z hz
          rw [h.irrefl] at c
          cases c
        · exact h1

theorem sorted_nil : Sorted lt ([] : List α) := List.Pairwise.nil

theorem mergeAll_sorted (ls : List (List α)) (h : StrictTotal lt) : Sorted lt (mergeAll lt ls) :=
  mergeAll_sorted_aux [] ls h sorted_nil

theorem mem_mergeAll (ls : List (List α)) (y : α) (h : StrictTotal lt) :
    y ∈ mergeAll lt ls ↔ ∃ l ∈ ls, y ∈ l := by
  simp [mergeAll, mem_mergeAll_aux [] ls y h]

theorem ofList_sorted (l : List α) (h : StrictTotal lt) : Sorted lt (ofList lt l) :=
  merge_sorted [] l h sorted_nil

theorem mem_ofList (l : List α) (y : α) (h : StrictTotal lt) : y ∈ ofList lt l ↔ y ∈ l := by
  simp [ofList, mem_merge [] l y h]

/-- Transfer of sortedness between two orders that agree on the members of the list. -/
theorem sorted_transfer {lt' : α → α → Bool} (s : List α) (hs : Sorted lt s)
    (agree : ∀ a ∈ s, ∀ b ∈ s, lt a b = true → lt' a b = true) : Sorted lt' s := by
  induction s with
  | nil => exact List.Pairwise.nil
  | cons x xs ih =>
    have hx := List.pairwise_cons.mp hs
    refine List.pairwise_cons.mpr ⟨?_, ih hx.2 ?_⟩
    · intro a ha
      exact agree x (by simp) a (List.mem_cons_of_mem _ ha) (hx.1 a ha)
    · intro a ha b hb
      exact agree a (List.mem_cons_of_mem _ ha) b (List.mem_cons_of_mem _ hb)

end Generic

/-! ### The lexicographic key order is a strict total order -/

theorem lexLt_irrefl (a : List Nat) : lexLt a a = false := by
  induction a with
  | nil => rfl
  | cons x xs ih => simp [lexLt, ih]

theorem lexLt_trans (a b c : List Nat) : lexLt a b = true → lexLt b c = true → lexLt a c = true := by
  induction a generalizing b c with
  | nil =>
    cases b <;> cases c <;> simp [lexLt]
  | cons x xs ih =>
    cases b with
    | nil => simp [lexLt]
    | cons y ys =>
      cases c with
      | nil => simp [lexLt]
      | cons z zs =>
        simp only [lexLt]
        intro h1 h2
        by_cases hxy : x < y
        · by_cases hyz : y < z
          · have : x < z := by omega
            simp [this]
          · by_cases hzy : z < y
            · simp [hyz, hzy] at h2
            · have : y = z := by omega
              subst this
              simp [hxy]
        · by_cases hyx : y < x
          · simp [hxy, hyx] at h1
          · have : x = y := by omega
            subst this
            simp only [hxy, ↓reduceIte] at h1
            by_cases hyz : x < z
            · simp [hyz]
            · by_cases hzy : z < x
              · simp [hyz, hzy] at h2
              · simp only [hyz, hzy, ↓reduceIte] at h2 ⊢
                exact ih ys zs h1 h2

theorem lexLt_total (a b : List Nat) : lexLt a b = false → lexLt b a = false → a = b := by
  induction a generalizing b with
  | nil => cases b <;> simp [lexLt]
  | cons x xs ih =>
    cases b with
    | nil => simp [lexLt]
    | cons y ys =>
      simp only [lexLt]
      intro h1 h2
      by_cases hxy : x < y
      · simp [hxy] at h1
      · by_cases hyx : y < x
        · simp [hyx] at h2
        · have : x = y := by omega
          subst this
          simp only [hxy, ↓reduceIte] at h1 h2
          rw [ih ys h1 h2]

theorem lexLt_strictTotal : StrictTotal lexLt :=
  ⟨lexLt_irrefl, lexLt_trans, lexLt_total⟩

/-! ### The key of an error determines the error (for an injective id assignment) -/

def Inj (ids : Nat → Nat) : Prop := ∀ a b, ids a = ids b → a = b

theorem inl_key_inj (bs bs' : List Nat) (r r' : List Nat) :
    bs.map (· + 1) ++ 0 :: r = bs'.map (· + 1) ++ 0 :: r' → bs = bs' ∧ r = r' := by
  induction bs generalizing bs' with
  | nil =>
    cases bs' with
    | nil => simp
    | cons y ys => simp
  | cons x xs ih =>
    cases bs' with
    | nil => simp
    | cons y ys =>
      simp only [List.map_cons, List.cons_append, List.cons.injEq, and_imp]
      intro h1 h2
      have h3 := ih ys h2
      exact ⟨⟨by omega, h3.1⟩, h3.2⟩

theorem atomKey_inj (ids : Nat → Nat) (hi : Inj ids) (a a' : Atom) (r r' : List Nat) :
    atomKey ids a ++ r = atomKey ids a' ++ r' → a = a' ∧ r = r' := by
  cases a with
  | num n =>
    cases a' with
    | num m => simp only [atomKey]; intro h; simp at h; simp [h.1, h.2]
    | inl bs => simp [atomKey]
    | heap h => simp [atomKey]
  | inl bs =>
    cases a' with
    | num m => simp [atomKey]
    | inl bs' =>
      simp only [atomKey]
      intro h
      simp only [List.cons_append, List.cons.injEq, true_and, List.append_assoc] at h
      have := inl_key_inj bs bs' r r' (by simpa using h)
      simp [this.1, this.2]
    | heap h => simp [atomKey]
  | heap h =>
    cases a' with
    | num m => simp [atomKey]
    | inl bs => simp [atomKey]
    | heap h' =>
      simp only [atomKey]; intro hh; simp at hh; simp [hi _ _ hh.1, hh.2]

theorem atomsKey_inj (ids : Nat → Nat) (hi : Inj ids) (as as' : List Atom) :
    atomsKey ids as = atomsKey ids as' → as = as' := by
  induction as generalizing as' with
  | nil =>
    cases as' with
    | nil => simp
    | cons b bs => cases b <;> simp [atomsKey, atomKey]
  | cons a as ih =>
    cases as' with
    | nil => cases a <;> simp [atomsKey, atomKey]
    | cons b bs =>
      simp only [atomsKey]
      intro h
      have := atomKey_inj ids hi a b _ _ h
      rw [this.1, ih bs this.2]

theorem errKey_inj (ids : Nat → Nat) (hi : Inj ids) (a b : Err) :
    errKey ids a = errKey ids b → a = b := by
  cases a; cases b
  simp only [errKey, List.cons.injEq, Err.mk.injEq, and_imp]
  intro h1 h2 h3 h4 h5 h6 h7
  exact ⟨hi _ _ h1, h2, h3, h4, h5, h6, atomsKey_inj ids hi _ _ h7⟩

/-- `CompileTimeError`'s derived order is a strict total order (for injective handle ids). -/
theorem errLt_strictTotal (ids : Nat → Nat) (hi : Inj ids) : StrictTotal (errLt ids) :=
  ⟨fun _ => lexLt_irrefl _, fun _ _ _ => lexLt_trans _ _ _,
   fun a b h1 h2 => errKey_inj ids hi a b (lexLt_total _ _ h1 h2)⟩

end SamVerif.ErrorSet
