import SamVerif.Model.Backends
/-! Helper lemmas for C04 (`Props/C04.lean`). -/
namespace SamVerif.Backends

theorem wrap32_id {x : Int} (h : InRange x) : wrap32 x = x := by
  unfold InRange at h; unfold wrap32; omega

theorem wrap32_inRange (x : Int) : InRange (wrap32 x) := by
  unfold InRange wrap32; omega

theorem i31wrap_id {x : Int} (h : InI31 x) : i31wrap x = x := by
  unfold InI31 at h; unfold i31wrap; omega

theorem i31wrap_in (x : Int) : InI31 (i31wrap x) := by
  unfold InI31 i31wrap; omega

theorem agree_int (r : Int) : Agree (.int r) (some r) := ⟨r, rfl, rfl⟩

theorem agree_int_iff (r s : Int) : Agree (.int r) (some s) ↔ r = s := by
  constructor
  · rintro ⟨x, h1, h2⟩; cases h1; cases h2; rfl
  · rintro rfl; exact agree_int r

/-- floor and truncating quotient coincide exactly when the quotient is exact or non-negative -/
theorem fdiv_eq_tdiv_iff (a b : Int) (hb : b ≠ 0) :
    Int.fdiv a b = Int.tdiv a b ↔ (a % b = 0 ∨ (0 < a ∧ 0 < b) ∨ (a < 0 ∧ b < 0)) := by
  rw [Int.fdiv_eq_ediv, Int.tdiv_eq_ediv]
  have hd : b ∣ a ↔ a % b = 0 := Int.dvd_iff_emod_eq_zero
  have hs : b.sign = 1 ∧ 0 < b ∨ b.sign = -1 ∧ b < 0 := by
    rcases Int.lt_trichotomy b 0 with h | h | h
    · right; exact ⟨Int.sign_eq_neg_one_of_neg h, h⟩
    · exact absurd h hb
    · left; exact ⟨Int.sign_eq_one_of_pos h, h⟩
  by_cases h0 : a % b = 0
  · have : b ∣ a := hd.mpr h0
    simp [this, h0]
  · have hnd : ¬ b ∣ a := fun h => h0 (hd.mp h)
    simp only [hnd, or_false, h0, false_or]
    rcases hs with ⟨hs, hp⟩ | ⟨hs, hn⟩
    · rw [hs]
      have ha0 : a ≠ 0 := by rintro rfl; simp at h0
      by_cases ha : 0 ≤ a
      · have : 0 ≤ b := by omega
        simp [ha, this]; omega
      · have : 0 ≤ b := by omega
        simp [ha, this]; omega
    · rw [hs]
      have ha0 : a ≠ 0 := by rintro rfl; simp at h0
      by_cases ha : 0 ≤ a
      · have : ¬ 0 ≤ b := by omega
        simp [ha, this]; omega
      · have : ¬ 0 ≤ b := by omega
        simp [ha, this]; omega

end SamVerif.Backends
