import SamVerif.Lemmas.UsefulNorm
/-! Normalisation preserves matching: the abstract node the checker builds for a source pattern
(`normalize`) matches exactly the values the source pattern matches (`smatch`). -/
namespace SamVerif.Useful

theorem pmatch_mkOr (v : Val) : ∀ (ps : List Pat), pmatch (mkOr ps) v = pmatchAny ps v
  | [] => by simp [mkOr, pmatch]
  | [p] => by simp [mkOr, pmatchAny]
  | p :: q :: ps => by simp [mkOr, pmatch]

theorem hasTy_struct {sig : Sig} {v : Val} {t : Nat} {fs : List (Nat × Nat)}
    (hv : hasTy sig v t = true) (hs : sig t = .struct fs) :
    ∃ ws, v = .con none ws ∧ hasTys sig ws (fs.map (·.2)) = true := by
  cases v with
  | prim k => simp [hasTy, hs] at hv
  | con c ws =>
    cases c with
    | some k => simp [hasTy, ctorFields, hs] at hv
    | none => exact ⟨ws, rfl, by simpa [hasTy, ctorFields, hs] using hv⟩

theorem hasTy_enum {sig : Sig} {v : Val} {t cls : Nat} {vs : List (Nat × List Nat)}
    (hv : hasTy sig v t = true) (hs : sig t = .enum cls vs) :
    ∃ c ws tys, v = .con (some c) ws ∧ c.cls = cls ∧ findVariant vs c.name = some tys ∧
      hasTys sig ws tys = true := by
  cases v with
  | prim k => simp [hasTy, hs] at hv
  | con c ws =>
    cases c with
    | none => simp [hasTy, ctorFields, hs] at hv
    | some k =>
      simp only [hasTy, ctorFields, hs] at hv
      by_cases e : k.cls = cls
      · simp only [e, if_true] at hv
        cases hf : findVariant vs k.name with
        | none => simp [hf] at hv
        | some tys => exact ⟨k, ws, tys, rfl, e, hf, by simpa [hf] using hv⟩
      · simp [e] at hv

theorem hasTys_get : ∀ (sig : Sig) (ws : List Val) (ts : List Nat) (i t : Nat),
    hasTys sig ws ts = true → ts[i]? = some t → ∃ w, ws[i]? = some w ∧ hasTy sig w t = true
  | _, [], [], _, _, _, h => by simp at h
  | sig, w :: ws, t' :: ts, 0, t, h, hi => by
    simp only [hasTys, Bool.and_eq_true] at h
    simp only [List.getElem?_cons_zero, Option.some.injEq] at hi
    exact ⟨w, by simp, by rw [← hi]; exact h.1⟩
  | sig, w :: ws, t' :: ts, i + 1, t, h, hi => by
    simp only [hasTys, Bool.and_eq_true] at h
    obtain ⟨w', hw', hty⟩ := hasTys_get sig ws ts i t h.2 (by simpa using hi)
    exact ⟨w', by simpa using hw', hty⟩
  | _, [], _ :: _, _, _, h, _ => by simp [hasTys] at h
  | _, _ :: _, [], _, _, h, _ => by simp [hasTys] at h

theorem pmatchAll_set : ∀ (acc : List Pat) (ws : List Val) (i : Nat) (p : Pat) (w : Val),
    ws[i]? = some w → acc.length = ws.length →
    pmatchAll (acc.set i p) ws = (pmatch p w && pmatchAll (acc.set i .wild) ws)
  | [], [], _, _, _, h, _ => by simp at h
  | a :: acc, w' :: ws, 0, p, w, h, _ => by
    simp only [List.getElem?_cons_zero, Option.some.injEq] at h
    subst h
    simp [pmatchAll, pmatch]
  | a :: acc, w' :: ws, i + 1, p, w, h, hl => by
    have := pmatchAll_set acc ws i p w (by simpa using h) (by simpa using hl)
    simp only [List.set_cons_succ, pmatchAll, this]
    cases pmatch a w' <;> cases pmatch p w <;> simp
  | [], _ :: _, _, _, _, _, hl => by simp at hl
  | _ :: _, [], _, _, _, _, hl => by simp at hl

theorem set_wild_self : ∀ (acc : List Pat) (i : Nat), acc[i]? = some .wild → acc.set i .wild = acc
  | [], _, h => by simp at h
  | a :: acc, 0, h => by
    simp only [List.getElem?_cons_zero, Option.some.injEq] at h
    simp [h]
  | a :: acc, i + 1, h => by
    simp only [List.set_cons_succ, List.cons.injEq, true_and]
    exact set_wild_self acc i (by simpa using h)

theorem fieldIndex_go_name : ∀ (fs : List (Nat × Nat)) (name k i t : Nat),
    fieldIndex.go name fs k = some (i, t) → ∃ j, i = k + j ∧ (fs.map (·.1))[j]? = some name
  | [], _, _, _, _, h => by simp [fieldIndex.go] at h
  | (n, t') :: rest, name, k, i, t, h => by
    simp only [fieldIndex.go] at h
    by_cases e : n = name
    · simp only [e, if_true, Option.some.injEq, Prod.mk.injEq] at h
      exact ⟨0, by omega, by simp [e]⟩
    · simp only [e, if_false] at h
      obtain ⟨j, hj, hg⟩ := fieldIndex_go_name rest name (k + 1) i t h
      exact ⟨j + 1, by omega, by simpa using hg⟩

theorem fieldIndex_name (fs : List (Nat × Nat)) (name i t : Nat) (h : fieldIndex fs name = some (i, t)) :
    (fs.map (·.1))[i]? = some name := by
  obtain ⟨j, hj, hg⟩ := fieldIndex_go_name fs name 0 i t h
  have : i = j := by omega
  rw [this]; exact hg

theorem fieldIndex_inj (fs : List (Nat × Nat)) (n1 n2 i t1 t2 : Nat)
    (h1 : fieldIndex fs n1 = some (i, t1)) (h2 : fieldIndex fs n2 = some (i, t2)) : n1 = n2 := by
  have a := fieldIndex_name fs n1 i t1 h1
  have b := fieldIndex_name fs n2 i t2 h2
  rw [a] at b; exact Option.some.inj b

theorem pmatchAll_wilds_pad (ps : List Pat) (n : Nat) (ws : List Val) (h : ps.length + n = ws.length) :
    pmatchAll (ps ++ wilds n) ws = pmatchAll ps (ws.take ps.length) := by
  have hw : ws = ws.take ps.length ++ ws.drop ps.length := (List.take_append_drop _ _).symm
  rw [hw, pmatchAll_append _ _ _ _ (by simp; omega), pmatchAll_wilds n _ (by simp; omega)]
  simp

mutual
theorem normalize_sem (sig : Sig) (w : Bool) : ∀ (p : SPat) (t : Nat) (v : Val),
    swf sig w p t = true → hasTy sig v t = true →
    pmatch (normalize sig w p (some t)).pat v = smatch sig p t v
  | .id _, t, v, _, _ => by simp [normalize, smatch, pmatch]
  | .wild, t, v, _, _ => by simp [normalize, smatch, pmatch]
  | .or ps, t, v, hwf, hv => by
    simp only [swf, Bool.and_eq_true] at hwf
    have hall := normAll_sem sig w ps t v hwf.1 hv
    simp only [normalize, smatch]
    have hc : ((normAll sig w ps (some t)).each.drop 1).any
        (fun a => !bindsConsistent ((normAll sig w ps (some t)).each.headD []) a) = false := by
      have := hwf.2
      simpa using this
    simp only [hc]
    simp [pmatch_mkOr, hall]
  | .tuple ps, t, v, hwf, hv => by
    simp only [swf] at hwf
    cases hs : sig t with
    | prim => simp [hs] at hwf
    | enum c vs => simp [hs] at hwf
    | struct fs =>
      simp only [hs, Bool.and_eq_true, decide_eq_true_eq] at hwf
      obtain ⟨ws, rfl, hws⟩ := hasTy_struct hv hs
      have := normTuple_sem sig w ps (fs.map (·.2)) ws hwf.2 (by simpa using hwf.1) hws
      simp only [normalize, sigAt, hs, smatch, pmatch]
      simpa using this
  | .variant tag ps, t, v, hwf, hv => by
    simp only [swf] at hwf
    cases hs : sig t with
    | prim => simp [hs] at hwf
    | struct fs => simp [hs] at hwf
    | enum cls vs =>
      simp only [hs] at hwf
      cases hf : findVariant vs tag with
      | none => simp [hf] at hwf
      | some tys =>
        simp only [hf, Bool.and_eq_true, decide_eq_true_eq] at hwf
        obtain ⟨c, ws, tys', rfl, hcls, hfc, hws⟩ := hasTy_enum hv hs
        simp only [normalize, sigAt, hs, hf, smatch, pmatch]
        by_cases e : c.name = tag
        · have hc : (some ({ cls := cls, name := tag } : Ctor)) = some c := by
            cases c; simp_all
          have ht : tys' = tys := by rw [e, hf] at hfc; exact (Option.some.inj hfc).symm
          subst ht
          have := normTuple_sem sig w ps tys' ws hwf.2 hwf.1 hws
          simp [hc, hcls, e, this]
        · have hc : (some ({ cls := cls, name := tag } : Ctor)) ≠ some c := by
            intro h; injection h with h; apply e; rw [← h]
          simp [hc, e]
  | .object names ps, t, v, hwf, hv => by
    simp only [swf] at hwf
    cases hs : sig t with
    | prim => simp [hs] at hwf
    | enum c vs => simp [hs] at hwf
    | struct fs =>
      simp only [hs, Bool.and_eq_true, decide_eq_true_eq] at hwf
      obtain ⟨ws, rfl, hws⟩ := hasTy_struct hv hs
      have hlen : (wilds fs.length).length = ws.length := by
        rw [wilds_length, hasTys_length sig ws _ hws]; simp
      have := normObject_sem sig w fs ws hws ps names (wilds fs.length) hlen hwf.2 hwf.1.1
        (by
          intro name _ i t' hfi
          have := fieldIndex_some fs name i t' hfi
          have hi : i < fs.length := by
            have := List.getElem?_eq_some_iff.mp this
            obtain ⟨h, _⟩ := this
            simpa using h
          simp [wilds, hi])
      simp only [normalize, sigAt, hs, smatch, pmatch]
      rw [this, pmatchAll_wilds _ _ (by rw [hasTys_length sig ws _ hws]; simp)]
      simp
theorem normAll_sem (sig : Sig) (w : Bool) : ∀ (ps : List SPat) (t : Nat) (v : Val),
    swfAll sig w ps t = true → hasTy sig v t = true →
    pmatchAny (normAll sig w ps (some t)).pats v = smatchAny sig ps t v
  | [], _, _, _, _ => by simp [normAll, pmatchAny, smatchAny]
  | p :: ps, t, v, hwf, hv => by
    simp only [swfAll, Bool.and_eq_true] at hwf
    simp [normAll, pmatchAny, smatchAny, normalize_sem sig w p t v hwf.1 hv,
      normAll_sem sig w ps t v hwf.2 hv]
theorem normTuple_sem (sig : Sig) (w : Bool) : ∀ (ps : List SPat) (tys : List Nat) (ws : List Val),
    swfTuple sig w ps tys = true → ps.length ≤ tys.length → hasTys sig ws tys = true →
    pmatchAll ((normTuple sig w ps tys).pats ++ wilds (tys.length - ps.length)) ws = smatchTuple sig ps tys ws
  | [], tys, ws, _, _, hws => by
    simp [normTuple, smatchTuple, pmatchAll_wilds _ _ (hasTys_length sig ws tys hws)]
  | p :: ps, [], _, _, hl, _ => by simp at hl
  | p :: ps, t :: ts, [], _, _, hws => by simp [hasTys] at hws
  | p :: ps, t :: ts, v :: ws, hwf, hl, hws => by
    simp only [swfTuple, Bool.and_eq_true] at hwf
    simp only [hasTys, Bool.and_eq_true] at hws
    have h1 := normalize_sem sig w p t v hwf.1 hws.1
    have h2 := normTuple_sem sig w ps ts ws hwf.2 (by simpa using hl) hws.2
    simp only [normTuple, List.cons_append, pmatchAll, smatchTuple, h1, List.length_cons,
      Nat.add_sub_add_right, h2]
theorem normObject_sem (sig : Sig) (w : Bool) (fs : List (Nat × Nat)) (ws : List Val)
    (hws : hasTys sig ws (fs.map (·.2)) = true) :
    ∀ (es : List SPat) (names : List Nat) (acc : List Pat), acc.length = ws.length →
      swfObject sig w fs es names = true → nodupNat names = true →
      (∀ name ∈ names, ∀ i t, fieldIndex fs name = some (i, t) → acc[i]? = some .wild) →
      pmatchAll (normObject sig w fs es names acc).pats ws =
        (smatchObject sig fs ws es names && pmatchAll acc ws)
  | [], _, acc, _, _, _, _ => by simp [normObject, smatchObject]
  | _ :: _, [], acc, _, hwf, _, _ => by simp [swfObject] at hwf
  | p :: es, name :: names, acc, hl, hwf, hnd, hwild => by
    simp only [swfObject, Bool.and_eq_true] at hwf
    simp only [nodupNat, Bool.and_eq_true, Bool.not_eq_true'] at hnd
    cases hf : fieldIndex fs name with
    | none => simp [hf] at hwf
    | some it =>
      obtain ⟨i, t⟩ := it
      simp only [hf] at hwf
      obtain ⟨wv, hwv, hty⟩ := hasTys_get sig ws _ i t hws (fieldIndex_some fs name i t hf)
      have h1 := normalize_sem sig w p t wv hwf.1 hty
      have hacc := hwild name (by simp) i t hf
      have ih := normObject_sem sig w fs ws hws es names (acc.set i (normalize sig w p (some t)).pat)
        (by simpa using hl) hwf.2 hnd.2 (by
          intro name' hmem i' t' hfi'
          have hne : i ≠ i' := by
            intro e; subst e
            have := fieldIndex_inj fs name name' i t t' hf hfi'
            subst this
            have hc : names.contains name = true := by simpa using hmem
            rw [hnd.1] at hc; cases hc
          rw [List.getElem?_set_ne hne]
          exact hwild name' (by simp [hmem]) i' t' hfi')
      simp only [normObject, hf, smatchObject, hwv, ih,
        pmatchAll_set acc ws i _ wv hwv hl, set_wild_self acc i hacc, h1]
      cases smatch sig p t wv <;> cases smatchObject sig fs ws es names <;> simp
end


/-! ### column placement of object patterns -/

theorem normObject_length (sig : Sig) (w : Bool) (fs : List (Nat × Nat)) :
    ∀ (es : List SPat) (names : List Nat) (acc : List Pat),
      (normObject sig w fs es names acc).pats.length = acc.length
  | [], _, acc => by simp [normObject]
  | _ :: _, [], acc => by simp [normObject]
  | p :: es, name :: names, acc => by
    simp only [normObject]
    cases hf : fieldIndex fs name with
    | none => simp [normObject_length sig w fs es names]
    | some it => obtain ⟨i, t⟩ := it; simp [normObject_length sig w fs es names]

/-- positions that no remaining element names keep their accumulator entry -/
theorem normObject_other (sig : Sig) (w : Bool) (fs : List (Nat × Nat)) :
    ∀ (es : List SPat) (names : List Nat) (acc : List Pat) (j : Nat),
      (∀ name ∈ names, fieldIndex fs name ≠ none) →
      (∀ name ∈ names, ∀ i t, fieldIndex fs name = some (i, t) → i ≠ j) →
      (normObject sig w fs es names acc).pats[j]? = acc[j]?
  | [], _, acc, j, _, _ => by simp [normObject]
  | _ :: _, [], acc, j, _, _ => by simp [normObject]
  | p :: es, name :: names, acc, j, hk, hne => by
    simp only [normObject]
    cases hf : fieldIndex fs name with
    | none => exact absurd hf (hk name (by simp))
    | some it =>
      obtain ⟨i, t⟩ := it
      simp only
      rw [normObject_other sig w fs es names _ j (fun n hn => hk n (by simp [hn]))
        (fun n hn i' t' h => hne n (by simp [hn]) i' t' h)]
      exact List.getElem?_set_ne (hne name (by simp) i t hf)

/-- **Column placement**: in the abstract node of an object pattern, the sub-pattern written for
field `name` sits in the column of the field's *declaration index* (`fieldIndex`), wherever it was
written (main_checker.rs:1320 `abstract_pattern_nodes[*field_order] = abstract_node`). -/
theorem normObject_column (sig : Sig) (w : Bool) (fs : List (Nat × Nat)) :
    ∀ (es : List SPat) (names : List Nat) (acc : List Pat) (k : Nat) (name : Nat) (p : SPat) (i t : Nat),
      nodupNat names = true → (∀ n ∈ names, fieldIndex fs n ≠ none) →
      names[k]? = some name → es[k]? = some p → fieldIndex fs name = some (i, t) → i < acc.length →
      (normObject sig w fs es names acc).pats[i]? = some (normalize sig w p (some t)).pat
  | [], _, acc, k, name, p, i, t, _, _, _, he, _, _ => by simp at he
  | _ :: _, [], acc, k, name, p, i, t, _, _, hn, _, _, _ => by simp at hn
  | q :: es, n0 :: names, acc, 0, name, p, i, t, hnd, hk, hn, he, hf, hi => by
    simp only [List.getElem?_cons_zero, Option.some.injEq] at hn he
    subst hn; subst he
    simp only [nodupNat, Bool.and_eq_true, Bool.not_eq_true'] at hnd
    simp only [normObject, hf]
    rw [normObject_other sig w fs es names _ i (fun n hn => hk n (by simp [hn])) (by
      intro n hn i' t' h e
      subst e
      have := fieldIndex_inj fs n0 n i' t t' hf h
      subst this
      have hc : names.contains n0 = true := by simpa using hn
      rw [hnd.1] at hc; cases hc)]
    simp [List.getElem?_set_self hi]
  | q :: es, n0 :: names, acc, k + 1, name, p, i, t, hnd, hk, hn, he, hf, hi => by
    simp only [nodupNat, Bool.and_eq_true, Bool.not_eq_true'] at hnd
    simp only [List.getElem?_cons_succ] at hn he
    simp only [normObject]
    cases hf0 : fieldIndex fs n0 with
    | none => exact absurd hf0 (hk n0 (by simp))
    | some it =>
      obtain ⟨i0, t0⟩ := it
      simp only
      exact normObject_column sig w fs es names _ k name p i t hnd.2 (fun n hn => hk n (by simp [hn]))
        hn he hf (by simpa using hi)

end SamVerif.Useful
