import SamVerif.Model.MatchLower
import SamVerif.Lemmas.Useful
/-! Helper lemmas for the C03 theorems about `Model/MatchLower.lean`. -/
namespace SamVerif.MatchLower
open SamVerif.Useful

/-! ### a condition that is syntactically `ONE` evaluates to true (why the `== hir::ONE` shortcut is sound) -/

mutual
theorem isOne_sound : ∀ (c : Code) (v : Val) (b : Bool), c.isOne = true → evalCode c v = some b → b = true
  | .one, _, b, _, h => by simp [evalCode] at h; exact h
  | .bind _, _, b, _, h => by simp [evalCode] at h; exact h
  | .zero, _, _, h, _ => by simp [Code.isOne] at h
  | .struct fs, v, b, h1, h => by
    simp only [Code.isOne] at h1
    cases v with
    | prim k =>
      simp only [evalCode] at h
      split at h <;> simp at h
      exact h
    | con c vs =>
      cases c with
      | none => simp only [evalCode] at h; exact isOneF_sound fs vs b h1 h
      | some c =>
        simp only [evalCode] at h
        split at h <;> simp at h
        exact h
  | .destructure _ _ _, _, _, h, _ => by simp [Code.isOne] at h
  | .orElse _ _, _, _, h, _ => by simp [Code.isOne] at h
theorem isOneF_sound : ∀ (fs : Fields) (vs : List Val) (b : Bool), fs.isOne = true →
    evalFields fs vs = some b → b = true
  | .done, _, b, _, h => by simp [evalFields] at h; exact h
  | .seq i nested rest, vs, b, h1, h => by
    simp only [Fields.isOne] at h1
    simp only [evalFields] at h
    split at h
    · simp at h
    · split at h
      · simp at h
      · exact isOneF_sound rest vs b h1 h
  | .guard _ _ _, _, _, h, _ => by simp [Fields.isOne] at h
end

/-- one element: access slot `i`, test the nested pattern, continue with the rest -/
theorem evalFields_mkField (i : Nat) (nested : Code) (rest : Fields) (vs : List Val) (x : Val) (b : Bool)
    (hx : vs[i]? = some x) (hn : evalCode nested x = some b) :
    evalFields (mkField i nested rest) vs = if b then evalFields rest vs else some false := by
  unfold mkField
  cases h1 : nested.isOne with
  | true =>
    have hb := isOne_sound nested x b h1 hn
    subst hb
    simp [evalFields, hx, hn]
  | false =>
    cases b <;> simp [evalFields, hx, hn]

/-! ### list facts -/

theorem pmatchAll_length : ∀ (ps : List Pat) (vs : List Val), pmatchAll ps vs = true → ps.length = vs.length
  | [], [], _ => rfl
  | [], _ :: _, h => by simp [pmatchAll] at h
  | _ :: _, [], h => by simp [pmatchAll] at h
  | p :: ps, v :: vs, h => by
    simp only [pmatchAll, Bool.and_eq_true] at h
    simp [pmatchAll_length ps vs h.2]

theorem pmatchAll_wilds' : ∀ (vs : List Val), pmatchAll (wilds vs.length) vs = true
  | [] => by simp [wilds, pmatchAll]
  | v :: vs => by
    have := pmatchAll_wilds' vs
    simp only [wilds] at this
    simp [wilds, List.replicate_succ, pmatchAll, pmatch, this]

/-- overwriting a wildcard slot adds exactly the test of that slot -/
theorem pmatchAll_set : ∀ (acc : List Pat) (vs : List Val) (i : Nat) (a : Pat) (x : Val),
    acc.length = vs.length → acc[i]? = some .wild → vs[i]? = some x →
    pmatchAll (acc.set i a) vs = (pmatchAll acc vs && pmatch a x)
  | [], _, i, _, _, _, h, _ => by simp at h
  | _ :: _, [], _, _, _, hl, _, _ => by simp at hl
  | p :: acc, v :: vs, 0, a, x, _, h, hx => by
    simp only [List.getElem?_cons_zero, Option.some.injEq] at h hx
    subst h; subst hx
    simp only [List.set_cons_zero, pmatchAll, pmatch, Bool.true_and]
    rw [Bool.and_comm]
  | p :: acc, v :: vs, i + 1, a, x, hl, h, hx => by
    simp only [List.getElem?_cons_succ] at h hx
    simp only [List.length_cons, Nat.add_right_cancel_iff] at hl
    simp only [List.set_cons_succ, pmatchAll, pmatchAll_set acc vs i a x hl h hx, Bool.and_assoc]

theorem hasTys_getElem : ∀ (sig : Sig) (vs : List Val) (tys : List Nat) (i : Nat) (t : Nat),
    hasTys sig vs tys = true → tys[i]? = some t → ∃ x, vs[i]? = some x ∧ hasTy sig x t = true
  | _, [], [], _, _, _, h => by simp at h
  | _, [], _ :: _, _, _, h, _ => by simp [hasTys] at h
  | _, _ :: _, [], _, _, h, _ => by simp [hasTys] at h
  | sig, v :: vs, t' :: tys, 0, t, h, ht => by
    simp only [hasTys, Bool.and_eq_true] at h
    simp only [List.getElem?_cons_zero, Option.some.injEq] at ht
    subst ht
    exact ⟨v, by simp, h.1⟩
  | sig, v :: vs, t' :: tys, i + 1, t, h, ht => by
    simp only [hasTys, Bool.and_eq_true] at h
    simp only [List.getElem?_cons_succ] at ht
    obtain ⟨x, hx, hxt⟩ := hasTys_getElem sig vs tys i t h.2 ht
    exact ⟨x, by simpa using hx, hxt⟩

theorem hasTys_len : ∀ (sig : Sig) (vs : List Val) (tys : List Nat), hasTys sig vs tys = true →
    vs.length = tys.length
  | _, [], [], _ => rfl
  | _, [], _ :: _, h => by simp [hasTys] at h
  | _, _ :: _, [], h => by simp [hasTys] at h
  | sig, v :: vs, t :: tys, h => by
    simp only [hasTys, Bool.and_eq_true] at h
    simp [hasTys_len sig vs tys h.2]

theorem pmatch_mkOr (l : List Pat) (v : Val) : pmatch (mkOr l) v = pmatchAny l v := by
  unfold mkOr
  split
  · simp [pmatch]
  · simp [pmatchAny]
  · simp [pmatch]

theorem nodup_cons (x : Nat) (xs : List Nat) (h : nodupNat (x :: xs) = true) :
    x ∉ xs ∧ nodupNat xs = true := by
  simp only [nodupNat, Bool.and_eq_true, Bool.not_eq_true', List.contains_eq_mem,
    decide_eq_false_iff_not] at h
  exact h

theorem cobjTy_lt (sig : Sig) (tys : List Nat) : ∀ (orders : List Nat) (es : List CPat),
    cobjTy sig tys orders es = true → ∀ o ∈ orders, o < tys.length
  | [], _, _, o, ho => by simp at ho
  | _ :: _, [], h, _, _ => by simp [cobjTy] at h
  | o' :: orders, p :: es, h, o, ho => by
    simp only [cobjTy, Bool.and_eq_true] at h
    simp only [List.mem_cons] at ho
    rcases ho with rfl | ho
    · cases hto : tys[o]? with
      | none => simp [hto] at h
      | some t =>
        exact (List.getElem?_eq_some_iff.mp hto).1
    · exact cobjTy_lt sig tys orders es h.2 o ho

theorem cpatTys_length (sig : Sig) : ∀ (es : List CPat) (tys : List Nat), cpatTys sig es tys = true →
    es.length = tys.length
  | [], [], _ => rfl
  | [], _ :: _, h => by simp [cpatTys] at h
  | _ :: _, [], h => by simp [cpatTys] at h
  | p :: ps, t :: ts, h => by
    simp only [cpatTys, Bool.and_eq_true] at h
    simp [cpatTys_length sig ps ts h.2]

/-! ### the lowered test computes `pmatch` of the abstract pattern -/

mutual
theorem lowerPat_correct (sig : Sig) : ∀ (p : CPat) (t : Nat) (v : Val),
    cpatTy sig p t = true → hasTy sig v t = true →
    evalCode (lowerPat p) v = some (pmatch (absOf p) v)
  | .id _, _, _, _, _ => by simp [lowerPat, absOf, evalCode, pmatch]
  | .wild, _, _, _, _ => by simp [lowerPat, absOf, evalCode, pmatch]
  | .tuple n es, t, v, hty, hv => by
    simp only [cpatTy] at hty
    cases hs : sig t with
    | prim => simp [hs] at hty
    | enum cls vs => simp [hs] at hty
    | struct fs =>
      simp only [hs, Bool.and_eq_true, decide_eq_true_eq] at hty
      cases v with
      | prim k => simp [hasTy, hs] at hv
      | con c ws =>
        simp only [hasTy, ctorFields, hs] at hv
        cases c with
        | some c => simp at hv
        | none =>
          simp only at hv
          have := lowerElems_correct sig es (fs.map (fun f => f.2)) [] ws hty.2 hv
          simp only [List.length_nil, List.nil_append] at this
          simp [lowerPat, absOf, evalCode, pmatch, this]
  | .object n orders es, t, v, hty, hv => by
    simp only [cpatTy] at hty
    cases hs : sig t with
    | prim => simp [hs] at hty
    | enum cls vs => simp [hs] at hty
    | struct fs =>
      simp only [hs, Bool.and_eq_true, decide_eq_true_eq] at hty
      obtain ⟨⟨hn, hnd⟩, hobj⟩ := hty
      cases v with
      | prim k => simp [hasTy, hs] at hv
      | con c ws =>
        simp only [hasTy, ctorFields, hs] at hv
        cases c with
        | some c => simp at hv
        | none =>
          simp only at hv
          have hlen : ws.length = n := by
            rw [hasTys_len sig ws _ hv, hn]; simp
          have hacc : (wilds n).length = ws.length := by simp [wilds, hlen]
          have hw : ∀ o ∈ orders, (wilds n)[o]? = some Pat.wild := by
            intro o ho
            have ho' := cobjTy_lt sig (fs.map (fun f => f.2)) orders es hobj o ho
            simp only [List.length_map] at ho'
            simp only [wilds]
            rw [List.getElem?_replicate]
            simp [hn, ho']
          obtain ⟨b, hb, hm⟩ := lowerObj_correct sig orders es (fs.map (fun f => f.2)) ws (wilds n)
            hobj hnd hv hacc hw
          have hwild : pmatchAll (wilds n) ws = true := by
            rw [← hlen]; exact pmatchAll_wilds' ws
          simp [lowerPat, absOf, evalCode, pmatch, hb, hm, hwild]
  | .variant c args, t, v, hty, hv => by
    simp only [cpatTy] at hty
    cases hc : ctorFields sig t (some c) with
    | none => simp [hc] at hty
    | some tys =>
      simp only [hc] at hty
      cases v with
      | prim k =>
        simp only [hasTy] at hv
        unfold ctorFields at hc
        cases hs : sig t <;> simp [hs] at hv hc
      | con c' ws =>
        simp only [hasTy] at hv
        cases c' with
        | none =>
          unfold ctorFields at hc hv
          cases hs : sig t <;> simp [hs] at hv hc
        | some c'' =>
          by_cases hcc : c'' = c
          · subst hcc
            simp only [hc] at hv
            have hl : args.length ≤ ws.length := by
              rw [cpatTys_length sig args tys hty, hasTys_len sig ws tys hv]; exact Nat.le_refl _
            have := lowerElems_correct sig args tys [] ws hty hv
            simp only [List.length_nil, List.nil_append] at this
            simp [lowerPat, absOf, evalCode, pmatch, hl, this]
          · have hne : ¬ (c = c'') := fun h => hcc h.symm
            simp [lowerPat, absOf, evalCode, pmatch, hcc, hne]
  | .or ps, t, v, hty, hv => by
    simp only [cpatTy] at hty
    simp only [lowerPat, absOf, pmatch_mkOr]
    exact lowerOr_correct sig ps t v hty hv
theorem lowerElems_correct (sig : Sig) : ∀ (es : List CPat) (tys : List Nat) (pre ws : List Val),
    cpatTys sig es tys = true → hasTys sig ws tys = true →
    evalFields (lowerElems es pre.length) (pre ++ ws) = some (pmatchAll (absAll es) ws)
  | [], [], pre, ws, _, hv => by
    cases ws with
    | nil => simp [lowerElems, evalFields, absAll, pmatchAll]
    | cons w ws => simp [hasTys] at hv
  | [], _ :: _, _, _, h, _ => by simp [cpatTys] at h
  | _ :: _, [], _, _, h, _ => by simp [cpatTys] at h
  | p :: ps, t :: ts, pre, ws, hty, hv => by
    simp only [cpatTys, Bool.and_eq_true] at hty
    cases ws with
    | nil => simp [hasTys] at hv
    | cons w ws =>
      simp only [hasTys, Bool.and_eq_true] at hv
      have hp := lowerPat_correct sig p t w hty.1 hv.1
      have hx : (pre ++ w :: ws)[pre.length]? = some w := by simp
      have hrest := lowerElems_correct sig ps ts (pre ++ [w]) ws hty.2 hv.2
      simp only [List.length_append, List.length_cons, List.length_nil, Nat.zero_add,
        List.append_assoc, List.cons_append, List.nil_append] at hrest
      simp only [lowerElems, absAll, pmatchAll]
      rw [evalFields_mkField _ _ _ _ w _ hx hp, hrest]
      cases pmatch (absOf p) w <;> simp
theorem lowerObj_correct (sig : Sig) : ∀ (orders : List Nat) (es : List CPat) (tys : List Nat)
    (vs : List Val) (acc : List Pat),
    cobjTy sig tys orders es = true → nodupNat orders = true →
    hasTys sig vs tys = true → acc.length = vs.length → (∀ o ∈ orders, acc[o]? = some Pat.wild) →
    ∃ b, evalFields (lowerObj orders es) vs = some b ∧
      pmatchAll (absObj orders es acc) vs = (pmatchAll acc vs && b)
  | [], [], _, _, _, _, _, _, _, _ => ⟨true, by simp [lowerObj, evalFields], by simp [absObj]⟩
  | [], _ :: _, _, _, _, h, _, _, _, _ => by simp [cobjTy] at h
  | _ :: _, [], _, _, _, h, _, _, _, _ => by simp [cobjTy] at h
  | o :: orders, p :: es, tys, vs, acc, hty, hnd, hv, hl, hw => by
    simp only [cobjTy, Bool.and_eq_true] at hty
    obtain ⟨hno, hnd'⟩ := nodup_cons o orders hnd
    cases hto : tys[o]? with
    | none => simp [hto] at hty
    | some t =>
      simp only [hto] at hty
      obtain ⟨x, hx, hxt⟩ := hasTys_getElem sig vs tys o t hv hto
      have hp := lowerPat_correct sig p t x hty.1 hxt
      have hl' : (acc.set o (absOf p)).length = vs.length := by simp [hl]
      have hw' : ∀ o' ∈ orders, (acc.set o (absOf p))[o']? = some Pat.wild := by
        intro o' ho'
        have hne : o ≠ o' := fun h => hno (h ▸ ho')
        rw [List.getElem?_set_ne hne]
        exact hw o' (List.mem_cons_of_mem _ ho')
      obtain ⟨b', hb', hm'⟩ := lowerObj_correct sig orders es tys vs (acc.set o (absOf p))
        hty.2 hnd' hv hl' hw'
      have hset := pmatchAll_set acc vs o (absOf p) x hl (hw o List.mem_cons_self) hx
      refine ⟨pmatch (absOf p) x && b', ?_, ?_⟩
      · simp only [lowerObj]
        rw [evalFields_mkField _ _ _ _ x _ hx hp, hb']
        cases pmatch (absOf p) x <;> simp
      · simp only [absObj]
        rw [hm', hset, Bool.and_assoc]
theorem lowerOr_correct (sig : Sig) : ∀ (ps : List CPat) (t : Nat) (v : Val),
    cpatTyAll sig ps t = true → hasTy sig v t = true →
    evalCode (lowerOr ps) v = some (pmatchAny (absAll ps) v)
  | [], _, _, _, _ => by simp [lowerOr, evalCode, absAll, pmatchAny]
  | [p], t, v, hty, hv => by
    simp only [cpatTyAll, Bool.and_eq_true] at hty
    simp [lowerOr, absAll, pmatchAny, lowerPat_correct sig p t v hty.1 hv]
  | p :: q :: ps, t, v, hty, hv => by
    simp only [cpatTyAll, Bool.and_eq_true] at hty
    have hp := lowerPat_correct sig p t v hty.1 hv
    have hr := lowerOr_correct sig (q :: ps) t v (by simp [cpatTyAll, hty.2.1, hty.2.2]) hv
    simp only [lowerOr, evalCode, hp, absAll, pmatchAny]
    simp only [absAll] at hr
    cases pmatch (absOf p) v with
    | true => simp
    | false => simp [hr, pmatchAny]
end

/-! ### the abstract pattern of a typed checked pattern is typed (hypothesis of C07's theorems) -/

theorem patTys_set (sig : Sig) : ∀ (acc : List Pat) (tys : List Nat) (o : Nat) (a : Pat) (t : Nat),
    patTys sig acc tys = true → tys[o]? = some t → patTy sig a t = true →
    patTys sig (acc.set o a) tys = true
  | [], [], _, _, _, _, h, _ => by simp at h
  | [], _ :: _, _, _, _, h, _, _ => by simp [patTys] at h
  | _ :: _, [], _, _, _, h, _, _ => by simp [patTys] at h
  | p :: acc, t' :: tys, 0, a, t, h, ht, ha => by
    simp only [patTys, Bool.and_eq_true] at h
    simp only [List.getElem?_cons_zero, Option.some.injEq] at ht
    subst ht
    simp [patTys, ha, h.2]
  | p :: acc, t' :: tys, o + 1, a, t, h, ht, ha => by
    simp only [patTys, Bool.and_eq_true] at h
    simp only [List.getElem?_cons_succ] at ht
    simp [patTys, h.1, patTys_set sig acc tys o a t h.2 ht ha]

theorem patTy_mkOr (sig : Sig) (l : List Pat) (t : Nat) : patTy sig (mkOr l) t = patTyAll sig l t := by
  unfold mkOr
  split
  · simp [patTy]
  · simp [patTyAll]
  · simp [patTy]

mutual
theorem absOf_typed (sig : Sig) : ∀ (p : CPat) (t : Nat), cpatTy sig p t = true →
    patTy sig (absOf p) t = true
  | .id _, _, _ => by simp [absOf, patTy]
  | .wild, _, _ => by simp [absOf, patTy]
  | .tuple n es, t, h => by
    simp only [cpatTy] at h
    cases hs : sig t with
    | prim => simp [hs] at h
    | enum cls vs => simp [hs] at h
    | struct fs =>
      simp only [hs, Bool.and_eq_true] at h
      simp [absOf, patTy, ctorFields, hs, absAll_typed sig es _ h.2]
  | .object n orders es, t, h => by
    simp only [cpatTy] at h
    cases hs : sig t with
    | prim => simp [hs] at h
    | enum cls vs => simp [hs] at h
    | struct fs =>
      simp only [hs, Bool.and_eq_true, decide_eq_true_eq] at h
      have hw : patTys sig (wilds n) (fs.map (fun f => f.2)) = true := by
        have := patTys_wilds sig (fs.map (fun f => f.2))
        simpa [h.1.1] using this
      simp [absOf, patTy, ctorFields, hs, absObj_typed sig orders es _ _ h.2 hw]
  | .variant c args, t, h => by
    simp only [cpatTy] at h
    cases hc : ctorFields sig t (some c) with
    | none => simp [hc] at h
    | some tys =>
      simp only [hc] at h
      simp [absOf, patTy, hc, absAll_typed sig args tys h]
  | .or ps, t, h => by
    simp only [cpatTy] at h
    simp only [absOf, patTy_mkOr]
    exact absAll_typedAll sig ps t h
theorem absAll_typed (sig : Sig) : ∀ (es : List CPat) (tys : List Nat), cpatTys sig es tys = true →
    patTys sig (absAll es) tys = true
  | [], [], _ => by simp [absAll, patTys]
  | [], _ :: _, h => by simp [cpatTys] at h
  | _ :: _, [], h => by simp [cpatTys] at h
  | p :: ps, t :: ts, h => by
    simp only [cpatTys, Bool.and_eq_true] at h
    simp [absAll, patTys, absOf_typed sig p t h.1, absAll_typed sig ps ts h.2]
theorem absObj_typed (sig : Sig) : ∀ (orders : List Nat) (es : List CPat) (tys : List Nat)
    (acc : List Pat), cobjTy sig tys orders es = true → patTys sig acc tys = true →
    patTys sig (absObj orders es acc) tys = true
  | [], [], _, _, _, hacc => by simpa [absObj] using hacc
  | [], _ :: _, _, _, h, _ => by simp [cobjTy] at h
  | _ :: _, [], _, _, h, _ => by simp [cobjTy] at h
  | o :: orders, p :: es, tys, acc, h, hacc => by
    simp only [cobjTy, Bool.and_eq_true] at h
    cases hto : tys[o]? with
    | none => simp [hto] at h
    | some t =>
      simp only [hto] at h
      simp only [absObj]
      exact absObj_typed sig orders es tys _ h.2
        (patTys_set sig acc tys o _ t hacc hto (absOf_typed sig p t h.1))
theorem absAll_typedAll (sig : Sig) : ∀ (ps : List CPat) (t : Nat), cpatTyAll sig ps t = true →
    patTyAll sig (absAll ps) t = true
  | [], _, _ => by simp [absAll, patTyAll]
  | p :: ps, t, h => by
    simp only [cpatTyAll, Bool.and_eq_true] at h
    simp [absAll, patTyAll, absOf_typed sig p t h.1, absAll_typedAll sig ps t h.2]
end

/-! ### a typed checked pattern does not make the lowering index out of range -/

mutual
theorem lowerCrash_typed (sig : Sig) : ∀ (p : CPat) (t : Nat), cpatTy sig p t = true →
    lowerCrash p = false
  | .id _, _, _ => by simp [lowerCrash]
  | .wild, _, _ => by simp [lowerCrash]
  | .tuple n es, t, h => by
    simp only [cpatTy] at h
    cases hs : sig t with
    | prim => simp [hs] at h
    | enum cls vs => simp [hs] at h
    | struct fs =>
      simp only [hs, Bool.and_eq_true, decide_eq_true_eq] at h
      have hl := cpatTys_length sig es _ h.2
      simp only [List.length_map] at hl
      have : ¬ n < es.length := by omega
      simp [lowerCrash, this, lowerCrashAll_typed sig es _ h.2]
  | .object n orders es, t, h => by
    simp only [cpatTy] at h
    cases hs : sig t with
    | prim => simp [hs] at h
    | enum cls vs => simp [hs] at h
    | struct fs =>
      simp only [hs, Bool.and_eq_true, decide_eq_true_eq] at h
      have hlt := cobjTy_lt sig _ orders es h.2
      simp only [List.length_map] at hlt
      have hn := h.1.1
      have hany : orders.any (fun o => decide (n ≤ o)) = false := by
        simp only [List.any_eq_false, decide_eq_true_eq]
        intro o ho
        have := hlt o ho
        omega
      simp [lowerCrash, hany, lowerCrashObj_typed sig orders es _ h.2]
  | .variant c args, t, h => by
    simp only [cpatTy] at h
    cases hc : ctorFields sig t (some c) with
    | none => simp [hc] at h
    | some tys =>
      simp only [hc] at h
      simp [lowerCrash, lowerCrashAll_typed sig args tys h]
  | .or ps, t, h => by
    simp only [cpatTy] at h
    simp [lowerCrash, lowerCrashAll_typedAll sig ps t h]
theorem lowerCrashAll_typed (sig : Sig) : ∀ (es : List CPat) (tys : List Nat),
    cpatTys sig es tys = true → lowerCrashAll es = false
  | [], _, _ => by simp [lowerCrashAll]
  | _ :: _, [], h => by simp [cpatTys] at h
  | p :: ps, t :: ts, h => by
    simp only [cpatTys, Bool.and_eq_true] at h
    simp [lowerCrashAll, lowerCrash_typed sig p t h.1, lowerCrashAll_typed sig ps ts h.2]
theorem lowerCrashObj_typed (sig : Sig) : ∀ (orders : List Nat) (es : List CPat) (tys : List Nat),
    cobjTy sig tys orders es = true → lowerCrashAll es = false
  | _, [], _, _ => by simp [lowerCrashAll]
  | [], _ :: _, _, h => by simp [cobjTy] at h
  | o :: orders, p :: es, tys, h => by
    simp only [cobjTy, Bool.and_eq_true] at h
    cases hto : tys[o]? with
    | none => simp [hto] at h
    | some t =>
      simp only [hto] at h
      simp [lowerCrashAll, lowerCrash_typed sig p t h.1, lowerCrashObj_typed sig orders es tys h.2]
theorem lowerCrashAll_typedAll (sig : Sig) : ∀ (ps : List CPat) (t : Nat),
    cpatTyAll sig ps t = true → lowerCrashAll ps = false
  | [], _, _ => by simp [lowerCrashAll]
  | p :: ps, t, h => by
    simp only [cpatTyAll, Bool.and_eq_true] at h
    simp [lowerCrashAll, lowerCrash_typed sig p t h.1, lowerCrashAll_typedAll sig ps t h.2]
end

/-! ### the if/else chain of `lower_match` -/

theorem runMatchFrom_of_exists (sig : Sig) (t : Nat) (v : Val) (hv : hasTy sig v t = true) :
    ∀ (arms : List CPat) (k : Nat), cpatTyAll sig arms t = true →
    (∃ a ∈ abstractArms arms, pmatch a v = true) →
    ∃ i, k ≤ i ∧ i < k + arms.length ∧ runMatchFrom (lowerMatch arms) k v = .arm i
  | [], _, _, h => by simp [abstractArms] at h
  | p :: ps, k, hty, h => by
    simp only [cpatTyAll, Bool.and_eq_true] at hty
    have hp := lowerPat_correct sig p t v hty.1 hv
    simp only [lowerMatch, List.map_cons, runMatchFrom, hp]
    cases hm : pmatch (absOf p) v with
    | true => exact ⟨k, Nat.le_refl _, by simp, rfl⟩
    | false =>
      simp only
      have h' : ∃ a ∈ abstractArms ps, pmatch a v = true := by
        obtain ⟨a, ha, hma⟩ := h
        simp only [abstractArms, List.map_cons, List.mem_cons] at ha
        rcases ha with rfl | ha
        · rw [hm] at hma; cases hma
        · exact ⟨a, ha, hma⟩
      obtain ⟨i, h1, h2, h3⟩ := runMatchFrom_of_exists sig t v hv ps (k + 1) hty.2 h'
      refine ⟨i, by omega, by simp only [List.length_cons]; omega, ?_⟩
      simpa [lowerMatch] using h3

theorem cpatTyAll_mem (sig : Sig) : ∀ (arms : List CPat) (t : Nat), cpatTyAll sig arms t = true →
    ∀ a ∈ abstractArms arms, patTy sig a t = true
  | [], _, _, a, ha => by simp [abstractArms] at ha
  | p :: ps, t, h, a, ha => by
    simp only [cpatTyAll, Bool.and_eq_true] at h
    simp only [abstractArms, List.map_cons, List.mem_cons] at ha
    rcases ha with rfl | ha
    · exact absOf_typed sig p t h.1
    · exact cpatTyAll_mem sig ps t h.2 a ha

end SamVerif.MatchLower
