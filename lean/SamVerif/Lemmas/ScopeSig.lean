import SamVerif.Model.ScopeSig
/-! Lemmas about folds of `HashMap::insert` (for `signature_perm_invariant`, C13). -/
namespace SamVerif.Sig
open SamVerif.Scope (insertKV lookupKV)

variable {γ κ ν : Type} [DecidableEq κ]

theorem lookupKV_filter_ne (k k' : κ) (m : List (κ × ν)) :
    lookupKV k (m.filter (fun e => e.1 ≠ k')) = if k' = k then none else lookupKV k m := by
  induction m with
  | nil => simp [lookupKV]
  | cons e m ih =>
    obtain ⟨a, v⟩ := e
    by_cases h1 : a = k' <;> by_cases h2 : k' = k <;> simp_all [lookupKV]

theorem lookupKV_insertKV (k k' : κ) (v : ν) (m : List (κ × ν)) :
    lookupKV k (insertKV k' v m) = if k' = k then some v else lookupKV k m := by
  simp only [insertKV, lookupKV, lookupKV_filter_ne]
  by_cases h : k' = k <;> simp [h]

/-- a fold of inserts is "last declaration with that key wins" -/
theorem lookup_foldl_insert (key : γ → κ) (val : γ → ν) (l : List γ) (acc : List (κ × ν)) (k : κ) :
    lookupKV k (l.foldl (fun acc t => insertKV (key t) (val t) acc) acc) =
      match l.reverse.find? (fun t => key t = k) with
      | some t => some (val t)
      | none => lookupKV k acc := by
  induction l generalizing acc with
  | nil => simp
  | cons t l ih =>
    simp only [List.foldl_cons, ih, List.reverse_cons, List.find?_append]
    cases h : l.reverse.find? (fun t => key t = k) with
    | some u => simp
    | none =>
      by_cases hk : key t = k <;> simp [hk, lookupKV_insertKV]

theorem find_unique (key : γ → κ) {l : List γ} (hnd : (l.map key).Nodup) {t : γ} (ht : t ∈ l) :
    l.find? (fun x => key x = key t) = some t := by
  induction l with
  | nil => cases ht
  | cons a l ih =>
    simp only [List.map_cons, List.nodup_cons] at hnd
    rcases List.mem_cons.mp ht with rfl | h
    · simp
    · have : key a ≠ key t := fun e => hnd.1 (e ▸ List.mem_map_of_mem h)
      simp [List.find?_cons, this, ih hnd.2 h]

/-- with pairwise distinct keys, a fold of inserts does not depend on the order -/
theorem lookup_foldl_insert_perm (key : γ → κ) (val : γ → ν) {l l' : List γ} (hp : l.Perm l')
    (hnd : (l.map key).Nodup) (acc : List (κ × ν)) (k : κ) :
    lookupKV k (l.foldl (fun acc t => insertKV (key t) (val t) acc) acc) =
      lookupKV k (l'.foldl (fun acc t => insertKV (key t) (val t) acc) acc) := by
  rw [lookup_foldl_insert, lookup_foldl_insert]
  have hnd' : (l'.map key).Nodup := (hp.map key).nodup_iff.mp hnd
  have hr : (l.reverse.map key).Nodup := by rw [List.map_reverse]; exact (List.reverse_perm _).nodup_iff.mpr hnd
  have hr' : (l'.reverse.map key).Nodup := by rw [List.map_reverse]; exact (List.reverse_perm _).nodup_iff.mpr hnd'
  by_cases h : ∃ t ∈ l, key t = k
  · obtain ⟨t, ht, rfl⟩ := h
    rw [find_unique key hr (by simpa using ht), find_unique key hr' (by simpa using hp.mem_iff.mp ht)]
  · have h1 : l.reverse.find? (fun t => key t = k) = none := by
      simp only [List.find?_eq_none, List.mem_reverse]
      intro t ht; simpa using fun e => h ⟨t, ht, e⟩
    have h2 : l'.reverse.find? (fun t => key t = k) = none := by
      simp only [List.find?_eq_none, List.mem_reverse]
      intro t ht; simpa using fun e => h ⟨t, hp.mem_iff.mpr ht, e⟩
    rw [h1, h2]

end SamVerif.Sig
