import SamVerif.Lemmas.Scope
/-!
The renamer of `variable_definition.rs` on the event view and on the tree view of a module, and
the simulation argument for `rename_preserves_resolution` (C15): renaming one binding and its uses
to a fresh name keeps every lookup of the scope machine at the same scope depth and location.
-/
namespace SamVerif.Scope

variable {α : Type} [DecidableEq α]

def Ev.loc : Ev α → Option Nat
  | .define _ l => some l
  | .use _ l _ => some l
  | _ => none

def Ev.name? : Ev α → Option α
  | .define n _ => some n
  | .use n _ _ => some n
  | _ => none

/-- one identifier occurrence under `apply_renaming`: it gets the new name iff its location is the
definition or one of its uses (`S`). -/
def renameEv (S : List Nat) (new : α) : Ev α → Ev α
  | .define n l => .define (if l ∈ S then new else n) l
  | .use n l ft => .use (if l ∈ S then new else n) l ft
  | ev => ev

/-- `apply_renaming` on the event view of a module. -/
def renameAt (S : List Nat) (new : α) (evs : List (Ev α)) : List (Ev α) := evs.map (renameEv S new)

mutual
/-- `apply_renaming` on the tree view (`apply_expr_renaming`, `apply_matching_pattern_renaming`,
…, variable_definition.rs:75-360): every named node whose location is in `S` gets the new name.
A struct-shorthand binder `{ f }` is the node `pId f` at the binder's location like any other
identifier pattern (the printer re-derives `shorthand` from "binder = field name", so after the
renaming it prints `f as new`). -/
def Node.renameAt (S : List Nat) (new : α) : Node α → Node α
  | .mk tag name loc kids =>
    .mk tag (if loc ∈ S then name.map (fun _ => new) else name) loc (Node.renameAtList S new kids)
def Node.renameAtList (S : List Nat) (new : α) : List (Node α) → List (Node α)
  | [] => []
  | k :: ks => Node.renameAt S new k :: Node.renameAtList S new ks
end

/-! ### entries, names, lookups -/

def names (s : List (α × Nat)) : List α := List.map Prod.fst s

def ctxNames (ls : List (Scope α)) : List α := names ls.flatten

theorem mem_names {s : List (α × Nat)} {n : α} : n ∈ names s ↔ ∃ l, (n, l) ∈ s := by
  simp [names]

theorem lookupKV_none_iff (n : α) (s : List (α × Nat)) : lookupKV n s = none ↔ n ∉ names s := by
  induction s with
  | nil => simp [lookupKV, names]
  | cons e s ih =>
    obtain ⟨k, v⟩ := e
    by_cases h : k = n
    · simp [lookupKV, h, names]
    · have h' : ¬ n = k := fun e => h e.symm
      simp only [lookupKV, h, if_false, ih]
      simp [names, h']

theorem previousDef_none_iff (n : α) (ls : List (Scope α)) :
    previousDef n ls = none ↔ n ∉ ctxNames ls := by
  induction ls with
  | nil => simp [previousDef, ctxNames, names]
  | cons s ls ih =>
    have hsplit : n ∈ ctxNames (s :: ls) ↔ n ∈ names s ∨ n ∈ ctxNames ls := by
      simp [ctxNames, names]
    rw [hsplit]
    simp only [previousDef]
    cases hp : previousDef n ls with
    | some l =>
      have : n ∈ ctxNames ls := by
        by_cases hc : n ∈ ctxNames ls
        · exact hc
        · rw [ih.mpr hc] at hp; cases hp
      simp [this]
    | none =>
      have := ih.mp hp
      simp [this, lookupKV_none_iff]

theorem lookupKV_mem {n : α} {s : List (α × Nat)} {l : Nat} (h : lookupKV n s = some l) : (n, l) ∈ s := by
  induction s with
  | nil => simp [lookupKV] at h
  | cons e s ih =>
    obtain ⟨k, v⟩ := e
    simp only [lookupKV] at h
    split at h
    · rename_i hk; cases h; simp [hk]
    · exact List.mem_cons_of_mem _ (ih h)

theorem lookupCtx_mem {n : α} {ls : List (Scope α)} {k l : Nat} (h : lookupCtx n ls = some (k, l)) :
    (n, l) ∈ ls.flatten := by
  induction ls generalizing k with
  | nil => simp [lookupCtx] at h
  | cons s ls ih =>
    simp only [lookupCtx] at h
    cases hs : lookupKV n s with
    | some l' =>
      simp only [hs, Option.some.injEq, Prod.mk.injEq] at h
      obtain ⟨_, rfl⟩ := h
      simp [lookupKV_mem hs]
    | none =>
      simp only [hs, Option.map_eq_some_iff] at h
      obtain ⟨⟨k', l'⟩, hr, he⟩ := h
      cases he
      simp [ih hr]

theorem names_unique {s : List (α × Nat)} (h : (names s).Nodup) {m : α} {l1 l2 : Nat}
    (h1 : (m, l1) ∈ s) (h2 : (m, l2) ∈ s) : l1 = l2 := by
  induction s with
  | nil => cases h1
  | cons e s ih =>
    simp only [names, List.map_cons, List.nodup_cons] at h
    rcases List.mem_cons.mp h1 with e1 | m1 <;> rcases List.mem_cons.mp h2 with e2 | m2
    · rw [← e1] at e2; cases e2; rfl
    · subst e1; exact absurd (List.mem_map_of_mem (f := Prod.fst) m2) h.1
    · subst e2; exact absurd (List.mem_map_of_mem (f := Prod.fst) m1) h.1
    · exact ih h.2 m1 m2

/-- lookups commute with any location-preserving relabelling of the entries that maps exactly the
entries named `n` to entries named `n'`. -/
theorem lookupKV_relabel (g : α × Nat → α × Nat) (hg : ∀ e, (g e).2 = e.2) (n n' : α) (s : List (α × Nat))
    (h : ∀ e ∈ s, ((g e).1 = n' ↔ e.1 = n)) : lookupKV n' (List.map g s) = lookupKV n s := by
  induction s with
  | nil => rfl
  | cons e s ih =>
    have he := h e (by simp)
    have ih' := ih (fun x hx => h x (by simp [hx]))
    obtain ⟨k, v⟩ := e
    have h2 := hg (k, v)
    cases hge : g (k, v) with
    | mk k' v' =>
      rw [hge] at he h2
      simp only at he h2
      subst h2
      simp only [List.map_cons, hge, lookupKV]
      by_cases hk : k = n
      · simp [hk, he.mpr hk]
      · have : k' ≠ n' := fun e' => hk (he.mp e')
        simp [hk, this, ih']

theorem lookupCtx_relabel (g : α × Nat → α × Nat) (hg : ∀ e, (g e).2 = e.2) (n n' : α)
    (ls : List (Scope α)) (h : ∀ e ∈ ls.flatten, ((g e).1 = n' ↔ e.1 = n)) :
    lookupCtx n' (ls.map (List.map g)) = lookupCtx n ls := by
  induction ls with
  | nil => rfl
  | cons s ls ih =>
    simp only [List.map_cons, lookupCtx]
    rw [lookupKV_relabel g hg n n' s (fun e he => h e (by simp [he])),
      ih (fun e he => h e (by simp only [List.flatten_cons, List.mem_append]; exact Or.inr he))]

theorem recordCapture_length (n : α) (l k : Nat) (cs : List (Scope α)) :
    (recordCapture n l k cs).length = cs.length := by
  induction k generalizing cs with
  | zero => simp [recordCapture]
  | succ k ih => cases cs <;> simp [recordCapture, ih]


/-! ### the simulation -/

/-- how one context entry looks after the renaming: the entry of the renamed binding (location
`d`) carries the new name, every other entry is unchanged. -/
def rnE (d : Nat) (new : α) (e : α × Nat) : α × Nat := (if e.2 = d then new else e.1, e.2)

def rnCtx (d : Nat) (new : α) (ls : List (Scope α)) : List (Scope α) := ls.map (List.map (rnE d new))

theorem rnCtx_flatten (d : Nat) (new : α) (ls : List (Scope α)) :
    (rnCtx d new ls).flatten = ls.flatten.map (rnE d new) := by
  simp [rnCtx, List.map_flatten]

/-- every entry of a capture table is a binding that is still in scope *outside* the scope the
table belongs to (`get` records a capture only in the scopes strictly inside the defining one) -/
def CapInv : List (Scope α) → List (Scope α) → Prop
  | c :: cs, _ :: ls => (∀ (e : α × Nat), e ∈ c → e ∈ ls.flatten) ∧ CapInv cs ls
  | _, _ => True

theorem capInv_mem {cs ls : List (Scope α)} (h : CapInv cs ls) (hlen : cs.length = ls.length) :
    ∀ c ∈ cs, ∀ (e : α × Nat), e ∈ c → e ∈ ls.flatten := by
  induction cs generalizing ls with
  | nil => intro c hc; cases hc
  | cons c0 cs ih =>
    cases ls with
    | nil => simp at hlen
    | cons l ls =>
      obtain ⟨h0, ht⟩ := h
      intro c hc e he
      simp only [List.flatten_cons, List.mem_append]
      rcases List.mem_cons.mp hc with rfl | hc'
      · exact Or.inr (h0 e he)
      · exact Or.inr (ih ht (by simpa using hlen) c hc' e he)

theorem insertLocal_length (n : α) (l : Nat) (ls : List (Scope α)) :
    (insertLocal n l ls).length = ls.length := by cases ls <;> simp [insertLocal]

theorem mem_insertKV {n : α} {l : Nat} {s : List (α × Nat)} {e : α × Nat} (h : e ∈ insertKV n l s) :
    e = (n, l) ∨ e ∈ s := by
  simp only [insertKV, List.mem_cons, List.mem_filter] at h
  rcases h with h | h
  · exact Or.inl h
  · exact Or.inr h.1

theorem capInv_record {cs ls : List (Scope α)} {n : α} {k l0 : Nat} (h : CapInv cs ls)
    (hlk : lookupCtx n ls = some (k, l0)) : CapInv (recordCapture n l0 k cs) ls := by
  induction k generalizing cs ls with
  | zero => simpa [recordCapture] using h
  | succ k ih =>
    cases cs with
    | nil => simp [recordCapture, CapInv]
    | cons c cs =>
      cases ls with
      | nil => simp [lookupCtx] at hlk
      | cons l ls =>
        obtain ⟨h0, ht⟩ := h
        simp only [lookupCtx] at hlk
        cases hs : lookupKV n l with
        | some v => simp [hs] at hlk
        | none =>
          simp only [hs, Option.map_eq_some_iff] at hlk
          obtain ⟨⟨k', l'⟩, hr, he⟩ := hlk
          simp only [Prod.mk.injEq, Nat.add_right_cancel_iff] at he
          obtain ⟨rfl, rfl⟩ := he
          refine ⟨?_, ?_⟩
          · intro e he
            rcases mem_insertKV he with rfl | he'
            · exact lookupCtx_mem hr
            · exact h0 e he'
          · cases cs with
            | nil => cases k' <;> simp [recordCapture, CapInv]
            | cons c2 cs2 => exact ih ht hr

theorem capInv_define {cs ls : List (Scope α)} (n : α) (l : Nat) (h : CapInv cs ls) :
    CapInv cs (insertLocal n l ls) := by
  cases ls with
  | nil => simpa [insertLocal] using h
  | cons s rest =>
    cases cs with
    | nil => simp [CapInv]
    | cons c cs => simpa [insertLocal, CapInv] using h

/-- invariant of the original run -/
structure RInv (d : Nat) (old new : α) (st : St α) : Prop where
  fresh : ∀ (e : α × Nat), e ∈ st.locals.flatten → e.1 ≠ new
  atd : ∀ (e : α × Nat), e ∈ st.locals.flatten → e.2 = d → e.1 = old
  nodup : (ctxNames st.locals).Nodup
  capLen : st.captured.length = st.locals.length
  cap : CapInv st.captured st.locals

/-- relation between the original run and the run of the renamed module -/
structure Rel (d : Nat) (new : α) (st st' : St α) : Prop where
  locals : st'.locals = rnCtx d new st.locals
  captured : st'.captured = rnCtx d new st.captured
  useDef : st'.useDef = st.useDef
  invalid : st'.invalid = st.invalid
  defLocs : st'.defLocs = st.defLocs
  errors : st'.errors = st.errors
  unbound : st'.unbound = st.unbound
  underflow : st'.underflow = st.underflow
  scopedDefs : st'.scopedDefs = st.scopedDefs.map (fun e => (e.1, List.map (rnE d new) e.2))
  lambdaCaps : st'.lambdaCaps = st.lambdaCaps.map (fun e => (e.1, List.map (rnE d new) e.2))

/-- what the statement of C15 assumes about one event, in the state in which it is executed:
the new name is fresh; the module is accepted by scope analysis (no collision, every use
resolves); `S` is the binding `d` (named `old`) and exactly the occurrences resolving to it. -/
def evOK (S : List Nat) (d : Nat) (old new : α) (st : St α) : Ev α → Prop
  | .define n l => n ≠ new ∧ (l ∈ S ↔ l = d) ∧ (l = d → n = old) ∧ previousDef n st.locals = none
  | .use n l _ => n ≠ new ∧
      (match lookupCtx n st.locals with
       | some r => (l ∈ S ↔ r.2 = d)
       | none => False)
  | _ => True

def Admissible (S : List Nat) (d : Nat) (old new : α) : List (Ev α) → St α → Prop
  | [], _ => True
  | ev :: evs, st => evOK S d old new st ev ∧ Admissible S d old new evs (step st ev)

theorem filter_ne_self {s : List (α × Nat)} {n : α} (h : n ∉ names s) :
    s.filter (fun e => e.1 ≠ n) = s := by
  rw [List.filter_eq_self]
  intro e he
  have : e.1 ≠ n := fun h' => h (h' ▸ List.mem_map_of_mem (f := Prod.fst) he)
  simpa using this

theorem insertKV_fresh {s : List (α × Nat)} {n : α} (l : Nat) (h : n ∉ names s) :
    insertKV n l s = (n, l) :: s := by
  simp only [insertKV, filter_ne_self h]

theorem insertKV_val_map {ν μ : Type} (g : ν → μ) (k : Nat) (v : ν) (m : List (Nat × ν)) :
    insertKV k (g v) (m.map fun e => (e.1, g e.2)) = (insertKV k v m).map fun e => (e.1, g e.2) := by
  simp only [insertKV, List.map_cons, List.filter_map]
  congr 1

/-- `HashMap::insert` commutes with a relabelling that maps exactly the entries named `n` to
entries named `n'` -/
theorem insertKV_relabel (g : α × Nat → α × Nat) (n n' : α) (l : Nat) (s : List (α × Nat))
    (h : ∀ e ∈ s, ((g e).1 = n' ↔ e.1 = n)) (hn : g (n, l) = (n', l)) :
    insertKV n' l (List.map g s) = List.map g (insertKV n l s) := by
  simp only [insertKV, List.map_cons, hn, List.filter_map]
  congr 2
  apply List.filter_congr
  intro e he
  have := h e he
  by_cases h1 : e.1 = n
  · simp [h1, this.mpr h1]
  · have h2 : ¬ (g e).1 = n' := fun h' => h1 (this.mp h')
    simp [h1, h2]

theorem recordCapture_relabel (g : α × Nat → α × Nat) (n n' : α) (l k : Nat) (cs : List (Scope α))
    (h : ∀ c ∈ cs, ∀ e ∈ c, ((g e).1 = n' ↔ e.1 = n)) (hn : g (n, l) = (n', l)) :
    recordCapture n' l k (cs.map (List.map g)) = (recordCapture n l k cs).map (List.map g) := by
  induction k generalizing cs with
  | zero => simp [recordCapture]
  | succ k ih =>
    cases cs with
    | nil => simp [recordCapture]
    | cons c cs =>
      simp only [List.map_cons, recordCapture]
      rw [insertKV_relabel g n n' l c (h c (by simp)) hn, ih cs (fun c' hc' => h c' (by simp [hc']))]

theorem step_sim (S : List Nat) (d : Nat) (old new : α) (st st' : St α) (ev : Ev α)
    (hi : RInv d old new st) (hr : Rel d new st st') (hok : evOK S d old new st ev) :
    Rel d new (step st ev) (step st' (renameEv S new ev)) ∧ RInv d old new (step st ev) := by
  obtain ⟨locals', captured', unbound', invalid', useDef', defLocs', scopedDefs', lambdaCaps', errors', underflow'⟩ := st'
  obtain ⟨h1, h2, h3, h4, h5, h6, h7, h8, h9, h10⟩ := hr
  simp only at h1 h2 h3 h4 h5 h6 h7 h8 h9 h10
  subst h1 h2 h3 h4 h5 h6 h7 h8 h9 h10
  cases ev with
  | push =>
    refine ⟨⟨by simp [step, renameEv, rnCtx], by simp [step, renameEv, rnCtx], rfl, rfl, rfl, rfl, rfl, rfl, rfl, rfl⟩, ?_⟩
    refine ⟨by simpa [step] using hi.fresh, by simpa [step] using hi.atd,
      by simpa [step, ctxNames] using hi.nodup, by simp [step, hi.capLen], ?_⟩
    simp only [step, CapInv]
    exact ⟨by simp, hi.cap⟩
  | pop k loc =>
    obtain ⟨locals, captured, unbound, invalid, useDef, defLocs, scopedDefs, lambdaCaps, errors, underflow⟩ := st
    obtain ⟨hfresh, hatd, hnodup, hcl, hcap⟩ := hi
    simp only at hfresh hatd hnodup hcl hcap
    simp only [step, renameEv]
    cases locals with
    | nil =>
      exact ⟨⟨by simp [rnCtx], rfl, rfl, rfl, rfl, rfl, rfl, rfl, rfl, rfl⟩, ⟨hfresh, hatd, hnodup, hcl, hcap⟩⟩
    | cons l ls =>
      cases captured with
      | nil => simp at hcl
      | cons c cs =>
        have hfl : ∀ e, e ∈ ls.flatten → e ∈ (l :: ls).flatten := by
          intro e he; simp only [List.flatten_cons, List.mem_append]; exact Or.inr he
        have hnd : (ctxNames ls).Nodup := by
          simp only [ctxNames, names, List.flatten_cons, List.map_append] at hnodup ⊢
          exact (List.nodup_append.mp hnodup).2.1
        have hf' : ∀ (e : α × Nat), e ∈ ls.flatten → e.1 ≠ new := fun e he => hfresh e (hfl e he)
        have ha' : ∀ (e : α × Nat), e ∈ ls.flatten → e.2 = d → e.1 = old := fun e he => hatd e (hfl e he)
        have hcl' : cs.length = ls.length := by simpa using hcl
        have hcap' : CapInv cs ls := hcap.2
        simp only [rnCtx, List.map_cons]
        rcases k with _ | _ | _
        · exact ⟨⟨by simp [rnCtx], by simp [rnCtx], rfl, rfl, rfl, rfl, rfl, rfl, rfl, rfl⟩,
            ⟨hf', ha', hnd, hcl', hcap'⟩⟩
        · exact ⟨⟨by simp [rnCtx], by simp [rnCtx], rfl, rfl, rfl, rfl, rfl, rfl,
            by simp [insertKV_val_map (List.map (rnE d new))], rfl⟩,
            ⟨hf', ha', hnd, hcl', hcap'⟩⟩
        · exact ⟨⟨by simp [rnCtx], by simp [rnCtx], rfl, rfl, rfl, rfl, rfl, rfl,
            by simp [insertKV_val_map (List.map (rnE d new))],
            by simp [insertKV_val_map (List.map (rnE d new))]⟩,
            ⟨hf', ha', hnd, hcl', hcap'⟩⟩
  | define n l =>
    obtain ⟨hn, hS, hd, hp⟩ := hok
    have hnot : n ∉ ctxNames st.locals := (previousDef_none_iff n st.locals).mp hp
    -- the renamed name is not bound in the renamed context either
    have hnot' : (if l ∈ S then new else n) ∉ ctxNames (rnCtx d new st.locals) := by
      simp only [ctxNames, rnCtx_flatten, names, List.map_map, List.mem_map, not_exists, not_and]
      intro e he
      have hfr := hi.fresh e he
      have hne : e.1 ≠ n := fun h' => hnot (by
        simp only [ctxNames, names, List.mem_map]; exact ⟨e, he, h'⟩)
      by_cases hl : l ∈ S
      · have hld := hS.mp hl
        have hno := hd hld
        simp only [hl, if_true, Function.comp, rnE]
        by_cases hed : e.2 = d
        · exact absurd (hi.atd e he hed) (hno ▸ hne)
        · simpa [hed] using hfr
      · simp only [hl, if_false, Function.comp, rnE]
        by_cases hed : e.2 = d
        · simpa [hed] using fun h' : new = n => hn h'.symm
        · simpa [hed] using hne
    have hp' : previousDef (if l ∈ S then new else n) (rnCtx d new st.locals) = none :=
      (previousDef_none_iff _ _).mpr hnot'
    have hrn : rnE d new (n, l) = (if l ∈ S then new else n, l) := by
      by_cases hl : l ∈ S
      · have hld : l = d := hS.mp hl
        have hds : d ∈ S := hld ▸ hl
        simp [rnE, hld, hds]
      · have : ¬ l = d := fun h' => hl (hS.mpr h')
        simp [rnE, hl, this]
    have hins : insertLocal (if l ∈ S then new else n) l (rnCtx d new st.locals)
        = rnCtx d new (insertLocal n l st.locals) := by
      cases hl : st.locals with
      | nil => simp [rnCtx, insertLocal]
      | cons s rest =>
        have hs : n ∉ names s := fun h' => hnot (by
          rw [hl]; simp only [ctxNames, names, List.flatten_cons, List.map_append, List.mem_append]
          exact Or.inl h')
        have hs' : (if l ∈ S then new else n) ∉ names (List.map (rnE d new) s) := fun h' => hnot' (by
          rw [hl]; simp only [ctxNames, rnCtx, names, List.map_cons, List.flatten_cons, List.map_append,
            List.mem_append]
          exact Or.inl h')
        simp only [rnCtx, List.map_cons, insertLocal, insertKV_fresh l hs, insertKV_fresh l hs', hrn]
    refine ⟨?_, ?_⟩
    · simp only [step, renameEv, defineId, hp, hp', hins]
      exact ⟨rfl, rfl, rfl, rfl, rfl, rfl, rfl, rfl, rfl, rfl⟩
    · simp only [step, defineId, hp]
      cases hl : st.locals with
      | nil =>
        have hc0 : st.captured = [] := by
          have := hi.capLen; rw [hl] at this; simpa using this
        simp only [insertLocal]
        exact ⟨by simp, by simp, by simp [ctxNames, names], by simp [hc0], by simp [hc0, CapInv]⟩
      | cons s rest =>
        have hs : n ∉ names s := fun h' => hnot (by
          rw [hl]; simp only [ctxNames, names, List.flatten_cons, List.map_append, List.mem_append]
          exact Or.inl h')
        have hfl : (insertKV n l s :: rest).flatten = (n, l) :: st.locals.flatten := by
          rw [hl, insertKV_fresh l hs]; simp
        have hcapd := capInv_define n l hi.cap
        rw [hl] at hcapd
        simp only [insertLocal] at hcapd ⊢
        refine ⟨?_, ?_, ?_, by simpa [hl] using hi.capLen, hcapd⟩
        · intro e he
          rw [hfl] at he
          rcases List.mem_cons.mp he with rfl | h'
          · exact hn
          · exact hi.fresh e h'
        · intro e he hed
          rw [hfl] at he
          rcases List.mem_cons.mp he with rfl | h'
          · exact hd hed
          · exact hi.atd e h' hed
        · simp only [ctxNames, hfl, names, List.map_cons, List.nodup_cons]
          exact ⟨hnot, hi.nodup⟩
  | use n l ft =>
    obtain ⟨hn, hres⟩ := hok
    cases hlk : lookupCtx n st.locals with
    | none => simp [hlk] at hres
    | some r =>
      obtain ⟨k, l0⟩ := r
      simp only [hlk] at hres
      have hmem : (n, l0) ∈ st.locals.flatten := lookupCtx_mem hlk
      -- the relabelling maps exactly the entries named `n` to entries named `n'`
      have hcond : ∀ (e : α × Nat), e ∈ st.locals.flatten →
          ((rnE d new e).1 = (if l ∈ S then new else n) ↔ e.1 = n) := by
        intro e he
        have hfr := hi.fresh e he
        by_cases hl : l ∈ S
        · have hl0 : l0 = d := hres.mp hl
          have hno : n = old := hi.atd (n, l0) hmem hl0
          simp only [hl, if_true, rnE]
          by_cases hed : e.2 = d
          · simp [hed, hi.atd e he hed, hno]
          · simp only [hed, if_false]
            constructor
            · intro h'; exact absurd h' hfr
            · intro h'
              have : e = (n, e.2) := by rw [← h']
              have := names_unique hi.nodup (this ▸ he) hmem
              exact absurd (this.trans hl0) hed
        · have hl0 : ¬ l0 = d := fun h' => hl (hres.mpr h')
          simp only [hl, if_false, rnE]
          by_cases hed : e.2 = d
          · simp only [hed, if_true]
            constructor
            · intro h'; exact absurd h'.symm hn
            · intro h'
              have : e = (n, e.2) := by rw [← h']
              have := names_unique hi.nodup (this ▸ he) hmem
              exact absurd (this.symm.trans hed) hl0
          · simp [hed]
      have hlk' : lookupCtx (if l ∈ S then new else n) (rnCtx d new st.locals) = some (k, l0) := by
        rw [← hlk]
        exact lookupCtx_relabel (rnE d new) (fun e => rfl) n _ st.locals hcond
      have hrn : rnE d new (n, l0) = (if l ∈ S then new else n, l0) := by
        by_cases hl : l ∈ S
        · simp [rnE, hl, hres.mp hl]
        · have : ¬ l0 = d := fun h' => hl (hres.mpr h')
          simp [rnE, hl, this]
      have hrec : recordCapture (if l ∈ S then new else n) l0 k (rnCtx d new st.captured)
          = rnCtx d new (recordCapture n l0 k st.captured) :=
        recordCapture_relabel (rnE d new) n _ l0 k st.captured
          (fun c hc e he => hcond e (capInv_mem hi.cap hi.capLen c hc e he)) hrn
      refine ⟨?_, ?_⟩
      · simp only [step, renameEv, useId, hlk, hlk']
        refine ⟨rfl, ?_, rfl, rfl, rfl, rfl, rfl, rfl, rfl, rfl⟩
        cases ft <;> simp [hrec]
      · simp only [step, useId, hlk]
        refine ⟨hi.fresh, hi.atd, hi.nodup, ?_, ?_⟩
        · cases ft <;> simp [recordCapture_length, hi.capLen]
        · cases ft
          · simpa using capInv_record hi.cap hlk
          · simpa using hi.cap

theorem run_sim (S : List Nat) (d : Nat) (old new : α) (evs : List (Ev α)) (st st' : St α)
    (hi : RInv d old new st) (hr : Rel d new st st') (hok : Admissible S d old new evs st) :
    Rel d new (run evs st) (run (renameAt S new evs) st') := by
  induction evs generalizing st st' with
  | nil => exact hr
  | cons ev evs ih =>
    obtain ⟨h1, h2⟩ := hok
    obtain ⟨hr', hi'⟩ := step_sim S d old new st st' ev hi hr h1
    simp only [run, renameAt, List.map_cons, List.foldl_cons] at ih ⊢
    exact ih _ _ hi' hr' h2

instance decEvOK (S : List Nat) (d : Nat) (old new : α) (st : St α) (ev : Ev α) :
    Decidable (evOK S d old new st ev) := by
  cases ev <;> simp only [evOK] <;> (try split) <;> infer_instance

instance decAdmissible (S : List Nat) (d : Nat) (old new : α) :
    ∀ (evs : List (Ev α)) (st : St α), Decidable (Admissible S d old new evs st)
  | [], _ => isTrue trivial
  | ev :: evs, st =>
    have := decAdmissible S d old new evs (step st ev)
    by simp only [Admissible]; infer_instance

/-! ### the tree renamer commutes with the traversal -/

mutual
theorem visit_renameAt (S : List Nat) (new : α) :
    ∀ n : Node α, visit (Node.renameAt S new n) = renameAt S new (visit n)
  | .mk tag name loc kids => by
    have hk := visitList_renameAt S new kids
    match kids with
    | [] =>
      by_cases hS : loc ∈ S <;> cases tag <;> cases name <;>
        simp [visit, Node.renameAt, Node.renameAtList, visitList, usesList, renameAt, renameEv, hS]
    | [k1] =>
      have h1 := visit_renameAt S new k1
      by_cases hS : loc ∈ S <;> cases tag <;> cases name <;>
        simp_all [visit, Node.renameAt, Node.renameAtList, visitList, usesList, renameAt, renameEv]
    | [k1, k2] =>
      have h1 := visit_renameAt S new k1
      have h2 := visit_renameAt S new k2
      have u2 := uses_renameAt S new k2
      by_cases hS : loc ∈ S <;> cases tag <;> cases name <;>
        simp_all [visit, Node.renameAt, Node.renameAtList, visitList, usesList, renameAt, renameEv]
    | [k1, k2, k3] =>
      have h1 := visit_renameAt S new k1
      have h2 := visit_renameAt S new k2
      have h3 := visit_renameAt S new k3
      have u := usesList_renameAt S new [k2, k3]
      by_cases hS : loc ∈ S <;> cases tag <;> cases name <;>
        simp_all [visit, Node.renameAt, Node.renameAtList, visitList, usesList, renameAt, renameEv]
    | [k1, k2, k3, k4] =>
      have h1 := visit_renameAt S new k1
      have h2 := visit_renameAt S new k2
      have h3 := visit_renameAt S new k3
      have h4 := visit_renameAt S new k4
      have u := usesList_renameAt S new [k2, k3, k4]
      by_cases hS : loc ∈ S <;> cases tag <;> cases name <;>
        simp_all [visit, Node.renameAt, Node.renameAtList, visitList, usesList, renameAt, renameEv]
    | k1 :: k2 :: k3 :: k4 :: k5 :: ks =>
      have h1 := visit_renameAt S new k1
      have u := usesList_renameAt S new (k2 :: k3 :: k4 :: k5 :: ks)
      by_cases hS : loc ∈ S <;> cases tag <;> cases name <;>
        simp_all [visit, Node.renameAt, Node.renameAtList, visitList, usesList, renameAt, renameEv]
theorem visitList_renameAt (S : List Nat) (new : α) : ∀ ks : List (Node α),
    visitList (Node.renameAtList S new ks) = renameAt S new (visitList ks)
  | [] => by simp [visitList, Node.renameAtList, renameAt]
  | k :: ks => by
    have h1 := visit_renameAt S new k
    have h2 := visitList_renameAt S new ks
    simp_all [visitList, Node.renameAtList, renameAt]
theorem uses_renameAt (S : List Nat) (new : α) :
    ∀ n : Node α, uses (Node.renameAt S new n) = renameAt S new (uses n)
  | .mk tag name loc kids => by
    have hu := usesList_renameAt S new kids
    by_cases hS : loc ∈ S <;> cases tag <;> cases name <;>
      simp_all [uses, Node.renameAt, renameAt, renameEv]
theorem usesList_renameAt (S : List Nat) (new : α) : ∀ ks : List (Node α),
    usesList (Node.renameAtList S new ks) = renameAt S new (usesList ks)
  | [] => by simp [usesList, Node.renameAtList, renameAt]
  | k :: ks => by
    have h1 := uses_renameAt S new k
    have h2 := usesList_renameAt S new ks
    simp_all [usesList, Node.renameAtList, renameAt]
end

/-! ### member level: parameters, type parameters, annotations, body -/

def rnName (S : List Nat) (new : α) (n : α) (l : Nat) : α := if l ∈ S then new else n

def TParam.renameAt (S : List Nat) (new : α) (tp : TParam α) : TParam α :=
  { name := rnName S new tp.name tp.loc, loc := tp.loc,
    bound := tp.bound.map fun b => (rnName S new b.1 b.2.1, b.2.1, Node.renameAtList S new b.2.2) }

/-- `apply_renaming` on a member (`variable_definition.rs:400-450`): parameter identifiers at a
location of `S` (via `mod_def_id`), and the body. -/
def Member.renameAt (S : List Nat) (new : α) (m : Member α) : Member α :=
  { m with
    tparams := m.tparams.map (TParam.renameAt S new)
    params := m.params.map fun p => (rnName S new p.1 p.2.1, p.2.1, Node.renameAt S new p.2.2)
    ret := Node.renameAt S new m.ret
    body := m.body.map (Node.renameAt S new) }

theorem renameAt_append (S : List Nat) (new : α) (a b : List (Ev α)) :
    renameAt S new (a ++ b) = renameAt S new a ++ renameAt S new b := by
  simp [renameAt]

theorem visitTParams_renameAt (S : List Nat) (new : α) (tps : List (TParam α)) :
    visitTParams (tps.map (TParam.renameAt S new)) = renameAt S new (visitTParams tps) := by
  simp only [visitTParams, renameAt, List.map_append, List.map_map, List.flatMap_map, List.map_flatMap]
  congr 1
  · congr 1
    · apply flatMap_congr'
      intro tp _
      cases h : tp.bound <;> simp [TParam.renameAt, h, renameEv, rnName]
  · apply flatMap_congr'
    intro tp _
    cases h : tp.bound with
    | none => simp [TParam.renameAt, h]
    | some b =>
      have := visitList_renameAt S new b.2.2
      simp [TParam.renameAt, h, this, renameAt]

/-- **member-level renamer = event renamer** (parameters included) -/
theorem visitMember_renameAt (S : List Nat) (new : α) (m : Member α) :
    visitMember (Member.renameAt S new m) = renameAt S new (visitMember m) := by
  simp only [visitMember, Member.renameAt, visitTParams_renameAt, renameAt_append, List.flatMap_map,
    List.map_map, visit_renameAt]
  cases hb : m.body with
  | none => simp [renameAt, renameEv, Function.comp_def, rnName, List.map_flatMap]
  | some b => simp [renameAt, renameEv, visit_renameAt S new b, Function.comp_def, rnName, List.map_flatMap]

/-! ### toplevel and module level -/

def TypeDef.renameAt (S : List Nat) (new : α) : TypeDef α → TypeDef α
  | .none => .none
  | .struct fields => .struct (fields.map fun x => (rnName S new x.1 x.2.1, x.2.1, Node.renameAt S new x.2.2))
  | .enum variants => .enum (variants.map fun x => (rnName S new x.1 x.2.1, x.2.1, Node.renameAtList S new x.2.2))

/-- `apply_renaming` on a toplevel (`variable_definition.rs:362-450`): every named thing whose
location is in `S`. (For a real rename `S` contains only variable / parameter / pattern locations.) -/
def Toplevel.renameAt (S : List Nat) (new : α) (t : Toplevel α) : Toplevel α :=
  { t with
    name := rnName S new t.name t.nameLoc
    tparams := t.tparams.map (TParam.renameAt S new)
    supers := t.supers.map fun s => (rnName S new s.1 s.2.1, s.2.1, Node.renameAtList S new s.2.2)
    typeDef := t.typeDef.renameAt S new
    members := t.members.map fun m => { Member.renameAt S new m with name := rnName S new m.name m.nameLoc } }

def Module.renameAt (S : List Nat) (new : α) (m : Module α) : Module α :=
  { imports := m.imports.map fun i => (rnName S new i.1 i.2, i.2)
    toplevels := m.toplevels.map (Toplevel.renameAt S new) }

theorem visitTypeDef_renameAt (S : List Nat) (new : α) (t : TypeDef α) :
    visitTypeDef (t.renameAt S new) = renameAt S new (visitTypeDef t) := by
  cases t with
  | none => simp [TypeDef.renameAt, visitTypeDef, renameAt]
  | struct fields =>
    simp [TypeDef.renameAt, visitTypeDef, renameAt, List.flatMap_map, List.map_flatMap, visit_renameAt,
      Function.comp_def, renameEv, rnName]
  | enum variants =>
    simp [TypeDef.renameAt, visitTypeDef, renameAt, List.flatMap_map, List.map_flatMap, visitList_renameAt,
      Function.comp_def, renameEv, rnName]

theorem visitMembers_renameAt (S : List Nat) (new : α) (t : Toplevel α) (b : Bool) :
    visitMembers (Toplevel.renameAt S new t) b = renameAt S new (visitMembers t b) := by
  simp only [visitMembers, Toplevel.renameAt, List.filter_map, List.flatMap_map, renameAt, List.map_flatMap]
  have hf : ((fun m : Member α => m.isMethod == b) ∘ fun m =>
      { Member.renameAt S new m with name := rnName S new m.name m.nameLoc }) = fun m : Member α => m.isMethod == b := by
    funext m; simp [Member.renameAt]
  rw [hf]
  apply flatMap_congr'
  intro m _
  have := visitMember_renameAt S new m
  simp only [renameAt] at this
  rw [← this]
  simp [visitMember, Member.renameAt]

/-- **toplevel-level renamer = event renamer**, provided the class declaration itself (the binder of
`this`) is not among the renamed locations — which `rewrite::rename` now guarantees (fix 69a554a). -/
theorem visitToplevel_renameAt (S : List Nat) (new this : α) (t : Toplevel α) (ht : t.loc ∉ S) :
    visitToplevel this (Toplevel.renameAt S new t) = renameAt S new (visitToplevel this t) := by
  have h1 := visitMembers_renameAt S new t true
  have h2 := visitMembers_renameAt S new t false
  simp only [visitToplevel, h1, h2]
  simp only [Toplevel.renameAt, visitTParams_renameAt, visitTypeDef_renameAt, renameAt_append, List.map_map,
    List.flatMap_map, Function.comp_def, visitList_renameAt]
  by_cases hc : t.isClass = true <;>
    simp [hc, renameAt, renameEv, ht, rnName, List.map_flatMap, Function.comp_def, TParam.renameAt, Member.renameAt]

/-- **module-level renamer = event renamer** -/
theorem visitModule_renameAt (S : List Nat) (new this : α) (m : Module α)
    (ht : ∀ t ∈ m.toplevels, t.loc ∉ S) :
    visitModule this (Module.renameAt S new m) = renameAt S new (visitModule this m) := by
  simp only [visitModule, Module.renameAt, renameAt_append, List.map_map, List.flatMap_map]
  congr 1
  · simp [renameAt, renameEv, rnName, Function.comp_def, Toplevel.renameAt]
  · simp only [renameAt, List.map_flatMap]
    apply flatMap_congr'
    intro t htm
    have := visitToplevel_renameAt S new this t (ht t htm)
    simpa [renameAt] using this

/-! ### renaming changes names only -/

mutual
theorem renameAt_erase (S : List Nat) (new : α) :
    ∀ n : Node α, Node.map (fun _ => ()) (Node.renameAt S new n) = Node.map (fun _ => ()) n
  | .mk tag name loc kids => by
    have hk := renameAtList_erase S new kids
    by_cases hS : loc ∈ S <;> cases name <;> simp [Node.renameAt, Node.map, hS, hk]
theorem renameAtList_erase (S : List Nat) (new : α) :
    ∀ ks : List (Node α),
      Node.mapList (fun _ => ()) (Node.renameAtList S new ks) = Node.mapList (fun _ => ()) ks
  | [] => by simp [Node.renameAtList, Node.mapList]
  | k :: ks => by
    simp [Node.renameAtList, Node.mapList, renameAt_erase S new k, renameAtList_erase S new ks]
end

theorem rinv_init (d : Nat) (old new : α) : RInv d old new (init : St α) :=
  ⟨by simp [init], by simp [init], by simp [init, ctxNames, names], by simp [init], by simp [init, CapInv]⟩

theorem rel_init (d : Nat) (new : α) : Rel d new (init : St α) init :=
  ⟨by simp [init, rnCtx], by simp [init, rnCtx], rfl, rfl, rfl, rfl, rfl, rfl, by simp [init], by simp [init]⟩

end SamVerif.Scope
