import SamVerif.Lemmas.Scope
/-!
The renamer of `variable_definition.rs` on the event view and on the tree view of a module, and
the simulation argument for `rename_preserves_resolution` (C15): renaming one binding and its uses
to a fresh name keeps every lookup of the scope machine at the same scope depth and location.
-/
namespace SamVerif.Scope

variable {α : Type} [DecidableEq α]

def Ev.loc : Ev α → Option Nat
  | .define _ l => some l
  | .use _ l _ => some l
  | _ => none

def Ev.name? : Ev α → Option α
  | .define n _ => some n
  | .use n _ _ => some n
  | _ => none

/-- one identifier occurrence under `apply_renaming`: it gets the new name iff its location is the
definition or one of its uses (`S`). -/
def renameEv (S : List Nat) (new : α) : Ev α → Ev α
  | .define n l => .define (if l ∈ S then new else n) l
  | .use n l ft => .use (if l ∈ S then new else n) l ft
  | ev => ev

/-- `apply_renaming` on the event view of a module. -/
def renameAt (S : List Nat) (new : α) (evs : List (Ev α)) : List (Ev α) := evs.map (renameEv S new)

mutual
/-- `apply_renaming` on the tree view (`apply_expr_renaming`, `apply_matching_pattern_renaming`,
…, variable_definition.rs:75-360): every named node whose location is in `S` gets the new name.
A struct-shorthand binder `{ f }` is the node `pId f` at the binder's location like any other
identifier pattern (the printer re-derives `shorthand` from "binder = field name", so after the
renaming it prints `f as new`). -/
def Node.renameAt (S : List Nat) (new : α) : Node α → Node α
  | .mk tag name loc kids =>
    .mk tag (if loc ∈ S then name.map (fun _ => new) else name) loc (Node.renameAtList S new kids)
def Node.renameAtList (S : List Nat) (new : α) : List (Node α) → List (Node α)
  | [] => []
  | k :: ks => Node.renameAt S new k :: Node.renameAtList S new ks
end

/-! ### entries, names, lookups -/

def names (s : List (α × Nat)) : List α := List.map Prod.fst s

def ctxNames (ls : List (Scope α)) : List α := names ls.flatten

theorem mem_names {s : List (α × Nat)} {n : α} : n ∈ names s ↔ ∃ l, (n, l) ∈ s := by
  simp [names]

theorem lookupKV_none_iff (n : α) (s : List (α × Nat)) : lookupKV n s = none ↔ n ∉ names s := by
  induction s with
  | nil => simp [lookupKV, names]
  | cons e s ih =>
    obtain ⟨k, v⟩ := e
    by_cases h : k = n
    · simp [lookupKV, h, names]
    · have h' : ¬ n = k := fun e => h e.symm
      simp only [lookupKV, h, if_false, ih]
      simp [names, h']

theorem previousDef_none_iff (n : α) (ls : List (Scope α)) :
    previousDef n ls = none ↔ n ∉ ctxNames ls := by
  induction ls with
  | nil => simp [previousDef, ctxNames, names]
  | cons s ls ih =>
    have hsplit : n ∈ ctxNames (s :: ls) ↔ n ∈ names s ∨ n ∈ ctxNames ls := by
      simp [ctxNames, names]
    rw [hsplit]
    simp only [previousDef]
    cases hp : previousDef n ls with
    | some l =>
      have : n ∈ ctxNames ls := by
        by_cases hc : n ∈ ctxNames ls
        · exact hc
        · rw [ih.mpr hc] at hp; cases hp
      simp [this]
    | none =>
      have := ih.mp hp
      simp [this, lookupKV_none_iff]

theorem lookupKV_mem {n : α} {s : List (α × Nat)} {l : Nat} (h : lookupKV n s = some l) : (n, l) ∈ s := by
  induction s with
  | nil => simp [lookupKV] at h
  | cons e s ih =>
    obtain ⟨k, v⟩ := e
    simp only [lookupKV] at h
    split at h
    · rename_i hk; cases h; simp [hk]
    · exact List.mem_cons_of_mem _ (ih h)

theorem lookupCtx_mem {n : α} {ls : List (Scope α)} {k l : Nat} (h : lookupCtx n ls = some (k, l)) :
    (n, l) ∈ ls.flatten := by
  induction ls generalizing k with
  | nil => simp [lookupCtx] at h
  | cons s ls ih =>
    simp only [lookupCtx] at h
    cases hs : lookupKV n s with
    | some l' =>
      simp only [hs, Option.some.injEq, Prod.mk.injEq] at h
      obtain ⟨_, rfl⟩ := h
      simp [lookupKV_mem hs]
    | none =>
      simp only [hs, Option.map_eq_some_iff] at h
      obtain ⟨⟨k', l'⟩, hr, he⟩ := h
      cases he
      simp [ih hr]

theorem names_unique {s : List (α × Nat)} (h : (names s).Nodup) {m : α} {l1 l2 : Nat}
    (h1 : (m, l1) ∈ s) (h2 : (m, l2) ∈ s) : l1 = l2 := by
  induction s with
  | nil => cases h1
  | cons e s ih =>
    simp only [names, List.map_cons, List.nodup_cons] at h
    rcases List.mem_cons.mp h1 with e1 | m1 <;> rcases List.mem_cons.mp h2 with e2 | m2
    · rw [← e1] at e2; cases e2; rfl
    · subst e1; exact absurd (List.mem_map_of_mem (f := Prod.fst) m2) h.1
    · subst e2; exact absurd (List.mem_map_of_mem (f := Prod.fst) m1) h.1
    · exact ih h.2 m1 m2

/-- lookups commute with any location-preserving relabelling of the entries that maps exactly the
entries named `n` to entries named `n'`. -/
theorem lookupKV_relabel (g : α × Nat → α × Nat) (hg : ∀ e, (g e).2 = e.2) (n n' : α) (s : List (α × Nat))
    (h : ∀ e ∈ s, ((g e).1 = n' ↔ e.1 = n)) : lookupKV n' (List.map g s) = lookupKV n s := by
  induction s with
  | nil => rfl
  | cons e s ih =>
    have he := h e (by simp)
    have ih' := ih (fun x hx => h x (by simp [hx]))
    obtain ⟨k, v⟩ := e
    have h2 := hg (k, v)
    cases hge : g (k, v) with
    | mk k' v' =>
      rw [hge] at he h2
      simp only at he h2
      subst h2
      simp only [List.map_cons, hge, lookupKV]
      by_cases hk : k = n
      · simp [hk, he.mpr hk]
      · have : k' ≠ n' := fun e' => hk (he.mp e')
        simp [hk, this, ih']

theorem lookupCtx_relabel (g : α × Nat → α × Nat) (hg : ∀ e, (g e).2 = e.2) (n n' : α)
    (ls : List (Scope α)) (h : ∀ e ∈ ls.flatten, ((g e).1 = n' ↔ e.1 = n)) :
    lookupCtx n' (ls.map (List.map g)) = lookupCtx n ls := by
  induction ls with
  | nil => rfl
  | cons s ls ih =>
    simp only [List.map_cons, lookupCtx]
    rw [lookupKV_relabel g hg n n' s (fun e he => h e (by simp [he])),
      ih (fun e he => h e (by simp only [List.flatten_cons, List.mem_append]; exact Or.inr he))]

theorem recordCapture_length (n : α) (l k : Nat) (cs : List (Scope α)) :
    (recordCapture n l k cs).length = cs.length := by
  induction k generalizing cs with
  | zero => simp [recordCapture]
  | succ k ih => cases cs <;> simp [recordCapture, ih]

end SamVerif.Scope
