import SamVerif.Model.PStr
/-! UTF-8 facts about Lean's own encoder (the Rust `&str` invariant) and raw-layout lemmas. -/
namespace SamVerif.PStr

theorem ofNat_toNat_lt (n k : Nat) (h : n % 256 < k) : (UInt8.ofNat n).toNat < k := by
  simpa [UInt8.toNat_ofNat'] using h

/-- Every byte of the UTF-8 encoding of a scalar value is below `0xF8`. -/
theorem utf8EncodeChar_lt (c : Char) : ∀ b ∈ String.utf8EncodeChar c, b.toNat < 248 := by
  intro b hb
  simp only [String.utf8EncodeChar] at hb
  generalize c.val.toNat = v at hb
  split at hb
  · simp only [List.mem_cons, List.not_mem_nil, or_false] at hb; subst hb; apply ofNat_toNat_lt; omega
  · split at hb
    · simp only [List.mem_cons, List.not_mem_nil, or_false] at hb
      rcases hb with rfl | rfl <;> apply ofNat_toNat_lt <;> omega
    · split at hb
      · simp only [List.mem_cons, List.not_mem_nil, or_false] at hb
        rcases hb with rfl | rfl | rfl <;> apply ofNat_toNat_lt <;> omega
      · simp only [List.mem_cons, List.not_mem_nil, or_false] at hb
        rcases hb with rfl | rfl | rfl | rfl <;> apply ofNat_toNat_lt <;> omega

/-- The bytes of a `String` (always valid UTF-8 in Lean, as `&str` is in Rust). -/
def bytesOf (s : String) : Bytes := s.toUTF8.data.toList

theorem bytesOf_eq (s : String) : bytesOf s = s.toList.flatMap String.utf8EncodeChar := by
  unfold bytesOf
  rw [String.toUTF8_eq_toByteArray, ← String.utf8Encode_toList, List.utf8Encode,
    List.toList_data_toByteArray]

/-- **No byte of a valid UTF-8 string is `0xF8..0xFF`.** -/
theorem bytesOf_lt (s : String) : ∀ b ∈ bytesOf s, b.toNat < 248 := by
  intro b hb
  rw [bytesOf_eq, List.mem_flatMap] at hb
  obtain ⟨c, _, hc⟩ := hb
  exact utf8EncodeChar_lt c b hc

theorem pad_length (s : Bytes) (h : s.length ≤ 15) : (pad s).length = 15 := by
  simp [pad]; omega

theorem pad_getD (s : Bytes) (i : Nat) : (pad s).getD i 0 = s.getD i 0 := by
  simp only [pad, List.getD_eq_getElem?_getD, List.getElem?_append]
  split
  · rfl
  · rename_i h
    have : s[i]? = none := by simp at h; simp [h]
    rw [this]
    by_cases hi : i - s.length < 15 - s.length
    · simp [List.getElem?_replicate, hi]
    · simp [List.getElem?_replicate, hi]



theorem topByte_rawInlineA (s : Bytes) : topByte (rawInlineA s) = s.getD 14 0 := by
  simp only [topByte, rawInlineA]
  rw [List.getD_cons_succ, pad_getD]

theorem topByte_rawInlineB (s : Bytes) (h : s.length ≤ 15) :
    topByte (rawInlineB s) = UInt8.ofNat s.length := by
  simp only [topByte, rawInlineB, List.getD_eq_getElem?_getD]
  rw [List.getElem?_append_right (by rw [pad_length s h]; exact Nat.le_refl _)]
  simp [pad_length s h]

theorem topByte_rawId (id : Nat) : topByte (rawId id) = 255 := by
  simp [topByte, rawId]



theorem ofNat_inj_small (a b : Nat) (ha : a < 256) (hb : b < 256) (h : UInt8.ofNat a = UInt8.ofNat b) : a = b := by
  have := congrArg UInt8.toNat h
  simp [UInt8.toNat_ofNat'] at this
  omega

theorem pad_take (s : Bytes) : (pad s).take s.length = s := by
  simp [pad]

theorem rawInlineA_inj (s t : Bytes) (hs : s.length ≤ 15) (ht : t.length ≤ 15)
    (h : rawInlineA s = rawInlineA t) : s = t := by
  simp only [rawInlineA, List.cons.injEq] at h
  have hl := ofNat_inj_small _ _ (by omega) (by omega) h.1
  have := congrArg (List.take s.length) h.2
  rw [pad_take, hl, pad_take] at this
  exact this

theorem rawInlineB_inj (s t : Bytes) (hs : s.length ≤ 15) (ht : t.length ≤ 15)
    (h : rawInlineB s = rawInlineB t) : s = t := by
  simp only [rawInlineB] at h
  have h1 := List.append_inj h (by rw [pad_length s hs, pad_length t ht])
  have h2 : UInt8.ofNat s.length = UInt8.ofNat t.length := by simpa using h1.2
  have hl := ofNat_inj_small s.length t.length (by omega) (by omega) h2
  have := congrArg (List.take s.length) h1.1
  rw [pad_take, hl, pad_take] at this
  exact this

theorem rawId_inj (i j : Nat) (hi : i < 2 ^ 32) (hj : j < 2 ^ 32) (h : rawId i = rawId j) : i = j := by
  simp only [rawId, List.cons_append, List.cons.injEq] at h
  obtain ⟨h0, h1, h2, h3, _⟩ := h
  have e0 := congrArg UInt8.toNat h0
  have e1 := congrArg UInt8.toNat h1
  have e2 := congrArg UInt8.toNat h2
  have e3 := congrArg UInt8.toNat h3
  simp only [UInt8.toNat_ofNat'] at e0 e1 e2 e3
  omega

end SamVerif.PStr
