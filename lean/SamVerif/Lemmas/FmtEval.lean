import SamVerif.Model.FmtEval
import SamVerif.Lemmas.FmtFull
/-! Lemmas about the evaluation semantics of the C08 fragment. -/
namespace SamVerif.Fmt

theorem wrap32_emod (v : Int) : wrap32 v % 4294967296 = v % 4294967296 := by
  unfold wrap32; split <;> omega

theorem wrap32_congr {a b : Int} (h : a % 4294967296 = b % 4294967296) : wrap32 a = wrap32 b := by
  unfold wrap32; rw [h]

theorem wrap32_add_assoc (x y z : Int) :
    wrap32 (x + wrap32 (y + z)) = wrap32 (wrap32 (x + y) + z) := by
  apply wrap32_congr
  have h1 := wrap32_emod (y + z)
  have h2 := wrap32_emod (x + y)
  omega

theorem wrap32_mul_assoc (x y z : Int) :
    wrap32 (x * wrap32 (y * z)) = wrap32 (wrap32 (x * y) * z) := by
  apply wrap32_congr
  rw [Int.mul_emod, wrap32_emod, ← Int.mul_emod]
  rw [Int.mul_emod (wrap32 (x * y)), wrap32_emod, ← Int.mul_emod]
  rw [Int.mul_assoc]

theorem toB_bool (b : Bool) : toB (.bool b) = b := rfl

def assocOp (o : BinOp) : Bool := o == .plus || o == .mul || o == .and || o == .or

/-- **Associativity of the four shortcut operators as computations** (values, traps, event order). -/
theorem evalBin_assoc (o : BinOp) (h : assocOp o = true) (x y z : M) :
    evalBin o x (evalBin o y z) = evalBin o (evalBin o x y) z := by
  obtain ⟨tx, vx⟩ := x
  obtain ⟨ty, vy⟩ := y
  obtain ⟨tz, vz⟩ := z
  cases o <;> simp [assocOp] at h
  · -- mul
    cases vx <;> cases vy <;> cases vz <;>
      simp [evalBin, bindM, applyOp, toI, List.append_assoc, wrap32_mul_assoc]
  · -- plus
    cases vx <;> cases vy <;> cases vz <;>
      simp [evalBin, bindM, applyOp, toI, List.append_assoc, wrap32_add_assoc]
  · -- and
    cases vx with
    | none => simp [evalBin, bindM]
    | some a =>
      cases hb : toB a <;> cases vy with
      | none => simp [evalBin, bindM, hb, pureM, toB_bool]
      | some b =>
        cases hc : toB b <;> cases vz <;>
          simp [evalBin, bindM, hb, hc, pureM, toB_bool, List.append_assoc]
  · -- or
    cases vx with
    | none => simp [evalBin, bindM]
    | some a =>
      cases hb : toB a <;> cases vy with
      | none => simp [evalBin, bindM, hb, pureM, toB_bool]
      | some b =>
        cases hc : toB b <;> cases vz <;>
          simp [evalBin, bindM, hb, hc, pureM, toB_bool, List.append_assoc]

end SamVerif.Fmt

namespace SamVerif.FmtFull
open SamVerif.Fmt (BinOp UOp Val M pureM bindM wrap32 toI toB toS applyOp evalBin assocOp evalBin_assoc)

theorem assocOp_of_shortcutOk {o : BinOp} {e : Expr} (h : shortcutOk o e = true) : assocOp o = true := by
  cases e <;> simp [shortcutOk] at h
  simp [assocOp, h.1.1]

mutual
/-- regrouping does not change the outcome (value, trap, order of observable events). -/
theorem eval_rg (I : Interp) : (e : Expr) →
    eval I (regroup e) = eval I e ∧
    ∀ o acc, shortcutOk o e = true → eval I (graftR o acc e) = evalBin o (eval I acc) (eval I e)
  | .atom a => ⟨by simp [regroup, rg, wrapCtx], fun o acc h => by simp [shortcutOk] at h⟩
  | .tuple e es => by
    refine ⟨?_, fun o acc h => by simp [shortcutOk] at h⟩
    have : regroup (.tuple e es) = .tuple (regroup e) (rgArgs es) := by simp [regroup, rg, wrapCtx]
    rw [this]; simp only [eval]; rw [(eval_rg I e).1, evalArgs_rg I es]
  | .block b => by
    refine ⟨?_, fun o acc h => by simp [shortcutOk] at h⟩
    have : regroup (.block b) = .block (rgBlk b) := by simp [regroup, rg, wrapCtx]
    rw [this]; simp only [eval]; rw [evalBlk_rg I b]
  | .post e p f => by
    refine ⟨?_, fun o acc h => by simp [shortcutOk] at h⟩
    have : regroup (.post e p f) = .post (regroup e) p f := by simp [regroup, rg, wrapCtx]
    rw [this]; simp only [eval]; rw [(eval_rg I e).1]
  | .call0 f => by
    refine ⟨?_, fun o acc h => by simp [shortcutOk] at h⟩
    have : regroup (.call0 f) = .call0 (regroup f) := by simp [regroup, rg, wrapCtx]
    rw [this]; simp only [eval]; rw [(eval_rg I f).1]
  | .call f args => by
    refine ⟨?_, fun o acc h => by simp [shortcutOk] at h⟩
    have : regroup (.call f args) = .call (regroup f) (rgArgs args) := by simp [regroup, rg, wrapCtx]
    rw [this]; simp only [eval]; rw [(eval_rg I f).1, evalArgs_rg I args]
  | .ifElse c t e => by
    refine ⟨?_, fun o acc h => by simp [shortcutOk] at h⟩
    have : regroup (.ifElse c t e) = .ifElse (regroup c) (rgBlk t) (rgBlk e) := by
      simp [regroup, rg, wrapCtx]
    rw [this]; simp only [eval]; rw [(eval_rg I c).1, evalBlk_rg I t, evalBlk_rg I e]
  | .matchE m cs => by
    refine ⟨?_, fun o acc h => by simp [shortcutOk] at h⟩
    have : regroup (.matchE m cs) = .matchE (regroup m) (rgCases cs) := by simp [regroup, rg, wrapCtx]
    rw [this]; simp only [eval]; rw [(eval_rg I m).1, evalCases_rg I cs]
  | .lambda k b => by
    refine ⟨?_, fun o acc h => by simp [shortcutOk] at h⟩
    have : regroup (.lambda k b) = .lambda k (regroup b) := by simp [regroup, rg, wrapCtx]
    rw [this]; simp only [eval]; rw [(eval_rg I b).1]
  | .unary u a => by
    refine ⟨?_, fun o acc h => by simp [shortcutOk] at h⟩
    have : regroup (.unary u a) = .unary u (regroup a) := by simp [regroup, rg, wrapCtx]
    rw [this]; cases u <;> simp only [eval] <;> rw [(eval_rg I a).1]
  | .binary o l r => by
    have ihl := eval_rg I l
    have ihr := eval_rg I r
    constructor
    · rw [regroup_binary]
      by_cases hs : usesShortcut o l r = true
      · simp only [hs, if_true]
        have hsc : shortcutOk o r = true := (shortcut_shape hs).2.2.2
        rw [ihr.2 o (regroup l) hsc, ihl.1]; simp only [eval]
      · simp only [hs, Bool.false_eq_true, if_false, eval]; rw [ihl.1, ihr.1]
    · intro o2 acc hsc
      have ha := assocOp_of_shortcutOk hsc
      obtain ⟨_, r1, r2, heq, _⟩ := shortcutOk_shape hsc
      cases heq
      rw [graftR_binary]
      by_cases hs : usesShortcut o l r = true
      · simp only [hs, if_true]
        have hsc2 : shortcutOk o r = true := (shortcut_shape hs).2.2.2
        rw [ihr.2 o _ hsc2]
        simp only [eval]
        rw [ihl.1, ← evalBin_assoc o ha]
      · simp only [hs, Bool.false_eq_true, if_false, eval]
        rw [ihl.1, ihr.1, ← evalBin_assoc o ha]
theorem evalArgs_rg (I : Interp) : (es : Args) → evalArgs I (rgArgs es) = evalArgs I es
  | .one e => by
    have : rgArgs (.one e) = .one (regroup e) := by simp [rgArgs, regroup]
    rw [this]; simp only [evalArgs]; rw [(eval_rg I e).1]
  | .cons e rest => by
    have : rgArgs (.cons e rest) = .cons (regroup e) (rgArgs rest) := by simp [rgArgs, regroup]
    rw [this]; simp only [evalArgs]; rw [(eval_rg I e).1, evalArgs_rg I rest]
theorem evalCases_rg (I : Interp) : (cs : Cases) → evalCases I (rgCases cs) = evalCases I cs
  | .one k b => by
    have : rgCases (.one k b) = .one k (regroup b) := by simp [rgCases, regroup]
    rw [this]; simp only [evalCases]; rw [(eval_rg I b).1]
  | .cons k b rest => by
    have : rgCases (.cons k b rest) = .cons k (regroup b) (rgCases rest) := by simp [rgCases, regroup]
    rw [this]; simp only [evalCases]; rw [(eval_rg I b).1, evalCases_rg I rest]
theorem evalBlk_rg (I : Interp) : (b : Blk) → evalBlk I (rgBlk b) = evalBlk I b
  | .fin ss e => by
    have : rgBlk (.fin ss e) = .fin (rgStmts ss) (regroup e) := by simp [rgBlk, regroup]
    rw [this]; simp only [evalBlk]; rw [(eval_rg I e).1, evalStmts_rg I ss]
  | .noFin ss => by
    have : rgBlk (.noFin ss) = .noFin (rgStmts ss) := by simp [rgBlk]
    rw [this]; simp only [evalBlk]; rw [evalStmts_rg I ss]
theorem evalStmts_rg (I : Interp) : (ss : Stmts) → ∀ k, evalStmts I (rgStmts ss) k = evalStmts I ss k
  | .nil, k => by simp [rgStmts]
  | .letS n e rest, k => by
    have : rgStmts (.letS n e rest) = .letS n (regroup e) (rgStmts rest) := by simp [rgStmts, regroup]
    rw [this]; simp only [evalStmts]; rw [(eval_rg I e).1]
    congr; funext v; congr; funext _; exact evalStmts_rg I rest k
  | .exprS e rest, k => by
    have : rgStmts (.exprS e rest) = .exprS (regroup e) (rgStmts rest) := by simp [rgStmts, regroup]
    rw [this]; simp only [evalStmts]; rw [(eval_rg I e).1]
    congr; funext _; exact evalStmts_rg I rest k
end

end SamVerif.FmtFull
