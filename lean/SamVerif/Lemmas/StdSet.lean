import SamVerif.Model.StdSet
import SamVerif.Lemmas.StdMap
/-! Lemmas about `Model/StdSet.lean`: invariants, `unsafeNode`/`create`/`balanced`, and the
specifications of every rebuilding operation (same plan as `Lemmas/StdMap.lean`/`StdMapOps.lean`). -/
namespace SamVerif.StdSet
set_option linter.unusedSectionVars false
variable {E : Type} [DecidableEq E] [LE E] [LT E] [Std.IsLinearOrder E] [Std.LawfulOrderLT E] [DecidableLT E]

@[simp] theorem height_empty : height (STree.empty : STree E) = 0 := rfl
@[simp] theorem height_leaf (v : E) : height (STree.leaf v) = 1 := rfl
@[simp] theorem height_node (h : Int) (v : E) (l r : STree E) : height (STree.node h v l r) = h := rfl

/-- stored heights are right, sibling heights differ by at most 2, a `Node` has height ≥ 2 -/
def Bal : STree E → Prop
  | .empty => True
  | .leaf _ => True
  | .node h _ l r =>
    Bal l ∧ Bal r ∧ h = Max.max (height l) (height r) + 1 ∧
      height l ≤ height r + 2 ∧ height r ≤ height l + 2 ∧ h ≥ 2

/-- `cmp` is a total order on elements, represented by an order embedding `rank` into `Int`. -/
structure Lawful (cmp : E → E → Int) : Prop where
  lt : ∀ a b, cmp a b < 0 ↔ a < b
  eq : ∀ a b, cmp a b = 0 ↔ a = b
  gt : ∀ a b, cmp a b > 0 ↔ b < a

def Ordered (t : STree E) : Prop := (abs t).Pairwise (fun a b => a < b)

theorem height_nonneg (t : STree E) (h : Bal t) : 0 ≤ height t := by
  cases t <;> simp_all [Bal] <;> oo

theorem height_zero (t : STree E) (h : Bal t) (h0 : height t = 0) : t = .empty := by
  cases t <;> simp_all [Bal] <;> oo

theorem height_one (t : STree E) (h : Bal t) (h0 : height t = 1) : ∃ v, t = .leaf v := by
  cases t <;> simp_all [Bal] <;> oo

theorem bal_node {h : Int} {v : E} {l r : STree E} (hb : Bal (.node h v l r)) :
    Bal l ∧ Bal r ∧ h = Max.max (height l) (height r) + 1 ∧ height l ≤ height r + 2 ∧
      height r ≤ height l + 2 ∧ 0 ≤ height l ∧ 0 ≤ height r := by
  simp only [Bal] at hb
  obtain ⟨bl, br, hh, d1, d2, _⟩ := hb
  exact ⟨bl, br, hh, d1, d2, height_nonneg l bl, height_nonneg r br⟩

theorem unsafeNode_spec (l r : STree E) (v : E) (hl : Bal l) (hr : Bal r)
    (h1 : height l ≤ height r + 2) (h2 : height r ≤ height l + 2) :
    Bal (unsafeNode l v r) ∧ abs (unsafeNode l v r) = abs l ++ v :: abs r ∧
      height (unsafeNode l v r) = Max.max (height l) (height r) + 1 := by
  cases l <;> cases r <;> simp_all [unsafeNode, Bal, abs] <;> (try split) <;> oo

theorem create_spec (l r : STree E) (v : E) (hl : Bal l) (hr : Bal r)
    (h1 : height l ≤ height r + 2) (h2 : height r ≤ height l + 2) (hne : height l ≥ 1 ∨ height r ≥ 1) :
    Bal (create l v r) ∧ abs (create l v r) = abs l ++ v :: abs r ∧
      height (create l v r) = Max.max (height l) (height r) + 1 := by
  have := height_nonneg l hl
  have := height_nonneg r hr
  by_cases hc : height l ≥ height r
  · simp [create, hc, Bal, abs, hl, hr]; oo
  · simp [create, hc, Bal, abs, hl, hr]; oo

theorem balanced_spec (l r : STree E) (v : E) (hl : Bal l) (hr : Bal r)
    (h1 : height l ≤ height r + 3) (h2 : height r ≤ height l + 3) :
    ∃ t, balanced l v r = some t ∧ Bal t ∧ abs t = abs l ++ v :: abs r ∧
      height t ≤ Max.max (height l) (height r) + 1 ∧ Max.max (height l) (height r) ≤ height t ∧
      (height l ≤ height r + 2 → height r ≤ height l + 2 → height t = Max.max (height l) (height r) + 1) := by
  have nl := height_nonneg l hl
  have nr := height_nonneg r hr
  by_cases c1 : height l > height r + 2
  · cases l with
    | empty => simp at c1; oo
    | leaf a => simp at c1; oo
    | node lh lv ll lr =>
      obtain ⟨bll, blr, hh, d1, d2, nll, nlr⟩ := bal_node hl
      simp only [height_node] at c1 h1 h2 nl ⊢
      by_cases c2 : height ll ≥ height lr
      · obtain ⟨b1, a1, e1⟩ := unsafeNode_spec lr r v blr hr (by oo) (by oo)
        obtain ⟨b2, a2, e2⟩ := create_spec ll (unsafeNode lr v r) lv bll b1 (by oo) (by oo) (by oo)
        refine ⟨_, by simp [balanced, c1, c2], b2, by simp [a2, a1, abs], ?_, ?_, ?_⟩ <;> oo
      · cases lr with
        | empty => simp at c2; oo
        | leaf a => simp at c2 hh; oo
        | node lrh lrv lrl lrr =>
          obtain ⟨blrl, blrr, hh2, d3, d4, n3, n4⟩ := bal_node blr
          simp only [height_node] at c2 hh d1 d2 nlr
          obtain ⟨b1, a1, e1⟩ := unsafeNode_spec ll lrl lv bll blrl (by oo) (by oo)
          obtain ⟨b3, a3, e3⟩ := unsafeNode_spec lrr r v blrr hr (by oo) (by oo)
          obtain ⟨b2, a2, e2⟩ := create_spec (unsafeNode ll lv lrl) (unsafeNode lrr v r) lrv b1 b3
            (by oo) (by oo) (by oo)
          refine ⟨_, by simp [balanced, c1, c2], b2, by simp [a2, a1, a3, abs], ?_, ?_, ?_⟩ <;> oo
  · by_cases c3 : height r > height l + 2
    · cases r with
      | empty => simp at c3; oo
      | leaf a => simp at c3; oo
      | node rh rv rl rr =>
        obtain ⟨brl, brr, hh, d1, d2, nrl, nrr⟩ := bal_node hr
        simp only [height_node] at c1 c3 h1 h2 nr ⊢
        by_cases c2 : height rr ≥ height rl
        · obtain ⟨b1, a1, e1⟩ := unsafeNode_spec l rl v hl brl (by oo) (by oo)
          obtain ⟨b2, a2, e2⟩ := create_spec (unsafeNode l v rl) rr rv b1 brr (by oo) (by oo) (by oo)
          refine ⟨_, by simp [balanced, c1, c3, c2], b2, by simp [a2, a1, abs], ?_, ?_, ?_⟩ <;> oo
        · cases rl with
          | empty => simp at c2; oo
          | leaf a => simp at c2 hh; oo
          | node rlh rlv rll rlr =>
            obtain ⟨brll, brlr, hh2, d3, d4, n3, n4⟩ := bal_node brl
            simp only [height_node] at c2 hh d1 d2 nrl
            obtain ⟨b1, a1, e1⟩ := unsafeNode_spec l rll v hl brll (by oo) (by oo)
            obtain ⟨b3, a3, e3⟩ := unsafeNode_spec rlr rr rv brlr brr (by oo) (by oo)
            obtain ⟨b2, a2, e2⟩ := create_spec (unsafeNode l v rll) (unsafeNode rlr rv rr) rlv b1 b3
              (by oo) (by oo) (by oo)
            refine ⟨_, by simp [balanced, c1, c3, c2], b2, by simp [a2, a1, a3, abs], ?_, ?_, ?_⟩ <;> oo
    · obtain ⟨b1, a1, e1⟩ := unsafeNode_spec l r v hl hr (by oo) (by oo)
      refine ⟨_, by simp [balanced, c1, c3], b1, a1, ?_, ?_, ?_⟩ <;> oo

macro "hfin" : tactic => `(tactic| (first | (simp; done) | (simp; oo) | oo))
macro "balfin" : tactic => `(tactic| (first | (simp [Bal]; done) | (simp [Bal]; oo)))

theorem ordered_node {h : Int} {v : E} {l r : STree E}
    (ho : Ordered (.node h v l r)) :
    Ordered l ∧ Ordered r ∧ (∀ p ∈ abs l, p < v) ∧ (∀ p ∈ abs r, v < p) := by
  simp only [Ordered, abs, List.pairwise_append, List.pairwise_cons] at ho
  obtain ⟨h1, ⟨h2, h3⟩, h4⟩ := ho
  exact ⟨h1, h3, fun p hp => h4 p hp v (by simp), h2⟩

theorem ordered_of_parts {v : E} {a b : List E}
    (ha : a.Pairwise (fun x y => x < y)) (hb : b.Pairwise (fun x y => x < y))
    (h1 : ∀ p ∈ a, p < v) (h2 : ∀ p ∈ b, v < p) :
    (a ++ v :: b).Pairwise (fun x y => x < y) := by
  simp only [List.pairwise_append, List.pairwise_cons]
  refine ⟨ha, ⟨h2, hb⟩, ?_⟩
  intro x hx y hy
  rcases List.mem_cons.1 hy with e | e
  · subst e; exact h1 x hx
  · have := h1 x hx; have := h2 y e; oo

theorem contains_spec {cmp : E → E → Int} (hc : Lawful cmp) (t : STree E)
    (ho : Ordered t) (x : E) : contains cmp t x = true ↔ x ∈ abs t := by
  induction t with
  | empty => simp [contains, abs]
  | leaf v =>
    have := hc.eq v x
    simp only [contains, abs, List.mem_singleton, decide_eq_true_eq]
    rw [this]; exact eq_comm
  | node h v l r ihl ihr =>
    obtain ⟨ol, or, bl, br⟩ := ordered_node ho
    have hlt := hc.lt x v; have heq := hc.eq x v; have hgt := hc.gt x v
    have il := ihl ol; have ir := ihr or
    simp only [contains, abs, List.mem_append, List.mem_cons, Bool.or_eq_true, decide_eq_true_eq]
    by_cases c0 : cmp x v = 0
    · have e := heq.1 c0
      subst e
      simp [c0]
    · have nq : x ≠ v := fun e => c0 (heq.2 e)
      by_cases c1 : cmp x v < 0
      · have lt := hlt.1 c1
        simp only [c0, c1, if_true, false_or, il]
        constructor
        · intro h1; exact Or.inl h1
        · rintro (h1 | h1 | h1)
          · exact h1
          · exact absurd h1 nq
          · have := br x h1; oo
      · have gt := hgt.1 (by oo)
        simp only [c0, c1, if_false, false_or, ir]
        constructor
        · intro h1; exact Or.inr (Or.inr h1)
        · rintro (h1 | h1 | h1)
          · have := bl x h1; oo
          · exact absurd h1 nq
          · exact h1

theorem insert_spec {cmp : E → E → Int} (hc : Lawful cmp) (t : STree E) (x : E)
    (hb : Bal t) (ho : Ordered t) :
    ∃ t', insert cmp t x = some t' ∧ Bal t' ∧ Ordered t' ∧
      (∀ p, p ∈ abs t' ↔ (p = x ∨ p ∈ abs t)) ∧
      height t ≤ height t' ∧ height t' ≤ height t + 1 := by
  induction t with
  | empty => exact ⟨.leaf x, rfl, by balfin, by simp [Ordered, abs], by simp [abs], by hfin, by hfin⟩
  | leaf v =>
    have hlt := hc.lt x v; have heq := hc.eq x v; have hgt := hc.gt x v
    simp only [insert]
    by_cases c0 : cmp x v = 0
    · have : x = v := heq.1 c0
      subst this
      exact ⟨.leaf x, by simp [c0], hb, ho, by simp [abs], by hfin, by hfin⟩
    · by_cases c1 : cmp x v < 0
      · refine ⟨.node 2 v (.leaf x) .empty, by simp [c0, c1, unsafeNode], by balfin, ?_, ?_, by hfin, by hfin⟩
        · simp [Ordered, abs]; exact hlt.1 c1
        · simp [abs]
      · refine ⟨.node 2 x (.leaf v) .empty, by simp [c0, c1, unsafeNode], by balfin, ?_, ?_, by hfin, by hfin⟩
        · simp [Ordered, abs]; exact hgt.1 (by oo)
        · simp [abs]; intro p; exact or_comm
  | node h v l r ihl ihr =>
    have hlt := hc.lt x v; have heq := hc.eq x v; have hgt := hc.gt x v
    obtain ⟨ol, or, bl, br⟩ := ordered_node ho
    obtain ⟨bll, brr, hh, d1, d2, nl, nr⟩ := bal_node hb
    simp only [insert]
    by_cases c0 : cmp x v = 0
    · have : x = v := heq.1 c0
      subst this
      refine ⟨.node h x l r, by simp [c0], hb, ho, ?_, by hfin, by hfin⟩
      intro p; simp only [abs, List.mem_append, List.mem_cons]
      constructor
      · intro h1; exact Or.inr h1
      · rintro (h1 | h1)
        · exact Or.inr (Or.inl h1)
        · exact h1
    · by_cases c1 : cmp x v < 0
      · obtain ⟨ll, e, b1, o1, m1, g1, g2⟩ := ihl bll ol
        obtain ⟨t', e2, b2, a2, g3, g4, g5⟩ := balanced_spec ll r v b1 brr (by oo) (by oo)
        have ord : (abs ll ++ v :: abs r).Pairwise (fun a b => a < b) := by
          apply ordered_of_parts o1 or _ br
          intro p hp
          rcases (m1 p).1 hp with hp | hp
          · subst hp; exact hlt.1 c1
          · exact bl p hp
        have mem : ∀ p, p ∈ abs ll ++ v :: abs r ↔ (p = x ∨ p ∈ abs l ++ v :: abs r) := by
          intro p
          have := m1 p
          simp only [List.mem_append, List.mem_cons]
          constructor
          · rintro (h1 | h1 | h1)
            · rcases this.1 h1 with h2 | h2
              · exact Or.inl h2
              · exact Or.inr (Or.inl h2)
            · exact Or.inr (Or.inr (Or.inl h1))
            · exact Or.inr (Or.inr (Or.inr h1))
          · rintro (h1 | h1 | h1 | h1)
            · exact Or.inl (this.2 (Or.inl h1))
            · exact Or.inl (this.2 (Or.inr h1))
            · exact Or.inr (Or.inl h1)
            · exact Or.inr (Or.inr h1)
        by_cases same : l = ll
        · subst same
          exact ⟨.node h v l r, by simp [c0, c1, e], hb, ho, by simpa [abs] using mem, by hfin, by hfin⟩
        · refine ⟨t', by simp [c0, c1, e, same, e2], b2, by simpa [Ordered, a2] using ord,
            by simpa [a2, abs] using mem, ?_, ?_⟩ <;> simp only [height_node] <;> oo
      · have c2 : cmp x v > 0 := by oo
        obtain ⟨rr, e, b1, o1, m1, g1, g2⟩ := ihr brr or
        obtain ⟨t', e2, b2, a2, g3, g4, g5⟩ := balanced_spec l rr v bll b1 (by oo) (by oo)
        have ord : (abs l ++ v :: abs rr).Pairwise (fun a b => a < b) := by
          apply ordered_of_parts ol o1 bl
          intro p hp
          rcases (m1 p).1 hp with hp | hp
          · subst hp; exact hgt.1 c2
          · exact br p hp
        have mem : ∀ p, p ∈ abs l ++ v :: abs rr ↔ (p = x ∨ p ∈ abs l ++ v :: abs r) := by
          intro p
          have := m1 p
          simp only [List.mem_append, List.mem_cons]
          constructor
          · rintro (h1 | h1 | h1)
            · exact Or.inr (Or.inl h1)
            · exact Or.inr (Or.inr (Or.inl h1))
            · rcases this.1 h1 with h2 | h2
              · exact Or.inl h2
              · exact Or.inr (Or.inr (Or.inr h2))
          · rintro (h1 | h1 | h1 | h1)
            · exact Or.inr (Or.inr (this.2 (Or.inl h1)))
            · exact Or.inl h1
            · exact Or.inr (Or.inl h1)
            · exact Or.inr (Or.inr (this.2 (Or.inr h1)))
        by_cases same : r = rr
        · subst same
          exact ⟨.node h v l r, by simp [c0, c1, e], hb, ho, by simpa [abs] using mem, by hfin, by hfin⟩
        · refine ⟨t', by simp [c0, c1, e, same, e2], b2, by simpa [Ordered, a2] using ord,
            by simpa [a2, abs] using mem, ?_, ?_⟩ <;> simp only [height_node] <;> oo

theorem addMinElement_spec (x : E) (t : STree E) (hb : Bal t) :
    ∃ t', addMinElement x t = some t' ∧ Bal t' ∧ abs t' = x :: abs t ∧
      height t ≤ height t' ∧ height t' ≤ height t + 1 := by
  induction t with
  | empty => exact ⟨.leaf x, rfl, by balfin, by simp [abs], by hfin, by hfin⟩
  | leaf v => exact ⟨.node 2 v (.leaf x) .empty, by simp [addMinElement, unsafeNode], by balfin, by simp [abs], by hfin, by hfin⟩
  | node h v l r ihl _ =>
    obtain ⟨bl, br, hh, d1, d2, nl, nr⟩ := bal_node hb
    obtain ⟨l', e, b1, a1, g1, g2⟩ := ihl bl
    obtain ⟨t', e2, b2, a2, g3, g4, g5⟩ := balanced_spec l' r v b1 br (by oo) (by oo)
    refine ⟨t', by simp [addMinElement, e, e2], b2, by simp [a2, a1, abs], ?_, ?_⟩ <;>
      (try simp only [height_node]) <;> oo

theorem addMaxElement_spec (x : E) (t : STree E) (hb : Bal t) :
    ∃ t', addMaxElement x t = some t' ∧ Bal t' ∧ abs t' = abs t ++ [x] ∧
      height t ≤ height t' ∧ height t' ≤ height t + 1 := by
  induction t with
  | empty => exact ⟨.leaf x, rfl, by balfin, by simp [abs], by hfin, by hfin⟩
  | leaf v => exact ⟨.node 2 v .empty (.leaf x), by simp [addMaxElement, unsafeNode], by balfin, by simp [abs], by hfin, by hfin⟩
  | node h v l r _ ihr =>
    obtain ⟨bl, br, hh, d1, d2, nl, nr⟩ := bal_node hb
    obtain ⟨r', e, b1, a1, g1, g2⟩ := ihr br
    obtain ⟨t', e2, b2, a2, g3, g4, g5⟩ := balanced_spec l r' v bl b1 (by oo) (by oo)
    refine ⟨t', by simp [addMaxElement, e, e2], b2, by simp [a2, a1, abs], ?_, ?_⟩ <;>
      (try simp only [height_node]) <;> oo

theorem join_spec (l r : STree E) (v : E) (hl : Bal l) (hr : Bal r) :
    ∃ t, join l v r = some t ∧ Bal t ∧ abs t = abs l ++ v :: abs r ∧
      Max.max (height l) (height r) ≤ height t ∧ height t ≤ Max.max (height l) (height r) + 1 := by
  fun_induction join l v r
  case case1 v r =>
    obtain ⟨t, e, b, a, g1, g2⟩ := addMinElement_spec v r hr
    have := height_nonneg r hr
    exact ⟨t, e, b, by simp [a, abs], by simp only [height_empty]; oo, by simp only [height_empty]; oo⟩
  case case2 a v =>
    obtain ⟨t, e, b, a, g1, g2⟩ := addMaxElement_spec v (.leaf a) hl
    exact ⟨t, e, b, by simp [a, abs], by simp only [height_empty, height_leaf] at *; oo,
      by simp only [height_empty, height_leaf] at *; oo⟩
  case case3 lh lv ll lr v =>
    obtain ⟨t, e, b, a, g1, g2⟩ := addMaxElement_spec v _ hl
    obtain ⟨_, _, hh, _, _, _, _⟩ := bal_node hl
    exact ⟨t, e, b, by simp [a, abs], by simp only [height_empty, height_node] at *; oo,
      by simp only [height_empty, height_node] at *; oo⟩
  case case4 a v c =>
    exact ⟨_, rfl, by simp [unsafeNode, Bal], by simp [unsafeNode, abs], by simp [unsafeNode], by simp [unsafeNode]⟩
  case case5 a v rh rv rl rr h x ih =>
    obtain ⟨brl, brr, hh, d1, d2, n1, n2⟩ := bal_node hr
    obtain ⟨t, e, _⟩ := ih hl brl
    rw [e] at x; cases x
  case case6 a v rh rv rl rr h t' x ih =>
    obtain ⟨brl, brr, hh, d1, d2, n1, n2⟩ := bal_node hr
    obtain ⟨t, e, b1, a1, g1, g2⟩ := ih hl brl
    rw [e] at x; cases x
    simp only [height_leaf] at g1 g2
    obtain ⟨t2, e2, b2, a2, g3, g4, g5⟩ := balanced_spec t' rr rv b1 brr (by oo) (by oo)
    refine ⟨t2, e2, b2, by simp [a2, a1, abs], ?_, ?_⟩ <;> simp only [height_leaf, height_node] <;> oo
  case case7 a v rh rv rl rr h =>
    obtain ⟨brl, brr, hh, d1, d2, n1, n2⟩ := bal_node hr
    obtain ⟨b1, a1, e1⟩ := create_spec (.leaf a) (.node rh rv rl rr) v hl hr
      (by simp only [height_leaf, height_node]; oo) (by simp only [height_leaf, height_node]; oo)
      (by simp)
    refine ⟨_, rfl, b1, a1, ?_, ?_⟩ <;> rw [e1] <;> oo
  case case8 lh lv ll lr v c h x ih =>
    obtain ⟨bll, blr, hh, d1, d2, n1, n2⟩ := bal_node hl
    obtain ⟨t, e, _⟩ := ih blr hr
    rw [e] at x; cases x
  case case9 lh lv ll lr v c h t' x ih =>
    obtain ⟨bll, blr, hh, d1, d2, n1, n2⟩ := bal_node hl
    obtain ⟨t, e, b1, a1, g1, g2⟩ := ih blr hr
    rw [e] at x; cases x
    simp only [height_leaf] at g1 g2
    obtain ⟨t2, e2, b2, a2, g3, g4, g5⟩ := balanced_spec ll t' lv bll b1 (by oo) (by oo)
    refine ⟨t2, e2, b2, by simp [a2, a1, abs], ?_, ?_⟩ <;> simp only [height_leaf, height_node] <;> oo
  case case10 lh lv ll lr v c h =>
    obtain ⟨bll, blr, hh, d1, d2, n1, n2⟩ := bal_node hl
    obtain ⟨b1, a1, e1⟩ := create_spec (.node lh lv ll lr) (.leaf c) v hl hr
      (by simp only [height_leaf, height_node]; oo) (by simp only [height_leaf, height_node]; oo)
      (by simp)
    refine ⟨_, rfl, b1, a1, ?_, ?_⟩ <;> rw [e1] <;> oo
  case case11 lh lv ll lr v rh rv rl rr h x ih =>
    obtain ⟨bll, blr, hh, d1, d2, n1, n2⟩ := bal_node hl
    obtain ⟨t, e, _⟩ := ih blr hr
    rw [e] at x; cases x
  case case12 lh lv ll lr v rh rv rl rr h t' x ih =>
    obtain ⟨bll, blr, hh, d1, d2, n1, n2⟩ := bal_node hl
    obtain ⟨brl, brr, hh', d1', d2', n1', n2'⟩ := bal_node hr
    obtain ⟨t, e, b1, a1, g1, g2⟩ := ih blr hr
    rw [e] at x; cases x
    simp only [height_node] at g1 g2
    obtain ⟨t2, e2, b2, a2, g3, g4, g5⟩ := balanced_spec ll t' lv bll b1 (by oo) (by oo)
    refine ⟨t2, e2, b2, by simp [a2, a1, abs], ?_, ?_⟩ <;> simp only [height_node] <;> oo
  case case13 lh lv ll lr v rh rv rl rr h1 h2 x ih =>
    obtain ⟨brl, brr, hh', d1', d2', n1', n2'⟩ := bal_node hr
    obtain ⟨t, e, _⟩ := ih hl brl
    rw [e] at x; cases x
  case case14 lh lv ll lr v rh rv rl rr h1 h2 t' x ih =>
    obtain ⟨bll, blr, hh, d1, d2, n1, n2⟩ := bal_node hl
    obtain ⟨brl, brr, hh', d1', d2', n1', n2'⟩ := bal_node hr
    obtain ⟨t, e, b1, a1, g1, g2⟩ := ih hl brl
    rw [e] at x; cases x
    simp only [height_node] at g1 g2
    obtain ⟨t2, e2, b2, a2, g3, g4, g5⟩ := balanced_spec t' rr rv b1 brr (by oo) (by oo)
    refine ⟨t2, e2, b2, by simp [a2, a1, abs], ?_, ?_⟩ <;> simp only [height_node] <;> oo
  case case15 lh lv ll lr v rh rv rl rr h1 h2 =>
    obtain ⟨bll, blr, hh, d1, d2, n1, n2⟩ := bal_node hl
    obtain ⟨b1, a1, e1⟩ := create_spec (.node lh lv ll lr) (.node rh rv rl rr) v hl hr
      (by simp only [height_node]; oo) (by simp only [height_node]; oo) (by simp only [height_node]; oo)
    refine ⟨_, rfl, b1, a1, ?_, ?_⟩ <;> rw [e1] <;> oo

theorem isEmpty_iff (t : STree E) : isEmpty t = true ↔ abs t = [] := by
  cases t <;> simp [isEmpty, abs]

theorem abs_ne_nil_of_not_isEmpty (t : STree E) (h : isEmpty t = false) : abs t ≠ [] := by
  cases t <;> simp_all [isEmpty, abs]

theorem min_refines (t : STree E) : min t = (abs t).head? := by
  induction t with
  | empty => rfl
  | leaf v => rfl
  | node h v l r ihl ihr =>
    simp only [min, abs]
    cases hl : l <;> simp_all [isEmpty, abs, List.head?_append]

theorem max_refines (t : STree E) : max t = (abs t).getLast? := by
  induction t with
  | empty => rfl
  | leaf v => rfl
  | node h v l r ihl ihr =>
    simp only [max, abs]
    cases hr : isEmpty r
    · have := abs_ne_nil_of_not_isEmpty r hr
      cases h' : abs r with
      | nil => exact absurd h' this
      | cons a as =>
        rw [ihr, h']
        simp [List.getLast?_append, List.getLast?_cons_cons, List.getLast?_cons]
    · have : abs r = [] := (isEmpty_iff r).1 hr
      simp [this]

theorem size_refines (t : STree E) : size t = ((abs t).length : Int) := by
  induction t with
  | empty => rfl
  | leaf v => rfl
  | node h v l r ihl ihr => simp [size, abs, ihl, ihr]; oo

theorem elements_refines (t : STree E) : elements t = abs t := by
  have h : ∀ (t : STree E) (acc : List E), elementsHelper t acc = abs t ++ acc := by
    intro t
    induction t with
    | empty => intro acc; rfl
    | leaf v => intro acc; rfl
    | node h v l r ihl ihr => intro acc; simp [elementsHelper, abs, ihl, ihr]
  simp [elements, h]

theorem fold_refines {A : Type} (f : A → E → A) (t : STree E) (a : A) :
    fold f t a = (abs t).foldl f a := by
  induction t generalizing a with
  | empty => rfl
  | leaf v => rfl
  | node h v l r ihl ihr => simp [fold, abs, ihl, ihr]

theorem forAll_refines (f : E → Bool) (t : STree E) : forAll f t = (abs t).all f := by
  induction t with
  | empty => rfl
  | leaf v => simp [forAll, abs]
  | node h v l r ihl ihr =>
    simp [forAll, abs, ihl, ihr, List.all_append]
    cases f v <;> simp [Bool.and_comm]

theorem exists_refines (f : E → Bool) (t : STree E) : «exists» f t = (abs t).any f := by
  induction t with
  | empty => simp [«exists», abs]
  | leaf v => simp [«exists», abs]
  | node h v l r ihl ihr =>
    simp [«exists», abs, ihl, ihr, List.any_append]
    cases f v <;> simp [Bool.or_comm]

theorem removeMin_spec (t : STree E) (hb : Bal t) (hne : abs t ≠ []) :
    ∃ t', removeMin t = some t' ∧ Bal t' ∧ abs t' = (abs t).tail ∧
      height t - 1 ≤ height t' ∧ height t' ≤ height t := by
  induction t with
  | empty => simp [abs] at hne
  | leaf v => exact ⟨.empty, rfl, by simp [Bal], by simp [abs], by simp, by simp⟩
  | node h v l r ihl _ =>
    obtain ⟨bl, br, hh, d1, d2, nl, nr⟩ := bal_node hb
    cases l with
    | empty =>
      simp only [height_empty] at *
      exact ⟨r, by simp [removeMin], br, by simp [abs], by simp only [height_node]; oo, by simp only [height_node]; oo⟩
    | leaf a =>
      simp only [height_leaf] at *
      obtain ⟨t', e2, b2, a2, g3, g4, g5⟩ := balanced_spec .empty r v (by simp [Bal]) br
        (by simp only [height_empty]; oo) (by simp only [height_empty]; oo)
      simp only [height_empty] at *
      exact ⟨t', by simp [removeMin, e2], b2, by simp [a2, abs], by simp only [height_node]; oo, by simp only [height_node]; oo⟩
    | node h' v' l' r' =>
      have ne : abs (STree.node h' v' l' r') ≠ [] := by simp [abs]
      obtain ⟨l2, e, b1, a1, g1, g2⟩ := ihl bl ne
      simp only [height_node] at *
      obtain ⟨t', e2, b2, a2, g3, g4, g5⟩ := balanced_spec l2 r v b1 br (by oo) (by oo)
      refine ⟨t', by rw [removeMin]; simp only [e]; exact e2, b2, ?_, by oo, by oo⟩
      rw [a2, a1]
      rw [show abs (STree.node h v (STree.node h' v' l' r') r) =
        abs (STree.node h' v' l' r') ++ v :: abs r from rfl]
      cases hx : abs (STree.node h' v' l' r') with
      | nil => exact absurd hx ne
      | cons x xs => simp

theorem min_tail (t : STree E) (hb : Bal t) (hne : abs t ≠ []) :
    ∃ m t', min t = some m ∧ removeMin t = some t' ∧ Bal t' ∧ abs t = m :: abs t' ∧
      height t - 1 ≤ height t' ∧ height t' ≤ height t := by
  obtain ⟨t', e, b, a, g1, g2⟩ := removeMin_spec t hb hne
  cases hx : abs t with
  | nil => exact absurd hx hne
  | cons m tl =>
    refine ⟨m, t', by rw [min_refines, hx]; rfl, e, b, ?_, g1, g2⟩
    rw [a, hx]; rfl

theorem concat_spec (t1 t2 : STree E) (h1 : Bal t1) (h2 : Bal t2) :
    ∃ t, concat t1 t2 = some t ∧ Bal t ∧ abs t = abs t1 ++ abs t2 := by
  cases t1 with
  | empty => exact ⟨t2, by cases t2 <;> simp [concat], h2, by simp [abs]⟩
  | leaf a =>
    cases t2 with
    | empty => exact ⟨_, by simp [concat], h1, by simp [abs]⟩
    | leaf c =>
      obtain ⟨m, t2', em, er, b1, a1, _⟩ := min_tail (.leaf c) h2 (by simp [abs])
      obtain ⟨t, e2, b2, a2, _⟩ := join_spec (.leaf a) t2' m h1 b1
      exact ⟨t, by simp [concat, em, er, e2], b2, by rw [a2, a1]⟩
    | node h v l r =>
      obtain ⟨m, t2', em, er, b1, a1, _⟩ := min_tail (.node h v l r) h2 (by simp [abs])
      obtain ⟨t, e2, b2, a2, _⟩ := join_spec (.leaf a) t2' m h1 b1
      exact ⟨t, by simp [concat, em, er, e2], b2, by rw [a2, a1]⟩
  | node h' v' l' r' =>
    cases t2 with
    | empty => exact ⟨_, by simp [concat], h1, by simp [abs]⟩
    | leaf c =>
      obtain ⟨m, t2', em, er, b1, a1, _⟩ := min_tail (.leaf c) h2 (by simp [abs])
      obtain ⟨t, e2, b2, a2, _⟩ := join_spec (.node h' v' l' r') t2' m h1 b1
      exact ⟨t, by simp [concat, em, er, e2], b2, by rw [a2, a1]⟩
    | node h v l r =>
      obtain ⟨m, t2', em, er, b1, a1, _⟩ := min_tail (.node h v l r) h2 (by simp [abs])
      obtain ⟨t, e2, b2, a2, _⟩ := join_spec (.node h' v' l' r') t2' m h1 b1
      exact ⟨t, by simp [concat, em, er, e2], b2, by rw [a2, a1]⟩

theorem internalMerge_spec (t1 t2 : STree E) (h1 : Bal t1) (h2 : Bal t2)
    (d1 : height t1 ≤ height t2 + 2) (d2 : height t2 ≤ height t1 + 2) :
    ∃ t, internalMerge t1 t2 = some t ∧ Bal t ∧ abs t = abs t1 ++ abs t2 ∧
      Max.max (height t1) (height t2) ≤ height t ∧ height t ≤ Max.max (height t1) (height t2) + 1 := by
  have n1 := height_nonneg t1 h1
  have n2 := height_nonneg t2 h2
  by_cases e1 : t1 = .empty
  · subst e1
    exact ⟨t2, by simp [internalMerge], h2, by simp [abs], by simp only [height_empty]; oo, by simp only [height_empty]; oo⟩
  by_cases e2 : t2 = .empty
  · subst e2
    exact ⟨t1, by cases t1 <;> simp_all [internalMerge], h1, by simp [abs], by simp only [height_empty]; oo, by simp only [height_empty]; oo⟩
  have ne2 : abs t2 ≠ [] := by cases t2 <;> simp_all [abs]
  obtain ⟨m, t2', em, er, b1, a1, g1, g2⟩ := min_tail t2 h2 ne2
  obtain ⟨t, e3, b3, a3, g3, g4, g5⟩ := balanced_spec t1 t2' m h1 b1 (by oo) (by oo)
  have p1 : 1 ≤ height t1 := by
    cases t1 with
    | empty => exact absurd rfl e1
    | leaf a => simp
    | node h v l r => have := (bal_node h1); simp only [height_node]; oo
  refine ⟨t, ?_, b3, by rw [a3, a1], by oo, by oo⟩
  cases t1 <;> cases t2 <;> simp_all [internalMerge]

theorem pairwise_drop_mid {R : E → E → Prop} {a b : List E} {x : E}
    (h : (a ++ x :: b).Pairwise R) : (a ++ b).Pairwise R :=
  h.sublist (List.Sublist.append (List.Sublist.refl a) (List.sublist_cons_self x b))

theorem remove_spec {cmp : E → E → Int} (hc : Lawful cmp) (t : STree E) (x : E)
    (hb : Bal t) (ho : Ordered t) :
    ∃ t', remove cmp t x = some t' ∧ Bal t' ∧ Ordered t' ∧
      (∀ p, p ∈ abs t' ↔ (p ∈ abs t ∧ p ≠ x)) ∧
      height t - 1 ≤ height t' ∧ height t' ≤ height t := by
  induction t with
  | empty => exact ⟨.empty, rfl, hb, ho, by simp [abs], by hfin, by hfin⟩
  | leaf v =>
    have heq := hc.eq x v
    simp only [remove]
    by_cases c0 : cmp x v = 0
    · have : x = v := heq.1 c0
      subst this
      exact ⟨.empty, by simp [c0], by simp [Bal], by simp [Ordered, abs], by simp [abs], by hfin, by hfin⟩
    · have nk : v ≠ x := fun e => c0 (heq.2 e.symm)
      refine ⟨.leaf v, by simp [c0], hb, ho, ?_, by hfin, by hfin⟩
      intro p; simp only [abs, List.mem_singleton]
      constructor
      · intro e; subst e; exact ⟨rfl, nk⟩
      · exact fun h => h.1
  | node h v l r ihl ihr =>
    have hlt := hc.lt x v; have heq := hc.eq x v; have hgt := hc.gt x v
    obtain ⟨ol, or, bl, br⟩ := ordered_node ho
    obtain ⟨bll, brr, hh, d1, d2, nl, nr⟩ := bal_node hb
    simp only [remove]
    by_cases c0 : cmp x v = 0
    · have : x = v := heq.1 c0
      subst this
      obtain ⟨t', e, b1, a1, g1, g2⟩ := internalMerge_spec l r bll brr d1 d2
      refine ⟨t', by simp [c0, e], b1, ?_, ?_, by simp only [height_node]; oo, by simp only [height_node]; oo⟩
      · simp only [Ordered, a1]; exact pairwise_drop_mid ho
      · intro p
        rw [a1]
        simp only [abs, List.mem_append, List.mem_cons]
        constructor
        · rintro (h1 | h1)
          · exact ⟨Or.inl h1, fun e => by have := bl p h1; rw [e] at this; oo⟩
          · exact ⟨Or.inr (Or.inr h1), fun e => by have := br p h1; rw [e] at this; oo⟩
        · rintro ⟨h1 | h1 | h1, ne⟩
          · exact Or.inl h1
          · exact absurd h1 ne
          · exact Or.inr h1
    · by_cases c1 : cmp x v < 0
      · obtain ⟨ll, e, b1, o1, m1, g1, g2⟩ := ihl bll ol
        obtain ⟨t', e2, b2, a2, g3, g4, g5⟩ := balanced_spec ll r v b1 brr (by oo) (by oo)
        have ord : (abs ll ++ v :: abs r).Pairwise (fun a b => a < b) :=
          ordered_of_parts o1 or (fun p hp => bl p ((m1 p).1 hp).1) br
        have nk : v ≠ x := by intro e; subst e; grind
        have lt := hlt.1 c1
        have mem : ∀ p, p ∈ abs ll ++ v :: abs r ↔ (p ∈ abs l ++ v :: abs r ∧ p ≠ x) := by
          intro p
          have := m1 p
          simp only [List.mem_append, List.mem_cons]
          constructor
          · rintro (h1 | h1 | h1)
            · exact ⟨Or.inl (this.1 h1).1, (this.1 h1).2⟩
            · subst h1; exact ⟨Or.inr (Or.inl rfl), nk⟩
            · exact ⟨Or.inr (Or.inr h1), fun e => by have := br p h1; rw [e] at this; oo⟩
          · rintro ⟨h1 | h1 | h1, ne⟩
            · exact Or.inl (this.2 ⟨h1, ne⟩)
            · exact Or.inr (Or.inl h1)
            · exact Or.inr (Or.inr h1)
        by_cases same : l = ll
        · subst same
          exact ⟨.node h v l r, by simp [c0, c1, e], hb, ho, by simpa [abs] using mem, by simp only [height_node]; oo, by hfin⟩
        · refine ⟨t', by simp [c0, c1, e, same, e2], b2, by simpa [Ordered, a2] using ord,
            by simpa [a2, abs] using mem, ?_, ?_⟩ <;> simp only [height_node] <;> oo
      · have c2 : cmp x v > 0 := by oo
        obtain ⟨rr, e, b1, o1, m1, g1, g2⟩ := ihr brr or
        obtain ⟨t', e2, b2, a2, g3, g4, g5⟩ := balanced_spec l rr v bll b1 (by oo) (by oo)
        have ord : (abs l ++ v :: abs rr).Pairwise (fun a b => a < b) :=
          ordered_of_parts ol o1 bl (fun p hp => br p ((m1 p).1 hp).1)
        have nk : v ≠ x := by intro e; subst e; grind
        have gt := hgt.1 c2
        have mem : ∀ p, p ∈ abs l ++ v :: abs rr ↔ (p ∈ abs l ++ v :: abs r ∧ p ≠ x) := by
          intro p
          have := m1 p
          simp only [List.mem_append, List.mem_cons]
          constructor
          · rintro (h1 | h1 | h1)
            · exact ⟨Or.inl h1, fun e => by have := bl p h1; rw [e] at this; oo⟩
            · subst h1; exact ⟨Or.inr (Or.inl rfl), nk⟩
            · exact ⟨Or.inr (Or.inr (this.1 h1).1), (this.1 h1).2⟩
          · rintro ⟨h1 | h1 | h1, ne⟩
            · exact Or.inl h1
            · exact Or.inr (Or.inl h1)
            · exact Or.inr (Or.inr (this.2 ⟨h1, ne⟩))
        by_cases same : r = rr
        · subst same
          exact ⟨.node h v l r, by simp [c0, c1, e], hb, ho, by simpa [abs] using mem, by simp only [height_node]; oo, by hfin⟩
        · refine ⟨t', by simp [c0, c1, e, same, e2], b2, by simpa [Ordered, a2] using ord,
            by simpa [a2, abs] using mem, ?_, ?_⟩ <;> simp only [height_node] <;> oo

/-- the element found by `split`, as a list -/
def midList (key : E) (pres : Bool) : List E := if pres then [key] else []

theorem split_spec {cmp : E → E → Int} (hc : Lawful cmp) (t : STree E) (key : E)
    (hb : Bal t) (ho : Ordered t) :
    ∃ l pres r, split cmp t key = some (l, pres, r) ∧ Bal l ∧ Bal r ∧
      abs t = abs l ++ midList key pres ++ abs r ∧
      (∀ p ∈ abs l, p < key) ∧ (∀ p ∈ abs r, key < p) := by
  induction t with
  | empty => exact ⟨.empty, false, .empty, rfl, hb, hb, by simp [abs, midList], by simp [abs], by simp [abs]⟩
  | leaf v =>
    have hlt := hc.lt key v; have heq := hc.eq key v; have hgt := hc.gt key v
    simp only [split]
    by_cases c0 : cmp key v = 0
    · have : key = v := heq.1 c0
      subst this
      exact ⟨.empty, true, .empty, by simp [c0], by simp [Bal], by simp [Bal], by simp [abs, midList],
        by simp [abs], by simp [abs]⟩
    · by_cases c1 : cmp key v < 0
      · exact ⟨.empty, false, .leaf v, by simp [c0, c1], by simp [Bal], hb, by simp [abs, midList],
          by simp [abs], by simp [abs]; exact hlt.1 c1⟩
      · exact ⟨.leaf v, false, .empty, by simp [c0, c1], hb, by simp [Bal], by simp [abs, midList],
          by simp [abs]; exact hgt.1 (by oo), by simp [abs]⟩
  | node h v l r ihl ihr =>
    have hlt := hc.lt key v; have heq := hc.eq key v; have hgt := hc.gt key v
    obtain ⟨ol, or, bl, br⟩ := ordered_node ho
    obtain ⟨bll, brr, hh, d1, d2, nl, nr⟩ := bal_node hb
    simp only [split]
    by_cases c0 : cmp key v = 0
    · have : key = v := heq.1 c0
      subst this
      exact ⟨l, true, r, by simp [c0], bll, brr, by simp [abs, midList], bl, br⟩
    · by_cases c1 : cmp key v < 0
      · obtain ⟨ll, pres, rl, e, b1, b2, a1, g1, g2⟩ := ihl bll ol
        obtain ⟨t2, e2, b3, a3, _⟩ := join_spec rl r v b2 brr
        have lt := hlt.1 c1
        refine ⟨ll, pres, t2, by simp [c0, c1, e, e2], b1, b3, by simp [abs, a1, a3], g1, ?_⟩
        intro p hp
        rw [a3] at hp
        simp only [List.mem_append, List.mem_cons] at hp
        rcases hp with h1 | h1 | h1
        · exact g2 p h1
        · subst h1; exact lt
        · have := br p h1; oo
      · have gt := hgt.1 (by oo)
        obtain ⟨lr, pres, rr, e, b1, b2, a1, g1, g2⟩ := ihr brr or
        obtain ⟨t2, e2, b3, a3, _⟩ := join_spec l lr v bll b1
        refine ⟨t2, pres, rr, by simp [c0, c1, e, e2], b3, b2, by simp [abs, a1, a3], ?_, g2⟩
        intro p hp
        rw [a3] at hp
        simp only [List.mem_append, List.mem_cons] at hp
        rcases hp with h1 | h1 | h1
        · have := bl p h1; oo
        · subst h1; exact gt
        · exact g1 p h1

theorem filter_spec (f : E → Bool) (t : STree E) (hb : Bal t) :
    ∃ t', filter f t = some t' ∧ Bal t' ∧ abs t' = (abs t).filter f := by
  induction t with
  | empty => exact ⟨.empty, rfl, hb, by simp [abs]⟩
  | leaf v =>
    simp only [filter]
    by_cases c : f v = true
    · exact ⟨.leaf v, by simp [c], hb, by simp [abs, c]⟩
    · exact ⟨.empty, by simp [c], by simp [Bal], by simp [abs, c]⟩
  | node h v l r ihl ihr =>
    obtain ⟨bll, brr, _⟩ := bal_node hb
    obtain ⟨newL, e1, b1, a1⟩ := ihl bll
    obtain ⟨newR, e2, b2, a2⟩ := ihr brr
    simp only [filter, e1, e2]
    by_cases c : f v = true
    · by_cases same : l = newL ∧ r = newR
      · obtain ⟨s1, s2⟩ := same
        subst s1; subst s2
        refine ⟨.node h v l r, by simp [c], hb, ?_⟩
        simp only [abs, List.filter_append, List.filter_cons, c, if_true, ← a1, ← a2]
      · obtain ⟨t', e3, b3, a3, _⟩ := join_spec newL newR v b1 b2
        exact ⟨t', by simp [c, same, e3], b3, by simp [a3, abs, a1, a2, c]⟩
    · obtain ⟨t', e3, b3, a3⟩ := concat_spec newL newR b1 b2
      exact ⟨t', by simp [c, e3], b3, by simp [a3, abs, a1, a2, c]⟩

theorem partition_spec (f : E → Bool) (t : STree E) (hb : Bal t) :
    ∃ a b, partition f t = some (a, b) ∧ Bal a ∧ Bal b ∧
      abs a = (abs t).filter f ∧ abs b = (abs t).filter (fun p => !f p) := by
  induction t with
  | empty => exact ⟨.empty, .empty, rfl, hb, hb, by simp [abs], by simp [abs]⟩
  | leaf v =>
    simp only [partition]
    by_cases c : f v = true
    · exact ⟨.leaf v, .empty, by simp [c], hb, by simp [Bal], by simp [abs, c], by simp [abs, c]⟩
    · exact ⟨.empty, .leaf v, by simp [c], by simp [Bal], hb, by simp [abs, c], by simp [abs, c]⟩
  | node h v l r ihl ihr =>
    obtain ⟨bll, brr, _⟩ := bal_node hb
    obtain ⟨lt, lf, e1, b1, b1', a1, a1'⟩ := ihl bll
    obtain ⟨rt, rf, e2, b2, b2', a2, a2'⟩ := ihr brr
    simp only [partition, e1, e2]
    by_cases c : f v = true
    · obtain ⟨x, e3, b3, a3, _⟩ := join_spec lt rt v b1 b2
      obtain ⟨y, e4, b4, a4⟩ := concat_spec lf rf b1' b2'
      exact ⟨x, y, by simp [c, e3, e4], b3, b4, by simp [a3, abs, a1, a2, c], by simp [a4, abs, a1', a2', c]⟩
    · obtain ⟨x, e3, b3, a3⟩ := concat_spec lt rt b1 b2
      obtain ⟨y, e4, b4, a4, _⟩ := join_spec lf rf v b1' b2'
      exact ⟨x, y, by simp [c, e3, e4], b3, b4, by simp [a3, abs, a1, a2, c], by simp [a4, abs, a1', a2', c]⟩

/-- representation invariant -/
def Inv (t : STree E) : Prop := Bal t ∧ Ordered t

theorem split_inv {cmp : E → E → Int} (hc : Lawful cmp) (t : STree E) (key : E)
    (hi : Inv t) :
    ∃ l pres r, split cmp t key = some (l, pres, r) ∧ Inv l ∧ Inv r ∧
      (∀ p, p ∈ abs t ↔ (p ∈ abs l ∨ (pres = true ∧ p = key) ∨ p ∈ abs r)) ∧
      (∀ p ∈ abs l, p < key) ∧ (∀ p ∈ abs r, key < p) := by
  obtain ⟨l, pres, r, e, b1, b2, a, g1, g2⟩ := split_spec hc t key hi.1 hi.2
  have ho := hi.2
  simp only [Ordered, a] at ho
  have o1 : Ordered l := (List.pairwise_append.1 (List.pairwise_append.1 ho).1).1
  have o2 : Ordered r := (List.pairwise_append.1 ho).2.1
  refine ⟨l, pres, r, e, ⟨b1, o1⟩, ⟨b2, o2⟩, ?_, g1, g2⟩
  intro p
  rw [a]
  cases pres <;> simp [midList]

theorem inv_join (a c : STree E) (v : E) (ha : Inv a) (hc' : Inv c)
    (h1 : ∀ p ∈ abs a, p < v) (h2 : ∀ p ∈ abs c, v < p) :
    ∃ t, join a v c = some t ∧ Inv t ∧ ∀ p, p ∈ abs t ↔ (p ∈ abs a ∨ p = v ∨ p ∈ abs c) := by
  obtain ⟨t, e, b, ab, _⟩ := join_spec a c v ha.1 hc'.1
  refine ⟨t, e, ⟨b, ?_⟩, ?_⟩
  · simp only [Ordered, ab]; exact ordered_of_parts ha.2 hc'.2 h1 h2
  · intro p; rw [ab]; simp

theorem inv_concat (a c : STree E) (ha : Inv a) (hc' : Inv c)
    (h : ∀ p ∈ abs a, ∀ q ∈ abs c, p < q) :
    ∃ t, concat a c = some t ∧ Inv t ∧ ∀ p, p ∈ abs t ↔ (p ∈ abs a ∨ p ∈ abs c) := by
  obtain ⟨t, e, b, ab⟩ := concat_spec a c ha.1 hc'.1
  refine ⟨t, e, ⟨b, ?_⟩, ?_⟩
  · simp only [Ordered, ab, List.pairwise_append]; exact ⟨ha.2, hc'.2, h⟩
  · intro p; rw [ab]; simp

theorem inv_node {h : Int} {v : E} {l r : STree E} (hi : Inv (.node h v l r)) :
    Inv l ∧ Inv r ∧ (∀ p ∈ abs l, p < v) ∧ (∀ p ∈ abs r, v < p) := by
  obtain ⟨ol, or, bl, br⟩ := ordered_node hi.2
  obtain ⟨bll, brr, _⟩ := bal_node hi.1
  exact ⟨⟨bll, ol⟩, ⟨brr, or⟩, bl, br⟩

theorem intersection_spec {cmp : E → E → Int} (hc : Lawful cmp) (a : STree E) :
    ∀ (b : STree E), Inv a → Inv b →
    ∃ t, intersection cmp a b = some t ∧ Inv t ∧ ∀ p, p ∈ abs t ↔ (p ∈ abs a ∧ p ∈ abs b) := by
  induction a with
  | empty => intro b _ _; exact ⟨.empty, rfl, ⟨by simp [Bal], by simp [Ordered, abs]⟩, by simp [abs]⟩
  | leaf v =>
    intro b ha hb
    have cs := contains_spec hc b hb.2 v
    by_cases e : b = .empty
    · subst e; exact ⟨.empty, rfl, ⟨by simp [Bal], by simp [Ordered, abs]⟩, by simp [abs]⟩
    · by_cases c : contains cmp b v = true
      · refine ⟨.leaf v, by cases b <;> simp_all [intersection], ha, ?_⟩
        intro p; simp only [abs, List.mem_singleton]
        constructor
        · intro h; subst h; exact ⟨rfl, cs.1 c⟩
        · exact fun h => h.1
      · refine ⟨.empty, by cases b <;> simp_all [intersection], ⟨by simp [Bal], by simp [Ordered, abs]⟩, ?_⟩
        intro p; simp only [abs, List.mem_singleton, List.not_mem_nil, false_iff]
        rintro ⟨h1, h2⟩; subst h1; exact c (cs.2 h2)
  | node h v l r ihl ihr =>
    intro b ha hb
    by_cases e : b = .empty
    · subst e; exact ⟨.empty, rfl, ⟨by simp [Bal], by simp [Ordered, abs]⟩, by simp [abs]⟩
    obtain ⟨il, ir, bl, br⟩ := inv_node ha
    obtain ⟨l2, pres, r2, es, i1, i2, mb, g1, g2⟩ := split_inv hc b v hb
    obtain ⟨x, ex, ix, mx⟩ := ihl l2 il i1
    obtain ⟨y, ey, iy, my⟩ := ihr r2 ir i2
    have hx : ∀ p ∈ abs x, p < v := fun p hp => bl p ((mx p).1 hp).1
    have hy : ∀ p ∈ abs y, v < p := fun p hp => br p ((my p).1 hp).1
    have unf : intersection cmp (.node h v l r) b =
        (if pres then join x v y else concat x y) := by
      cases b <;> simp_all [intersection]
    cases pres with
    | true =>
      obtain ⟨t, et, it, mt⟩ := inv_join x y v ix iy hx hy
      refine ⟨t, by rw [unf]; simpa using et, it, ?_⟩
      intro p
      rw [mt, mx, my, mb]
      simp only [abs, List.mem_append, List.mem_cons, true_and]
      constructor
      · rintro (⟨h1, h2⟩ | h1 | ⟨h1, h2⟩)
        · exact ⟨Or.inl h1, Or.inl h2⟩
        · exact ⟨Or.inr (Or.inl h1), Or.inr (Or.inl h1)⟩
        · exact ⟨Or.inr (Or.inr h1), Or.inr (Or.inr h2)⟩
      · rintro ⟨h1 | h1 | h1, h2 | h2 | h2⟩
        · exact Or.inl ⟨h1, h2⟩
        · have := bl p h1; rw [h2] at this; oo
        · have := bl p h1; have := g2 p h2; oo
        · exact Or.inr (Or.inl h1)
        · exact Or.inr (Or.inl h1)
        · exact Or.inr (Or.inl h1)
        · have := br p h1; have := g1 p h2; oo
        · have := br p h1; rw [h2] at this; oo
        · exact Or.inr (Or.inr ⟨h1, h2⟩)
    | false =>
      obtain ⟨t, et, it, mt⟩ := inv_concat x y ix iy
        (fun p hp q hq => by have := hx p hp; have := hy q hq; oo)
      refine ⟨t, by rw [unf]; simpa using et, it, ?_⟩
      intro p
      rw [mt, mx, my, mb]
      simp only [abs, List.mem_append, List.mem_cons, Bool.false_eq_true, false_and, false_or]
      constructor
      · rintro (⟨h1, h2⟩ | ⟨h1, h2⟩)
        · exact ⟨Or.inl h1, Or.inl h2⟩
        · exact ⟨Or.inr (Or.inr h1), Or.inr h2⟩
      · rintro ⟨h1 | h1 | h1, h2 | h2⟩
        · exact Or.inl ⟨h1, h2⟩
        · have := bl p h1; have := g2 p h2; oo
        · subst h1; have := g1 p h2; oo
        · subst h1; have := g2 p h2; oo
        · have := br p h1; have := g1 p h2; oo
        · exact Or.inr ⟨h1, h2⟩

theorem diff_spec {cmp : E → E → Int} (hc : Lawful cmp) (a : STree E) :
    ∀ (b : STree E), Inv a → Inv b →
    ∃ t, diff cmp a b = some t ∧ Inv t ∧ ∀ p, p ∈ abs t ↔ (p ∈ abs a ∧ p ∉ abs b) := by
  induction a with
  | empty => intro b _ _; exact ⟨.empty, rfl, ⟨by simp [Bal], by simp [Ordered, abs]⟩, by simp [abs]⟩
  | leaf v =>
    intro b ha hb
    have cs := contains_spec hc b hb.2 v
    by_cases e : b = .empty
    · subst e; exact ⟨.leaf v, rfl, ha, by simp [abs]⟩
    · by_cases c : contains cmp b v = true
      · refine ⟨.empty, by cases b <;> simp_all [diff], ⟨by simp [Bal], by simp [Ordered, abs]⟩, ?_⟩
        intro p; simp only [abs, List.mem_singleton, List.not_mem_nil, false_iff]
        rintro ⟨h1, h2⟩; subst h1; exact h2 (cs.1 c)
      · refine ⟨.leaf v, by cases b <;> simp_all [diff], ha, ?_⟩
        intro p; simp only [abs, List.mem_singleton]
        constructor
        · intro h; subst h; exact ⟨rfl, fun h2 => c (cs.2 h2)⟩
        · exact fun h => h.1
  | node h v l r ihl ihr =>
    intro b ha hb
    by_cases e : b = .empty
    · subst e; exact ⟨.node h v l r, rfl, ha, by simp [abs]⟩
    obtain ⟨il, ir, bl, br⟩ := inv_node ha
    obtain ⟨l2, pres, r2, es, i1, i2, mb, g1, g2⟩ := split_inv hc b v hb
    obtain ⟨x, ex, ix, mx⟩ := ihl l2 il i1
    obtain ⟨y, ey, iy, my⟩ := ihr r2 ir i2
    have hx : ∀ p ∈ abs x, p < v := fun p hp => bl p ((mx p).1 hp).1
    have hy : ∀ p ∈ abs y, v < p := fun p hp => br p ((my p).1 hp).1
    have unf : diff cmp (.node h v l r) b = (if pres then concat x y else join x v y) := by
      cases b <;> simp_all [diff]
    cases pres with
    | false =>
      obtain ⟨t, et, it, mt⟩ := inv_join x y v ix iy hx hy
      refine ⟨t, by rw [unf]; simpa using et, it, ?_⟩
      intro p
      rw [mt, mx, my, mb]
      simp only [abs, List.mem_append, List.mem_cons, Bool.false_eq_true, false_and, false_or, not_or]
      constructor
      · rintro (⟨h1, h2⟩ | h1 | ⟨h1, h2⟩)
        · exact ⟨Or.inl h1, h2, fun h3 => by have := bl p h1; have := g2 p h3; oo⟩
        · subst h1
          exact ⟨Or.inr (Or.inl rfl), fun h3 => by have := g1 p h3; oo, fun h3 => by have := g2 p h3; oo⟩
        · exact ⟨Or.inr (Or.inr h1), fun h3 => by have := br p h1; have := g1 p h3; oo, h2⟩
      · rintro ⟨h1 | h1 | h1, h2, h3⟩
        · exact Or.inl ⟨h1, h2⟩
        · exact Or.inr (Or.inl h1)
        · exact Or.inr (Or.inr ⟨h1, h3⟩)
    | true =>
      obtain ⟨t, et, it, mt⟩ := inv_concat x y ix iy
        (fun p hp q hq => by have := hx p hp; have := hy q hq; oo)
      refine ⟨t, by rw [unf]; simpa using et, it, ?_⟩
      intro p
      rw [mt, mx, my, mb]
      simp only [abs, List.mem_append, List.mem_cons, true_and, not_or]
      constructor
      · rintro (⟨h1, h2⟩ | ⟨h1, h2⟩)
        · exact ⟨Or.inl h1, h2, fun h3 => by have := bl p h1; rw [h3] at this; oo,
            fun h3 => by have := bl p h1; have := g2 p h3; oo⟩
        · exact ⟨Or.inr (Or.inr h1), fun h3 => by have := br p h1; have := g1 p h3; oo,
            fun h3 => by have := br p h1; rw [h3] at this; oo, h2⟩
      · rintro ⟨h1 | h1 | h1, h2, h3, h4⟩
        · exact Or.inl ⟨h1, h2⟩
        · exact absurd h1 h3
        · exact Or.inr ⟨h1, h4⟩

theorem split_len {cmp : E → E → Int} (hc : Lawful cmp) (t : STree E) (key : E)
    (hi : Inv t) :
    ∃ l pres r, split cmp t key = some (l, pres, r) ∧ Inv l ∧ Inv r ∧
      (∀ p, p ∈ abs t ↔ (p ∈ abs l ∨ (pres = true ∧ p = key) ∨ p ∈ abs r)) ∧
      (∀ p ∈ abs l, p < key) ∧ (∀ p ∈ abs r, key < p) ∧
      (abs l).length ≤ (abs t).length ∧ (abs r).length ≤ (abs t).length := by
  obtain ⟨l, pres, r, e, i1, i2, m, g1, g2⟩ := split_inv hc t key hi
  obtain ⟨l', pres', r', e', _, _, a, _, _⟩ := split_spec hc t key hi.1 hi.2
  rw [e] at e'
  simp only [Option.some.injEq, Prod.mk.injEq] at e'
  obtain ⟨rfl, rfl, rfl⟩ := e'
  refine ⟨l, pres, r, e, i1, i2, m, g1, g2, ?_, ?_⟩ <;> (rw [a]; simp <;> oo)

theorem inv_insert {cmp : E → E → Int} (hc : Lawful cmp) (t : STree E) (x : E)
    (hi : Inv t) :
    ∃ t', insert cmp t x = some t' ∧ Inv t' ∧ ∀ p, p ∈ abs t' ↔ (p = x ∨ p ∈ abs t) := by
  obtain ⟨t', e, b, o, m, _⟩ := insert_spec hc t x hi.1 hi.2
  exact ⟨t', e, ⟨b, o⟩, m⟩

/-- **`union`, total**: with fuel above the sum of the sizes the fuelled `union` returns a result
(never runs out of fuel, never panics) and that result is the set union. -/
theorem union_spec {cmp : E → E → Int} (hc : Lawful cmp) :
    ∀ (fuel : Nat) (a b : STree E), Inv a → Inv b →
      (abs a).length + (abs b).length < fuel →
      ∃ t, union cmp fuel a b = some (some t) ∧ Inv t ∧ ∀ p, p ∈ abs t ↔ (p ∈ abs a ∨ p ∈ abs b) := by
  intro fuel
  induction fuel with
  | zero => intro a b _ _ h; oo
  | succ fuel ih =>
    intro a b ha hb hf
    cases a with
    | empty => exact ⟨b, by simp [union], hb, by simp [abs]⟩
    | leaf v =>
      cases b with
      | empty => exact ⟨.leaf v, by simp [union], ha, by simp [abs]⟩
      | leaf w =>
        obtain ⟨t, e, i, m⟩ := inv_insert hc (.leaf w) v hb
        exact ⟨t, by simp [union, e], i, by intro p; rw [m]; simp [abs]⟩
      | node h w l r =>
        obtain ⟨t, e, i, m⟩ := inv_insert hc (.node h w l r) v hb
        exact ⟨t, by simp [union, e], i, by intro p; rw [m]; simp [abs]⟩
    | node h1 v1 l1 r1 =>
      cases b with
      | empty => exact ⟨.node h1 v1 l1 r1, by simp [union], ha, by simp [abs]⟩
      | leaf w =>
        obtain ⟨t, e, i, m⟩ := inv_insert hc (.node h1 v1 l1 r1) w ha
        exact ⟨t, by simp [union, e], i, by intro p; rw [m]; simp [abs]; exact or_comm⟩
      | node h2 v2 l2 r2 =>
        obtain ⟨il1, ir1, bl1, br1⟩ := inv_node ha
        obtain ⟨il2, ir2, bl2, br2⟩ := inv_node hb
        have la : (abs (STree.node h1 v1 l1 r1)).length = (abs l1).length + 1 + (abs r1).length := by
          simp [abs]; oo
        have lb : (abs (STree.node h2 v2 l2 r2)).length = (abs l2).length + 1 + (abs r2).length := by
          simp [abs]; oo
        by_cases c : h1 ≥ h2
        · by_cases c2 : h2 = 1
          · obtain ⟨t, e, i, m⟩ := inv_insert hc (.node h1 v1 l1 r1) v2 ha
            have := hb.1
            simp only [Bal] at this
            oo
          · obtain ⟨ll2, pres, rr2, es, i1, i2, mb, g1, g2, n1, n2⟩ := split_len hc (.node h2 v2 l2 r2) v1 hb
            obtain ⟨x, ex, ix, mx⟩ := ih l1 ll2 il1 i1 (by oo)
            obtain ⟨y, ey, iy, my⟩ := ih r1 rr2 ir1 i2 (by oo)
            obtain ⟨t, et, it, mt⟩ := inv_join x y v1 ix iy
              (fun p hp => by rcases (mx p).1 hp with h | h; exact bl1 p h; exact g1 p h)
              (fun p hp => by rcases (my p).1 hp with h | h; exact br1 p h; exact g2 p h)
            refine ⟨t, by simp [union, c, c2, es, ex, ey, et], it, ?_⟩
            intro p
            rw [mt, mx, my, mb]
            simp only [abs, List.mem_append, List.mem_cons]
            constructor
            · rintro ((h | h) | h | (h | h))
              · exact Or.inl (Or.inl h)
              · exact Or.inr (Or.inl h)
              · exact Or.inl (Or.inr (Or.inl h))
              · exact Or.inl (Or.inr (Or.inr h))
              · exact Or.inr (Or.inr (Or.inr h))
            · rintro ((h | h | h) | (h | ⟨_, h⟩ | h))
              · exact Or.inl (Or.inl h)
              · exact Or.inr (Or.inl h)
              · exact Or.inr (Or.inr (Or.inl h))
              · exact Or.inl (Or.inr h)
              · exact Or.inr (Or.inl h)
              · exact Or.inr (Or.inr (Or.inr h))
        · by_cases c2 : h1 = 1
          · have := ha.1
            simp only [Bal] at this
            oo
          · obtain ⟨ll1, pres, rr1, es, i1, i2, ma, g1, g2, n1, n2⟩ := split_len hc (.node h1 v1 l1 r1) v2 ha
            obtain ⟨x, ex, ix, mx⟩ := ih ll1 l2 i1 il2 (by oo)
            obtain ⟨y, ey, iy, my⟩ := ih rr1 r2 i2 ir2 (by oo)
            obtain ⟨t, et, it, mt⟩ := inv_join x y v2 ix iy
              (fun p hp => by rcases (mx p).1 hp with h | h; exact g1 p h; exact bl2 p h)
              (fun p hp => by rcases (my p).1 hp with h | h; exact g2 p h; exact br2 p h)
            refine ⟨t, by simp [union, c, c2, es, ex, ey, et], it, ?_⟩
            intro p
            rw [mt, mx, my, ma]
            simp only [abs, List.mem_append, List.mem_cons]
            constructor
            · rintro ((h | h) | h | (h | h))
              · exact Or.inl (Or.inl h)
              · exact Or.inr (Or.inl h)
              · exact Or.inr (Or.inr (Or.inl h))
              · exact Or.inl (Or.inr (Or.inr h))
              · exact Or.inr (Or.inr (Or.inr h))
            · rintro ((h | ⟨_, h⟩ | h) | (h | h | h))
              · exact Or.inl (Or.inl h)
              · exact Or.inr (Or.inl h)
              · exact Or.inr (Or.inr (Or.inl h))
              · exact Or.inl (Or.inr h)
              · exact Or.inr (Or.inl h)
              · exact Or.inr (Or.inr (Or.inr h))

theorem fromList_spec {cmp : E → E → Int} (hc : Lawful cmp) (xs : List E) :
    ∀ (acc : STree E), Inv acc →
    ∃ t, fromList cmp xs acc = some t ∧ Inv t ∧ ∀ p, p ∈ abs t ↔ (p ∈ xs ∨ p ∈ abs acc) := by
  induction xs with
  | nil => intro acc hi; exact ⟨acc, rfl, hi, by simp⟩
  | cons x xs ih =>
    intro acc hi
    obtain ⟨t1, e1, i1, m1⟩ := inv_insert hc acc x hi
    obtain ⟨t2, e2, i2, m2⟩ := ih t1 i1
    refine ⟨t2, by simp [fromList, e1, e2], i2, ?_⟩
    intro p; rw [m2, m1]; simp only [List.mem_cons]
    constructor
    · rintro (h | h | h)
      · exact Or.inl (Or.inr h)
      · exact Or.inl (Or.inl h)
      · exact Or.inr h
    · rintro ((h | h) | h)
      · exact Or.inr (Or.inl h)
      · exact Or.inl h
      · exact Or.inr (Or.inr h)

theorem iter_refines {σ : Type} (f : E → σ → σ) (t : STree E) (s : σ) :
    iter f t s = (abs t).foldl (fun s v => f v s) s := by
  induction t generalizing s with
  | empty => rfl
  | leaf v => rfl
  | node h v l r ihl ihr => simp [iter, abs, ihl, ihr]

def Enum.toList : Enum E → List E
  | .done => []
  | .more v r e => v :: (abs r ++ Enum.toList e)

theorem Enum.toList_cons (t : STree E) (e : Enum E) : (Enum.cons t e).toList = abs t ++ e.toList := by
  induction t generalizing e with
  | empty => simp [Enum.cons, abs]
  | leaf v => simp [Enum.cons, Enum.toList, abs]
  | node h v l r ihl _ => simp [Enum.cons, ihl, Enum.toList, abs]

/-- lexicographic comparison of two ascending enumerations (`cmp`, then the extra comparator `f`) -/
def lexCmp (cmp : E → E → Int) (f : E → E → Int) : List E → List E → Int
  | [], [] => 0
  | [], _ :: _ => -1
  | _ :: _, [] => 1
  | v1 :: t1, v2 :: t2 =>
    if cmp v1 v2 ≠ 0 then cmp v1 v2
    else if f v1 v2 ≠ 0 then f v1 v2 else lexCmp cmp f t1 t2

def eqList (cmp : E → E → Int) (f : E → E → Bool) : List E → List E → Bool
  | [], [] => true
  | [], _ :: _ => false
  | _ :: _, [] => false
  | v1 :: t1, v2 :: t2 => cmp v1 v2 = 0 && f v1 v2 && eqList cmp f t1 t2

theorem compareHelper_refines (cmp : E → E → Int) (f : E → E → Int) (e1 e2 : Enum E) :
    compareHelper cmp f e1 e2 = lexCmp cmp f e1.toList e2.toList := by
  fun_induction compareHelper cmp f e1 e2 <;>
    simp_all +zetaDelta [Enum.toList, lexCmp, Enum.toList_cons]

theorem compare_refines (cmp : E → E → Int) (f : E → E → Int) (a b : STree E) :
    compare cmp f a b = lexCmp cmp f (abs a) (abs b) := by
  simp [compare, compareHelper_refines, Enum.toList_cons, Enum.toList]

theorem equalHelper_refines (cmp : E → E → Int) (f : E → E → Bool) (e1 e2 : Enum E) :
    equalHelper cmp f e1 e2 = eqList cmp f e1.toList e2.toList := by
  fun_induction equalHelper cmp f e1 e2 <;>
    simp_all [Enum.toList, eqList, Enum.toList_cons]

theorem equal_refines (cmp : E → E → Int) (f : E → E → Bool) (a b : STree E) :
    equal cmp f a b = eqList cmp f (abs a) (abs b) := by
  simp [equal, equalHelper_refines, Enum.toList_cons, Enum.toList]

theorem eqList_iff {cmp : E → E → Int} (hc : Lawful cmp) (f : E → E → Bool)
    (hf : ∀ x, f x x = true) (xs ys : List E) : eqList cmp f xs ys = true ↔ xs = ys := by
  induction xs generalizing ys with
  | nil => cases ys <;> simp [eqList]
  | cons x xs ih =>
    cases ys with
    | nil => simp [eqList]
    | cons y ys =>
      simp only [eqList, Bool.and_eq_true, decide_eq_true_eq, ih, List.cons.injEq, hc.eq x y]
      constructor
      · rintro ⟨⟨h1, _⟩, h3⟩; exact ⟨h1, h3⟩
      · rintro ⟨h1, h3⟩; subst h1; exact ⟨⟨rfl, hf x⟩, h3⟩

theorem disjoint_refines {cmp : E → E → Int} (hc : Lawful cmp) (a b : STree E)
    (ha : Inv a) (hb : Inv b) :
    ∃ r, disjoint cmp a b = some r ∧ (r = true ↔ ∀ x, ¬ (x ∈ abs a ∧ x ∈ abs b)) := by
  obtain ⟨t, e, i, m⟩ := intersection_spec hc a b ha hb
  refine ⟨isEmpty t, by simp [disjoint, e], ?_⟩
  rw [isEmpty_iff]
  constructor
  · intro h x hx; have := (m x).2 hx; rw [h] at this; simp at this
  · intro h
    cases hx : abs t with
    | nil => rfl
    | cons y ys => exact absurd ((m y).1 (by rw [hx]; simp)) (h y)

/-- two strictly ascending lists with the same members are equal -/
theorem sorted_ext :
    ∀ (xs ys : List E), xs.Pairwise (fun a b => a < b) → ys.Pairwise (fun a b => a < b) →
      (∀ x, x ∈ xs ↔ x ∈ ys) → xs = ys := by
  intro xs
  induction xs with
  | nil =>
    intro ys _ _ h
    cases ys with
    | nil => rfl
    | cons y ys => exact absurd ((h y).2 (by simp)) (by simp)
  | cons x xs ih =>
    intro ys hx hy h
    cases ys with
    | nil => exact absurd ((h x).1 (by simp)) (by simp)
    | cons y ys =>
      simp only [List.pairwise_cons] at hx hy
      have exy : x = y := by
        have h1 := (h x).1 (by simp)
        have h2 := (h y).2 (by simp)
        simp only [List.mem_cons] at h1 h2
        rcases h1 with h1 | h1
        · exact h1
        · rcases h2 with h2 | h2
          · exact h2.symm
          · have := hy.1 x h1; have := hx.1 y h2; oo
      subst exy
      congr 1
      apply ih ys hx.2 hy.2
      intro z
      have hz := h z
      simp only [List.mem_cons] at hz
      constructor
      · intro hz1
        rcases hz.1 (Or.inr hz1) with h1 | h1
        · have := hx.1 z hz1; rw [h1] at this; oo
        · exact h1
      · intro hz1
        rcases hz.2 (Or.inr hz1) with h1 | h1
        · have := hy.1 z hz1; rw [h1] at this; oo
        · exact h1

/-- shape facts `subset` relies on (weaker than `Bal`; preserved by the `unsafeNode` calls inside
`subset`, which build unbalanced trees): a `Node` has stored height ≥ 2 and a non-empty child. -/
def Shape : STree E → Prop
  | .empty => True
  | .leaf _ => True
  | .node h _ l r => Shape l ∧ Shape r ∧ h ≥ 2 ∧ (abs l ≠ [] ∨ abs r ≠ [])

theorem shape_of_bal (t : STree E) (hb : Bal t) : Shape t := by
  induction t with
  | empty => trivial
  | leaf v => trivial
  | node h v l r ihl ihr =>
    obtain ⟨bl, br, hh, d1, d2, nl, nr⟩ := bal_node hb
    have hge : h ≥ 2 := by simp only [Bal] at hb; oo
    refine ⟨ihl bl, ihr br, hge, ?_⟩
    by_cases c : height l ≥ 1
    · left; intro e; have := height_nonneg l bl
      cases l <;> simp_all [abs]
    · right; intro e
      cases r <;> simp_all [abs]
      oo

theorem shape_unsafeNode_left (l : STree E) (v : E) (hs : Shape l) :
    Shape (unsafeNode l v .empty) ∧ abs (unsafeNode l v .empty) = abs l ++ [v] := by
  cases l with
  | empty => simp [unsafeNode, Shape, abs]
  | leaf a => simp [unsafeNode, Shape, abs]
  | node h a l' r' =>
    simp only [Shape] at hs
    simp [unsafeNode, Shape, abs, hs]
    oo

theorem shape_unsafeNode_right (r : STree E) (v : E) (hs : Shape r) :
    Shape (unsafeNode .empty v r) ∧ abs (unsafeNode .empty v r) = v :: abs r := by
  cases r with
  | empty => simp [unsafeNode, Shape, abs]
  | leaf a => simp [unsafeNode, Shape, abs]
  | node h a l' r' =>
    simp only [Shape] at hs
    simp [unsafeNode, Shape, abs, hs]
    oo

/-- **`subset`, total**: fuel above the sum of the sizes suffices and the answer is set inclusion. -/
theorem subset_spec {cmp : E → E → Int} (hc : Lawful cmp) :
    ∀ (fuel : Nat) (a b : STree E), Shape a → Ordered a → Shape b → Ordered b →
      (abs a).length + (abs b).length < fuel →
      ∃ r, subset cmp fuel a b = some r ∧ (r = true ↔ ∀ x ∈ abs a, x ∈ abs b) := by
  intro fuel
  induction fuel with
  | zero => intro a b _ _ _ _ h; oo
  | succ fuel ih =>
    intro a b sa oa sb ob hf
    cases a with
    | empty => exact ⟨true, by simp [subset], by simp [abs]⟩
    | leaf v1 =>
      cases b with
      | empty => exact ⟨false, by simp [subset], by simp [abs]⟩
      | leaf v2 =>
        refine ⟨decide (cmp v1 v2 = 0), by simp [subset], ?_⟩
        simp [abs, hc.eq v1 v2]
      | node h2 v2 l2 r2 =>
        obtain ⟨ol2, or2, bl2, br2⟩ := ordered_node ob
        simp only [Shape] at sb
        have hlt := hc.lt v1 v2; have heq := hc.eq v1 v2; have hgt := hc.gt v1 v2
        have lb : (abs (STree.node h2 v2 l2 r2)).length = (abs l2).length + 1 + (abs r2).length := by
          simp [abs]; oo
        by_cases c0 : cmp v1 v2 = 0
        · exact ⟨true, by simp [subset, c0], by simp [abs, heq.1 c0]⟩
        · have ne : v1 ≠ v2 := fun e => c0 (heq.2 e)
          by_cases c1 : cmp v1 v2 < 0
          · obtain ⟨r, e, hr⟩ := ih (.leaf v1) l2 sa oa sb.1 ol2 (by simp [abs] at hf ⊢; oo)
            refine ⟨r, by simp [subset, c0, c1, e], ?_⟩
            rw [hr]
            have m1 : v1 ∈ abs (STree.leaf v1) := by simp [abs]
            constructor
            · intro h x hx
              have e : x = v1 := by simpa [abs] using hx
              subst e
              simp only [abs, List.mem_append, List.mem_cons]; exact Or.inl (h x m1)
            · intro h x hx
              have e : x = v1 := by simpa [abs] using hx
              subst e
              have := h x m1
              simp only [abs, List.mem_append, List.mem_cons] at this
              rcases this with h | h | h
              · exact h
              · exact absurd h ne
              · have := br2 x h; have := hlt.1 c1; oo
          · obtain ⟨r, e, hr⟩ := ih (.leaf v1) r2 sa oa sb.2.1 or2 (by simp [abs] at hf ⊢; oo)
            refine ⟨r, by simp [subset, c0, c1, e], ?_⟩
            rw [hr]
            have m1 : v1 ∈ abs (STree.leaf v1) := by simp [abs]
            constructor
            · intro h x hx
              have e : x = v1 := by simpa [abs] using hx
              subst e
              simp only [abs, List.mem_append, List.mem_cons]; exact Or.inr (Or.inr (h x m1))
            · intro h x hx
              have e : x = v1 := by simpa [abs] using hx
              subst e
              have := h x m1
              simp only [abs, List.mem_append, List.mem_cons] at this
              rcases this with h | h | h
              · have := bl2 x h; have := hgt.1 (by oo); oo
              · exact absurd h ne
              · exact h
    | node h1 v1 l1 r1 =>
      obtain ⟨ol1, or1, bl1, br1⟩ := ordered_node oa
      have sa' := sa
      simp only [Shape] at sa
      have la : (abs (STree.node h1 v1 l1 r1)).length = (abs l1).length + 1 + (abs r1).length := by
        simp [abs]; oo
      cases b with
      | empty =>
        refine ⟨false, by simp [subset], ?_⟩
        simp only [Bool.false_eq_true, false_iff]
        intro h; have := h v1 (by simp [abs]); simp [abs] at this
      | leaf v2 =>
        refine ⟨false, ?_, ?_⟩
        · have : h1 ≠ 1 := by oo
          simp [subset, this]
        · simp only [Bool.false_eq_true, false_iff, abs, List.mem_singleton]
          intro h
          rcases sa.2.2.2 with hne | hne
          · cases hl : abs l1 with
            | nil => exact hne hl
            | cons y ys =>
              have hy : y ∈ abs l1 := by rw [hl]; simp
              have e1 := h y (by simp [hy])
              have e2 := h v1 (by simp)
              have := bl1 y hy; rw [e1, e2] at this; oo
          · cases hl : abs r1 with
            | nil => exact hne hl
            | cons y ys =>
              have hy : y ∈ abs r1 := by rw [hl]; simp
              have e1 := h y (by simp [hy])
              have e2 := h v1 (by simp)
              have := br1 y hy; rw [e1, e2] at this; oo
      | node h2 v2 l2 r2 =>
        obtain ⟨ol2, or2, bl2, br2⟩ := ordered_node ob
        have sb' := sb
        simp only [Shape] at sb
        have hlt := hc.lt v1 v2; have heq := hc.eq v1 v2; have hgt := hc.gt v1 v2
        have lb : (abs (STree.node h2 v2 l2 r2)).length = (abs l2).length + 1 + (abs r2).length := by
          simp [abs]; oo
        by_cases c0 : cmp v1 v2 = 0
        · have e := heq.1 c0
          subst e
          obtain ⟨ra, ea, hra⟩ := ih l1 l2 sa.1 ol1 sb.1 ol2 (by oo)
          obtain ⟨rb, eb, hrb⟩ := ih r1 r2 sa.2.1 or1 sb.2.1 or2 (by oo)
          refine ⟨ra && rb, by cases ra <;> simp [subset, c0, ea, eb], ?_⟩
          simp only [Bool.and_eq_true, hra, hrb, abs, List.mem_append, List.mem_cons]
          constructor
          · rintro ⟨h1', h2'⟩ x (h | h | h)
            · exact Or.inl (h1' x h)
            · exact Or.inr (Or.inl h)
            · exact Or.inr (Or.inr (h2' x h))
          · intro h
            constructor
            · intro x hx
              rcases h x (Or.inl hx) with h' | h' | h'
              · exact h'
              · have := bl1 x hx; rw [h'] at this; oo
              · have := bl1 x hx; have := br2 x h'; oo
            · intro x hx
              rcases h x (Or.inr (Or.inr hx)) with h' | h' | h'
              · have := br1 x hx; have := bl2 x h'; oo
              · have := br1 x hx; rw [h'] at this; oo
              · exact h'
        · have ne : v1 ≠ v2 := fun e => c0 (heq.2 e)
          by_cases c1 : cmp v1 v2 < 0
          · have lt := hlt.1 c1
            obtain ⟨su, au⟩ := shape_unsafeNode_left l1 v1 sa.1
            have ou : Ordered (unsafeNode l1 v1 .empty) := by
              simp only [Ordered, au, List.pairwise_append]
              exact ⟨ol1, by simp, fun x hx y hy => by simp at hy; rw [hy]; exact bl1 x hx⟩
            obtain ⟨ra, ea, hra⟩ := ih (unsafeNode l1 v1 .empty) l2 su ou sb.1 ol2 (by rw [au]; simp; oo)
            obtain ⟨rb, eb, hrb⟩ := ih r1 (.node h2 v2 l2 r2) sa.2.1 or1 sb' ob (by oo)
            refine ⟨ra && rb, by cases ra <;> simp [subset, c0, c1, ea, eb], ?_⟩
            simp only [Bool.and_eq_true, hra, hrb, au, abs, List.mem_append, List.mem_cons, List.mem_singleton,
              List.not_mem_nil, or_false]
            constructor
            · rintro ⟨h1', h2'⟩ x (h | h | h)
              · exact Or.inl (h1' x (Or.inl h))
              · exact Or.inl (h1' x (Or.inr h))
              · exact h2' x h
            · intro h
              constructor
              · rintro x (hx | hx)
                · rcases h x (Or.inl hx) with h' | h' | h'
                  · exact h'
                  · have := bl1 x hx; rw [h'] at this; oo
                  · have := bl1 x hx; have := br2 x h'; oo
                · rcases h x (Or.inr (Or.inl hx)) with h' | h' | h'
                  · exact h'
                  · rw [hx] at h'; exact absurd h' ne
                  · have := br2 x h'; rw [hx] at this; oo
              · intro x hx; exact h x (Or.inr (Or.inr hx))
          · have gt := hgt.1 (by oo)
            obtain ⟨su, au⟩ := shape_unsafeNode_right r1 v1 sa.2.1
            have ou : Ordered (unsafeNode .empty v1 r1) := by
              simp only [Ordered, au, List.pairwise_cons]
              exact ⟨br1, or1⟩
            obtain ⟨ra, ea, hra⟩ := ih (unsafeNode .empty v1 r1) r2 su ou sb.2.1 or2 (by rw [au]; simp; oo)
            obtain ⟨rb, eb, hrb⟩ := ih l1 (.node h2 v2 l2 r2) sa.1 ol1 sb' ob (by oo)
            refine ⟨ra && rb, by cases ra <;> simp [subset, c0, c1, ea, eb], ?_⟩
            simp only [Bool.and_eq_true, hra, hrb, au, abs, List.mem_append, List.mem_cons]
            constructor
            · rintro ⟨h1', h2'⟩ x (h | h | h)
              · exact h2' x h
              · exact Or.inr (Or.inr (h1' x (Or.inl h)))
              · exact Or.inr (Or.inr (h1' x (Or.inr h)))
            · intro h
              constructor
              · rintro x (hx | hx)
                · rcases h x (Or.inr (Or.inl hx)) with h' | h' | h'
                  · have := bl2 x h'; rw [hx] at this; oo
                  · rw [hx] at h'; exact absurd h' ne
                  · exact h'
                · rcases h x (Or.inr (Or.inr hx)) with h' | h' | h'
                  · have := br1 x hx; have := bl2 x h'; oo
                  · have := br1 x hx; rw [h'] at this; oo
                  · exact h'
              · intro x hx; exact h x (Or.inl hx)

theorem length_le_of_sorted_subset :
    ∀ (ys zs : List E), ys.Pairwise (fun a b => a < b) → (∀ y ∈ ys, y ∈ zs) →
      ys.length ≤ zs.length := by
  intro ys
  induction ys with
  | nil => intro zs _ _; simp
  | cons y ys ih =>
    intro zs hp hs
    simp only [List.pairwise_cons] at hp
    have hy : y ∈ zs := hs y (by simp)
    have := ih (zs.erase y) hp.2 (fun x hx => by
      have ne : x ≠ y := fun e => by have := hp.1 x hx; rw [e] at this; oo
      exact (List.mem_erase_of_ne ne).2 (hs x (by simp [hx])))
    rw [List.length_erase_of_mem hy] at this
    have : zs.length ≥ 1 := List.length_pos_of_mem hy
    simp only [List.length_cons]; oo

theorem le_last (xs : List E) (hp : xs.Pairwise (fun a b => a < b)) (m : E)
    (hm : xs.getLast? = some m) : ∀ x ∈ xs, x ≤ m := by
  induction xs with
  | nil => simp
  | cons a as ih =>
    simp only [List.pairwise_cons] at hp
    cases as with
    | nil => simp at hm; subst hm; simp
    | cons b bs =>
      rw [List.getLast?_cons_cons] at hm
      intro x hx
      rcases List.mem_cons.1 hx with e | e
      · subst e
        have h1 := ih hp.2 hm b (by simp)
        have h2 := hp.1 b (by simp)
        oo
      · exact ih hp.2 hm x e

theorem head_le (xs : List E) (hp : xs.Pairwise (fun a b => a < b)) (m : E)
    (hm : xs.head? = some m) : ∀ x ∈ xs, m ≤ x := by
  cases xs with
  | nil => simp
  | cons a as =>
    simp at hm; subst hm
    simp only [List.pairwise_cons] at hp
    intro x hx
    rcases List.mem_cons.1 hx with e | e
    · subst e; oo
    · have := hp.1 x e; oo

theorem tryJoin_spec {cmp : E → E → Int} (hc : Lawful cmp) (fuel : Nat)
    (l r : STree E) (v : E) (il : Inv l) (ir : Inv r)
    (hf : (abs l).length + (abs r).length + 1 < fuel) :
    ∃ t, tryJoin cmp fuel l v r = some (some t) ∧ Inv t ∧
      ∀ y, y ∈ abs t ↔ (y ∈ abs l ∨ y = v ∨ y ∈ abs r) := by
  have HL : ∃ bl : Bool, okLeft cmp l v = some bl ∧ (bl = true → ∀ x ∈ abs l, x < v) := by
    unfold okLeft
    cases hl : isEmpty l
    · have ne := abs_ne_nil_of_not_isEmpty l hl
      rw [max_refines]
      cases hm : (abs l).getLast? with
      | none => simp [List.getLast?_eq_none_iff] at hm; exact absurd hm ne
      | some m =>
        refine ⟨decide (cmp m v < 0), by simp, ?_⟩
        intro hb x hx
        have := le_last (abs l) il.2 m hm x hx
        have := (hc.lt m v).1 (by simpa using hb)
        oo
    · refine ⟨true, by simp, ?_⟩
      intro _ x hx; rw [(isEmpty_iff l).1 hl] at hx; simp at hx
  have HR : ∃ br : Bool, okRight cmp r v = some br ∧ (br = true → ∀ x ∈ abs r, v < x) := by
    unfold okRight
    cases hr : isEmpty r
    · have ne := abs_ne_nil_of_not_isEmpty r hr
      rw [min_refines]
      cases hm : (abs r).head? with
      | none => simp at hm; exact absurd hm ne
      | some m =>
        refine ⟨decide (cmp v m < 0), by simp, ?_⟩
        intro hb x hx
        have := head_le (abs r) ir.2 m hm x hx
        have := (hc.lt v m).1 (by simpa using hb)
        oo
    · refine ⟨true, by simp, ?_⟩
      intro _ x hx; rw [(isEmpty_iff r).1 hr] at hx; simp at hx
  obtain ⟨bl, el, pl⟩ := HL
  obtain ⟨br, er, pr⟩ := HR
  -- fallback: union l (insert r v)
  obtain ⟨r', ei, ii, mi⟩ := inv_insert hc r v ir
  have lr' : (abs r').length ≤ (abs r).length + 1 :=
    length_le_of_sorted_subset (abs r') (v :: abs r) ii.2
      (fun y hy => by rcases (mi y).1 hy with h | h <;> simp [h])
  obtain ⟨tu, eu, iu, mu⟩ := union_spec hc fuel l r' il ii (by oo)
  by_cases hb : bl = true ∧ br = true
  · obtain ⟨t, et, it, mt⟩ := inv_join l r v il ir (pl hb.1) (pr hb.2)
    refine ⟨t, ?_, it, mt⟩
    simp only [tryJoin, el]
    obtain ⟨h1, h2⟩ := hb
    subst h1
    simp only [Bool.not_true, Bool.false_eq_true, if_false, er]
    subst h2
    simp [et]
  · refine ⟨tu, ?_, iu, fun y => by rw [mu, mi]⟩
    simp only [tryJoin, el]
    cases bl with
    | false => simp [ei, eu]
    | true =>
      simp only [Bool.not_true, Bool.false_eq_true, if_false, er]
      cases br with
      | false => simp [ei, eu]
      | true => exact absurd ⟨rfl, rfl⟩ hb

/-- **`Set.map`, total**: fuel above the size suffices; the result is the image set. `refEq` is any
sound approximation of equality (the source uses reference equality). -/
theorem map_spec {cmp : E → E → Int} (hc : Lawful cmp) (refEq : E → E → Bool)
    (hre : ∀ a b, refEq a b = true → a = b) (f : E → E) (fuel : Nat) (t : STree E) (hi : Inv t)
    (hf : (abs t).length < fuel) :
    ∃ t', map cmp refEq f fuel t = some (some t') ∧ Inv t' ∧
      (∀ y, y ∈ abs t' ↔ ∃ x ∈ abs t, f x = y) ∧ (abs t').length ≤ (abs t).length := by
  induction t with
  | empty => exact ⟨.empty, rfl, hi, by simp [abs], by simp⟩
  | leaf v =>
    simp only [map]
    by_cases c : refEq (f v) v = true
    · have e := hre _ _ c
      exact ⟨.leaf v, by simp [c], hi, by simp [abs, e]; intro y; exact eq_comm, by simp⟩
    · exact ⟨.leaf (f v), by simp [c], ⟨by simp [Bal], by simp [Ordered, abs]⟩, by simp [abs]; intro y; exact eq_comm, by simp [abs]⟩
  | node h v l r ihl ihr =>
    obtain ⟨il, ir, bl, br⟩ := inv_node hi
    have la : (abs (STree.node h v l r)).length = (abs l).length + 1 + (abs r).length := by
      simp [abs]; oo
    obtain ⟨newL, e1, i1, m1, n1⟩ := ihl il (by oo)
    obtain ⟨newR, e2, i2, m2, n2⟩ := ihr ir (by oo)
    simp only [map, e1, e2]
    have img : ∀ y, (y ∈ abs newL ∨ y = f v ∨ y ∈ abs newR) ↔ ∃ x ∈ abs (STree.node h v l r), f x = y := by
      intro y
      rw [m1, m2]
      simp only [abs, List.mem_append, List.mem_cons]
      constructor
      · rintro (⟨x, hx, e⟩ | e | ⟨x, hx, e⟩)
        · exact ⟨x, Or.inl hx, e⟩
        · exact ⟨v, Or.inr (Or.inl rfl), e.symm⟩
        · exact ⟨x, Or.inr (Or.inr hx), e⟩
      · rintro ⟨x, hx | hx | hx, e⟩
        · exact Or.inl ⟨x, hx, e⟩
        · subst hx; exact Or.inr (Or.inl e.symm)
        · exact Or.inr (Or.inr ⟨x, hx, e⟩)
    by_cases same : l = newL ∧ refEq v (f v) = true ∧ r = newR
    · obtain ⟨s1, s2, s3⟩ := same
      subst s1; subst s3
      have ev := hre _ _ s2
      refine ⟨.node h v l r, by simp [s2], hi, ?_, by simp⟩
      intro y
      rw [← img y]
      simp only [abs, List.mem_append, List.mem_cons, ← ev]
    · obtain ⟨t', et, it, mt⟩ := tryJoin_spec hc fuel newL newR (f v) i1 i2 (by oo)
      refine ⟨t', by simp [same, et], it, fun y => by rw [mt, img], ?_⟩
      have : (abs t').length ≤ ((abs (STree.node h v l r)).map f).length :=
        length_le_of_sorted_subset _ _ it.2 (fun y hy => by
          obtain ⟨x, hx, e⟩ := ((mt y).trans (img y)).1 hy
          exact List.mem_map.2 ⟨x, hx, e⟩)
      simpa using this

/-- `t` represents the mathematical set `s` -/
def SRel (t : STree E) (s : E → Prop) : Prop := Inv t ∧ ∀ x, x ∈ abs t ↔ s x

theorem srel_empty : SRel (STree.empty : STree E) (fun _ => False) := by
  simp [SRel, Inv, Bal, Ordered, abs]

inductive SOp (E : Type) where
  | ins (d s : Nat) (x : E)
  | rem (d s : Nat) (x : E)
  | uni (d a b : Nat)
  | int (d a b : Nat)
  | dif (d a b : Nat)
  | fil (d s : Nat) (f : E → Bool)
  | parT (d s : Nat) (f : E → Bool)
  | parF (d s : Nat) (f : E → Bool)
  | splL (d s : Nat) (k : E)
  | splR (d s : Nat) (k : E)
  | frl (d : Nat) (xs : List E)
  | map (d s : Nat) (f : E → E)

def setReg {A : Type} (regs : Nat → A) (d : Nat) (x : A) : Nat → A := fun i => if i = d then x else regs i

/-- `union` with fuel computed from the operands (enough by `union_spec`) -/
def unionF (cmp : E → E → Int) (a b : STree E) : Option (STree E) :=
  match union cmp ((abs a).length + (abs b).length + 1) a b with
  | some r => r
  | none => none

/-- `map` with fuel computed from the operand (enough by `map_spec`); mapped functions allocate,
so the reference-equality shortcut never fires (`refEq = false`). -/
def mapF (cmp : E → E → Int) (f : E → E) (t : STree E) : Option (STree E) :=
  match map cmp (fun _ _ => false) f ((abs t).length + 1) t with
  | some r => r
  | none => none

def stepOp (cmp : E → E → Int) (regs : Nat → STree E) : SOp E → Option (Nat → STree E)
  | .ins d s x => (insert cmp (regs s) x).map (setReg regs d)
  | .rem d s x => (remove cmp (regs s) x).map (setReg regs d)
  | .uni d a b => (unionF cmp (regs a) (regs b)).map (setReg regs d)
  | .int d a b => (intersection cmp (regs a) (regs b)).map (setReg regs d)
  | .dif d a b => (diff cmp (regs a) (regs b)).map (setReg regs d)
  | .fil d s f => (filter f (regs s)).map (setReg regs d)
  | .parT d s f => (partition f (regs s)).map (fun p => setReg regs d p.1)
  | .parF d s f => (partition f (regs s)).map (fun p => setReg regs d p.2)
  | .splL d s k => (split cmp (regs s) k).map (fun p => setReg regs d p.1)
  | .splR d s k => (split cmp (regs s) k).map (fun p => setReg regs d p.2.2)
  | .frl d xs => (fromList cmp xs .empty).map (setReg regs d)
  | .map d s f => (mapF cmp f (regs s)).map (setReg regs d)

def specOp (ss : Nat → E → Prop) : SOp E → (Nat → E → Prop)
  | .ins d s x => setReg ss d (fun p => p = x ∨ ss s p)
  | .rem d s x => setReg ss d (fun p => ss s p ∧ p ≠ x)
  | .uni d a b => setReg ss d (fun p => ss a p ∨ ss b p)
  | .int d a b => setReg ss d (fun p => ss a p ∧ ss b p)
  | .dif d a b => setReg ss d (fun p => ss a p ∧ ¬ ss b p)
  | .fil d s f => setReg ss d (fun p => ss s p ∧ f p = true)
  | .parT d s f => setReg ss d (fun p => ss s p ∧ f p = true)
  | .parF d s f => setReg ss d (fun p => ss s p ∧ f p = false)
  | .splL d s k => setReg ss d (fun p => ss s p ∧ p < k)
  | .splR d s k => setReg ss d (fun p => ss s p ∧ k < p)
  | .frl d xs => setReg ss d (fun p => p ∈ xs)
  | .map d s f => setReg ss d (fun y => ∃ x, ss s x ∧ f x = y)

def runOps (cmp : E → E → Int) : (Nat → STree E) → List (SOp E) → Option (Nat → STree E)
  | regs, [] => some regs
  | regs, op :: ops =>
    match stepOp cmp regs op with
    | none => none
    | some regs' => runOps cmp regs' ops

def specOps : (Nat → E → Prop) → List (SOp E) → (Nat → E → Prop)
  | ss, [] => ss
  | ss, op :: ops => specOps (specOp ss op) ops

theorem srel_set {regs : Nat → STree E} {ss : Nat → E → Prop}
    (h : ∀ i, SRel (regs i) (ss i)) (d : Nat) {t : STree E} {s : E → Prop} (ht : SRel t s) :
    ∀ i, SRel (setReg regs d t i) (setReg ss d s i) := by
  intro i
  simp only [setReg]
  split
  · exact ht
  · exact h i

theorem step_refines_map {cmp : E → E → Int} (hc : Lawful cmp)
    (regs : Nat → STree E) (ss : Nat → E → Prop) (h : ∀ i, SRel (regs i) (ss i)) (d s : Nat) (f : E → E) :
    ∃ regs', stepOp cmp regs (.map d s f) = some regs' ∧
      ∀ i, SRel (regs' i) (specOp ss (.map d s f) i) := by
  obtain ⟨t', e, i, m, _⟩ := map_spec hc (fun _ _ => false) (by simp) f _ (regs s) (h s).1 (Nat.lt_succ_self _)
  refine ⟨_, by simp [stepOp, mapF, e], srel_set h d ⟨i, fun y => ?_⟩⟩
  rw [m]
  constructor
  · rintro ⟨x, hx, e⟩; exact ⟨x, ((h s).2 x).1 hx, e⟩
  · rintro ⟨x, hx, e⟩; exact ⟨x, ((h s).2 x).2 hx, e⟩

theorem step_refines {cmp : E → E → Int} (hc : Lawful cmp)
    (regs : Nat → STree E) (ss : Nat → E → Prop) (h : ∀ i, SRel (regs i) (ss i)) (op : SOp E) :
    ∃ regs', stepOp cmp regs op = some regs' ∧ ∀ i, SRel (regs' i) (specOp ss op i) := by
  cases op with
  | ins d s x =>
    obtain ⟨t', e, i, m⟩ := inv_insert hc (regs s) x (h s).1
    exact ⟨_, by simp [stepOp, e], srel_set h d ⟨i, fun p => by rw [m, (h s).2]⟩⟩
  | rem d s x =>
    obtain ⟨t', e, b, o, m, _⟩ := remove_spec hc (regs s) x (h s).1.1 (h s).1.2
    exact ⟨_, by simp [stepOp, e], srel_set h d ⟨⟨b, o⟩, fun p => by rw [m, (h s).2]⟩⟩
  | uni d a b =>
    obtain ⟨t', e, i, m⟩ := union_spec hc _ (regs a) (regs b) (h a).1 (h b).1 (Nat.lt_succ_self _)
    exact ⟨_, by simp [stepOp, unionF, e], srel_set h d ⟨i, fun p => by rw [m, (h a).2, (h b).2]⟩⟩
  | int d a b =>
    obtain ⟨t', e, i, m⟩ := intersection_spec hc (regs a) (regs b) (h a).1 (h b).1
    exact ⟨_, by simp [stepOp, e], srel_set h d ⟨i, fun p => by rw [m, (h a).2, (h b).2]⟩⟩
  | dif d a b =>
    obtain ⟨t', e, i, m⟩ := diff_spec hc (regs a) (regs b) (h a).1 (h b).1
    exact ⟨_, by simp [stepOp, e], srel_set h d ⟨i, fun p => by rw [m, (h a).2, (h b).2]⟩⟩
  | fil d s f =>
    obtain ⟨t', e, b, a⟩ := filter_spec f (regs s) (h s).1.1
    refine ⟨_, by simp [stepOp, e], srel_set h d ⟨⟨b, ?_⟩, fun p => by rw [a, List.mem_filter, (h s).2]⟩⟩
    simp only [Ordered, a]; exact (h s).1.2.sublist List.filter_sublist
  | parT d s f =>
    obtain ⟨x, y, e, b1, b2, a1, a2⟩ := partition_spec f (regs s) (h s).1.1
    refine ⟨_, by simp [stepOp, e], srel_set h d ⟨⟨b1, ?_⟩, fun p => by rw [a1, List.mem_filter, (h s).2]⟩⟩
    simp only [Ordered, a1]; exact (h s).1.2.sublist List.filter_sublist
  | parF d s f =>
    obtain ⟨x, y, e, b1, b2, a1, a2⟩ := partition_spec f (regs s) (h s).1.1
    refine ⟨_, by simp [stepOp, e], srel_set h d ⟨⟨b2, ?_⟩, fun p => by rw [a2, List.mem_filter, (h s).2]; simp⟩⟩
    simp only [Ordered, a2]; exact (h s).1.2.sublist List.filter_sublist
  | splL d s k =>
    obtain ⟨l, pres, r, e, i1, i2, m, g1, g2⟩ := split_inv hc (regs s) k (h s).1
    refine ⟨_, by simp [stepOp, e], srel_set h d ⟨i1, fun p => ?_⟩⟩
    show p ∈ abs l ↔ (ss s p ∧ p < k)
    rw [← (h s).2, m]
    constructor
    · intro hp; exact ⟨Or.inl hp, g1 p hp⟩
    · rintro ⟨hp | ⟨_, hp⟩ | hp, lt⟩
      · exact hp
      · rw [hp] at lt; oo
      · have := g2 p hp; oo
  | splR d s k =>
    obtain ⟨l, pres, r, e, i1, i2, m, g1, g2⟩ := split_inv hc (regs s) k (h s).1
    refine ⟨_, by simp [stepOp, e], srel_set h d ⟨i2, fun p => ?_⟩⟩
    show p ∈ abs r ↔ (ss s p ∧ k < p)
    rw [← (h s).2, m]
    constructor
    · intro hp; exact ⟨Or.inr (Or.inr hp), g2 p hp⟩
    · rintro ⟨hp | ⟨_, hp⟩ | hp, lt⟩
      · have := g1 p hp; oo
      · rw [hp] at lt; oo
      · exact hp
  | frl d xs =>
    obtain ⟨t', e, i, m⟩ := fromList_spec hc xs .empty ⟨by simp [Bal], by simp [Ordered, abs]⟩
    exact ⟨_, by simp [stepOp, e], srel_set h d ⟨i, fun p => by rw [m]; simp [abs]⟩⟩
  | map d s f => exact step_refines_map hc regs ss h d s f

theorem ops_refine_lemma {cmp : E → E → Int} (hc : Lawful cmp)
    (ops : List (SOp E)) (regs : Nat → STree E) (ss : Nat → E → Prop)
    (h : ∀ i, SRel (regs i) (ss i)) :
    ∃ regs', runOps cmp regs ops = some regs' ∧ ∀ i, SRel (regs' i) (specOps ss ops i) := by
  induction ops generalizing regs ss with
  | nil => exact ⟨regs, rfl, h⟩
  | cons op ops ih =>
    obtain ⟨r1, e1, h1⟩ := step_refines hc regs ss h op
    obtain ⟨r2, e2, h2⟩ := ih r1 _ h1
    exact ⟨r2, by simp [runOps, e1, e2], h2⟩

/-- more fuel never changes an answer of `union` that was already produced -/
theorem union_mono (cmp : E → E → Int) :
    ∀ (fuel : Nat) (a b : STree E) (r : Option (STree E)),
      union cmp fuel a b = some r → union cmp (fuel + 1) a b = some r := by
  intro fuel
  induction fuel with
  | zero => intro a b r h; simp [union] at h
  | succ n ih =>
    intro a b r h
    cases a with
    | empty => simpa [union] using h
    | leaf v => cases b <;> simpa [union] using h
    | node h1 v1 l1 r1 =>
      cases b with
      | empty => simpa [union] using h
      | leaf v => simpa [union] using h
      | node h2 v2 l2 r2 =>
        rw [union] at h ⊢
        by_cases c : h1 ≥ h2
        · simp only [c, if_true] at h ⊢
          by_cases c2 : h2 = 1
          · simpa [c2] using h
          · simp only [c2, if_false] at h ⊢
            cases hs : split cmp (STree.node h2 v2 l2 r2) v1 with
            | none => simpa [hs] using h
            | some tr =>
              obtain ⟨x, d, y⟩ := tr
              simp only [hs] at h ⊢
              cases h1' : union cmp n l1 x with
              | none => simp [h1'] at h
              | some o1 =>
                rw [ih _ _ _ h1']
                simp only [h1'] at h
                cases o1 with
                | none => simpa using h
                | some t1 =>
                  simp only at h ⊢
                  cases h2' : union cmp n r1 y with
                  | none => simp [h2'] at h
                  | some o2 =>
                    rw [ih _ _ _ h2']
                    simpa [h2'] using h
        · simp only [c, if_false] at h ⊢
          by_cases c2 : h1 = 1
          · simpa [c2] using h
          · simp only [c2, if_false] at h ⊢
            cases hs : split cmp (STree.node h1 v1 l1 r1) v2 with
            | none => simpa [hs] using h
            | some tr =>
              obtain ⟨x, d, y⟩ := tr
              simp only [hs] at h ⊢
              cases h1' : union cmp n x l2 with
              | none => simp [h1'] at h
              | some o1 =>
                rw [ih _ _ _ h1']
                simp only [h1'] at h
                cases o1 with
                | none => simpa using h
                | some t1 =>
                  simp only at h ⊢
                  cases h2' : union cmp n y r2 with
                  | none => simp [h2'] at h
                  | some o2 =>
                    rw [ih _ _ _ h2']
                    simpa [h2'] using h

theorem union_mono_le (cmp : E → E → Int) (fuel fuel' : Nat) (hle : fuel ≤ fuel') (a b : STree E)
    (r : Option (STree E)) (h : union cmp fuel a b = some r) : union cmp fuel' a b = some r := by
  induction hle with
  | refl => exact h
  | step _ ih => exact union_mono cmp _ a b r ih

end SamVerif.StdSet
