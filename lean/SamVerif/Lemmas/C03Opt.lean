import SamVerif.Model.OptKernel
/-!
The only place where C03 depends on C02's kernel model (`Model/OptKernel.lean`): the totality facts
C03 needs, under C03's own names.  Only `evalImpl` and `tripCount` are used; `mergeBinary` is
deliberately not mentioned here (its model follows C02's fixes of C02-F3; totality of the constant
merger is C02's theorem, and C03's `merge` tie only checks that the real kernel never aborts).
-/
namespace SamVerif.C03Opt
open SamVerif.Opt

/-- `evaluate_bin_op` never aborts, for all operators and operands -/
theorem evalImpl_total (op : Op) (a b : Int) : evalImpl op a b ≠ .panic := by
  cases op <;> simp only [evalImpl] <;> (try split) <;> simp

/-- the trip-count closed form never aborts -/
theorem tripCount_total (g : Guard) (i0 step bound : Int) : tripCount g i0 step bound ≠ .panic := by
  cases g <;> simp only [tripCount, tripLT] <;> (repeat' split) <;> simp

end SamVerif.C03Opt
