import SamVerif.Lemmas.UsefulSem
/-! Every source pattern outside the domain `swf` of the semantics theorem (`normalize_sem`) makes
`check_matching_pattern` report a diagnostic: so for every source pattern either the abstract node
provably matches what the source pattern matches, or the program is rejected. -/
namespace SamVerif.Useful

theorem normObject_err_of_dup (sig : Sig) (w : Bool) (fs : List (Nat × Nat)) :
    ∀ (es : List SPat) (names : List Nat) (acc : List Pat), names.length = es.length →
      nodupNat names = false → (normObject sig w fs es names acc).err = true
  | [], [], _, _, h => by simp [nodupNat] at h
  | [], _ :: _, _, hl, _ => by simp at hl
  | _ :: _, [], _, hl, _ => by simp at hl
  | p :: es, name :: names, acc, hl, h => by
    simp only [normObject]
    cases hf : fieldIndex fs name with
    | none => simp
    | some it =>
      obtain ⟨i, t⟩ := it
      simp only
      by_cases hc : names.contains name = true
      · have hm : name ∈ names := by simpa using hc
        simp [hm]
      · have hc' : names.contains name = false := by simpa using hc
        have : nodupNat names = false := by
          simp only [nodupNat, hc', Bool.not_false, Bool.true_and] at h
          exact h
        simp [normObject_err_of_dup sig w fs es names _ (by simpa using hl) this]

mutual
theorem not_swf_err (sig : Sig) (w : Bool) : ∀ (p : SPat) (t : Nat), shape p = true →
    swf sig w p t = false → (normalize sig w p (some t)).err = true
  | .id _, _, _, h => by simp [swf] at h
  | .wild, _, _, h => by simp [swf] at h
  | .or ps, t, hs, h => by
    simp only [shape] at hs
    simp only [swf, Bool.and_eq_false_iff] at h
    simp only [normalize]
    rcases h with h | h
    · simp [not_swfAll_err sig w ps t hs h]
    · have : ((normAll sig w ps (some t)).each.drop 1).any
          (fun a => !bindsConsistent ((normAll sig w ps (some t)).each.headD []) a) = true := by
        simpa using h
      simp only [this, Bool.or_true]
  | .tuple ps, t, hs, h => by
    simp only [shape] at hs
    simp only [swf] at h
    simp only [normalize, sigAt]
    cases hsig : sig t with
    | prim => simp
    | enum c vs => simp
    | struct fs =>
      simp only [hsig, Bool.and_eq_false_iff, decide_eq_false_iff_not] at h
      simp only
      rcases h with h | h
      · have : ps.length ≠ fs.length := by omega
        simp [this]
      · simp [not_swfTuple_err sig w ps _ hs h]
  | .variant tag ps, t, hs, h => by
    simp only [shape] at hs
    simp only [swf] at h
    simp only [normalize, sigAt]
    cases hsig : sig t with
    | prim => simp
    | struct fs => simp
    | enum c vs =>
      simp only [hsig] at h
      simp only
      cases hf : findVariant vs tag with
      | none => simp
      | some tys =>
        simp only [hf, Bool.and_eq_false_iff, decide_eq_false_iff_not] at h
        simp only
        rcases h with h | h
        · have : ps.length ≠ tys.length := by omega
          simp [this]
        · simp [not_swfTuple_err sig w ps tys hs h]
  | .object names ps, t, hs, h => by
    simp only [shape, Bool.and_eq_true, decide_eq_true_eq] at hs
    simp only [swf] at h
    simp only [normalize, sigAt]
    cases hsig : sig t with
    | prim => simp
    | enum c vs => simp
    | struct fs =>
      simp only [hsig, Bool.and_eq_false_iff, decide_eq_false_iff_not] at h
      simp only
      rcases h with (h | h) | h
      · simp [normObject_err_of_dup sig w fs ps names _ hs.1 h]
      · exact absurd hs.1 h
      · simp [not_swfObject_err sig w fs ps names _ hs.2 hs.1 h]
theorem not_swfAll_err (sig : Sig) (w : Bool) : ∀ (ps : List SPat) (t : Nat), shapeL ps = true →
    swfAll sig w ps t = false → (normAll sig w ps (some t)).err = true
  | [], _, _, h => by simp [swfAll] at h
  | p :: ps, t, hs, h => by
    simp only [shapeL, Bool.and_eq_true] at hs
    simp only [swfAll, Bool.and_eq_false_iff] at h
    simp only [normAll]
    rcases h with h | h
    · simp [not_swf_err sig w p t hs.1 h]
    · simp [not_swfAll_err sig w ps t hs.2 h]
theorem not_swfTuple_err (sig : Sig) (w : Bool) : ∀ (ps : List SPat) (tys : List Nat), shapeL ps = true →
    swfTuple sig w ps tys = false → (normTuple sig w ps tys).err = true
  | [], _, _, h => by simp [swfTuple] at h
  | p :: ps, [], _, _ => by simp [normTuple]
  | p :: ps, t :: ts, hs, h => by
    simp only [shapeL, Bool.and_eq_true] at hs
    simp only [swfTuple, Bool.and_eq_false_iff] at h
    simp only [normTuple]
    rcases h with h | h
    · simp [not_swf_err sig w p t hs.1 h]
    · simp [not_swfTuple_err sig w ps ts hs.2 h]
theorem not_swfObject_err (sig : Sig) (w : Bool) (fs : List (Nat × Nat)) :
    ∀ (es : List SPat) (names : List Nat) (acc : List Pat), shapeL es = true → names.length = es.length →
      swfObject sig w fs es names = false → (normObject sig w fs es names acc).err = true
  | [], _, _, _, _, h => by simp [swfObject] at h
  | _ :: _, [], _, _, hl, _ => by simp at hl
  | p :: es, name :: names, acc, hs, hl, h => by
    simp only [shapeL, Bool.and_eq_true] at hs
    simp only [swfObject, Bool.and_eq_false_iff] at h
    simp only [normObject]
    cases hf : fieldIndex fs name with
    | none => simp
    | some it =>
      obtain ⟨i, t⟩ := it
      simp only [hf] at h
      simp only
      rcases h with h | h
      · simp [not_swf_err sig w p t hs.1 h]
      · simp [not_swfObject_err sig w fs es names _ hs.2 (by simpa using hl) h]
end

end SamVerif.Useful
