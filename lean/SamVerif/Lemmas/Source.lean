import SamVerif.Model.Source
/-! Lemmas about the reference semantics (SRC): the information order on results, monotonicity of
every functional the evaluator is built from, and basic facts about pattern matching. -/
namespace SamVerif.Source

/-! ## "out of fuel ⊑ anything" -/

/-- `r ⊑ r'`: `r` ran out of fuel, or the two results are the same -/
def Res.le {α : Type} (r r' : Res α) : Prop := r = .oof ∨ r = r'

def Ev.le (ev ev' : Ev) : Prop := ∀ env s e, (ev env s e).le (ev' env s e)

theorem Res.le_refl {α : Type} (r : Res α) : r.le r := Or.inr rfl

theorem Res.oof_le {α : Type} (r : Res α) : (Res.oof : Res α).le r := Or.inl rfl

theorem Res.le_trans {α : Type} {a b c : Res α} (h1 : a.le b) (h2 : b.le c) : a.le c := by
  cases h1 with
  | inl h => exact Or.inl h
  | inr h => subst h; exact h2

theorem Ev.le_refl (ev : Ev) : ev.le ev := fun _ _ _ => Res.le_refl _

theorem Ev.le_trans {a b c : Ev} (h1 : a.le b) (h2 : b.le c) : a.le c :=
  fun env s e => Res.le_trans (h1 env s e) (h2 env s e)

theorem Res.eq_of_le {α : Type} {r r' : Res α} (h : r.le r') (hn : r ≠ .oof) : r' = r := by
  cases h with
  | inl h => exact absurd h hn
  | inr h => exact h.symm

theorem bind_mono {α β : Type} {r r' : Res α} {k k' : α → St → Res β}
    (h : r.le r') (hk : ∀ a s, (k a s).le (k' a s)) : (r.bind k).le (r'.bind k') := by
  cases h with
  | inl h => subst h; exact Or.inl rfl
  | inr h =>
    subst h
    cases r with
    | ok a s => exact hk a s
    | panic m s => exact Or.inr rfl
    | trap t s => exact Or.inr rfl
    | oof => exact Or.inl rfl

/-! ## Monotonicity of the evaluator's building blocks -/

theorem evalList_mono {ev ev' : Ev} (h : ev.le ev') (env : Env) :
    ∀ (es : List Expr) (s : St), (evalList ev env s es).le (evalList ev' env s es) := by
  intro es
  induction es with
  | nil => intro s; exact Res.le_refl _
  | cons e es ih =>
    intro s
    simp only [evalList]
    apply bind_mono (h env s e)
    intro v s1
    apply bind_mono (ih s1)
    intro vs s2
    exact Res.le_refl _

theorem evalStmts_mono {ev ev' : Ev} (h : ev.le ev') :
    ∀ (stmts : List (Pat × Expr)) (env : Env) (s : St),
      (evalStmts ev env s stmts).le (evalStmts ev' env s stmts) := by
  intro stmts
  induction stmts with
  | nil => intro env s; exact Res.le_refl _
  | cons st rest ih =>
    intro env s
    obtain ⟨p, e⟩ := st
    simp only [evalStmts]
    apply bind_mono (h env s e)
    intro v s1
    split
    · exact ih _ _
    · exact Res.le_refl _

theorem evalCases_mono {ev ev' : Ev} (h : ev.le ev') (env : Env) (s : St) (v : Val) :
    ∀ (cases : List (Pat × Expr)), (evalCases ev env s v cases).le (evalCases ev' env s v cases) := by
  intro cases
  induction cases with
  | nil => exact Res.le_refl _
  | cons c rest ih =>
    obtain ⟨p, body⟩ := c
    simp only [evalCases]
    split
    · exact h _ _ _
    · exact ih

theorem invoke_mono (P : Program) {ev ev' : Ev} (h : ev.le ev') (cls name : String) (self : Val)
    (args : List Val) (s : St) :
    (invoke P ev cls name self args s).le (invoke P ev' cls name self args s) := by
  unfold invoke
  split
  · exact Res.le_refl _
  · split
    · exact Res.le_refl _
    · split
      · exact h _ _ _
      · exact Res.le_refl _

theorem applyVal_mono (P : Program) {ev ev' : Ev} (h : ev.le ev') (f : Val) (args : List Val)
    (s : St) : (applyVal P ev f args s).le (applyVal P ev' f args s) := by
  unfold applyVal
  split
  · exact h _ _ _
  · exact invoke_mono P h _ _ _ _ _
  · exact Res.le_refl _

theorem step_mono (P : Program) {ev ev' : Ev} (h : ev.le ev') : Ev.le (step P ev) (step P ev') := by
  intro env s e
  cases e with
  | int n => exact Res.le_refl _
  | bool b => exact Res.le_refl _
  | str raw => exact Res.le_refl _
  | var x => exact Res.le_refl _
  | classId c => exact Res.le_refl _
  | tuple c es =>
    simp only [step]
    exact bind_mono (evalList_mono h env es s) (fun _ _ => Res.le_refl _)
  | field i e =>
    simp only [step]
    exact bind_mono (h env s e) (fun _ _ => Res.le_refl _)
  | method r name o =>
    simp only [step]
    exact bind_mono (h env s o) (fun _ _ => Res.le_refl _)
  | unary op e =>
    simp only [step]
    exact bind_mono (h env s e) (fun _ _ => Res.le_refl _)
  | call f args =>
    simp only [step]
    apply bind_mono (h env s f)
    intro fv s1
    apply bind_mono (evalList_mono h env args s1)
    intro vs s2
    exact applyVal_mono P h fv vs s2
  | binary op e1 e2 =>
    cases op <;> simp only [step] <;> apply bind_mono (h env s e1) <;> intro a s1
    case and =>
      split
      · exact Res.le_refl _
      · exact bind_mono (h env s1 e2) (fun _ _ => Res.le_refl _)
      · exact Res.le_refl _
    case or =>
      split
      · exact Res.le_refl _
      · exact bind_mono (h env s1 e2) (fun _ _ => Res.le_refl _)
      · exact Res.le_refl _
    all_goals exact bind_mono (h env s1 e2) (fun _ _ => Res.le_refl _)
  | ite c e1 e2 =>
    simp only [step]
    apply bind_mono (h env s c)
    intro v s1
    split
    · exact h _ _ _
    · exact h _ _ _
    · exact Res.le_refl _
  | iflet p e e1 e2 =>
    simp only [step]
    apply bind_mono (h env s e)
    intro v s1
    split
    · exact h _ _ _
    · exact h _ _ _
  | «match» e cases =>
    simp only [step]
    apply bind_mono (h env s e)
    intro v s1
    exact evalCases_mono h env s1 v cases
  | lam ps body => exact Res.le_refl _
  | block stmts final =>
    simp only [step]
    apply bind_mono (evalStmts_mono h stmts env s)
    intro env' s1
    split
    · exact h _ _ _
    · exact Res.le_refl _

theorem eval_le_succ (P : Program) : ∀ n, Ev.le (eval P n) (eval P (n + 1)) := by
  intro n
  induction n with
  | zero => intro env s e; exact Res.oof_le _
  | succ n ih => exact step_mono P ih

theorem eval_le (P : Program) {n m : Nat} (h : n ≤ m) : Ev.le (eval P n) (eval P m) := by
  induction h with
  | refl => exact Ev.le_refl _
  | step _ ih => exact Ev.le_trans ih (eval_le_succ P _)

/-! ## Pattern matching facts -/

theorem mem_append_fst {b1 b2 : Env} {x : String} :
    x ∈ (b1 ++ b2).map Prod.fst ↔ x ∈ b1.map Prod.fst ∨ x ∈ b2.map Prod.fst := by
  simp [List.map_append, List.mem_append]

end SamVerif.Source
