import SamVerif.Lemmas.Useful
/-! The source→abstract normalisation (`check_matching_pattern`) always yields abstract patterns that
are well-typed for the scrutinee type — so the typing hypotheses of the theorems in `Props/C07.lean`
hold for *every* program the checker analyses, including ill-formed patterns ("bad patterns default"). -/
namespace SamVerif.Useful

theorem patTy_badDefault (sig : Sig) (w : Bool) (t : Nat) : patTy sig (badDefault w) t = true := by
  cases w <;> simp [badDefault, patTy, patTyAll]

theorem patTy_mkOr (sig : Sig) (t : Nat) : ∀ (ps : List Pat), (∀ p ∈ ps, patTy sig p t = true) →
    patTy sig (mkOr ps) t = true
  | [], _ => by simp [mkOr, patTy, patTyAll]
  | [p], h => by simpa [mkOr] using h p (by simp)
  | p :: q :: ps, h => by
    simp only [mkOr, patTy]
    exact (patTyAll_iff sig _ t).mpr h

theorem patTys_set : ∀ (sig : Sig) (acc : List Pat) (ts : List Nat) (i : Nat) (p : Pat),
    patTys sig acc ts = true → (∀ t, ts[i]? = some t → patTy sig p t = true) →
    patTys sig (acc.set i p) ts = true
  | _, [], [], _, _, h, _ => by simpa using h
  | sig, a :: acc, t :: ts, 0, p, h, hp => by
    simp only [patTys, Bool.and_eq_true] at h
    simp [patTys, h.2, hp t (by simp)]
  | sig, a :: acc, t :: ts, i + 1, p, h, hp => by
    simp only [patTys, Bool.and_eq_true] at h
    simp only [List.set_cons_succ, patTys, Bool.and_eq_true]
    exact ⟨h.1, patTys_set sig acc ts i p h.2 (fun t' ht' => hp t' (by simpa using ht'))⟩
  | _, [], _ :: _, _, _, h, _ => by simp [patTys] at h
  | _, _ :: _, [], _, _, h, _ => by simp [patTys] at h

theorem fieldIndex_go : ∀ (fs : List (Nat × Nat)) (name k i t : Nat),
    fieldIndex.go name fs k = some (i, t) → ∃ j, i = k + j ∧ (fs.map (·.2))[j]? = some t
  | [], _, _, _, _, h => by simp [fieldIndex.go] at h
  | (n, t') :: rest, name, k, i, t, h => by
    simp only [fieldIndex.go] at h
    by_cases e : n = name
    · simp only [e, if_true, Option.some.injEq, Prod.mk.injEq] at h
      exact ⟨0, by omega, by simp [h.2]⟩
    · simp only [e, if_false] at h
      obtain ⟨j, hj, hg⟩ := fieldIndex_go rest name (k + 1) i t h
      exact ⟨j + 1, by omega, by simpa using hg⟩

theorem fieldIndex_some (fs : List (Nat × Nat)) (name i t : Nat) (h : fieldIndex fs name = some (i, t)) :
    (fs.map (·.2))[i]? = some t := by
  obtain ⟨j, hj, hg⟩ := fieldIndex_go fs name 0 i t h
  have : i = j := by omega
  rw [this]; exact hg

theorem patTys_wilds_n (sig : Sig) (ts : List Nat) (n : Nat) (h : n = ts.length) :
    patTys sig (wilds n) ts = true := by subst h; exact patTys_wilds sig ts

theorem patTys_pad (sig : Sig) (ps : List Pat) (k : Nat) (tys : List Nat)
    (h : patTys sig ps (tys.take k) = true) :
    patTys sig (ps ++ wilds (tys.length - k)) tys = true := by
  have := patTys_append sig ps (tys.take k) (wilds (tys.length - k)) (tys.drop k) h
    (patTys_wilds_n sig _ _ (by simp))
  rwa [List.take_append_drop] at this

/-- typed at `ty`; at `any` (`none`) the node is typed at every type -/
def NormTyped (sig : Sig) (p : Pat) (ty : Option Nat) : Prop :=
  match ty with
  | some t => patTy sig p t = true
  | none => ∀ t, patTy sig p t = true

mutual
theorem normalize_typed (sig : Sig) (w : Bool) : ∀ (p : SPat) (ty : Option Nat),
    NormTyped sig (normalize sig w p ty).pat ty
  | .id _, ty => by cases ty <;> simp [NormTyped, normalize, patTy]
  | .wild, ty => by cases ty <;> simp [NormTyped, normalize, patTy]
  | .tuple ps, ty => by
    cases ty with
    | none => intro t; simp [normalize, sigAt, patTy_badDefault]
    | some t =>
      simp only [NormTyped, normalize, sigAt]
      cases hs : sig t with
      | prim => simp [patTy_badDefault]
      | enum c vs => simp [patTy_badDefault]
      | struct fs =>
        simp only [patTy, ctorFields, hs]
        have := normTuple_typed sig w ps (fs.map (·.2))
        have h2 := patTys_pad sig _ ps.length _ this
        simpa using h2
  | .object names es, ty => by
    cases ty with
    | none => intro t; simp [normalize, sigAt, patTy_badDefault]
    | some t =>
      simp only [NormTyped, normalize, sigAt]
      cases hs : sig t with
      | prim => simp [patTy_badDefault]
      | enum c vs => simp [patTy_badDefault]
      | struct fs =>
        simp only [patTy, ctorFields, hs]
        exact normObject_typed sig w fs es names (wilds fs.length)
          (patTys_wilds_n sig _ _ (by simp))
  | .variant tag ps, ty => by
    cases ty with
    | none => intro t; simp [normalize, sigAt, patTy_badDefault]
    | some t =>
      simp only [NormTyped, normalize, sigAt]
      cases hs : sig t with
      | prim => simp [patTy_badDefault]
      | struct fs => simp [patTy_badDefault]
      | enum c vs =>
        simp only
        cases hf : findVariant vs tag with
        | none => simp [patTy, patTyAll]
        | some tys =>
          simp only [patTy, ctorFields, hs, if_true, hf]
          exact patTys_pad sig _ ps.length _ (normTuple_typed sig w ps tys)
  | .or ps, ty => by
    have hall := normAll_typed sig w ps ty
    simp only [normalize]
    cases ty with
    | none =>
      intro t
      split
      · exact patTy_badDefault sig w t
      · exact patTy_mkOr sig t _ (fun p hp => hall p hp t)
    | some t =>
      simp only [NormTyped]
      split
      · exact patTy_badDefault sig w t
      · exact patTy_mkOr sig t _ (fun p hp => hall p hp)
theorem normTuple_typed (sig : Sig) (w : Bool) : ∀ (ps : List SPat) (tys : List Nat),
    patTys sig (normTuple sig w ps tys).pats (tys.take ps.length) = true
  | [], tys => by simp [normTuple, patTys]
  | p :: ps, [] => by
    have := normTuple_typed sig w ps []
    simpa [normTuple] using this
  | p :: ps, t :: ts => by
    have h1 := normalize_typed sig w p (some t)
    have h2 := normTuple_typed sig w ps ts
    simp only [NormTyped] at h1
    simp [normTuple, patTys, h1, h2]
theorem normObject_typed (sig : Sig) (w : Bool) (fs : List (Nat × Nat)) :
    ∀ (es : List SPat) (names : List Nat) (acc : List Pat), patTys sig acc (fs.map (·.2)) = true →
      patTys sig (normObject sig w fs es names acc).pats (fs.map (·.2)) = true
  | [], _, acc, h => by simpa [normObject] using h
  | _ :: _, [], acc, h => by simpa [normObject] using h
  | p :: es, name :: names, acc, h => by
    simp only [normObject]
    cases hf : fieldIndex fs name with
    | none =>
      simp only
      have h1 := normalize_typed sig w p none
      exact normObject_typed sig w fs es names _ (patTys_set sig acc _ 0 _ h (fun t _ => h1 t))
    | some it =>
      obtain ⟨i, t⟩ := it
      simp only
      have h1 := normalize_typed sig w p (some t)
      have hi := fieldIndex_some fs name i t hf
      exact normObject_typed sig w fs es names _ (patTys_set sig acc _ i _ h (fun t' ht' => by
        rw [hi] at ht'; cases ht'; exact h1))
theorem normAll_typed (sig : Sig) (w : Bool) : ∀ (ps : List SPat) (ty : Option Nat),
    ∀ q ∈ (normAll sig w ps ty).pats, NormTyped sig q ty
  | [], _ => by simp [normAll]
  | p :: ps, ty => by
    intro q hq
    simp only [normAll, List.mem_cons] at hq
    rcases hq with hq | hq
    · rw [hq]; exact normalize_typed sig w p ty
    · exact normAll_typed sig w ps ty q hq
end


/-! ### the decidable hypothesis checks are sound -/

theorem sigOfTable_ge (defs : List Def) (t : Nat) (h : ¬ t < defs.length) : sigOfTable defs t = .prim := by
  simp [sigOfTable, List.getD, List.getElem?_eq_none (Nat.le_of_not_lt h)]

theorem cxOk_of_check (defs : List Def) (h : cxOkCheck defs = true) : CxOk (sigOfTable defs) (cxOf defs) := by
  intro t cls vs hs
  by_cases ht : t < defs.length
  · simp only [cxOkCheck, List.all_eq_true, List.mem_range] at h
    have := h t ht
    simpa [hs] using this
  · rw [sigOfTable_ge defs t ht] at hs; cases hs

theorem nodup_of_nodupNatL : ∀ (l : List Nat), nodupNatL l = true → l.Nodup
  | [], _ => List.nodup_nil
  | x :: xs, h => by
    simp only [nodupNatL, Bool.and_eq_true, Bool.not_eq_true'] at h
    refine List.nodup_cons.mpr ⟨?_, nodup_of_nodupNatL xs h.2⟩
    intro hm
    have : xs.contains x = true := by simpa using hm
    rw [h.1] at this; cases this

theorem sigNodup_of_check (defs : List Def) (h : nodupCheck defs = true) : SigNodup (sigOfTable defs) := by
  intro t cls vs hs
  by_cases ht : t < defs.length
  · simp only [nodupCheck, List.all_eq_true, List.mem_range] at h
    have := h t ht
    simp only [hs] at this
    exact nodup_of_nodupNatL _ this
  · rw [sigOfTable_ge defs t ht] at hs; cases hs


/-! ### conversion is compositional -/

theorem normTuple_pats_eq (sig : Sig) (w : Bool) : ∀ (ps : List SPat) (tys : List Nat),
    ps.length = tys.length →
    (normTuple sig w ps tys).pats = List.zipWith (fun p t => (normalize sig w p (some t)).pat) ps tys
  | [], [], _ => by simp [normTuple]
  | p :: ps, t :: ts, h => by
    simp [normTuple, normTuple_pats_eq sig w ps ts (by simpa using h)]
  | [], _ :: _, h => by simp at h
  | _ :: _, [], h => by simp at h

end SamVerif.Useful
