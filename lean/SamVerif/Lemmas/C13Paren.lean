import SamVerif.Lemmas.Fmt
/-!
C13, operand-position parentheses: builder-C08's lemma `ext_all` ("appending `)` to a successfully
parsed input") generalised to an arbitrary continuation `) T` — same proof, by induction on the
recursion budget over the five mutually recursive parser functions of `Model/Fmt.lean`.
-/
namespace SamVerif.Fmt

def ExtAtT (T : List Tok) (f : Nat) : Prop :=
  (∀ ts e r, parseTop f ts = some (e, r) → parseTop f (ts ++ (.rp :: T)) = some (e, r ++ (.rp :: T))) ∧
  (∀ ts e r, parseBase f ts = some (e, r) → parseBase f (ts ++ (.rp :: T)) = some (e, r ++ (.rp :: T))) ∧
  (∀ ts e r, parseUnary f ts = some (e, r) → parseUnary f (ts ++ (.rp :: T)) = some (e, r ++ (.rp :: T))) ∧
  (∀ k ts e r, parseLevel f k ts = some (e, r) → parseLevel f k (ts ++ (.rp :: T)) = some (e, r ++ (.rp :: T))) ∧
  (∀ k a ts e r, parseLoop f k a ts = some (e, r) → parseLoop f k a (ts ++ (.rp :: T)) = some (e, r ++ (.rp :: T)))

theorem ext_allT (T : List Tok) : ∀ f, ExtAtT T f := by
  intro f
  induction f with
  | zero =>
    refine ⟨?_, ?_, ?_, ?_, ?_⟩ <;> intros <;> simp_all [parseTop, parseBase, parseUnary, parseLevel, parseLoop]
  | succ f ih =>
    obtain ⟨ht, hb, hu, hl, hp⟩ := ih
    refine ⟨?_, ?_, ?_, ?_, ?_⟩
    · intro ts e r h
      cases ts with
      | nil =>
        rw [parseTop] at h
        · simp only [List.nil_append]
          rw [parseTop]
          · exact hl _ _ _ _ h
          all_goals (intro _ _ he; cases he)
        all_goals (intro _ _ he; cases he)
      | cons t ts =>
        cases t with
        | kwIf k => simp only [parseTop, Option.some.injEq, Prod.mk.injEq] at h; simp [parseTop, h.1, h.2]
        | kwMatch k => simp only [parseTop, Option.some.injEq, Prod.mk.injEq] at h; simp [parseTop, h.1, h.2]
        | lp => rw [parseTop] at h; rw [List.cons_append, parseTop]; exact hl _ _ _ _ h; all_goals (intro _ _ he; cases he)
        | rp => rw [parseTop] at h; rw [List.cons_append, parseTop]; exact hl _ _ _ _ h; all_goals (intro _ _ he; cases he)
        | bang => rw [parseTop] at h; rw [List.cons_append, parseTop]; exact hl _ _ _ _ h; all_goals (intro _ _ he; cases he)
        | op o => rw [parseTop] at h; rw [List.cons_append, parseTop]; exact hl _ _ _ _ h; all_goals (intro _ _ he; cases he)
        | atom a => rw [parseTop] at h; rw [List.cons_append, parseTop]; exact hl _ _ _ _ h; all_goals (intro _ _ he; cases he)
        | post a fld => rw [parseTop] at h; rw [List.cons_append, parseTop]; exact hl _ _ _ _ h; all_goals (intro _ _ he; cases he)
        | lam a => rw [parseTop] at h; rw [List.cons_append, parseTop]; exact hl _ _ _ _ h; all_goals (intro _ _ he; cases he)
    · intro ts e r h
      cases ts with
      | nil => simp [parseBase] at h
      | cons t ts =>
        cases t with
        | atom a => simp only [parseBase, Option.some.injEq, Prod.mk.injEq] at h; simp [parseBase, h.1, h.2]
        | lp =>
          simp only [parseBase, List.cons_append] at h ⊢
          cases h0 : parseTop f ts with
          | none => simp [h0] at h
          | some p =>
            obtain ⟨e', r'⟩ := p
            rw [ht ts e' r' h0]
            simp only [h0] at h
            cases r' with
            | nil => simp at h
            | cons t' r'' =>
              cases t' <;> simp at h ⊢
              exact ⟨h.1, by rw [h.2]⟩
        | lam k =>
          simp only [parseBase, List.cons_append] at h ⊢
          cases h0 : parseTop f ts with
          | none => simp [h0] at h
          | some p =>
            obtain ⟨e', r'⟩ := p
            rw [ht ts e' r' h0]
            simp only [h0, Option.some.injEq, Prod.mk.injEq] at h
            simp [h.1, h.2]
        | rp => simp [parseBase] at h
        | bang => simp [parseBase] at h
        | op o => simp [parseBase] at h
        | post a fld => simp [parseBase] at h
        | kwIf a => simp [parseBase] at h
        | kwMatch a => simp [parseBase] at h
    · intro ts e r h
      cases ts with
      | nil =>
        simp only [parseUnary] at h
        simp only [List.nil_append]
        rw [parseUnary]
        · exact hl _ _ _ _ h
        all_goals (intro _ he; cases he)
      | cons t ts =>
        cases t with
        | bang =>
          simp only [parseUnary, List.cons_append] at h ⊢
          cases h0 : parseLevel f 6 ts with
          | none => simp [h0] at h
          | some p =>
            obtain ⟨e', r'⟩ := p
            rw [hl 6 ts e' r' h0]
            simp only [h0, Option.some.injEq, Prod.mk.injEq] at h
            simp [h.1, h.2]
        | op o =>
          by_cases ho : o = .minus
          · subst ho
            simp only [parseUnary, List.cons_append] at h ⊢
            cases h0 : parseLevel f 6 ts with
            | none => simp [h0] at h
            | some p =>
              obtain ⟨e', r'⟩ := p
              rw [hl 6 ts e' r' h0]
              simp only [h0, Option.some.injEq, Prod.mk.injEq] at h
              simp [h.1, h.2]
          · rw [parseUnary] at h
            · rw [List.cons_append, parseUnary]
              · exact hl _ _ _ _ h
              all_goals (intro ts' hh; cases hh; first | exact ho rfl | skip)
            all_goals (intro ts' hh; cases hh; first | exact ho rfl | skip)
        | atom a => simp only [parseUnary, List.cons_append] at h ⊢; exact hl _ _ _ _ h
        | lp => simp only [parseUnary, List.cons_append] at h ⊢; exact hl _ _ _ _ h
        | rp => simp only [parseUnary, List.cons_append] at h ⊢; exact hl _ _ _ _ h
        | post a fld => simp only [parseUnary, List.cons_append] at h ⊢; exact hl _ _ _ _ h
        | kwIf a => simp only [parseUnary, List.cons_append] at h ⊢; exact hl _ _ _ _ h
        | kwMatch a => simp only [parseUnary, List.cons_append] at h ⊢; exact hl _ _ _ _ h
        | lam a => simp only [parseUnary, List.cons_append] at h ⊢; exact hl _ _ _ _ h
    · intro k ts e r h
      rw [parseLevel] at h ⊢
      by_cases hk : k ≥ 6
      · simp only [hk, if_true] at h ⊢
        cases h0 : parseBase f ts with
        | none => simp [h0] at h
        | some p =>
          obtain ⟨e', r'⟩ := p
          rw [hb ts e' r' h0]
          simp only [h0] at h
          exact hp _ _ _ _ _ h
      · simp only [hk, if_false] at h ⊢
        by_cases h5 : k = 5
        · simp only [h5, if_true] at h ⊢; exact hu _ _ _ h
        · simp only [h5, if_false] at h ⊢
          cases h0 : parseLevel f (k + 1) ts with
          | none => simp [h0] at h
          | some p =>
            obtain ⟨e', r'⟩ := p
            rw [hl (k + 1) ts e' r' h0]
            simp only [h0] at h
            exact hp _ _ _ _ _ h
    · intro k a ts e r h
      cases ts with
      | nil =>
        simp only [parseLoop, Option.some.injEq, Prod.mk.injEq] at h
        simp [parseLoop, h.1, ← h.2]
      | cons t ts =>
        cases t with
        | op o =>
          simp only [parseLoop, List.cons_append] at h ⊢
          by_cases ho : o.plevel = k
          · simp only [ho, if_true] at h ⊢
            cases h0 : parseLevel f (k + 1) ts with
            | none => simp [h0] at h
            | some p =>
              obtain ⟨e', r'⟩ := p
              rw [hl (k + 1) ts e' r' h0]
              simp only [h0] at h
              exact hp _ _ _ _ _ h
          · simp only [ho, if_false, Option.some.injEq, Prod.mk.injEq] at h ⊢
            exact ⟨h.1, by rw [← h.2]; rfl⟩
        | post p fld =>
          simp only [parseLoop, List.cons_append] at h ⊢
          by_cases hk : k = 6
          · simp only [hk, if_true] at h ⊢
            have hlt : startsLt (ts ++ (.rp :: T)) = startsLt ts := by
              cases ts with
              | nil => rfl
              | cons t ts' =>
                cases t <;> try rfl
                rename_i o; cases o <;> rfl
            rw [hlt]
            by_cases hc : (fld && startsLt ts) = true
            · simp [hc] at h
            · simp only [hc] at h ⊢; exact hp _ _ _ _ _ h
          · simp only [hk, if_false, Option.some.injEq, Prod.mk.injEq] at h ⊢
            exact ⟨h.1, by rw [← h.2]; rfl⟩
        | atom x => simp only [parseLoop, Option.some.injEq, Prod.mk.injEq, List.cons_append] at h ⊢; exact ⟨h.1, by rw [← h.2]; rfl⟩
        | lp => simp only [parseLoop, Option.some.injEq, Prod.mk.injEq, List.cons_append] at h ⊢; exact ⟨h.1, by rw [← h.2]; rfl⟩
        | rp => simp only [parseLoop, Option.some.injEq, Prod.mk.injEq, List.cons_append] at h ⊢; exact ⟨h.1, by rw [← h.2]; rfl⟩
        | bang => simp only [parseLoop, Option.some.injEq, Prod.mk.injEq, List.cons_append] at h ⊢; exact ⟨h.1, by rw [← h.2]; rfl⟩
        | kwIf x => simp only [parseLoop, Option.some.injEq, Prod.mk.injEq, List.cons_append] at h ⊢; exact ⟨h.1, by rw [← h.2]; rfl⟩
        | kwMatch x => simp only [parseLoop, Option.some.injEq, Prod.mk.injEq, List.cons_append] at h ⊢; exact ⟨h.1, by rw [← h.2]; rfl⟩
        | lam x => simp only [parseLoop, Option.some.injEq, Prod.mk.injEq, List.cons_append] at h ⊢; exact ⟨h.1, by rw [← h.2]; rfl⟩


end SamVerif.Fmt
