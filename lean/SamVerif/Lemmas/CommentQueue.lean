import SamVerif.Model.CommentQueue
/-! Helper lemmas for the comment queue part of `Props/C09.lean`. -/
namespace SamVerif.CommentQueue

theorem drain_comments (r : List RawTok) (pend : List Comment) :
    (drain r pend).2.2 ++ commentsOf (drain r pend).2.1 = pend ++ commentsOf r := by
  induction r generalizing pend with
  | nil => simp [drain, commentsOf]
  | cons x xs ih =>
    cases x with
    | comment c => simp only [drain, commentsOf]; rw [ih]; simp
    | tok t => simp [drain, commentsOf]

/-- The comments not yet handed out: pending ones, then those still in the stream. -/
def remaining (st : State) : List Comment := st.pending ++ commentsOf st.rest

theorem peek_remaining (st : State) : remaining (peek st).1 = remaining st := by
  unfold peek
  split
  · rfl
  · simp only [remaining]
    exact drain_comments st.rest st.pending

theorem consume_remaining (st : State) :
    (consume st).2 ++ remaining (consume st).1 = remaining st := by
  have h := peek_remaining st
  simp only [consume, remaining] at h ⊢
  simpa using h

theorem run_conserves (ops : List Op) (st : State) :
    (run ops st).2.flatten ++ remaining (run ops st).1 = remaining st := by
  induction ops generalizing st with
  | nil => simp [run]
  | cons op ops ih =>
    cases op with
    | peek => simp only [run]; rw [ih, peek_remaining]
    | consume =>
      simp only [run, List.flatten_cons, List.append_assoc]
      rw [ih, consume_remaining]

end SamVerif.CommentQueue
