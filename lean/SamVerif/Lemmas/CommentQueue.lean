import SamVerif.Model.CommentQueue
/-! Helper lemmas for the comment queue part of `Props/C09.lean`. -/
namespace SamVerif.CommentQueue

theorem drain_comments (r : List RawTok) (pend : List Comment) :
    (drain r pend).2.2 ++ commentsOf (drain r pend).2.1 = pend ++ commentsOf r := by
  induction r generalizing pend with
  | nil => simp [drain, commentsOf]
  | cons x xs ih =>
    cases x with
    | comment c => simp only [drain, commentsOf]; rw [ih]; simp
    | tok t => simp [drain, commentsOf]

/-- The comments not yet handed out: pending ones, then those still in the stream. -/
def remaining (st : State) : List Comment := st.pending ++ commentsOf st.rest

theorem peek_remaining (st : State) : remaining (peek st).1 = remaining st := by
  unfold peek
  split
  · rfl
  · simp only [remaining]
    exact drain_comments st.rest st.pending

theorem consume_remaining (st : State) :
    (consume st).2 ++ remaining (consume st).1 = remaining st := by
  have h := peek_remaining st
  simp only [consume, remaining] at h ⊢
  simpa using h

theorem run_conserves (ops : List Op) (st : State) :
    (run ops st).2.flatten ++ remaining (run ops st).1 = remaining st := by
  induction ops generalizing st with
  | nil => simp [run]
  | cons op ops ih =>
    cases op with
    | peek => simp only [run]; rw [ih, peek_remaining]
    | consume =>
      simp only [run, List.flatten_cons, List.append_assoc]
      rw [ih, consume_remaining]

end SamVerif.CommentQueue

namespace SamVerif.CommentQueue

theorem pushBack_remaining (cs : List Comment) (st : State) :
    remaining (pushBack cs st) = cs ++ remaining st := by
  simp [pushBack, remaining]

/-- handed-out comments of the elements -/
def elemComments (es : List (Str × List Comment)) : List Comment := es.flatMap (·.2)

theorem elemComments_reverse_cons (acc : List (Str × List Comment)) (x : Str × List Comment) :
    elemComments (x :: acc).reverse = elemComments acc.reverse ++ x.2 := by
  simp [elemComments]

theorem parseList_conserves (endTok : Str) (fuel : Nat) (st : State) (extra : List Comment)
    (acc : List (Str × List Comment)) :
    elemComments (parseList endTok fuel st extra acc).2.1 ++ (parseList endTok fuel st extra acc).2.2 ++
        remaining (parseList endTok fuel st extra acc).1 =
      elemComments acc.reverse ++ extra ++ remaining st := by
  induction fuel generalizing st extra acc with
  | zero => simp [parseList]
  | succ n ih =>
    have hp0 := peek_remaining st
    have hc1 := consume_remaining (peek st).1
    -- abbreviations
    generalize hst1 : (consume (peek st).1).1 = st1 at *
    generalize hcs : (consume (peek st).1).2 = cs at *
    have hp1 := peek_remaining st1
    have base : elemComments acc.reverse ++ extra ++ remaining st =
        elemComments acc.reverse ++ (extra ++ cs) ++ remaining (peek st1).1 := by
      rw [hp1, ← hp0, ← hc1]; simp [List.append_assoc]
    simp only [parseList, hst1, hcs]
    split
    · rename_i s hs
      split
      · -- a comma
        have hc2 := consume_remaining (peek st1).1
        generalize hst2 : (consume (peek st1).1).1 = st2 at *
        generalize hccs : (consume (peek st1).1).2 = ccs at *
        have hp2 := peek_remaining st2
        split
        · rename_i s2 hs2
          split
          · -- trailing comma followed by the closing token
            have hc3 := consume_remaining (pushBack ccs (peek st2).1)
            rw [pushBack_remaining, hp2] at hc3
            simp only [elemComments_reverse_cons]
            rw [base, ← hc2, ← hc3]
            simp [List.append_assoc]
          · -- next element
            rw [ih, elemComments_reverse_cons, base, ← hc2, hp2]
            simp [List.append_assoc]
        · -- end of input after the comma
          simp only [elemComments_reverse_cons]
          rw [base, ← hc2, hp2]
          simp [List.append_assoc]
      · split
        · -- closing token
          have hc3 := consume_remaining (peek st1).1
          simp only [elemComments_reverse_cons]
          rw [base, ← hc3]
          simp [List.append_assoc]
        · simp only [elemComments_reverse_cons, List.append_nil]
          rw [base]
    · simp only [elemComments_reverse_cons, List.append_nil]
      rw [base]

end SamVerif.CommentQueue
