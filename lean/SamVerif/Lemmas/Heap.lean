import SamVerif.Model.Heap
/-! Helper lemmas and the representation invariant for the heap model (C17, C11). -/
namespace SamVerif.Heap

@[simp] theorem lookup_nil (s : Bytes) : lookup [] s = none := rfl

theorem lookup_cons (k : Bytes) (v : Nat) (m : Intern) (s : Bytes) :
    lookup ((k, v) :: m) s = if k = s then some v else lookup m s := rfl

theorem lookup_erase (m : Intern) (s t : Bytes) :
    lookup (erase m s) t = if t = s then none else lookup m t := by
  induction m with
  | nil => simp [erase]
  | cons kv m ih =>
    obtain ⟨k, v⟩ := kv
    simp only [erase, List.filter_cons] at ih ⊢
    by_cases hk : k = s
    · subst hk; simp only [ne_eq, not_true_eq_false, decide_false, Bool.false_eq_true, ↓reduceIte]
      rw [ih, lookup_cons]; grind
    · simp only [ne_eq, hk, not_false_eq_true, decide_true, ↓reduceIte]
      rw [lookup_cons, lookup_cons, ih]; grind

theorem lookup_filter_notin (m : Intern) (gone : List Bytes) (t : Bytes) :
    lookup (m.filter (fun kv => kv.1 ∉ gone)) t = if t ∈ gone then none else lookup m t := by
  induction m with
  | nil => simp
  | cons kv m ih =>
    obtain ⟨k, v⟩ := kv
    simp only [List.filter_cons]
    by_cases hk : k ∈ gone
    · simp only [hk, not_true_eq_false, decide_false, Bool.false_eq_true, ↓reduceIte]
      rw [ih, lookup_cons]; grind
    · simp only [hk, not_false_eq_true, decide_true, ↓reduceIte]
      rw [lookup_cons, lookup_cons, ih]; grind

/-- Representation invariant tying the two intern tables to the slot table. -/
structure Inv (h : Heap) : Prop where
  tempSound : ∀ (s : Bytes) (id : Nat), lookup h.internTemp s = some id →
    h.slots[id]? = some (Slot.temp s true) ∨ h.slots[id]? = some (Slot.temp s false)
  staticSound : ∀ (s : Bytes) (id : Nat), lookup h.internStatic s = some id →
    h.slots[id]? = some (Slot.perm s)
  tempComplete : ∀ (id : Nat) (s : Bytes) (m : Bool), h.slots[id]? = some (Slot.temp s m) →
    lookup h.internTemp s = some id
  permComplete : ∀ (id : Nat) (s : Bytes), h.slots[id]? = some (Slot.perm s) → inlineMax < s.length →
    lookup h.internStatic s = some id
  tempLong : ∀ (id : Nat) (s : Bytes) (m : Bool), h.slots[id]? = some (Slot.temp s m) →
    inlineMax < s.length
  disjoint : ∀ (s : Bytes) (id : Nat), lookup h.internStatic s = some id →
    lookup h.internTemp s = none
  sweepIdx : h.sweepIndex ≤ h.slots.length
  modPerm : ∀ parts ∈ h.modRefs, ∀ id, Handle.ref id ∈ parts →
    id < h.slots.length ∧ ∀ (s : Bytes) (m : Bool), h.slots[id]? ≠ some (Slot.temp s m)

theorem inv_init : Inv init := by
  constructor <;> simp [init]

/-- A handle the API may have issued: inline strings are short, table strings are long. -/
def Valid (h : Heap) (p : Handle) : Prop :=
  match p with
  | .inl s => s.length ≤ inlineMax
  | .ref id => id < h.slots.length ∧ ∀ s, h.slots[id]? = some (.perm s) → inlineMax < s.length

theorem getElem?_push {α} (l : List α) (x : α) (i : Nat) :
    (l ++ [x])[i]? = if i < l.length then l[i]? else if i = l.length then some x else none := by
  grind


theorem getElem?_set' {α} (l : List α) (j : Nat) (x : α) (i : Nat) :
    (l.set j x)[i]? = if j = i ∧ j < l.length then some x else l[i]? := by
  grind

/-- Handles mentioned by an operation refer to existing slots (they were issued earlier). -/
def HandleOk (h : Heap) : Handle → Prop
  | .inl s => s.length ≤ inlineMax
  | .ref id => id < h.slots.length

def OpOk (h : Heap) : Op → Prop
  | .allocModuleRef ps => ∀ p ∈ ps, HandleOk h p
  | .mark p => HandleOk h p
  | _ => True

theorem inv_allocString {h : Heap} (hi : Inv h) (s : Bytes) : Inv (allocString h s).1 := by
  unfold allocString
  split
  · exact hi
  · split
    · exact hi
    · split
      · exact hi
      · obtain ⟨h1, h2, h3, h4, h5, hd, h6, h7⟩ := hi
        constructor <;> simp only [lookup_cons, getElem?_push, List.length_append] <;> grind

theorem inv_promote {h : Heap} (hi : Inv h) (s : Bytes) (id : Nat) (m : Bool)
    (hsl : h.slots[id]? = some (.temp s m)) :
    Inv { h with slots := h.slots.set id (.perm s), internTemp := erase h.internTemp s,
                 internStatic := (s, id) :: h.internStatic } := by
  obtain ⟨h1, h2, h3, h4, h5, hd, h6, h7⟩ := hi
  have hlt : id < h.slots.length := by
    have := (List.getElem?_eq_some_iff.mp hsl).1; exact this
  constructor <;> simp only [lookup_cons, lookup_erase, getElem?_set', List.length_set] <;> grind

theorem inv_allocStatic {h : Heap} (hi : Inv h) (s : Bytes) : Inv (allocStatic h s).1 := by
  unfold allocStatic
  split
  · exact hi
  · split
    · exact hi
    · split
      · rename_i _ _ id ht
        rcases hi.tempSound s id ht with hm | hm
        · exact inv_promote hi s id true hm
        · exact inv_promote hi s id false hm
      · obtain ⟨h1, h2, h3, h4, h5, hd, h6, h7⟩ := hi
        constructor <;> simp only [lookup_cons, getElem?_push, List.length_append] <;> grind

theorem inv_allocTemp {h : Heap} (hi : Inv h) (n : Bytes) : Inv (allocTemp h n).1 := by
  unfold allocTemp
  obtain ⟨h1, h2, h3, h4, h5, hd, h6, h7⟩ := hi
  constructor <;> simp only [lookup_cons, getElem?_push, List.length_append] <;> grind [inlineMax]

theorem makePermanent_cases (h : Heap) (p : Handle) :
    makePermanent h p = h ∨
    ∃ id s m, p = .ref id ∧ h.slots[id]? = some (Slot.temp s m) ∧
      makePermanent h p =
        { h with slots := h.slots.set id (.perm s), internTemp := erase h.internTemp s,
                 internStatic := (s, id) :: h.internStatic } := by
  cases p with
  | inl s => left; rfl
  | ref id =>
    simp only [makePermanent]
    cases hsl : h.slots[id]? with
    | none => left; rfl
    | some sl =>
      cases sl with
      | perm s => left; rfl
      | dead => left; rfl
      | temp s m => right; exact ⟨id, s, m, rfl, hsl ▸ rfl, rfl⟩

theorem inv_makePermanent {h : Heap} (hi : Inv h) (p : Handle) : Inv (makePermanent h p) := by
  rcases makePermanent_cases h p with he | ⟨id, s, m, _, hsl, he⟩
  · rw [he]; exact hi
  · rw [he]; exact inv_promote hi s id m hsl

theorem makePermanent_modRefs (h : Heap) (p : Handle) : (makePermanent h p).modRefs = h.modRefs := by
  rcases makePermanent_cases h p with he | ⟨id, s, m, _, hsl, he⟩ <;> rw [he]

theorem makePermanent_length (h : Heap) (p : Handle) :
    (makePermanent h p).slots.length = h.slots.length := by
  rcases makePermanent_cases h p with he | ⟨id, s, m, _, hsl, he⟩ <;> rw [he]; simp

theorem makePermanent_unmarked (h : Heap) (p : Handle) :
    (makePermanent h p).unmarked = h.unmarked := by
  rcases makePermanent_cases h p with he | ⟨id, s, m, _, hsl, he⟩ <;> rw [he]

theorem makePermanent_sweepIndex (h : Heap) (p : Handle) :
    (makePermanent h p).sweepIndex = h.sweepIndex := by
  rcases makePermanent_cases h p with he | ⟨id, s, m, _, hsl, he⟩ <;> rw [he]

/-- Slots that are not temporary stay non-temporary under `makePermanent`. -/
theorem makePermanent_notTemp (h : Heap) (p : Handle) (id : Nat)
    (hn : ∀ (s : Bytes) (m : Bool), h.slots[id]? ≠ some (Slot.temp s m)) :
    ∀ (s : Bytes) (m : Bool), (makePermanent h p).slots[id]? ≠ some (Slot.temp s m) := by
  rcases makePermanent_cases h p with he | ⟨id', s', m', _, hsl, he⟩ <;> rw [he]
  · exact hn
  · simp only [getElem?_set']; grind

theorem makePermanent_self (h : Heap) (id : Nat) :
    ∀ (s : Bytes) (m : Bool), (makePermanent h (.ref id)).slots[id]? ≠ some (Slot.temp s m) := by
  rcases makePermanent_cases h (.ref id) with he | ⟨id', s', m', hp, hsl, he⟩
  · rw [he]
    intro s m hc
    simp only [makePermanent, hc] at he
    have := congrArg (fun x => x.slots[id]?) he
    simp only [getElem?_set'] at this
    grind
  · cases hp
    rw [he]; simp only [getElem?_set']; grind

theorem foldl_makePermanent_props (ps : List Handle) (h : Heap) :
    (ps.foldl makePermanent h).modRefs = h.modRefs ∧
    (ps.foldl makePermanent h).slots.length = h.slots.length ∧
    (ps.foldl makePermanent h).unmarked = h.unmarked ∧
    (ps.foldl makePermanent h).sweepIndex = h.sweepIndex ∧
    (∀ id : Nat, (∀ (s : Bytes) (m : Bool), h.slots[id]? ≠ some (Slot.temp s m)) →
       ∀ (s : Bytes) (m : Bool), (ps.foldl makePermanent h).slots[id]? ≠ some (Slot.temp s m)) ∧
    (∀ id : Nat, Handle.ref id ∈ ps →
       ∀ (s : Bytes) (m : Bool), (ps.foldl makePermanent h).slots[id]? ≠ some (Slot.temp s m)) := by
  induction ps generalizing h with
  | nil => simp
  | cons p ps ih =>
    simp only [List.foldl_cons]
    obtain ⟨a, b, c, d, e, f⟩ := ih (makePermanent h p)
    refine ⟨by rw [a, makePermanent_modRefs], by rw [b, makePermanent_length],
            by rw [c, makePermanent_unmarked], by rw [d, makePermanent_sweepIndex], ?_, ?_⟩
    · intro id hn
      exact e id (makePermanent_notTemp h p id hn)
    · intro id hmem
      rcases List.mem_cons.mp hmem with heq | hmem
      · subst heq
        exact e id (makePermanent_self h id)
      · exact f id hmem

theorem inv_foldl_makePermanent {h : Heap} (hi : Inv h) (ps : List Handle) :
    Inv (ps.foldl makePermanent h) := by
  induction ps generalizing h with
  | nil => exact hi
  | cons p ps ih => exact ih (inv_makePermanent hi p)

theorem inv_allocModuleRef {h : Heap} (hi : Inv h) (ps : List Handle)
    (hok : ∀ p ∈ ps, HandleOk h p) : Inv (allocModuleRef h ps).1 := by
  unfold allocModuleRef
  split
  · exact hi
  · have hi' := inv_foldl_makePermanent hi ps
    obtain ⟨a, b, c, d, e, f⟩ := foldl_makePermanent_props ps h
    obtain ⟨h1, h2, h3, h4, h5, hd, h6, h7⟩ := hi'
    constructor <;> try assumption
    intro parts hparts id hid
    simp only [List.mem_append, List.mem_singleton] at hparts
    rcases hparts with hparts | hparts
    · exact h7 parts hparts id hid
    · subst hparts
      refine ⟨?_, f id hid⟩
      have := hok _ hid
      simp only [HandleOk] at this
      show id < (List.foldl makePermanent h parts).slots.length
      omega

theorem inv_addUnmarked {h : Heap} (hi : Inv h) (m : Nat) : Inv (addUnmarked h m) := by
  unfold addUnmarked; split
  · exact hi
  · obtain ⟨h1, h2, h3, h4, h5, hd, h6, h7⟩ := hi
    constructor <;> assumption

theorem inv_popUnmarked {h h' : Heap} (hi : Inv h) (c : Option Nat)
    (hp : popUnmarked h c = some h') : Inv h' := by
  unfold popUnmarked at hp
  obtain ⟨h1, h2, h3, h4, h5, hd, h6, h7⟩ := hi
  split at hp
  · split at hp
    · cases hp; constructor <;> assumption
    · cases hp
  · split at hp
    · cases hp; constructor <;> assumption
    · cases hp

theorem mark_cases (h : Heap) (p : Handle) :
    mark h p = h ∨
    ∃ id s m, p = .ref id ∧ h.slots[id]? = some (Slot.temp s m) ∧
      mark h p = { h with slots := h.slots.set id (.temp s true) } := by
  cases p with
  | inl s => left; rfl
  | ref id =>
    simp only [mark]
    cases hsl : h.slots[id]? with
    | none => left; rfl
    | some sl =>
      cases sl with
      | perm s => left; rfl
      | dead => left; rfl
      | temp s m => right; exact ⟨id, s, m, rfl, hsl ▸ rfl, rfl⟩

theorem inv_mark {h : Heap} (hi : Inv h) (p : Handle) : Inv (mark h p) := by
  unfold mark
  split
  · exact hi
  · split
    · rename_i id s m hsl
      obtain ⟨h1, h2, h3, h4, h5, hd, h6, h7⟩ := hi
      constructor <;> simp only [getElem?_set', List.length_set] <;> grind
    · exact hi


theorem sweepSlots_length (a b i : Nat) (l : List Slot) : (sweepSlots a b i l).length = l.length := by
  induction l generalizing i with
  | nil => rfl
  | cons x xs ih => simp [sweepSlots, ih]

theorem sweepSlots_getElem? (a b i : Nat) (l : List Slot) (k : Nat) :
    (sweepSlots a b i l)[k]? = (l[k]?).map (sweepSlot (decide (a ≤ i + k ∧ i + k < b))) := by
  induction l generalizing i k with
  | nil => simp [sweepSlots]
  | cons x xs ih =>
    cases k with
    | zero => simp [sweepSlots]
    | succ k =>
      simp only [sweepSlots, List.getElem?_cons_succ, ih]
      have : i + 1 + k = i + (k + 1) := by omega
      rw [this]

theorem mem_reclaimedStrings (a b i : Nat) (l : List Slot) (s : Bytes) :
    s ∈ reclaimedStrings a b i l ↔
      ∃ k, l[k]? = some (Slot.temp s false) ∧ a ≤ i + k ∧ i + k < b := by
  induction l generalizing i with
  | nil => simp [reclaimedStrings]
  | cons x xs ih =>
    have key : (∃ k, (x :: xs)[k]? = some (Slot.temp s false) ∧ a ≤ i + k ∧ i + k < b) ↔
        ((x = Slot.temp s false ∧ a ≤ i ∧ i < b) ∨
         ∃ k, xs[k]? = some (Slot.temp s false) ∧ a ≤ i + 1 + k ∧ i + 1 + k < b) := by
      constructor
      · rintro ⟨k, hk, h1, h2⟩
        cases k with
        | zero => left; simp at hk; exact ⟨hk, by omega, by omega⟩
        | succ k => right; exact ⟨k, by simpa using hk, by omega, by omega⟩
      · rintro (⟨hx, h1, h2⟩ | ⟨k, hk, h1, h2⟩)
        · exact ⟨0, by simp [hx], by omega, by omega⟩
        · exact ⟨k + 1, by simpa using hk, by omega, by omega⟩
    rw [key, ← ih (i + 1)]
    cases x with
    | perm t => simp [reclaimedStrings]
    | dead => simp [reclaimedStrings]
    | temp t m =>
      cases m with
      | true => simp [reclaimedStrings]
      | false =>
        simp only [reclaimedStrings]
        split
        · simp only [List.mem_cons]; grind
        · grind

theorem sweepWindow_bounds (h : Heap) (w : Nat) (hidx : h.sweepIndex ≤ h.slots.length) :
    (sweepWindow h w).1 ≤ (sweepWindow h w).2.1 ∧ (sweepWindow h w).2.1 ≤ h.slots.length ∧
    (sweepWindow h w).2.2 ≤ h.slots.length := by
  unfold sweepWindow
  simp only
  split <;> simp <;> omega

theorem sweepSlot_cases (win : Bool) (sl : Slot) :
    (sweepSlot win sl = sl) ∨
    (∃ s, sl = .temp s true ∧ win = true ∧ sweepSlot win sl = .temp s false) ∨
    (∃ s, sl = .temp s false ∧ win = true ∧ sweepSlot win sl = .dead) := by
  cases win with
  | false => left; rfl
  | true =>
    cases sl with
    | perm s => left; rfl
    | dead => left; rfl
    | temp s m =>
      cases m with
      | true => right; left; exact ⟨s, rfl, rfl, rfl⟩
      | false => right; right; exact ⟨s, rfl, rfl, rfl⟩

theorem inv_sweep {h : Heap} (hi : Inv h) (w : Nat) : Inv (sweep h w) := by
  unfold sweep
  split
  · exact hi
  · have hb := sweepWindow_bounds h w hi.sweepIdx
    generalize sweepWindow h w = win at hb ⊢
    obtain ⟨a, b, nx⟩ := win
    simp only at hb ⊢
    obtain ⟨h1, h2, h3, h4, h5, hd, h6, h7⟩ := hi
    constructor <;>
      simp only [lookup_filter_notin, sweepSlots_getElem?, sweepSlots_length,
        mem_reclaimedStrings, Nat.zero_add]
    · intro s id hl
      split at hl
      · cases hl
      · rename_i hng
        simp only [mem_reclaimedStrings, Nat.zero_add] at hng
        rcases h1 s id hl with hm | hm <;> rw [hm] <;> simp [sweepSlot]
        · grind
        · have : ¬ (a ≤ id ∧ id < b) := fun hc => hng ⟨id, hm, hc.1, hc.2⟩
          right; omega
    · intro s id hl
      rw [h2 s id hl]; simp [sweepSlot]
    · intro id s m hsl
      cases hid : h.slots[id]? with
      | none => simp [hid] at hsl
      | some sl =>
        simp only [hid, Option.map_some, Option.some.injEq] at hsl
        rcases sweepSlot_cases (decide (a ≤ id ∧ id < b)) sl with hc | ⟨t, hsl', hw, hc⟩ | ⟨t, hsl', hw, hc⟩
        · rw [hc] at hsl; subst hsl
          have hl := h3 id s m hid
          split
          · rename_i hg
            simp only [mem_reclaimedStrings, Nat.zero_add] at hg
            obtain ⟨k, hk, hk1, hk2⟩ := hg
            have := h3 k s false hk
            have hkid : k = id := by rw [hl] at this; cases this; rfl
            subst hkid
            rw [hid] at hk; cases hk
            simp [sweepSlot, hk1, hk2] at hc
          · exact hl
        · rw [hc] at hsl; cases hsl
          subst hsl'
          have hl := h3 id s true hid
          split
          · rename_i hg
            simp only [mem_reclaimedStrings, Nat.zero_add] at hg
            obtain ⟨k, hk, hk1, hk2⟩ := hg
            have := h3 k s false hk
            have hkid : k = id := by rw [hl] at this; cases this; rfl
            subst hkid
            rw [hid] at hk; cases hk
          · exact hl
        · rw [hc] at hsl; cases hsl
    · intro id s hsl hlen
      cases hid : h.slots[id]? with
      | none => simp [hid] at hsl
      | some sl =>
        simp only [hid, Option.map_some, Option.some.injEq] at hsl
        rcases sweepSlot_cases (decide (a ≤ id ∧ id < b)) sl with hc | ⟨t, hsl', hw, hc⟩ | ⟨t, hsl', hw, hc⟩
        · rw [hc] at hsl; subst hsl; exact h4 id s hid hlen
        · rw [hc] at hsl; cases hsl
        · rw [hc] at hsl; cases hsl
    · intro id s m hsl
      cases hid : h.slots[id]? with
      | none => simp [hid] at hsl
      | some sl =>
        simp only [hid, Option.map_some, Option.some.injEq] at hsl
        rcases sweepSlot_cases (decide (a ≤ id ∧ id < b)) sl with hc | ⟨t, hsl', hw, hc⟩ | ⟨t, hsl', hw, hc⟩
        · rw [hc] at hsl; subst hsl; exact h5 id s m hid
        · rw [hc] at hsl; cases hsl; subst hsl'; exact h5 id s true hid
        · rw [hc] at hsl; cases hsl
    · intro s id hl
      split
      · rfl
      · exact hd s id hl
    · omega
    · intro parts hp id hmem
      obtain ⟨hlt, hnt⟩ := h7 parts hp id hmem
      refine ⟨hlt, ?_⟩
      intro s m hsl
      cases hid : h.slots[id]? with
      | none => simp [hid] at hsl
      | some sl =>
        simp only [hid, Option.map_some, Option.some.injEq] at hsl
        rcases sweepSlot_cases (decide (a ≤ id ∧ id < b)) sl with hc | ⟨t, hsl', hw, hc⟩ | ⟨t, hsl', hw, hc⟩
        · rw [hc] at hsl; subst hsl; exact hnt s m hid
        · subst hsl'; exact hnt t true hid
        · subst hsl'; exact hnt t false hid

theorem getElem?_append_replicate {α} (l : List α) (k : Nat) (x : α) (i : Nat) :
    (l ++ List.replicate k x)[i]? =
      if i < l.length then l[i]? else if i < l.length + k then some x else none := by
  rw [List.getElem?_append]
  split
  · rfl
  · rw [List.getElem?_replicate]
    split <;> split <;> first | rfl | omega

theorem inv_syncTempCounter {h : Heap} (hi : Inv h) (t : Nat) : Inv (syncTempCounter h t) := by
  unfold syncTempCounter
  obtain ⟨h1, h2, h3, h4, h5, hd, h6, h7⟩ := hi
  constructor <;>
    simp only [getElem?_append_replicate, List.length_append, List.length_replicate] <;>
    grind [inlineMax]

theorem inv_step {h : Heap} (hi : Inv h) (op : Op) (hok : OpOk h op) : Inv (step h op) := by
  cases op with
  | allocString s => exact inv_allocString hi s
  | allocStatic s => exact inv_allocStatic hi s
  | allocTemp n => exact inv_allocTemp hi n
  | allocModuleRef ps => exact inv_allocModuleRef hi ps hok
  | addUnmarked m => exact inv_addUnmarked hi m
  | popUnmarked c =>
    simp only [step]
    cases hp : popUnmarked h c with
    | none => exact hi
    | some h' => exact inv_popUnmarked hi c hp
  | mark p => exact inv_mark hi p
  | sweep w => exact inv_sweep hi w
  | syncTemp t => exact inv_syncTempCounter hi t

end SamVerif.Heap
