import SamVerif.Model.ExprDoc
import SamVerif.Lemmas.Doc
/-! Lemmas for the expression-document part of `Props/C09.lean`. -/
namespace SamVerif.ExprDoc
open SamVerif.Doc
open SamVerif.Imports (commentsDocGrouped optPreceding commentDocs)
open SamVerif.CommentQueue (Comment Kind)

theorem ck_space : commentKey.text [' '] = [] := by decide
theorem ck_leaderLine : commentKey.text leaderLine = [] := by decide
theorem ck_leaderStar : commentKey.text leaderStar = [] := by decide

theorem lineComment_ok (t : Str) :
    Agree commentKey (lineComment t) ∧ val commentKey (lineComment t) = nonWs t :=
  ⟨lineComment_agree commentKey t ck_space ck_leaderLine (splitSp_nonWs t).symm,
   lineComment_val commentKey t ck_leaderLine⟩

theorem multilineComment_ok (starter t : Str) :
    Agree commentKey (multilineComment starter t) ∧
      val commentKey (multilineComment starter t) =
        commentKey.text starter ++ nonWs t ++ ['*', '/'] := by
  refine ⟨multilineComment_agree commentKey starter t ck_space ck_leaderStar (splitSp_nonWs t).symm, ?_⟩
  rw [multilineComment_val commentKey starter t ck_space]; rfl

/-- Each comment's documents: agreeing branches, content = the comment's characters. -/
theorem commentDocs_ok (c : Comment) :
    (∀ d ∈ commentDocs c, Agree commentKey d) ∧ (commentDocs c).flatMap (val commentKey) = commentChars c := by
  obtain ⟨k, t⟩ := c
  cases k
  · refine ⟨?_, ?_⟩
    · intro d hd; simp [commentDocs] at hd; rcases hd with rfl | rfl
      · exact (lineComment_ok t).1
      · trivial
    · simp [commentDocs, commentChars, (lineComment_ok t).2, val]
  · refine ⟨?_, ?_⟩
    · intro d hd; simp [commentDocs] at hd; rcases hd with rfl | rfl
      · exact (multilineComment_ok _ t).1
      · trivial
    · simp only [commentDocs, commentChars, List.flatMap_cons, List.flatMap_nil, (multilineComment_ok _ t).2, val,
        List.append_nil]
      rfl
  · refine ⟨?_, ?_⟩
    · intro d hd; simp [commentDocs] at hd; rcases hd with rfl | rfl
      · exact (multilineComment_ok _ t).1
      · trivial
    · simp only [commentDocs, commentChars, List.flatMap_cons, List.flatMap_nil, (multilineComment_ok _ t).2, val,
        List.append_nil]
      rfl

theorem commentDocsList_ok (cs : List Comment) :
    (∀ d ∈ cs.flatMap commentDocs, Agree commentKey d) ∧
      (cs.flatMap commentDocs).flatMap (val commentKey) = cs.flatMap commentChars := by
  induction cs with
  | nil => simp
  | cons c cs ih =>
    refine ⟨?_, ?_⟩
    · intro d hd
      simp only [List.flatMap_cons, List.mem_append] at hd
      rcases hd with h | h
      · exact (commentDocs_ok c).1 d h
      · exact ih.1 d h
    · simp only [List.flatMap_cons, List.flatMap_append, (commentDocs_ok c).2, ih.2]

/-- Dropping a trailing soft line changes neither the content nor agreement. -/
theorem dropLast_line_val (l : List Doc) (h : l.getLast? = some .line) :
    l.dropLast.flatMap (val commentKey) = l.flatMap (val commentKey) := by
  induction l with
  | nil => rfl
  | cons x xs ih =>
    cases xs with
    | nil =>
      simp at h; subst h; simp [val]
    | cons y ys =>
      have h' : (y :: ys).getLast? = some Doc.line := by simpa [List.getLast?_cons_cons] using h
      simp only [List.dropLast_cons_cons, List.flatMap_cons, ih h']

theorem commentsDocGrouped_ok (cs : List Comment) (b : Bool) :
    match commentsDocGrouped cs b with
    | some d => Agree commentKey d ∧ val commentKey d = cs.flatMap commentChars
    | none => cs.flatMap commentChars = [] := by
  unfold commentsDocGrouped
  have hl := commentDocsList_ok cs
  by_cases he : (cs.flatMap commentDocs).isEmpty = true
  · simp only [he, if_true]
    have : cs.flatMap commentDocs = [] := by simpa using he
    rw [← hl.2, this]; rfl
  · simp only [he, Bool.false_eq_true, if_false]
    by_cases hs : (cs.flatMap commentDocs).getLast? = some Doc.line
    · have hag : Agree commentKey (group (concatV (cs.flatMap commentDocs).dropLast)) :=
        group_agree commentKey ck_space _ (concatV_agree commentKey _
          (fun d hd => hl.1 d (List.dropLast_subset _ hd)))
      have hv : val commentKey (group (concatV (cs.flatMap commentDocs).dropLast)) =
          cs.flatMap commentChars := by
        rw [group_val commentKey ck_space, concatV_val, dropLast_line_val _ hs, hl.2]
      simp only [hs, decide_true, if_true, Bool.and_true]
      cases b
      · exact ⟨hag, hv⟩
      · exact ⟨⟨hag, trivial⟩, by simp [val, hv]⟩
    · have hag : Agree commentKey (group (concatV (cs.flatMap commentDocs))) :=
        group_agree commentKey ck_space _ (concatV_agree commentKey _ hl.1)
      have hv : val commentKey (group (concatV (cs.flatMap commentDocs))) = cs.flatMap commentChars := by
        rw [group_val commentKey ck_space, concatV_val, hl.2]
      simp only [hs, decide_false, Bool.and_false]
      exact ⟨hag, hv⟩

theorem optPreceding_ok (cs : List Comment) (main : Doc) (hm : Agree commentKey main) :
    Agree commentKey (optPreceding cs main) ∧
      val commentKey (optPreceding cs main) = cs.flatMap commentChars ++ val commentKey main := by
  unfold optPreceding
  have h := commentsDocGrouped_ok cs true
  split
  · rename_i cd hcd
    rw [hcd] at h
    exact ⟨group_agree commentKey ck_space _ ⟨h.1, hm⟩,
      by rw [group_val commentKey ck_space]; simp [val, h.2]⟩
  · rename_i hcd
    rw [hcd] at h
    exact ⟨hm, by simp [h]⟩

theorem opCommentsDoc_ok (ocs : List Comment) :
    Agree commentKey (opCommentsDoc ocs) ∧ val commentKey (opCommentsDoc ocs) = ocs.flatMap commentChars := by
  unfold opCommentsDoc
  have h := commentsDocGrouped_ok ocs false
  split
  · rename_i d hd
    rw [hd] at h
    exact ⟨group_agree commentKey ck_space _ ⟨trivial, h.1⟩,
      by rw [group_val commentKey ck_space]; simp [val, h.2]⟩
  · rename_i hd
    rw [hd] at h
    exact ⟨trivial, by simp [val, h]⟩

theorem parenDoc_ok (d : Doc) (hd : Agree commentKey d) :
    Agree commentKey (parenDoc d) ∧ val commentKey (parenDoc d) = ['('] ++ val commentKey d ++ [')'] := by
  unfold parenDoc
  refine ⟨bracketFlexible_agree commentKey ck_space _ _ _ _ trivial hd, ?_⟩
  rw [bracketFlexible_val commentKey ck_space]
  have h1 : commentKey.text ['('] = ['('] := by decide
  have h2 : commentKey.text [')'] = [')'] := by decide
  simp [val, h1, h2]

end SamVerif.ExprDoc

namespace SamVerif.ExprDoc
open SamVerif.Doc
open SamVerif.Imports (commentsDocGrouped optPreceding commentDocs commaSep)
open SamVerif.CommentQueue (Comment Kind)

/-! ### Round 6: member access, calls, dotted chains -/

theorem commentsDocExpanded_ok (cs : List Comment) (b : Bool) :
    match SamVerif.Imports.commentsDoc cs b with
    | some d => Agree commentKey d ∧ val commentKey d = cs.flatMap commentChars
    | none => cs.flatMap commentChars = [] := by
  unfold SamVerif.Imports.commentsDoc
  have hl := commentDocsList_ok cs
  by_cases he : (cs.flatMap commentDocs).isEmpty = true
  · simp only [he, if_true]
    have : cs.flatMap commentDocs = [] := by simpa using he
    rw [← hl.2, this]; rfl
  · simp only [he, Bool.false_eq_true, if_false]
    by_cases hs : (cs.flatMap commentDocs).getLast? = some Doc.line
    · have hag : Agree commentKey (concatV (cs.flatMap commentDocs).dropLast) :=
        concatV_agree commentKey _ (fun d hd => hl.1 d (List.dropLast_subset _ hd))
      have hv : val commentKey (concatV (cs.flatMap commentDocs).dropLast) = cs.flatMap commentChars := by
        rw [concatV_val, dropLast_line_val _ hs, hl.2]
      simp only [hs, decide_true, if_true, Bool.and_true]
      cases b
      · exact ⟨hag, hv⟩
      · exact ⟨⟨hag, trivial⟩, by simp [val, hv]⟩
    · have hag : Agree commentKey (concatV (cs.flatMap commentDocs)) := concatV_agree commentKey _ hl.1
      have hv : val commentKey (concatV (cs.flatMap commentDocs)) = cs.flatMap commentChars := by
        rw [concatV_val, hl.2]
      simp only [hs, decide_false, Bool.and_false]
      exact ⟨hag, hv⟩

theorem flattenGetD_ok (d : Doc) (h : Agree commentKey d) :
    Agree commentKey ((flatten d).getD d) ∧ val commentKey ((flatten d).getD d) = val commentKey d := by
  cases hf : flatten d with
  | none => simpa using h
  | some f => exact ⟨flatten_agree commentKey d f hf, flatten_val commentKey ck_space d f hf⟩

theorem commentsDocFlattened_ok (cs : List Comment) (b : Bool) :
    match commentsDocFlattened cs b with
    | some d => Agree commentKey d ∧ val commentKey d = cs.flatMap commentChars
    | none => cs.flatMap commentChars = [] := by
  unfold commentsDocFlattened
  have hl := commentDocsList_ok cs
  by_cases he : (cs.flatMap commentDocs).isEmpty = true
  · simp only [he, if_true]
    have : cs.flatMap commentDocs = [] := by simpa using he
    rw [← hl.2, this]; rfl
  · simp only [he, Bool.false_eq_true, if_false]
    by_cases hs : (cs.flatMap commentDocs).getLast? = some Doc.line
    · have hag : Agree commentKey (concatV (cs.flatMap commentDocs).dropLast) :=
        concatV_agree commentKey _ (fun d hd => hl.1 d (List.dropLast_subset _ hd))
      have hv : val commentKey (concatV (cs.flatMap commentDocs).dropLast) = cs.flatMap commentChars := by
        rw [concatV_val, dropLast_line_val _ hs, hl.2]
      have hf := flattenGetD_ok _ hag
      simp only [hs, decide_true, if_true, Bool.and_true]
      cases b
      · exact ⟨hf.1, hf.2.trans hv⟩
      · exact ⟨⟨hf.1, trivial⟩, by simp [val, hf.2, hv]⟩
    · have hag : Agree commentKey (concatV (cs.flatMap commentDocs)) := concatV_agree commentKey _ hl.1
      have hv : val commentKey (concatV (cs.flatMap commentDocs)) = cs.flatMap commentChars := by
        rw [concatV_val, hl.2]
      have hf := flattenGetD_ok _ hag
      simp only [hs, decide_false, Bool.and_false]
      exact ⟨hf.1, hf.2.trans hv⟩

theorem memberPre_ok (flat : Bool) (cs : List Comment) :
    Agree commentKey (memberPre flat cs) ∧ val commentKey (memberPre flat cs) = cs.flatMap commentChars := by
  unfold memberPre
  cases flat
  · simp only [Bool.false_eq_true, if_false]
    have h := commentsDocExpanded_ok cs true
    split
    · rename_i d hd; rw [hd] at h; exact ⟨⟨trivial, h.1⟩, by simp [val, h.2]⟩
    · rename_i hd; rw [hd] at h; exact ⟨trivial, by simp [val, h]⟩
  · simp only [if_true]
    have h := commentsDocFlattened_ok cs false
    split
    · rename_i d hd; rw [hd] at h; exact ⟨⟨trivial, h.1⟩, by simp [val, ck_space, h.2]⟩
    · rename_i hd; rw [hd] at h; exact ⟨trivial, by simp [val, h]⟩

/-- Values joined by a comma. -/
def joinC : List Str → Str
  | [] => []
  | [x] => x
  | x :: y :: rest => x ++ [','] ++ joinC (y :: rest)

theorem ck_comma : commentKey.text [','] = [','] := by decide
theorem ck_dot : commentKey.text ['.'] = ['.'] := by decide

theorem commaSep_ok (ds : List Doc) (h : ∀ d ∈ ds, Agree commentKey d) :
    Agree commentKey (commaSep ds) ∧ val commentKey (commaSep ds) = joinC (ds.map (val commentKey)) := by
  induction ds with
  | nil => exact ⟨trivial, rfl⟩
  | cons x xs ih =>
    cases xs with
    | nil => exact ⟨h x (by simp), by simp [commaSep, joinC]⟩
    | cons y rest =>
      have ih' := ih (fun d hd => h d (List.mem_cons_of_mem _ hd))
      refine ⟨⟨h x (by simp), trivial, trivial, ih'.1⟩, ?_⟩
      simp [commaSep, concatV, val, ck_comma, joinC, ih'.2]

theorem commentsDoc_none_iff (cs : List Comment) (b : Bool) :
    SamVerif.Imports.commentsDoc cs b = none ↔ cs = [] := by
  unfold SamVerif.Imports.commentsDoc
  cases cs with
  | nil => simp
  | cons c cs => obtain ⟨k, t⟩ := c; cases k <;> simp [commentDocs]

theorem commaSepEnding_ok (ds : List Doc) (ecs : List Comment) (h : ∀ d ∈ ds, Agree commentKey d) :
    Agree commentKey (commaSepEnding ds ecs) ∧
      val commentKey (commaSepEnding ds ecs) =
        joinC (ds.map (val commentKey)) ++
          (if ecs.isEmpty then [] else (if ds.isEmpty then [] else [',']) ++ ecs.flatMap commentChars) := by
  unfold commaSepEnding
  have hc := commentsDocExpanded_ok ecs false
  have hb := commaSep_ok ds h
  split
  · rename_i cd hcd
    rw [hcd] at hc
    have hne : ecs.isEmpty = false := by
      cases ecs with
      | nil => simp [SamVerif.Imports.commentsDoc] at hcd
      | cons c cs => rfl
    by_cases hd : ds.isEmpty = true
    · have : ds = [] := by simpa using hd
      subst this
      simp [hc.1, hc.2, hne, joinC]
    · simp only [hd, Bool.false_eq_true, if_false, hne]
      exact ⟨⟨hb.1, trivial, trivial, hc.1⟩, by simp [concatV, val, ck_comma, hb.2, hc.2]⟩
  · rename_i hcd
    have : ecs = [] := (commentsDoc_none_iff ecs false).mp hcd
    subst this
    simpa using hb

theorem argsDoc_ok (scs : List Comment) (ds : List Doc) (ecs : List Comment)
    (h : ∀ d ∈ ds, Agree commentKey d) :
    Agree commentKey (argsDoc scs ds ecs) ∧
      val commentKey (argsDoc scs ds ecs) =
        scs.flatMap commentChars ++ (['('] ++ (joinC (ds.map (val commentKey)) ++
          (if ecs.isEmpty then [] else (if ds.isEmpty then [] else [',']) ++ ecs.flatMap commentChars)) ++ [')']) := by
  unfold argsDoc
  have hc := commaSepEnding_ok ds ecs h
  have hp := parenDoc_ok _ hc.1
  have ho := optPreceding_ok scs _ hp.1
  exact ⟨ho.1, by rw [ho.2, hp.2, hc.2]⟩

/-! dotted chains -/

/-- Well-formed chain IR: every document in it has agreeing `Union`s. -/
def IRok (ir : ChainIR) : Prop :=
  Agree commentKey ir.1 ∧ ∀ m ∈ ir.2, ∀ d ∈ m.2, Agree commentKey d

def memberVal (m : List Comment × List Doc) : Str :=
  m.1.flatMap commentChars ++ ['.'] ++ m.2.flatMap (val commentKey)

def chainVal (ir : ChainIR) : Str := val commentKey ir.1 ++ ir.2.flatMap memberVal

theorem seg_ok (flat : Bool) (m : List Comment × List Doc) (h : ∀ d ∈ m.2, Agree commentKey d) :
    (∀ d ∈ seg flat m, Agree commentKey d) ∧ (seg flat m).flatMap (val commentKey) = memberVal m := by
  have hm := memberPre_ok flat m.1
  refine ⟨?_, ?_⟩
  · intro d hd
    simp only [seg, List.cons_append, List.nil_append, List.mem_cons] at hd
    rcases hd with rfl | rfl | hd
    · exact hm.1
    · trivial
    · exact h d hd
  · simp [seg, memberVal, hm.2, val, ck_dot]

theorem segs_ok (flat : Bool) (ms : List (List Comment × List Doc))
    (h : ∀ m ∈ ms, ∀ d ∈ m.2, Agree commentKey d) :
    (∀ d ∈ ms.flatMap (seg flat), Agree commentKey d) ∧
      (ms.flatMap (seg flat)).flatMap (val commentKey) = ms.flatMap memberVal := by
  induction ms with
  | nil => simp
  | cons m ms ih =>
    have hm := seg_ok flat m (h m (by simp))
    have ih' := ih (fun x hx => h x (List.mem_cons_of_mem _ hx))
    refine ⟨?_, ?_⟩
    · intro d hd
      simp only [List.flatMap_cons, List.mem_append] at hd
      rcases hd with hd | hd
      · exact hm.1 d hd
      · exact ih'.1 d hd
    · simp only [List.flatMap_cons, List.flatMap_append, hm.2, ih'.2]

theorem chainExpanded0_ok (ir : ChainIR) (h : IRok ir) :
    Agree commentKey (chainExpanded0 ir) ∧ val commentKey (chainExpanded0 ir) = chainVal ir := by
  have hF := segs_ok false ir.2 h.2
  refine ⟨⟨h.1, show Agree commentKey (concatV (ir.2.flatMap (seg false))) from
    concatV_agree commentKey _ hF.1⟩, ?_⟩
  simp [chainExpanded0, concatV, val, concatV_val, hF.2, chainVal]

theorem chainExpanded_ok (ir : ChainIR) (h : IRok ir) :
    Agree commentKey (chainExpanded ir) ∧ val commentKey (chainExpanded ir) = chainVal ir := by
  have hE0 := chainExpanded0_ok ir h
  obtain ⟨b, ms⟩ := ir
  cases ms with
  | nil => simpa [chainExpanded] using hE0
  | cons first rest =>
    have hfirst := h.2 first (by simp)
    have hrest := segs_ok false rest (fun m hm => h.2 m (List.mem_cons_of_mem _ hm))
    have hmp := memberPre_ok true first.1
    have hless : val commentKey (concatV [b, memberPre true first.1, .text ['.'], concatV first.2,
        .nest 2 (concatV (rest.flatMap (seg false)))]) = chainVal (b, first :: rest) := by
      simp [concatV, val, concatV_val, hmp.2, ck_dot, hrest.2, chainVal, memberVal, List.append_assoc]
    simp only [chainExpanded]
    refine ⟨⟨hless.trans hE0.2.symm, ?_, hE0.1⟩, by simp only [val]; exact hless⟩
    exact ⟨h.1, hmp.1, trivial, concatV_agree commentKey _ hfirst,
      show Agree commentKey (concatV (rest.flatMap (seg false))) from concatV_agree commentKey _ hrest.1⟩

theorem dottedChain_ok (ir : ChainIR) (h : IRok ir) :
    Agree commentKey (dottedChain ir) ∧ val commentKey (dottedChain ir) = chainVal ir := by
  have hE := chainExpanded_ok ir h
  have hT := segs_ok true ir.2 h.2
  have hFlat : val commentKey (concatV ([ir.1] ++ ir.2.flatMap (seg true))) = chainVal ir := by
    simp [concatV_val, hT.2, chainVal]
  unfold dottedChain
  split
  · rename_i f hf
    have hfv := flatten_val commentKey ck_space _ f hf
    exact ⟨⟨(hfv.trans hFlat).trans hE.2.symm, flatten_agree commentKey _ f hf, hE.1⟩,
      by simp only [val]; exact hfv.trans hFlat⟩
  · exact hE

theorem dropLast_append_last {α : Type} (l : List α) (a : α) (h : l.getLast? = some a) :
    l.dropLast ++ [a] = l := by
  induction l with
  | nil => simp at h
  | cons x xs ih =>
    cases xs with
    | nil => simp at h; simp [h]
    | cons y ys =>
      have h' : (y :: ys).getLast? = some a := by simpa [List.getLast?_cons_cons] using h
      simp only [List.dropLast_cons_cons, List.cons_append, ih h']

theorem extendField_ok (ir : ChainIR) (ncs : List Comment) (name : Str) (h : IRok ir) :
    IRok (extendField ir ncs name) ∧
      chainVal (extendField ir ncs name) = chainVal ir ++ (ncs.flatMap commentChars ++ ['.'] ++ nonWs name) := by
  refine ⟨⟨h.1, ?_⟩, ?_⟩
  · intro m hm d hd
    simp only [extendField, List.mem_append, List.mem_singleton] at hm
    rcases hm with hm | rfl
    · exact h.2 m hm d hd
    · simp at hd; rcases hd with rfl | rfl <;> trivial
  · simp [extendField, chainVal, memberVal, val, commentKey, List.append_assoc]

theorem extendCall_ok (ir : ChainIR) (ad : Doc) (h : IRok ir) (had : Agree commentKey ad) :
    IRok (extendCall ir ad) ∧ chainVal (extendCall ir ad) = chainVal ir ++ val commentKey ad := by
  unfold extendCall
  split
  · rename_i last hl
    have hsplit := dropLast_append_last ir.2 last hl
    refine ⟨⟨h.1, ?_⟩, ?_⟩
    · intro m hm d hd
      simp only [List.mem_append, List.mem_singleton] at hm
      rcases hm with hm | rfl
      · exact h.2 m (List.dropLast_subset _ hm) d hd
      · simp only [List.mem_append, List.mem_singleton] at hd
        rcases hd with hd | rfl
        · exact h.2 last (by rw [← hsplit]; simp) d hd
        · exact had
    · conv => rhs; rw [chainVal, ← hsplit]
      simp [chainVal, memberVal, List.append_assoc]
  · exact ⟨⟨⟨h.1, had⟩, by simp⟩, by
      rename_i hl
      have : ir.2 = [] := by simpa using hl
      simp [chainVal, val, this]⟩

end SamVerif.ExprDoc
