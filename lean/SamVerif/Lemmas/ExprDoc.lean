import SamVerif.Model.ExprDoc
import SamVerif.Lemmas.Doc
/-! Lemmas for the expression-document part of `Props/C09.lean`. -/
namespace SamVerif.ExprDoc
open SamVerif.Doc
open SamVerif.Imports (commentsDocGrouped optPreceding commentDocs)
open SamVerif.CommentQueue (Comment Kind)

theorem ck_space : commentKey.text [' '] = [] := by decide
theorem ck_leaderLine : commentKey.text leaderLine = [] := by decide
theorem ck_leaderStar : commentKey.text leaderStar = [] := by decide

theorem lineComment_ok (t : Str) :
    Agree commentKey (lineComment t) ∧ val commentKey (lineComment t) = nonWs t :=
  ⟨lineComment_agree commentKey t ck_space ck_leaderLine (splitSp_nonWs t).symm,
   lineComment_val commentKey t ck_leaderLine⟩

theorem multilineComment_ok (starter t : Str) :
    Agree commentKey (multilineComment starter t) ∧
      val commentKey (multilineComment starter t) =
        commentKey.text starter ++ nonWs t ++ ['*', '/'] := by
  refine ⟨multilineComment_agree commentKey starter t ck_space ck_leaderStar (splitSp_nonWs t).symm, ?_⟩
  rw [multilineComment_val commentKey starter t ck_space]; rfl

/-- Each comment's documents: agreeing branches, content = the comment's characters. -/
theorem commentDocs_ok (c : Comment) :
    (∀ d ∈ commentDocs c, Agree commentKey d) ∧ (commentDocs c).flatMap (val commentKey) = commentChars c := by
  obtain ⟨k, t⟩ := c
  cases k
  · refine ⟨?_, ?_⟩
    · intro d hd; simp [commentDocs] at hd; rcases hd with rfl | rfl
      · exact (lineComment_ok t).1
      · trivial
    · simp [commentDocs, commentChars, (lineComment_ok t).2, val]
  · refine ⟨?_, ?_⟩
    · intro d hd; simp [commentDocs] at hd; rcases hd with rfl | rfl
      · exact (multilineComment_ok _ t).1
      · trivial
    · simp only [commentDocs, commentChars, List.flatMap_cons, List.flatMap_nil, (multilineComment_ok _ t).2, val,
        List.append_nil]
      rfl
  · refine ⟨?_, ?_⟩
    · intro d hd; simp [commentDocs] at hd; rcases hd with rfl | rfl
      · exact (multilineComment_ok _ t).1
      · trivial
    · simp only [commentDocs, commentChars, List.flatMap_cons, List.flatMap_nil, (multilineComment_ok _ t).2, val,
        List.append_nil]
      rfl

theorem commentDocsList_ok (cs : List Comment) :
    (∀ d ∈ cs.flatMap commentDocs, Agree commentKey d) ∧
      (cs.flatMap commentDocs).flatMap (val commentKey) = cs.flatMap commentChars := by
  induction cs with
  | nil => simp
  | cons c cs ih =>
    refine ⟨?_, ?_⟩
    · intro d hd
      simp only [List.flatMap_cons, List.mem_append] at hd
      rcases hd with h | h
      · exact (commentDocs_ok c).1 d h
      · exact ih.1 d h
    · simp only [List.flatMap_cons, List.flatMap_append, (commentDocs_ok c).2, ih.2]

/-- Dropping a trailing soft line changes neither the content nor agreement. -/
theorem dropLast_line_val (l : List Doc) (h : l.getLast? = some .line) :
    l.dropLast.flatMap (val commentKey) = l.flatMap (val commentKey) := by
  induction l with
  | nil => rfl
  | cons x xs ih =>
    cases xs with
    | nil =>
      simp at h; subst h; simp [val]
    | cons y ys =>
      have h' : (y :: ys).getLast? = some Doc.line := by simpa [List.getLast?_cons_cons] using h
      simp only [List.dropLast_cons_cons, List.flatMap_cons, ih h']

theorem commentsDocGrouped_ok (cs : List Comment) (b : Bool) :
    match commentsDocGrouped cs b with
    | some d => Agree commentKey d ∧ val commentKey d = cs.flatMap commentChars
    | none => cs.flatMap commentChars = [] := by
  unfold commentsDocGrouped
  have hl := commentDocsList_ok cs
  by_cases he : (cs.flatMap commentDocs).isEmpty = true
  · simp only [he, if_true]
    have : cs.flatMap commentDocs = [] := by simpa using he
    rw [← hl.2, this]; rfl
  · simp only [he, Bool.false_eq_true, if_false]
    by_cases hs : (cs.flatMap commentDocs).getLast? = some Doc.line
    · have hag : Agree commentKey (group (concatV (cs.flatMap commentDocs).dropLast)) :=
        group_agree commentKey ck_space _ (concatV_agree commentKey _
          (fun d hd => hl.1 d (List.dropLast_subset _ hd)))
      have hv : val commentKey (group (concatV (cs.flatMap commentDocs).dropLast)) =
          cs.flatMap commentChars := by
        rw [group_val commentKey ck_space, concatV_val, dropLast_line_val _ hs, hl.2]
      simp only [hs, decide_true, if_true, Bool.and_true]
      cases b
      · exact ⟨hag, hv⟩
      · exact ⟨⟨hag, trivial⟩, by simp [val, hv]⟩
    · have hag : Agree commentKey (group (concatV (cs.flatMap commentDocs))) :=
        group_agree commentKey ck_space _ (concatV_agree commentKey _ hl.1)
      have hv : val commentKey (group (concatV (cs.flatMap commentDocs))) = cs.flatMap commentChars := by
        rw [group_val commentKey ck_space, concatV_val, hl.2]
      simp only [hs, decide_false, Bool.and_false]
      exact ⟨hag, hv⟩

theorem optPreceding_ok (cs : List Comment) (main : Doc) (hm : Agree commentKey main) :
    Agree commentKey (optPreceding cs main) ∧
      val commentKey (optPreceding cs main) = cs.flatMap commentChars ++ val commentKey main := by
  unfold optPreceding
  have h := commentsDocGrouped_ok cs true
  split
  · rename_i cd hcd
    rw [hcd] at h
    exact ⟨group_agree commentKey ck_space _ ⟨h.1, hm⟩,
      by rw [group_val commentKey ck_space]; simp [val, h.2]⟩
  · rename_i hcd
    rw [hcd] at h
    exact ⟨hm, by simp [h]⟩

theorem opCommentsDoc_ok (ocs : List Comment) :
    Agree commentKey (opCommentsDoc ocs) ∧ val commentKey (opCommentsDoc ocs) = ocs.flatMap commentChars := by
  unfold opCommentsDoc
  have h := commentsDocGrouped_ok ocs false
  split
  · rename_i d hd
    rw [hd] at h
    exact ⟨group_agree commentKey ck_space _ ⟨trivial, h.1⟩,
      by rw [group_val commentKey ck_space]; simp [val, h.2]⟩
  · rename_i hd
    rw [hd] at h
    exact ⟨trivial, by simp [val, h]⟩

theorem parenDoc_ok (d : Doc) (hd : Agree commentKey d) :
    Agree commentKey (parenDoc d) ∧ val commentKey (parenDoc d) = ['('] ++ val commentKey d ++ [')'] := by
  unfold parenDoc
  refine ⟨bracketFlexible_agree commentKey ck_space _ _ _ _ trivial hd, ?_⟩
  rw [bracketFlexible_val commentKey ck_space]
  have h1 : commentKey.text ['('] = ['('] := by decide
  have h2 : commentKey.text [')'] = [')'] := by decide
  simp [val, h1, h2]

end SamVerif.ExprDoc
