import SamVerif.Model.ParserLoops
/-! Progress of the parser loop skeletons (C05). The `by decide` on the generated flags is where a
recovery arm that no longer consumes its token makes the proof fail. -/
namespace SamVerif.ParserLoops
open SamVerif.Generated.ParserLoops

theorem toplevelLoop_progress (sub : List TK → List TK) (hs : NoUnread sub) (f : Nat) (ts : List TK)
    (h : ts.length < f) : toplevelLoop sub f ts ≠ none := by
  induction f generalizing ts with
  | zero => omega
  | succ f ih =>
    have hflag : toplevelOtherConsumes = true := by decide
    have hkw : toplevelConsumesKeyword = true := by decide
    cases ts with
    | nil => simp [toplevelLoop]
    | cons t rest =>
      have hr : rest.length < f := by simp only [List.length_cons] at h; omega
      cases t <;> simp only [toplevelLoop, consumeIf, hflag, hkw, if_true, List.tail_cons]
      · exact ih (sub rest) (by have := hs rest; omega)
      all_goals exact ih rest hr

theorem commaLoop_progress (sub : List TK → List TK) (hs : NoUnread sub) (f : Nat) (ts : List TK)
    (h : ts.length < f) : commaLoop sub f ts ≠ none := by
  induction f generalizing ts with
  | zero => omega
  | succ f ih =>
    have hflag : commaConsumes = true := by decide
    cases ts with
    | nil => simp [commaLoop]
    | cons t rest =>
      have hr : rest.length < f := by simp only [List.length_cons] at h; omega
      cases t <;> simp only [commaLoop, consumeIf, hflag, if_true, List.tail_cons, ne_eq, reduceCtorEq,
        not_false_eq_true]
      split
      · simp
      · exact ih (sub rest) (by have := hs rest; omega)

theorem blockLoop_progress (sub : List TK → List TK) (hs : NoUnread sub) (f : Nat) (ts : List TK)
    (h : ts.length < f) : blockLoop sub f ts ≠ none := by
  induction f generalizing ts with
  | zero => omega
  | succ f ih =>
    have hsemi : blockSemiConsumes = true := by decide
    have hlet : statementConsumesLet = true := by decide
    have helse : blockElseConsumes = true := by decide
    cases ts with
    | nil => simp [blockLoop]
    | cons t rest =>
      have hr : rest.length < f := by simp only [List.length_cons] at h; omega
      have other : ∀ t', (match sub (t' :: rest) with
          | .semi :: r => blockLoop sub f r
          | .rbrace :: r => some r
          | [] => some []
          | u :: r => blockLoop sub f (consumeIf blockElseConsumes (u :: r))) ≠ none := by
        intro t'
        have hl := hs (t' :: rest)
        simp only [List.length_cons] at hl
        split
        · rename_i r he; rw [he] at hl; simp only [List.length_cons] at hl; exact ih r (by omega)
        · simp
        · simp
        · rename_i u r _ _ he
          rw [he] at hl; simp only [List.length_cons] at hl
          simp only [consumeIf, helse, if_true, List.tail_cons]
          exact ih r (by omega)
      cases t
      case letK =>
        simp only [blockLoop, consumeIf, hlet, if_true, List.tail_cons]
        exact ih (sub rest) (by have := hs rest; omega)
      case rbrace => simp [blockLoop]
      case semi => simp only [blockLoop, consumeIf, hsemi, if_true, List.tail_cons]; exact ih rest hr
      all_goals (simp only [blockLoop]; exact other _)


theorem memberLoop_progress (sub : List TK → List TK) (hs : NoUnread sub) (f : Nat) (ts : List TK)
    (h : ts.length < f) : memberLoop sub f ts ≠ none := by
  induction f generalizing ts with
  | zero => omega
  | succ f ih =>
    have hflag : memberConsumesKeyword = true := by decide
    cases ts with
    | nil => simp [memberLoop]
    | cons t rest =>
      have hr : rest.length < f := by simp only [List.length_cons] at h; omega
      cases t <;> simp only [memberLoop, consumeIf, hflag, if_true, List.tail_cons, ne_eq, reduceCtorEq,
        not_false_eq_true]
      exact ih (sub rest) (by have := hs rest; omega)

theorem matchLoop_progress (sub : List TK → List TK) (hs : NoUnread sub) (f : Nat) (ts : List TK)
    (h : ts.length < f) : matchLoop sub f ts ≠ none := by
  induction f generalizing ts with
  | zero => omega
  | succ f ih =>
    have hflag : matchArmConsumesStart = true := by decide
    cases ts with
    | nil => simp [matchLoop]
    | cons t rest =>
      have hr : rest.length < f := by simp only [List.length_cons] at h; omega
      cases t <;> simp only [matchLoop, consumeIf, hflag, if_true, List.tail_cons, ne_eq, reduceCtorEq,
        not_false_eq_true]
      exact ih (sub rest) (by have := hs rest; omega)

end SamVerif.ParserLoops
