import SamVerif.Model.StdMap
/-! Helper lemmas about `Model/StdMap.lean` (structural refinements, balance arithmetic, `balanced`). -/
namespace SamVerif.StdMap
set_option linter.unusedSectionVars false
variable {K V : Type} [DecidableEq K] [DecidableEq V] [LE K] [LT K] [Std.IsLinearOrder K] [Std.LawfulOrderLT K] [DecidableLT K]

/-- first try linear arithmetic, then the order/congruence reasoning of `grind` -/
macro "oo" : tactic => `(tactic| first | omega | grind)

/-- irreflexivity as a simp lemma (the proofs derive `k < k` from misplaced keys) -/
@[simp] theorem lt_self_false {α : Type} [LE α] [LT α] [Std.IsLinearOrder α] [Std.LawfulOrderLT α] (a : α) :
    (a < a) ↔ False := by grind

/-- `cmp` (the key's `compare` method) realises the linear order `<` of the key type: negative
exactly on `<`, zero exactly on equal keys, positive exactly on `>`.  `Lawful.ofCmp`
(Props/C18.lean) shows that *every* compare that is zero only on equal keys, antisymmetric and
transitive is of this form. -/
structure Lawful (cmp : K → K → Int) : Prop where
  lt : ∀ a b, cmp a b < 0 ↔ a < b
  eq : ∀ a b, cmp a b = 0 ↔ a = b
  gt : ∀ a b, cmp a b > 0 ↔ b < a

/-- keys strictly ascending in the in-order enumeration -/
def Ordered (t : Tree K V) : Prop :=
  (abs t).Pairwise (fun a b => a.1 < b.1)

theorem size_refines (t : Tree K V) : size t = ((abs t).length : Int) := by
  induction t with
  | empty => rfl
  | leaf k v => rfl
  | node h k v l r ihl ihr => simp [size, abs, ihl, ihr]; oo

theorem entriesHelper_eq (t : Tree K V) (acc : List (K × V)) : entriesHelper t acc = abs t ++ acc := by
  induction t generalizing acc with
  | empty => rfl
  | leaf k v => rfl
  | node h k v l r ihl ihr => simp [entriesHelper, abs, ihl, ihr]

theorem entries_refines (t : Tree K V) : entries t = abs t := by simp [entries, entriesHelper_eq]

theorem keysHelper_eq (t : Tree K V) (acc : List K) : keysHelper t acc = (abs t).map Prod.fst ++ acc := by
  induction t generalizing acc with
  | empty => rfl
  | leaf k v => rfl
  | node h k v l r ihl ihr => simp [keysHelper, abs, ihl, ihr]

theorem keys_refines (t : Tree K V) : keys t = (abs t).map Prod.fst := by simp [keys, keysHelper_eq]

theorem fold_refines {A : Type} (f : A → K → V → A) (t : Tree K V) (a : A) :
    fold f t a = (abs t).foldl (fun acc kv => f acc kv.1 kv.2) a := by
  induction t generalizing a with
  | empty => rfl
  | leaf k v => rfl
  | node h k v l r ihl ihr => simp [fold, abs, ihl, ihr]

theorem forAll_refines (f : K → V → Bool) (t : Tree K V) :
    forAll f t = (abs t).all (fun kv => f kv.1 kv.2) := by
  induction t with
  | empty => rfl
  | leaf k v => simp [forAll, abs]
  | node h k v l r ihl ihr =>
    simp [forAll, abs, ihl, ihr, List.all_append]
    cases f k v <;> simp [Bool.and_comm]

theorem isEmpty_iff (t : Tree K V) : isEmpty t = true ↔ abs t = [] := by
  cases t <;> simp [isEmpty, abs]

theorem min_refines (t : Tree K V) : min t = (abs t).head? := by
  induction t with
  | empty => rfl
  | leaf k v => rfl
  | node h k v l r ihl ihr =>
    simp only [min, abs]
    cases hl : l <;> simp_all [isEmpty, abs, List.head?_append]

theorem mapValues_refines (f : K → V → V) (t : Tree K V) :
    abs (mapValues f t) = (abs t).map (fun kv => (kv.1, f kv.1 kv.2)) := by
  induction t with
  | empty => rfl
  | leaf k v => rfl
  | node h k v l r ihl ihr => simp [mapValues, abs, ihl, ihr]

theorem abs_ne_nil_of_not_isEmpty (t : Tree K V) (h : isEmpty t = false) : abs t ≠ [] := by
  cases t <;> simp_all [isEmpty, abs]

theorem max_refines (t : Tree K V) : max t = (abs t).getLast? := by
  induction t with
  | empty => rfl
  | leaf k v => rfl
  | node h k v l r ihl ihr =>
    simp only [max, abs]
    cases hr : isEmpty r
    · have := abs_ne_nil_of_not_isEmpty r hr
      cases h' : abs r with
      | nil => exact absurd h' this
      | cons a as =>
        rw [ihr, h']
        simp [List.getLast?_append, List.getLast?_cons_cons, List.getLast?_cons]
    · have : abs r = [] := (isEmpty_iff r).1 hr
      simp [this]

theorem exists_refines (f : K → V → Bool) (t : Tree K V) :
    «exists» f t = (abs t).any (fun kv => f kv.1 kv.2) := by
  induction t with
  | empty => simp [«exists», abs]
  | leaf k v => simp [«exists», abs]
  | node h' k v l r ihl ihr =>
    simp [«exists», abs, ihl, ihr, List.any_append]
    cases f k v <;> simp [Bool.or_comm]

@[simp] theorem height_empty : height (Tree.empty : Tree K V) = 0 := rfl
@[simp] theorem height_leaf (k : K) (v : V) : height (Tree.leaf k v) = 1 := rfl
@[simp] theorem height_node (h : Int) (k : K) (v : V) (l r : Tree K V) : height (Tree.node h k v l r) = h := rfl

theorem height_nonneg (t : Tree K V) (h : Bal t) : 0 ≤ height t := by
  cases t <;> simp_all [Bal] <;> oo

theorem height_zero (t : Tree K V) (h : Bal t) (h0 : height t = 0) : t = .empty := by
  cases t <;> simp_all [Bal] <;> oo

theorem height_one (t : Tree K V) (h : Bal t) (h0 : height t = 1) : ∃ k v, t = .leaf k v := by
  cases t <;> simp_all [Bal] <;> oo

theorem create_spec (l r : Tree K V) (k : K) (v : V) (hl : Bal l) (hr : Bal r)
    (h1 : height l ≤ height r + 2) (h2 : height r ≤ height l + 2) :
    Bal (create l k v r) ∧ abs (create l k v r) = abs l ++ (k, v) :: abs r ∧
      height (create l k v r) = (if height l ≥ height r then height l + 1 else height r + 1) := by
  have := height_nonneg l hl
  have := height_nonneg r hr
  by_cases hc : height l ≥ height r
  · by_cases h1' : height l + 1 = 1
    · have e1 : height l = 0 := by oo
      have e2 : height r = 0 := by oo
      have := height_zero l hl e1
      have := height_zero r hr e2
      subst_vars
      simp [create, Bal, abs]
    · simp [create, hc, h1', Bal, abs, hl, hr]; oo
  · by_cases h1' : height r + 1 = 1
    · oo
    · simp [create, hc, h1', Bal, abs, hl, hr]; oo

theorem mkNode_spec (l r : Tree K V) (k : K) (v : V) (hl : Bal l) (hr : Bal r)
    (h1 : height l ≤ height r + 2) (h2 : height r ≤ height l + 2) (hne : height l ≥ 1 ∨ height r ≥ 1) :
    Bal (mkNode l k v r) ∧ abs (mkNode l k v r) = abs l ++ (k, v) :: abs r ∧
      height (mkNode l k v r) = (if height l ≥ height r then height l + 1 else height r + 1) := by
  have := height_nonneg l hl
  have := height_nonneg r hr
  by_cases hc : height l ≥ height r
  · simp [mkNode, hc, Bal, abs, hl, hr]; oo
  · simp [mkNode, hc, Bal, abs, hl, hr]; oo

theorem ite_max (a b x : Int) (h : x = if a ≥ b then a + 1 else b + 1) :
    (a ≥ b ∧ x = a + 1) ∨ (a < b ∧ x = b + 1) := by
  split at h <;> oo

theorem balanced_spec (l r : Tree K V) (k : K) (v : V) (hl : Bal l) (hr : Bal r)
    (h1 : height l ≤ height r + 3) (h2 : height r ≤ height l + 3) :
    ∃ t, balanced l k v r = some t ∧ Bal t ∧ abs t = abs l ++ (k, v) :: abs r ∧
      height t ≤ (if height l ≥ height r then height l else height r) + 1 ∧
      (if height l ≥ height r then height l else height r) ≤ height t ∧
      ((height l ≤ height r + 2 ∧ height r ≤ height l + 2) →
        height t = (if height l ≥ height r then height l else height r) + 1) := by
  have nl := height_nonneg l hl
  have nr := height_nonneg r hr
  by_cases c1 : height l > height r + 2
  · cases l with
    | empty => simp at c1; oo
    | leaf a b => simp at c1; oo
    | node lh lk lv ll lr =>
      simp only [Bal] at hl
      obtain ⟨bll, blr, hh, d1, d2, hge⟩ := hl
      replace hh := ite_max _ _ _ hh
      have nll := height_nonneg ll bll
      have nlr := height_nonneg lr blr
      simp only [height_node] at c1 h1 h2 nl ⊢
      by_cases c2 : height ll ≥ height lr
      · have s1 := create_spec lr r k v blr hr (by oo) (by oo)
        obtain ⟨b1, a1, e1⟩ := s1
        have s2 := mkNode_spec ll (create lr k v r) lk lv bll b1
          (by rw [e1]; (repeat' split) <;> oo) (by rw [e1]; (repeat' split) <;> oo)
          (by rw [e1]; right; split <;> oo)
        obtain ⟨b2, a2, e2⟩ := s2
        refine ⟨_, by simp [balanced, c1, c2], b2, by simp [a2, a1, abs], ?_, ?_, ?_⟩ <;>
          (rw [e2, e1]; (repeat' split) <;> oo)
      · cases lr with
        | empty => simp at c2; oo
        | leaf a b => simp at c2 hh; oo
        | node lrh lrk lrv lrl lrr =>
          simp only [Bal] at blr
          obtain ⟨blrl, blrr, hh2, d3, d4, hge2⟩ := blr
          replace hh2 := ite_max _ _ _ hh2
          have := height_nonneg lrl blrl
          have := height_nonneg lrr blrr
          simp only [height_node] at c2 hh d1 d2 nlr
          have s1 := create_spec ll lrl lk lv bll blrl (by oo)
            (by oo)
          obtain ⟨b1, a1, e1⟩ := s1
          have s3 := create_spec lrr r lrk v blrr hr (by oo)
            (by oo)
          obtain ⟨b3, a3, e3⟩ := s3
          have s3' := create_spec lrr r k v blrr hr (by oo)
            (by oo)
          obtain ⟨b3', a3', e3'⟩ := s3'
          have s2 := mkNode_spec (create ll lk lv lrl) (create lrr k v r) lrk lrv b1 b3'
            (by rw [e1, e3']; (repeat' split) <;> oo)
            (by rw [e1, e3']; (repeat' split) <;> oo)
            (by rw [e1]; left; split <;> oo)
          obtain ⟨b2, a2, e2⟩ := s2
          refine ⟨_, by simp [balanced, c1, c2], b2, by simp [a2, a1, a3', abs], ?_, ?_, ?_⟩ <;>
            (rw [e2, e1, e3']; (repeat' split) <;> oo)
  · by_cases c3 : height r > height l + 2
    · cases r with
      | empty => simp at c3; oo
      | leaf a b => simp at c3; oo
      | node rh rk rv rl rr =>
        simp only [Bal] at hr
        obtain ⟨brl, brr, hh, d1, d2, hge⟩ := hr
        replace hh := ite_max _ _ _ hh
        have nrl := height_nonneg rl brl
        have nrr := height_nonneg rr brr
        simp only [height_node] at c1 c3 h1 h2 nr ⊢
        by_cases c2 : height rr ≥ height rl
        · have s1 := create_spec l rl k v hl brl (by oo) (by oo)
          obtain ⟨b1, a1, e1⟩ := s1
          have s2 := mkNode_spec (create l k v rl) rr rk rv b1 brr
            (by rw [e1]; (repeat' split) <;> oo) (by rw [e1]; (repeat' split) <;> oo)
            (by rw [e1]; left; split <;> oo)
          obtain ⟨b2, a2, e2⟩ := s2
          refine ⟨_, by simp [balanced, c1, c3, c2], b2, by simp [a2, a1, abs], ?_, ?_, ?_⟩ <;>
            (rw [e2, e1]; (repeat' split) <;> oo)
        · cases rl with
          | empty => simp at c2; oo
          | leaf a b => simp at c2 hh; oo
          | node rlh rlk rlv rll rlr =>
            simp only [Bal] at brl
            obtain ⟨brll, brlr, hh2, d3, d4, hge2⟩ := brl
            replace hh2 := ite_max _ _ _ hh2
            have := height_nonneg rll brll
            have := height_nonneg rlr brlr
            simp only [height_node] at c2 hh d1 d2 nrl
            have s1 := create_spec l rll k v hl brll (by oo)
              (by oo)
            obtain ⟨b1, a1, e1⟩ := s1
            have s3 := create_spec rlr rr rk rv brlr brr (by oo)
              (by oo)
            obtain ⟨b3, a3, e3⟩ := s3
            have s2 := mkNode_spec (create l k v rll) (create rlr rk rv rr) rlk rlv b1 b3
              (by rw [e1, e3]; (repeat' split) <;> oo)
              (by rw [e1, e3]; (repeat' split) <;> oo)
              (by rw [e3]; right; split <;> oo)
            obtain ⟨b2, a2, e2⟩ := s2
            refine ⟨_, by simp [balanced, c1, c3, c2], b2, by simp [a2, a1, a3, abs], ?_, ?_, ?_⟩ <;>
              (rw [e2, e1, e3]; (repeat' split) <;> oo)
    · have s1 := create_spec l r k v hl hr (by oo) (by oo)
      obtain ⟨b1, a1, e1⟩ := s1
      refine ⟨_, by simp [balanced, c1, c3], b1, a1, ?_, ?_, ?_⟩ <;> (rw [e1]; (repeat' split) <;> oo)

theorem ordered_node {h : Int} {k : K} {v : V} {l r : Tree K V}
    (ho : Ordered (.node h k v l r)) :
    Ordered l ∧ Ordered r ∧ (∀ p ∈ abs l, p.1 < k) ∧ (∀ p ∈ abs r, k < p.1) := by
  simp only [Ordered, abs, List.pairwise_append, List.pairwise_cons] at ho
  obtain ⟨h1, ⟨h2, h3⟩, h4⟩ := ho
  exact ⟨h1, h3, fun p hp => h4 p hp (k, v) (by simp), h2⟩

theorem ordered_of_parts {k : K} {v : V} {a b : List (K × V)}
    (ha : a.Pairwise (fun x y => x.1 < y.1)) (hb : b.Pairwise (fun x y => x.1 < y.1))
    (h1 : ∀ p ∈ a, p.1 < k) (h2 : ∀ p ∈ b, k < p.1) :
    (a ++ (k, v) :: b).Pairwise (fun x y => x.1 < y.1) := by
  simp only [List.pairwise_append, List.pairwise_cons]
  refine ⟨ha, ⟨h2, hb⟩, ?_⟩
  intro a haa b hbb
  rcases List.mem_cons.1 hbb with e | e
  · subst e; exact h1 a haa
  · have := h1 a haa; have := h2 b e; oo

theorem insert_spec {cmp : K → K → Int} (hc : Lawful cmp) (t : Tree K V) (k : K) (v : V)
    (hb : Bal t) (ho : Ordered t) :
    ∃ t', insert cmp t k v = some t' ∧ Bal t' ∧ Ordered t' ∧
      (∀ p, p ∈ abs t' ↔ (p = (k, v) ∨ (p ∈ abs t ∧ p.1 ≠ k))) ∧
      height t ≤ height t' ∧ height t' ≤ height t + 1 := by
  induction t with
  | empty => exact ⟨.leaf k v, rfl, by simp [Bal], by simp [Ordered, abs], by simp [abs], by (first | (simp; done) | (simp; oo))⟩
  | leaf k' v' =>
    have hlt := hc.lt k k'; have heq := hc.eq k k'; have hgt := hc.gt k k'
    simp only [insert]
    by_cases c0 : cmp k k' = 0
    · have : k = k' := heq.1 c0
      subst this
      by_cases cv : v' = v
      · subst cv; exact ⟨.leaf k v', by simp [c0], hb, ho, by simp [abs], by (first | (simp; done) | (simp; oo))⟩
      · exact ⟨.leaf k v, by simp [c0, cv], by simp [Bal], by simp [Ordered, abs], by simp [abs]; try grind, by (first | (simp; done) | (simp; oo))⟩
    · by_cases c1 : cmp k k' < 0
      · refine ⟨.node 2 k v .empty (.leaf k' v'), by simp [c0, c1], by simp [Bal], ?_, ?_, by (first | (simp; done) | (simp; oo))⟩
        · simp [Ordered, abs]; oo
        · have nk : k' ≠ k := by intro e; subst e; grind
          simp [abs]; grind
      · refine ⟨.node 2 k v (.leaf k' v') .empty, by simp [c0, c1], by simp [Bal], ?_, ?_, by (first | (simp; done) | (simp; oo))⟩
        · simp [Ordered, abs]; oo
        · have nk : k' ≠ k := by intro e; subst e; grind
          simp [abs]; grind
  | node h k' v' l r ihl ihr =>
    have hlt := hc.lt k k'; have heq := hc.eq k k'; have hgt := hc.gt k k'
    obtain ⟨ol, or, bl, br⟩ := ordered_node ho
    have hb' := hb
    simp only [Bal] at hb
    obtain ⟨bll, brr, hh, d1, d2, hge⟩ := hb
    replace hh := ite_max _ _ _ hh
    simp only [insert]
    by_cases c0 : cmp k k' = 0
    · have : k = k' := heq.1 c0
      subst this
      have nk : ∀ p, p ∈ abs l ∨ p ∈ abs r → p.1 ≠ k := by
        intro p hp e; subst e; rcases hp with hp | hp
        · have := bl p hp; oo
        · have := br p hp; oo
      by_cases cv : v' = v
      · subst cv
        refine ⟨.node h k v' l r, by simp [c0], hb', ho, ?_, by (first | (simp; done) | (simp; oo))⟩
        simp [abs]; grind
      · refine ⟨.node h k v l r, by simp [c0, cv], by simp [Bal, bll, brr, d1, d2, hge]; oo, ?_, ?_, by (first | (simp; done) | (simp; oo))⟩
        · simp only [Ordered, abs]; exact ordered_of_parts ol or bl br
        · simp [abs]; grind
    · by_cases c1 : cmp k k' < 0
      · obtain ⟨ll, e, b1, o1, m1, g1, g2⟩ := ihl bll ol
        have bs := balanced_spec ll r k' v' b1 brr (by oo) (by oo)
        obtain ⟨t', e2, b2, a2, g3, g4, g5⟩ := bs
        have ord : (abs ll ++ (k', v') :: abs r).Pairwise (fun x y => x.1 < y.1) := by
          apply ordered_of_parts o1 or _ br
          intro p hp
          rcases (m1 p).1 hp with hp | hp
          · subst hp; exact hlt.1 c1
          · exact bl p hp.1
        have mem : ∀ p, p ∈ abs ll ++ (k', v') :: abs r ↔
            (p = (k, v) ∨ (p ∈ abs l ++ (k', v') :: abs r ∧ p.1 ≠ k)) := by
          intro p
          have := m1 p
          have nk : k' ≠ k := by intro e; subst e; grind
          have nr : ∀ q ∈ abs r, q.1 ≠ k := by
            intro q hq e; have := br q hq; rw [e] at this; have := hlt.1 c1; oo
          simp only [List.mem_append, List.mem_cons]
          grind
        by_cases same : l = ll
        · subst same
          exact ⟨.node h k' v' l r, by simp [c0, c1, e], hb', ho, by simpa [abs] using mem, by (first | (simp; done) | (simp; oo))⟩
        · refine ⟨t', by simp [c0, c1, e, same, e2], b2, by simpa [Ordered, a2] using ord,
            by simpa [a2, abs] using mem, ?_, ?_⟩ <;> simp only [height_node] <;>
            (repeat' split at g3) <;> (repeat' split at g4) <;> oo
      · have c2 : cmp k k' > 0 := by oo
        obtain ⟨rr, e, b1, o1, m1, g1, g2⟩ := ihr brr or
        have bs := balanced_spec l rr k' v' bll b1 (by oo) (by oo)
        obtain ⟨t', e2, b2, a2, g3, g4, g5⟩ := bs
        have ord : (abs l ++ (k', v') :: abs rr).Pairwise (fun x y => x.1 < y.1) := by
          apply ordered_of_parts ol o1 bl
          intro p hp
          rcases (m1 p).1 hp with hp | hp
          · subst hp; exact hgt.1 c2
          · exact br p hp.1
        have mem : ∀ p, p ∈ abs l ++ (k', v') :: abs rr ↔
            (p = (k, v) ∨ (p ∈ abs l ++ (k', v') :: abs r ∧ p.1 ≠ k)) := by
          intro p
          have := m1 p
          have nk : k' ≠ k := by intro e; subst e; grind
          have nr : ∀ q ∈ abs l, q.1 ≠ k := by
            intro q hq e; have := bl q hq; rw [e] at this; have := hgt.1 c2; oo
          simp only [List.mem_append, List.mem_cons]
          grind
        by_cases same : r = rr
        · subst same
          exact ⟨.node h k' v' l r, by simp [c0, c1, e], hb', ho, by simpa [abs] using mem, by (first | (simp; done) | (simp; oo))⟩
        · refine ⟨t', by simp [c0, c1, e, same, e2], b2, by simpa [Ordered, a2] using ord,
            by simpa [a2, abs] using mem, ?_, ?_⟩ <;> simp only [height_node] <;>
            (repeat' split at g3) <;> (repeat' split at g4) <;> oo

end SamVerif.StdMap
