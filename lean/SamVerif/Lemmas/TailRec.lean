import SamVerif.Model.TailRec
/-! Helper lemmas for C01 / K3: sequential vs parallel loop-variable update; one activation of the
recursive function vs one iteration of the rewritten loop. -/
namespace SamVerif.TailRec
open SamVerif.Opt (Op)

theorem seqAssign_notin (env : Env) (pairs : List (Name × Expr)) (x : Name)
    (h : x ∉ pairs.map Prod.fst) : seqAssign env pairs x = env x := by
  induction pairs generalizing env with
  | nil => rfl
  | cons pa rest ih =>
    obtain ⟨p, a⟩ := pa
    simp at h
    simp only [seqAssign]
    rw [ih]
    · simp [upd, h.1]
    · simpa using h.2

theorem eval_upd_of_ne (env : Env) (p : Name) (v : Int) (b : Expr) (h : b ≠ .var p) :
    b.eval (upd env p v) = b.eval env := by
  cases b with
  | lit n => rfl
  | var x =>
    have : x ≠ p := fun hx => h (by rw [hx])
    simp [Expr.eval, upd, this]

theorem upd_self (env : Env) (p : Name) : upd env p (env p) = env := by
  funext y
  simp only [upd]
  split
  · rename_i h; rw [h]
  · rfl

/-- Sequential loop-variable update = parallel update, when no loop value reads a parameter
already overwritten. -/
theorem seqAssign_eq_par (params : List Name) :
    ∀ (args : List Expr) (env : Env), params.Nodup → args.length = params.length →
      noBackwardRef params args = true →
      params.map (seqAssign env (params.zip args)) = args.map (Expr.eval env) := by
  induction params with
  | nil => intro args env _ hl _; cases args with
    | nil => rfl
    | cons a r => simp at hl
  | cons p ps ih =>
    intro args env hnd hl hs
    cases args with
    | nil => simp at hl
    | cons a rest =>
      simp only [List.zip_cons_cons, seqAssign, List.map_cons]
      have hnd' := List.nodup_cons.mp hnd
      simp only [noBackwardRef, Bool.and_eq_true, Bool.or_eq_true] at hs
      have hl' : rest.length = ps.length := by simpa using hl
      have hhead : seqAssign (upd env p (a.eval env)) (ps.zip rest) p = a.eval env := by
        rw [seqAssign_notin]
        · simp [upd]
        · intro hm
          have : p ∈ ps := by
            have := List.map_fst_zip (l₁ := ps) (l₂ := rest) (by omega)
            rw [this] at hm
            exact hm
          exact hnd'.1 this
      rw [hhead, ih rest _ hnd'.2 hl' hs.2]
      congr 1
      apply List.map_congr_left
      intro b hb
      cases hs.1 with
      | inl h =>
        have : a = .var p := by simpa using h
        subst this
        simp only [Expr.eval]
        rw [upd_self]
      | inr h =>
        apply eval_upd_of_ne
        have := (List.all_eq_true.mp h) b hb
        simpa using this

end SamVerif.TailRec

namespace SamVerif.TailRec
open SamVerif.Opt (Op)

/-- Outcomes of one activation of the recursive function vs one iteration of the loop body. -/
inductive Rel : Option Walk → Option LWalk → Prop where
  | trap : Rel none none
  | value (v : Int) : Rel (some (.value v)) (some (.brk v))
  | vals (vs : List Int) : Rel (some (.again vs)) (some (.nextVals vs))
  | exprs (env : Env) (args : List Expr) :
      Rel (some (.again (args.map (Expr.eval env)))) (some (.next env args))

theorem rw_none_walk (ev : Op → Int → Int → Option Int) (b : Body) :
    ∀ (env : Env), rw b = none → ∀ vs, walkRec ev env b ≠ some (.again vs) := by
  induction b with
  | ret e => intro env _ vs; simp [walkRec]
  | tail args => intro env h; simp [rw] at h
  | ite c t e iht ihe =>
    intro env h vs
    have ht : rw t = none := by
      cases h1 : rw t <;> cases h2 : rw e <;> simp [rw, h1, h2] at h ⊢
    have he : rw e = none := by
      cases h1 : rw t <;> cases h2 : rw e <;> simp [rw, h1, h2] at h ⊢
    simp only [walkRec]
    split
    · exact iht env ht vs
    · exact ihe env he vs
  | bin x op e1 e2 k ih =>
    intro env h vs
    have hk : rw k = none := by
      cases h1 : rw k <;> simp [rw, h1] at h ⊢
    simp only [walkRec]
    split
    · simp
    · exact ih _ hk vs

theorem walk_rel (ev : Op → Int → Int → Option Int) (b : Body) :
    ∀ (l : LBody) (env : Env), rw b = some l → Rel (walkRec ev env b) (walkLoop ev env l) := by
  induction b with
  | ret e => intro l env h; simp [rw] at h
  | tail args =>
    intro l env h
    simp [rw] at h
    subst h
    simp only [walkRec, walkLoop]
    exact Rel.exprs env args
  | bin x op e1 e2 k ih =>
    intro l env h
    cases hk : rw k with
    | none => simp [rw, hk] at h
    | some k' =>
      simp [rw, hk] at h
      subst h
      simp only [walkRec, walkLoop]
      split
      · exact Rel.trap
      · exact ih k' _ hk
  | ite c t e iht ihe =>
    intro l env h
    cases h1 : rw t with
    | none =>
      cases h2 : rw e with
      | none => simp [rw, h1, h2] at h
      | some l2 =>
        simp [rw, h1, h2] at h
        subst h
        simp only [walkRec, walkLoop]
        by_cases hc : c.eval env = 0
        · simp [hc]
          exact ihe l2 env h2
        · simp [hc]
          have hn := rw_none_walk ev t env h1
          cases hw : walkRec ev env t with
          | none => exact Rel.trap
          | some w =>
            cases w with
            | value r => exact Rel.value r
            | again vs => exact absurd hw (hn vs)
    | some l1 =>
      cases h2 : rw e with
      | none =>
        simp [rw, h1, h2] at h
        subst h
        simp only [walkRec, walkLoop]
        by_cases hc : c.eval env = 0
        · simp [hc]
          have hn := rw_none_walk ev e env h2
          cases hw : walkRec ev env e with
          | none => exact Rel.trap
          | some w =>
            cases w with
            | value r => exact Rel.value r
            | again vs => exact absurd hw (hn vs)
        · simp [hc]
          exact iht l1 env h1
      | some l2 =>
        simp [rw, h1, h2] at h
        subst h
        simp only [walkRec, walkLoop]
        by_cases hc : c.eval env = 0
        · simp only [hc, ne_eq, not_true_eq_false, if_false]
          have := ihe l2 env h2
          revert this
          generalize walkRec ev env e = a
          generalize walkLoop ev env l2 = b
          intro r
          cases r with
          | trap => exact Rel.trap
          | value v => exact Rel.value v
          | vals vs => exact Rel.vals vs
          | exprs env' args => exact Rel.vals _
        · simp only [hc, ne_eq, not_false_eq_true, if_true]
          have := iht l1 env h1
          revert this
          generalize walkRec ev env t = a
          generalize walkLoop ev env l1 = b
          intro r
          cases r with
          | trap => exact Rel.trap
          | value v => exact Rel.value v
          | vals vs => exact Rel.vals vs
          | exprs env' args => exact Rel.vals _

theorem readsOther_false_iff (params : List Name) (args : List Expr) :
    readsOther params args = false ↔
      ∀ (i j : Nat) (x : Name), args[i]? = some (.var x) → params[j]? = some x → i = j := by
  unfold readsOther
  rw [List.any_eq_false]
  constructor
  · intro h i j x hi hj
    have hil : i < args.length := by
      have := List.getElem?_eq_some_iff.mp hi; exact this.1
    have hjl : j < params.length := by
      have := List.getElem?_eq_some_iff.mp hj; exact this.1
    have := h i (List.mem_range.mpr hil)
    simp only [hi] at this
    rw [Bool.not_eq_true, List.any_eq_false] at this
    have := this j (List.mem_range.mpr hjl)
    simp [hj] at this
    exact this
  · intro h i hi
    cases ha : args[i]? with
    | none => simp
    | some a =>
      cases a with
      | lit n => simp
      | var x =>
        simp only [Bool.not_eq_true, List.any_eq_false]
        intro j hj
        by_cases hp : params[j]? = some x
        · have := h i j x ha hp
          simp [this]
        · simp [hp]

theorem noBackwardRef_of_char (params : List Name) : ∀ (args : List Expr),
    (∀ (i j : Nat) (x : Name), args[i]? = some (.var x) → params[j]? = some x → i = j) →
    noBackwardRef params args = true := by
  induction params with
  | nil => intro args _; cases args <;> simp [noBackwardRef]
  | cons p ps ih =>
    intro args h
    cases args with
    | nil => simp [noBackwardRef]
    | cons a rest =>
      simp only [noBackwardRef, Bool.and_eq_true, Bool.or_eq_true]
      refine ⟨Or.inr ?_, ih rest ?_⟩
      · rw [List.all_eq_true]
        intro b hb
        obtain ⟨k, hk⟩ := List.getElem?_of_mem hb
        by_cases hbp : b = .var p
        · subst hbp
          have := h (k + 1) 0 p (by simpa using hk) (by simp)
          omega
        · simpa using hbp
      · intro i j x hi hj
        have := h (i + 1) (j + 1) x (by simpa using hi) (by simpa using hj)
        omega

theorem noBackwardRef_of_disjoint (params : List Name) (args : List Expr)
    (h : ∀ a ∈ args, ∀ p ∈ params, a ≠ .var p) : noBackwardRef params args = true := by
  apply noBackwardRef_of_char
  intro i j x hi hj
  exact absurd rfl (h (.var x) (List.mem_of_getElem? hi) x (List.mem_of_getElem? hj))

end SamVerif.TailRec
