import SamVerif.Model.Fmt
/-!
Helper lemmas for C08 (`Props/C08.lean`).

The fuelled parser functions of `Model/Fmt.lean` are wrapped into relations with an explicit
sufficient recursion budget (`PLevel n k ts e r`: for every budget ≥ `n`, `parseLevel · k ts`
returns `(e, r)`), for which the compositional rules of a recursive-descent parser hold.  The main
lemma `main` is the loop invariant of precedence climbing: printing `e` and continuing with `rest`
parses back to `e` and then continues the loop of `e`'s own level with `e` as accumulator; its
budget is `B e + (budget of the continuation)`, and `B e` is linear in the number of printed tokens.
-/
namespace SamVerif.Fmt

def PTop (n : Nat) (ts : List Tok) (e : Expr) (r : List Tok) : Prop :=
  ∀ f, n ≤ f → parseTop f ts = some (e, r)
def PBase (n : Nat) (ts : List Tok) (e : Expr) (r : List Tok) : Prop :=
  ∀ f, n ≤ f → parseBase f ts = some (e, r)
def PUn (n : Nat) (ts : List Tok) (e : Expr) (r : List Tok) : Prop :=
  ∀ f, n ≤ f → parseUnary f ts = some (e, r)
def PLevel (n k : Nat) (ts : List Tok) (e : Expr) (r : List Tok) : Prop :=
  ∀ f, n ≤ f → parseLevel f k ts = some (e, r)
def PLoop (n k : Nat) (acc : Expr) (ts : List Tok) (e : Expr) (r : List Tok) : Prop :=
  ∀ f, n ≤ f → parseLoop f k acc ts = some (e, r)

theorem PTop.mono {n n' ts e r} (h : PTop n ts e r) (hn : n ≤ n') : PTop n' ts e r :=
  fun f hf => h f (by omega)
theorem PBase.mono {n n' ts e r} (h : PBase n ts e r) (hn : n ≤ n') : PBase n' ts e r :=
  fun f hf => h f (by omega)
theorem PLevel.mono {n n' k ts e r} (h : PLevel n k ts e r) (hn : n ≤ n') : PLevel n' k ts e r :=
  fun f hf => h f (by omega)
theorem PLoop.mono {n n' k a ts e r} (h : PLoop n k a ts e r) (hn : n ≤ n') : PLoop n' k a ts e r :=
  fun f hf => h f (by omega)

theorem succ_of_le {n f : Nat} (h : n + 1 ≤ f) : ∃ f', f = f' + 1 ∧ n ≤ f' := ⟨f - 1, by omega, by omega⟩

/-- the input does not start with a keyword-introduced expression. -/
def notKw (ts : List Tok) : Prop := ∀ k r, ts ≠ .kwIf k :: r ∧ ts ≠ .kwMatch k :: r
/-- the input does not start with a unary operator. -/
def startsBase (ts : List Tok) : Prop := ∀ r, ts ≠ .bang :: r ∧ ts ≠ .op .minus :: r

theorem ptop_if (k : Nat) (r : List Tok) : PTop 1 (.kwIf k :: r) (.ifElse k) r := by
  intro f hf; obtain ⟨f', rfl, _⟩ := succ_of_le hf; simp [parseTop]
theorem ptop_match (k : Nat) (r : List Tok) : PTop 1 (.kwMatch k :: r) (.matchE k) r := by
  intro f hf; obtain ⟨f', rfl, _⟩ := succ_of_le hf; simp [parseTop]

theorem ptop_level {n ts e r} (h : PLevel n 0 ts e r) (hk : notKw ts) : PTop (n + 1) ts e r := by
  intro f hf
  obtain ⟨f', rfl, hf'⟩ := succ_of_le hf
  rw [parseTop]
  · exact h f' hf'
  · intro k ts' he; exact (hk k ts').2 he
  · intro k ts' he; exact (hk k ts').1 he

theorem pbase_atom (a : Nat) (r : List Tok) : PBase 1 (.atom a :: r) (.atom a) r := by
  intro f hf; obtain ⟨f', rfl, _⟩ := succ_of_le hf; simp [parseBase]

theorem pbase_paren {n ts e r} (h : PTop n ts e (.rp :: r)) : PBase (n + 1) (.lp :: ts) e r := by
  intro f hf; obtain ⟨f', rfl, hf'⟩ := succ_of_le hf; simp [parseBase, h f' hf']

theorem pbase_lam {n ts body r} (k : Nat) (h : PTop n ts body r) :
    PBase (n + 1) (.lam k :: ts) (.lambda k body) r := by
  intro f hf; obtain ⟨f', rfl, hf'⟩ := succ_of_le hf; simp [parseBase, h f' hf']

theorem pun_not {n ts e r} (h : PLevel n 6 ts e r) : PUn (n + 1) (.bang :: ts) (.unary .not e) r := by
  intro f hf; obtain ⟨f', rfl, hf'⟩ := succ_of_le hf; simp [parseUnary, h f' hf']

theorem pun_neg {n ts e r} (h : PLevel n 6 ts e r) :
    PUn (n + 1) (.op .minus :: ts) (.unary .neg e) r := by
  intro f hf; obtain ⟨f', rfl, hf'⟩ := succ_of_le hf; simp [parseUnary, h f' hf']

theorem pun_other {n ts e r} (h : PLevel n 6 ts e r) (hs : startsBase ts) : PUn (n + 1) ts e r := by
  intro f hf
  obtain ⟨f', rfl, hf'⟩ := succ_of_le hf
  rw [parseUnary]
  · exact h f' hf'
  · intro ts' he; exact (hs ts').1 he
  · intro ts' he; exact (hs ts').2 he

theorem plevel6 {n1 n2 k ts x e r1 r} (hk : 6 ≤ k) (h1 : PBase n1 ts x r1)
    (h2 : PLoop n2 6 x r1 e r) : PLevel (n1 + n2 + 1) k ts e r := by
  intro f hf
  obtain ⟨f', rfl, hf'⟩ := succ_of_le hf
  simp [parseLevel, hk, h1 f' (by omega), h2 f' (by omega)]

theorem plevel5 {n ts e r} (h : PUn n ts e r) : PLevel (n + 1) 5 ts e r := by
  intro f hf
  obtain ⟨f', rfl, hf'⟩ := succ_of_le hf
  simp [parseLevel, h f' hf']

theorem plevel_step {n1 n2 k ts x e r1 r} (hk : k < 5) (h1 : PLevel n1 (k + 1) ts x r1)
    (h2 : PLoop n2 k x r1 e r) : PLevel (n1 + n2 + 1) k ts e r := by
  intro f hf
  obtain ⟨f', rfl, hf'⟩ := succ_of_le hf
  have a : ¬ (6 ≤ k) := by omega
  have b : ¬ (k = 5) := by omega
  simp [parseLevel, a, b, h1 f' (by omega), h2 f' (by omega)]

/-- the loop level that would consume the token, if any. -/
def bl : Tok → Option Nat
  | .op o => some o.plevel
  | .post _ _ => some 6
  | _ => none

/-- the leading token of `ts` is not consumed by the loop of any level ≥ `k`. -/
def stopsAbove (k : Nat) (ts : List Tok) : Prop :=
  ∀ t rest b, ts = t :: rest → bl t = some b → b < k

theorem plevel_le4 (o : BinOp) : o.plevel ≤ 4 := by cases o <;> decide

theorem bl_le6 {t : Tok} {b : Nat} (h : bl t = some b) : b ≤ 6 := by
  cases t <;> simp [bl] at h
  · have := plevel_le4 ‹BinOp›; omega
  · omega

theorem ploop_stop {k : Nat} {e : Expr} {ts : List Tok}
    (h : ∀ t rest, ts = t :: rest → bl t ≠ some k) : PLoop 1 k e ts e ts := by
  intro f hf
  obtain ⟨f', rfl, _⟩ := succ_of_le hf
  cases ts with
  | nil => simp [parseLoop]
  | cons t ts =>
    have ht := h t ts rfl
    cases t with
    | op o =>
      have : ¬ o.plevel = k := by simpa [bl] using ht
      simp [parseLoop, this]
    | post p fld =>
      have : ¬ k = 6 := by intro e; apply ht; simp [bl, e]
      simp [parseLoop, this]
    | lp => simp [parseLoop]
    | rp => simp [parseLoop]
    | bang => simp [parseLoop]
    | atom a => simp [parseLoop]
    | kwIf a => simp [parseLoop]
    | kwMatch a => simp [parseLoop]
    | lam a => simp [parseLoop]

theorem ploop_stop_of {k k' : Nat} {e : Expr} {ts : List Tok} (h : stopsAbove k ts) (hk : k ≤ k') :
    PLoop 1 k' e ts e ts :=
  ploop_stop (fun t rest ht hb => by have := h t rest k' ht hb; omega)

theorem ploop_step {n1 n2 k o acc x e ts r1 r} (ho : BinOp.plevel o = k)
    (h1 : PLevel n1 (k + 1) ts x r1) (h2 : PLoop n2 k (.binary o acc x) r1 e r) :
    PLoop (n1 + n2 + 1) k acc (.op o :: ts) e r := by
  intro f hf
  obtain ⟨f', rfl, hf'⟩ := succ_of_le hf
  simp [parseLoop, ho, h1 f' (by omega), h2 f' (by omega)]

theorem ploop_post {n acc p fld e ts r} (hlt : fld = true → startsLt ts = false)
    (h : PLoop n 6 (.post acc p fld) ts e r) : PLoop (n + 1) 6 acc (.post p fld :: ts) e r := by
  intro f hf
  obtain ⟨f', rfl, hf'⟩ := succ_of_le hf
  have : (fld && startsLt ts) = false := by
    cases fld <;> simp_all
  simp [parseLoop, h f' hf', this]

/-- what follows does not turn a final member name into the start of type arguments. -/
def okAfter (e : Expr) (rest : List Tok) : Prop := lastField e = true → startsLt rest = false

theorem startsLt_of_stops0 {rest : List Tok} (h : ∀ t r b, rest = t :: r → bl t = some b → b < 0) :
    startsLt rest = false := by
  cases rest with
  | nil => rfl
  | cons t r =>
    cases t <;> try rfl
    rename_i o
    have := h (.op o) r o.plevel rfl rfl
    omega

theorem startsLt_rp (T : List Tok) : startsLt (.rp :: T) = false := rfl

theorem stopsAbove_mono {k k' : Nat} {ts : List Tok} (h : stopsAbove k ts) (hk : k ≤ k') :
    stopsAbove k' ts := fun t rest b ht hb => Nat.lt_of_lt_of_le (h t rest b ht hb) hk

theorem stopsAbove_rp (k : Nat) (t : List Tok) : stopsAbove k (.rp :: t) := by
  intro t' rest b h hb; cases h; simp [bl] at hb

theorem stopsAbove_nil (k : Nat) : stopsAbove k [] := by
  intro t' rest b h; cases h

theorem stopsAbove_op {k : Nat} {o : BinOp} {t : List Tok} (h : o.plevel < k) :
    stopsAbove k (.op o :: t) := by
  intro t' rest b he hb; cases he; simp [bl] at hb; omega

theorem stopsAbove_7 (ts : List Tok) : stopsAbove 7 ts := by
  intro t rest b _ hb; have := bl_le6 hb; omega

/-- a result obtained at a tighter level is also the result at every looser level whose loops
all stop at the remaining input (crossing the unary level needs a non-unary first token). -/
theorem lift {n j : Nat} (hj : j ≤ 6) {ts : List Tok} {x : Expr} {r : List Tok}
    (h : PLevel n j ts x r) (hb : j = 6 → startsBase ts) :
    ∀ (d k : Nat), k + d = j → stopsAbove k r → PLevel (n + 2 * d) k ts x r := by
  intro d
  induction d with
  | zero => intro k hk _; have : k = j := by omega
            subst this; exact h
  | succ d ih =>
    intro k hk hs
    have h1 : PLevel (n + 2 * d) (k + 1) ts x r := ih (k + 1) (by omega) (stopsAbove_mono hs (by omega))
    by_cases h5 : k = 5
    · subst h5
      have : j = 6 := by omega
      have hd : d = 0 := by omega
      subst hd
      exact (plevel5 (pun_other h1 (hb this))).mono (by omega)
    · exact (plevel_step (by omega) h1 (ploop_stop_of hs (Nat.le_refl k))).mono (by omega)

theorem paren_append (ts T : List Tok) : paren ts ++ T = .lp :: (ts ++ .rp :: T) := by
  simp [paren]

theorem shortcutOk_lt (r : Expr) : shortcutOk .lt r = false := by
  cases r <;> simp [shortcutOk]

/-- restatement of the printing cases of a binary expression. -/
theorem printE_binary (o : BinOp) (l r : Expr) :
    printE (.binary o l r) =
      (if lParen o l then paren (printE l) else printE l) ++
        .op o :: (if rParen o l r then paren (printE r) else printE r) := by
  simp only [printE, lParen, rParen, sub]
  by_cases h0 : o = .lt ∧ endsMember l = true
  · obtain ⟨rfl, hm⟩ := h0
    by_cases h1 : l.prec = 4 + BinOp.lt.pprec
    · simp [hm, h1]
    · simp [hm, h1, shortcutOk_lt]
  · by_cases h1 : l.prec = 4 + o.pprec
    · simp [h0, h1]
    · by_cases h2 : r.prec = 4 + o.pprec ∧ shortcutOk o r = true
      · simp [h0, h1, h2]
      · simp [h0, h1, h2]

theorem endsMember_of_lastField (e : Expr) (h : lastField e = true) : endsMember e = true := by
  induction e with
  | atom a => simp [lastField] at h
  | ifElse k => simp [lastField] at h
  | matchE k => simp [lastField] at h
  | post e p fld _ => simpa [lastField, endsMember] using h
  | lambda k b ih => simp only [lastField] at h; simp only [endsMember]; exact ih h
  | unary u a ih =>
    simp only [lastField] at h
    by_cases hp : needParen 2 true a = true
    · simp [hp] at h
    · simp only [hp] at h
      simp only [endsMember, Bool.and_eq_true, decide_eq_true_eq]
      refine ⟨?_, ih h⟩
      simp [needParen] at hp; omega
  | binary o l r _ ihr =>
    simp only [lastField] at h
    by_cases hp : rParen o l r = true
    · simp [hp] at h
    · simp only [hp] at h
      simp only [endsMember]; exact ihr h

theorem lvl_le6 (e : Expr) : e.lvl ≤ 6 := by
  cases e <;> simp [Expr.lvl]
  have := plevel_le4 ‹BinOp›; omega

theorem prec_le12 (e : Expr) : e.prec ≤ 12 := by
  cases e <;> simp [Expr.prec]
  rename_i o _ _; cases o <;> simp [BinOp.pprec]

/-! ### first token of a printed expression -/

def headBase (ts : List Tok) : Prop := ∃ t r, ts = t :: r ∧ (t = .lp ∨ ∃ a, t = .atom a)
def headOk (ts : List Tok) : Prop :=
  ∃ t r, ts = t :: r ∧ (t = .lp ∨ (∃ a, t = .atom a) ∨ t = .bang ∨ t = .op .minus)

theorem headBase_append {ts : List Tok} (h : headBase ts) (T : List Tok) : headBase (ts ++ T) := by
  obtain ⟨t, r, rfl, ht⟩ := h; exact ⟨t, r ++ T, rfl, ht⟩
theorem headOk_append {ts : List Tok} (h : headOk ts) (T : List Tok) : headOk (ts ++ T) := by
  obtain ⟨t, r, rfl, ht⟩ := h; exact ⟨t, r ++ T, rfl, ht⟩
theorem headOk_of_base {ts : List Tok} (h : headBase ts) : headOk ts := by
  obtain ⟨t, r, rfl, ht⟩ := h
  exact ⟨t, r, rfl, by rcases ht with h | h; exact .inl h; exact .inr (.inl h)⟩
theorem headBase_paren (ts : List Tok) : headBase (paren ts) := ⟨.lp, ts ++ [.rp], rfl, .inl rfl⟩

theorem startsBase_of_headBase {ts : List Tok} (h : headBase ts) : startsBase ts := by
  obtain ⟨t, r, rfl, ht⟩ := h
  intro r'
  constructor <;> intro he <;> cases he <;> rcases ht with h | ⟨a, h⟩ <;> cases h
theorem notKw_of_headOk {ts : List Tok} (h : headOk ts) : notKw ts := by
  obtain ⟨t, r, rfl, ht⟩ := h
  intro k r'
  constructor <;> intro he <;> cases he <;> rcases ht with h | ⟨a, h⟩ | h | h <;> cases h

theorem head_base (e : Expr) (h : RT e = true) (ho : e.operandOk = true) (hl : e.lvl = 6) :
    headBase (printE e) := by
  induction e with
  | atom a => exact ⟨.atom a, [], rfl, .inr ⟨a, rfl⟩⟩
  | post e p fld ih =>
    simp only [RT, Bool.and_eq_true, Bool.or_eq_true, decide_eq_true_eq] at h
    simp only [printE, sub]
    by_cases hp : needParen 1 false e = true
    · simp only [hp, if_true]; exact headBase_append (headBase_paren _) _
    · simp only [hp]
      rcases h.2 with h2 | h2
      · exact absurd h2 hp
      · exact headBase_append (ih h.1 h2.1 (by have := lvl_le6 e; omega)) _
  | unary u e _ => simp [Expr.lvl] at hl
  | binary o l r _ _ => simp [Expr.lvl] at hl; have := plevel_le4 o; omega
  | ifElse k => simp [Expr.operandOk] at ho
  | matchE k => simp [Expr.operandOk] at ho
  | lambda k b _ => simp [Expr.operandOk] at ho

theorem head_ok (e : Expr) (h : RT e = true) (ho : e.operandOk = true) : headOk (printE e) := by
  induction e with
  | atom a => exact headOk_of_base (head_base _ h ho rfl)
  | post e p fld _ => exact headOk_of_base (head_base _ h ho rfl)
  | unary u e _ =>
    cases u
    · exact ⟨.bang, _, rfl, .inr (.inr (.inl rfl))⟩
    · exact ⟨.op .minus, _, rfl, .inr (.inr (.inr rfl))⟩
  | binary o l r ihl _ =>
    simp only [RT, Bool.and_eq_true, Bool.or_eq_true, decide_eq_true_eq] at h
    rw [printE_binary]
    by_cases hp : lParen o l = true
    · simp only [hp, if_true]; exact headOk_append (headOk_of_base (headBase_paren _)) _
    · simp only [hp]
      rcases h.1.1.2 with h2 | h2
      · exact absurd h2 hp
      · exact headOk_append (ihl h.1.1.1.1 h2.1) _
  | ifElse k => simp [Expr.operandOk] at ho
  | matchE k => simp [Expr.operandOk] at ho
  | lambda k b _ => simp [Expr.operandOk] at ho

/-! ### the main lemma -/

/-- recursion budget sufficient for the printed form of `e` (linear in the number of tokens). -/
def B : Expr → Nat
  | .atom _ => 4
  | .post e _ _ => B e + 60
  | .unary _ e => B e + 60
  | .binary _ l r => B l + B r + 120
  | .ifElse _ => 4
  | .matchE _ => 4
  | .lambda _ b => B b + 60

/-- conclusion of the main lemma for one expression. -/
def MainConcl (e : Expr) : Prop :=
  (e.operandOk = false → ∀ rest, stopsAbove 0 rest → PTop (B e) (printE e ++ rest) e rest) ∧
  (e.operandOk = true → e.lvl = 5 → ∀ rest, stopsAbove 6 rest → okAfter e rest →
    PLevel (B e) 5 (printE e ++ rest) e rest) ∧
  (e.operandOk = true → e.lvl ≠ 5 → ∀ rest x r1 m, stopsAbove (e.lvl + 1) rest → okAfter e rest →
    PLoop m e.lvl e rest x r1 → PLevel (B e + m) e.lvl (printE e ++ rest) x r1)

/-- from the loop-invariant form to the plain form: at every level `k` not tighter than `e`'s
own, with the loops of all levels ≥ `k` stopping at `rest`. -/
theorem main_at {e : Expr} (hm : MainConcl e) (hrt : RT e = true) (ho : e.operandOk = true)
    {k : Nat} (hk : k ≤ e.lvl) {rest : List Tok} (hs : stopsAbove k rest) (hok : okAfter e rest) :
    PLevel (B e + 16) k (printE e ++ rest) e rest := by
  have h6 := lvl_le6 e
  by_cases h5 : e.lvl = 5
  · have := hm.2.1 ho h5 rest (stopsAbove_mono hs (by omega)) hok
    exact (lift (by omega) this (by omega) (5 - k) k (by omega) hs).mono (by omega)
  · have hl : PLoop 1 e.lvl e rest e rest := ploop_stop_of hs hk
    have := hm.2.2 ho h5 rest e rest 1 (stopsAbove_mono hs (by omega)) hok hl
    refine (lift h6 this (fun h => ?_) (e.lvl - k) k (by omega) hs).mono (by omega)
    exact startsBase_of_headBase (headBase_append (head_base e hrt ho h) rest)

theorem main_top {e : Expr} (hm : MainConcl e) (hrt : RT e = true) {rest : List Tok}
    (hs : stopsAbove 0 rest) : PTop (B e + 20) (printE e ++ rest) e rest := by
  by_cases ho : e.operandOk = true
  · have h0 := main_at hm hrt ho (Nat.zero_le _) hs (fun _ => startsLt_of_stops0 hs)
    exact (ptop_level h0 (notKw_of_headOk (headOk_append (head_ok e hrt ho) rest))).mono (by omega)
  · exact (hm.1 (by simpa using ho) rest hs).mono (by omega)

theorem operand_paren {s : Expr} (hm : MainConcl s) (hrt : RT s = true) {k : Nat} (hk6 : k ≤ 6)
    {T : List Tok} (hs : stopsAbove k T) : PLevel (B s + 40) k (paren (printE s) ++ T) s T := by
  rw [paren_append]
  have h0 := main_top hm hrt (stopsAbove_rp 0 T)
  have h6 := plevel6 (Nat.le_refl 6) (pbase_paren h0) (ploop_stop_of (e := s) hs hk6)
  refine (lift (Nat.le_refl 6) h6 (fun _ => ?_) (6 - k) k (by omega) hs).mono (by omega)
  exact startsBase_of_headBase ⟨.lp, _, rfl, .inl rfl⟩

/-- **Loop invariant of precedence climbing** for printed expressions. -/
theorem main (e : Expr) (h : RT e = true) : MainConcl e := by
  induction e with
  | atom a =>
    refine ⟨fun ho => by simp [Expr.operandOk] at ho, fun _ h5 => by simp [Expr.lvl] at h5,
      fun _ _ rest x r1 m _ _ hloop => ?_⟩
    simp only [printE, List.singleton_append, Expr.lvl] at hloop ⊢
    exact (plevel6 (Nat.le_refl 6) (pbase_atom a rest) hloop).mono (by simp only [B]; omega)
  | ifElse k =>
    refine ⟨fun _ rest _ => ?_, fun ho => by simp [Expr.operandOk] at ho,
      fun ho => by simp [Expr.operandOk] at ho⟩
    exact (ptop_if k rest).mono (by simp [B])
  | matchE k =>
    refine ⟨fun _ rest _ => ?_, fun ho => by simp [Expr.operandOk] at ho,
      fun ho => by simp [Expr.operandOk] at ho⟩
    exact (ptop_match k rest).mono (by simp [B])
  | lambda k body ih =>
    simp only [RT] at h
    have hmb := ih h
    refine ⟨fun _ rest hs => ?_, fun ho => by simp [Expr.operandOk] at ho,
      fun ho => by simp [Expr.operandOk] at ho⟩
    have hnp : needParen 12 false body = false := by
      have := prec_le12 body; simp [needParen]; omega
    simp only [printE, sub, hnp, List.cons_append]
    have hb := pbase_lam k (main_top hmb h hs)
    have h6 := plevel6 (Nat.le_refl 6) hb (ploop_stop_of (e := .lambda k body) hs (Nat.zero_le 6))
    have hsb : startsBase (.lam k :: (printE body ++ rest)) := by
      intro r; constructor <;> intro he <;> cases he
    have h0 := lift (Nat.le_refl 6) h6 (fun _ => hsb) 6 0 (by omega) hs
    have hnk : notKw (.lam k :: (printE body ++ rest)) := by
      intro k' r; constructor <;> intro he <;> cases he
    exact (ptop_level h0 hnk).mono (by simp only [B]; omega)
  | post e p fld ih =>
    simp only [RT, Bool.and_eq_true, Bool.or_eq_true, decide_eq_true_eq] at h
    have hme := ih h.1
    refine ⟨fun ho => by simp [Expr.operandOk] at ho, fun _ h5 => by simp [Expr.lvl] at h5,
      fun _ _ rest x r1 m _ hok hloop => ?_⟩
    simp only [Expr.lvl] at hloop ⊢
    have hL : PLoop (m + 1) 6 e (.post p fld :: rest) x r1 :=
      ploop_post (fun hf => hok (by simp [lastField, hf])) hloop
    simp only [printE, sub, List.append_assoc, List.singleton_append]
    by_cases hp : needParen 1 false e = true
    · simp only [hp, if_true, paren_append]
      have hb := pbase_paren (main_top hme h.1 (stopsAbove_rp 0 (.post p fld :: rest)))
      exact (plevel6 (Nat.le_refl 6) hb hL).mono (by simp only [B]; omega)
    · simp only [hp]
      rcases h.2 with h2 | h2
      · exact absurd h2 hp
      · have hl6 : e.lvl = 6 := by have := lvl_le6 e; omega
        have := hme.2.2 h2.1 (by omega) (.post p fld :: rest) x r1 (m + 1)
          (by rw [hl6]; exact stopsAbove_7 _) (fun _ => rfl) (by rw [hl6]; exact hL)
        rw [hl6] at this
        exact this.mono (by simp only [B]; omega)
  | unary u a iha =>
    simp only [RT, Bool.and_eq_true, Bool.or_eq_true, decide_eq_true_eq] at h
    have hma := iha h.1
    refine ⟨fun ho => by simp [Expr.operandOk] at ho, fun _ _ rest hs hok => ?_,
      fun _ h5 => by simp [Expr.lvl] at h5⟩
    have hb : PLevel (B a + 40) 6 (sub 2 true a (printE a) ++ rest) a rest := by
      simp only [sub]
      by_cases hp : needParen 2 true a = true
      · simp only [hp, if_true]
        exact operand_paren hma h.1 (Nat.le_refl 6) hs
      · simp only [hp]
        rcases h.2 with h2 | h2
        · exact absurd h2 hp
        · have hl6 : a.lvl = 6 := by have := lvl_le6 a; omega
          have hoka : okAfter a rest := fun hf => hok (by simp [lastField, hp, hf])
          have := hma.2.2 h2.1 (by omega) rest a rest 1 (by rw [hl6]; exact stopsAbove_7 _) hoka
            (by rw [hl6]; exact ploop_stop_of hs (Nat.le_refl 6))
          rw [hl6] at this
          exact this.mono (by omega)
    simp only [printE, List.cons_append]
    cases u with
    | not => exact (plevel5 (pun_not hb)).mono (by simp only [B]; omega)
    | neg => exact (plevel5 (pun_neg hb)).mono (by simp only [B]; omega)
  | binary o l r ihl ihr =>
    simp only [RT, Bool.and_eq_true, Bool.or_eq_true, decide_eq_true_eq, Bool.not_eq_true',
      Bool.and_eq_false_iff, beq_eq_false_iff_ne, ne_eq, Bool.not_eq_false'] at h
    obtain ⟨⟨⟨⟨hl, hr⟩, hlb⟩, hrb⟩, hlt⟩ := h
    have hml := ihl hl
    have hmr := ihr hr
    have hj4 : o.plevel ≤ 4 := plevel_le4 o
    refine ⟨fun ho => by simp [Expr.operandOk] at ho,
      fun _ h5 => by simp [Expr.lvl] at h5; omega, fun _ _ rest x r1 m hs hok hloop => ?_⟩
    simp only [Expr.lvl] at hs hloop ⊢
    rw [printE_binary, List.append_assoc, List.cons_append]
    -- right operand
    have hR : PLevel (B r + 40) (o.plevel + 1)
        ((if rParen o l r then paren (printE r) else printE r) ++ rest) r rest := by
      by_cases hp : rParen o l r = true
      · simp only [hp, if_true]
        exact operand_paren hmr hr (by omega) hs
      · simp only [hp]
        rcases hrb with h2 | h2
        · exact absurd h2 hp
        · have hokr : okAfter r rest := fun hf => hok (by simp [lastField, hp, hf])
          exact (main_at hmr hr h2.1 (by omega) hs hokr).mono (by omega)
    have hL := ploop_step (acc := l) rfl hR hloop
    have hso : stopsAbove (o.plevel + 1)
        (.op o :: ((if rParen o l r then paren (printE r) else printE r) ++ rest)) :=
      stopsAbove_op (by omega)
    -- left operand
    by_cases hp : lParen o l = true
    · simp only [hp, if_true]
      exact (plevel_step (by omega) (operand_paren hml hl (by omega) hso) hL).mono
        (by simp only [B]; omega)
    · simp only [hp]
      have hokl : okAfter l
          (.op o :: ((if rParen o l r then paren (printE r) else printE r) ++ rest)) := by
        intro hf
        rcases hlt with h1 | h1
        · rcases h1 with h1 | h1
          · cases o <;> first | rfl | exact absurd rfl h1
          · exact absurd h1 hp
        · rw [hf] at h1; cases h1
      rcases hlb with h2 | h2
      · exact absurd h2 hp
      · by_cases heq : l.lvl = o.plevel
        · have := hml.2.2 h2.1 (by omega) _ x r1 _ (by rw [heq]; exact hso) hokl
            (by rw [heq]; exact hL)
          rw [heq] at this
          exact this.mono (by simp only [B]; omega)
        · exact (plevel_step (by omega) (main_at hml hl h2.1 (by omega) hso hokl) hL).mono
            (by simp only [B]; omega)

/-! ### the budget of `parseE` suffices -/

theorem length_sub (p : Nat) (b : Bool) (e : Expr) (ts : List Tok) :
    ts.length ≤ (sub p b e ts).length := by
  simp only [sub]; split <;> simp [paren] <;> omega

theorem B_le (e : Expr) : B e ≤ 120 * (printE e).length := by
  induction e with
  | atom a => simp [B, printE]
  | ifElse k => simp [B, printE]
  | matchE k => simp [B, printE]
  | lambda k b ih =>
    have := length_sub 12 false b (printE b)
    simp only [B, printE, List.length_cons]; omega
  | post e p ih =>
    have := length_sub 1 false e (printE e)
    simp only [B, printE, List.length_append, List.length_cons, List.length_nil]; omega
  | unary u e ih =>
    have := length_sub 2 true e (printE e)
    simp only [B, printE, List.length_cons]; omega
  | binary o l r ihl ihr =>
    rw [printE_binary]
    have h1 : (printE l).length ≤ (if lParen o l then paren (printE l) else printE l).length := by
      split <;> simp [paren] <;> omega
    have h2 : (printE r).length ≤ (if rParen o l r then paren (printE r) else printE r).length := by
      split <;> simp [paren] <;> omega
    simp only [B, List.length_append, List.length_cons]; omega

/-! ## The recursion budget only matters for definedness -/

def MonoAt (f : Nat) : Prop :=
  (∀ ts r, parseTop f ts = some r → parseTop (f + 1) ts = some r) ∧
  (∀ ts r, parseBase f ts = some r → parseBase (f + 1) ts = some r) ∧
  (∀ ts r, parseUnary f ts = some r → parseUnary (f + 1) ts = some r) ∧
  (∀ k ts r, parseLevel f k ts = some r → parseLevel (f + 1) k ts = some r) ∧
  (∀ k e ts r, parseLoop f k e ts = some r → parseLoop (f + 1) k e ts = some r)

theorem mono_all : ∀ f, MonoAt f := by
  intro f
  induction f with
  | zero =>
    refine ⟨?_, ?_, ?_, ?_, ?_⟩ <;> intros <;> simp_all [parseTop, parseBase, parseUnary, parseLevel, parseLoop]
  | succ f ih =>
    obtain ⟨ht, hb, hu, hl, hp⟩ := ih
    refine ⟨?_, ?_, ?_, ?_, ?_⟩
    · intro ts r h
      cases ts with
      | nil => rw [parseTop] at h ⊢ <;> first | exact hl _ _ _ h | (intros; contradiction)
      | cons t ts =>
        cases t with
        | kwIf k => simpa [parseTop] using h
        | kwMatch k => simpa [parseTop] using h
        | lp => rw [parseTop] at h ⊢ <;> first | exact hl _ _ _ h | (intro _ _ he; cases he)
        | rp => rw [parseTop] at h ⊢ <;> first | exact hl _ _ _ h | (intro _ _ he; cases he)
        | bang => rw [parseTop] at h ⊢ <;> first | exact hl _ _ _ h | (intro _ _ he; cases he)
        | op o => rw [parseTop] at h ⊢ <;> first | exact hl _ _ _ h | (intro _ _ he; cases he)
        | atom a => rw [parseTop] at h ⊢ <;> first | exact hl _ _ _ h | (intro _ _ he; cases he)
        | post a fld => rw [parseTop] at h ⊢ <;> first | exact hl _ _ _ h | (intro _ _ he; cases he)
        | lam a => rw [parseTop] at h ⊢ <;> first | exact hl _ _ _ h | (intro _ _ he; cases he)
    · intro ts r h
      cases ts with
      | nil => simp [parseBase] at h
      | cons t ts =>
        cases t with
        | atom a => simpa [parseBase] using h
        | lp =>
          simp only [parseBase] at h ⊢
          cases h0 : parseTop f ts with
          | none => simp [h0] at h
          | some p => rw [ht ts p h0]; simpa [h0] using h
        | lam k =>
          simp only [parseBase] at h ⊢
          cases h0 : parseTop f ts with
          | none => simp [h0] at h
          | some p => rw [ht ts p h0]; simpa [h0] using h
        | rp => simp [parseBase] at h
        | bang => simp [parseBase] at h
        | op o => simp [parseBase] at h
        | post a fld => simp [parseBase] at h
        | kwIf a => simp [parseBase] at h
        | kwMatch a => simp [parseBase] at h
    · intro ts r h
      cases ts with
      | nil => simp only [parseUnary] at h ⊢; exact hl _ _ _ h
      | cons t ts =>
        cases t with
        | bang =>
          simp only [parseUnary] at h ⊢
          cases h0 : parseLevel f 6 ts with
          | none => simp [h0] at h
          | some p => rw [hl 6 ts p h0]; simpa [h0] using h
        | op o =>
          by_cases ho : o = .minus
          · subst ho
            simp only [parseUnary] at h ⊢
            cases h0 : parseLevel f 6 ts with
            | none => simp [h0] at h
            | some p => rw [hl 6 ts p h0]; simpa [h0] using h
          · rw [parseUnary] at h ⊢
            · exact hl _ _ _ h
            all_goals (intro ts' hh; cases hh; first | exact ho rfl | skip)
        | atom a => simp only [parseUnary] at h ⊢; exact hl _ _ _ h
        | lp => simp only [parseUnary] at h ⊢; exact hl _ _ _ h
        | rp => simp only [parseUnary] at h ⊢; exact hl _ _ _ h
        | post a fld => simp only [parseUnary] at h ⊢; exact hl _ _ _ h
        | kwIf a => simp only [parseUnary] at h ⊢; exact hl _ _ _ h
        | kwMatch a => simp only [parseUnary] at h ⊢; exact hl _ _ _ h
        | lam a => simp only [parseUnary] at h ⊢; exact hl _ _ _ h
    · intro k ts r h
      rw [parseLevel] at h ⊢
      by_cases hk : k ≥ 6
      · simp only [hk, if_true] at h ⊢
        cases h0 : parseBase f ts with
        | none => simp [h0] at h
        | some p =>
          rw [hb ts p h0]
          simp only [h0] at h
          exact hp _ _ _ _ h
      · simp only [hk, if_false] at h ⊢
        by_cases h5 : k = 5
        · simp only [h5, if_true] at h ⊢; exact hu _ _ h
        · simp only [h5, if_false] at h ⊢
          cases h0 : parseLevel f (k + 1) ts with
          | none => simp [h0] at h
          | some p =>
            rw [hl (k + 1) ts p h0]
            simp only [h0] at h
            exact hp _ _ _ _ h
    · intro k e ts r h
      cases ts with
      | nil => simpa [parseLoop] using h
      | cons t ts =>
        cases t with
        | op o =>
          simp only [parseLoop] at h ⊢
          by_cases ho : o.plevel = k
          · simp only [ho, if_true] at h ⊢
            cases h0 : parseLevel f (k + 1) ts with
            | none => simp [h0] at h
            | some p =>
              rw [hl (k + 1) ts p h0]
              simp only [h0] at h
              exact hp _ _ _ _ h
          · simpa [ho] using h
        | post p fld =>
          simp only [parseLoop] at h ⊢
          by_cases hk : k = 6
          · simp only [hk, if_true] at h ⊢
            by_cases hc : (fld && startsLt ts) = true
            · simp [hc] at h
            · simp only [hc] at h ⊢; exact hp _ _ _ _ h
          · simpa [hk] using h
        | atom a => simpa [parseLoop] using h
        | lp => simpa [parseLoop] using h
        | rp => simpa [parseLoop] using h
        | bang => simpa [parseLoop] using h
        | kwIf a => simpa [parseLoop] using h
        | kwMatch a => simpa [parseLoop] using h
        | lam a => simpa [parseLoop] using h

theorem parseTop_mono {f f' : Nat} {ts : List Tok} {r : Expr × List Tok}
    (h : parseTop f ts = some r) (hf : f ≤ f') : parseTop f' ts = some r := by
  obtain ⟨d, rfl⟩ : ∃ d, f' = f + d := ⟨f' - f, by omega⟩
  induction d with
  | zero => exact h
  | succ d ih => exact (mono_all (f + d)).1 ts r (ih (by omega))

theorem ptop_of_some {f : Nat} {ts : List Tok} {e : Expr} {r : List Tok}
    (h : parseTop f ts = some (e, r)) : PTop f ts e r := fun _ hf => parseTop_mono h hf

theorem parseFuel_some {f : Nat} {ts : List Tok} {e : Expr} (h : parseFuel f ts = some e) :
    parseTop f ts = some (e, []) := by
  unfold parseFuel at h
  split at h
  · rename_i e' heq; cases h; exact heq
  · cases h

/-! ## Appending a closing parenthesis to a successfully parsed input -/

def ExtAt (f : Nat) : Prop :=
  (∀ ts e r, parseTop f ts = some (e, r) → parseTop f (ts ++ [.rp]) = some (e, r ++ [.rp])) ∧
  (∀ ts e r, parseBase f ts = some (e, r) → parseBase f (ts ++ [.rp]) = some (e, r ++ [.rp])) ∧
  (∀ ts e r, parseUnary f ts = some (e, r) → parseUnary f (ts ++ [.rp]) = some (e, r ++ [.rp])) ∧
  (∀ k ts e r, parseLevel f k ts = some (e, r) → parseLevel f k (ts ++ [.rp]) = some (e, r ++ [.rp])) ∧
  (∀ k a ts e r, parseLoop f k a ts = some (e, r) → parseLoop f k a (ts ++ [.rp]) = some (e, r ++ [.rp]))

theorem ext_all : ∀ f, ExtAt f := by
  intro f
  induction f with
  | zero =>
    refine ⟨?_, ?_, ?_, ?_, ?_⟩ <;> intros <;> simp_all [parseTop, parseBase, parseUnary, parseLevel, parseLoop]
  | succ f ih =>
    obtain ⟨ht, hb, hu, hl, hp⟩ := ih
    refine ⟨?_, ?_, ?_, ?_, ?_⟩
    · intro ts e r h
      cases ts with
      | nil =>
        rw [parseTop] at h
        · simp only [List.nil_append]
          rw [parseTop]
          · exact hl _ _ _ _ h
          all_goals (intro _ _ he; cases he)
        all_goals (intro _ _ he; cases he)
      | cons t ts =>
        cases t with
        | kwIf k => simp only [parseTop, Option.some.injEq, Prod.mk.injEq] at h; simp [parseTop, h.1, h.2]
        | kwMatch k => simp only [parseTop, Option.some.injEq, Prod.mk.injEq] at h; simp [parseTop, h.1, h.2]
        | lp => rw [parseTop] at h; rw [List.cons_append, parseTop]; exact hl _ _ _ _ h; all_goals (intro _ _ he; cases he)
        | rp => rw [parseTop] at h; rw [List.cons_append, parseTop]; exact hl _ _ _ _ h; all_goals (intro _ _ he; cases he)
        | bang => rw [parseTop] at h; rw [List.cons_append, parseTop]; exact hl _ _ _ _ h; all_goals (intro _ _ he; cases he)
        | op o => rw [parseTop] at h; rw [List.cons_append, parseTop]; exact hl _ _ _ _ h; all_goals (intro _ _ he; cases he)
        | atom a => rw [parseTop] at h; rw [List.cons_append, parseTop]; exact hl _ _ _ _ h; all_goals (intro _ _ he; cases he)
        | post a fld => rw [parseTop] at h; rw [List.cons_append, parseTop]; exact hl _ _ _ _ h; all_goals (intro _ _ he; cases he)
        | lam a => rw [parseTop] at h; rw [List.cons_append, parseTop]; exact hl _ _ _ _ h; all_goals (intro _ _ he; cases he)
    · intro ts e r h
      cases ts with
      | nil => simp [parseBase] at h
      | cons t ts =>
        cases t with
        | atom a => simp only [parseBase, Option.some.injEq, Prod.mk.injEq] at h; simp [parseBase, h.1, h.2]
        | lp =>
          simp only [parseBase, List.cons_append] at h ⊢
          cases h0 : parseTop f ts with
          | none => simp [h0] at h
          | some p =>
            obtain ⟨e', r'⟩ := p
            rw [ht ts e' r' h0]
            simp only [h0] at h
            cases r' with
            | nil => simp at h
            | cons t' r'' =>
              cases t' <;> simp at h ⊢
              exact ⟨h.1, by rw [h.2]⟩
        | lam k =>
          simp only [parseBase, List.cons_append] at h ⊢
          cases h0 : parseTop f ts with
          | none => simp [h0] at h
          | some p =>
            obtain ⟨e', r'⟩ := p
            rw [ht ts e' r' h0]
            simp only [h0, Option.some.injEq, Prod.mk.injEq] at h
            simp [h.1, h.2]
        | rp => simp [parseBase] at h
        | bang => simp [parseBase] at h
        | op o => simp [parseBase] at h
        | post a fld => simp [parseBase] at h
        | kwIf a => simp [parseBase] at h
        | kwMatch a => simp [parseBase] at h
    · intro ts e r h
      cases ts with
      | nil =>
        simp only [parseUnary] at h
        simp only [List.nil_append]
        rw [parseUnary]
        · exact hl _ _ _ _ h
        all_goals (intro _ he; cases he)
      | cons t ts =>
        cases t with
        | bang =>
          simp only [parseUnary, List.cons_append] at h ⊢
          cases h0 : parseLevel f 6 ts with
          | none => simp [h0] at h
          | some p =>
            obtain ⟨e', r'⟩ := p
            rw [hl 6 ts e' r' h0]
            simp only [h0, Option.some.injEq, Prod.mk.injEq] at h
            simp [h.1, h.2]
        | op o =>
          by_cases ho : o = .minus
          · subst ho
            simp only [parseUnary, List.cons_append] at h ⊢
            cases h0 : parseLevel f 6 ts with
            | none => simp [h0] at h
            | some p =>
              obtain ⟨e', r'⟩ := p
              rw [hl 6 ts e' r' h0]
              simp only [h0, Option.some.injEq, Prod.mk.injEq] at h
              simp [h.1, h.2]
          · rw [parseUnary] at h
            · rw [List.cons_append, parseUnary]
              · exact hl _ _ _ _ h
              all_goals (intro ts' hh; cases hh; first | exact ho rfl | skip)
            all_goals (intro ts' hh; cases hh; first | exact ho rfl | skip)
        | atom a => simp only [parseUnary, List.cons_append] at h ⊢; exact hl _ _ _ _ h
        | lp => simp only [parseUnary, List.cons_append] at h ⊢; exact hl _ _ _ _ h
        | rp => simp only [parseUnary, List.cons_append] at h ⊢; exact hl _ _ _ _ h
        | post a fld => simp only [parseUnary, List.cons_append] at h ⊢; exact hl _ _ _ _ h
        | kwIf a => simp only [parseUnary, List.cons_append] at h ⊢; exact hl _ _ _ _ h
        | kwMatch a => simp only [parseUnary, List.cons_append] at h ⊢; exact hl _ _ _ _ h
        | lam a => simp only [parseUnary, List.cons_append] at h ⊢; exact hl _ _ _ _ h
    · intro k ts e r h
      rw [parseLevel] at h ⊢
      by_cases hk : k ≥ 6
      · simp only [hk, if_true] at h ⊢
        cases h0 : parseBase f ts with
        | none => simp [h0] at h
        | some p =>
          obtain ⟨e', r'⟩ := p
          rw [hb ts e' r' h0]
          simp only [h0] at h
          exact hp _ _ _ _ _ h
      · simp only [hk, if_false] at h ⊢
        by_cases h5 : k = 5
        · simp only [h5, if_true] at h ⊢; exact hu _ _ _ h
        · simp only [h5, if_false] at h ⊢
          cases h0 : parseLevel f (k + 1) ts with
          | none => simp [h0] at h
          | some p =>
            obtain ⟨e', r'⟩ := p
            rw [hl (k + 1) ts e' r' h0]
            simp only [h0] at h
            exact hp _ _ _ _ _ h
    · intro k a ts e r h
      cases ts with
      | nil =>
        simp only [parseLoop, Option.some.injEq, Prod.mk.injEq] at h
        simp [parseLoop, h.1, ← h.2]
      | cons t ts =>
        cases t with
        | op o =>
          simp only [parseLoop, List.cons_append] at h ⊢
          by_cases ho : o.plevel = k
          · simp only [ho, if_true] at h ⊢
            cases h0 : parseLevel f (k + 1) ts with
            | none => simp [h0] at h
            | some p =>
              obtain ⟨e', r'⟩ := p
              rw [hl (k + 1) ts e' r' h0]
              simp only [h0] at h
              exact hp _ _ _ _ _ h
          · simp only [ho, if_false, Option.some.injEq, Prod.mk.injEq] at h ⊢
            exact ⟨h.1, by rw [← h.2]; rfl⟩
        | post p fld =>
          simp only [parseLoop, List.cons_append] at h ⊢
          by_cases hk : k = 6
          · simp only [hk, if_true] at h ⊢
            have hlt : startsLt (ts ++ [.rp]) = startsLt ts := by
              cases ts with
              | nil => rfl
              | cons t ts' =>
                cases t <;> try rfl
                rename_i o; cases o <;> rfl
            rw [hlt]
            by_cases hc : (fld && startsLt ts) = true
            · simp [hc] at h
            · simp only [hc] at h ⊢; exact hp _ _ _ _ _ h
          · simp only [hk, if_false, Option.some.injEq, Prod.mk.injEq] at h ⊢
            exact ⟨h.1, by rw [← h.2]; rfl⟩
        | atom x => simp only [parseLoop, Option.some.injEq, Prod.mk.injEq, List.cons_append] at h ⊢; exact ⟨h.1, by rw [← h.2]; rfl⟩
        | lp => simp only [parseLoop, Option.some.injEq, Prod.mk.injEq, List.cons_append] at h ⊢; exact ⟨h.1, by rw [← h.2]; rfl⟩
        | rp => simp only [parseLoop, Option.some.injEq, Prod.mk.injEq, List.cons_append] at h ⊢; exact ⟨h.1, by rw [← h.2]; rfl⟩
        | bang => simp only [parseLoop, Option.some.injEq, Prod.mk.injEq, List.cons_append] at h ⊢; exact ⟨h.1, by rw [← h.2]; rfl⟩
        | kwIf x => simp only [parseLoop, Option.some.injEq, Prod.mk.injEq, List.cons_append] at h ⊢; exact ⟨h.1, by rw [← h.2]; rfl⟩
        | kwMatch x => simp only [parseLoop, Option.some.injEq, Prod.mk.injEq, List.cons_append] at h ⊢; exact ⟨h.1, by rw [← h.2]; rfl⟩
        | lam x => simp only [parseLoop, Option.some.injEq, Prod.mk.injEq, List.cons_append] at h ⊢; exact ⟨h.1, by rw [← h.2]; rfl⟩

/-! ## String literals -/

/-- `s` can stand between the quotes of a string literal: it has no line break and every `"` in
it is preceded by an odd number of backslashes, given that `acc` (reversed) precedes it. -/
def closedFrom : List Char → List Char → Bool
  | _, [] => true
  | acc, c :: rest =>
    if c = '"' ∧ countBackslashes acc % 2 = 0 then false
    else if c = '\n' then false
    else closedFrom (c :: acc) rest

theorem lexStrGo_closed (s : List Char) : ∀ (acc rest : List Char), closedFrom acc s = true →
    countBackslashes (s.reverse ++ acc) % 2 = 0 →
    lexStrGo acc (s ++ '"' :: rest) = some (acc.reverse ++ s, rest) := by
  induction s with
  | nil =>
    intro acc rest _ hb
    simp only [List.reverse_nil, List.nil_append] at hb
    simp [lexStrGo, hb]
  | cons c s ih =>
    intro acc rest hc hb
    simp only [closedFrom] at hc
    by_cases h1 : c = '"' ∧ countBackslashes acc % 2 = 0
    · simp [h1] at hc
    · by_cases h2 : c = '\n'
      · simp [h1, h2] at hc
      · simp only [h1, h2, if_false] at hc
        simp only [List.cons_append, lexStrGo, h1, h2, if_false]
        rw [ih (c :: acc) rest hc (by simpa using hb)]
        simp

/-- if lexing succeeds, the content is closed and ends with an even number of backslashes. -/
theorem lexStrGo_some (inp : List Char) : ∀ (acc c rest : List Char),
    lexStrGo acc inp = some (c, rest) →
    ∃ s, c = acc.reverse ++ s ∧ inp = s ++ '"' :: rest ∧ closedFrom acc s = true ∧
      countBackslashes (s.reverse ++ acc) % 2 = 0 := by
  induction inp with
  | nil => intro acc c rest h; simp [lexStrGo] at h
  | cons ch inp ih =>
    intro acc c rest h
    simp only [lexStrGo] at h
    by_cases h1 : ch = '"' ∧ countBackslashes acc % 2 = 0
    · simp only [h1, and_self, if_true, Option.some.injEq, Prod.mk.injEq] at h
      refine ⟨[], by simp [h.1], by simp [h1.1, h.2], by simp [closedFrom], by simpa using h1.2⟩
    · by_cases h2 : ch = '\n'
      · simp [h1, h2] at h
      · simp only [h1, h2, if_false] at h
        obtain ⟨s, hc, hi, hcl, hb⟩ := ih (ch :: acc) c rest h
        refine ⟨ch :: s, by simp [hc], by simp [hi], ?_, by simpa using hb⟩
        simp only [closedFrom, h1, h2, if_false]
        exact hcl

theorem hasEscapedQuote_tail (c : Char) (rest : List Char)
    (h : hasEscapedQuote (c :: rest) = false) : hasEscapedQuote rest = false := by
  unfold hasEscapedQuote at h
  split at h
  · cases h
  · rename_i heq; cases heq; exact h
  · rename_i heq; cases heq

theorem unescape_id : ∀ (s : List Char), hasEscapedQuote s = false → unescapeQuotes s = s
  | [], _ => by simp [unescapeQuotes]
  | [c], _ => by simp [unescapeQuotes]
  | c :: d :: rest, h => by
    have ih := unescape_id (d :: rest) (hasEscapedQuote_tail c _ h)
    by_cases hcd : c = '\\' ∧ d = '"'
    · obtain ⟨rfl, rfl⟩ := hcd
      simp [hasEscapedQuote] at h
    · unfold unescapeQuotes
      split
      · rename_i heq; cases heq; exact absurd ⟨rfl, rfl⟩ hcd
      · rename_i heq; cases heq; rw [ih]
      · rename_i heq; cases heq


/-! ### escaping inverts unescaping on every lexed literal (after fix b0a5193) -/

/-- every `"` is directly preceded by a backslash (`prev` = the character before the list is one). -/
def quotesEscaped : Bool → List Char → Bool
  | _, [] => true
  | prev, c :: rest => if c = '"' then prev && quotesEscaped false rest else quotesEscaped (c = '\\') rest

theorem quotesEscaped_true_of_false (s : List Char) (h : quotesEscaped false s = true) :
    quotesEscaped true s = true := by
  cases s with
  | nil => rfl
  | cons c rest =>
    simp only [quotesEscaped] at h ⊢
    by_cases hc : c = '"'
    · simp [hc] at h
    · simpa [hc] using h

theorem quotesEscaped_false_of_true (s : List Char) (h : quotesEscaped true s = true)
    (hs : ∀ r, s ≠ '"' :: r) : quotesEscaped false s = true := by
  cases s with
  | nil => rfl
  | cons c rest =>
    have hc : c ≠ '"' := fun e => hs rest (by rw [e])
    simp only [quotesEscaped, hc, if_false] at h ⊢
    exact h

theorem closed_quotesEscaped (s : List Char) : ∀ acc, closedFrom acc s = true →
    quotesEscaped (decide (countBackslashes acc % 2 = 1)) s = true := by
  induction s with
  | nil => intro acc _; rfl
  | cons c rest ih =>
    intro acc h
    simp only [closedFrom] at h
    by_cases h1 : c = '"' ∧ countBackslashes acc % 2 = 0
    · simp [h1] at h
    · by_cases h2 : c = '\n'
      · simp [h2] at h
      · simp only [h1, h2, if_false] at h
        have ih' := ih (c :: acc) h
        simp only [quotesEscaped]
        by_cases hq : c = '"'
        · subst hq
          have hodd : countBackslashes acc % 2 = 1 := by
            have : ¬ countBackslashes acc % 2 = 0 := fun e => h1 ⟨rfl, e⟩
            omega
          have h0 : countBackslashes ('"' :: acc) = 0 := by simp [countBackslashes]
          simp only [h0] at ih'
          simpa [hodd] using ih'
        · simp only [hq, if_false]
          by_cases hb : c = '\\'
          · subst hb
            simp only [decide_true]
            by_cases hpar : countBackslashes ('\\' :: acc) % 2 = 1
            · simpa [hpar] using ih'
            · exact quotesEscaped_true_of_false _ (by simpa [hpar] using ih')
          · have h0 : countBackslashes (c :: acc) = 0 := by
              unfold countBackslashes
              split
              · rename_i heq; cases heq; exact absurd rfl hb
              · rfl
            simp only [h0] at ih'
            simpa [hb] using ih'

theorem escape_unescape : ∀ (s : List Char), quotesEscaped false s = true →
    escapeQuotes (unescapeQuotes s) = s
  | [], _ => by simp [unescapeQuotes, escapeQuotes]
  | [c], h => by
    have hc : c ≠ '"' := by
      intro e; subst e; simp [quotesEscaped] at h
    simp only [unescapeQuotes]
    unfold escapeQuotes
    split
    · rename_i heq; cases heq; exact absurd rfl hc
    · rename_i heq; cases heq; simp [escapeQuotes]
    · rename_i heq; cases heq
  | c :: d :: rest, h => by
    by_cases hcd : c = '\\' ∧ d = '"'
    · obtain ⟨rfl, rfl⟩ := hcd
      have hr : quotesEscaped false rest = true := by
        simp [quotesEscaped] at h; exact h
      have ih := escape_unescape rest hr
      simp only [unescapeQuotes, escapeQuotes, ih]
    · have hc : c ≠ '"' := by
        intro e; subst e; simp [quotesEscaped] at h
      have h' : quotesEscaped (c = '\\') (d :: rest) = true := by
        simpa [quotesEscaped, hc] using h
      have hr : quotesEscaped false (d :: rest) = true := by
        by_cases hb : c = '\\'
        · refine quotesEscaped_false_of_true _ (by simpa [hb] using h') ?_
          intro r e; cases e; exact hcd ⟨hb, rfl⟩
        · simpa [hb] using h'
      have ih := escape_unescape (d :: rest) hr
      have hu : unescapeQuotes (c :: d :: rest) = c :: unescapeQuotes (d :: rest) := by
        rw [unescapeQuotes]
        intro r h1 h2; cases h2; exact hcd ⟨h1, rfl⟩
      rw [hu]
      unfold escapeQuotes
      split
      · rename_i heq; cases heq; exact absurd rfl hc
      · rename_i heq; cases heq; rw [ih]
      · rename_i heq; cases heq

end SamVerif.Fmt
