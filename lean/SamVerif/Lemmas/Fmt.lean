import SamVerif.Model.Fmt
/-!
Helper lemmas for C08 (`Props/C08.lean`).

The fuelled parser functions of `Model/Fmt.lean` are wrapped into fuel-independent relations
(`PLevel k ts e r`: for every sufficiently large recursion budget, `parseLevel · k ts` returns
`(e, r)`), for which the compositional rules of a recursive-descent parser hold.  The main lemma
`main` is the loop invariant of precedence climbing: printing `e` and continuing with `rest`
parses back to `e` and then continues the loop of `e`'s own level with `e` as accumulator.
-/
namespace SamVerif.Fmt

def PBase (ts : List Tok) (e : Expr) (r : List Tok) : Prop :=
  ∃ n, ∀ f, n ≤ f → parseBase f ts = some (e, r)
def PUn (ts : List Tok) (e : Expr) (r : List Tok) : Prop :=
  ∃ n, ∀ f, n ≤ f → parseUnary f ts = some (e, r)
def PLevel (k : Nat) (ts : List Tok) (e : Expr) (r : List Tok) : Prop :=
  ∃ n, ∀ f, n ≤ f → parseLevel f k ts = some (e, r)
def PLoop (k : Nat) (acc : Expr) (ts : List Tok) (e : Expr) (r : List Tok) : Prop :=
  ∃ n, ∀ f, n ≤ f → parseLoop f k acc ts = some (e, r)

theorem pbase_atom (a : Nat) (r : List Tok) : PBase (.atom a :: r) (.atom a) r :=
  ⟨1, fun f hf => by
    obtain ⟨f', rfl⟩ : ∃ f', f = f' + 1 := ⟨f - 1, by omega⟩
    simp [parseBase]⟩

theorem pbase_paren {ts : List Tok} {e : Expr} {r : List Tok}
    (h : PLevel 0 ts e (.rp :: r)) : PBase (.lp :: ts) e r := by
  obtain ⟨n, hn⟩ := h
  refine ⟨n + 1, fun f hf => ?_⟩
  obtain ⟨f', rfl⟩ : ∃ f', f = f' + 1 := ⟨f - 1, by omega⟩
  simp [parseBase, hn f' (by omega)]

theorem pun_not {ts : List Tok} {e : Expr} {r : List Tok}
    (h : PBase ts e r) : PUn (.bang :: ts) (.unary .not e) r := by
  obtain ⟨n, hn⟩ := h
  refine ⟨n + 1, fun f hf => ?_⟩
  obtain ⟨f', rfl⟩ : ∃ f', f = f' + 1 := ⟨f - 1, by omega⟩
  simp [parseUnary, hn f' (by omega)]

theorem pun_neg {ts : List Tok} {e : Expr} {r : List Tok}
    (h : PBase ts e r) : PUn (.op .minus :: ts) (.unary .neg e) r := by
  obtain ⟨n, hn⟩ := h
  refine ⟨n + 1, fun f hf => ?_⟩
  obtain ⟨f', rfl⟩ : ∃ f', f = f' + 1 := ⟨f - 1, by omega⟩
  simp [parseUnary, hn f' (by omega)]

theorem pun_atom {a : Nat} {t : List Tok} {e : Expr} {r : List Tok}
    (h : PBase (.atom a :: t) e r) : PUn (.atom a :: t) e r := by
  obtain ⟨n, hn⟩ := h
  refine ⟨n + 1, fun f hf => ?_⟩
  obtain ⟨f', rfl⟩ : ∃ f', f = f' + 1 := ⟨f - 1, by omega⟩
  simp [parseUnary, hn f' (by omega)]

theorem pun_lp {t : List Tok} {e : Expr} {r : List Tok}
    (h : PBase (.lp :: t) e r) : PUn (.lp :: t) e r := by
  obtain ⟨n, hn⟩ := h
  refine ⟨n + 1, fun f hf => ?_⟩
  obtain ⟨f', rfl⟩ : ∃ f', f = f' + 1 := ⟨f - 1, by omega⟩
  simp [parseUnary, hn f' (by omega)]

theorem plevel_un {k : Nat} (hk : 6 ≤ k) {ts : List Tok} {e : Expr} {r : List Tok}
    (h : PUn ts e r) : PLevel k ts e r := by
  obtain ⟨n, hn⟩ := h
  refine ⟨n + 1, fun f hf => ?_⟩
  obtain ⟨f', rfl⟩ : ∃ f', f = f' + 1 := ⟨f - 1, by omega⟩
  simp [parseLevel, hk, hn f' (by omega)]

theorem plevel_step {k : Nat} (hk : k < 6) {ts : List Tok} {x e : Expr} {r1 r : List Tok}
    (h1 : PLevel (k + 1) ts x r1) (h2 : PLoop k x r1 e r) : PLevel k ts e r := by
  obtain ⟨n1, hn1⟩ := h1
  obtain ⟨n2, hn2⟩ := h2
  refine ⟨n1 + n2 + 1, fun f hf => ?_⟩
  obtain ⟨f', rfl⟩ : ∃ f', f = f' + 1 := ⟨f - 1, by omega⟩
  have : ¬ (6 ≤ k) := by omega
  simp [parseLevel, this, hn1 f' (by omega), hn2 f' (by omega)]

/-- the leading token of `ts` is not an operator of level ≥ `k`. -/
def stopsAbove (k : Nat) (ts : List Tok) : Prop :=
  ∀ o t, ts = .op o :: t → o.plevel < k

theorem ploop_stop {k : Nat} {e : Expr} {ts : List Tok}
    (h : ∀ o t, ts = .op o :: t → o.plevel ≠ k) : PLoop k e ts e ts := by
  refine ⟨1, fun f hf => ?_⟩
  obtain ⟨f', rfl⟩ : ∃ f', f = f' + 1 := ⟨f - 1, by omega⟩
  cases ts with
  | nil => simp [parseLoop]
  | cons t ts =>
    cases t with
    | op o =>
      have := h o ts rfl
      simp [parseLoop, this]
    | lp => simp [parseLoop]
    | rp => simp [parseLoop]
    | bang => simp [parseLoop]
    | atom a => simp [parseLoop]

theorem ploop_step {k : Nat} {o : BinOp} (ho : o.plevel = k) {acc x e : Expr}
    {ts r1 r : List Tok} (h1 : PLevel (k + 1) ts x r1) (h2 : PLoop k (.binary o acc x) r1 e r) :
    PLoop k acc (.op o :: ts) e r := by
  obtain ⟨n1, hn1⟩ := h1
  obtain ⟨n2, hn2⟩ := h2
  refine ⟨n1 + n2 + 1, fun f hf => ?_⟩
  obtain ⟨f', rfl⟩ : ∃ f', f = f' + 1 := ⟨f - 1, by omega⟩
  simp [parseLoop, ho, hn1 f' (by omega), hn2 f' (by omega)]

theorem stopsAbove_mono {k k' : Nat} {ts : List Tok} (h : stopsAbove k ts) (hk : k ≤ k') :
    stopsAbove k' ts := fun o t ht => Nat.lt_of_lt_of_le (h o t ht) hk

theorem stopsAbove_rp (k : Nat) (t : List Tok) : stopsAbove k (.rp :: t) := by
  intro o t' h; cases h

theorem stopsAbove_nil (k : Nat) : stopsAbove k [] := by
  intro o t' h; cases h

theorem stopsAbove_op {k : Nat} {o : BinOp} {t : List Tok} (h : o.plevel < k) :
    stopsAbove k (.op o :: t) := by
  intro o' t' he; cases he; exact h

/-- a result obtained at a tighter level is also the result at every looser level whose loops
all stop at the remaining input. -/
theorem lift {j : Nat} (hj : j ≤ 6) {ts : List Tok} {x : Expr} {r : List Tok}
    (h : PLevel j ts x r) : ∀ (d k : Nat), k + d = j → stopsAbove k r → PLevel k ts x r := by
  intro d
  induction d with
  | zero => intro k hk _; have : k = j := by omega
            subst this; exact h
  | succ d ih =>
    intro k hk hs
    have h1 : PLevel (k + 1) ts x r := ih (k + 1) (by omega) (stopsAbove_mono hs (by omega))
    exact plevel_step (by omega) h1 (ploop_stop (fun o t ht => Nat.ne_of_lt (hs o t ht)))

theorem plevel_le5 (o : BinOp) : o.plevel ≤ 5 := by cases o <;> decide

theorem paren_append (ts T : List Tok) : paren ts ++ T = .lp :: (ts ++ .rp :: T) := by
  simp [paren]

/-- restatement of the three printing cases of a binary expression. -/
theorem printE_binary (o : BinOp) (l r : Expr) :
    printE (.binary o l r) =
      (if lParen o l then paren (printE l) else printE l) ++
        .op o :: (if rParen o l r then paren (printE r) else printE r) := by
  simp only [printE, lParen, rParen, sub]
  by_cases h1 : l.prec = 4 + o.pprec
  · simp [h1]
  · by_cases h2 : r.prec = 4 + o.pprec ∧ o.noShortcut = false
    · simp [h1, h2]
    · simp [h1, h2]

/-- conclusion of the main lemma for one expression. -/
def MainConcl (e : Expr) : Prop :=
  (6 ≤ e.lvl → ∀ rest, PLevel 6 (printE e ++ rest) e rest) ∧
  (e.lvl ≤ 5 → ∀ rest x r1, stopsAbove (e.lvl + 1) rest → PLoop e.lvl e rest x r1 →
    PLevel e.lvl (printE e ++ rest) x r1)

/-- from the loop-invariant form to the plain form: at every level `k` not tighter than `e`'s
own, with the loops of all levels ≥ `k` stopping at `rest`. -/
theorem main_at {e : Expr} (hm : MainConcl e) {k : Nat} (hk : k ≤ e.lvl) (hk6 : k ≤ 6)
    {rest : List Tok} (hs : stopsAbove k rest) : PLevel k (printE e ++ rest) e rest := by
  by_cases h6 : 6 ≤ e.lvl
  · exact lift (Nat.le_refl 6) (hm.1 h6 rest) (6 - k) k (by omega) hs
  · have h5 : e.lvl ≤ 5 := by omega
    have hl : PLoop e.lvl e rest e rest :=
      ploop_stop (fun o t ht => by have := hs o t ht; omega)
    have := hm.2 h5 rest e rest (stopsAbove_mono hs (by omega)) hl
    exact lift (by omega) this (e.lvl - k) k (by omega) hs

theorem operand_paren {s : Expr} (hm : MainConcl s) {k : Nat} (hk6 : k ≤ 6) {T : List Tok}
    (hs : stopsAbove k T) : PLevel k (paren (printE s) ++ T) s T := by
  rw [paren_append]
  have h0 : PLevel 0 (printE s ++ .rp :: T) s (.rp :: T) :=
    main_at hm (Nat.zero_le _) (by omega) (stopsAbove_rp 0 T)
  have h6 : PLevel 6 (.lp :: (printE s ++ .rp :: T)) s T :=
    plevel_un (Nat.le_refl 6) (pun_lp (pbase_paren h0))
  exact lift (Nat.le_refl 6) h6 (6 - k) k (by omega) hs

theorem lvl_atom_of_ge7 {e : Expr} (h : 7 ≤ e.lvl) : ∃ a, e = .atom a := by
  cases e with
  | atom a => exact ⟨a, rfl⟩
  | unary u e => simp [Expr.lvl] at h
  | binary o l r => have := plevel_le5 o; simp [Expr.lvl] at h; omega

/-- **Loop invariant of precedence climbing** for printed expressions. -/
theorem main (e : Expr) (h : RT e = true) : MainConcl e := by
  induction e with
  | atom a =>
    refine ⟨fun _ rest => ?_, fun h5 => by simp [Expr.lvl] at h5⟩
    simp only [printE, List.singleton_append]
    exact plevel_un (Nat.le_refl 6) (pun_atom (pbase_atom a rest))
  | unary u a iha =>
    simp only [RT, Bool.and_eq_true, Bool.or_eq_true, decide_eq_true_eq] at h
    have hma := iha h.1
    refine ⟨fun _ rest => ?_, fun h5 => by simp [Expr.lvl] at h5⟩
    have hb : PBase (sub 2 false a (printE a) ++ rest) a rest := by
      simp only [sub]
      by_cases hp : needParen 2 false a = true
      · simp only [hp, if_true, paren_append]
        exact pbase_paren (main_at hma (Nat.zero_le _) (by omega) (stopsAbove_rp 0 rest))
      · rcases h.2 with h2 | h2
        · exact absurd h2 hp
        · obtain ⟨n, rfl⟩ := lvl_atom_of_ge7 h2
          simp only [hp, printE]
          exact pbase_atom n rest
    simp only [printE, List.cons_append]
    cases u with
    | not => exact plevel_un (Nat.le_refl 6) (pun_not hb)
    | neg => exact plevel_un (Nat.le_refl 6) (pun_neg hb)
  | binary o l r ihl ihr =>
    simp only [RT, Bool.and_eq_true, Bool.or_eq_true, decide_eq_true_eq] at h
    obtain ⟨⟨⟨hl, hr⟩, hlb⟩, hrb⟩ := h
    have hml := ihl hl
    have hmr := ihr hr
    have hj5 : o.plevel ≤ 5 := plevel_le5 o
    refine ⟨fun h6 => by simp [Expr.lvl] at h6; omega, fun _ rest x r1 hs hloop => ?_⟩
    simp only [Expr.lvl] at hs hloop ⊢
    rw [printE_binary, List.append_assoc, List.cons_append]
    -- right operand
    have hR : PLevel (o.plevel + 1)
        ((if rParen o l r then paren (printE r) else printE r) ++ rest) r rest := by
      by_cases hp : rParen o l r = true
      · simp only [hp, if_true]
        exact operand_paren hmr (by omega) hs
      · simp only [hp]
        rcases hrb with h2 | h2
        · exact absurd h2 hp
        · exact main_at hmr (by omega) (by omega) hs
    have hL : PLoop o.plevel l
        (.op o :: ((if rParen o l r then paren (printE r) else printE r) ++ rest)) x r1 :=
      ploop_step rfl hR hloop
    have hso : stopsAbove (o.plevel + 1)
        (.op o :: ((if rParen o l r then paren (printE r) else printE r) ++ rest)) :=
      stopsAbove_op (by omega)
    -- left operand
    by_cases hp : lParen o l = true
    · simp only [hp, if_true]
      exact plevel_step (by omega) (operand_paren hml (by omega) hso) hL
    · simp only [hp]
      rcases hlb with h2 | h2
      · exact absurd h2 hp
      · by_cases heq : l.lvl = o.plevel
        · have := hml.2 (by omega) _ x r1 (by rw [heq]; exact hso) (by rw [heq]; exact hL)
          rw [heq] at this
          exact this
        · exact plevel_step (by omega) (main_at hml (by omega) (by omega) hso) hL

/-! ## The recursion budget only matters for definedness -/

def MonoAt (f : Nat) : Prop :=
  (∀ ts r, parseBase f ts = some r → parseBase (f + 1) ts = some r) ∧
  (∀ ts r, parseUnary f ts = some r → parseUnary (f + 1) ts = some r) ∧
  (∀ k ts r, parseLevel f k ts = some r → parseLevel (f + 1) k ts = some r) ∧
  (∀ k e ts r, parseLoop f k e ts = some r → parseLoop (f + 1) k e ts = some r)

theorem mono_all : ∀ f, MonoAt f := by
  intro f
  induction f with
  | zero =>
    refine ⟨?_, ?_, ?_, ?_⟩ <;> intros <;> simp_all [parseBase, parseUnary, parseLevel, parseLoop]
  | succ f ih =>
    obtain ⟨hb, hu, hl, hp⟩ := ih
    refine ⟨?_, ?_, ?_, ?_⟩
    · intro ts r h
      cases ts with
      | nil => simp [parseBase] at h
      | cons t ts =>
        cases t with
        | atom a => simpa [parseBase] using h
        | lp =>
          simp only [parseBase] at h ⊢
          cases h0 : parseLevel f 0 ts with
          | none => simp [h0] at h
          | some p => rw [hl 0 ts p h0]; simpa [h0] using h
        | rp => simp [parseBase] at h
        | bang => simp [parseBase] at h
        | op o => simp [parseBase] at h
    · intro ts r h
      cases ts with
      | nil => simp only [parseUnary] at h ⊢; exact hb _ _ h
      | cons t ts =>
        cases t with
        | bang =>
          simp only [parseUnary] at h ⊢
          cases h0 : parseBase f ts with
          | none => simp [h0] at h
          | some p => rw [hb ts p h0]; simpa [h0] using h
        | op o =>
          by_cases ho : o = .minus
          · subst ho
            simp only [parseUnary] at h ⊢
            cases h0 : parseBase f ts with
            | none => simp [h0] at h
            | some p => rw [hb ts p h0]; simpa [h0] using h
          · rw [parseUnary] at h ⊢
            · exact hb _ _ h
            all_goals (intro ts' hh; cases hh; first | exact ho rfl | skip)
        | atom a => simp only [parseUnary] at h ⊢; exact hb _ _ h
        | lp => simp only [parseUnary] at h ⊢; exact hb _ _ h
        | rp => simp only [parseUnary] at h ⊢; exact hb _ _ h
    · intro k ts r h
      rw [parseLevel] at h ⊢
      by_cases hk : k ≥ 6
      · simp only [hk, if_true] at h ⊢; exact hu _ _ h
      · simp only [hk, if_false] at h ⊢
        cases h0 : parseLevel f (k + 1) ts with
        | none => simp [h0] at h
        | some p =>
          rw [hl (k + 1) ts p h0]
          simp only [h0] at h
          exact hp _ _ _ _ h
    · intro k e ts r h
      cases ts with
      | nil => simpa [parseLoop] using h
      | cons t ts =>
        cases t with
        | op o =>
          simp only [parseLoop] at h ⊢
          by_cases ho : o.plevel = k
          · simp only [ho, if_true] at h ⊢
            cases h0 : parseLevel f (k + 1) ts with
            | none => simp [h0] at h
            | some p =>
              rw [hl (k + 1) ts p h0]
              simp only [h0] at h
              exact hp _ _ _ _ h
          · simpa [ho] using h
        | atom a => simpa [parseLoop] using h
        | lp => simpa [parseLoop] using h
        | rp => simpa [parseLoop] using h
        | bang => simpa [parseLoop] using h

theorem parseLevel_mono {f f' k : Nat} {ts : List Tok} {r : Expr × List Tok}
    (h : parseLevel f k ts = some r) (hf : f ≤ f') : parseLevel f' k ts = some r := by
  obtain ⟨d, rfl⟩ : ∃ d, f' = f + d := ⟨f' - f, by omega⟩
  induction d with
  | zero => exact h
  | succ d ih => exact (mono_all (f + d)).2.2.1 k ts r (ih (by omega))

theorem parseFuel_some {f : Nat} {ts : List Tok} {e : Expr} (h : parseFuel f ts = some e) :
    parseLevel f 0 ts = some (e, []) := by
  unfold parseFuel at h
  split at h
  · rename_i e' heq; cases h; exact heq
  · cases h

/-! ## String literals -/

/-- `s` can stand between the quotes of a string literal: it has no line break and every `"` in
it is preceded by an odd number of backslashes, given that `acc` (reversed) precedes it. -/
def closedFrom : List Char → List Char → Bool
  | _, [] => true
  | acc, c :: rest =>
    if c = '"' ∧ countBackslashes acc % 2 = 0 then false
    else if c = '\n' then false
    else closedFrom (c :: acc) rest

theorem lexStrGo_closed (s : List Char) : ∀ (acc rest : List Char), closedFrom acc s = true →
    countBackslashes (s.reverse ++ acc) % 2 = 0 →
    lexStrGo acc (s ++ '"' :: rest) = some (acc.reverse ++ s, rest) := by
  induction s with
  | nil =>
    intro acc rest _ hb
    simp only [List.reverse_nil, List.nil_append] at hb
    simp [lexStrGo, hb]
  | cons c s ih =>
    intro acc rest hc hb
    simp only [closedFrom] at hc
    by_cases h1 : c = '"' ∧ countBackslashes acc % 2 = 0
    · simp [h1] at hc
    · by_cases h2 : c = '\n'
      · simp [h1, h2] at hc
      · simp only [h1, h2, if_false] at hc
        simp only [List.cons_append, lexStrGo, h1, h2, if_false]
        rw [ih (c :: acc) rest hc (by simpa using hb)]
        simp

/-- if lexing succeeds, the content is closed and ends with an even number of backslashes. -/
theorem lexStrGo_some (inp : List Char) : ∀ (acc c rest : List Char),
    lexStrGo acc inp = some (c, rest) →
    ∃ s, c = acc.reverse ++ s ∧ inp = s ++ '"' :: rest ∧ closedFrom acc s = true ∧
      countBackslashes (s.reverse ++ acc) % 2 = 0 := by
  induction inp with
  | nil => intro acc c rest h; simp [lexStrGo] at h
  | cons ch inp ih =>
    intro acc c rest h
    simp only [lexStrGo] at h
    by_cases h1 : ch = '"' ∧ countBackslashes acc % 2 = 0
    · simp only [h1, and_self, if_true, Option.some.injEq, Prod.mk.injEq] at h
      refine ⟨[], by simp [h.1], by simp [h1.1, h.2], by simp [closedFrom], by simpa using h1.2⟩
    · by_cases h2 : ch = '\n'
      · simp [h1, h2] at h
      · simp only [h1, h2, if_false] at h
        obtain ⟨s, hc, hi, hcl, hb⟩ := ih (ch :: acc) c rest h
        refine ⟨ch :: s, by simp [hc], by simp [hi], ?_, by simpa using hb⟩
        simp only [closedFrom, h1, h2, if_false]
        exact hcl

theorem hasEscapedQuote_tail (c : Char) (rest : List Char)
    (h : hasEscapedQuote (c :: rest) = false) : hasEscapedQuote rest = false := by
  unfold hasEscapedQuote at h
  split at h
  · cases h
  · rename_i heq; cases heq; exact h
  · rename_i heq; cases heq

theorem unescape_id : ∀ (s : List Char), hasEscapedQuote s = false → unescapeQuotes s = s
  | [], _ => by simp [unescapeQuotes]
  | [c], _ => by simp [unescapeQuotes]
  | c :: d :: rest, h => by
    have ih := unescape_id (d :: rest) (hasEscapedQuote_tail c _ h)
    by_cases hcd : c = '\\' ∧ d = '"'
    · obtain ⟨rfl, rfl⟩ := hcd
      simp [hasEscapedQuote] at h
    · unfold unescapeQuotes
      split
      · rename_i heq; cases heq; exact absurd ⟨rfl, rfl⟩ hcd
      · rename_i heq; cases heq; rw [ih]
      · rename_i heq; cases heq

end SamVerif.Fmt
