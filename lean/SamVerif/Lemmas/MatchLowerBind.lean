import SamVerif.Lemmas.MatchLower
/-! Lemmas about the bindings performed by the lowered pattern code (`execCode`, Model/MatchLower.lean). -/
namespace SamVerif.MatchLower
open SamVerif.Useful

/-! ### `execCode` refines `evalCode` (same condition, same faults) -/

mutual
theorem exec_fst : ∀ (c : Code) (v : Val), (execCode c v).map (fun r => r.1) = evalCode c v
  | .one, _ => by simp [execCode, evalCode]
  | .bind _, _ => by simp [execCode, evalCode]
  | .zero, _ => by simp [execCode, evalCode]
  | .struct fs, v => by
    cases v with
    | prim k => simp only [execCode, evalCode]; split <;> simp
    | con c vs =>
      cases c with
      | none => simp only [execCode, evalCode]; exact execF_fst fs vs
      | some c => simp only [execCode, evalCode]; split <;> simp
  | .destructure c n fs, v => by
    cases v with
    | prim k => simp [execCode, evalCode]
    | con c' args =>
      cases c' with
      | none => simp [execCode, evalCode]
      | some c'' =>
        simp only [execCode, evalCode]
        split
        · split
          · exact execF_fst fs args
          · simp
        · simp
  | .orElse first rest, v => by
    have h1 := exec_fst first v
    have h2 := exec_fst rest v
    simp only [execCode, evalCode]
    cases hf : execCode first v with
    | none => rw [hf] at h1; simp at h1; simp [← h1]
    | some r =>
      obtain ⟨b, d⟩ := r
      rw [hf] at h1; simp at h1
      cases b with
      | true => simp [← h1]
      | false =>
        simp only [← h1]
        cases hr : execCode rest v with
        | none => rw [hr] at h2; simp at h2; simp [← h2]
        | some r2 => obtain ⟨b2, d2⟩ := r2; rw [hr] at h2; simp at h2; simp [← h2]
theorem execF_fst : ∀ (fs : Fields) (vs : List Val), (execFields fs vs).map (fun r => r.1) = evalFields fs vs
  | .done, _ => by simp [execFields, evalFields]
  | .seq i nested rest, vs => by
    have h1 := fun x => exec_fst nested x
    have h2 := execF_fst rest vs
    simp only [execFields, evalFields]
    cases hx : vs[i]? with
    | none => simp
    | some x =>
      simp only
      have h1x := h1 x
      cases hn : execCode nested x with
      | none => rw [hn] at h1x; simp at h1x; simp [← h1x]
      | some r =>
        obtain ⟨b, d⟩ := r
        rw [hn] at h1x; simp at h1x
        simp only [← h1x]
        cases hr : execFields rest vs with
        | none => rw [hr] at h2; simp at h2; simp [← h2]
        | some r2 => obtain ⟨b2, d2⟩ := r2; rw [hr] at h2; simp at h2; simp [← h2]
  | .guard i nested rest, vs => by
    have h1 := fun x => exec_fst nested x
    have h2 := execF_fst rest vs
    simp only [execFields, evalFields]
    cases hx : vs[i]? with
    | none => simp
    | some x =>
      simp only
      have h1x := h1 x
      cases hn : execCode nested x with
      | none => rw [hn] at h1x; simp at h1x; simp [← h1x]
      | some r =>
        obtain ⟨b, d⟩ := r
        rw [hn] at h1x; simp at h1x
        cases b with
        | false => simp [← h1x]
        | true =>
          simp only [← h1x]
          cases hr : execFields rest vs with
          | none => rw [hr] at h2; simp at h2; simp [← h2]
          | some r2 => obtain ⟨b2, d2⟩ := r2; rw [hr] at h2; simp at h2; simp [← h2]
end

theorem exec_some_eval (c : Code) (v : Val) (b : Bool) (d : Delta) (h : execCode c v = some (b, d)) :
    evalCode c v = some b := by
  have := exec_fst c v
  rw [h] at this
  simpa using this.symm

/-- whatever `mkField` chose (`seq` for a literal `ONE` condition), the statements behave as the guarded form -/
theorem execFields_mkField (i : Nat) (nested : Code) (rest : Fields) (vs : List Val) :
    execFields (mkField i nested rest) vs = execFields (.guard i nested rest) vs := by
  unfold mkField
  cases h1 : nested.isOne with
  | false => simp
  | true =>
    simp only [if_true, execFields]
    cases hx : vs[i]? with
    | none => rfl
    | some x =>
      simp only
      cases hn : execCode nested x with
      | none => rfl
      | some r =>
        obtain ⟨b, d⟩ := r
        have hb := isOne_sound nested x b h1 (exec_some_eval nested x b d hn)
        subst hb
        rfl

theorem guard_some (i : Nat) (nested : Code) (rest : Fields) (vs : List Val) (b : Bool) (d : Delta)
    (h : execFields (.guard i nested rest) vs = some (b, d)) :
    ∃ x bn dn, vs[i]? = some x ∧ execCode nested x = some (bn, dn) ∧
      ((bn = false ∧ b = false ∧ d = dn) ∨
       (bn = true ∧ ∃ d', execFields rest vs = some (b, d') ∧ d = d' ++ dn)) := by
  simp only [execFields] at h
  cases hx : vs[i]? with
  | none => simp [hx] at h
  | some x =>
    simp only [hx] at h
    cases hn : execCode nested x with
    | none => simp [hn] at h
    | some r =>
      obtain ⟨bn, dn⟩ := r
      simp only [hn] at h
      cases bn with
      | false =>
        simp only [Option.some.injEq, Prod.mk.injEq] at h
        exact ⟨x, false, dn, rfl, hn, Or.inl ⟨rfl, h.1.symm, h.2.symm⟩⟩
      | true =>
        simp only at h
        cases hr : execFields rest vs with
        | none => simp [hr] at h
        | some r2 =>
          obtain ⟨b2, d2⟩ := r2
          simp only [hr, Option.some.injEq, Prod.mk.injEq] at h
          exact ⟨x, true, dn, rfl, hn, Or.inr ⟨rfl, d2, by rw [h.1], h.2.symm⟩⟩

theorem orElse_some (first rest : Code) (v : Val) (b : Bool) (d : Delta)
    (h : execCode (.orElse first rest) v = some (b, d)) :
    ∃ b1 d1, execCode first v = some (b1, d1) ∧
      ((b1 = true ∧ b = true ∧ d = d1) ∨
       (b1 = false ∧ ∃ d', execCode rest v = some (b, d') ∧ d = d' ++ d1)) := by
  simp only [execCode] at h
  cases hf : execCode first v with
  | none => simp [hf] at h
  | some r =>
    obtain ⟨b1, d1⟩ := r
    simp only [hf] at h
    cases b1 with
    | true =>
      simp only [Option.some.injEq, Prod.mk.injEq] at h
      exact ⟨true, d1, rfl, Or.inl ⟨rfl, h.1.symm, h.2.symm⟩⟩
    | false =>
      simp only at h
      cases hr : execCode rest v with
      | none => simp [hr] at h
      | some r2 =>
        obtain ⟨b2, d2⟩ := r2
        simp only [hr, Option.some.injEq, Prod.mk.injEq] at h
        exact ⟨false, d1, rfl, Or.inr ⟨rfl, d2, by rw [h.1], h.2.symm⟩⟩

/-- pattern code on a struct / variant value: which `execFields` ran -/
theorem struct_some (fs : Fields) (v : Val) (b : Bool) (d : Delta)
    (h : execCode (.struct fs) v = some (b, d)) :
    (∃ vs, v = .con none vs ∧ execFields fs vs = some (b, d)) ∨ (fs.isDone = true ∧ b = true ∧ d = []) := by
  cases v with
  | prim k =>
    simp only [execCode] at h
    split at h
    · rename_i hd; simp at h; exact Or.inr ⟨hd, h.1, h.2⟩
    · simp at h
  | con c vs =>
    cases c with
    | none => exact Or.inl ⟨vs, rfl, by simpa [execCode] using h⟩
    | some c =>
      simp only [execCode] at h
      split at h
      · rename_i hd; simp at h; exact Or.inr ⟨hd, h.1, h.2⟩
      · simp at h

theorem destructure_some (c : Ctor) (n : Nat) (fs : Fields) (v : Val) (b : Bool) (d : Delta)
    (h : execCode (.destructure c n fs) v = some (b, d)) :
    (∃ ws, v = .con (some c) ws ∧ execFields fs ws = some (b, d)) ∨ (b = false ∧ d = []) := by
  cases v with
  | prim k => simp [execCode] at h
  | con c' ws =>
    cases c' with
    | none => simp [execCode] at h
    | some c'' =>
      simp only [execCode] at h
      split at h
      · rename_i hc
        subst hc
        split at h
        · exact Or.inl ⟨ws, rfl, h⟩
        · simp at h
      · simp at h
        exact Or.inr ⟨h.1, h.2⟩

theorem sameNames_mem (a b : List Nat) (h : sameNames a b = true) (x : Nat) : x ∈ a ↔ x ∈ b := by
  simp only [sameNames, Bool.and_eq_true, List.all_eq_true, List.contains_eq_mem,
    decide_eq_true_eq] at h
  exact ⟨fun hx => h.1 x hx, fun hx => h.2 x hx⟩

/-! ### only names of the pattern are ever assigned (also by alternatives that fail) -/

mutual
theorem exec_names : ∀ (p : CPat) (v : Val) (b : Bool) (d : Delta), bindsOk p = true →
    execCode (lowerPat p) v = some (b, d) → ∀ x w, (x, w) ∈ d → x ∈ names p
  | .id y, v, b, d, _, h, x, w, hm => by
    simp only [lowerPat, execCode, Option.some.injEq, Prod.mk.injEq] at h
    rw [← h.2] at hm
    simp only [List.mem_singleton, Prod.mk.injEq] at hm
    simp [names, hm.1]
  | .wild, v, b, d, _, h, x, w, hm => by
    simp only [lowerPat, execCode, Option.some.injEq, Prod.mk.injEq] at h
    rw [← h.2] at hm; simp at hm
  | .tuple n es, v, b, d, hb, h, x, w, hm => by
    simp only [bindsOk] at hb
    simp only [lowerPat] at h
    rcases struct_some _ v b d h with ⟨vs, _, hf⟩ | ⟨_, _, hd⟩
    · simp only [names]; exact execL_names es 0 vs b d hb hf x w hm
    · rw [hd] at hm; simp at hm
  | .object n orders es, v, b, d, hb, h, x, w, hm => by
    simp only [bindsOk] at hb
    simp only [lowerPat] at h
    rcases struct_some _ v b d h with ⟨vs, _, hf⟩ | ⟨_, _, hd⟩
    · simp only [names]; exact execObj_names orders es vs b d (by simp only [Bool.and_eq_true] at hb; exact hb.2) hf x w hm
    · rw [hd] at hm; simp at hm
  | .variant c args, v, b, d, hb, h, x, w, hm => by
    simp only [bindsOk] at hb
    simp only [lowerPat] at h
    rcases destructure_some _ _ _ v b d h with ⟨ws, _, hf⟩ | ⟨_, hd⟩
    · simp only [names]; exact execL_names args 0 ws b d hb hf x w hm
    · rw [hd] at hm; simp at hm
  | .or ps, v, b, d, hb, h, x, w, hm => by
    simp only [bindsOk, Bool.and_eq_true] at hb
    simp only [lowerPat] at h
    simp only [names]
    exact execOr_names ps (namesFirst ps) v b d hb.1 hb.2 h x w hm
theorem execL_names : ∀ (es : List CPat) (i : Nat) (vs : List Val) (b : Bool) (d : Delta),
    bindsOkL es = true → execFields (lowerElems es i) vs = some (b, d) →
    ∀ x w, (x, w) ∈ d → x ∈ namesL es
  | [], _, _, b, d, _, h, x, w, hm => by
    simp only [lowerElems, execFields, Option.some.injEq, Prod.mk.injEq] at h
    rw [← h.2] at hm; simp at hm
  | p :: ps, i, vs, b, d, hb, h, x, w, hm => by
    simp only [bindsOkL, Bool.and_eq_true] at hb
    simp only [lowerElems] at h
    rw [execFields_mkField] at h
    obtain ⟨y, bn, dn, _, hn, hcase⟩ := guard_some _ _ _ _ _ _ h
    simp only [namesL, List.mem_append]
    rcases hcase with ⟨_, _, hd⟩ | ⟨_, d', hr, hd⟩
    · rw [hd] at hm; exact Or.inl (exec_names p y bn dn hb.1 hn x w hm)
    · rw [hd] at hm
      rcases List.mem_append.mp hm with hm | hm
      · exact Or.inr (execL_names ps (i + 1) vs b d' hb.2 hr x w hm)
      · exact Or.inl (exec_names p y bn dn hb.1 hn x w hm)
theorem execObj_names : ∀ (orders : List Nat) (es : List CPat) (vs : List Val) (b : Bool) (d : Delta),
    bindsOkL es = true → execFields (lowerObj orders es) vs = some (b, d) →
    ∀ x w, (x, w) ∈ d → x ∈ namesL es
  | [], _, _, b, d, _, h, x, w, hm => by
    simp only [lowerObj, execFields, Option.some.injEq, Prod.mk.injEq] at h
    rw [← h.2] at hm; simp at hm
  | _ :: _, [], _, b, d, _, h, x, w, hm => by
    simp only [lowerObj, execFields, Option.some.injEq, Prod.mk.injEq] at h
    rw [← h.2] at hm; simp at hm
  | o :: orders, p :: es, vs, b, d, hb, h, x, w, hm => by
    simp only [bindsOkL, Bool.and_eq_true] at hb
    simp only [lowerObj] at h
    rw [execFields_mkField] at h
    obtain ⟨y, bn, dn, _, hn, hcase⟩ := guard_some _ _ _ _ _ _ h
    simp only [namesL, List.mem_append]
    rcases hcase with ⟨_, _, hd⟩ | ⟨_, d', hr, hd⟩
    · rw [hd] at hm; exact Or.inl (exec_names p y bn dn hb.1 hn x w hm)
    · rw [hd] at hm
      rcases List.mem_append.mp hm with hm | hm
      · exact Or.inr (execObj_names orders es vs b d' hb.2 hr x w hm)
      · exact Or.inl (exec_names p y bn dn hb.1 hn x w hm)
theorem execOr_names : ∀ (ps : List CPat) (ns : List Nat) (v : Val) (b : Bool) (d : Delta),
    bindsOkL ps = true → altsSame ns ps = true → execCode (lowerOr ps) v = some (b, d) →
    ∀ x w, (x, w) ∈ d → x ∈ ns
  | [], _, _, b, d, _, _, h, x, w, hm => by
    simp only [lowerOr, execCode, Option.some.injEq, Prod.mk.injEq] at h
    rw [← h.2] at hm; simp at hm
  | [p], ns, v, b, d, hb, hs, h, x, w, hm => by
    simp only [bindsOkL, Bool.and_eq_true] at hb
    simp only [altsSame, Bool.and_eq_true] at hs
    simp only [lowerOr] at h
    exact (sameNames_mem _ _ hs.1 x).mp (exec_names p v b d hb.1 h x w hm)
  | p :: q :: ps, ns, v, b, d, hb, hs, h, x, w, hm => by
    simp only [bindsOkL, Bool.and_eq_true] at hb
    simp only [altsSame, Bool.and_eq_true] at hs
    simp only [lowerOr] at h
    obtain ⟨b1, d1, h1, hcase⟩ := orElse_some _ _ _ _ _ h
    have hp : ∀ x w, (x, w) ∈ d1 → x ∈ ns := fun x w hm =>
      (sameNames_mem _ _ hs.1 x).mp (exec_names p v b1 d1 hb.1 h1 x w hm)
    rcases hcase with ⟨_, _, hd⟩ | ⟨_, d', hr, hd⟩
    · rw [hd] at hm; exact hp x w hm
    · rw [hd] at hm
      rcases List.mem_append.mp hm with hm | hm
      · exact execOr_names (q :: ps) ns v b d'
          (by simp [bindsOkL, hb.2.1, hb.2.2]) (by simp [altsSame, hs.2.1, hs.2.2]) hr x w hm
      · exact hp x w hm
end

/-! ### a successful test has assigned every name of the pattern -/

theorem lookup_some_mem : ∀ (d : Delta) (x : Nat) (w : Val), d.lookup x = some w → (x, w) ∈ d
  | [], _, _, h => by simp [List.lookup] at h
  | (y, u) :: d, x, w, h => by
    simp only [List.lookup] at h
    split at h
    · rename_i heq
      simp only [beq_iff_eq] at heq
      simp only [Option.some.injEq] at h
      subst heq; subst h; simp
    · exact List.mem_cons_of_mem _ (lookup_some_mem d x w h)

theorem lookup_append_isSome (d1 d2 : Delta) (x : Nat)
    (h : (d1.lookup x).isSome = true ∨ (d2.lookup x).isSome = true) : ((d1 ++ d2).lookup x).isSome = true := by
  rw [List.lookup_append]
  cases h1 : d1.lookup x with
  | some w => simp
  | none =>
    rcases h with h | h
    · rw [h1] at h; cases h
    · simpa using h

theorem mkField_not_done (i : Nat) (n : Code) (r : Fields) : (mkField i n r).isDone = false := by
  unfold mkField; split <;> rfl

theorem lowerElems_done : ∀ (es : List CPat) (i : Nat), (lowerElems es i).isDone = true → es = []
  | [], _, _ => rfl
  | p :: ps, i, h => by simp [lowerElems, mkField_not_done] at h

theorem lowerObj_done : ∀ (orders : List Nat) (es : List CPat), orders.length = es.length →
    (lowerObj orders es).isDone = true → es = []
  | [], [], _, _ => rfl
  | [], _ :: _, hl, _ => by simp at hl
  | _ :: _, [], hl, _ => by simp at hl
  | o :: orders, p :: es, _, h => by simp [lowerObj, mkField_not_done] at h

mutual
theorem exec_assigns : ∀ (p : CPat) (v : Val) (d : Delta), bindsOk p = true →
    execCode (lowerPat p) v = some (true, d) → ∀ x ∈ names p, (d.lookup x).isSome = true
  | .id y, v, d, _, h, x, hx => by
    simp only [lowerPat, execCode, Option.some.injEq, Prod.mk.injEq, true_and] at h
    simp only [names, List.mem_singleton] at hx
    subst hx; rw [← h]; simp [List.lookup]
  | .wild, _, _, _, _, x, hx => by simp [names] at hx
  | .tuple n es, v, d, hb, h, x, hx => by
    simp only [bindsOk] at hb
    simp only [lowerPat] at h
    simp only [names] at hx
    rcases struct_some _ v true d h with ⟨vs, _, hf⟩ | ⟨hd, _, _⟩
    · exact execL_assigns es 0 vs d hb hf x hx
    · rw [lowerElems_done es 0 hd] at hx; simp [namesL] at hx
  | .object n orders es, v, d, hb, h, x, hx => by
    simp only [bindsOk, Bool.and_eq_true, decide_eq_true_eq] at hb
    simp only [lowerPat] at h
    simp only [names] at hx
    rcases struct_some _ v true d h with ⟨vs, _, hf⟩ | ⟨hd, _, _⟩
    · exact execObj_assigns orders es vs d hb.1 hb.2 hf x hx
    · rw [lowerObj_done orders es hb.1 hd] at hx; simp [namesL] at hx
  | .variant c args, v, d, hb, h, x, hx => by
    simp only [bindsOk] at hb
    simp only [lowerPat] at h
    simp only [names] at hx
    rcases destructure_some _ _ _ v true d h with ⟨ws, _, hf⟩ | ⟨hf, _⟩
    · exact execL_assigns args 0 ws d hb hf x hx
    · cases hf
  | .or ps, v, d, hb, h, x, hx => by
    simp only [bindsOk, Bool.and_eq_true] at hb
    simp only [lowerPat] at h
    simp only [names] at hx
    exact execOr_assigns ps (namesFirst ps) v d hb.1 hb.2 h x hx
theorem execL_assigns : ∀ (es : List CPat) (i : Nat) (vs : List Val) (d : Delta),
    bindsOkL es = true → execFields (lowerElems es i) vs = some (true, d) →
    ∀ x ∈ namesL es, (d.lookup x).isSome = true
  | [], _, _, _, _, _, x, hx => by simp [namesL] at hx
  | p :: ps, i, vs, d, hb, h, x, hx => by
    simp only [bindsOkL, Bool.and_eq_true] at hb
    simp only [lowerElems] at h
    rw [execFields_mkField] at h
    obtain ⟨y, bn, dn, _, hn, hcase⟩ := guard_some _ _ _ _ _ _ h
    simp only [namesL, List.mem_append] at hx
    rcases hcase with ⟨_, hf, _⟩ | ⟨hbn, d', hr, hd⟩
    · cases hf
    · subst hbn; rw [hd]
      apply lookup_append_isSome
      rcases hx with hx | hx
      · exact Or.inr (exec_assigns p y dn hb.1 hn x hx)
      · exact Or.inl (execL_assigns ps (i + 1) vs d' hb.2 hr x hx)
theorem execObj_assigns : ∀ (orders : List Nat) (es : List CPat) (vs : List Val) (d : Delta),
    orders.length = es.length → bindsOkL es = true →
    execFields (lowerObj orders es) vs = some (true, d) → ∀ x ∈ namesL es, (d.lookup x).isSome = true
  | _, [], _, _, _, _, _, x, hx => by simp [namesL] at hx
  | [], _ :: _, _, _, hl, _, _, _, _ => by simp at hl
  | o :: orders, p :: es, vs, d, hl, hb, h, x, hx => by
    simp only [bindsOkL, Bool.and_eq_true] at hb
    simp only [lowerObj] at h
    rw [execFields_mkField] at h
    obtain ⟨y, bn, dn, _, hn, hcase⟩ := guard_some _ _ _ _ _ _ h
    simp only [namesL, List.mem_append] at hx
    rcases hcase with ⟨_, hf, _⟩ | ⟨hbn, d', hr, hd⟩
    · cases hf
    · subst hbn; rw [hd]
      apply lookup_append_isSome
      rcases hx with hx | hx
      · exact Or.inr (exec_assigns p y dn hb.1 hn x hx)
      · exact Or.inl (execObj_assigns orders es vs d' (by simpa using hl) hb.2 hr x hx)
theorem execOr_assigns : ∀ (ps : List CPat) (ns : List Nat) (v : Val) (d : Delta),
    bindsOkL ps = true → altsSame ns ps = true → execCode (lowerOr ps) v = some (true, d) →
    ∀ x ∈ ns, (d.lookup x).isSome = true
  | [], _, _, _, _, _, h, _, _ => by simp [lowerOr, execCode] at h
  | [p], ns, v, d, hb, hs, h, x, hx => by
    simp only [bindsOkL, Bool.and_eq_true] at hb
    simp only [altsSame, Bool.and_eq_true] at hs
    simp only [lowerOr] at h
    exact exec_assigns p v d hb.1 h x ((sameNames_mem _ _ hs.1 x).mpr hx)
  | p :: q :: ps, ns, v, d, hb, hs, h, x, hx => by
    simp only [bindsOkL, Bool.and_eq_true] at hb
    simp only [altsSame, Bool.and_eq_true] at hs
    simp only [lowerOr] at h
    obtain ⟨b1, d1, h1, hcase⟩ := orElse_some _ _ _ _ _ h
    rcases hcase with ⟨hb1, _, hd⟩ | ⟨_, d', hr, hd⟩
    · subst hb1; rw [hd]
      exact exec_assigns p v d1 hb.1 h1 x ((sameNames_mem _ _ hs.1 x).mpr hx)
    · rw [hd]
      apply lookup_append_isSome
      exact Or.inl (execOr_assigns (q :: ps) ns v d'
        (by simp [bindsOkL, hb.2.1, hb.2.2]) (by simp [altsSame, hs.2.1, hs.2.2]) hr x hx)
end

/-! ### the assignments of a successful test are the source bindings -/

theorem lookup_append_left (d' d1 : Delta) (x : Nat)
    (h : d'.lookup x = none → d1.lookup x = none) : (d' ++ d1).lookup x = d'.lookup x := by
  rw [List.lookup_append]
  cases h1 : d'.lookup x with
  | some w => simp
  | none => simp [h h1]

mutual
theorem exec_binds (sig : Sig) : ∀ (p : CPat) (t : Nat) (v : Val) (d : Delta),
    cpatTy sig p t = true → bindsOk p = true → hasTy sig v t = true →
    execCode (lowerPat p) v = some (true, d) → ∀ x, d.lookup x = (srcDelta p v).lookup x
  | .id y, _, v, d, _, _, _, h, x => by
    simp only [lowerPat, execCode, Option.some.injEq, Prod.mk.injEq, true_and] at h
    rw [← h]; simp [srcDelta]
  | .wild, _, v, d, _, _, _, h, x => by
    simp only [lowerPat, execCode, Option.some.injEq, Prod.mk.injEq, true_and] at h
    rw [← h]; simp [srcDelta]
  | .tuple n es, t, v, d, hty, hb, hv, h, x => by
    simp only [cpatTy] at hty
    simp only [bindsOk] at hb
    cases hs : sig t with
    | prim => simp [hs] at hty
    | enum cls vs => simp [hs] at hty
    | struct fs =>
      simp only [hs, Bool.and_eq_true, decide_eq_true_eq] at hty
      cases v with
      | prim k => simp [hasTy, hs] at hv
      | con c ws =>
        simp only [hasTy, ctorFields, hs] at hv
        cases c with
        | some c => simp at hv
        | none =>
          simp only at hv
          simp only [lowerPat, execCode] at h
          have := execL_binds sig es (fs.map (fun f => f.2)) [] ws d hty.2 hb hv
            (by simpa using h) x
          simpa [srcDelta] using this
  | .object n orders es, t, v, d, hty, hb, hv, h, x => by
    simp only [cpatTy] at hty
    simp only [bindsOk, Bool.and_eq_true, decide_eq_true_eq] at hb
    cases hs : sig t with
    | prim => simp [hs] at hty
    | enum cls vs => simp [hs] at hty
    | struct fs =>
      simp only [hs, Bool.and_eq_true, decide_eq_true_eq] at hty
      cases v with
      | prim k => simp [hasTy, hs] at hv
      | con c ws =>
        simp only [hasTy, ctorFields, hs] at hv
        cases c with
        | some c => simp at hv
        | none =>
          simp only at hv
          simp only [lowerPat, execCode] at h
          have := execObj_binds sig orders es (fs.map (fun f => f.2)) ws d hty.2 hb.2 hv h x
          simpa [srcDelta] using this
  | .variant c args, t, v, d, hty, hb, hv, h, x => by
    simp only [cpatTy] at hty
    simp only [bindsOk] at hb
    cases hc : ctorFields sig t (some c) with
    | none => simp [hc] at hty
    | some tys =>
      simp only [hc] at hty
      simp only [lowerPat] at h
      rcases destructure_some _ _ _ v true d h with ⟨ws, hvw, hf⟩ | ⟨hf, _⟩
      · subst hvw
        simp only [hasTy, hc] at hv
        have := execL_binds sig args tys [] ws d hty hb hv (by simpa using hf) x
        simpa [srcDelta] using this
      · cases hf
  | .or ps, t, v, d, hty, hb, hv, h, x => by
    simp only [cpatTy] at hty
    simp only [bindsOk, Bool.and_eq_true] at hb
    simp only [lowerPat] at h
    simp only [srcDelta]
    exact execOr_binds sig ps (namesFirst ps) t v d hty hb.1 hb.2 hv h x
theorem execL_binds (sig : Sig) : ∀ (es : List CPat) (tys : List Nat) (pre ws : List Val) (d : Delta),
    cpatTys sig es tys = true → bindsOkL es = true → hasTys sig ws tys = true →
    execFields (lowerElems es pre.length) (pre ++ ws) = some (true, d) →
    ∀ x, d.lookup x = (srcDeltaL es ws).lookup x
  | [], _, pre, ws, d, _, _, _, h, x => by
    simp only [lowerElems, execFields, Option.some.injEq, Prod.mk.injEq, true_and] at h
    rw [← h]; simp [srcDeltaL]
  | _ :: _, [], _, _, _, hty, _, _, _, _ => by simp [cpatTys] at hty
  | p :: ps, t :: ts, pre, ws, d, hty, hb, hv, h, x => by
    simp only [cpatTys, Bool.and_eq_true] at hty
    simp only [bindsOkL, Bool.and_eq_true] at hb
    cases ws with
    | nil => simp [hasTys] at hv
    | cons w ws =>
      simp only [hasTys, Bool.and_eq_true] at hv
      simp only [lowerElems] at h
      rw [execFields_mkField] at h
      obtain ⟨y, bn, dn, hy, hn, hcase⟩ := guard_some _ _ _ _ _ _ h
      have hyw : y = w := by
        have : (pre ++ w :: ws)[pre.length]? = some w := by simp
        rw [this] at hy; exact (Option.some.inj hy).symm
      subst hyw
      rcases hcase with ⟨_, hf, _⟩ | ⟨hbn, d', hr, hd⟩
      · cases hf
      · subst hbn
        have h1 := exec_binds sig p t y dn hty.1 hb.1 hv.1 hn x
        have hr' : execFields (lowerElems ps (pre ++ [y]).length) ((pre ++ [y]) ++ ws) = some (true, d') := by
          simpa using hr
        have h2 := execL_binds sig ps ts (pre ++ [y]) ws d' hty.2 hb.2 hv.2 hr' x
        rw [hd]
        simp only [srcDeltaL, List.lookup_append, h1, h2]
theorem execObj_binds (sig : Sig) : ∀ (orders : List Nat) (es : List CPat) (tys : List Nat)
    (vs : List Val) (d : Delta),
    cobjTy sig tys orders es = true → bindsOkL es = true → hasTys sig vs tys = true →
    execFields (lowerObj orders es) vs = some (true, d) →
    ∀ x, d.lookup x = (srcDeltaObj orders es vs).lookup x
  | [], [], _, _, d, _, _, _, h, x => by
    simp only [lowerObj, execFields, Option.some.injEq, Prod.mk.injEq, true_and] at h
    rw [← h]; simp [srcDeltaObj]
  | [], _ :: _, _, _, _, hty, _, _, _, _ => by simp [cobjTy] at hty
  | _ :: _, [], _, _, _, hty, _, _, _, _ => by simp [cobjTy] at hty
  | o :: orders, p :: es, tys, vs, d, hty, hb, hv, h, x => by
    simp only [cobjTy, Bool.and_eq_true] at hty
    simp only [bindsOkL, Bool.and_eq_true] at hb
    cases hto : tys[o]? with
    | none => simp [hto] at hty
    | some t =>
      simp only [hto] at hty
      obtain ⟨y', hy', hyt⟩ := hasTys_getElem sig vs tys o t hv hto
      simp only [lowerObj] at h
      rw [execFields_mkField] at h
      obtain ⟨y, bn, dn, hy, hn, hcase⟩ := guard_some _ _ _ _ _ _ h
      have hyy : y = y' := by rw [hy'] at hy; exact (Option.some.inj hy).symm
      subst hyy
      rcases hcase with ⟨_, hf, _⟩ | ⟨hbn, d', hr, hd⟩
      · cases hf
      · subst hbn
        have h1 := exec_binds sig p t y dn hty.1 hb.1 hyt hn x
        have h2 := execObj_binds sig orders es tys vs d' hty.2 hb.2 hv hr x
        rw [hd]
        simp only [srcDeltaObj, hy', List.lookup_append, h1, h2]
theorem execOr_binds (sig : Sig) : ∀ (ps : List CPat) (ns : List Nat) (t : Nat) (v : Val) (d : Delta),
    cpatTyAll sig ps t = true → bindsOkL ps = true → altsSame ns ps = true → hasTy sig v t = true →
    execCode (lowerOr ps) v = some (true, d) → ∀ x, d.lookup x = (srcDeltaOr ps v).lookup x
  | [], _, _, _, _, _, _, _, _, h, _ => by simp [lowerOr, execCode] at h
  | [p], ns, t, v, d, hty, hb, _, hv, h, x => by
    simp only [cpatTyAll, Bool.and_eq_true] at hty
    simp only [bindsOkL, Bool.and_eq_true] at hb
    simp only [lowerOr] at h
    have hm : pmatch (absOf p) v = true := by
      have h1 := exec_some_eval _ _ _ _ h
      rw [lowerPat_correct sig p t v hty.1 hv] at h1
      exact Option.some.inj h1
    simp only [srcDeltaOr, hm, if_true]
    exact exec_binds sig p t v d hty.1 hb.1 hv h x
  | p :: q :: ps, ns, t, v, d, hty, hb, hs, hv, h, x => by
    simp only [cpatTyAll, Bool.and_eq_true] at hty
    simp only [bindsOkL, Bool.and_eq_true] at hb
    simp only [altsSame, Bool.and_eq_true] at hs
    simp only [lowerOr] at h
    obtain ⟨b1, d1, h1, hcase⟩ := orElse_some _ _ _ _ _ h
    have hm : pmatch (absOf p) v = b1 := by
      have h2 := exec_some_eval _ _ _ _ h1
      rw [lowerPat_correct sig p t v hty.1 hv] at h2
      exact Option.some.inj h2
    rcases hcase with ⟨hb1, _, hd⟩ | ⟨hb1, d', hr, hd⟩
    · subst hb1; subst hd
      simp only [srcDeltaOr, hm, if_true]
      exact exec_binds sig p t v d hty.1 hb.1 hv h1 x
    · subst hb1
      have hbq : bindsOkL (q :: ps) = true := by simp [bindsOkL, hb.2.1, hb.2.2]
      have hsq : altsSame ns (q :: ps) = true := by simp [altsSame, hs.2.1, hs.2.2]
      have htq : cpatTyAll sig (q :: ps) t = true := by simp [cpatTyAll, hty.2.1, hty.2.2]
      have ih := execOr_binds sig (q :: ps) ns t v d' htq hbq hsq hv hr x
      have hleft : (d' ++ d1).lookup x = d'.lookup x := by
        apply lookup_append_left
        intro hnone
        cases hl : d1.lookup x with
        | none => rfl
        | some w =>
          exfalso
          have hxp := exec_names p v false d1 hb.1 h1 x w (lookup_some_mem d1 x w hl)
          have hxn := (sameNames_mem _ _ hs.1 x).mp hxp
          have := execOr_assigns (q :: ps) ns v d' hbq hsq hr x hxn
          rw [hnone] at this; cases this
      rw [hd, hleft, ih]
      simp [srcDeltaOr, hm]
end

/-! ### temporaries: `binding_names` is injective and fresh, and an injective renaming preserves lookups -/

theorem allocTemps_fst : ∀ (ns : List Nat) (c : Nat), (allocTemps ns c).map (fun b => b.1) = ns
  | [], _ => rfl
  | n :: ns, c => by simp [allocTemps, allocTemps_fst ns (c + 1)]

theorem allocTemps_snd : ∀ (ns : List Nat) (c : Nat),
    (allocTemps ns c).map (fun b => b.2) = List.range' c ns.length
  | [], _ => rfl
  | n :: ns, c => by simp [allocTemps, allocTemps_snd ns (c + 1), List.range'_succ]

/-- every temporary handed out is fresh (≥ the counter, so different from every earlier temporary)
and no two source names share one -/
theorem allocTemps_fresh_injective (ns : List Nat) (c : Nat) :
    (∀ b ∈ allocTemps ns c, c ≤ b.2 ∧ b.2 < c + ns.length) ∧
    ((allocTemps ns c).map (fun b => b.2)).Nodup := by
  constructor
  · intro b hb
    have : b.2 ∈ (allocTemps ns c).map (fun b => b.2) := List.mem_map.mpr ⟨b, hb, rfl⟩
    rw [allocTemps_snd] at this
    have := List.mem_range'_1.mp this
    omega
  · rw [allocTemps_snd]; exact List.nodup_range'

theorem lookup_rename (bn : Nat → Nat) (x : Nat) : ∀ (d : Delta),
    (∀ y w, (y, w) ∈ d → bn y = bn x → y = x) →
    (renameDelta bn d).lookup (bn x) = d.lookup x
  | [], _ => rfl
  | (y, w) :: d, h => by
    have ih := lookup_rename bn x d (fun y' w' hm => h y' w' (List.mem_cons_of_mem _ hm))
    simp only [renameDelta, List.map_cons, List.lookup] at ih ⊢
    by_cases hxy : x = y
    · subst hxy; simp
    · have hne : ¬ bn x = bn y := fun heq => hxy (h y w List.mem_cons_self heq.symm).symm
      have h1 : (bn x == bn y) = false := by simpa using hne
      have h2 : (x == y) = false := by simpa using hxy
      simp only [h1, h2]
      exact ih

end SamVerif.MatchLower
