import SamVerif.Lemmas.Scope
import SamVerif.Lemmas.ScopeSig
import SamVerif.Lemmas.ScopeRename
/-!
Order-insensitivity of the scope analysis (C13): the scope machine observes its scopes only through
lookups (`step_eq`), hoisting distinct toplevel names yields lookup-equivalent base scopes in any
order (`hoist_eq`), and every traversal fragment is scope-neutral (`visit_neutral`), so every
member / toplevel block restores the context it started in.
-/
namespace SamVerif.Scope
open SamVerif.Sig (lookupKV_insertKV lookup_foldl_insert_perm)

variable {α : Type} [DecidableEq α]

/-- two hash maps with the same content -/
def ScopeEq (s1 s2 : List (α × Nat)) : Prop := ∀ n, lookupKV n s1 = lookupKV n s2

def CtxEq : List (Scope α) → List (Scope α) → Prop
  | [], [] => True
  | a :: as, b :: bs => ScopeEq a b ∧ CtxEq as bs
  | _, _ => False

/-- tables `Location ↦ HashMap` with the same keys in the same order and equal-content values -/
def TabEq : List (Nat × Scope α) → List (Nat × Scope α) → Prop
  | [], [] => True
  | a :: as, b :: bs => a.1 = b.1 ∧ ScopeEq a.2 b.2 ∧ TabEq as bs
  | _, _ => False

/-- two analysis states that differ only in the internal order of their hash maps (and in the order
in which definitions were recorded) -/
structure StEq (st1 st2 : St α) : Prop where
  locals : CtxEq st1.locals st2.locals
  captured : CtxEq st1.captured st2.captured
  unbound : st1.unbound = st2.unbound
  invalid : st1.invalid = st2.invalid
  useDef : st1.useDef = st2.useDef
  defLocs : st1.defLocs.Perm st2.defLocs
  scopedDefs : TabEq st1.scopedDefs st2.scopedDefs
  lambdaCaps : TabEq st1.lambdaCaps st2.lambdaCaps
  errors : st1.errors = st2.errors
  underflow : st1.underflow = st2.underflow

theorem ScopeEq.refl (s : List (α × Nat)) : ScopeEq s s := fun _ => rfl
theorem CtxEq.refl : ∀ (ls : List (Scope α)), CtxEq ls ls
  | [] => trivial
  | s :: ls => ⟨ScopeEq.refl s, CtxEq.refl ls⟩
theorem TabEq.refl : ∀ (t : List (Nat × Scope α)), TabEq t t
  | [] => trivial
  | e :: t => ⟨rfl, ScopeEq.refl e.2, TabEq.refl t⟩

theorem scopeEq_insert {s1 s2 : List (α × Nat)} (h : ScopeEq s1 s2) (n : α) (l : Nat) :
    ScopeEq (insertKV n l s1) (insertKV n l s2) := by
  intro k; rw [lookupKV_insertKV, lookupKV_insertKV, h k]

theorem lookupCtx_congr {ls1 ls2 : List (Scope α)} (h : CtxEq ls1 ls2) (n : α) :
    lookupCtx n ls1 = lookupCtx n ls2 := by
  induction ls1 generalizing ls2 with
  | nil => cases ls2 <;> simp_all [CtxEq]
  | cons a as ih =>
    cases ls2 with
    | nil => simp [CtxEq] at h
    | cons b bs => simp only [lookupCtx, h.1 n, ih h.2]

theorem previousDef_congr {ls1 ls2 : List (Scope α)} (h : CtxEq ls1 ls2) (n : α) :
    previousDef n ls1 = previousDef n ls2 := by
  induction ls1 generalizing ls2 with
  | nil => cases ls2 <;> simp_all [CtxEq]
  | cons a as ih =>
    cases ls2 with
    | nil => simp [CtxEq] at h
    | cons b bs => simp only [previousDef, h.1 n, ih h.2]

theorem insertLocal_congr {ls1 ls2 : List (Scope α)} (h : CtxEq ls1 ls2) (n : α) (l : Nat) :
    CtxEq (insertLocal n l ls1) (insertLocal n l ls2) := by
  cases ls1 with
  | nil => cases ls2 <;> simp_all [CtxEq, insertLocal]
  | cons a as =>
    cases ls2 with
    | nil => simp [CtxEq] at h
    | cons b bs => exact ⟨scopeEq_insert h.1 n l, h.2⟩

theorem recordCapture_congr {cs1 cs2 : List (Scope α)} (h : CtxEq cs1 cs2) (n : α) (l k : Nat) :
    CtxEq (recordCapture n l k cs1) (recordCapture n l k cs2) := by
  induction k generalizing cs1 cs2 with
  | zero => simpa [recordCapture] using h
  | succ k ih =>
    cases cs1 with
    | nil => cases cs2 <;> simp_all [CtxEq, recordCapture]
    | cons a as =>
      cases cs2 with
      | nil => simp [CtxEq] at h
      | cons b bs => exact ⟨scopeEq_insert h.1 n l, ih h.2⟩

theorem tabEq_insert {t1 t2 : List (Nat × Scope α)} (h : TabEq t1 t2) (k : Nat) {s1 s2 : Scope α}
    (hs : ScopeEq s1 s2) : TabEq (insertKV k s1 t1) (insertKV k s2 t2) := by
  have hf : TabEq (t1.filter fun e => e.1 ≠ k) (t2.filter fun e => e.1 ≠ k) := by
    induction t1 generalizing t2 with
    | nil => cases t2 <;> simp_all [TabEq]
    | cons a as ih =>
      cases t2 with
      | nil => simp [TabEq] at h
      | cons b bs =>
        obtain ⟨hk, hv, ht⟩ := h
        simp only [List.filter_cons, hk]
        by_cases hb : b.1 = k
        · simpa [hb] using ih ht
        · simp only [ne_eq, hb, not_false_eq_true, decide_true, if_true]
          exact ⟨hk, hv, ih ht⟩
  exact ⟨rfl, hs, hf⟩

/-- **The scope machine observes its hash maps only through lookups**: equal-content states stay
equal-content under every event. -/
theorem step_eq (st1 st2 : St α) (ev : Ev α) (h : StEq st1 st2) : StEq (step st1 ev) (step st2 ev) := by
  obtain ⟨hl, hc, hu, hi, hud, hd, hs, hlc, he, huf⟩ := h
  cases ev with
  | push => exact ⟨⟨ScopeEq.refl _, hl⟩, ⟨ScopeEq.refl _, hc⟩, hu, hi, hud, hd, hs, hlc, he, huf⟩
  | pop k loc =>
    obtain ⟨l1, c1, u1, i1, ud1, d1, s1, lc1, e1, uf1⟩ := st1
    obtain ⟨l2, c2, u2, i2, ud2, d2, s2, lc2, e2, uf2⟩ := st2
    simp only at hl hc hu hi hud hd hs hlc he huf
    subst hu hi hud he huf
    cases l1 with
    | nil =>
      cases l2 with
      | nil => exact ⟨trivial, hc, rfl, rfl, rfl, hd, hs, hlc, rfl, rfl⟩
      | cons b bs => simp [CtxEq] at hl
    | cons a as =>
      cases l2 with
      | nil => simp [CtxEq] at hl
      | cons b bs =>
        cases c1 with
        | nil =>
          cases c2 with
          | nil => exact ⟨hl, trivial, rfl, rfl, rfl, hd, hs, hlc, rfl, rfl⟩
          | cons c' cs' => simp [CtxEq] at hc
        | cons c cs =>
          cases c2 with
          | nil => simp [CtxEq] at hc
          | cons c' cs' =>
            rcases k with _ | _ | _
            · exact ⟨hl.2, hc.2, rfl, rfl, rfl, hd, hs, hlc, rfl, rfl⟩
            · exact ⟨hl.2, hc.2, rfl, rfl, rfl, hd, tabEq_insert hs loc hl.1, hlc, rfl, rfl⟩
            · exact ⟨hl.2, hc.2, rfl, rfl, rfl, hd, tabEq_insert hs loc hl.1, tabEq_insert hlc loc hc.1, rfl, rfl⟩
  | define n l =>
    obtain ⟨l1, c1, u1, i1, ud1, d1, s1, lc1, e1, uf1⟩ := st1
    obtain ⟨l2, c2, u2, i2, ud2, d2, s2, lc2, e2, uf2⟩ := st2
    simp only at hl hc hu hi hud hd hs hlc he huf
    subst hu hi hud he huf
    simp only [step, defineId, previousDef_congr hl n]
    cases previousDef n l2 with
    | none => exact ⟨insertLocal_congr hl n l, hc, rfl, rfl, rfl, hd.append_right _, hs, hlc, rfl, rfl⟩
    | some prev =>
      by_cases hin : i1.contains l = true
      · simp only [hin, if_true]
        exact ⟨insertLocal_congr hl n l, hc, rfl, rfl, rfl, hd.append_right _, hs, hlc, rfl, rfl⟩
      · simp only [hin]
        exact ⟨insertLocal_congr hl n l, hc, rfl, rfl, rfl, hd.append_right _, hs, hlc, rfl, rfl⟩
  | use n l ft =>
    obtain ⟨l1, c1, u1, i1, ud1, d1, s1, lc1, e1, uf1⟩ := st1
    obtain ⟨l2, c2, u2, i2, ud2, d2, s2, lc2, e2, uf2⟩ := st2
    simp only at hl hc hu hi hud hd hs hlc he huf
    subst hu hi hud he huf
    simp only [step, useId, lookupCtx_congr hl n]
    cases lookupCtx n l2 with
    | none => exact ⟨hl, hc, rfl, rfl, rfl, hd, hs, hlc, rfl, rfl⟩
    | some r =>
      obtain ⟨k, l0⟩ := r
      refine ⟨hl, ?_, rfl, rfl, rfl, hd, hs, hlc, rfl, rfl⟩
      cases ft
      · exact recordCapture_congr hc n l0 k
      · exact hc

theorem run_eq (evs : List (Ev α)) (st1 st2 : St α) (h : StEq st1 st2) :
    StEq (run evs st1) (run evs st2) := by
  induction evs generalizing st1 st2 with
  | nil => exact h
  | cons ev evs ih => exact ih _ _ (step_eq st1 st2 ev h)

/-! ### hoisting -/

/-- the hoisting prefix of `visit_module` (lines 90-100): imported names, then toplevel names -/
def hoistDefs (m : Module α) : List (α × Nat) :=
  m.imports ++ m.toplevels.map (fun t => (t.name, t.nameLoc))

def hoistEvs (m : Module α) : List (Ev α) := (hoistDefs m).map fun d => Ev.define d.1 d.2

theorem visitModule_split (this : α) (m : Module α) :
    visitModule this m = hoistEvs m ++ m.toplevels.flatMap (visitToplevel this) := by
  simp [visitModule, hoistEvs, hoistDefs]

/-- hoisting pairwise distinct names: no diagnostic, and the base scope is the fold of inserts -/
theorem run_hoist (defs : List (α × Nat)) (acc : List (α × Nat)) (st : St α)
    (hst : st.locals = [acc]) (hnd : (names acc ++ names defs).Nodup) :
    run (defs.map fun d => Ev.define d.1 d.2) st =
      { st with locals := [defs.foldl (fun a d => insertKV d.1 d.2 a) acc],
                defLocs := st.defLocs ++ defs.map Prod.snd } := by
  induction defs generalizing acc st with
  | nil => cases st; simp_all [run]
  | cons d defs ih =>
    obtain ⟨l0, c0, u0, i0, ud0, d0, s0, lc0, e0, uf0⟩ := st
    simp only at hst
    subst hst
    have hnot : d.1 ∉ names acc := by
      intro h
      have := List.nodup_append.mp hnd
      exact this.2.2 _ h _ (by simp [names]) rfl
    have hp : previousDef d.1 [acc] = none := by
      rw [previousDef_none_iff]; simpa [ctxNames] using hnot
    have hnd' : (names (insertKV d.1 d.2 acc) ++ names defs).Nodup := by
      rw [insertKV_fresh d.2 hnot]
      simp only [names, List.map_cons, List.cons_append, List.nodup_cons, List.map_append] at hnd ⊢
      have h := List.nodup_append.mp hnd
      refine ⟨?_, ?_⟩
      · intro hmem
        rcases List.mem_append.mp hmem with h1 | h1
        · exact hnot h1
        · exact (List.nodup_cons.mp h.2.1).1 h1
      · refine List.nodup_append.mpr ⟨h.1, (List.nodup_cons.mp h.2.1).2, ?_⟩
        intro a ha b hb
        exact h.2.2 a ha b (List.mem_cons_of_mem _ hb)
    have := ih (insertKV d.1 d.2 acc)
      ⟨[insertKV d.1 d.2 acc], c0, u0, i0, ud0, d0 ++ [d.2], s0, lc0, e0, uf0⟩ rfl hnd'
    simp only [run] at this
    simp only [List.map_cons, run, List.foldl_cons, step, defineId, hp, insertLocal, this]
    simp [List.append_assoc]

theorem hoist_eq (m m' : Module α) (hi : m'.imports = m.imports)
    (hp : m.toplevels.Perm m'.toplevels) (hnd : (names (hoistDefs m)).Nodup) :
    StEq (run (hoistEvs m) init) (run (hoistEvs m') init) := by
  have hperm : (hoistDefs m).Perm (hoistDefs m') := by
    simp only [hoistDefs, hi]
    exact (hp.map _).append_left _
  have hnd' : (names (hoistDefs m')).Nodup := (hperm.map Prod.fst).nodup_iff.mp hnd
  rw [hoistEvs, hoistEvs, run_hoist (hoistDefs m) [] init rfl (by simpa [names] using hnd),
    run_hoist (hoistDefs m') [] init rfl (by simpa [names] using hnd')]
  refine ⟨⟨?_, trivial⟩, CtxEq.refl _, rfl, rfl, rfl, ?_, TabEq.refl _, TabEq.refl _, rfl, rfl⟩
  · intro k
    exact lookup_foldl_insert_perm Prod.fst Prod.snd hperm hnd [] k
  · simpa [init] using hperm.map Prod.snd


/-! ### every traversal fragment is scope-neutral -/

def WF (st : St α) : Prop := st.captured.length = st.locals.length

/-- `evs` runs between depth `a` and depth `b` above some frame `s :: rest` and never touches `rest`
(nor pops below the frame). -/
def Bal (a b : Nat) (evs : List (Ev α)) : Prop :=
  ∀ (st : St α) (pre : List (Scope α)) (s : Scope α) (rest : List (Scope α)),
    st.locals = pre ++ s :: rest → pre.length = a → WF st →
    ∃ pre' s', (run evs st).locals = pre' ++ s' :: rest ∧ pre'.length = b ∧ WF (run evs st)

theorem run_append (a b : List (Ev α)) (st : St α) : run (a ++ b) st = run b (run a st) := by
  simp [run, List.foldl_append]

theorem bal_nil (a : Nat) : Bal a a ([] : List (Ev α)) :=
  fun _ pre s _ h hl hw => ⟨pre, s, h, hl, hw⟩

theorem bal_append {a b c : Nat} {x y : List (Ev α)} (hx : Bal a b x) (hy : Bal b c y) :
    Bal a c (x ++ y) := by
  intro st pre s rest h hl hw
  obtain ⟨pre1, s1, h1, hl1, hw1⟩ := hx st pre s rest h hl hw
  rw [run_append]
  exact hy _ pre1 s1 rest h1 hl1 hw1

theorem bal_cons {a b c : Nat} {ev : Ev α} {t : List (Ev α)} (h1 : Bal a b [ev]) (h2 : Bal b c t) :
    Bal a c (ev :: t) := bal_append (x := [ev]) h1 h2

theorem bal_push (a : Nat) : Bal a (a + 1) ([.push] : List (Ev α)) := by
  intro st pre s rest h hl hw
  refine ⟨[] :: pre, s, by simp [run, step, h], by simp [hl], by simp [run, step, WF] at hw ⊢; omega⟩

theorem bal_pop (a : Nat) (k : PopKind) (l : Nat) : Bal (a + 1) a ([.pop k l] : List (Ev α)) := by
  intro st pre s rest h hl hw
  obtain ⟨locals, captured, u, i, ud, d, sd, lc, e, uf⟩ := st
  simp only [WF] at hw h
  cases pre with
  | nil => simp at hl
  | cons p pre0 =>
    subst h
    cases captured with
    | nil => simp at hw
    | cons c cs =>
      refine ⟨pre0, s, ?_, by simpa using hl, ?_⟩
      · rcases k with _ | _ | _ <;> simp [run, step]
      · rcases k with _ | _ | _ <;> simp [run, step, WF] at hw ⊢ <;> omega

theorem bal_define (a : Nat) (n : α) (l : Nat) : Bal a a ([.define n l] : List (Ev α)) := by
  intro st pre s rest h hl hw
  have hloc : (run [.define n l] st).locals = insertLocal n l st.locals := by
    simp only [run, List.foldl_cons, List.foldl_nil, step, defineId]
    split
    · split <;> rfl
    · rfl
  have hcap : (run [.define n l] st).captured = st.captured := by
    simp only [run, List.foldl_cons, List.foldl_nil, step, defineId]
    split
    · split <;> rfl
    · rfl
  have hw' : WF (run [.define n l] st) := by
    simp only [WF, hloc, hcap, insertLocal_length]; exact hw
  cases pre with
  | nil => exact ⟨[], insertKV n l s, by simp [hloc, h, insertLocal], hl, hw'⟩
  | cons p pre0 =>
    exact ⟨insertKV n l p :: pre0, s, by simp [hloc, h, insertLocal], by simpa using hl, hw'⟩

theorem bal_use (a : Nat) (n : α) (l : Nat) (ft : Bool) : Bal a a ([.use n l ft] : List (Ev α)) := by
  intro st pre s rest h hl hw
  have hloc : (run [.use n l ft] st).locals = st.locals := by
    simp only [run, List.foldl_cons, List.foldl_nil, step, useId]
    split <;> rfl
  have hcap : (run [.use n l ft] st).captured.length = st.captured.length := by
    simp only [run, List.foldl_cons, List.foldl_nil, step, useId]
    split
    · cases ft <;> simp [recordCapture_length]
    · rfl
  exact ⟨pre, s, by rw [hloc, h], hl, by simp only [WF, hloc, hcap]; exact hw⟩

theorem bal_visitList_nil (a : Nat) : Bal a a (visitList ([] : List (Node α))) := by
  simp only [visitList]; exact bal_nil a
theorem bal_usesList_nil (a : Nat) : Bal a a (usesList ([] : List (Node α))) := by
  simp only [usesList]; exact bal_nil a

/-- solves `Bal a a (…)` goals made of `++`, `::`, single events and induction hypotheses -/
macro "bal_tac" : tactic => `(tactic| repeat (first
  | assumption
  | apply_assumption
  | exact bal_nil _
  | exact bal_visitList_nil _
  | exact bal_usesList_nil _
  | exact bal_push _
  | exact bal_pop _ _ _
  | exact bal_define _ _ _
  | exact bal_use _ _ _ _
  | apply bal_append
  | apply bal_cons))

mutual
theorem visit_bal : ∀ (n : Node α) (a : Nat), Bal a a (visit n)
  | .mk tag name loc kids, a => by
    have hk := fun a => visitList_bal kids a
    match kids with
    | [] => cases tag <;> cases name <;> simp only [visit, visitList, usesList] <;> bal_tac
    | [k1] =>
      have h1 := fun a => visit_bal k1 a
      cases tag <;> cases name <;> simp only [visit, visitList, usesList] at hk ⊢ <;> bal_tac
    | [k1, k2] =>
      have h1 := fun a => visit_bal k1 a
      have h2 := fun a => visit_bal k2 a
      have u2 := fun a => usesList_bal [k2] a
      have v2 := fun a => uses_bal k2 a
      cases tag <;> cases name <;> simp only [visit, visitList] at hk ⊢ <;> bal_tac
    | [k1, k2, k3] =>
      have h1 := fun a => visit_bal k1 a
      have h2 := fun a => visit_bal k2 a
      have h3 := fun a => visit_bal k3 a
      have u := fun a => usesList_bal [k2, k3] a
      have v2 := fun a => uses_bal k2 a
      have v3 := fun a => uses_bal k3 a
      cases tag <;> cases name <;> simp only [visit, visitList] at hk ⊢ <;> bal_tac
    | [k1, k2, k3, k4] =>
      have h1 := fun a => visit_bal k1 a
      have h2 := fun a => visit_bal k2 a
      have h3 := fun a => visit_bal k3 a
      have h4 := fun a => visit_bal k4 a
      have u := fun a => usesList_bal [k2, k3, k4] a
      have v2 := fun a => uses_bal k2 a
      have v3 := fun a => uses_bal k3 a
      have v4 := fun a => uses_bal k4 a
      cases tag <;> cases name <;> simp only [visit, visitList] at hk ⊢ <;> bal_tac
    | k1 :: k2 :: k3 :: k4 :: k5 :: ks =>
      have h1 := fun a => visit_bal k1 a
      have u := fun a => usesList_bal (k2 :: k3 :: k4 :: k5 :: ks) a
      cases tag <;> cases name <;> simp only [visit] at hk ⊢ <;> bal_tac
theorem visitList_bal : ∀ (ks : List (Node α)) (a : Nat), Bal a a (visitList ks)
  | [], a => by simp only [visitList]; exact bal_nil a
  | k :: ks, a => by
    simp only [visitList]
    exact bal_append (visit_bal k a) (visitList_bal ks a)
theorem uses_bal : ∀ (n : Node α) (a : Nat), Bal a a (uses n)
  | .mk tag name loc kids, a => by
    have hu := usesList_bal kids a
    cases tag <;> cases name <;> simp only [uses] <;> first | exact hu | exact bal_use _ _ _ _
theorem usesList_bal : ∀ (ks : List (Node α)) (a : Nat), Bal a a (usesList ks)
  | [], a => by simp only [usesList]; exact bal_nil a
  | k :: ks, a => by
    simp only [usesList]
    exact bal_append (uses_bal k a) (usesList_bal ks a)
end


/-- a scope opened and closed around a neutral fragment restores the context exactly -/
theorem scope_restores {a : List (Ev α)} (ha : Bal 0 0 a) (k : PopKind) (l : Nat) (st : St α)
    (s : Scope α) (rest : List (Scope α)) (h : st.locals = s :: rest) (hw : WF st) :
    (run ([.push] ++ a ++ [.pop k l]) st).locals = s :: rest ∧ WF (run ([.push] ++ a ++ [.pop k l]) st) := by
  -- exactness: the frame scope `s` itself is untouched because all of `a` runs above it
  obtain ⟨p1, s1, h1, hl1, hw1⟩ := bal_push 0 st [] s rest h rfl hw
  have hpush : (run [.push] st).locals = [] :: s :: rest := by simp [run, step, h]
  obtain ⟨p2, s2, h2, hl2, hw2⟩ := ha (run [.push] st) [] [] (s :: rest) hpush rfl hw1
  have hp2 : p2 = [] := by cases p2 <;> simp_all
  subst hp2
  obtain ⟨p3, s3, h3, hl3, hw3⟩ := bal_pop 0 k l (run a (run [.push] st)) [s2] s rest (by simpa using h2) rfl hw2
  have hp3 : p3 = [] := by cases p3 <;> simp_all
  subst hp3
  -- the pop removes exactly `s2`, leaving `s :: rest`
  have hpop : (run [.pop k l] (run a (run [.push] st))).locals = s :: rest := by
    have hl2' : (run a (run [.push] st)).locals = s2 :: s :: rest := by simpa using h2
    have hc : (run a (run [.push] st)).captured ≠ [] := by
      intro hc; have := hw2; simp [WF, hc, hl2'] at this
    generalize run a (run [.push] st) = st2 at hl2' hc
    obtain ⟨locals, captured, u, i, ud, d, sd, lc, e, uf⟩ := st2
    cases captured with
    | nil => exact absurd rfl hc
    | cons c cs =>
      have : locals = s2 :: s :: rest := hl2'
      subst this
      rcases k with _ | _ | _ <;> rfl
  rw [run_append, run_append]
  exact ⟨hpop, hw3⟩


theorem bal_flatMap {γ : Type} (a : Nat) (f : γ → List (Ev α)) (l : List γ)
    (h : ∀ x, Bal a a (f x)) : Bal a a (l.flatMap f) := by
  induction l with
  | nil => exact bal_nil a
  | cons x l ih => simp only [List.flatMap_cons]; exact bal_append (h x) ih

theorem bal_map {γ : Type} (a : Nat) (f : γ → Ev α) (l : List γ)
    (h : ∀ x, Bal a a [f x]) : Bal a a (l.map f) := by
  induction l with
  | nil => exact bal_nil a
  | cons x l ih => simp only [List.map_cons]; exact bal_cons (h x) ih

theorem visitTParams_bal (tps : List (TParam α)) (a : Nat) : Bal a a (visitTParams tps) := by
  simp only [visitTParams]
  refine bal_append (b := a) (bal_append (b := a) ?_ ?_) ?_
  · apply bal_flatMap; intro tp; cases tp.bound <;> first | exact bal_nil a | exact bal_use _ _ _ _
  · apply bal_map; intro tp; exact bal_define _ _ _
  · apply bal_flatMap; intro tp; cases tp.bound <;> first | exact bal_nil a | exact visitList_bal _ a

theorem visitMember_bal (m : Member α) (a : Nat) : Bal a a (visitMember m) := by
  have hb : Bal (a + 1 + 1) (a + 1 + 1) (match m.body with | some b => visit b | none => []) := by
    cases m.body with
    | none => exact bal_nil _
    | some b => exact visit_bal b _
  simp only [visitMember]
  have h1 : Bal (a + 1) (a + 1) (m.params.flatMap fun p => visit p.2.2) :=
    bal_flatMap _ _ _ fun p => visit_bal _ _
  have h2 : Bal (a + 1 + 1) (a + 1 + 1) (m.params.map fun p => Ev.define p.1 p.2.1) :=
    bal_map _ _ _ fun p => bal_define _ _ _
  have h3 : Bal (a + 1 + 1) a ([Ev.pop .scoped m.loc, Ev.pop .discard 0] : List (Ev α)) :=
    bal_cons (bal_pop (a + 1) _ _) (bal_pop a _ _)
  exact bal_append (bal_append (bal_append (bal_append (bal_append (bal_append (bal_append
    (bal_push a) (visitTParams_bal _ (a + 1))) h1) (visit_bal _ (a + 1))) (bal_push (a + 1))) h2) hb) h3

theorem visitTypeDef_bal (t : TypeDef α) (a : Nat) : Bal a a (visitTypeDef t) := by
  cases t with
  | none => exact bal_nil a
  | struct fields =>
    simp only [visitTypeDef]
    exact bal_append (bal_flatMap a _ _ fun f => visit_bal _ _) (bal_map a _ _ fun f => bal_define _ _ _)
  | enum variants =>
    simp only [visitTypeDef]
    exact bal_append (bal_flatMap a _ _ fun v => visitList_bal _ _) (bal_map a _ _ fun v => bal_define _ _ _)

theorem visitMembers_bal (t : Toplevel α) (b : Bool) (a : Nat) : Bal a a (visitMembers t b) := by
  simp only [visitMembers]
  exact bal_flatMap a _ _ fun m => visitMember_bal m a

/-- the part of a toplevel's block between its outermost `push` and `pop` -/
def toplevelInner (this : α) (t : Toplevel α) : List (Ev α) :=
  [.push]
  ++ visitTParams t.tparams
  ++ t.supers.flatMap (fun s => visitList s.2.2)
  ++ visitTypeDef t.typeDef
  ++ [.pop .discard 0]
  ++ [.push] ++ t.members.map (fun m => Ev.define m.name m.nameLoc) ++ [.pop .discard 0]
  ++ [.push]
  ++ (if t.isClass then [Ev.define this t.loc] else [])
  ++ t.tparams.map (fun tp => Ev.define tp.name tp.loc)
  ++ visitMembers t true
  ++ [.pop .discard 0]
  ++ [.push] ++ visitMembers t false ++ [.pop .discard 0]

theorem visitToplevel_eq (this : α) (t : Toplevel α) :
    visitToplevel this t =
      t.supers.map (fun s => Ev.use s.1 s.2.1 true) ++ ([.push] ++ toplevelInner this t ++ [.pop .discard 0]) := by
  simp [visitToplevel, toplevelInner, List.append_assoc]

theorem toplevelInner_bal (this : α) (t : Toplevel α) : Bal 0 0 (toplevelInner this t) := by
  have hthis : Bal 1 1 (if t.isClass then [Ev.define this t.loc] else []) := by
    cases t.isClass
    · exact bal_nil _
    · exact bal_define _ _ _
  simp only [toplevelInner]
  have h1 : Bal 1 1 (t.supers.flatMap fun s => visitList s.2.2) :=
    bal_flatMap _ _ _ fun s => visitList_bal _ _
  have h2 : Bal 1 1 (t.members.map fun m => Ev.define m.name m.nameLoc) :=
    bal_map _ _ _ fun m => bal_define _ _ _
  have h3 : Bal 1 1 (t.tparams.map fun tp => Ev.define tp.name tp.loc) :=
    bal_map _ _ _ fun tp => bal_define _ _ _
  exact bal_append (bal_append (bal_append (bal_append (bal_append (bal_append (bal_append (bal_append
    (bal_append (bal_append (bal_append (bal_append (bal_append (bal_append (bal_append
    (bal_push 0) (visitTParams_bal _ 1)) h1) (visitTypeDef_bal _ 1)) (bal_pop 0 _ _)) (bal_push 0)) h2)
    (bal_pop 0 _ _)) (bal_push 0)) hthis) h3) (visitMembers_bal _ _ 1)) (bal_pop 0 _ _)) (bal_push 0))
    (visitMembers_bal _ _ 1)) (bal_pop 0 _ _)

theorem run_uses_locals (us : List (α × Nat × Bool)) (st : St α) :
    (run (us.map fun u => Ev.use u.1 u.2.1 u.2.2) st).locals = st.locals ∧
    (WF st → WF (run (us.map fun u => Ev.use u.1 u.2.1 u.2.2) st)) := by
  induction us generalizing st with
  | nil => exact ⟨rfl, id⟩
  | cons u us ih =>
    have h1 : (step st (Ev.use u.1 u.2.1 u.2.2)).locals = st.locals := by
      simp only [step, useId]; split <;> rfl
    have h2 : (step st (Ev.use u.1 u.2.1 u.2.2)).captured.length = st.captured.length := by
      simp only [step, useId]
      split
      · cases u.2.2 <;> simp [recordCapture_length]
      · rfl
    obtain ⟨i1, i2⟩ := ih (step st (Ev.use u.1 u.2.1 u.2.2))
    simp only [List.map_cons, run, List.foldl_cons] at i1 i2 ⊢
    exact ⟨i1.trans h1, fun hw => i2 (by simp only [WF, h1, h2]; exact hw)⟩

/-- **every toplevel block restores the context it started in** -/
theorem visitToplevel_restores (this : α) (t : Toplevel α) (st : St α) (s : Scope α)
    (rest : List (Scope α)) (h : st.locals = s :: rest) (hw : WF st) :
    (run (visitToplevel this t) st).locals = s :: rest ∧ WF (run (visitToplevel this t) st) := by
  rw [visitToplevel_eq, run_append]
  have hu := run_uses_locals (t.supers.map fun s => (s.1, s.2.1, true)) st
  simp only [List.map_map, Function.comp_def] at hu
  exact scope_restores (toplevelInner_bal this t) .discard 0 _ s rest (hu.1.trans h) (hu.2 hw)

/-- …hence every block of `visit_module` is analysed in exactly the hoisted context, whichever
blocks ran before it -/
theorem blocks_restore (this : α) (ts : List (Toplevel α)) (st : St α) (s : Scope α)
    (rest : List (Scope α)) (h : st.locals = s :: rest) (hw : WF st) :
    (run (ts.flatMap (visitToplevel this)) st).locals = s :: rest ∧
      WF (run (ts.flatMap (visitToplevel this)) st) := by
  induction ts generalizing st with
  | nil => exact ⟨h, hw⟩
  | cons t ts ih =>
    simp only [List.flatMap_cons, run_append]
    obtain ⟨h1, w1⟩ := visitToplevel_restores this t st s rest h hw
    exact ih _ h1 w1

end SamVerif.Scope
