import SamVerif.Lemmas.EnumLayout
/-! Helper lemmas for C01 / K1: global invariant of the demand-driven specialisation `demandTy`. -/
namespace SamVerif.EnumLayout

def bodyOf (env : Env) (n : Nat) : Option Body := (env[n]?).map (·.body)

/-- Types all of whose values are heap objects: structs, closures, finished enums with only boxed
variants. -/
def Ptr (env : Env) (defs : List (Nat × MDef)) (t : Nat) : Prop :=
  (∃ fs, bodyOf env t = some (.struct fs)) ∨ (∃ sg, bodyOf env t = some (.closure sg)) ∨
  (∃ rs, lookupDef defs t = some (.enum rs) ∧ rs.all VRepr.isBoxed = true)

/-- Invariant of the specialiser state. -/
structure GInv (env : Env) (st : St) : Prop where
  defNames : ∀ (n : Nat) (d : MDef), lookupDef st.defs n = some d → n ∈ st.names
  structs : ∀ (n k : Nat), lookupDef st.defs n = some (.struct k) → ∃ fs, bodyOf env n = some (.struct fs)
  enums : ∀ (n : Nat) (rs : List VRepr), lookupDef st.defs n = some (.enum rs) →
    ∃ vs l, bodyOf env n = some (.enum vs) ∧ LInv (Ptr env st.defs) vs l ∧ l.out = rs
  started : ∀ (n : Nat), n ∈ st.names → (∃ vs, bodyOf env n = some (.enum vs)) → n ∈ st.enumsStarted
  namesEnv : ∀ (n : Nat), n ∈ st.names → ∃ b, bodyOf env n = some b

/-- What a call may change: names only grow; the definition status of every name registered
before the call is untouched. -/
structure Ext (st st' : St) : Prop where
  names : ∀ (n : Nat), n ∈ st.names → n ∈ st'.names
  defs : ∀ (n : Nat), n ∈ st.names → lookupDef st'.defs n = lookupDef st.defs n

theorem Ext.refl (st : St) : Ext st st := ⟨fun _ h => h, fun _ _ => rfl⟩

theorem Ext.trans {a b c : St} (h1 : Ext a b) (h2 : Ext b c) : Ext a c :=
  ⟨fun n h => h2.names n (h1.names n h), fun n h => by rw [h2.defs n (h1.names n h), h1.defs n h]⟩

theorem Ptr.ext {env : Env} {st st' : St} (g : GInv env st) (e : Ext st st') {t : Nat}
    (h : Ptr env st.defs t) : Ptr env st'.defs t := by
  rcases h with h | h | ⟨rs, h1, h2⟩
  · exact Or.inl h
  · exact Or.inr (Or.inl h)
  · refine Or.inr (Or.inr ⟨rs, ?_, h2⟩)
    rw [e.defs t (g.defNames t _ h1)]; exact h1

theorem ginv_init (env : Env) : GInv env {} := by
  constructor <;> simp [lookupDef]

/-- A positive answer of `type_permit_enum_boxed_optimization` is justified in every state that
satisfies the invariant. -/
theorem typePermit_ptr {env : Env} {st : St} (g : GInv env st) (t : Nat)
    (h : typePermit st (.ref t) = true) : Ptr env st.defs t := by
  unfold typePermit at h
  cases hd : lookupDef st.defs t with
  | none =>
    simp only [hd, Bool.and_eq_true, List.contains_eq_mem, decide_eq_true_eq,
      Bool.not_eq_true', decide_eq_false_iff_not] at h
    obtain ⟨b, hb⟩ := g.namesEnv t h.1
    cases b with
    | struct fs => exact Or.inl ⟨fs, hb⟩
    | closure sg => exact Or.inr (Or.inl ⟨sg, hb⟩)
    | enum vs => exact absurd (g.started t h.1 ⟨vs, hb⟩) h.2
  | some d =>
    cases d with
    | struct k => exact Or.inl (g.structs t k hd)
    | enum rs => simp only [hd] at h; exact Or.inr (Or.inr ⟨rs, hd, h⟩)

theorem lookupDef_addDef (st : St) (n m : Nat) (d : MDef) :
    lookupDef (addDef st n d).defs m = if n = m then some d else lookupDef st.defs m := by
  simp [addDef, lookupDef]

/-- Finishing the definition of a registered, not yet defined name keeps the invariant. -/
theorem ginv_addDef {env : Env} {st : St} (g : GInv env st) (n : Nat) (d : MDef)
    (hn : n ∈ st.names) (hnone : lookupDef st.defs n = none)
    (hs : ∀ k, d = .struct k → ∃ fs, bodyOf env n = some (.struct fs))
    (he : ∀ rs, d = .enum rs → ∃ vs l, bodyOf env n = some (.enum vs) ∧ LInv (Ptr env st.defs) vs l ∧ l.out = rs) :
    GInv env (addDef st n d) := by
  have hptr : ∀ t, Ptr env st.defs t → Ptr env (addDef st n d).defs t := by
    intro t h
    rcases h with h | h | ⟨rs, h1, h2⟩
    · exact Or.inl h
    · exact Or.inr (Or.inl h)
    · refine Or.inr (Or.inr ⟨rs, ?_, h2⟩)
      rw [lookupDef_addDef]
      split
      · rename_i h'; subst h'; rw [hnone] at h1; cases h1
      · exact h1
  refine ⟨?_, ?_, ?_, ?_, ?_⟩
  · intro m d' h
    rw [lookupDef_addDef] at h
    split at h
    · rename_i h'; subst h'; exact hn
    · exact g.defNames m d' h
  · intro m k h
    rw [lookupDef_addDef] at h
    split at h
    · rename_i h'; subst h'; exact hs k (by simpa using h)
    · exact g.structs m k h
  · intro m rs h
    rw [lookupDef_addDef] at h
    split at h
    · rename_i h'; subst h'
      obtain ⟨vs, l, h1, h2, h3⟩ := he rs (by simpa using h)
      exact ⟨vs, l, h1, h2.mono hptr, h3⟩
    · obtain ⟨vs, l, h1, h2, h3⟩ := g.enums m rs h
      exact ⟨vs, l, h1, h2.mono hptr, h3⟩
  · exact g.started
  · exact g.namesEnv

section fold
variable (env : Env) (dem : St → Ty → Option St)
  (H : ∀ (st : St) (t : Ty) (st' : St), GInv env st → dem st t = some st' → GInv env st' ∧ Ext st st')
include H

theorem foldTys_inv : ∀ (ts : List Ty) (s0 s' : St), GInv env s0 → ts.foldlM dem s0 = some s' →
    GInv env s' ∧ Ext s0 s' := by
  intro ts
  induction ts with
  | nil => intro s0 s' g h; simp at h; subst h; exact ⟨g, Ext.refl _⟩
  | cons t rest ih =>
    intro s0 s' g h
    simp only [List.foldlM_cons] at h
    cases h1 : dem s0 t with
    | none => simp [h1] at h
    | some s1 =>
      simp only [h1] at h
      obtain ⟨g1, e1⟩ := H s0 t s1 g h1
      obtain ⟨g2, e2⟩ := ih s1 s' g1 h
      exact ⟨g2, e1.trans e2⟩

theorem foldVariants_inv : ∀ (vs done : List (List Ty)) (s0 s : St) (l : LState) (r : St × LState × Nat),
    GInv env s → Ext s0 s → LInv (Ptr env s.defs) done l →
    vs.foldlM (variantStep dem) (s, l, done.length) = some r →
    GInv env r.1 ∧ Ext s0 r.1 ∧ LInv (Ptr env r.1.defs) (done ++ vs) r.2.1 := by
  intro vs
  induction vs with
  | nil =>
    intro done s0 s l r g e li h
    simp at h; subst h
    exact ⟨g, e, by simpa using li⟩
  | cons fs rest ih =>
    intro done s0 s l r g e li h
    simp only [List.foldlM_cons] at h
    cases h1 : variantStep dem (s, l, done.length) fs with
    | none => simp [h1] at h
    | some acc =>
      simp only [h1] at h
      unfold variantStep at h1
      cases h2 : fs.foldlM dem s with
      | none => simp [h2] at h1
      | some s' =>
        simp only [h2] at h1
        cases h1
        obtain ⟨g', e'⟩ := foldTys_inv env dem H fs s s' g h2
        have li' : LInv (Ptr env s'.defs) done l := li.mono (fun t ht => Ptr.ext g e' ht)
        have step := linv_step (Ptr env s'.defs) done l fs (ansOf (typePermit s') fs) li' (by
          intro n hf ha
          subst hf
          exact typePermit_ptr g' n (by simpa [ansOf] using ha))
        have := ih (done ++ [fs]) s0 s' _ r g' (e.trans e') step (by simpa using h)
        simpa [List.append_assoc] using this

end fold

/-- Registering a new name (l.573-574; for enums also `enum_type_names_in_progress.insert`). -/
theorem ginv_register {env : Env} {st : St} (g : GInv env st) (n : Nat) (b : Body)
    (hb : bodyOf env n = some b) (es : List Nat)
    (hes : ∀ m, m ∈ st.enumsStarted → m ∈ es)
    (hen : (∃ vs, b = .enum vs) → n ∈ es) :
    GInv env { st with names := n :: st.names, enumsStarted := es } ∧
      Ext st { st with names := n :: st.names, enumsStarted := es } := by
  refine ⟨⟨?_, g.structs, g.enums, ?_, ?_⟩, ⟨fun m h => List.mem_cons_of_mem _ h, fun _ _ => rfl⟩⟩
  · intro m d h; exact List.mem_cons_of_mem _ (g.defNames m d h)
  · intro m hm he
    rcases List.mem_cons.mp hm with h | h
    · subst h
      obtain ⟨vs, hv⟩ := he
      rw [hb] at hv
      exact hen ⟨vs, by simpa using hv⟩
    · exact hes m (g.started m h he)
  · intro m hm
    rcases List.mem_cons.mp hm with h | h
    · subst h; exact ⟨b, hb⟩
    · exact g.namesEnv m h

theorem demandTy_inv (env : Env) : ∀ (fuel : Nat) (st : St) (t : Ty) (st' : St),
    GInv env st → demandTy env fuel st t = some st' → GInv env st' ∧ Ext st st' := by
  intro fuel
  induction fuel with
  | zero =>
    intro st t st' g h
    cases t <;> simp [demandTy] at h
    all_goals (subst h; exact ⟨g, Ext.refl _⟩)
  | succ fuel ih =>
    intro st t st' g h
    cases t with
    | int => simp [demandTy] at h; subst h; exact ⟨g, Ext.refl _⟩
    | vec => simp [demandTy] at h; subst h; exact ⟨g, Ext.refl _⟩
    | ref n =>
      simp only [demandTy] at h
      cases hd : env[n]? with
      | none => simp [hd] at h
      | some d =>
        simp only [hd] at h
        cases h1 : d.targs.foldlM (fun s t => demandTy env fuel s t) st with
        | none => simp [h1] at h
        | some st1 =>
          simp only [h1] at h
          obtain ⟨g1, e1⟩ := foldTys_inv env _ ih d.targs st st1 g h1
          by_cases hc : st1.names.contains n = true
          · simp only [hc, if_true] at h
            cases h
            exact ⟨g1, e1⟩
          · simp only [hc, Bool.false_eq_true, if_false] at h
            have hnn : n ∉ st1.names := by simpa using hc
            have hnone1 : lookupDef st1.defs n = none := by
              cases hq : lookupDef st1.defs n with
              | none => rfl
              | some d' => exact absurd (g1.defNames n d' hq) hnn
            have hbody : bodyOf env n = some d.body := by simp [bodyOf, hd]
            cases hb : d.body with
            | struct fs =>
              simp only [hb] at h
              obtain ⟨g2, e2⟩ := ginv_register g1 n d.body hbody st1.enumsStarted (fun _ h => h)
                (by rintro ⟨vs, hv⟩; rw [hb] at hv; cases hv)
              cases h3 : fs.foldlM (fun s t => demandTy env fuel s t)
                  { st1 with names := n :: st1.names } with
              | none => simp [h3] at h
              | some st3 =>
                simp only [h3, Option.map_some, Option.some.injEq] at h
                subst h
                obtain ⟨g3, e3⟩ := foldTys_inv env _ ih fs _ st3 g2 h3
                have hn3 : n ∈ st3.names := e3.names n (List.mem_cons_self ..)
                have hnone3 : lookupDef st3.defs n = none := by
                  rw [e3.defs n (List.mem_cons_self ..)]; exact hnone1
                refine ⟨ginv_addDef g3 n _ hn3 hnone3 (fun k _ => ⟨fs, by rw [hbody, hb]⟩)
                  (fun rs h => by cases h), ?_⟩
                refine ⟨fun m hm => e3.names m (e2.names m (e1.names m hm)), fun m hm => ?_⟩
                have hm1 := e1.names m hm
                have hne : n ≠ m := fun h => hnn (h ▸ hm1)
                rw [lookupDef_addDef, if_neg hne, e3.defs m (e2.names m hm1), e2.defs m hm1, e1.defs m hm]
            | closure sg =>
              simp only [hb] at h
              obtain ⟨g2, e2⟩ := ginv_register g1 n d.body hbody st1.enumsStarted (fun _ h => h)
                (by rintro ⟨vs, hv⟩; rw [hb] at hv; cases hv)
              cases h3 : sg.foldlM (fun s t => demandTy env fuel s t)
                  { st1 with names := n :: st1.names } with
              | none => simp [h3] at h
              | some st3 =>
                simp only [h3, Option.map_some, Option.some.injEq] at h
                subst h
                obtain ⟨g3, e3⟩ := foldTys_inv env _ ih sg _ st3 g2 h3
                refine ⟨⟨g3.defNames, g3.structs, g3.enums, g3.started, g3.namesEnv⟩, ?_⟩
                exact ⟨fun m hm => e3.names m (e2.names m (e1.names m hm)),
                  fun m hm => by
                    have hm1 := e1.names m hm
                    show lookupDef st3.defs m = _
                    rw [e3.defs m (e2.names m hm1), e2.defs m hm1, e1.defs m hm]⟩
            | enum vs =>
              simp only [hb] at h
              obtain ⟨g2, e2⟩ := ginv_register g1 n d.body hbody (n :: st1.enumsStarted)
                (fun _ h => List.mem_cons_of_mem _ h) (fun _ => List.mem_cons_self ..)
              cases h3 : vs.foldlM (variantStep (fun s t => demandTy env fuel s t))
                  ({ st1 with names := n :: st1.names, enumsStarted := n :: st1.enumsStarted },
                    ({} : LState), 0) with
              | none => simp [h3] at h
              | some r =>
                simp only [h3, Option.map_some, Option.some.injEq] at h
                subst h
                obtain ⟨g3, e3, li⟩ := foldVariants_inv env _ ih vs [] _ _ {} r g2 (Ext.refl _)
                  (linv_init _) (by simpa using h3)
                have hn3 : n ∈ r.1.names := e3.names n (List.mem_cons_self ..)
                have hnone3 : lookupDef r.1.defs n = none := by
                  rw [e3.defs n (List.mem_cons_self ..)]; exact hnone1
                refine ⟨ginv_addDef g3 n _ hn3 hnone3 (fun k h => by cases h)
                  (fun rs h => ⟨vs, r.2.1, by rw [hbody, hb], by simpa using li, by simpa using h⟩), ?_⟩
                refine ⟨fun m hm => e3.names m (e2.names m (e1.names m hm)), fun m hm => ?_⟩
                have hm1 := e1.names m hm
                have hne : n ≠ m := fun h => hnn (h ▸ hm1)
                rw [lookupDef_addDef, if_neg hne, e3.defs m (e2.names m hm1), e2.defs m hm1, e1.defs m hm]

theorem demandAll_inv (env : Env) (fuel : Nat) (roots : List Ty) (st : St)
    (h : demandAll env fuel roots = some st) : GInv env st :=
  (foldTys_inv env _ (demandTy_inv env fuel) roots {} st (ginv_init env) h).1

end SamVerif.EnumLayout
