import SamVerif.Model.Imports
/-! Helper lemmas for the import-reorganisation part of `Props/C09.lean`. -/
namespace SamVerif.Imports
open SamVerif.Doc
open SamVerif.CommentQueue (Comment Kind)

/-- The comment lists recorded for module `p`. -/
def commentsAt (p : Str) (gs : List Group) : List (List Comment) :=
  match gs.find? (fun g => g.path = p) with
  | some g => g.comments
  | none => []

def membersAt (p : Str) (gs : List Group) : List Member :=
  match gs.find? (fun g => g.path = p) with
  | some g => g.members
  | none => []

theorem commentsAt_insertImp (p : Str) (gs : List Group) (imp : Import) :
    commentsAt p (insertImp gs imp) =
      commentsAt p gs ++ (if imp.path = p then [imp.comments] else []) := by
  induction gs with
  | nil =>
    by_cases h : imp.path = p <;> simp [insertImp, commentsAt, List.find?, h]
  | cons g rest ih =>
    simp only [insertImp]
    by_cases hg : g.path = imp.path
    · simp only [hg, if_true]
      by_cases h : imp.path = p
      · simp [commentsAt, List.find?, h, hg]
      · simp [commentsAt, List.find?, h, hg]
    · simp only [hg, if_false]
      by_cases hp : g.path = p
      · have : ¬ imp.path = p := fun h => hg (hp.trans h.symm)
        simp [commentsAt, List.find?, hp, this]
      · have := ih
        simp only [commentsAt, List.find?, hp, decide_false] at this ⊢
        exact this

theorem membersAt_insertImp (p : Str) (gs : List Group) (imp : Import) :
    membersAt p (insertImp gs imp) =
      membersAt p gs ++ (if imp.path = p then imp.members else []) := by
  induction gs with
  | nil =>
    by_cases h : imp.path = p <;> simp [insertImp, membersAt, List.find?, h]
  | cons g rest ih =>
    simp only [insertImp]
    by_cases hg : g.path = imp.path
    · simp only [hg, if_true]
      by_cases h : imp.path = p
      · simp [membersAt, List.find?, h, hg]
      · simp [membersAt, List.find?, h, hg]
    · simp only [hg, if_false]
      by_cases hp : g.path = p
      · have : ¬ imp.path = p := fun h => hg (hp.trans h.symm)
        simp [membersAt, List.find?, hp, this]
      · have := ih
        simp only [membersAt, List.find?, hp, decide_false] at this ⊢
        exact this

theorem foldl_commentsAt (p : Str) (imps : List Import) (gs : List Group) :
    commentsAt p (imps.foldl insertImp gs) =
      commentsAt p gs ++ (imps.filter (fun i => i.path = p)).map (·.comments) := by
  induction imps generalizing gs with
  | nil => simp
  | cons imp rest ih =>
    simp only [List.foldl_cons]
    rw [ih, commentsAt_insertImp]
    by_cases h : imp.path = p <;> simp [List.filter, h]

theorem foldl_membersAt (p : Str) (imps : List Import) (gs : List Group) :
    membersAt p (imps.foldl insertImp gs) =
      membersAt p gs ++ (imps.filter (fun i => i.path = p)).flatMap (·.members) := by
  induction imps generalizing gs with
  | nil => simp
  | cons imp rest ih =>
    simp only [List.foldl_cons]
    rw [ih, membersAt_insertImp]
    by_cases h : imp.path = p <;> simp [List.filter, h]

/-- The paths after inserting: the old ones, plus the new one if it was not there. -/
theorem paths_insertImp (gs : List Group) (imp : Import) :
    (insertImp gs imp).map (·.path) =
      gs.map (·.path) ++ (if imp.path ∈ gs.map (·.path) then [] else [imp.path]) := by
  induction gs with
  | nil => simp [insertImp]
  | cons g rest ih =>
    simp only [insertImp]
    by_cases hg : g.path = imp.path
    · simp [hg]
    · have hne : ¬ imp.path = g.path := fun h => hg h.symm
      simp only [hg, if_false, List.map_cons, ih, List.mem_cons, hne, false_or, List.cons_append]

theorem nodup_insertImp (gs : List Group) (imp : Import) (h : (gs.map (·.path)).Nodup) :
    ((insertImp gs imp).map (·.path)).Nodup := by
  rw [paths_insertImp]
  by_cases hm : imp.path ∈ gs.map (·.path)
  · simpa [hm] using h
  · simp only [hm, if_false]
    rw [List.nodup_append]
    refine ⟨h, by simp, ?_⟩
    intro a ha b hb
    simp at hb
    subst hb
    intro hab; subst hab; exact hm ha

theorem nodup_foldl (imps : List Import) (gs : List Group) (h : (gs.map (·.path)).Nodup) :
    ((imps.foldl insertImp gs).map (·.path)).Nodup := by
  induction imps generalizing gs with
  | nil => exact h
  | cons imp rest ih => exact ih _ (nodup_insertImp gs imp h)

theorem mem_paths_foldl (p : Str) (imps : List Import) (gs : List Group) :
    p ∈ (imps.foldl insertImp gs).map (·.path) ↔ p ∈ gs.map (·.path) ∨ p ∈ imps.map (·.path) := by
  induction imps generalizing gs with
  | nil => simp
  | cons imp rest ih =>
    simp only [List.foldl_cons]
    rw [ih, paths_insertImp]
    by_cases hm : imp.path ∈ gs.map (·.path)
    · simp only [hm, if_true, List.append_nil, List.map_cons, List.mem_cons]
      constructor
      · rintro (h | h)
        · exact .inl h
        · exact .inr (.inr h)
      · rintro (h | h | h)
        · exact .inl h
        · exact .inl (h ▸ hm)
        · exact .inr h
    · simp only [hm, if_false, List.mem_append, List.map_cons, List.mem_cons, List.not_mem_nil,
        or_false]
      constructor
      · rintro ((h | h) | h)
        · exact .inl h
        · exact .inr (.inl h)
        · exact .inr (.inr h)
      · rintro (h | h | h)
        · exact .inl (.inl h)
        · exact .inl (.inr h)
        · exact .inr h

/-- With distinct paths, a member group is the one `find?` returns for its path. -/
theorem find_of_mem_nodup (gs : List Group) (h : (gs.map (·.path)).Nodup) (g : Group) (hg : g ∈ gs) :
    gs.find? (fun x => x.path = g.path) = some g := by
  induction gs with
  | nil => cases hg
  | cons x rest ih =>
    simp only [List.map_cons, List.nodup_cons] at h
    rcases List.mem_cons.mp hg with rfl | hr
    · simp [List.find?]
    · have hne : ¬ x.path = g.path := by
        intro he
        exact h.1 (he ▸ List.mem_map_of_mem hr)
      simp only [List.find?, hne, decide_false]
      exact ih h.2 hr

/-! ### The stable insertion sort is a permutation -/

theorem insertBy_perm {α : Type} (le : α → α → Bool) (x : α) (l : List α) :
    (insertBy le x l).Perm (x :: l) := by
  induction l with
  | nil => exact .refl _
  | cons y ys ih =>
    simp only [insertBy]
    split
    · exact .refl _
    · exact (List.Perm.cons y ih).trans (List.Perm.swap x y ys)

theorem sortBy_perm {α : Type} (le : α → α → Bool) (l : List α) : (sortBy le l).Perm l := by
  induction l with
  | nil => exact .refl _
  | cons x xs ih =>
    simp only [sortBy, List.foldr_cons]
    exact (insertBy_perm le x _).trans (List.Perm.cons x ih)

/-- Every comment printed in the import section: line comments of the merged lines, then the
comments of the members. -/
def groupComments (g : Group) : List Comment := g.comments.flatten ++ g.members.flatMap (·.comments)
def importComments (i : Import) : List Comment := i.comments ++ i.members.flatMap (·.comments)
def flatComments (gs : List Group) : List Comment := gs.flatMap groupComments

theorem flatComments_insertImp (gs : List Group) (imp : Import) :
    (flatComments (insertImp gs imp)).Perm (flatComments gs ++ importComments imp) := by
  induction gs with
  | nil => simp [insertImp, flatComments, groupComments, importComments]
  | cons g rest ih =>
    simp only [insertImp]
    split
    · simp only [flatComments, groupComments, importComments, List.flatMap_cons, List.flatten_append,
        List.flatten_cons, List.flatten_nil, List.append_nil, List.flatMap_append, List.append_assoc]
      refine List.Perm.append_left _ ?_
      rw [List.perm_iff_count]
      intro a
      simp only [List.count_append]
      omega
    · simp only [flatComments, List.flatMap_cons, List.append_assoc] at ih ⊢
      exact List.Perm.append_left _ ih

theorem flatComments_foldl (imps : List Import) (gs : List Group) :
    (flatComments (imps.foldl insertImp gs)).Perm (flatComments gs ++ imps.flatMap importComments) := by
  induction imps generalizing gs with
  | nil => simp
  | cons imp rest ih =>
    simp only [List.foldl_cons, List.flatMap_cons]
    refine (ih _).trans ?_
    rw [← List.append_assoc]
    exact List.Perm.append_right _ (flatComments_insertImp gs imp)

theorem flatMap_perm_pointwise {α β : Type} (f g : α → List β) (l : List α)
    (h : ∀ x, (f x).Perm (g x)) : (l.flatMap f).Perm (l.flatMap g) := by
  induction l with
  | nil => exact .refl _
  | cons x xs ih => simp only [List.flatMap_cons]; exact (h x).append ih

theorem groupComments_sortMembers (g : Group) :
    (groupComments { g with members := sortBy (fun a b => strLe a.name b.name) g.members }).Perm
      (groupComments g) := by
  unfold groupComments
  exact List.Perm.append_left _ ((sortBy_perm _ g.members).flatMap_right _)

end SamVerif.Imports
