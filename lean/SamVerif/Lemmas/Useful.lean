import SamVerif.Model.Useful
/-! Helper lemmas for `Props/C07.lean` (Maranget's specialisation / default-matrix lemmas for the
model of `pattern_matching.rs`). -/
namespace SamVerif.Useful

/-! ### matching of vectors -/

theorem pmatchAll_length : ∀ (ps : List Pat) (vs : List Val), pmatchAll ps vs = true → ps.length = vs.length
  | [], [], _ => rfl
  | p :: ps, v :: vs, h => by
    simp only [pmatchAll, Bool.and_eq_true] at h
    simp [pmatchAll_length ps vs h.2]
  | [], _ :: _, h => by simp [pmatchAll] at h
  | _ :: _, [], h => by simp [pmatchAll] at h

theorem pmatchAll_append : ∀ (ps : List Pat) (vs : List Val) (qs : List Pat) (ws : List Val),
    ps.length = vs.length → pmatchAll (ps ++ qs) (vs ++ ws) = (pmatchAll ps vs && pmatchAll qs ws)
  | [], [], qs, ws, _ => by simp [pmatchAll]
  | p :: ps, v :: vs, qs, ws, h => by
    have := pmatchAll_append ps vs qs ws (by simpa using h)
    simp [pmatchAll, this, Bool.and_assoc]
  | [], _ :: _, _, _, h => by simp at h
  | _ :: _, [], _, _, h => by simp at h

theorem wilds_succ (n : Nat) : wilds (n + 1) = .wild :: wilds n := by
  simp [wilds, List.replicate_succ]

theorem pmatchAll_wilds : ∀ (n : Nat) (vs : List Val), vs.length = n → pmatchAll (wilds n) vs = true
  | 0, [], _ => by simp [wilds, pmatchAll]
  | n + 1, v :: vs, h => by
    rw [wilds_succ]; simp [pmatchAll, pmatch, pmatchAll_wilds n vs (by simpa using h)]
  | 0, _ :: _, h => by simp at h
  | _ + 1, [], h => by simp at h

theorem wilds_length (n : Nat) : (wilds n).length = n := by simp [wilds]

theorem pmatchAll_wilds_append (n : Nat) (vs ws : List Val) (rest : List Pat) (h : vs.length = n) :
    pmatchAll (wilds n ++ rest) (vs ++ ws) = pmatchAll rest ws := by
  rw [pmatchAll_append _ _ _ _ (by simp [wilds_length, h]), pmatchAll_wilds n vs h]; simp

theorem pmatchAny_iff : ∀ (ps : List Pat) (v : Val), pmatchAny ps v = true ↔ ∃ p ∈ ps, pmatch p v = true
  | [], v => by simp [pmatchAny]
  | p :: ps, v => by simp [pmatchAny, pmatchAny_iff ps v]

/-! ### typing -/

theorem patTys_length : ∀ (sig : Sig) (ps : List Pat) (ts : List Nat), patTys sig ps ts = true → ps.length = ts.length
  | _, [], [], _ => rfl
  | sig, p :: ps, t :: ts, h => by
    simp only [patTys, Bool.and_eq_true] at h
    simp [patTys_length sig ps ts h.2]
  | _, [], _ :: _, h => by simp [patTys] at h
  | _, _ :: _, [], h => by simp [patTys] at h

theorem hasTys_length : ∀ (sig : Sig) (vs : List Val) (ts : List Nat), hasTys sig vs ts = true → vs.length = ts.length
  | _, [], [], _ => rfl
  | sig, v :: vs, t :: ts, h => by
    simp only [hasTys, Bool.and_eq_true] at h
    simp [hasTys_length sig vs ts h.2]
  | _, [], _ :: _, h => by simp [hasTys] at h
  | _, _ :: _, [], h => by simp [hasTys] at h

theorem patTys_append : ∀ (sig : Sig) (ps : List Pat) (ts : List Nat) (qs : List Pat) (us : List Nat),
    patTys sig ps ts = true → patTys sig qs us = true → patTys sig (ps ++ qs) (ts ++ us) = true
  | _, [], [], _, _, _, h2 => by simpa using h2
  | sig, p :: ps, t :: ts, qs, us, h1, h2 => by
    simp only [patTys, Bool.and_eq_true] at h1
    simp [patTys, h1.1, patTys_append sig ps ts qs us h1.2 h2]
  | _, [], _ :: _, _, _, h, _ => by simp [patTys] at h
  | _, _ :: _, [], _, _, h, _ => by simp [patTys] at h

theorem patTys_wilds (sig : Sig) : ∀ (ts : List Nat), patTys sig (wilds ts.length) ts = true
  | [] => by simp [wilds, patTys]
  | t :: ts => by
    rw [List.length_cons, wilds_succ]; simp [patTys, patTy, patTys_wilds sig ts]

theorem hasTys_append : ∀ (sig : Sig) (vs : List Val) (ts : List Nat) (ws : List Val) (us : List Nat),
    hasTys sig vs ts = true → hasTys sig ws us = true → hasTys sig (vs ++ ws) (ts ++ us) = true
  | _, [], [], _, _, _, h2 => by simpa using h2
  | sig, v :: vs, t :: ts, ws, us, h1, h2 => by
    simp only [hasTys, Bool.and_eq_true] at h1
    simp [hasTys, h1.1, hasTys_append sig vs ts ws us h1.2 h2]
  | _, [], _ :: _, _, _, h, _ => by simp [hasTys] at h
  | _, _ :: _, [], _, _, h, _ => by simp [hasTys] at h

theorem hasTys_append_inv : ∀ (sig : Sig) (ts : List Nat) (xs : List Val) (us : List Nat),
    hasTys sig xs (ts ++ us) = true →
    ∃ vs ws, xs = vs ++ ws ∧ hasTys sig vs ts = true ∧ hasTys sig ws us = true
  | _, [], xs, us, h => ⟨[], xs, by simp, by simp [hasTys], by simpa using h⟩
  | sig, t :: ts, [], us, h => by simp [hasTys] at h
  | sig, t :: ts, x :: xs, us, h => by
    simp only [List.cons_append, hasTys, Bool.and_eq_true] at h
    obtain ⟨vs, ws, e, h1, h2⟩ := hasTys_append_inv sig ts xs us h.2
    exact ⟨x :: vs, ws, by simp [e], by simp [hasTys, h.1, h1], h2⟩

theorem patTyAll_iff : ∀ (sig : Sig) (ps : List Pat) (t : Nat), patTyAll sig ps t = true ↔ ∀ p ∈ ps, patTy sig p t = true
  | _, [], _ => by simp [patTyAll]
  | sig, p :: ps, t => by simp [patTyAll, patTyAll_iff sig ps t]

/-- Two different constructors of one type are both variant constructors. -/
theorem ctorFields_ne {sig : Sig} {t : Nat} {a b : Option Ctor} {x y : List Nat}
    (ha : ctorFields sig t a = some x) (hb : ctorFields sig t b = some y) (hne : a ≠ b) :
    ∃ a' b', a = some a' ∧ b = some b' := by
  unfold ctorFields at ha hb
  cases hs : sig t <;> cases a <;> cases b <;> simp_all

/-! ### specialisation -/

mutual
theorem specHead_match (sig : Sig) (t : Nat) (c : Option Ctor) (tys : List Nat) (ws vs : List Val) (rest : Row)
    (hc : ctorFields sig t c = some tys) (hw : hasTys sig ws tys = true) :
    ∀ (p : Pat), patTy sig p t = true →
      (specHead c tys.length rest p).any (fun r => pmatchAll r (ws ++ vs)) =
        (pmatch p (.con c ws) && pmatchAll rest vs)
  | .wild, _ => by
    simp [specHead, pmatch, pmatchAll_wilds_append _ _ _ _ (hasTys_length sig ws tys hw)]
  | .or ps, h => by
    simp only [patTy] at h
    simp only [specHead, pmatch]
    exact specHeads_match sig t c tys ws vs rest hc hw ps h
  | .struct c' rs, h => by
    simp only [patTy] at h
    cases hc' : ctorFields sig t c' with
    | none => simp [hc'] at h
    | some tys' =>
      simp only [hc'] at h
      by_cases e : c' = c
      · subst e
        have et : tys' = tys := by simpa [hc'] using hc
        subst et
        have hl : rs.length = ws.length := by
          rw [patTys_length sig rs tys' h, hasTys_length sig ws tys' hw]
        have hs : specHead c' tys'.length rest (.struct c' rs) = [rs ++ rest] := by
          cases c' <;> simp [specHead]
        simp [hs, pmatch, pmatchAll_append _ _ _ _ hl]
      · obtain ⟨a', b', ea, eb⟩ := ctorFields_ne hc' hc e
        subst ea; subst eb
        have : a' ≠ b' := fun h => e (by rw [h])
        simp [specHead, pmatch, this, e]
theorem specHeads_match (sig : Sig) (t : Nat) (c : Option Ctor) (tys : List Nat) (ws vs : List Val) (rest : Row)
    (hc : ctorFields sig t c = some tys) (hw : hasTys sig ws tys = true) :
    ∀ (ps : List Pat), patTyAll sig ps t = true →
      (specHeads c tys.length rest ps).any (fun r => pmatchAll r (ws ++ vs)) =
        (pmatchAny ps (.con c ws) && pmatchAll rest vs)
  | [], _ => by simp [specHeads, pmatchAny]
  | p :: ps, h => by
    simp only [patTyAll, Bool.and_eq_true] at h
    simp only [specHeads, pmatchAny, List.any_append,
      specHead_match sig t c tys ws vs rest hc hw p h.1,
      specHeads_match sig t c tys ws vs rest hc hw ps h.2]
    cases pmatch p (.con c ws) <;> cases pmatchAny ps (.con c ws) <;> simp
end

mutual
theorem specHead_ty (sig : Sig) (t : Nat) (c : Option Ctor) (tys ts : List Nat) (rest : Row)
    (hc : ctorFields sig t c = some tys) (hr : patTys sig rest ts = true) :
    ∀ (p : Pat), patTy sig p t = true → ∀ r ∈ specHead c tys.length rest p, patTys sig r (tys ++ ts) = true
  | .wild, _ => by
    intro r hr'
    simp only [specHead, List.mem_singleton] at hr'
    subst hr'
    exact patTys_append sig _ _ _ _ (patTys_wilds sig tys) hr
  | .or ps, h => by
    simp only [patTy] at h
    simp only [specHead]
    exact specHeads_ty sig t c tys ts rest hc hr ps h
  | .struct c' rs, h => by
    simp only [patTy] at h
    intro r hr'
    cases hc' : ctorFields sig t c' with
    | none => simp [hc'] at h
    | some tys' =>
      simp only [hc'] at h
      by_cases e : c' = c
      · subst e
        have et : tys' = tys := by simpa [hc'] using hc
        subst et
        have hs : specHead c' tys'.length rest (.struct c' rs) = [rs ++ rest] := by
          cases c' <;> simp [specHead]
        simp only [hs, List.mem_singleton] at hr'
        subst hr'
        exact patTys_append sig _ _ _ _ h hr
      · obtain ⟨a', b', ea, eb⟩ := ctorFields_ne hc' hc e
        subst ea; subst eb
        have : a' ≠ b' := fun h => e (by rw [h])
        simp [specHead, this] at hr'
theorem specHeads_ty (sig : Sig) (t : Nat) (c : Option Ctor) (tys ts : List Nat) (rest : Row)
    (hc : ctorFields sig t c = some tys) (hr : patTys sig rest ts = true) :
    ∀ (ps : List Pat), patTyAll sig ps t = true → ∀ r ∈ specHeads c tys.length rest ps, patTys sig r (tys ++ ts) = true
  | [], _ => by simp [specHeads]
  | p :: ps, h => by
    simp only [patTyAll, Bool.and_eq_true] at h
    intro r hr'
    simp only [specHeads, List.mem_append] at hr'
    rcases hr' with h1 | h1
    · exact specHead_ty sig t c tys ts rest hc hr p h.1 r h1
    · exact specHeads_ty sig t c tys ts rest hc hr ps h.2 r h1
end

/-! ### default matrix -/

mutual
theorem defaultHead_mem (rest : Row) : ∀ (p : Pat) (r : Row), r ∈ defaultHead rest p →
    r = rest ∧ ∀ v, pmatch p v = true
  | .wild, r, h => by simp [defaultHead] at h; simp [h, pmatch]
  | .struct _ _, r, h => by simp [defaultHead] at h
  | .or ps, r, h => by
    simp only [defaultHead] at h
    have := defaultHeads_mem rest ps r h
    exact ⟨this.1, fun v => by simp only [pmatch]; exact this.2 v⟩
theorem defaultHeads_mem (rest : Row) : ∀ (ps : List Pat) (r : Row), r ∈ defaultHeads rest ps →
    r = rest ∧ ∀ v, pmatchAny ps v = true
  | [], r, h => by simp [defaultHeads] at h
  | p :: ps, r, h => by
    simp only [defaultHeads, List.mem_append] at h
    rcases h with h | h
    · have := defaultHead_mem rest p r h
      exact ⟨this.1, fun v => by simp [pmatchAny, this.2 v]⟩
    · have := defaultHeads_mem rest ps r h
      exact ⟨this.1, fun v => by simp [pmatchAny, this.2 v]⟩
end

/-- the head constructor of a value (`none` for opaque values) is not a root constructor of `p` -/
def headFree (v : Val) (l : List (Option Ctor × Nat)) : Prop :=
  match v with
  | .con c _ => ∀ n, (c, n) ∉ l
  | .prim _ => True

mutual
theorem defaultHead_complete (rest : Row) (v : Val) : ∀ (p : Pat), headFree v (headCtors p) →
    pmatch p v = true → rest ∈ defaultHead rest p
  | .wild, _, _ => by simp [defaultHead]
  | .struct c rs, hf, hm => by
    cases v with
    | prim k => simp [pmatch] at hm
    | con c' ws =>
      simp only [pmatch, Bool.and_eq_true, decide_eq_true_eq] at hm
      simp only [headFree, headCtors, List.mem_singleton] at hf
      exact absurd (by rw [hm.1]) (hf rs.length)
  | .or ps, hf, hm => by
    simp only [defaultHead]
    simp only [pmatch] at hm
    simp only [headCtors] at hf
    exact defaultHeads_complete rest v ps hf hm
theorem defaultHeads_complete (rest : Row) (v : Val) : ∀ (ps : List Pat), headFree v (headCtorsL ps) →
    pmatchAny ps v = true → rest ∈ defaultHeads rest ps
  | [], _, hm => by simp [pmatchAny] at hm
  | p :: ps, hf, hm => by
    simp only [pmatchAny, Bool.or_eq_true] at hm
    simp only [defaultHeads, List.mem_append]
    have hf1 : headFree v (headCtors p) := by
      cases v <;> simp_all [headFree, headCtorsL]
    have hf2 : headFree v (headCtorsL ps) := by
      cases v <;> simp_all [headFree, headCtorsL]
    rcases hm with hm | hm
    · exact Or.inl (defaultHead_complete rest v p hf1 hm)
    · exact Or.inr (defaultHeads_complete rest v ps hf2 hm)
end

/-! ### root constructors -/

mutual
theorem headCtors_ty (sig : Sig) (t : Nat) : ∀ (p : Pat), patTy sig p t = true →
    ∀ c n, (c, n) ∈ headCtors p → ∃ tys, ctorFields sig t c = some tys ∧ tys.length = n
  | .wild, _, c, n, h => by simp [headCtors] at h
  | .struct c' rs, hp, c, n, h => by
    simp only [headCtors, List.mem_singleton, Prod.mk.injEq] at h
    simp only [patTy] at hp
    cases hc' : ctorFields sig t c' with
    | none => simp [hc'] at hp
    | some tys =>
      simp only [hc'] at hp
      exact ⟨tys, by rw [h.1, hc'], by rw [h.2, patTys_length sig rs tys hp]⟩
  | .or ps, hp, c, n, h => by
    simp only [patTy] at hp
    simp only [headCtors] at h
    exact headCtorsL_ty sig t ps hp c n h
theorem headCtorsL_ty (sig : Sig) (t : Nat) : ∀ (ps : List Pat), patTyAll sig ps t = true →
    ∀ c n, (c, n) ∈ headCtorsL ps → ∃ tys, ctorFields sig t c = some tys ∧ tys.length = n
  | [], _, c, n, h => by simp [headCtorsL] at h
  | p :: ps, hp, c, n, h => by
    simp only [patTyAll, Bool.and_eq_true] at hp
    simp only [headCtorsL, List.mem_append] at h
    rcases h with h | h
    · exact headCtors_ty sig t p hp.1 c n h
    · exact headCtorsL_ty sig t ps hp.2 c n h
end

theorem mem_foldl_insertRoot : ∀ (l acc : List (Option Ctor × Nat)) (x : Option Ctor × Nat),
    x ∈ l.foldl insertRoot acc → x ∈ acc ∨ x ∈ l
  | [], acc, x, h => Or.inl h
  | y :: l, acc, x, h => by
    simp only [List.foldl_cons] at h
    rcases mem_foldl_insertRoot l _ x h with h | h
    · simp only [insertRoot, List.mem_cons, List.mem_filter] at h
      rcases h with h | h
      · exact Or.inr (by simp [h])
      · exact Or.inl h.1
    · exact Or.inr (by simp [h])

theorem key_foldl_insertRoot : ∀ (l acc : List (Option Ctor × Nat)) (x : Option Ctor × Nat),
    (x ∈ acc ∨ x ∈ l) → ∃ m, (x.1, m) ∈ l.foldl insertRoot acc
  | [], acc, x, h => by
    rcases h with h | h
    · exact ⟨x.2, h⟩
    · simp at h
  | y :: l, acc, x, h => by
    simp only [List.foldl_cons]
    by_cases e : x.1 = y.1
    · obtain ⟨m, hm⟩ := key_foldl_insertRoot l (insertRoot acc y) y (Or.inl (by simp [insertRoot]))
      exact ⟨m, by rw [e]; exact hm⟩
    · apply key_foldl_insertRoot l (insertRoot acc y) x
      rcases h with h | h
      · exact Or.inl (by simp [insertRoot, h, e])
      · simp only [List.mem_cons] at h
        rcases h with h | h
        · exact absurd (by rw [h]) e
        · exact Or.inr h

theorem rootCtors_sub (P : Matrix) (x : Option Ctor × Nat) (h : x ∈ rootCtors P) : x ∈ rawRoots P := by
  rcases mem_foldl_insertRoot (rawRoots P) [] x h with h | h
  · simp at h
  · exact h

theorem rootCtors_key (P : Matrix) (x : Option Ctor × Nat) (h : x ∈ rawRoots P) :
    ∃ m, (x.1, m) ∈ rootCtors P :=
  key_foldl_insertRoot (rawRoots P) [] x (Or.inr h)

theorem rawRoots_ty (sig : Sig) (t : Nat) (ts : List Nat) (P : Matrix)
    (hP : matrixTy sig P (t :: ts) = true) (c : Option Ctor) (n : Nat) (h : (c, n) ∈ rawRoots P) :
    ∃ tys, ctorFields sig t c = some tys ∧ tys.length = n := by
  simp only [rawRoots, List.mem_flatMap] at h
  obtain ⟨r, hr, hc⟩ := h
  simp only [matrixTy, List.all_eq_true] at hP
  have := hP r hr
  cases r with
  | nil => simp [patTys] at this
  | cons p rest =>
    simp only [patTys, Bool.and_eq_true] at this
    exact headCtors_ty sig t p this.1 c n hc

/-! ### fuelled iteration -/

theorem anyO_some {α : Type} (f : α → Option Bool) : ∀ (l : List α) (b : Bool), anyO f l = some b →
    (b = true → ∃ x ∈ l, f x = some true) ∧ (b = false → ∀ x ∈ l, f x = some false)
  | [], b, h => by simp [anyO] at h; subst h; simp
  | x :: xs, b, h => by
    simp only [anyO] at h
    cases hx : f x with
    | none => simp [hx] at h
    | some bx =>
      cases bx with
      | true =>
        simp [hx] at h; subst h
        exact ⟨fun _ => ⟨x, by simp, hx⟩, fun h => by simp at h⟩
      | false =>
        simp only [hx] at h
        have ih := anyO_some f xs b h
        refine ⟨fun hb => ?_, fun hb => ?_⟩
        · obtain ⟨y, hy, hfy⟩ := ih.1 hb
          exact ⟨y, by simp [hy], hfy⟩
        · intro y hy
          simp only [List.mem_cons] at hy
          rcases hy with hy | hy
          · rw [hy]; exact hx
          · exact ih.2 hb y hy

/-! ### inhabitants -/

theorem inhabitants (sig : Sig) (hinh : Inhabited' sig) : ∀ (ts : List Nat), ∃ vs, hasTys sig vs ts = true
  | [] => ⟨[], by simp [hasTys]⟩
  | t :: ts => by
    obtain ⟨v, hv⟩ := hinh t
    obtain ⟨vs, hvs⟩ := inhabitants sig hinh ts
    exact ⟨v :: vs, by simp [hasTys, hv, hvs]⟩

-- no empty or-pattern (`nothing()`) anywhere in the pattern
mutual
def okPat : Pat → Bool
  | .wild => true
  | .struct _ ps => okPats ps
  | .or ps => !ps.isEmpty && okPats ps
def okPats : List Pat → Bool
  | [] => true
  | p :: ps => okPat p && okPats ps
end

theorem okPats_append : ∀ (ps qs : List Pat), okPats (ps ++ qs) = (okPats ps && okPats qs)
  | [], qs => by simp [okPats]
  | p :: ps, qs => by simp [okPats, okPats_append ps qs, Bool.and_assoc]

theorem okPats_wilds : ∀ (n : Nat), okPats (wilds n) = true
  | 0 => by simp [wilds, okPats]
  | n + 1 => by rw [wilds_succ]; simp [okPats, okPat, okPats_wilds n]

theorem okPats_mem : ∀ (ps : List Pat) (p : Pat), okPats ps = true → p ∈ ps → okPat p = true
  | [], _, _, h => by simp at h
  | q :: ps, p, hok, h => by
    simp only [okPats, Bool.and_eq_true] at hok
    simp only [List.mem_cons] at h
    rcases h with h | h
    · rw [h]; exact hok.1
    · exact okPats_mem ps p hok.2 h

mutual
theorem exists_match (sig : Sig) (hinh : Inhabited' sig) : ∀ (p : Pat) (t : Nat), patTy sig p t = true →
    okPat p = true → ∃ v, hasTy sig v t = true ∧ pmatch p v = true
  | .wild, t, _, _ => by
    obtain ⟨v, hv⟩ := hinh t
    exact ⟨v, hv, by simp [pmatch]⟩
  | .struct c ps, t, hp, hok => by
    simp only [patTy] at hp
    simp only [okPat] at hok
    cases hc : ctorFields sig t c with
    | none => simp [hc] at hp
    | some tys =>
      simp only [hc] at hp
      obtain ⟨vs, hvs, hm⟩ := exists_matches sig hinh ps tys hp hok
      exact ⟨.con c vs, by simp [hasTy, hc, hvs], by simp [pmatch, hm]⟩
  | .or ps, t, hp, hok => by
    simp only [patTy] at hp
    simp only [okPat, Bool.and_eq_true] at hok
    cases ps with
    | nil => simp at hok
    | cons p ps =>
      simp only [patTyAll, Bool.and_eq_true] at hp
      simp only [okPats, Bool.and_eq_true] at hok
      obtain ⟨v, hv, hm⟩ := exists_match sig hinh p t hp.1 hok.2.1
      exact ⟨v, hv, by simp [pmatch, pmatchAny, hm]⟩
theorem exists_matches (sig : Sig) (hinh : Inhabited' sig) : ∀ (ps : List Pat) (ts : List Nat), patTys sig ps ts = true →
    okPats ps = true → ∃ vs, hasTys sig vs ts = true ∧ pmatchAll ps vs = true
  | [], [], _, _ => ⟨[], by simp [hasTys], by simp [pmatchAll]⟩
  | p :: ps, t :: ts, hp, hok => by
    simp only [patTys, Bool.and_eq_true] at hp
    simp only [okPats, Bool.and_eq_true] at hok
    obtain ⟨v, hv, hm⟩ := exists_match sig hinh p t hp.1 hok.1
    obtain ⟨vs, hvs, hms⟩ := exists_matches sig hinh ps ts hp.2 hok.2
    exact ⟨v :: vs, by simp [hasTys, hv, hvs], by simp [pmatchAll, hm, hms]⟩
  | [], _ :: _, hp, _ => by simp [patTys] at hp
  | _ :: _, [], hp, _ => by simp [patTys] at hp
end


/-! ### constructors of a type -/

theorem findVariant_mem : ∀ (vs : List (Nat × List Nat)) (name : Nat) (tys : List Nat),
    findVariant vs name = some tys → (name, tys) ∈ vs
  | [], _, _, h => by simp [findVariant] at h
  | (n, tys') :: rest, name, tys, h => by
    simp only [findVariant] at h
    by_cases e : n = name
    · simp only [e, if_true, Option.some.injEq] at h
      simp [e, h]
    · simp only [e, if_false] at h
      exact List.mem_cons_of_mem _ (findVariant_mem rest name tys h)

theorem findVariant_of_mem : ∀ (vs : List (Nat × List Nat)) (name : Nat) (tys : List Nat),
    (name, tys) ∈ vs → ∃ tys', findVariant vs name = some tys'
  | [], _, _, h => by simp at h
  | (n, tys') :: rest, name, tys, h => by
    simp only [findVariant]
    by_cases e : n = name
    · exact ⟨tys', by simp [e]⟩
    · simp only [e, if_false]
      simp only [List.mem_cons, Prod.mk.injEq] at h
      rcases h with h | h
      · exact absurd h.1.symm e
      · exact findVariant_of_mem rest name tys h

theorem ctorFields_some {sig : Sig} {t : Nat} {k : Ctor} {tys : List Nat}
    (h : ctorFields sig t (some k) = some tys) :
    ∃ vs, sig t = .enum k.cls vs ∧ findVariant vs k.name = some tys := by
  unfold ctorFields at h
  cases hs : sig t with
  | prim => simp [hs] at h
  | struct fs => simp [hs] at h
  | enum cls vs =>
    simp only [hs] at h
    by_cases e : k.cls = cls
    · simp only [e, if_true] at h
      exact ⟨vs, by rw [e], h⟩
    · simp [e] at h

theorem ctorFields_none {sig : Sig} {t : Nat} {tys : List Nat}
    (h : ctorFields sig t none = some tys) : ∃ fs, sig t = .struct fs := by
  unfold ctorFields at h
  cases hs : sig t with
  | prim => simp [hs] at h
  | struct fs => exact ⟨fs, rfl⟩
  | enum cls vs => simp [hs] at h

theorem headFree_mono {v : Val} {l l' : List (Option Ctor × Nat)} (hs : ∀ x ∈ l', x ∈ l)
    (h : headFree v l) : headFree v l' := by
  cases v with
  | prim k => simp [headFree]
  | con c ws => exact fun n hm => h n (hs _ hm)

/-! ### `signature_incomplete_names` -/

theorem sigIncomplete_none (sig : Sig) (cx : Cx) (hcx : CxOk sig cx) (t : Nat) (ts : List Nat) (P : Matrix)
    (hP : matrixTy sig P (t :: ts) = true) (h : sigIncomplete cx (rootCtors P) = none)
    (c : Option Ctor) (ws : List Val) (hv : hasTy sig (.con c ws) t = true) :
    ∃ n, (c, n) ∈ rootCtors P := by
  have hty : ∀ c n, (c, n) ∈ rootCtors P → ∃ tys, ctorFields sig t c = some tys ∧ tys.length = n :=
    fun c n hm => rawRoots_ty sig t ts P hP c n (rootCtors_sub P _ hm)
  simp only [hasTy] at hv
  cases hcv : ctorFields sig t c with
  | none => simp [hcv] at hv
  | some tysv =>
  unfold sigIncomplete at h
  split at h
  · rename_i hany
    simp only [List.any_eq_true] at hany
    obtain ⟨r, hr, hn⟩ := hany
    obtain ⟨rc, rn⟩ := r
    cases rc with
    | some k => simp at hn
    | none =>
      obtain ⟨tys, htc, _⟩ := hty none rn hr
      obtain ⟨fs, hfs⟩ := ctorFields_none htc
      cases c with
      | none => exact ⟨rn, hr⟩
      | some k =>
        obtain ⟨vs, hvs, _⟩ := ctorFields_some hcv
        rw [hfs] at hvs; cases hvs
  · rename_i hany
    generalize hroots : rootCtors P = roots at h hany hty
    cases roots with
    | nil => simp at h
    | cons r0 rest =>
      obtain ⟨rc, rn⟩ := r0
      cases rc with
      | none => simp at hany
      | some c0 =>
        simp only at h
        split at h
        · rename_i hemp
          obtain ⟨tys0, htc0, _⟩ := hty (some c0) rn (by simp)
          obtain ⟨vs, hsig, _⟩ := ctorFields_some htc0
          cases c with
          | none =>
            obtain ⟨fs, hfs⟩ := ctorFields_none hcv
            rw [hfs] at hsig; cases hsig
          | some k =>
            obtain ⟨vs', hsig', hfv⟩ := ctorFields_some hcv
            rw [hsig] at hsig'
            injection hsig' with hcls hvs
            subst hvs
            have hmem := findVariant_mem vs k.name tysv hfv
            have hcxm : (k.name, tysv.length) ∈ cx c0.cls := by
              rw [hcx t c0.cls vs hsig]
              exact List.mem_map.mpr ⟨(k.name, tysv), hmem, rfl⟩
            simp only [List.isEmpty_iff, List.map_eq_nil_iff, List.filter_eq_nil_iff] at hemp
            have := hemp _ hcxm
            simp only [Bool.not_eq_true, Bool.not_eq_false', List.contains_iff_mem,
              List.mem_filterMap] at this
            obtain ⟨r, hr, hrn⟩ := this
            obtain ⟨rc', rn'⟩ := r
            cases rc' with
            | none => simp at hrn
            | some k' =>
              simp only [Option.map_some, Option.some.injEq] at hrn
              obtain ⟨tys', htc', _⟩ := hty (some k') rn' hr
              obtain ⟨vs'', hsig'', _⟩ := ctorFields_some htc'
              rw [hsig] at hsig''
              injection hsig'' with hcls' _
              have : k' = k := by
                cases k; cases k'; simp_all
              exact ⟨rn', by rw [← this]; exact hr⟩
        · simp at h

theorem sigIncomplete_some (sig : Sig) (cx : Cx) (hcx : CxOk sig cx) (hinh : Inhabited' sig)
    (t : Nat) (ts : List Nat) (P : Matrix)
    (hP : matrixTy sig P (t :: ts) = true) (inc : List (Ctor × Nat))
    (h : sigIncomplete cx (rootCtors P) = some inc) :
    ∃ v, hasTy sig v t = true ∧ headFree v (rawRoots P) := by
  have hty : ∀ c n, (c, n) ∈ rootCtors P → ∃ tys, ctorFields sig t c = some tys ∧ tys.length = n :=
    fun c n hm => rawRoots_ty sig t ts P hP c n (rootCtors_sub P _ hm)
  have hkey : ∀ c n, (c, n) ∈ rawRoots P → ∃ m, (c, m) ∈ rootCtors P :=
    fun c n hm => rootCtors_key P (c, n) hm
  unfold sigIncomplete at h
  split at h
  · simp at h
  · rename_i hany
    generalize hroots : rootCtors P = roots at h hany hty hkey
    cases roots with
    | nil =>
      obtain ⟨v, hv⟩ := hinh t
      refine ⟨v, hv, ?_⟩
      cases v with
      | prim k => simp [headFree]
      | con c ws =>
        intro n hm
        obtain ⟨m, hm'⟩ := hkey c n hm
        simp at hm'
    | cons r0 rest =>
      obtain ⟨rc, rn⟩ := r0
      cases rc with
      | none => simp at hany
      | some c0 =>
        simp only at h
        split at h
        · simp at h
        · rename_i hemp
          obtain ⟨tys0, htc0, _⟩ := hty (some c0) rn (by simp)
          obtain ⟨vs, hsig, _⟩ := ctorFields_some htc0
          have hex : ∃ nv, nv ∈ cx c0.cls ∧ ¬ ((List.filterMap (fun r => Option.map (fun x => x.name) r.fst)
              ((some c0, rn) :: rest)).contains nv.fst = true) := by
            apply Classical.byContradiction
            intro hno
            apply hemp
            simp only [List.isEmpty_iff, List.map_eq_nil_iff, List.filter_eq_nil_iff]
            intro a ha hc
            apply hno
            refine ⟨a, ha, ?_⟩
            intro hc'
            rw [hc'] at hc
            simp at hc
          obtain ⟨nv, hnv, hnot⟩ := hex
          rw [hcx t c0.cls vs hsig] at hnv
          obtain ⟨vt, hvt, evt⟩ := List.mem_map.mp hnv
          obtain ⟨vname, vtys⟩ := vt
          obtain ⟨tys', hf⟩ := findVariant_of_mem vs vname vtys hvt
          obtain ⟨ws, hws⟩ := inhabitants sig hinh tys'
          refine ⟨.con (some ⟨c0.cls, vname⟩) ws, ?_, ?_⟩
          · simp [hasTy, ctorFields, hsig, hf, hws]
          · intro n hm
            obtain ⟨m, hm'⟩ := hkey _ n hm
            apply hnot
            simp only [List.contains_iff_mem, List.mem_filterMap]
            refine ⟨(some ⟨c0.cls, vname⟩, m), hm', ?_⟩
            simp [← evt]

/-! ### matrix-level lemmas -/

theorem row_nonempty (sig : Sig) (t : Nat) (ts : List Nat) (P : Matrix)
    (hP : matrixTy sig P (t :: ts) = true) (r : Row) (hr : r ∈ P) :
    ∃ p rest, r = p :: rest ∧ patTy sig p t = true ∧ patTys sig rest ts = true := by
  simp only [matrixTy, List.all_eq_true] at hP
  have := hP r hr
  cases r with
  | nil => simp [patTys] at this
  | cons p rest =>
    simp only [patTys, Bool.and_eq_true] at this
    exact ⟨p, rest, rfl, this.1, this.2⟩

theorem spec_matrix (sig : Sig) (t : Nat) (ts : List Nat) (P : Matrix)
    (hP : matrixTy sig P (t :: ts) = true) (c : Option Ctor) (tys : List Nat) (ws vs : List Val)
    (hc : ctorFields sig t c = some tys) (hw : hasTys sig ws tys = true) :
    (∀ r ∈ specialize P c tys.length, pmatchAll r (ws ++ vs) = false) ↔
      (∀ r ∈ P, pmatchAll r (.con c ws :: vs) = false) := by
  constructor
  · intro h r hr
    obtain ⟨p, rest, e, hp, _⟩ := row_nonempty sig t ts P hP r hr
    subst e
    have hm := specHead_match sig t c tys ws vs rest hc hw p hp
    have : (specHead c tys.length rest p).any (fun r => pmatchAll r (ws ++ vs)) = false := by
      rw [List.any_eq_false]
      intro r' hr'
      have := h r' (by
        simp only [specialize, List.mem_flatMap]
        exact ⟨p :: rest, hr, by simpa [specRow] using hr'⟩)
      simp [this]
    rw [this] at hm
    simp only [pmatchAll]
    exact hm.symm
  · intro h r' hr'
    simp only [specialize, List.mem_flatMap] at hr'
    obtain ⟨r, hr, hr'⟩ := hr'
    obtain ⟨p, rest, e, hp, _⟩ := row_nonempty sig t ts P hP r hr
    subst e
    have hm := specHead_match sig t c tys ws vs rest hc hw p hp
    have h2 := h (p :: rest) hr
    simp only [pmatchAll] at h2
    rw [h2, List.any_eq_false] at hm
    simp only [specRow] at hr'
    simpa using hm r' hr'

theorem spec_matrix_ty (sig : Sig) (t : Nat) (ts : List Nat) (P : Matrix)
    (hP : matrixTy sig P (t :: ts) = true) (c : Option Ctor) (tys : List Nat)
    (hc : ctorFields sig t c = some tys) :
    matrixTy sig (specialize P c tys.length) (tys ++ ts) = true := by
  simp only [matrixTy, List.all_eq_true]
  intro r' hr'
  simp only [specialize, List.mem_flatMap] at hr'
  obtain ⟨r, hr, hr'⟩ := hr'
  obtain ⟨p, rest, e, hp, hrest⟩ := row_nonempty sig t ts P hP r hr
  subst e
  exact specHead_ty sig t c tys ts rest hc hrest p hp r' hr'

theorem default_matrix_ty (sig : Sig) (t : Nat) (ts : List Nat) (P : Matrix)
    (hP : matrixTy sig P (t :: ts) = true) : matrixTy sig (defaultMatrix P) ts = true := by
  simp only [matrixTy, List.all_eq_true]
  intro r' hr'
  simp only [defaultMatrix, List.mem_flatMap] at hr'
  obtain ⟨r, hr, hr'⟩ := hr'
  obtain ⟨p, rest, e, hp, hrest⟩ := row_nonempty sig t ts P hP r hr
  subst e
  rw [(defaultHead_mem rest p r' hr').1]
  exact hrest

theorem default_unmatched (P : Matrix) (v : Val) (vs : List Val)
    (h : ∀ r ∈ P, pmatchAll r (v :: vs) = false) : ∀ r' ∈ defaultMatrix P, pmatchAll r' vs = false := by
  intro r' hr'
  simp only [defaultMatrix, List.mem_flatMap] at hr'
  obtain ⟨r, hr, hr'⟩ := hr'
  cases r with
  | nil => simp [defaultRow] at hr'
  | cons p rest =>
    obtain ⟨e, hall⟩ := defaultHead_mem rest p r' hr'
    have := h _ hr
    simp only [pmatchAll, hall v, Bool.true_and] at this
    rw [e]; exact this

theorem default_unmatched_conv (P : Matrix) (v : Val) (vs : List Val) (hf : headFree v (rawRoots P))
    (h : ∀ r' ∈ defaultMatrix P, pmatchAll r' vs = false) : ∀ r ∈ P, pmatchAll r (v :: vs) = false := by
  intro r hr
  cases r with
  | nil => simp [pmatchAll]
  | cons p rest =>
    cases hm : pmatchAll (p :: rest) (v :: vs) with
    | false => rfl
    | true =>
      simp only [pmatchAll, Bool.and_eq_true] at hm
      have hf' : headFree v (headCtors p) := headFree_mono (by
        intro x hx
        simp only [rawRoots, List.mem_flatMap]
        exact ⟨p :: rest, hr, hx⟩) hf
      have hmem := defaultHead_complete rest v p hf' hm.1
      have := h rest (by
        simp only [defaultMatrix, List.mem_flatMap]
        exact ⟨p :: rest, hr, hmem⟩)
      rw [hm.2] at this
      exact absurd this (by simp)


/-! ### helpers for the counterexample search -/

theorem firstO_none {α β : Type} (f : α → Option (Option β)) : ∀ (l : List α),
    firstO f l = some none → ∀ x ∈ l, f x = some none
  | [], _, x, hx => by simp at hx
  | y :: l, h, x, hx => by
    simp only [firstO] at h
    cases hy : f y with
    | none => simp [hy] at h
    | some r =>
      cases r with
      | some d => simp [hy] at h
      | none =>
        simp only [hy] at h
        simp only [List.mem_cons] at hx
        rcases hx with hx | hx
        · rw [hx]; exact hy
        · exact firstO_none f l h x hx

theorem mem_insertByKey (kv x : Option Ctor × Nat) : ∀ (l : List (Option Ctor × Nat)),
    x ∈ insertByKey kv l ↔ x = kv ∨ x ∈ l
  | [] => by simp [insertByKey]
  | y :: l => by
    simp only [insertByKey]
    split
    · simp
    · simp only [List.mem_cons, mem_insertByKey kv x l]
      constructor
      · rintro (h | h | h)
        · exact Or.inr (Or.inl h)
        · exact Or.inl h
        · exact Or.inr (Or.inr h)
      · rintro (h | h | h)
        · exact Or.inr (Or.inl h)
        · exact Or.inl h
        · exact Or.inr (Or.inr h)

theorem mem_sortByKey (x : Option Ctor × Nat) : ∀ (l : List (Option Ctor × Nat)), x ∈ sortByKey l ↔ x ∈ l
  | [] => by simp [sortByKey]
  | y :: l => by
    have := mem_sortByKey x l
    simp only [sortByKey, List.foldr_cons] at this ⊢
    rw [mem_insertByKey, this]
    simp


theorem firstO_some {α β : Type} (f : α → Option (Option β)) : ∀ (l : List α) (d : β),
    firstO f l = some (some d) → ∃ x ∈ l, f x = some (some d)
  | [], d, h => by simp [firstO] at h
  | y :: l, d, h => by
    simp only [firstO] at h
    cases hy : f y with
    | none => simp [hy] at h
    | some r =>
      cases r with
      | some d' =>
        simp only [hy, Option.some.injEq] at h
        exact ⟨y, by simp, by rw [hy, h]⟩
      | none =>
        simp only [hy] at h
        obtain ⟨x, hx, hfx⟩ := firstO_some f l d h
        exact ⟨x, by simp [hx], hfx⟩

theorem minCtor_mem : ∀ (l : List (Ctor × Nat)) (x : Ctor × Nat), minCtor l = some x → x ∈ l
  | [], x, h => by simp [minCtor] at h
  | y :: l, x, h => by
    simp only [minCtor] at h
    cases hm : minCtor l with
    | none => simp [hm] at h; simp [h]
    | some z =>
      simp only [hm] at h
      split at h
      · simp at h; simp [h]
      · simp at h; exact List.mem_cons_of_mem _ (minCtor_mem l x (by rw [hm, h]))

theorem minCtor_none : ∀ (l : List (Ctor × Nat)), minCtor l = none → l = []
  | [], _ => rfl
  | y :: l, h => by
    simp only [minCtor] at h
    cases hm : minCtor l with
    | none => simp [hm] at h
    | some z => simp only [hm] at h; split at h <;> simp at h

theorem patTys_take_drop : ∀ (sig : Sig) (tys ts : List Nat) (v : List Pat), patTys sig v (tys ++ ts) = true →
    patTys sig (v.take tys.length) tys = true ∧ patTys sig (v.drop tys.length) ts = true
  | _, [], ts, v, h => by simpa [patTys] using h
  | sig, t :: tys, ts, [], h => by simp [patTys] at h
  | sig, t :: tys, ts, p :: v, h => by
    simp only [List.cons_append, patTys, Bool.and_eq_true] at h
    have := patTys_take_drop sig tys ts v h.2
    simp [patTys, h.1, this.1, this.2]

theorem okPats_take_drop (n : Nat) (v : List Pat) (h : okPats v = true) :
    okPats (v.take n) = true ∧ okPats (v.drop n) = true := by
  have := okPats_append (v.take n) (v.drop n)
  rw [List.take_append_drop, h] at this
  simpa using this.symm


theorem sigIncomplete_some_cases (cx : Cx) (roots : List (Option Ctor × Nat)) (inc : List (Ctor × Nat))
    (h : sigIncomplete cx roots = some inc) :
    (roots = [] ∧ inc = []) ∨
    (∃ c0 rn rest, roots = (some c0, rn) :: rest ∧ inc ≠ [] ∧
      ∀ x ∈ inc, x.1.cls = c0.cls ∧ (x.1.name, x.2) ∈ cx c0.cls ∧
        ∀ k m, (some k, m) ∈ roots → k.name ≠ x.1.name) := by
  unfold sigIncomplete at h
  split at h
  · simp at h
  · cases roots with
    | nil => simp at h; exact Or.inl ⟨rfl, h⟩
    | cons r0 rest =>
      obtain ⟨rc, rn⟩ := r0
      cases rc with
      | none => simp at h
      | some c0 =>
        simp only at h
        split at h
        · simp at h
        · rename_i hemp
          simp only [Option.some.injEq] at h
          refine Or.inr ⟨c0, rn, rest, rfl, ?_, ?_⟩
          · intro he; rw [← h] at he; rw [he] at hemp; simp at hemp
          · intro x hx
            rw [← h] at hx
            obtain ⟨nv, hnv, rfl⟩ := List.mem_map.mp hx
            simp only [List.mem_filter, Bool.not_eq_true'] at hnv
            refine ⟨rfl, hnv.1, ?_⟩
            intro k m hkm hname
            have hc : (List.filterMap (fun r => Option.map (fun x => x.name) r.fst)
                ((some c0, rn) :: rest)).contains nv.fst = true := by
              simp only [List.contains_iff_mem, List.mem_filterMap]
              exact ⟨(some k, m), hkm, by simpa using hname⟩
            rw [hnv.2] at hc; cases hc


/-- variant names of an enum are pairwise different -/
def SigNodup (sig : Sig) : Prop := ∀ t cls vs, sig t = .enum cls vs → (vs.map (·.1)).Nodup

theorem findVariant_nodup : ∀ (vs : List (Nat × List Nat)) (name : Nat) (tys : List Nat),
    (vs.map (·.1)).Nodup → (name, tys) ∈ vs → findVariant vs name = some tys
  | [], _, _, _, h => by simp at h
  | (n, tys') :: rest, name, tys, hnd, h => by
    simp only [List.map_cons, List.nodup_cons, List.mem_map, not_exists, not_and] at hnd
    simp only [findVariant]
    simp only [List.mem_cons, Prod.mk.injEq] at h
    by_cases e : n = name
    · simp only [e, if_true, Option.some.injEq]
      rcases h with h | h
      · exact h.2.symm
      · exact absurd (by rw [e]) (hnd.1 (name, tys) h)
    · simp only [e, if_false]
      rcases h with h | h
      · exact absurd h.1.symm e
      · exact findVariant_nodup rest name tys hnd.2 h

/-! ### rank certificate ⇒ every type is inhabited -/

def RankOk (sig : Sig) (rank : Nat → Nat) : Prop := ∀ t, rankOkAt sig rank t = true

theorem inhabitants_of (sig : Sig) : ∀ (tys : List Nat), (∀ ty ∈ tys, ∃ v, hasTy sig v ty = true) →
    ∃ vs, hasTys sig vs tys = true
  | [], _ => ⟨[], by simp [hasTys]⟩
  | t :: ts, h => by
    obtain ⟨v, hv⟩ := h t (by simp)
    obtain ⟨vs, hvs⟩ := inhabitants_of sig ts (fun ty hty => h ty (by simp [hty]))
    exact ⟨v :: vs, by simp [hasTys, hv, hvs]⟩

theorem inhabited_of_rank (sig : Sig) (rank : Nat → Nat) (h : RankOk sig rank) : Inhabited' sig := by
  have key : ∀ k t, rank t < k → ∃ v, hasTy sig v t = true := by
    intro k
    induction k with
    | zero => intro t ht; omega
    | succ k ih =>
      intro t ht
      have hr := h t
      unfold rankOkAt at hr
      cases hs : sig t with
      | prim => exact ⟨.prim 0, by simp [hasTy, hs]⟩
      | struct fs =>
        simp only [hs, List.all_eq_true, decide_eq_true_eq] at hr
        obtain ⟨vs, hvs⟩ := inhabitants_of sig (fs.map (·.2)) (by
          intro ty hty
          obtain ⟨f, hf, rfl⟩ := List.mem_map.mp hty
          exact ih _ (by have := hr f hf; omega))
        exact ⟨.con none vs, by simp [hasTy, ctorFields, hs, hvs]⟩
      | enum cls vs =>
        simp only [hs, List.any_eq_true] at hr
        obtain ⟨v, _, hv⟩ := hr
        cases hf : findVariant vs v.1 with
        | none => simp [hf] at hv
        | some tys =>
          simp only [hf, List.all_eq_true, decide_eq_true_eq] at hv
          obtain ⟨ws, hws⟩ := inhabitants_of sig tys (fun ty hty => ih _ (by have := hv ty hty; omega))
          exact ⟨.con (some ⟨cls, v.1⟩) ws, by simp [hasTy, ctorFields, hs, hf, hws]⟩
  exact fun t => key (rank t + 1) t (Nat.lt_succ_self _)

theorem inhabited_of_rankCheck (defs : List Def) (rank : List Nat) (h : rankCheck defs rank = true) :
    Inhabited' (sigOfTable defs) := by
  apply inhabited_of_rank _ (fun t => rank.getD t 0)
  intro t
  by_cases ht : t < defs.length
  · simp only [rankCheck, List.all_eq_true, List.mem_range] at h
    exact h t ht
  · have : sigOfTable defs t = .prim := by
      simp [sigOfTable, List.getD, List.getElem?_eq_none (Nat.le_of_not_lt ht)]
    simp [rankOkAt, this]

end SamVerif.Useful
