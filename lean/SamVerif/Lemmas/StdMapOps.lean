import SamVerif.Lemmas.StdMap
/-! Specifications of the rebuilding operations of `Model/StdMap.lean`: `addMin/MaxBinding`,
`addMin/MaxNode`, `join`, `concat`, `internalMerge`, `remove`, `split`, `filter`, `partition`. -/
namespace SamVerif.StdMap
set_option linter.unusedSectionVars false
variable {K V : Type} [DecidableEq K] [DecidableEq V] [LE K] [LT K] [Std.IsLinearOrder K] [Std.LawfulOrderLT K] [DecidableLT K]

theorem ite_ge_eq_max (a b : Int) : (if a ≥ b then a else b) = Max.max a b := by
  split <;> oo

/-- `balanced_spec` with `max` (oo-friendly). -/
theorem balanced_spec' (l r : Tree K V) (k : K) (v : V) (hl : Bal l) (hr : Bal r)
    (h1 : height l ≤ height r + 3) (h2 : height r ≤ height l + 3) :
    ∃ t, balanced l k v r = some t ∧ Bal t ∧ abs t = abs l ++ (k, v) :: abs r ∧
      height t ≤ Max.max (height l) (height r) + 1 ∧ Max.max (height l) (height r) ≤ height t ∧
      (height l ≤ height r + 2 → height r ≤ height l + 2 → height t = Max.max (height l) (height r) + 1) := by
  obtain ⟨t, e, b, a, g1, g2, g3⟩ := balanced_spec l r k v hl hr h1 h2
  rw [ite_ge_eq_max] at g1 g2 g3
  exact ⟨t, e, b, a, g1, g2, fun x y => g3 ⟨x, y⟩⟩

theorem bal_node {h : Int} {k : K} {v : V} {l r : Tree K V} (hb : Bal (.node h k v l r)) :
    Bal l ∧ Bal r ∧ h = Max.max (height l) (height r) + 1 ∧ height l ≤ height r + 2 ∧
      height r ≤ height l + 2 ∧ 0 ≤ height l ∧ 0 ≤ height r := by
  simp only [Bal] at hb
  obtain ⟨bl, br, hh, d1, d2, _⟩ := hb
  rw [show (if height l ≥ height r then height l + 1 else height r + 1) =
    (if height l ≥ height r then height l else height r) + 1 by split <;> rfl, ite_ge_eq_max] at hh
  exact ⟨bl, br, hh, d1, d2, height_nonneg l bl, height_nonneg r br⟩

theorem addMinBinding_spec (k : K) (v : V) (t : Tree K V) (hb : Bal t) :
    ∃ t', addMinBinding k v t = some t' ∧ Bal t' ∧ abs t' = (k, v) :: abs t ∧
      height t ≤ height t' ∧ height t' ≤ height t + 1 := by
  induction t with
  | empty => exact ⟨.leaf k v, rfl, by simp [Bal], by simp [abs], by simp⟩
  | leaf k' v' => exact ⟨.node 2 k v .empty (.leaf k' v'), rfl, by simp [Bal], by simp [abs], by simp⟩
  | node h k' v' l r ihl _ =>
    obtain ⟨bl, br, hh, d1, d2, nl, nr⟩ := bal_node hb
    obtain ⟨l', e, b1, a1, g1, g2⟩ := ihl bl
    obtain ⟨t', e2, b2, a2, g3, g4, g5⟩ := balanced_spec' l' r k' v' b1 br (by oo) (by oo)
    refine ⟨t', by simp [addMinBinding, e, e2], b2, by simp [a2, a1, abs], ?_, ?_⟩ <;>
      (try simp only [height_node]) <;> oo

theorem addMaxBinding_spec (k : K) (v : V) (t : Tree K V) (hb : Bal t) :
    ∃ t', addMaxBinding k v t = some t' ∧ Bal t' ∧ abs t' = abs t ++ [(k, v)] ∧
      height t ≤ height t' ∧ height t' ≤ height t + 1 := by
  induction t with
  | empty => exact ⟨.leaf k v, rfl, by simp [Bal], by simp [abs], by simp⟩
  | leaf k' v' => exact ⟨.node 2 k v (.leaf k' v') .empty, rfl, by simp [Bal], by simp [abs], by simp⟩
  | node h k' v' l r _ ihr =>
    obtain ⟨bl, br, hh, d1, d2, nl, nr⟩ := bal_node hb
    obtain ⟨r', e, b1, a1, g1, g2⟩ := ihr br
    obtain ⟨t', e2, b2, a2, g3, g4, g5⟩ := balanced_spec' l r' k' v' bl b1 (by oo) (by oo)
    refine ⟨t', by simp [addMaxBinding, e, e2], b2, by simp [a2, a1, abs], ?_, ?_⟩ <;>
      (try simp only [height_node]) <;> oo

theorem addMinNode_spec (a : K) (b : V) (t : Tree K V) (hb : Bal t) :
    ∃ t', addMinNode (.leaf a b) t = some t' ∧ Bal t' ∧ abs t' = (a, b) :: abs t ∧
      height t ≤ height t' ∧ height t' ≤ height t + 1 ∧ 1 ≤ height t' := by
  induction t with
  | empty => exact ⟨.leaf a b, rfl, by simp [Bal], by simp [abs], by simp⟩
  | leaf k' v' => exact ⟨.node 2 k' v' (.leaf a b) .empty, rfl, by simp [Bal], by simp [abs], by simp⟩
  | node h k' v' l r ihl _ =>
    obtain ⟨bl, br, hh, d1, d2, nl, nr⟩ := bal_node hb
    obtain ⟨l', e, b1, a1, g1, g2, g6⟩ := ihl bl
    obtain ⟨t', e2, b2, a2, g3, g4, g5⟩ := balanced_spec' l' r k' v' b1 br (by oo) (by oo)
    refine ⟨t', by simp [addMinNode, e, e2], b2, by simp [a2, a1, abs], ?_, ?_, ?_⟩ <;>
      (try simp only [height_node]) <;> oo

theorem addMaxNode_spec (a : K) (b : V) (t : Tree K V) (hb : Bal t) :
    ∃ t', addMaxNode (.leaf a b) t = some t' ∧ Bal t' ∧ abs t' = abs t ++ [(a, b)] ∧
      height t ≤ height t' ∧ height t' ≤ height t + 1 ∧ 1 ≤ height t' := by
  induction t with
  | empty => exact ⟨.leaf a b, rfl, by simp [Bal], by simp [abs], by simp⟩
  | leaf k' v' => exact ⟨.node 2 k' v' .empty (.leaf a b), rfl, by simp [Bal], by simp [abs], by simp⟩
  | node h k' v' l r _ ihr =>
    obtain ⟨bl, br, hh, d1, d2, nl, nr⟩ := bal_node hb
    obtain ⟨r', e, b1, a1, g1, g2, g6⟩ := ihr br
    obtain ⟨t', e2, b2, a2, g3, g4, g5⟩ := balanced_spec' l r' k' v' bl b1 (by oo) (by oo)
    refine ⟨t', by simp [addMaxNode, e, e2], b2, by simp [a2, a1, abs], ?_, ?_, ?_⟩ <;>
      (try simp only [height_node]) <;> oo

theorem ite_succ_max (a b : Int) : (if a ≥ b then a + 1 else b + 1) = Max.max a b + 1 := by
  split <;> oo

theorem bal_leaf (a : K) (b : V) : Bal (Tree.leaf a b) := by simp [Bal]

theorem join_spec (l r : Tree K V) (k : K) (v : V) (hl : Bal l) (hr : Bal r) :
    ∃ t, join l k v r = some t ∧ Bal t ∧ abs t = abs l ++ (k, v) :: abs r ∧
      Max.max (height l) (height r) ≤ height t ∧ height t ≤ Max.max (height l) (height r) + 1 := by
  fun_induction join l k v r
  case case1 k v r =>
    obtain ⟨t, e, b, a, g1, g2⟩ := addMinBinding_spec k v r hr
    have := height_nonneg r hr
    exact ⟨t, e, b, by simp [a, abs], by simp only [height_empty]; oo, by simp only [height_empty]; oo⟩
  case case2 a b k v =>
    obtain ⟨t, e, b, a, g1, g2⟩ := addMaxBinding_spec k v (.leaf a b) hl
    exact ⟨t, e, b, by simp [a, abs], by simp only [height_empty, height_leaf] at *; oo,
      by simp only [height_empty, height_leaf] at *; oo⟩
  case case3 lh lk lv ll lr k v =>
    obtain ⟨t, e, b, a, g1, g2⟩ := addMaxBinding_spec k v _ hl
    obtain ⟨_, _, hh, _, _, _, _⟩ := bal_node hl
    exact ⟨t, e, b, by simp [a, abs], by simp only [height_empty, height_node] at *; oo,
      by simp only [height_empty, height_node] at *; oo⟩
  case case4 a b k v c d =>
    exact ⟨_, rfl, by simp [Bal], by simp [abs], by simp, by simp⟩
  case case5 a b k v rh rk rv rl rr h x ih =>
    obtain ⟨brl, brr, hh, d1, d2, n1, n2⟩ := bal_node hr
    obtain ⟨t, e, _⟩ := ih hl brl
    rw [e] at x; cases x
  case case6 a b k v rh rk rv rl rr h t' x ih =>
    obtain ⟨brl, brr, hh, d1, d2, n1, n2⟩ := bal_node hr
    obtain ⟨t, e, b1, a1, g1, g2⟩ := ih hl brl
    rw [e] at x; cases x
    simp only [height_leaf] at g1 g2
    obtain ⟨t2, e2, b2, a2, g3, g4, g5⟩ := balanced_spec' t' rr rk rv b1 brr (by oo) (by oo)
    refine ⟨t2, e2, b2, by simp [a2, a1, abs], ?_, ?_⟩ <;> simp only [height_leaf, height_node] <;> oo
  case case7 a b k v rh rk rv rl rr h =>
    obtain ⟨brl, brr, hh, d1, d2, n1, n2⟩ := bal_node hr
    obtain ⟨b1, a1, e1⟩ := create_spec (.leaf a b) (.node rh rk rv rl rr) k v hl hr
      (by simp only [height_leaf, height_node]; oo) (by simp only [height_leaf, height_node]; oo)
    rw [ite_succ_max] at e1
    refine ⟨_, rfl, b1, a1, ?_, ?_⟩ <;> rw [e1] <;> oo
  case case8 lh lk lv ll lr k v c d h x ih =>
    obtain ⟨bll, blr, hh, d1, d2, n1, n2⟩ := bal_node hl
    obtain ⟨t, e, _⟩ := ih blr hr
    rw [e] at x; cases x
  case case9 lh lk lv ll lr k v c d h t' x ih =>
    obtain ⟨bll, blr, hh, d1, d2, n1, n2⟩ := bal_node hl
    obtain ⟨t, e, b1, a1, g1, g2⟩ := ih blr hr
    rw [e] at x; cases x
    simp only [height_leaf] at g1 g2
    obtain ⟨t2, e2, b2, a2, g3, g4, g5⟩ := balanced_spec' ll t' lk lv bll b1 (by oo) (by oo)
    refine ⟨t2, e2, b2, by simp [a2, a1, abs], ?_, ?_⟩ <;> simp only [height_leaf, height_node] <;> oo
  case case10 lh lk lv ll lr k v c d h =>
    obtain ⟨bll, blr, hh, d1, d2, n1, n2⟩ := bal_node hl
    obtain ⟨b1, a1, e1⟩ := create_spec (.node lh lk lv ll lr) (.leaf c d) k v hl hr
      (by simp only [height_leaf, height_node]; oo) (by simp only [height_leaf, height_node]; oo)
    rw [ite_succ_max] at e1
    refine ⟨_, rfl, b1, a1, ?_, ?_⟩ <;> rw [e1] <;> oo
  case case11 lh lk lv ll lr k v rh rk rv rl rr h x ih =>
    obtain ⟨bll, blr, hh, d1, d2, n1, n2⟩ := bal_node hl
    obtain ⟨t, e, _⟩ := ih blr hr
    rw [e] at x; cases x
  case case12 lh lk lv ll lr k v rh rk rv rl rr h t' x ih =>
    obtain ⟨bll, blr, hh, d1, d2, n1, n2⟩ := bal_node hl
    obtain ⟨brl, brr, hh', d1', d2', n1', n2'⟩ := bal_node hr
    obtain ⟨t, e, b1, a1, g1, g2⟩ := ih blr hr
    rw [e] at x; cases x
    simp only [height_node] at g1 g2
    obtain ⟨t2, e2, b2, a2, g3, g4, g5⟩ := balanced_spec' ll t' lk lv bll b1 (by oo) (by oo)
    refine ⟨t2, e2, b2, by simp [a2, a1, abs], ?_, ?_⟩ <;> simp only [height_node] <;> oo
  case case13 lh lk lv ll lr k v rh rk rv rl rr h1 h2 x ih =>
    obtain ⟨brl, brr, hh', d1', d2', n1', n2'⟩ := bal_node hr
    obtain ⟨t, e, _⟩ := ih hl brl
    rw [e] at x; cases x
  case case14 lh lk lv ll lr k v rh rk rv rl rr h1 h2 t' x ih =>
    obtain ⟨bll, blr, hh, d1, d2, n1, n2⟩ := bal_node hl
    obtain ⟨brl, brr, hh', d1', d2', n1', n2'⟩ := bal_node hr
    obtain ⟨t, e, b1, a1, g1, g2⟩ := ih hl brl
    rw [e] at x; cases x
    simp only [height_node] at g1 g2
    obtain ⟨t2, e2, b2, a2, g3, g4, g5⟩ := balanced_spec' t' rr rk rv b1 brr (by oo) (by oo)
    refine ⟨t2, e2, b2, by simp [a2, a1, abs], ?_, ?_⟩ <;> simp only [height_node] <;> oo
  case case15 lh lk lv ll lr k v rh rk rv rl rr h1 h2 =>
    obtain ⟨b1, a1, e1⟩ := create_spec (.node lh lk lv ll lr) (.node rh rk rv rl rr) k v hl hr
      (by simp only [height_node]; oo) (by simp only [height_node]; oo)
    rw [ite_succ_max] at e1
    refine ⟨_, rfl, b1, a1, ?_, ?_⟩ <;> rw [e1] <;> oo
theorem abs_node_ne_nil (h : Int) (k : K) (v : V) (l r : Tree K V) : abs (.node h k v l r) ≠ [] := by
  simp [abs]

theorem minBindingUnsafe_spec (l : Tree K V) : ∀ (h : Int) (k : K) (v : V) (r : Tree K V),
    minBindingUnsafe (.node h k v l r) = (abs (.node h k v l r)).head? := by
  induction l with
  | empty => intro h k v r; simp [minBindingUnsafe, abs]
  | leaf a b => intro h k v r; simp [minBindingUnsafe, abs]
  | node h' k' v' l' r' ihl _ =>
    intro h k v r
    rw [minBindingUnsafe, ihl h' k' v' r']
    simp [abs, List.head?_append]

theorem removeMinUnsafe_spec (l : Tree K V) : ∀ (h : Int) (k : K) (v : V) (r : Tree K V),
    Bal (.node h k v l r) →
    ∃ t', removeMinUnsafe (.node h k v l r) = some t' ∧ Bal t' ∧
      abs t' = (abs (.node h k v l r)).tail ∧ h - 1 ≤ height t' ∧ height t' ≤ h := by
  induction l with
  | empty =>
    intro h k v r hb
    obtain ⟨bl, br, hh, d1, d2, nl, nr⟩ := bal_node hb
    simp only [height_empty] at *
    exact ⟨r, by simp [removeMinUnsafe], br, by simp [abs], by oo, by oo⟩
  | leaf a b =>
    intro h k v r hb
    obtain ⟨bl, br, hh, d1, d2, nl, nr⟩ := bal_node hb
    simp only [height_leaf] at *
    obtain ⟨t', e2, b2, a2, g3, g4, g5⟩ := balanced_spec' .empty r k v (by simp [Bal]) br
      (by simp only [height_empty]; oo) (by simp only [height_empty]; oo)
    simp only [height_empty] at *
    exact ⟨t', by simp [removeMinUnsafe, e2], b2, by simp [a2, abs], by oo, by oo⟩
  | node h' k' v' l' r' ihl _ =>
    intro h k v r hb
    obtain ⟨bl, br, hh, d1, d2, nl, nr⟩ := bal_node hb
    obtain ⟨l2, e, b1, a1, g1, g2⟩ := ihl h' k' v' r' bl
    simp only [height_node] at *
    obtain ⟨t', e2, b2, a2, g3, g4, g5⟩ := balanced_spec' l2 r k v b1 br (by oo) (by oo)
    refine ⟨t', by rw [removeMinUnsafe]; simp only [e]; exact e2, b2, ?_, by oo, by oo⟩
    rw [a2, a1]
    have := abs_node_ne_nil h' k' v' l' r'
    rw [show abs (Tree.node h k v (Tree.node h' k' v' l' r') r) =
      abs (Tree.node h' k' v' l' r') ++ (k, v) :: abs r from rfl]
    cases hx : abs (Tree.node h' k' v' l' r') with
    | nil => exact absurd hx this
    | cons x xs => simp

theorem internalMerge_spec (t1 t2 : Tree K V) (h1 : Bal t1) (h2 : Bal t2)
    (d1 : height t1 ≤ height t2 + 2) (d2 : height t2 ≤ height t1 + 2) :
    ∃ t, internalMerge t1 t2 = some t ∧ Bal t ∧ abs t = abs t1 ++ abs t2 ∧
      Max.max (height t1) (height t2) ≤ height t ∧ height t ≤ Max.max (height t1) (height t2) + 1 := by
  have n1 := height_nonneg t1 h1
  have n2 := height_nonneg t2 h2
  cases t1 with
  | empty => exact ⟨t2, by cases t2 <;> simp [internalMerge], h2, by simp [abs], by simp only [height_empty]; oo, by simp only [height_empty]; oo⟩
  | leaf a b =>
    cases t2 with
    | empty => exact ⟨_, by simp [internalMerge], h1, by simp [abs], by simp only [height_empty, height_leaf]; oo, by simp only [height_empty, height_leaf]; oo⟩
    | leaf c d =>
      obtain ⟨t, e, b1, a1, g1, g2, g3⟩ := addMinNode_spec a b (.leaf c d) h2
      exact ⟨t, by simpa [internalMerge] using e, b1, by simp [a1, abs], by simp only [height_leaf] at *; oo, by simp only [height_leaf] at *; oo⟩
    | node h k v l r =>
      obtain ⟨t, e, b1, a1, g1, g2, g3⟩ := addMinNode_spec a b (.node h k v l r) h2
      exact ⟨t, by simpa [internalMerge] using e, b1, by simp [a1, abs], by simp only [height_leaf, height_node] at *; oo, by simp only [height_leaf, height_node] at *; oo⟩
  | node h k v l r =>
    cases t2 with
    | empty => exact ⟨_, by simp [internalMerge], h1, by simp [abs], by simp only [height_empty, height_node] at *; oo, by simp only [height_empty, height_node] at *; oo⟩
    | leaf c d =>
      obtain ⟨t, e, b1, a1, g1, g2, g3⟩ := addMaxNode_spec c d (.node h k v l r) h1
      exact ⟨t, by simpa [internalMerge] using e, b1, by simp [a1, abs], by simp only [height_leaf, height_node] at *; oo, by simp only [height_leaf, height_node] at *; oo⟩
    | node h' k' v' l' r' =>
      have m := minBindingUnsafe_spec l' h' k' v' r'
      obtain ⟨t2', e, b1, a1, g1, g2⟩ := removeMinUnsafe_spec l' h' k' v' r' h2
      have ne := abs_node_ne_nil h' k' v' l' r'
      cases hx : abs (Tree.node h' k' v' l' r') with
      | nil => exact absurd hx ne
      | cons x xs =>
        rw [hx] at m a1
        simp only [List.head?_cons, List.tail_cons] at m a1
        obtain ⟨xk, xv⟩ := x
        simp only [height_node] at *
        obtain ⟨t, e2, b2, a2, g3, g4, g5⟩ := balanced_spec' (.node h k v l r) t2' xk xv h1 b1
          (by simp only [height_node]; oo) (by simp only [height_node]; oo)
        simp only [height_node] at *
        exact ⟨t, by simp [internalMerge, m, e, e2], b2, by simp [a2, a1], by oo, by oo⟩

theorem concat_spec (t1 t2 : Tree K V) (h1 : Bal t1) (h2 : Bal t2) :
    ∃ t, concat t1 t2 = some t ∧ Bal t ∧ abs t = abs t1 ++ abs t2 := by
  cases t1 with
  | empty => exact ⟨t2, by cases t2 <;> simp [concat], h2, by simp [abs]⟩
  | leaf a b =>
    cases t2 with
    | empty => exact ⟨_, by simp [concat], h1, by simp [abs]⟩
    | leaf c d =>
      obtain ⟨t, e, b1, a1, _⟩ := addMinNode_spec a b (.leaf c d) h2
      exact ⟨t, by simpa [concat] using e, b1, by simp [a1, abs]⟩
    | node h k v l r =>
      obtain ⟨t, e, b1, a1, _⟩ := addMinNode_spec a b (.node h k v l r) h2
      exact ⟨t, by simpa [concat] using e, b1, by simp [a1, abs]⟩
  | node h k v l r =>
    cases t2 with
    | empty => exact ⟨_, by simp [concat], h1, by simp [abs]⟩
    | leaf c d =>
      obtain ⟨t, e, b1, a1, _⟩ := addMaxNode_spec c d (.node h k v l r) h1
      exact ⟨t, by simpa [concat] using e, b1, by simp [a1, abs]⟩
    | node h' k' v' l' r' =>
      have m := minBindingUnsafe_spec l' h' k' v' r'
      obtain ⟨t2', e, b1, a1, g1, g2⟩ := removeMinUnsafe_spec l' h' k' v' r' h2
      have ne := abs_node_ne_nil h' k' v' l' r'
      cases hx : abs (Tree.node h' k' v' l' r') with
      | nil => exact absurd hx ne
      | cons x xs =>
        rw [hx] at m a1
        simp only [List.head?_cons, List.tail_cons] at m a1
        obtain ⟨xk, xv⟩ := x
        obtain ⟨t, e2, b2, a2, _⟩ := join_spec (.node h k v l r) t2' xk xv h1 b1
        exact ⟨t, by simp [concat, m, e, e2], b2, by simp [a2, a1]⟩

theorem pairwise_drop_mid {R : K × V → K × V → Prop} {a b : List (K × V)} {x : K × V}
    (h : (a ++ x :: b).Pairwise R) : (a ++ b).Pairwise R :=
  h.sublist (List.Sublist.append (List.Sublist.refl a) (List.sublist_cons_self x b))

theorem remove_spec {cmp : K → K → Int} (hc : Lawful cmp) (t : Tree K V) (k : K)
    (hb : Bal t) (ho : Ordered t) :
    ∃ t', remove cmp t k = some t' ∧ Bal t' ∧ Ordered t' ∧
      (∀ p, p ∈ abs t' ↔ (p ∈ abs t ∧ p.1 ≠ k)) ∧
      height t - 1 ≤ height t' ∧ height t' ≤ height t := by
  induction t with
  | empty => exact ⟨.empty, rfl, hb, ho, by simp [abs], by simp, by simp⟩
  | leaf k' v' =>
    have heq := hc.eq k k'
    simp only [remove]
    by_cases c0 : cmp k k' = 0
    · have : k = k' := heq.1 c0
      subst this
      exact ⟨.empty, by simp [c0], by simp [Bal], by simp [Ordered, abs], by simp [abs], by simp, by simp⟩
    · have nk : k' ≠ k := fun e => c0 (heq.2 e.symm)
      refine ⟨.leaf k' v', by simp [c0], hb, ho, ?_, by simp, by simp⟩
      intro p; simp only [abs, List.mem_singleton]
      constructor
      · intro e; subst e; exact ⟨rfl, nk⟩
      · exact fun h => h.1
  | node h k' v' l r ihl ihr =>
    have hlt := hc.lt k k'; have heq := hc.eq k k'; have hgt := hc.gt k k'
    obtain ⟨ol, or, bl, br⟩ := ordered_node ho
    obtain ⟨bll, brr, hh, d1, d2, nl, nr⟩ := bal_node hb
    simp only [remove]
    by_cases c0 : cmp k k' = 0
    · have : k = k' := heq.1 c0
      subst this
      obtain ⟨t', e, b1, a1, g1, g2⟩ := internalMerge_spec l r bll brr d1 d2
      refine ⟨t', by simp [c0, e], b1, ?_, ?_, by simp only [height_node]; oo, by simp only [height_node]; oo⟩
      · simp only [Ordered, a1]; exact pairwise_drop_mid ho
      · intro p
        rw [a1]
        simp only [abs, List.mem_append, List.mem_cons]
        constructor
        · rintro (h1 | h1)
          · exact ⟨Or.inl h1, fun e => by have := bl p h1; rw [e] at this; oo⟩
          · exact ⟨Or.inr (Or.inr h1), fun e => by have := br p h1; rw [e] at this; oo⟩
        · rintro ⟨h1 | h1 | h1, ne⟩
          · exact Or.inl h1
          · subst h1; exact absurd rfl ne
          · exact Or.inr h1
    · by_cases c1 : cmp k k' < 0
      · obtain ⟨ll, e, b1, o1, m1, g1, g2⟩ := ihl bll ol
        obtain ⟨t', e2, b2, a2, g3, g4, g5⟩ := balanced_spec' ll r k' v' b1 brr (by oo) (by oo)
        have ord : (abs ll ++ (k', v') :: abs r).Pairwise (fun x y => x.1 < y.1) :=
          ordered_of_parts o1 or (fun p hp => bl p ((m1 p).1 hp).1) br
        have nk : k' ≠ k := by intro e; subst e; grind
        have lt := hlt.1 c1
        have mem : ∀ p, p ∈ abs ll ++ (k', v') :: abs r ↔
            (p ∈ abs l ++ (k', v') :: abs r ∧ p.1 ≠ k) := by
          intro p
          have := m1 p
          simp only [List.mem_append, List.mem_cons]
          constructor
          · rintro (h1 | h1 | h1)
            · exact ⟨Or.inl (this.1 h1).1, (this.1 h1).2⟩
            · subst h1; exact ⟨Or.inr (Or.inl rfl), nk⟩
            · exact ⟨Or.inr (Or.inr h1), fun e => by have := br p h1; rw [e] at this; oo⟩
          · rintro ⟨h1 | h1 | h1, ne⟩
            · exact Or.inl (this.2 ⟨h1, ne⟩)
            · exact Or.inr (Or.inl h1)
            · exact Or.inr (Or.inr h1)
        by_cases same : l = ll
        · subst same
          exact ⟨.node h k' v' l r, by simp [c0, c1, e], hb, ho, by simpa [abs] using mem, by simp only [height_node]; oo, by simp⟩
        · refine ⟨t', by simp [c0, c1, e, same, e2], b2, by simpa [Ordered, a2] using ord,
            by simpa [a2, abs] using mem, ?_, ?_⟩ <;> simp only [height_node] <;> oo
      · have c2 : cmp k k' > 0 := by oo
        obtain ⟨rr, e, b1, o1, m1, g1, g2⟩ := ihr brr or
        obtain ⟨t', e2, b2, a2, g3, g4, g5⟩ := balanced_spec' l rr k' v' bll b1 (by oo) (by oo)
        have ord : (abs l ++ (k', v') :: abs rr).Pairwise (fun x y => x.1 < y.1) :=
          ordered_of_parts ol o1 bl (fun p hp => br p ((m1 p).1 hp).1)
        have nk : k' ≠ k := by intro e; subst e; grind
        have gt := hgt.1 c2
        have mem : ∀ p, p ∈ abs l ++ (k', v') :: abs rr ↔
            (p ∈ abs l ++ (k', v') :: abs r ∧ p.1 ≠ k) := by
          intro p
          have := m1 p
          simp only [List.mem_append, List.mem_cons]
          constructor
          · rintro (h1 | h1 | h1)
            · exact ⟨Or.inl h1, fun e => by have := bl p h1; rw [e] at this; oo⟩
            · subst h1; exact ⟨Or.inr (Or.inl rfl), nk⟩
            · exact ⟨Or.inr (Or.inr (this.1 h1).1), (this.1 h1).2⟩
          · rintro ⟨h1 | h1 | h1, ne⟩
            · exact Or.inl h1
            · exact Or.inr (Or.inl h1)
            · exact Or.inr (Or.inr (this.2 ⟨h1, ne⟩))
        by_cases same : r = rr
        · subst same
          exact ⟨.node h k' v' l r, by simp [c0, c1, e], hb, ho, by simpa [abs] using mem, by simp only [height_node]; oo, by simp⟩
        · refine ⟨t', by simp [c0, c1, e, same, e2], b2, by simpa [Ordered, a2] using ord,
            by simpa [a2, abs] using mem, ?_, ?_⟩ <;> simp only [height_node] <;> oo

/-- the binding found by `split`, as a list -/
def midList (key : K) (pres : Option V) : List (K × V) :=
  match pres with
  | none => []
  | some w => [(key, w)]

theorem split_spec {cmp : K → K → Int} (hc : Lawful cmp) (t : Tree K V) (key : K)
    (hb : Bal t) (ho : Ordered t) :
    ∃ l pres r, split cmp t key = some (l, pres, r) ∧ Bal l ∧ Bal r ∧
      abs t = abs l ++ midList key pres ++ abs r ∧
      (∀ p ∈ abs l, p.1 < key) ∧ (∀ p ∈ abs r, key < p.1) := by
  induction t with
  | empty => exact ⟨.empty, none, .empty, rfl, hb, hb, by simp [abs, midList], by simp [abs], by simp [abs]⟩
  | leaf k' v' =>
    have hlt := hc.lt key k'; have heq := hc.eq key k'; have hgt := hc.gt key k'
    simp only [split]
    by_cases c0 : cmp key k' = 0
    · have : key = k' := heq.1 c0
      subst this
      exact ⟨.empty, some v', .empty, by simp [c0], by simp [Bal], by simp [Bal], by simp [abs, midList],
        by simp [abs], by simp [abs]⟩
    · by_cases c1 : cmp key k' < 0
      · exact ⟨.empty, none, .leaf k' v', by simp [c0, c1], by simp [Bal], hb, by simp [abs, midList],
          by simp [abs], by simp [abs]; exact hlt.1 c1⟩
      · exact ⟨.leaf k' v', none, .empty, by simp [c0, c1], hb, by simp [Bal], by simp [abs, midList],
          by simp [abs]; exact hgt.1 (by oo), by simp [abs]⟩
  | node h k' v' l r ihl ihr =>
    have hlt := hc.lt key k'; have heq := hc.eq key k'; have hgt := hc.gt key k'
    obtain ⟨ol, or, bl, br⟩ := ordered_node ho
    obtain ⟨bll, brr, hh, d1, d2, nl, nr⟩ := bal_node hb
    simp only [split]
    by_cases c0 : cmp key k' = 0
    · have : key = k' := heq.1 c0
      subst this
      exact ⟨l, some v', r, by simp [c0], bll, brr, by simp [abs, midList], bl, br⟩
    · by_cases c1 : cmp key k' < 0
      · obtain ⟨ll, pres, rl, e, b1, b2, a1, g1, g2⟩ := ihl bll ol
        obtain ⟨t2, e2, b3, a3, _⟩ := join_spec rl r k' v' b2 brr
        have lt := hlt.1 c1
        refine ⟨ll, pres, t2, by simp [c0, c1, e, e2], b1, b3, by simp [abs, a1, a3], g1, ?_⟩
        intro p hp
        rw [a3] at hp
        simp only [List.mem_append, List.mem_cons] at hp
        rcases hp with h1 | h1 | h1
        · exact g2 p h1
        · subst h1; exact lt
        · have := br p h1; oo
      · have gt := hgt.1 (by oo)
        obtain ⟨lr, pres, rr, e, b1, b2, a1, g1, g2⟩ := ihr brr or
        obtain ⟨t2, e2, b3, a3, _⟩ := join_spec l lr k' v' bll b1
        refine ⟨t2, pres, rr, by simp [c0, c1, e, e2], b3, b2, by simp [abs, a1, a3], ?_, g2⟩
        intro p hp
        rw [a3] at hp
        simp only [List.mem_append, List.mem_cons] at hp
        rcases hp with h1 | h1 | h1
        · have := bl p h1; oo
        · subst h1; exact gt
        · exact g1 p h1

theorem filter_spec (f : K → V → Bool) (t : Tree K V) (hb : Bal t) :
    ∃ t', filter f t = some t' ∧ Bal t' ∧ abs t' = (abs t).filter (fun p => f p.1 p.2) := by
  induction t with
  | empty => exact ⟨.empty, rfl, hb, by simp [abs]⟩
  | leaf k v =>
    simp only [filter]
    by_cases c : f k v = true
    · exact ⟨.leaf k v, by simp [c], hb, by simp [abs, c]⟩
    · exact ⟨.empty, by simp [c], by simp [Bal], by simp [abs, c]⟩
  | node h k v l r ihl ihr =>
    obtain ⟨bll, brr, _⟩ := bal_node hb
    obtain ⟨newL, e1, b1, a1⟩ := ihl bll
    obtain ⟨newR, e2, b2, a2⟩ := ihr brr
    simp only [filter, e1, e2]
    by_cases c : f k v = true
    · by_cases same : l = newL ∧ r = newR
      · obtain ⟨s1, s2⟩ := same
        subst s1; subst s2
        refine ⟨.node h k v l r, by simp [c], hb, ?_⟩
        simp only [abs, List.filter_append, List.filter_cons, c, if_true, ← a1, ← a2]
      · obtain ⟨t', e3, b3, a3, _⟩ := join_spec newL newR k v b1 b2
        exact ⟨t', by simp [c, same, e3], b3, by simp [a3, abs, a1, a2, c]⟩
    · obtain ⟨t', e3, b3, a3⟩ := concat_spec newL newR b1 b2
      exact ⟨t', by simp [c, e3], b3, by simp [a3, abs, a1, a2, c]⟩

theorem partition_spec (f : K → V → Bool) (t : Tree K V) (hb : Bal t) :
    ∃ a b, partition f t = some (a, b) ∧ Bal a ∧ Bal b ∧
      abs a = (abs t).filter (fun p => f p.1 p.2) ∧ abs b = (abs t).filter (fun p => !f p.1 p.2) := by
  induction t with
  | empty => exact ⟨.empty, .empty, rfl, hb, hb, by simp [abs], by simp [abs]⟩
  | leaf k v =>
    simp only [partition]
    by_cases c : f k v = true
    · exact ⟨.leaf k v, .empty, by simp [c], hb, by simp [Bal], by simp [abs, c], by simp [abs, c]⟩
    · exact ⟨.empty, .leaf k v, by simp [c], by simp [Bal], hb, by simp [abs, c], by simp [abs, c]⟩
  | node h k v l r ihl ihr =>
    obtain ⟨bll, brr, _⟩ := bal_node hb
    obtain ⟨lt, lf, e1, b1, b1', a1, a1'⟩ := ihl bll
    obtain ⟨rt, rf, e2, b2, b2', a2, a2'⟩ := ihr brr
    simp only [partition, e1, e2]
    by_cases c : f k v = true
    · obtain ⟨x, e3, b3, a3, _⟩ := join_spec lt rt k v b1 b2
      obtain ⟨y, e4, b4, a4⟩ := concat_spec lf rf b1' b2'
      exact ⟨x, y, by simp [c, e3, e4], b3, b4, by simp [a3, abs, a1, a2, c], by simp [a4, abs, a1', a2', c]⟩
    · obtain ⟨x, e3, b3, a3⟩ := concat_spec lt rt b1 b2
      obtain ⟨y, e4, b4, a4, _⟩ := join_spec lf rf k v b1' b2'
      exact ⟨x, y, by simp [c, e3, e4], b3, b4, by simp [a3, abs, a1, a2, c], by simp [a4, abs, a1', a2', c]⟩

macro "hfinm" : tactic => `(tactic| (first | (simp; done) | (simp; oo) | oo))

theorem update_spec {cmp : K → K → Int} (hc : Lawful cmp) (f : Option V → Option V)
    (t : Tree K V) (k : K) (hb : Bal t) (ho : Ordered t) :
    ∃ t', update cmp f t k = some t' ∧ Bal t' ∧ Ordered t' ∧
      (∀ p, p ∈ abs t' ↔ ((p ∈ abs t ∧ p.1 ≠ k) ∨ (p.1 = k ∧ f (get cmp t k) = some p.2))) ∧
      height t - 1 ≤ height t' ∧ height t' ≤ height t + 1 := by
  induction t with
  | empty =>
    simp only [update, get]
    cases hf : f none with
    | none => exact ⟨.empty, rfl, hb, ho, by simp [abs], by hfinm, by hfinm⟩
    | some d =>
      refine ⟨.leaf k d, rfl, by simp [Bal], by simp [Ordered, abs], ?_, by hfinm, by hfinm⟩
      intro p; obtain ⟨a, b⟩ := p
      simp only [abs, List.mem_singleton, Prod.mk.injEq, List.not_mem_nil, false_and, false_or, Option.some.injEq]
      constructor
      · rintro ⟨h1, h2⟩; exact ⟨h1, h2.symm⟩
      · rintro ⟨h1, h2⟩; exact ⟨h1, h2.symm⟩
  | leaf k' v' =>
    have hlt := hc.lt k k'; have heq := hc.eq k k'; have hgt := hc.gt k k'
    have heq' := hc.eq k' k
    simp only [update]
    by_cases c0 : cmp k k' = 0
    · have : k = k' := heq.1 c0
      subst this
      have g : get cmp (Tree.leaf k v') k = some v' := by simp [get, heq'.2 rfl]
      rw [g]
      cases hf : f (some v') with
      | none => exact ⟨.empty, by simp [c0, hf], by simp [Bal], by simp [Ordered, abs], by simp [abs], by hfinm, by hfinm⟩
      | some d =>
        by_cases cv : v' = d
        · subst cv
          refine ⟨.leaf k v', by simp [c0, hf], hb, ho, ?_, by hfinm, by hfinm⟩
          intro p; obtain ⟨a, b⟩ := p
          simp only [abs, List.mem_singleton, Prod.mk.injEq, Option.some.injEq]
          constructor
          · rintro ⟨h1, h2⟩; exact Or.inr ⟨h1, h2.symm⟩
          · rintro (⟨⟨h1, _⟩, h3⟩ | ⟨h1, h2⟩)
            · exact absurd h1 h3
            · exact ⟨h1, h2.symm⟩
        · refine ⟨.leaf k d, by simp [c0, hf, cv], by simp [Bal], by simp [Ordered, abs], ?_, by hfinm, by hfinm⟩
          intro p; obtain ⟨a, b⟩ := p
          simp only [abs, List.mem_singleton, Prod.mk.injEq, Option.some.injEq]
          constructor
          · rintro ⟨h1, h2⟩; exact Or.inr ⟨h1, h2.symm⟩
          · rintro (⟨⟨h1, _⟩, h3⟩ | ⟨h1, h2⟩)
            · exact absurd h1 h3
            · exact ⟨h1, h2.symm⟩
    · have nk : k' ≠ k := fun e => c0 (heq.2 e.symm)
      have g : get cmp (Tree.leaf k' v') k = none := by
        simp only [get]; rw [if_neg]; intro e; exact nk (heq'.1 e)
      rw [g]
      cases hf : f none with
      | none =>
        refine ⟨.leaf k' v', by simp [c0, hf], hb, ho, ?_, by hfinm, by hfinm⟩
        intro p; obtain ⟨a, b⟩ := p
        simp only [abs, List.mem_singleton, Prod.mk.injEq]
        constructor
        · rintro ⟨h1, h2⟩; subst h1; exact Or.inl ⟨⟨rfl, h2⟩, nk⟩
        · rintro (⟨h1, _⟩ | ⟨_, h2⟩)
          · exact h1
          · simp at h2
      | some d =>
        by_cases c1 : cmp k k' < 0
        · refine ⟨.node 2 k d .empty (.leaf k' v'), by simp [c0, hf, c1], by simp [Bal], ?_, ?_, by hfinm, by hfinm⟩
          · simp [Ordered, abs]; exact hlt.1 c1
          · intro p; obtain ⟨a, b⟩ := p
            simp only [abs, List.nil_append, List.mem_cons, Prod.mk.injEq, List.mem_singleton, List.not_mem_nil, or_false, Option.some.injEq]
            constructor
            · rintro (⟨h1, h2⟩ | ⟨h1, h2⟩)
              · exact Or.inr ⟨h1, h2.symm⟩
              · subst h1; exact Or.inl ⟨⟨rfl, h2⟩, nk⟩
            · rintro (⟨h1, _⟩ | ⟨h1, h2⟩)
              · exact Or.inr h1
              · exact Or.inl ⟨h1, h2.symm⟩
        · refine ⟨.node 2 k d (.leaf k' v') .empty, by simp [c0, hf, c1], by simp [Bal], ?_, ?_, by hfinm, by hfinm⟩
          · simp [Ordered, abs]; exact hgt.1 (by oo)
          · intro p; obtain ⟨a, b⟩ := p
            simp only [abs, List.singleton_append, List.mem_cons, Prod.mk.injEq, List.not_mem_nil, or_false, Option.some.injEq, List.mem_singleton]
            constructor
            · rintro (⟨h1, h2⟩ | ⟨h1, h2⟩)
              · subst h1; exact Or.inl ⟨⟨rfl, h2⟩, nk⟩
              · exact Or.inr ⟨h1, h2.symm⟩
            · rintro (⟨h1, _⟩ | ⟨h1, h2⟩)
              · exact Or.inl h1
              · exact Or.inr ⟨h1, h2.symm⟩
  | node h k' v' l r ihl ihr =>
    have hlt := hc.lt k k'; have heq := hc.eq k k'; have hgt := hc.gt k k'
    obtain ⟨ol, or, bl, br⟩ := ordered_node ho
    obtain ⟨bll, brr, hh, d1, d2, nl, nr⟩ := bal_node hb
    simp only [update]
    by_cases c0 : cmp k k' = 0
    · have : k = k' := heq.1 c0
      subst this
      have g : get cmp (Tree.node h k v' l r) k = some v' := by simp [get, c0]
      rw [g]
      have nl' : ∀ p ∈ abs l, p.1 ≠ k := fun p hp e => by have := bl p hp; rw [e] at this; oo
      have nr' : ∀ p ∈ abs r, p.1 ≠ k := fun p hp e => by have := br p hp; rw [e] at this; oo
      cases hf : f (some v') with
      | none =>
        obtain ⟨t', e, b1, a1, g1, g2⟩ := internalMerge_spec l r bll brr d1 d2
        refine ⟨t', by simp [c0, hf, e], b1, ?_, ?_, by simp only [height_node]; oo, by simp only [height_node]; oo⟩
        · simp only [Ordered, a1]; exact pairwise_drop_mid ho
        · intro p
          rw [a1]
          simp only [abs, List.mem_append, List.mem_cons]
          constructor
          · rintro (h1 | h1)
            · exact Or.inl ⟨Or.inl h1, nl' p h1⟩
            · exact Or.inl ⟨Or.inr (Or.inr h1), nr' p h1⟩
          · rintro (⟨h1 | h1 | h1, ne⟩ | ⟨_, h2⟩)
            · exact Or.inl h1
            · subst h1; exact absurd rfl ne
            · exact Or.inr h1
            · simp at h2
      | some d =>
        have memc : ∀ (x : V) (p : K × V), p ∈ abs l ++ (k, x) :: abs r ↔
            ((p ∈ abs l ++ (k, v') :: abs r ∧ p.1 ≠ k) ∨ (p.1 = k ∧ some x = some p.2)) := by
          intro x p; obtain ⟨a, b⟩ := p
          simp only [List.mem_append, List.mem_cons, Prod.mk.injEq, Option.some.injEq]
          constructor
          · rintro (h1 | ⟨h1, h2⟩ | h1)
            · exact Or.inl ⟨Or.inl h1, nl' _ h1⟩
            · exact Or.inr ⟨h1, h2.symm⟩
            · exact Or.inl ⟨Or.inr (Or.inr h1), nr' _ h1⟩
          · rintro (⟨h1 | ⟨h1, _⟩ | h1, ne⟩ | ⟨h1, h2⟩)
            · exact Or.inl h1
            · exact absurd h1 ne
            · exact Or.inr (Or.inr h1)
            · exact Or.inr (Or.inl ⟨h1, h2.symm⟩)
        by_cases cv : v' = d
        · subst cv
          exact ⟨.node h k v' l r, by simp [c0, hf], hb, ho, by simpa [abs] using memc v', by hfinm, by hfinm⟩
        · refine ⟨.node h k d l r, by simp [c0, hf, cv], ?_, ?_, by simpa [abs] using memc d, by hfinm, by hfinm⟩
          · simpa [Bal] using hb
          · simp only [Ordered, abs]; exact ordered_of_parts ol or bl br
    · by_cases c1 : cmp k k' < 0
      · obtain ⟨ll, e, b1, o1, m1, g1, g2⟩ := ihl bll ol
        obtain ⟨t', e2, b2, a2, g3, g4, g5⟩ := balanced_spec' ll r k' v' b1 brr (by oo) (by oo)
        have lt := hlt.1 c1
        have g : get cmp (Tree.node h k' v' l r) k = get cmp l k := by simp [get, c0, c1]
        rw [g]
        have ord : (abs ll ++ (k', v') :: abs r).Pairwise (fun x y => x.1 < y.1) := by
          apply ordered_of_parts o1 or _ br
          intro p hp
          rcases (m1 p).1 hp with hp | hp
          · exact bl p hp.1
          · rw [hp.1]; exact lt
        have nk : k' ≠ k := by intro e; subst e; grind
        have mem : ∀ p, p ∈ abs ll ++ (k', v') :: abs r ↔
            ((p ∈ abs l ++ (k', v') :: abs r ∧ p.1 ≠ k) ∨ (p.1 = k ∧ f (get cmp l k) = some p.2)) := by
          intro p
          have := m1 p
          simp only [List.mem_append, List.mem_cons]
          constructor
          · rintro (h1 | h1 | h1)
            · rcases this.1 h1 with h2 | h2
              · exact Or.inl ⟨Or.inl h2.1, h2.2⟩
              · exact Or.inr h2
            · subst h1; exact Or.inl ⟨Or.inr (Or.inl rfl), nk⟩
            · exact Or.inl ⟨Or.inr (Or.inr h1), fun e => by have := br p h1; rw [e] at this; oo⟩
          · rintro (⟨h1 | h1 | h1, ne⟩ | h2)
            · exact Or.inl (this.2 (Or.inl ⟨h1, ne⟩))
            · exact Or.inr (Or.inl h1)
            · exact Or.inr (Or.inr h1)
            · exact Or.inl (this.2 (Or.inr h2))
        by_cases same : l = ll
        · subst same
          exact ⟨.node h k' v' l r, by simp [c0, c1, e], hb, ho, by simpa [abs] using mem, by hfinm, by hfinm⟩
        · refine ⟨t', by simp [c0, c1, e, same, e2], b2, by simpa [Ordered, a2] using ord,
            by simpa [a2, abs] using mem, ?_, ?_⟩ <;> simp only [height_node] <;> oo
      · have c2 : cmp k k' > 0 := by oo
        obtain ⟨rr, e, b1, o1, m1, g1, g2⟩ := ihr brr or
        obtain ⟨t', e2, b2, a2, g3, g4, g5⟩ := balanced_spec' l rr k' v' bll b1 (by oo) (by oo)
        have gt := hgt.1 c2
        have g : get cmp (Tree.node h k' v' l r) k = get cmp r k := by simp [get, c0, c1]
        rw [g]
        have ord : (abs l ++ (k', v') :: abs rr).Pairwise (fun x y => x.1 < y.1) := by
          apply ordered_of_parts ol o1 bl
          intro p hp
          rcases (m1 p).1 hp with hp | hp
          · exact br p hp.1
          · rw [hp.1]; exact gt
        have nk : k' ≠ k := by intro e; subst e; grind
        have mem : ∀ p, p ∈ abs l ++ (k', v') :: abs rr ↔
            ((p ∈ abs l ++ (k', v') :: abs r ∧ p.1 ≠ k) ∨ (p.1 = k ∧ f (get cmp r k) = some p.2)) := by
          intro p
          have := m1 p
          simp only [List.mem_append, List.mem_cons]
          constructor
          · rintro (h1 | h1 | h1)
            · exact Or.inl ⟨Or.inl h1, fun e => by have := bl p h1; rw [e] at this; oo⟩
            · subst h1; exact Or.inl ⟨Or.inr (Or.inl rfl), nk⟩
            · rcases this.1 h1 with h2 | h2
              · exact Or.inl ⟨Or.inr (Or.inr h2.1), h2.2⟩
              · exact Or.inr h2
          · rintro (⟨h1 | h1 | h1, ne⟩ | h2)
            · exact Or.inl h1
            · exact Or.inr (Or.inl h1)
            · exact Or.inr (Or.inr (this.2 (Or.inl ⟨h1, ne⟩)))
            · exact Or.inr (Or.inr (this.2 (Or.inr h2)))
        by_cases same : r = rr
        · subst same
          exact ⟨.node h k' v' l r, by simp [c0, c1, e], hb, ho, by simpa [abs] using mem, by hfinm, by hfinm⟩
        · refine ⟨t', by simp [c0, c1, e, same, e2], b2, by simpa [Ordered, a2] using ord,
            by simpa [a2, abs] using mem, ?_, ?_⟩ <;> simp only [height_node] <;> oo

/-- `get` as membership (copy of the Props statement, needed by the lemmas below) -/
theorem get_mem {cmp : K → K → Int} (hc : Lawful cmp) (t : Tree K V)
    (ho : Ordered t) (q : K) (w : V) : get cmp t q = some w ↔ (q, w) ∈ abs t := by
  induction t with
  | empty => simp [get, abs]
  | leaf k v =>
    have heq := hc.eq k q
    simp only [get, abs, List.mem_singleton, Prod.mk.injEq]
    by_cases c : cmp k q = 0
    · have e := heq.1 c; subst e; simp [c]; exact eq_comm
    · have : ¬ q = k := fun e => c (heq.2 e.symm)
      simp [c, this]
  | node h k v l r ihl ihr =>
    obtain ⟨ol, or, bl, br⟩ := ordered_node ho
    have hlt := hc.lt q k; have heq := hc.eq q k; have hgt := hc.gt q k
    have il := ihl ol; have ir := ihr or
    have bl' := bl (q, w); have br' := br (q, w)
    simp only [get, abs, List.mem_append, List.mem_cons, Prod.mk.injEq]
    by_cases c0 : cmp q k = 0
    · have e : q = k := heq.1 c0
      subst e
      simp [c0]
      constructor
      · intro e; right; left; exact e.symm
      · rintro (h1 | h1 | h1)
        · have := bl' h1; simp at this
        · exact h1.symm
        · have := br' h1; simp at this
    · by_cases c1 : cmp q k < 0
      · have nq : q ≠ k := fun e => c0 (heq.2 e)
        have lt := hlt.1 c1
        simp only [c0, c1, if_false, if_true, il]
        constructor
        · intro h1; left; exact h1
        · rintro (h1 | h1 | h1)
          · exact h1
          · exact absurd h1.1 nq
          · have := br' h1; simp at this; oo
      · have nq : q ≠ k := fun e => c0 (heq.2 e)
        have gt := hgt.1 (by oo)
        simp only [c0, c1, if_false, ir]
        constructor
        · intro h1; right; right; exact h1
        · rintro (h1 | h1 | h1)
          · have := bl' h1; simp at this; oo
          · exact absurd h1.1 nq
          · exact h1

theorem rank_inj {cmp : K → K → Int} (hc : Lawful cmp) {a b : K}
    (h : a = b) : a = b := by
  have h1 := hc.lt a b; have h2 := hc.gt a b; have h3 := hc.eq a b
  apply h3.1; oo

/-- `get` of a tree whose enumeration is `l ++ mid ++ r` around a pivot `k`. -/
theorem get_glue {cmp : K → K → Int} (hc : Lawful cmp) (t l r : Tree K V) (k : K)
    (o : Option V) (ho : Ordered t) (ol : Ordered l) (or : Ordered r)
    (a : abs t = abs l ++ midList k o ++ abs r)
    (g1 : ∀ p ∈ abs l, p.1 < k) (g2 : ∀ p ∈ abs r, k < p.1) (q : K) :
    get cmp t q = if q < k then get cmp l q else if k < q then get cmp r q else o := by
  apply Option.ext
  intro w
  rw [get_mem hc t ho q w, a]
  simp only [List.mem_append]
  by_cases c1 : q < k
  · simp only [c1, if_true, get_mem hc l ol q w]
    constructor
    · rintro ((h | h) | h)
      · exact h
      · cases o <;> simp [midList] at h; rw [h.1] at c1; oo
      · have := g2 _ h; simp at this; oo
    · intro h; exact Or.inl (Or.inl h)
  · by_cases c2 : k < q
    · simp only [c1, c2, if_true, if_false, get_mem hc r or q w]
      constructor
      · rintro ((h | h) | h)
        · have := g1 _ h; simp at this; oo
        · cases o <;> simp [midList] at h; rw [h.1] at c2; oo
        · exact h
      · intro h; exact Or.inr h
    · have e : q = k := (by grind)
      subst e
      simp only [c1, c2, if_false]
      constructor
      · rintro ((h | h) | h)
        · have := g1 _ h; simp at this
        · cases o <;> simp [midList] at h ⊢; exact h.symm
        · have := g2 _ h; simp at this
      · intro h; subst h; exact Or.inl (Or.inr (by simp [midList]))

/-- keys of a tree, through `get` -/
theorem key_of_mem {cmp : K → K → Int} (hc : Lawful cmp) (t : Tree K V)
    (ho : Ordered t) {p : K × V} (hp : p ∈ abs t) : get cmp t p.1 = some p.2 :=
  (get_mem hc t ho p.1 p.2).2 hp

/-- glueing two invariant-satisfying trees around a pivot with an optional middle binding -/
theorem glue_spec (x y : Tree K V) (k : K) (z : Option V)
    (bx : Bal x) (ox : Ordered x) (by' : Bal y) (oy : Ordered y)
    (g1 : ∀ p ∈ abs x, p.1 < k) (g2 : ∀ p ∈ abs y, k < p.1) :
    ∃ t, concatOrJoin x k z y = some t ∧ Bal t ∧ Ordered t ∧ abs t = abs x ++ midList k z ++ abs y := by
  cases z with
  | none =>
    obtain ⟨t, e, b, a⟩ := concat_spec x y bx by'
    refine ⟨t, by simpa [concatOrJoin] using e, b, ?_, by simp [a, midList]⟩
    simp only [Ordered, a, List.pairwise_append]
    exact ⟨ox, oy, fun p hp q hq => by have := g1 p hp; have := g2 q hq; oo⟩
  | some v =>
    obtain ⟨t, e, b, a, _⟩ := join_spec x y k v bx by'
    refine ⟨t, by simpa [concatOrJoin] using e, b, ?_, by simp [a, midList]⟩
    simp only [Ordered, a]
    exact ordered_of_parts ox oy g1 g2

/-- pointwise union with a merger -/
def unionWith (f : K → V → V → Option V) (q : K) : Option V → Option V → Option V
  | some x, some y => f q x y
  | some x, none => some x
  | none, y => y

theorem get_update {cmp : K → K → Int} (hc : Lawful cmp) (g : Option V → Option V)
    (t : Tree K V) (k : K) (hb : Bal t) (ho : Ordered t) :
    ∃ t', update cmp g t k = some t' ∧ Bal t' ∧ Ordered t' ∧
      ∀ q, get cmp t' q = if q = k then g (get cmp t k) else get cmp t q := by
  obtain ⟨t', e, b, o, m, _⟩ := update_spec hc g t k hb ho
  refine ⟨t', e, b, o, ?_⟩
  intro q
  apply Option.ext
  intro w
  rw [get_mem hc t' o q w, m]
  by_cases c : q = k
  · subst c; simp
  · simp only [c, if_false, ne_eq, not_false_eq_true, and_true, false_and, or_false]
    exact (get_mem hc t ho q w).symm

theorem split_get {cmp : K → K → Int} (hc : Lawful cmp) (t : Tree K V) (key : K)
    (hb : Bal t) (ho : Ordered t) :
    ∃ l pres r, split cmp t key = some (l, pres, r) ∧ Bal l ∧ Ordered l ∧ Bal r ∧ Ordered r ∧
      (∀ p ∈ abs l, p.1 < key) ∧ (∀ p ∈ abs r, key < p.1) ∧
      (∀ q, get cmp t q = if q < key then get cmp l q else if key < q then get cmp r q else pres) ∧
      (abs l).length ≤ (abs t).length ∧ (abs r).length ≤ (abs t).length := by
  obtain ⟨l, pres, r, e, b1, b2, a, g1, g2⟩ := split_spec hc t key hb ho
  have ho' := ho
  simp only [Ordered, a] at ho'
  have o1 : Ordered l := (List.pairwise_append.1 (List.pairwise_append.1 ho').1).1
  have o2 : Ordered r := (List.pairwise_append.1 ho').2.1
  refine ⟨l, pres, r, e, b1, o1, b2, o2, g1, g2, get_glue hc t l r key pres ho o1 o2 a g1 g2, ?_, ?_⟩ <;>
    (rw [a]; simp <;> oo)

theorem unionWith_some {f : K → V → V → Option V} {q : K} {a b : Option V} {w : V}
    (h : unionWith f q a b = some w) : a ≠ none ∨ b ≠ none := by
  cases a <;> cases b <;> simp_all [unionWith]

theorem mem_of_get_ne_none {cmp : K → K → Int} (hc : Lawful cmp) (t : Tree K V)
    (ho : Ordered t) {q : K} (h : get cmp t q ≠ none) : ∃ w, (q, w) ∈ abs t := by
  cases hg : get cmp t q with
  | none => exact absurd hg h
  | some w => exact ⟨w, (get_mem hc t ho q w).1 hg⟩

theorem bound_of_union {cmp : K → K → Int} (hc : Lawful cmp)
    {f : K → V → V → Option V} {x l1 l2 : Tree K V} (P : K → Prop)
    (ox : Ordered x) (o1 : Ordered l1) (o2 : Ordered l2)
    (h1 : ∀ p ∈ abs l1, P p.1) (h2 : ∀ p ∈ abs l2, P p.1)
    (hx : ∀ q, get cmp x q = unionWith f q (get cmp l1 q) (get cmp l2 q)) :
    ∀ p ∈ abs x, P p.1 := by
  intro p hp
  have := key_of_mem hc x ox hp
  rw [hx] at this
  rcases unionWith_some this with h | h
  · obtain ⟨w, hw⟩ := mem_of_get_ne_none hc l1 o1 h; exact h1 (p.1, w) hw
  · obtain ⟨w, hw⟩ := mem_of_get_ne_none hc l2 o2 h; exact h2 (p.1, w) hw

theorem get_leaf {cmp : K → K → Int} (hc : Lawful cmp) (k q : K) (v : V) :
    get cmp (Tree.leaf k v) q = if q = k then some v else none := by
  have := hc.eq k q
  simp only [get]
  by_cases c : cmp k q = 0
  · have e := this.1 c; subst e; simp [c]
  · have : ¬ q = k := fun e => c (this.2 e.symm)
    simp [c, this]

/-- **`customizedUnion`, total**: fuel above the sum of the sizes suffices; no panic; invariant;
pointwise `unionWith f`. -/
theorem customizedUnion_spec {cmp : K → K → Int} (hc : Lawful cmp)
    (f : K → V → V → Option V) :
    ∀ (fuel : Nat) (a b : Tree K V), Bal a → Ordered a → Bal b → Ordered b →
      (abs a).length + (abs b).length < fuel →
      ∃ t, customizedUnion cmp f fuel a b = some (some t) ∧ Bal t ∧ Ordered t ∧
        ∀ q, get cmp t q = unionWith f q (get cmp a q) (get cmp b q) := by
  intro fuel
  induction fuel with
  | zero => intro a b _ _ _ _ h; oo
  | succ fuel ih =>
    intro a b ba oa bb ob hf
    cases a with
    | empty => exact ⟨b, by simp [customizedUnion], bb, ob, by intro q; simp [get, unionWith]⟩
    | leaf k v =>
      cases b with
      | empty =>
        refine ⟨.leaf k v, by simp [customizedUnion], ba, oa, ?_⟩
        intro q; cases get cmp (Tree.leaf k v) q <;> simp [get, unionWith]
      | leaf k2 v2 =>
        obtain ⟨t, e, b1, o1, g⟩ := get_update hc (fun d => match d with
          | none => some v2
          | some x => f k2 x v2) (.leaf k v) k2 ba oa
        refine ⟨t, by simp [customizedUnion]; exact e, b1, o1, ?_⟩
        intro q
        rw [g q, get_leaf hc k2 q v2]
        by_cases c : q = k2
        · subst c; simp only [if_true]; cases get cmp (Tree.leaf k v) q <;> simp [unionWith]
        · simp only [c, if_false]; cases get cmp (Tree.leaf k v) q <;> simp [unionWith]
      | node h2 k2 v2 l2 r2 =>
        obtain ⟨t, e, b1, o1, g⟩ := get_update hc (fun d => match d with
          | none => some v
          | some x => f k v x) (.node h2 k2 v2 l2 r2) k bb ob
        refine ⟨t, by simp [customizedUnion]; exact e, b1, o1, ?_⟩
        intro q
        rw [g q, get_leaf hc k q v]
        by_cases c : q = k
        · subst c; simp only [if_true]; cases get cmp (Tree.node h2 k2 v2 l2 r2) q <;> simp [unionWith]
        · simp only [c, if_false]; cases get cmp (Tree.node h2 k2 v2 l2 r2) q <;> simp [unionWith]
    | node h1 k1 v1 l1 r1 =>
      cases b with
      | empty =>
        refine ⟨.node h1 k1 v1 l1 r1, by simp [customizedUnion], ba, oa, ?_⟩
        intro q; cases get cmp (Tree.node h1 k1 v1 l1 r1) q <;> simp [get, unionWith]
      | leaf k2 v2 =>
        obtain ⟨t, e, b1, o1, g⟩ := get_update hc (fun d => match d with
          | none => some v2
          | some x => f k2 x v2) (.node h1 k1 v1 l1 r1) k2 ba oa
        refine ⟨t, by simp [customizedUnion]; exact e, b1, o1, ?_⟩
        intro q
        rw [g q, get_leaf hc k2 q v2]
        by_cases c : q = k2
        · subst c; simp only [if_true]; cases get cmp (Tree.node h1 k1 v1 l1 r1) q <;> simp [unionWith]
        · simp only [c, if_false]; cases get cmp (Tree.node h1 k1 v1 l1 r1) q <;> simp [unionWith]
      | node h2 k2 v2 l2 r2 =>
        obtain ⟨ol1, or1, bl1, br1⟩ := ordered_node oa
        obtain ⟨ol2, or2, bl2, br2⟩ := ordered_node ob
        obtain ⟨bbl1, bbr1, _⟩ := bal_node ba
        obtain ⟨bbl2, bbr2, _⟩ := bal_node bb
        have la : (abs (Tree.node h1 k1 v1 l1 r1)).length = (abs l1).length + 1 + (abs r1).length := by
          simp [abs]; oo
        have lb : (abs (Tree.node h2 k2 v2 l2 r2)).length = (abs l2).length + 1 + (abs r2).length := by
          simp [abs]; oo
        have ga := get_glue hc (.node h1 k1 v1 l1 r1) l1 r1 k1 (some v1) oa ol1 or1
          (by simp [abs, midList]) bl1 br1
        have gb := get_glue hc (.node h2 k2 v2 l2 r2) l2 r2 k2 (some v2) ob ol2 or2
          (by simp [abs, midList]) bl2 br2
        by_cases c : h1 ≥ h2
        · obtain ⟨l2n, d, r2n, es, b3, o3, b4, o4, g1, g2, gs, n1, n2⟩ :=
            split_get hc (.node h2 k2 v2 l2 r2) k1 bb ob
          obtain ⟨x, ex, bx, ox, gx⟩ := ih l1 l2n bbl1 ol1 b3 o3 (by oo)
          obtain ⟨y, ey, by', oy, gy⟩ := ih r1 r2n bbr1 or1 b4 o4 (by oo)
          have hx := bound_of_union hc (fun q => q < k1) ox ol1 o3 bl1 g1 gx
          have hy := bound_of_union hc (fun q => k1 < q) oy or1 o4 br1 g2 gy
          obtain ⟨t, et, bt, ot, at'⟩ := glue_spec x y k1 (unionWith f k1 (some v1) d) bx ox by' oy hx hy
          refine ⟨t, ?_, bt, ot, ?_⟩
          · simp only [customizedUnion, c, if_true, es, ex, ey]
            cases d <;> simpa [unionWith, concatOrJoin] using et
          · intro q
            rw [get_glue hc t x y k1 _ ot ox oy at' hx hy q, ga q, gs q, gx q, gy q]
            by_cases c1 : q < k1
            · simp [c1]
            · by_cases c2 : k1 < q
              · simp [c1, c2]
              · have e : q = k1 := (by grind)
                subst e
                simp [c1]
        · obtain ⟨l1n, d, r1n, es, b3, o3, b4, o4, g1, g2, gs, n1, n2⟩ :=
            split_get hc (.node h1 k1 v1 l1 r1) k2 ba oa
          obtain ⟨x, ex, bx, ox, gx⟩ := ih l1n l2 b3 o3 bbl2 ol2 (by oo)
          obtain ⟨y, ey, by', oy, gy⟩ := ih r1n r2 b4 o4 bbr2 or2 (by oo)
          have hx := bound_of_union hc (fun q => q < k2) ox o3 ol2 g1 bl2 gx
          have hy := bound_of_union hc (fun q => k2 < q) oy o4 or2 g2 br2 gy
          obtain ⟨t, et, bt, ot, at'⟩ := glue_spec x y k2 (unionWith f k2 d (some v2)) bx ox by' oy hx hy
          refine ⟨t, ?_, bt, ot, ?_⟩
          · simp only [customizedUnion, c, if_false, es, ex, ey]
            cases d <;> simpa [unionWith, concatOrJoin] using et
          · intro q
            rw [get_glue hc t x y k2 _ ot ox oy at' hx hy q, gb q, gs q, gx q, gy q]
            by_cases c1 : q < k2
            · simp [c1]
            · by_cases c2 : k2 < q
              · simp [c1, c2]
              · have e : q = k2 := (by grind)
                subst e
                simp [c1]

/-- pointwise merge: `f` is consulted wherever at least one side has a binding -/
def mergeWith (f : K → Option V → Option V → Option V) (q : K) : Option V → Option V → Option V
  | none, none => none
  | x, y => f q x y

theorem mergeWith_some {f : K → Option V → Option V → Option V} {q : K} {a b : Option V} {w : V}
    (h : mergeWith f q a b = some w) : a ≠ none ∨ b ≠ none := by
  cases a <;> cases b <;> simp_all [mergeWith]

theorem bound_of_merge {cmp : K → K → Int} (hc : Lawful cmp)
    {f : K → Option V → Option V → Option V} {x l1 l2 : Tree K V} (P : K → Prop)
    (ox : Ordered x) (o1 : Ordered l1) (o2 : Ordered l2)
    (h1 : ∀ p ∈ abs l1, P p.1) (h2 : ∀ p ∈ abs l2, P p.1)
    (hx : ∀ q, get cmp x q = mergeWith f q (get cmp l1 q) (get cmp l2 q)) :
    ∀ p ∈ abs x, P p.1 := by
  intro p hp
  have := key_of_mem hc x ox hp
  rw [hx] at this
  rcases mergeWith_some this with h | h
  · obtain ⟨w, hw⟩ := mem_of_get_ne_none hc l1 o1 h; exact h1 (p.1, w) hw
  · obtain ⟨w, hw⟩ := mem_of_get_ne_none hc l2 o2 h; exact h2 (p.1, w) hw

theorem bal_empty : Bal (Tree.empty : Tree K V) := by simp [Bal]
theorem ord_empty : Ordered (Tree.empty : Tree K V) := by simp [Ordered, abs]

/-- the shared step of `merge`: split `b` at the pivot `k1` of `a = l1 ++ [k1 ↦ o1] ++ r1`. -/
theorem merge_step {cmp : K → K → Int} (hc : Lawful cmp)
    (f : K → Option V → Option V → Option V) (fuel : Nat)
    (ih : ∀ (a b : Tree K V), Bal a → Ordered a → Bal b → Ordered b →
      (abs a).length + (abs b).length < fuel →
      ∃ t, merge cmp f fuel a b = some (some t) ∧ Bal t ∧ Ordered t ∧
        ∀ q, get cmp t q = mergeWith f q (get cmp a q) (get cmp b q))
    (a b l1 r1 l2 r2 : Tree K V) (k : K) (o1 o2 : Option V) (hne : o1 ≠ none ∨ o2 ≠ none)
    (bl1 : Bal l1) (ol1 : Ordered l1) (br1 : Bal r1) (or1 : Ordered r1)
    (bl2 : Bal l2) (ol2 : Ordered l2) (br2 : Bal r2) (or2 : Ordered r2)
    (g1 : ∀ p ∈ abs l1, p.1 < k) (g2 : ∀ p ∈ abs r1, k < p.1)
    (g3 : ∀ p ∈ abs l2, p.1 < k) (g4 : ∀ p ∈ abs r2, k < p.1)
    (ga : ∀ q, get cmp a q = if q < k then get cmp l1 q else if k < q then get cmp r1 q else o1)
    (gb : ∀ q, get cmp b q = if q < k then get cmp l2 q else if k < q then get cmp r2 q else o2)
    (n1 : (abs l1).length + (abs l2).length < fuel) (n2 : (abs r1).length + (abs r2).length < fuel) :
    ∃ x y t, merge cmp f fuel l1 l2 = some (some x) ∧ merge cmp f fuel r1 r2 = some (some y) ∧
      concatOrJoin x k (f k o1 o2) y = some t ∧ Bal t ∧ Ordered t ∧
      ∀ q, get cmp t q = mergeWith f q (get cmp a q) (get cmp b q) := by
  obtain ⟨x, ex, bx, ox, gx⟩ := ih l1 l2 bl1 ol1 bl2 ol2 n1
  obtain ⟨y, ey, by', oy, gy⟩ := ih r1 r2 br1 or1 br2 or2 n2
  have hx := bound_of_merge hc (fun q => q < k) ox ol1 ol2 g1 g3 gx
  have hy := bound_of_merge hc (fun q => k < q) oy or1 or2 g2 g4 gy
  obtain ⟨t, et, bt, ot, at'⟩ := glue_spec x y k (f k o1 o2) bx ox by' oy hx hy
  refine ⟨x, y, t, ex, ey, et, bt, ot, ?_⟩
  intro q
  rw [get_glue hc t x y k _ ot ox oy at' hx hy q, ga q, gb q, gx q, gy q]
  by_cases c1 : q < k
  · simp [c1]
  · by_cases c2 : k < q
    · simp [c1, c2]
    · have e : q = k := (by grind)
      subst e
      simp only [c1, if_false]
      cases o1 <;> cases o2 <;> simp_all [mergeWith]

theorem get_empty (cmp : K → K → Int) (q : K) : get cmp (Tree.empty : Tree K V) q = none := rfl

theorem merge_spec {cmp : K → K → Int} (hc : Lawful cmp)
    (f : K → Option V → Option V → Option V) :
    ∀ (fuel : Nat) (a b : Tree K V), Bal a → Ordered a → Bal b → Ordered b →
      (abs a).length + (abs b).length < fuel →
      ∃ t, merge cmp f fuel a b = some (some t) ∧ Bal t ∧ Ordered t ∧
        ∀ q, get cmp t q = mergeWith f q (get cmp a q) (get cmp b q) := by
  intro fuel
  induction fuel with
  | zero => intro a b _ _ _ _ h; oo
  | succ fuel ih =>
    intro a b ba oa bb ob hf
    -- strategy 1: pivot (k1, v1) taken from `a = l1 ++ [(k1,v1)] ++ r1`, `b` is split
    have S1 : ∀ (k1 : K) (v1 : V) (l1 r1 : Tree K V), Bal l1 → Ordered l1 → Bal r1 → Ordered r1 →
        abs a = abs l1 ++ midList k1 (some v1) ++ abs r1 →
        (∀ p ∈ abs l1, p.1 < k1) → (∀ p ∈ abs r1, k1 < p.1) →
        ∃ l2 v2 r2 x y t, split cmp b k1 = some (l2, v2, r2) ∧ merge cmp f fuel l1 l2 = some (some x) ∧
          merge cmp f fuel r1 r2 = some (some y) ∧ concatOrJoin x k1 (f k1 (some v1) v2) y = some t ∧
          Bal t ∧ Ordered t ∧ ∀ q, get cmp t q = mergeWith f q (get cmp a q) (get cmp b q) := by
      intro k1 v1 l1 r1 bl1 ol1 br1 or1 aa g1 g2
      obtain ⟨l2, v2, r2, es, b3, o3, b4, o4, g3, g4, gs, n1, n2⟩ := split_get hc b k1 bb ob
      have ga := get_glue hc a l1 r1 k1 (some v1) oa ol1 or1 aa g1 g2
      have la : (abs a).length = (abs l1).length + 1 + (abs r1).length := by rw [aa]; simp [midList]; oo
      obtain ⟨x, y, t, ex, ey, et, bt, ot, gt⟩ := merge_step hc f fuel ih a b l1 r1 l2 r2 k1 (some v1) v2
        (Or.inl (by simp)) bl1 ol1 br1 or1 b3 o3 b4 o4 g1 g2 g3 g4 ga gs (by oo) (by oo)
      exact ⟨l2, v2, r2, x, y, t, es, ex, ey, et, bt, ot, gt⟩
    -- strategy 2: pivot (k2, v2) taken from `b`, `a` is split
    have S2 : ∀ (k2 : K) (v2 : V) (l2 r2 : Tree K V), Bal l2 → Ordered l2 → Bal r2 → Ordered r2 →
        abs b = abs l2 ++ midList k2 (some v2) ++ abs r2 →
        (∀ p ∈ abs l2, p.1 < k2) → (∀ p ∈ abs r2, k2 < p.1) →
        ∃ l1 v1 r1 x y t, split cmp a k2 = some (l1, v1, r1) ∧ merge cmp f fuel l1 l2 = some (some x) ∧
          merge cmp f fuel r1 r2 = some (some y) ∧ concatOrJoin x k2 (f k2 v1 (some v2)) y = some t ∧
          Bal t ∧ Ordered t ∧ ∀ q, get cmp t q = mergeWith f q (get cmp a q) (get cmp b q) := by
      intro k2 v2 l2 r2 bl2 ol2 br2 or2 ab g3 g4
      obtain ⟨l1, v1, r1, es, b3, o3, b4, o4, g1, g2, gs, n1, n2⟩ := split_get hc a k2 ba oa
      have gb := get_glue hc b l2 r2 k2 (some v2) ob ol2 or2 ab g3 g4
      have lb : (abs b).length = (abs l2).length + 1 + (abs r2).length := by rw [ab]; simp [midList]; oo
      obtain ⟨x, y, t, ex, ey, et, bt, ot, gt⟩ := merge_step hc f fuel ih a b l1 r1 l2 r2 k2 v1 (some v2)
        (Or.inr (by simp)) b3 o3 b4 o4 bl2 ol2 br2 or2 g1 g2 g3 g4 gs gb (by oo) (by oo)
      exact ⟨l1, v1, r1, x, y, t, es, ex, ey, et, bt, ot, gt⟩
    cases a with
    | empty =>
      cases b with
      | empty => exact ⟨.empty, by simp [merge], bal_empty, ord_empty, by intro q; simp [get, mergeWith]⟩
      | leaf k v =>
        cases hf' : f k none (some v) with
        | none =>
          refine ⟨.empty, by simp [merge, hf'], bal_empty, ord_empty, ?_⟩
          intro q; rw [get_leaf hc k q v]
          by_cases c : q = k
          · subst c; simp [get, mergeWith, hf']
          · simp [get, mergeWith, c]
        | some d =>
          refine ⟨.leaf k d, by simp [merge, hf'], by simp [Bal], by simp [Ordered, abs], ?_⟩
          intro q; rw [get_leaf hc k q v, get_leaf hc k q d]
          by_cases c : q = k
          · subst c; simp [get, mergeWith, hf']
          · simp [get, mergeWith, c]
      | node h2 k2 v2 l2 r2 =>
        obtain ⟨ol2, or2, bl2, br2⟩ := ordered_node ob
        obtain ⟨bbl2, bbr2, _⟩ := bal_node bb
        obtain ⟨l1, v1, r1, x, y, t, es, ex, ey, et, bt, ot, gt⟩ := S2 k2 v2 l2 r2 bbl2 ol2 bbr2 or2
          (by simp [abs, midList]) bl2 br2
        exact ⟨t, by simp [merge, es, ex, ey, et], bt, ot, gt⟩
    | leaf k v =>
      cases b with
      | empty =>
        cases hf' : f k (some v) none with
        | none =>
          refine ⟨.empty, by simp [merge, hf'], bal_empty, ord_empty, ?_⟩
          intro q; rw [get_leaf hc k q v]
          by_cases c : q = k
          · subst c; simp [get, mergeWith, hf']
          · simp [get, mergeWith, c]
        | some d =>
          refine ⟨.leaf k d, by simp [merge, hf'], by simp [Bal], by simp [Ordered, abs], ?_⟩
          intro q; rw [get_leaf hc k q v, get_leaf hc k q d]
          by_cases c : q = k
          · subst c; simp [get, mergeWith, hf']
          · simp [get, mergeWith, c]
      | leaf k2 v2 =>
        obtain ⟨l2, w2, r2, x, y, t, es, ex, ey, et, bt, ot, gt⟩ := S1 k v .empty .empty bal_empty
          (ord_empty) bal_empty (ord_empty) (by simp [abs, midList]) (by simp [abs]) (by simp [abs])
        exact ⟨t, by simp [merge, es, ex, ey, et], bt, ot, gt⟩
      | node h2 k2 v2 l2 r2 =>
        obtain ⟨ol2, or2, bl2, br2⟩ := ordered_node ob
        obtain ⟨bbl2, bbr2, _⟩ := bal_node bb
        obtain ⟨l1, v1, r1, x, y, t, es, ex, ey, et, bt, ot, gt⟩ := S2 k2 v2 l2 r2 bbl2 ol2 bbr2 or2
          (by simp [abs, midList]) bl2 br2
        exact ⟨t, by simp [merge, es, ex, ey, et], bt, ot, gt⟩
    | node h1 k1 v1 l1 r1 =>
      obtain ⟨ol1, or1, bl1, br1⟩ := ordered_node oa
      obtain ⟨bbl1, bbr1, hh1, _, _, nl1, nr1⟩ := bal_node ba
      by_cases c : h1 ≥ height b
      · obtain ⟨l2, w2, r2, x, y, t, es, ex, ey, et, bt, ot, gt⟩ := S1 k1 v1 l1 r1 bbl1 ol1 bbr1 or1
          (by simp [abs, midList]) bl1 br1
        exact ⟨t, by cases b <;> simp_all [merge], bt, ot, gt⟩
      · cases b with
        | empty => simp only [height_empty] at c; oo
        | leaf k2 v2 => simp only [height_leaf] at c; oo
        | node h2 k2 v2 l2 r2 =>
          obtain ⟨ol2, or2, bl2, br2⟩ := ordered_node ob
          obtain ⟨bbl2, bbr2, _⟩ := bal_node bb
          obtain ⟨l1', w1, r1', x, y, t, es, ex, ey, et, bt, ot, gt⟩ := S2 k2 v2 l2 r2 bbl2 ol2 bbr2 or2
            (by simp [abs, midList]) bl2 br2
          simp only [height_node] at c
          exact ⟨t, by simp [merge, c, es, ex, ey, et], bt, ot, gt⟩

/-- more fuel never changes an answer that was already produced -/
theorem customizedUnion_mono (cmp : K → K → Int) (f : K → V → V → Option V) :
    ∀ (fuel : Nat) (a b : Tree K V) (r : Option (Tree K V)),
      customizedUnion cmp f fuel a b = some r → customizedUnion cmp f (fuel + 1) a b = some r := by
  intro fuel
  induction fuel with
  | zero => intro a b r h; simp [customizedUnion] at h
  | succ n ih =>
    intro a b r h
    cases a with
    | empty => simpa [customizedUnion] using h
    | leaf k v => cases b <;> simpa [customizedUnion] using h
    | node h1 k1 v1 l1 r1 =>
      cases b with
      | empty => simpa [customizedUnion] using h
      | leaf k v => simpa [customizedUnion] using h
      | node h2 k2 v2 l2 r2 =>
        rw [customizedUnion] at h ⊢
        by_cases c : h1 ≥ h2
        · simp only [c, if_true] at h ⊢
          cases hs : split cmp (Tree.node h2 k2 v2 l2 r2) k1 with
          | none => simpa [hs] using h
          | some tr =>
            obtain ⟨x, d, y⟩ := tr
            simp only [hs] at h ⊢
            cases h1' : customizedUnion cmp f n l1 x with
            | none => simp [h1'] at h
            | some o1 =>
              rw [ih _ _ _ h1']
              simp only [h1'] at h
              cases o1 with
              | none => simpa using h
              | some t1 =>
                simp only at h ⊢
                cases h2' : customizedUnion cmp f n r1 y with
                | none => simp [h2'] at h
                | some o2 =>
                  rw [ih _ _ _ h2']
                  simpa [h2'] using h
        · simp only [c, if_false] at h ⊢
          cases hs : split cmp (Tree.node h1 k1 v1 l1 r1) k2 with
          | none => simpa [hs] using h
          | some tr =>
            obtain ⟨x, d, y⟩ := tr
            simp only [hs] at h ⊢
            cases h1' : customizedUnion cmp f n x l2 with
            | none => simp [h1'] at h
            | some o1 =>
              rw [ih _ _ _ h1']
              simp only [h1'] at h
              cases o1 with
              | none => simpa using h
              | some t1 =>
                simp only at h ⊢
                cases h2' : customizedUnion cmp f n y r2 with
                | none => simp [h2'] at h
                | some o2 =>
                  rw [ih _ _ _ h2']
                  simpa [h2'] using h

theorem customizedUnion_mono_le (cmp : K → K → Int) (f : K → V → V → Option V) (fuel fuel' : Nat)
    (hle : fuel ≤ fuel') (a b : Tree K V) (r : Option (Tree K V))
    (h : customizedUnion cmp f fuel a b = some r) : customizedUnion cmp f fuel' a b = some r := by
  induction hle with
  | refl => exact h
  | step _ ih => exact customizedUnion_mono cmp f _ a b r ih

/-- `t` represents the finite map `m`: invariant + same graph. -/
def Rel (t : Tree K V) (m : K → Option V) : Prop :=
  Bal t ∧ Ordered t ∧ ∀ q w, (q, w) ∈ abs t ↔ m q = some w

theorem rel_empty : Rel (Tree.empty : Tree K V) (fun _ => none) := by
  simp [Rel, Bal, Ordered, abs]

theorem mapValues_bal (f : K → V → V) (t : Tree K V) :
    height (mapValues f t) = height t ∧ (Bal t → Bal (mapValues f t)) := by
  induction t with
  | empty => simp [mapValues]
  | leaf k v => simp [mapValues, Bal]
  | node h k v l r ihl ihr =>
    refine ⟨by simp [mapValues], ?_⟩
    intro hb
    simp only [Bal] at hb ⊢
    simp only [mapValues, Bal, ihl.1, ihr.1]
    exact ⟨ihl.2 hb.1, ihr.2 hb.2.1, hb.2.2⟩

/-- keys in an ordered tree are unique -/
theorem ordered_unique {t : Tree K V} (ho : Ordered t) {q : K} {w w' : V}
    (h1 : (q, w) ∈ abs t) (h2 : (q, w') ∈ abs t) : w = w' := by
  simp only [Ordered] at ho
  generalize abs t = xs at *
  induction xs with
  | nil => simp at h1
  | cons x xs ih =>
    simp only [List.pairwise_cons] at ho
    simp only [List.mem_cons] at h1 h2
    rcases h1 with h1 | h1 <;> rcases h2 with h2 | h2
    · rw [← h1] at h2; exact (Prod.mk.inj h2).2.symm ▸ rfl
    · have := ho.1 _ h2; rw [← h1] at this; simp at this
    · have := ho.1 _ h1; rw [← h2] at this; simp at this
    · exact ih ho.2 h1 h2

inductive MOp (K V : Type) where
  | ins (d s : Nat) (k : K) (v : V)
  | rem (d s : Nat) (k : K)
  | fil (d s : Nat) (f : K → V → Bool)
  | parT (d s : Nat) (f : K → V → Bool)
  | parF (d s : Nat) (f : K → V → Bool)
  | splL (d s : Nat) (k : K)
  | splR (d s : Nat) (k : K)
  | mapV (d s : Nat) (f : K → V → V)
  | upd (d s : Nat) (k : K) (g : Option V → Option V)
  | cun (d a b : Nat) (f : K → V → V → Option V)
  | uni (d a b : Nat)
  | mrg (d a b : Nat) (f : K → Option V → Option V → Option V)

def setReg {A : Type} (regs : Nat → A) (d : Nat) (x : A) : Nat → A := fun i => if i = d then x else regs i

/-- `customizedUnion` / `merge` with fuel computed from the operands (enough by
`customizedUnion_spec` / `merge_spec`); outer `none` (out of fuel) is mapped to `none`. -/
def customizedUnionF (cmp : K → K → Int) (f : K → V → V → Option V) (a b : Tree K V) : Option (Tree K V) :=
  match customizedUnion cmp f ((abs a).length + (abs b).length + 1) a b with
  | some r => r
  | none => none

def mergeF (cmp : K → K → Int) (f : K → Option V → Option V → Option V) (a b : Tree K V) :
    Option (Tree K V) :=
  match merge cmp f ((abs a).length + (abs b).length + 1) a b with
  | some r => r
  | none => none

/-- one operation on the registers of trees (`none` = the std code would panic) -/
def stepOp (cmp : K → K → Int) (regs : Nat → Tree K V) : MOp K V → Option (Nat → Tree K V)
  | .ins d s k v => (insert cmp (regs s) k v).map (setReg regs d)
  | .rem d s k => (remove cmp (regs s) k).map (setReg regs d)
  | .fil d s f => (filter f (regs s)).map (setReg regs d)
  | .parT d s f => (partition f (regs s)).map (fun p => setReg regs d p.1)
  | .parF d s f => (partition f (regs s)).map (fun p => setReg regs d p.2)
  | .splL d s k => (split cmp (regs s) k).map (fun p => setReg regs d p.1)
  | .splR d s k => (split cmp (regs s) k).map (fun p => setReg regs d p.2.2)
  | .mapV d s f => some (setReg regs d (mapValues f (regs s)))
  | .upd d s k g => (update cmp g (regs s) k).map (setReg regs d)
  | .cun d a b f => (customizedUnionF cmp f (regs a) (regs b)).map (setReg regs d)
  | .uni d a b => (customizedUnionF cmp (fun _ v1 _ => some v1) (regs a) (regs b)).map (setReg regs d)
  | .mrg d a b f => (mergeF cmp f (regs a) (regs b)).map (setReg regs d)

/-- the same operation on registers of mathematical finite maps -/
def specOp (ms : Nat → K → Option V) : MOp K V → (Nat → K → Option V)
  | .ins d s k v => setReg ms d (fun q => if q = k then some v else ms s q)
  | .rem d s k => setReg ms d (fun q => if q = k then none else ms s q)
  | .fil d s f => setReg ms d (fun q => (ms s q).filter (f q))
  | .parT d s f => setReg ms d (fun q => (ms s q).filter (f q))
  | .parF d s f => setReg ms d (fun q => (ms s q).filter (fun w => !f q w))
  | .splL d s k => setReg ms d (fun q => if q < k then ms s q else none)
  | .splR d s k => setReg ms d (fun q => if k < q then ms s q else none)
  | .mapV d s f => setReg ms d (fun q => (ms s q).map (f q))
  | .upd d s k g => setReg ms d (fun q => if q = k then g (ms s k) else ms s q)
  | .cun d a b f => setReg ms d (fun q => unionWith f q (ms a q) (ms b q))
  | .uni d a b => setReg ms d (fun q => unionWith (fun _ v1 _ => some v1) q (ms a q) (ms b q))
  | .mrg d a b f => setReg ms d (fun q => mergeWith f q (ms a q) (ms b q))

def runOps (cmp : K → K → Int) : (Nat → Tree K V) → List (MOp K V) → Option (Nat → Tree K V)
  | regs, [] => some regs
  | regs, op :: ops =>
    match stepOp cmp regs op with
    | none => none
    | some regs' => runOps cmp regs' ops

def specOps : (Nat → K → Option V) → List (MOp K V) → (Nat → K → Option V)
  | ms, [] => ms
  | ms, op :: ops => specOps (specOp ms op) ops

theorem rel_set {regs : Nat → Tree K V} {ms : Nat → K → Option V}
    (h : ∀ i, Rel (regs i) (ms i)) (d : Nat) {t : Tree K V} {m : K → Option V} (ht : Rel t m) :
    ∀ i, Rel (setReg regs d t i) (setReg ms d m i) := by
  intro i
  simp only [setReg]
  split
  · exact ht
  · exact h i

theorem rel_filter {t t' : Tree K V} {m : K → Option V} (g : K → V → Bool)
    (hr : Rel t m) (b : Bal t') (a : abs t' = (abs t).filter (fun p => g p.1 p.2)) :
    Rel t' (fun q => (m q).filter (g q)) := by
  refine ⟨b, ?_, ?_⟩
  · simp only [Ordered, a]; exact hr.2.1.sublist List.filter_sublist
  · intro q w
    rw [a, List.mem_filter, hr.2.2 q w]
    simp [Option.filter_eq_some_iff]

theorem rel_get {cmp : K → K → Int} (hc : Lawful cmp) {t : Tree K V}
    {m : K → Option V} (h : Rel t m) (q : K) : get cmp t q = m q := by
  apply Option.ext
  intro w
  rw [get_mem hc t h.2.1 q w, h.2.2 q w]

theorem rel_of_get {cmp : K → K → Int} (hc : Lawful cmp) {t : Tree K V}
    {m : K → Option V} (b : Bal t) (o : Ordered t) (g : ∀ q, get cmp t q = m q) : Rel t m :=
  ⟨b, o, fun q w => by rw [← get_mem hc t o q w, g q]⟩

theorem step_refines {cmp : K → K → Int} (hc : Lawful cmp)
    (regs : Nat → Tree K V) (ms : Nat → K → Option V) (h : ∀ i, Rel (regs i) (ms i)) (op : MOp K V) :
    ∃ regs', stepOp cmp regs op = some regs' ∧ ∀ i, Rel (regs' i) (specOp ms op i) := by
  cases op with
  | ins d s k v =>
    obtain ⟨b, o, g⟩ := h s
    obtain ⟨t', e, b', o', m, _⟩ := insert_spec hc (regs s) k v b o
    refine ⟨_, by simp [stepOp, e], rel_set h d ⟨b', o', ?_⟩⟩
    intro q w
    rw [m]
    by_cases c : q = k
    · subst c; simp; exact eq_comm
    · simp [c, g q w]
  | rem d s k =>
    obtain ⟨b, o, g⟩ := h s
    obtain ⟨t', e, b', o', m, _⟩ := remove_spec hc (regs s) k b o
    refine ⟨_, by simp [stepOp, e], rel_set h d ⟨b', o', ?_⟩⟩
    intro q w
    rw [m]
    by_cases c : q = k
    · subst c; simp
    · simp [c, g q w]
  | fil d s f =>
    obtain ⟨t', e, b', a⟩ := filter_spec f (regs s) (h s).1
    exact ⟨_, by simp [stepOp, e], rel_set h d (rel_filter f (h s) b' a)⟩
  | parT d s f =>
    obtain ⟨x, y, e, b1, b2, a1, a2⟩ := partition_spec f (regs s) (h s).1
    exact ⟨_, by simp [stepOp, e], rel_set h d (rel_filter f (h s) b1 a1)⟩
  | parF d s f =>
    obtain ⟨x, y, e, b1, b2, a1, a2⟩ := partition_spec f (regs s) (h s).1
    exact ⟨_, by simp [stepOp, e], rel_set h d (rel_filter (fun k v => !f k v) (h s) b2 a2)⟩
  | splL d s k =>
    obtain ⟨b, o, g⟩ := h s
    obtain ⟨l, pres, r, e, b1, b2, a, g1, g2⟩ := split_spec hc (regs s) k b o
    have o' := o
    simp only [Ordered, a] at o'
    refine ⟨_, by simp [stepOp, e], rel_set h d ⟨b1, ?_, ?_⟩⟩
    · simp only [Ordered]; exact (List.pairwise_append.1 (List.pairwise_append.1 o').1).1
    · intro q w
      constructor
      · intro hm
        have := g1 _ hm
        simp only at this
        simp only [this, if_true]
        exact (g q w).1 (by rw [a]; simp [hm])
      · intro hm
        simp only [] at hm
        split at hm
        · rename_i lt
          have hin := (g q w).2 hm
          rw [a] at hin
          simp only [List.mem_append] at hin
          rcases hin with (h1 | h1) | h1
          · exact h1
          · cases pres with
            | none => simp [midList] at h1
            | some w' => simp [midList] at h1; rw [h1.1] at lt; oo
          · have := g2 _ h1; simp only at this; oo
        · simp at hm
  | splR d s k =>
    obtain ⟨b, o, g⟩ := h s
    obtain ⟨l, pres, r, e, b1, b2, a, g1, g2⟩ := split_spec hc (regs s) k b o
    have o' := o
    simp only [Ordered, a] at o'
    refine ⟨_, by simp [stepOp, e], rel_set h d ⟨b2, ?_, ?_⟩⟩
    · simp only [Ordered]; exact (List.pairwise_append.1 o').2.1
    · intro q w
      constructor
      · intro hm
        have := g2 _ hm
        simp only at this
        simp only [this, if_true]
        exact (g q w).1 (by rw [a]; simp [hm])
      · intro hm
        simp only [] at hm
        split at hm
        · rename_i lt
          have hin := (g q w).2 hm
          rw [a] at hin
          simp only [List.mem_append] at hin
          rcases hin with (h1 | h1) | h1
          · have := g1 _ h1; simp only at this; oo
          · cases pres with
            | none => simp [midList] at h1
            | some w' => simp [midList] at h1; rw [h1.1] at lt; oo
          · exact h1
        · simp at hm
  | mapV d s f =>
    obtain ⟨b, o, g⟩ := h s
    refine ⟨_, rfl, rel_set h d ⟨(mapValues_bal f (regs s)).2 b, ?_, ?_⟩⟩
    · simp only [Ordered, mapValues_refines, List.pairwise_map]
      exact o
    · intro q w
      rw [mapValues_refines, List.mem_map]
      constructor
      · rintro ⟨⟨q', w'⟩, hin, e⟩
        simp only [Prod.mk.injEq] at e
        obtain ⟨e1, e2⟩ := e
        subst e1
        show Option.map (f q') (ms s q') = some w; rw [(g q' w').1 hin]; simp [e2]
      · intro hm
        simp only [] at hm
        cases hq : ms s q with
        | none => simp [hq] at hm
        | some w' =>
          simp [hq] at hm
          exact ⟨(q, w'), (g q w').2 hq, by simp [hm]⟩

  | upd d s k g =>
    obtain ⟨t', e, b', o', gg⟩ := get_update hc g (regs s) k (h s).1 (h s).2.1
    refine ⟨_, by simp [stepOp, e], rel_set h d (rel_of_get hc b' o' ?_)⟩
    intro q; rw [gg q, rel_get hc (h s) k, rel_get hc (h s) q]
  | cun d a b f =>
    obtain ⟨t', e, b', o', gg⟩ := customizedUnion_spec hc f _ (regs a) (regs b) (h a).1 (h a).2.1
      (h b).1 (h b).2.1 (Nat.lt_succ_self _)
    refine ⟨_, by simp [stepOp, customizedUnionF, e], rel_set h d (rel_of_get hc b' o' ?_)⟩
    intro q; rw [gg q, rel_get hc (h a) q, rel_get hc (h b) q]
  | uni d a b =>
    obtain ⟨t', e, b', o', gg⟩ := customizedUnion_spec hc (fun _ v1 _ => some v1) _ (regs a) (regs b)
      (h a).1 (h a).2.1 (h b).1 (h b).2.1 (Nat.lt_succ_self _)
    refine ⟨_, by simp [stepOp, customizedUnionF, e], rel_set h d (rel_of_get hc b' o' ?_)⟩
    intro q; rw [gg q, rel_get hc (h a) q, rel_get hc (h b) q]
  | mrg d a b f =>
    obtain ⟨t', e, b', o', gg⟩ := merge_spec hc f _ (regs a) (regs b) (h a).1 (h a).2.1
      (h b).1 (h b).2.1 (Nat.lt_succ_self _)
    refine ⟨_, by simp [stepOp, mergeF, e], rel_set h d (rel_of_get hc b' o' ?_)⟩
    intro q; rw [gg q, rel_get hc (h a) q, rel_get hc (h b) q]

/-- **Histories mixing all proved operations** on any number of map registers. -/
theorem ops_refine_lemma {cmp : K → K → Int} (hc : Lawful cmp)
    (ops : List (MOp K V)) (regs : Nat → Tree K V) (ms : Nat → K → Option V)
    (h : ∀ i, Rel (regs i) (ms i)) :
    ∃ regs', runOps cmp regs ops = some regs' ∧ ∀ i, Rel (regs' i) (specOps ms ops i) := by
  induction ops generalizing regs ms with
  | nil => exact ⟨regs, rfl, h⟩
  | cons op ops ih =>
    obtain ⟨r1, e1, h1⟩ := step_refines hc regs ms h op
    obtain ⟨r2, e2, h2⟩ := ih r1 _ h1
    exact ⟨r2, by simp [runOps, e1, e2], h2⟩

theorem iter_refines {σ : Type} (f : K → V → σ → σ) (t : Tree K V) (s : σ) :
    iter f t s = (abs t).foldl (fun s kv => f kv.1 kv.2 s) s := by
  induction t generalizing s with
  | empty => rfl
  | leaf k v => rfl
  | node h k v l r ihl ihr => simp [iter, abs, ihl, ihr]

/-- the bindings an enumeration still has to deliver, in order -/
def Enum.toList : Enum K V → List (K × V)
  | .done => []
  | .more k v r e => (k, v) :: (abs r ++ Enum.toList e)

theorem Enum.toList_cons (e : Enum K V) (t : Tree K V) :
    (Enum.cons e t).toList = abs t ++ e.toList := by
  induction t generalizing e with
  | empty => simp [Enum.cons, abs]
  | leaf k v => simp [Enum.cons, Enum.toList, abs]
  | node h k v l r ihl _ => simp [Enum.cons, ihl, Enum.toList, abs]

/-- lexicographic comparison of two ascending enumerations: keys by `cmp`, then values by `f`;
a proper prefix is smaller. -/
def lexCmp (cmp : K → K → Int) (f : V → V → Int) : List (K × V) → List (K × V) → Int
  | [], [] => 0
  | [], _ :: _ => -1
  | _ :: _, [] => 1
  | (k1, v1) :: t1, (k2, v2) :: t2 =>
    if cmp k1 k2 ≠ 0 then cmp k1 k2
    else if f v1 v2 ≠ 0 then f v1 v2 else lexCmp cmp f t1 t2

/-- pointwise equality of two enumerations -/
def eqList (cmp : K → K → Int) (f : V → V → Bool) : List (K × V) → List (K × V) → Bool
  | [], [] => true
  | [], _ :: _ => false
  | _ :: _, [] => false
  | (k1, v1) :: t1, (k2, v2) :: t2 => cmp k1 k2 = 0 && f v1 v2 && eqList cmp f t1 t2

theorem compareHelper_refines (cmp : K → K → Int) (f : V → V → Int) (e1 e2 : Enum K V) :
    compareHelper cmp f e1 e2 = lexCmp cmp f e1.toList e2.toList := by
  fun_induction compareHelper cmp f e1 e2 <;>
    simp_all +zetaDelta [Enum.toList, lexCmp, Enum.toList_cons]

theorem compare_refines (cmp : K → K → Int) (f : V → V → Int) (a b : Tree K V) :
    compare cmp f a b = lexCmp cmp f (abs a) (abs b) := by
  simp [compare, compareHelper_refines, Enum.toList_cons, Enum.toList]

theorem equalHelper_refines (cmp : K → K → Int) (f : V → V → Bool) (e1 e2 : Enum K V) :
    equalHelper cmp f e1 e2 = eqList cmp f e1.toList e2.toList := by
  fun_induction equalHelper cmp f e1 e2 <;>
    simp_all [Enum.toList, eqList, Enum.toList_cons]

theorem equal_refines (cmp : K → K → Int) (f : V → V → Bool) (a b : Tree K V) :
    equal cmp f a b = eqList cmp f (abs a) (abs b) := by
  simp [equal, equalHelper_refines, Enum.toList_cons, Enum.toList]

/-- with a lawful compare and a faithful value test, `equal` decides equality of the finite maps -/
theorem eqList_iff {cmp : K → K → Int} (hc : Lawful cmp) (f : V → V → Bool)
    (hf : ∀ x y, f x y = true ↔ x = y) (xs ys : List (K × V)) : eqList cmp f xs ys = true ↔ xs = ys := by
  induction xs generalizing ys with
  | nil => cases ys <;> simp [eqList]
  | cons x xs ih =>
    cases ys with
    | nil => simp [eqList]
    | cons y ys =>
      obtain ⟨k1, v1⟩ := x; obtain ⟨k2, v2⟩ := y
      simp [eqList, ih, hf, hc.eq k1 k2, and_assoc]

theorem minKey_refines (t : Tree K V) : minKey t = ((abs t).head?).map (·.1) := by
  simp [minKey, min_refines]

theorem maxKey_refines (t : Tree K V) : maxKey t = ((abs t).getLast?).map (·.1) := by
  simp [maxKey, max_refines]

end SamVerif.StdMap
