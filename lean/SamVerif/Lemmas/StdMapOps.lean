import SamVerif.Lemmas.StdMap
/-! Specifications of the rebuilding operations of `Model/StdMap.lean`: `addMin/MaxBinding`,
`addMin/MaxNode`, `join`, `concat`, `internalMerge`, `remove`, `split`, `filter`, `partition`. -/
namespace SamVerif.StdMap
set_option linter.unusedSectionVars false
variable {K V : Type} [DecidableEq K] [DecidableEq V]

theorem ite_ge_eq_max (a b : Int) : (if a ≥ b then a else b) = Max.max a b := by
  split <;> omega

/-- `balanced_spec` with `max` (omega-friendly). -/
theorem balanced_spec' (l r : Tree K V) (k : K) (v : V) (hl : Bal l) (hr : Bal r)
    (h1 : height l ≤ height r + 3) (h2 : height r ≤ height l + 3) :
    ∃ t, balanced l k v r = some t ∧ Bal t ∧ abs t = abs l ++ (k, v) :: abs r ∧
      height t ≤ Max.max (height l) (height r) + 1 ∧ Max.max (height l) (height r) ≤ height t ∧
      (height l ≤ height r + 2 → height r ≤ height l + 2 → height t = Max.max (height l) (height r) + 1) := by
  obtain ⟨t, e, b, a, g1, g2, g3⟩ := balanced_spec l r k v hl hr h1 h2
  rw [ite_ge_eq_max] at g1 g2 g3
  exact ⟨t, e, b, a, g1, g2, fun x y => g3 ⟨x, y⟩⟩

theorem bal_node {h : Int} {k : K} {v : V} {l r : Tree K V} (hb : Bal (.node h k v l r)) :
    Bal l ∧ Bal r ∧ h = Max.max (height l) (height r) + 1 ∧ height l ≤ height r + 2 ∧
      height r ≤ height l + 2 ∧ 0 ≤ height l ∧ 0 ≤ height r := by
  simp only [Bal] at hb
  obtain ⟨bl, br, hh, d1, d2, _⟩ := hb
  rw [show (if height l ≥ height r then height l + 1 else height r + 1) =
    (if height l ≥ height r then height l else height r) + 1 by split <;> rfl, ite_ge_eq_max] at hh
  exact ⟨bl, br, hh, d1, d2, height_nonneg l bl, height_nonneg r br⟩

theorem addMinBinding_spec (k : K) (v : V) (t : Tree K V) (hb : Bal t) :
    ∃ t', addMinBinding k v t = some t' ∧ Bal t' ∧ abs t' = (k, v) :: abs t ∧
      height t ≤ height t' ∧ height t' ≤ height t + 1 := by
  induction t with
  | empty => exact ⟨.leaf k v, rfl, by simp [Bal], by simp [abs], by simp⟩
  | leaf k' v' => exact ⟨.node 2 k v .empty (.leaf k' v'), rfl, by simp [Bal], by simp [abs], by simp⟩
  | node h k' v' l r ihl _ =>
    obtain ⟨bl, br, hh, d1, d2, nl, nr⟩ := bal_node hb
    obtain ⟨l', e, b1, a1, g1, g2⟩ := ihl bl
    obtain ⟨t', e2, b2, a2, g3, g4, g5⟩ := balanced_spec' l' r k' v' b1 br (by omega) (by omega)
    refine ⟨t', by simp [addMinBinding, e, e2], b2, by simp [a2, a1, abs], ?_, ?_⟩ <;>
      (try simp only [height_node]) <;> omega

theorem addMaxBinding_spec (k : K) (v : V) (t : Tree K V) (hb : Bal t) :
    ∃ t', addMaxBinding k v t = some t' ∧ Bal t' ∧ abs t' = abs t ++ [(k, v)] ∧
      height t ≤ height t' ∧ height t' ≤ height t + 1 := by
  induction t with
  | empty => exact ⟨.leaf k v, rfl, by simp [Bal], by simp [abs], by simp⟩
  | leaf k' v' => exact ⟨.node 2 k v (.leaf k' v') .empty, rfl, by simp [Bal], by simp [abs], by simp⟩
  | node h k' v' l r _ ihr =>
    obtain ⟨bl, br, hh, d1, d2, nl, nr⟩ := bal_node hb
    obtain ⟨r', e, b1, a1, g1, g2⟩ := ihr br
    obtain ⟨t', e2, b2, a2, g3, g4, g5⟩ := balanced_spec' l r' k' v' bl b1 (by omega) (by omega)
    refine ⟨t', by simp [addMaxBinding, e, e2], b2, by simp [a2, a1, abs], ?_, ?_⟩ <;>
      (try simp only [height_node]) <;> omega

theorem addMinNode_spec (a : K) (b : V) (t : Tree K V) (hb : Bal t) :
    ∃ t', addMinNode (.leaf a b) t = some t' ∧ Bal t' ∧ abs t' = (a, b) :: abs t ∧
      height t ≤ height t' ∧ height t' ≤ height t + 1 ∧ 1 ≤ height t' := by
  induction t with
  | empty => exact ⟨.leaf a b, rfl, by simp [Bal], by simp [abs], by simp⟩
  | leaf k' v' => exact ⟨.node 2 k' v' (.leaf a b) .empty, rfl, by simp [Bal], by simp [abs], by simp⟩
  | node h k' v' l r ihl _ =>
    obtain ⟨bl, br, hh, d1, d2, nl, nr⟩ := bal_node hb
    obtain ⟨l', e, b1, a1, g1, g2, g6⟩ := ihl bl
    obtain ⟨t', e2, b2, a2, g3, g4, g5⟩ := balanced_spec' l' r k' v' b1 br (by omega) (by omega)
    refine ⟨t', by simp [addMinNode, e, e2], b2, by simp [a2, a1, abs], ?_, ?_, ?_⟩ <;>
      (try simp only [height_node]) <;> omega

theorem addMaxNode_spec (a : K) (b : V) (t : Tree K V) (hb : Bal t) :
    ∃ t', addMaxNode (.leaf a b) t = some t' ∧ Bal t' ∧ abs t' = abs t ++ [(a, b)] ∧
      height t ≤ height t' ∧ height t' ≤ height t + 1 ∧ 1 ≤ height t' := by
  induction t with
  | empty => exact ⟨.leaf a b, rfl, by simp [Bal], by simp [abs], by simp⟩
  | leaf k' v' => exact ⟨.node 2 k' v' .empty (.leaf a b), rfl, by simp [Bal], by simp [abs], by simp⟩
  | node h k' v' l r _ ihr =>
    obtain ⟨bl, br, hh, d1, d2, nl, nr⟩ := bal_node hb
    obtain ⟨r', e, b1, a1, g1, g2, g6⟩ := ihr br
    obtain ⟨t', e2, b2, a2, g3, g4, g5⟩ := balanced_spec' l r' k' v' bl b1 (by omega) (by omega)
    refine ⟨t', by simp [addMaxNode, e, e2], b2, by simp [a2, a1, abs], ?_, ?_, ?_⟩ <;>
      (try simp only [height_node]) <;> omega

theorem ite_succ_max (a b : Int) : (if a ≥ b then a + 1 else b + 1) = Max.max a b + 1 := by
  split <;> omega

theorem bal_leaf (a : K) (b : V) : Bal (Tree.leaf a b) := by simp [Bal]

theorem join_spec (l r : Tree K V) (k : K) (v : V) (hl : Bal l) (hr : Bal r) :
    ∃ t, join l k v r = some t ∧ Bal t ∧ abs t = abs l ++ (k, v) :: abs r ∧
      Max.max (height l) (height r) ≤ height t ∧ height t ≤ Max.max (height l) (height r) + 1 := by
  fun_induction join l k v r
  case case1 k v r =>
    obtain ⟨t, e, b, a, g1, g2⟩ := addMinBinding_spec k v r hr
    have := height_nonneg r hr
    exact ⟨t, e, b, by simp [a, abs], by simp only [height_empty]; omega, by simp only [height_empty]; omega⟩
  case case2 a b k v =>
    obtain ⟨t, e, b, a, g1, g2⟩ := addMaxBinding_spec k v (.leaf a b) hl
    exact ⟨t, e, b, by simp [a, abs], by simp only [height_empty, height_leaf] at *; omega,
      by simp only [height_empty, height_leaf] at *; omega⟩
  case case3 lh lk lv ll lr k v =>
    obtain ⟨t, e, b, a, g1, g2⟩ := addMaxBinding_spec k v _ hl
    obtain ⟨_, _, hh, _, _, _, _⟩ := bal_node hl
    exact ⟨t, e, b, by simp [a, abs], by simp only [height_empty, height_node] at *; omega,
      by simp only [height_empty, height_node] at *; omega⟩
  case case4 a b k v c d =>
    exact ⟨_, rfl, by simp [Bal], by simp [abs], by simp, by simp⟩
  case case5 a b k v rh rk rv rl rr h x ih =>
    obtain ⟨brl, brr, hh, d1, d2, n1, n2⟩ := bal_node hr
    obtain ⟨t, e, _⟩ := ih hl brl
    rw [e] at x; cases x
  case case6 a b k v rh rk rv rl rr h t' x ih =>
    obtain ⟨brl, brr, hh, d1, d2, n1, n2⟩ := bal_node hr
    obtain ⟨t, e, b1, a1, g1, g2⟩ := ih hl brl
    rw [e] at x; cases x
    simp only [height_leaf] at g1 g2
    obtain ⟨t2, e2, b2, a2, g3, g4, g5⟩ := balanced_spec' t' rr rk rv b1 brr (by omega) (by omega)
    refine ⟨t2, e2, b2, by simp [a2, a1, abs], ?_, ?_⟩ <;> simp only [height_leaf, height_node] <;> omega
  case case7 a b k v rh rk rv rl rr h =>
    obtain ⟨brl, brr, hh, d1, d2, n1, n2⟩ := bal_node hr
    obtain ⟨b1, a1, e1⟩ := create_spec (.leaf a b) (.node rh rk rv rl rr) k v hl hr
      (by simp only [height_leaf, height_node]; omega) (by simp only [height_leaf, height_node]; omega)
    rw [ite_succ_max] at e1
    refine ⟨_, rfl, b1, a1, ?_, ?_⟩ <;> rw [e1] <;> omega
  case case8 lh lk lv ll lr k v c d h x ih =>
    obtain ⟨bll, blr, hh, d1, d2, n1, n2⟩ := bal_node hl
    obtain ⟨t, e, _⟩ := ih blr hr
    rw [e] at x; cases x
  case case9 lh lk lv ll lr k v c d h t' x ih =>
    obtain ⟨bll, blr, hh, d1, d2, n1, n2⟩ := bal_node hl
    obtain ⟨t, e, b1, a1, g1, g2⟩ := ih blr hr
    rw [e] at x; cases x
    simp only [height_leaf] at g1 g2
    obtain ⟨t2, e2, b2, a2, g3, g4, g5⟩ := balanced_spec' ll t' lk lv bll b1 (by omega) (by omega)
    refine ⟨t2, e2, b2, by simp [a2, a1, abs], ?_, ?_⟩ <;> simp only [height_leaf, height_node] <;> omega
  case case10 lh lk lv ll lr k v c d h =>
    obtain ⟨bll, blr, hh, d1, d2, n1, n2⟩ := bal_node hl
    obtain ⟨b1, a1, e1⟩ := create_spec (.node lh lk lv ll lr) (.leaf c d) k v hl hr
      (by simp only [height_leaf, height_node]; omega) (by simp only [height_leaf, height_node]; omega)
    rw [ite_succ_max] at e1
    refine ⟨_, rfl, b1, a1, ?_, ?_⟩ <;> rw [e1] <;> omega
  case case11 lh lk lv ll lr k v rh rk rv rl rr h x ih =>
    obtain ⟨bll, blr, hh, d1, d2, n1, n2⟩ := bal_node hl
    obtain ⟨t, e, _⟩ := ih blr hr
    rw [e] at x; cases x
  case case12 lh lk lv ll lr k v rh rk rv rl rr h t' x ih =>
    obtain ⟨bll, blr, hh, d1, d2, n1, n2⟩ := bal_node hl
    obtain ⟨brl, brr, hh', d1', d2', n1', n2'⟩ := bal_node hr
    obtain ⟨t, e, b1, a1, g1, g2⟩ := ih blr hr
    rw [e] at x; cases x
    simp only [height_node] at g1 g2
    obtain ⟨t2, e2, b2, a2, g3, g4, g5⟩ := balanced_spec' ll t' lk lv bll b1 (by omega) (by omega)
    refine ⟨t2, e2, b2, by simp [a2, a1, abs], ?_, ?_⟩ <;> simp only [height_node] <;> omega
  case case13 lh lk lv ll lr k v rh rk rv rl rr h1 h2 x ih =>
    obtain ⟨brl, brr, hh', d1', d2', n1', n2'⟩ := bal_node hr
    obtain ⟨t, e, _⟩ := ih hl brl
    rw [e] at x; cases x
  case case14 lh lk lv ll lr k v rh rk rv rl rr h1 h2 t' x ih =>
    obtain ⟨bll, blr, hh, d1, d2, n1, n2⟩ := bal_node hl
    obtain ⟨brl, brr, hh', d1', d2', n1', n2'⟩ := bal_node hr
    obtain ⟨t, e, b1, a1, g1, g2⟩ := ih hl brl
    rw [e] at x; cases x
    simp only [height_node] at g1 g2
    obtain ⟨t2, e2, b2, a2, g3, g4, g5⟩ := balanced_spec' t' rr rk rv b1 brr (by omega) (by omega)
    refine ⟨t2, e2, b2, by simp [a2, a1, abs], ?_, ?_⟩ <;> simp only [height_node] <;> omega
  case case15 lh lk lv ll lr k v rh rk rv rl rr h1 h2 =>
    obtain ⟨b1, a1, e1⟩ := create_spec (.node lh lk lv ll lr) (.node rh rk rv rl rr) k v hl hr
      (by simp only [height_node]; omega) (by simp only [height_node]; omega)
    rw [ite_succ_max] at e1
    refine ⟨_, rfl, b1, a1, ?_, ?_⟩ <;> rw [e1] <;> omega
theorem abs_node_ne_nil (h : Int) (k : K) (v : V) (l r : Tree K V) : abs (.node h k v l r) ≠ [] := by
  simp [abs]

theorem minBindingUnsafe_spec (l : Tree K V) : ∀ (h : Int) (k : K) (v : V) (r : Tree K V),
    minBindingUnsafe (.node h k v l r) = (abs (.node h k v l r)).head? := by
  induction l with
  | empty => intro h k v r; simp [minBindingUnsafe, abs]
  | leaf a b => intro h k v r; simp [minBindingUnsafe, abs]
  | node h' k' v' l' r' ihl _ =>
    intro h k v r
    rw [minBindingUnsafe, ihl h' k' v' r']
    simp [abs, List.head?_append]

theorem removeMinUnsafe_spec (l : Tree K V) : ∀ (h : Int) (k : K) (v : V) (r : Tree K V),
    Bal (.node h k v l r) →
    ∃ t', removeMinUnsafe (.node h k v l r) = some t' ∧ Bal t' ∧
      abs t' = (abs (.node h k v l r)).tail ∧ h - 1 ≤ height t' ∧ height t' ≤ h := by
  induction l with
  | empty =>
    intro h k v r hb
    obtain ⟨bl, br, hh, d1, d2, nl, nr⟩ := bal_node hb
    simp only [height_empty] at *
    exact ⟨r, by simp [removeMinUnsafe], br, by simp [abs], by omega, by omega⟩
  | leaf a b =>
    intro h k v r hb
    obtain ⟨bl, br, hh, d1, d2, nl, nr⟩ := bal_node hb
    simp only [height_leaf] at *
    obtain ⟨t', e2, b2, a2, g3, g4, g5⟩ := balanced_spec' .empty r k v (by simp [Bal]) br
      (by simp only [height_empty]; omega) (by simp only [height_empty]; omega)
    simp only [height_empty] at *
    exact ⟨t', by simp [removeMinUnsafe, e2], b2, by simp [a2, abs], by omega, by omega⟩
  | node h' k' v' l' r' ihl _ =>
    intro h k v r hb
    obtain ⟨bl, br, hh, d1, d2, nl, nr⟩ := bal_node hb
    obtain ⟨l2, e, b1, a1, g1, g2⟩ := ihl h' k' v' r' bl
    simp only [height_node] at *
    obtain ⟨t', e2, b2, a2, g3, g4, g5⟩ := balanced_spec' l2 r k v b1 br (by omega) (by omega)
    refine ⟨t', by rw [removeMinUnsafe]; simp only [e]; exact e2, b2, ?_, by omega, by omega⟩
    rw [a2, a1]
    have := abs_node_ne_nil h' k' v' l' r'
    rw [show abs (Tree.node h k v (Tree.node h' k' v' l' r') r) =
      abs (Tree.node h' k' v' l' r') ++ (k, v) :: abs r from rfl]
    cases hx : abs (Tree.node h' k' v' l' r') with
    | nil => exact absurd hx this
    | cons x xs => simp

theorem internalMerge_spec (t1 t2 : Tree K V) (h1 : Bal t1) (h2 : Bal t2)
    (d1 : height t1 ≤ height t2 + 2) (d2 : height t2 ≤ height t1 + 2) :
    ∃ t, internalMerge t1 t2 = some t ∧ Bal t ∧ abs t = abs t1 ++ abs t2 ∧
      Max.max (height t1) (height t2) ≤ height t ∧ height t ≤ Max.max (height t1) (height t2) + 1 := by
  have n1 := height_nonneg t1 h1
  have n2 := height_nonneg t2 h2
  cases t1 with
  | empty => exact ⟨t2, by cases t2 <;> simp [internalMerge], h2, by simp [abs], by simp only [height_empty]; omega, by simp only [height_empty]; omega⟩
  | leaf a b =>
    cases t2 with
    | empty => exact ⟨_, by simp [internalMerge], h1, by simp [abs], by simp only [height_empty, height_leaf]; omega, by simp only [height_empty, height_leaf]; omega⟩
    | leaf c d =>
      obtain ⟨t, e, b1, a1, g1, g2, g3⟩ := addMinNode_spec a b (.leaf c d) h2
      exact ⟨t, by simpa [internalMerge] using e, b1, by simp [a1, abs], by simp only [height_leaf] at *; omega, by simp only [height_leaf] at *; omega⟩
    | node h k v l r =>
      obtain ⟨t, e, b1, a1, g1, g2, g3⟩ := addMinNode_spec a b (.node h k v l r) h2
      exact ⟨t, by simpa [internalMerge] using e, b1, by simp [a1, abs], by simp only [height_leaf, height_node] at *; omega, by simp only [height_leaf, height_node] at *; omega⟩
  | node h k v l r =>
    cases t2 with
    | empty => exact ⟨_, by simp [internalMerge], h1, by simp [abs], by simp only [height_empty, height_node] at *; omega, by simp only [height_empty, height_node] at *; omega⟩
    | leaf c d =>
      obtain ⟨t, e, b1, a1, g1, g2, g3⟩ := addMaxNode_spec c d (.node h k v l r) h1
      exact ⟨t, by simpa [internalMerge] using e, b1, by simp [a1, abs], by simp only [height_leaf, height_node] at *; omega, by simp only [height_leaf, height_node] at *; omega⟩
    | node h' k' v' l' r' =>
      have m := minBindingUnsafe_spec l' h' k' v' r'
      obtain ⟨t2', e, b1, a1, g1, g2⟩ := removeMinUnsafe_spec l' h' k' v' r' h2
      have ne := abs_node_ne_nil h' k' v' l' r'
      cases hx : abs (Tree.node h' k' v' l' r') with
      | nil => exact absurd hx ne
      | cons x xs =>
        rw [hx] at m a1
        simp only [List.head?_cons, List.tail_cons] at m a1
        obtain ⟨xk, xv⟩ := x
        simp only [height_node] at *
        obtain ⟨t, e2, b2, a2, g3, g4, g5⟩ := balanced_spec' (.node h k v l r) t2' xk xv h1 b1
          (by simp only [height_node]; omega) (by simp only [height_node]; omega)
        simp only [height_node] at *
        exact ⟨t, by simp [internalMerge, m, e, e2], b2, by simp [a2, a1], by omega, by omega⟩

theorem concat_spec (t1 t2 : Tree K V) (h1 : Bal t1) (h2 : Bal t2) :
    ∃ t, concat t1 t2 = some t ∧ Bal t ∧ abs t = abs t1 ++ abs t2 := by
  cases t1 with
  | empty => exact ⟨t2, by cases t2 <;> simp [concat], h2, by simp [abs]⟩
  | leaf a b =>
    cases t2 with
    | empty => exact ⟨_, by simp [concat], h1, by simp [abs]⟩
    | leaf c d =>
      obtain ⟨t, e, b1, a1, _⟩ := addMinNode_spec a b (.leaf c d) h2
      exact ⟨t, by simpa [concat] using e, b1, by simp [a1, abs]⟩
    | node h k v l r =>
      obtain ⟨t, e, b1, a1, _⟩ := addMinNode_spec a b (.node h k v l r) h2
      exact ⟨t, by simpa [concat] using e, b1, by simp [a1, abs]⟩
  | node h k v l r =>
    cases t2 with
    | empty => exact ⟨_, by simp [concat], h1, by simp [abs]⟩
    | leaf c d =>
      obtain ⟨t, e, b1, a1, _⟩ := addMaxNode_spec c d (.node h k v l r) h1
      exact ⟨t, by simpa [concat] using e, b1, by simp [a1, abs]⟩
    | node h' k' v' l' r' =>
      have m := minBindingUnsafe_spec l' h' k' v' r'
      obtain ⟨t2', e, b1, a1, g1, g2⟩ := removeMinUnsafe_spec l' h' k' v' r' h2
      have ne := abs_node_ne_nil h' k' v' l' r'
      cases hx : abs (Tree.node h' k' v' l' r') with
      | nil => exact absurd hx ne
      | cons x xs =>
        rw [hx] at m a1
        simp only [List.head?_cons, List.tail_cons] at m a1
        obtain ⟨xk, xv⟩ := x
        obtain ⟨t, e2, b2, a2, _⟩ := join_spec (.node h k v l r) t2' xk xv h1 b1
        exact ⟨t, by simp [concat, m, e, e2], b2, by simp [a2, a1]⟩

theorem pairwise_drop_mid {R : K × V → K × V → Prop} {a b : List (K × V)} {x : K × V}
    (h : (a ++ x :: b).Pairwise R) : (a ++ b).Pairwise R :=
  h.sublist (List.Sublist.append (List.Sublist.refl a) (List.sublist_cons_self x b))

theorem remove_spec {cmp : K → K → Int} {rank : K → Int} (hc : Lawful cmp rank) (t : Tree K V) (k : K)
    (hb : Bal t) (ho : Ordered rank t) :
    ∃ t', remove cmp t k = some t' ∧ Bal t' ∧ Ordered rank t' ∧
      (∀ p, p ∈ abs t' ↔ (p ∈ abs t ∧ p.1 ≠ k)) ∧
      height t - 1 ≤ height t' ∧ height t' ≤ height t := by
  induction t with
  | empty => exact ⟨.empty, rfl, hb, ho, by simp [abs], by simp, by simp⟩
  | leaf k' v' =>
    have heq := hc.eq k k'
    simp only [remove]
    by_cases c0 : cmp k k' = 0
    · have : k = k' := heq.1 c0
      subst this
      exact ⟨.empty, by simp [c0], by simp [Bal], by simp [Ordered, abs], by simp [abs], by simp, by simp⟩
    · have nk : k' ≠ k := fun e => c0 (heq.2 e.symm)
      refine ⟨.leaf k' v', by simp [c0], hb, ho, ?_, by simp, by simp⟩
      intro p; simp only [abs, List.mem_singleton]
      constructor
      · intro e; subst e; exact ⟨rfl, nk⟩
      · exact fun h => h.1
  | node h k' v' l r ihl ihr =>
    have hlt := hc.lt k k'; have heq := hc.eq k k'; have hgt := hc.gt k k'
    obtain ⟨ol, or, bl, br⟩ := ordered_node ho
    obtain ⟨bll, brr, hh, d1, d2, nl, nr⟩ := bal_node hb
    simp only [remove]
    by_cases c0 : cmp k k' = 0
    · have : k = k' := heq.1 c0
      subst this
      obtain ⟨t', e, b1, a1, g1, g2⟩ := internalMerge_spec l r bll brr d1 d2
      refine ⟨t', by simp [c0, e], b1, ?_, ?_, by simp only [height_node]; omega, by simp only [height_node]; omega⟩
      · simp only [Ordered, a1]; exact pairwise_drop_mid ho
      · intro p
        rw [a1]
        simp only [abs, List.mem_append, List.mem_cons]
        constructor
        · rintro (h1 | h1)
          · exact ⟨Or.inl h1, fun e => by have := bl p h1; rw [e] at this; omega⟩
          · exact ⟨Or.inr (Or.inr h1), fun e => by have := br p h1; rw [e] at this; omega⟩
        · rintro ⟨h1 | h1 | h1, ne⟩
          · exact Or.inl h1
          · subst h1; exact absurd rfl ne
          · exact Or.inr h1
    · by_cases c1 : cmp k k' < 0
      · obtain ⟨ll, e, b1, o1, m1, g1, g2⟩ := ihl bll ol
        obtain ⟨t', e2, b2, a2, g3, g4, g5⟩ := balanced_spec' ll r k' v' b1 brr (by omega) (by omega)
        have ord : (abs ll ++ (k', v') :: abs r).Pairwise (fun x y => rank x.1 < rank y.1) :=
          ordered_of_parts o1 or (fun p hp => bl p ((m1 p).1 hp).1) br
        have nk : k' ≠ k := by intro e; subst e; simp at hlt; omega
        have lt := hlt.1 c1
        have mem : ∀ p, p ∈ abs ll ++ (k', v') :: abs r ↔
            (p ∈ abs l ++ (k', v') :: abs r ∧ p.1 ≠ k) := by
          intro p
          have := m1 p
          simp only [List.mem_append, List.mem_cons]
          constructor
          · rintro (h1 | h1 | h1)
            · exact ⟨Or.inl (this.1 h1).1, (this.1 h1).2⟩
            · subst h1; exact ⟨Or.inr (Or.inl rfl), nk⟩
            · exact ⟨Or.inr (Or.inr h1), fun e => by have := br p h1; rw [e] at this; omega⟩
          · rintro ⟨h1 | h1 | h1, ne⟩
            · exact Or.inl (this.2 ⟨h1, ne⟩)
            · exact Or.inr (Or.inl h1)
            · exact Or.inr (Or.inr h1)
        by_cases same : l = ll
        · subst same
          exact ⟨.node h k' v' l r, by simp [c0, c1, e], hb, ho, by simpa [abs] using mem, by simp only [height_node]; omega, by simp⟩
        · refine ⟨t', by simp [c0, c1, e, same, e2], b2, by simpa [Ordered, a2] using ord,
            by simpa [a2, abs] using mem, ?_, ?_⟩ <;> simp only [height_node] <;> omega
      · have c2 : cmp k k' > 0 := by omega
        obtain ⟨rr, e, b1, o1, m1, g1, g2⟩ := ihr brr or
        obtain ⟨t', e2, b2, a2, g3, g4, g5⟩ := balanced_spec' l rr k' v' bll b1 (by omega) (by omega)
        have ord : (abs l ++ (k', v') :: abs rr).Pairwise (fun x y => rank x.1 < rank y.1) :=
          ordered_of_parts ol o1 bl (fun p hp => br p ((m1 p).1 hp).1)
        have nk : k' ≠ k := by intro e; subst e; simp at hgt; omega
        have gt := hgt.1 c2
        have mem : ∀ p, p ∈ abs l ++ (k', v') :: abs rr ↔
            (p ∈ abs l ++ (k', v') :: abs r ∧ p.1 ≠ k) := by
          intro p
          have := m1 p
          simp only [List.mem_append, List.mem_cons]
          constructor
          · rintro (h1 | h1 | h1)
            · exact ⟨Or.inl h1, fun e => by have := bl p h1; rw [e] at this; omega⟩
            · subst h1; exact ⟨Or.inr (Or.inl rfl), nk⟩
            · exact ⟨Or.inr (Or.inr (this.1 h1).1), (this.1 h1).2⟩
          · rintro ⟨h1 | h1 | h1, ne⟩
            · exact Or.inl h1
            · exact Or.inr (Or.inl h1)
            · exact Or.inr (Or.inr (this.2 ⟨h1, ne⟩))
        by_cases same : r = rr
        · subst same
          exact ⟨.node h k' v' l r, by simp [c0, c1, e], hb, ho, by simpa [abs] using mem, by simp only [height_node]; omega, by simp⟩
        · refine ⟨t', by simp [c0, c1, e, same, e2], b2, by simpa [Ordered, a2] using ord,
            by simpa [a2, abs] using mem, ?_, ?_⟩ <;> simp only [height_node] <;> omega

/-- the binding found by `split`, as a list -/
def midList (key : K) (pres : Option V) : List (K × V) :=
  match pres with
  | none => []
  | some w => [(key, w)]

theorem split_spec {cmp : K → K → Int} {rank : K → Int} (hc : Lawful cmp rank) (t : Tree K V) (key : K)
    (hb : Bal t) (ho : Ordered rank t) :
    ∃ l pres r, split cmp t key = some (l, pres, r) ∧ Bal l ∧ Bal r ∧
      abs t = abs l ++ midList key pres ++ abs r ∧
      (∀ p ∈ abs l, rank p.1 < rank key) ∧ (∀ p ∈ abs r, rank key < rank p.1) := by
  induction t with
  | empty => exact ⟨.empty, none, .empty, rfl, hb, hb, by simp [abs, midList], by simp [abs], by simp [abs]⟩
  | leaf k' v' =>
    have hlt := hc.lt key k'; have heq := hc.eq key k'; have hgt := hc.gt key k'
    simp only [split]
    by_cases c0 : cmp key k' = 0
    · have : key = k' := heq.1 c0
      subst this
      exact ⟨.empty, some v', .empty, by simp [c0], by simp [Bal], by simp [Bal], by simp [abs, midList],
        by simp [abs], by simp [abs]⟩
    · by_cases c1 : cmp key k' < 0
      · exact ⟨.empty, none, .leaf k' v', by simp [c0, c1], by simp [Bal], hb, by simp [abs, midList],
          by simp [abs], by simp [abs]; exact hlt.1 c1⟩
      · exact ⟨.leaf k' v', none, .empty, by simp [c0, c1], hb, by simp [Bal], by simp [abs, midList],
          by simp [abs]; exact hgt.1 (by omega), by simp [abs]⟩
  | node h k' v' l r ihl ihr =>
    have hlt := hc.lt key k'; have heq := hc.eq key k'; have hgt := hc.gt key k'
    obtain ⟨ol, or, bl, br⟩ := ordered_node ho
    obtain ⟨bll, brr, hh, d1, d2, nl, nr⟩ := bal_node hb
    simp only [split]
    by_cases c0 : cmp key k' = 0
    · have : key = k' := heq.1 c0
      subst this
      exact ⟨l, some v', r, by simp [c0], bll, brr, by simp [abs, midList], bl, br⟩
    · by_cases c1 : cmp key k' < 0
      · obtain ⟨ll, pres, rl, e, b1, b2, a1, g1, g2⟩ := ihl bll ol
        obtain ⟨t2, e2, b3, a3, _⟩ := join_spec rl r k' v' b2 brr
        have lt := hlt.1 c1
        refine ⟨ll, pres, t2, by simp [c0, c1, e, e2], b1, b3, by simp [abs, a1, a3], g1, ?_⟩
        intro p hp
        rw [a3] at hp
        simp only [List.mem_append, List.mem_cons] at hp
        rcases hp with h1 | h1 | h1
        · exact g2 p h1
        · subst h1; exact lt
        · have := br p h1; omega
      · have gt := hgt.1 (by omega)
        obtain ⟨lr, pres, rr, e, b1, b2, a1, g1, g2⟩ := ihr brr or
        obtain ⟨t2, e2, b3, a3, _⟩ := join_spec l lr k' v' bll b1
        refine ⟨t2, pres, rr, by simp [c0, c1, e, e2], b3, b2, by simp [abs, a1, a3], ?_, g2⟩
        intro p hp
        rw [a3] at hp
        simp only [List.mem_append, List.mem_cons] at hp
        rcases hp with h1 | h1 | h1
        · have := bl p h1; omega
        · subst h1; exact gt
        · exact g1 p h1

theorem filter_spec (f : K → V → Bool) (t : Tree K V) (hb : Bal t) :
    ∃ t', filter f t = some t' ∧ Bal t' ∧ abs t' = (abs t).filter (fun p => f p.1 p.2) := by
  induction t with
  | empty => exact ⟨.empty, rfl, hb, by simp [abs]⟩
  | leaf k v =>
    simp only [filter]
    by_cases c : f k v = true
    · exact ⟨.leaf k v, by simp [c], hb, by simp [abs, c]⟩
    · exact ⟨.empty, by simp [c], by simp [Bal], by simp [abs, c]⟩
  | node h k v l r ihl ihr =>
    obtain ⟨bll, brr, _⟩ := bal_node hb
    obtain ⟨newL, e1, b1, a1⟩ := ihl bll
    obtain ⟨newR, e2, b2, a2⟩ := ihr brr
    simp only [filter, e1, e2]
    by_cases c : f k v = true
    · by_cases same : l = newL ∧ r = newR
      · obtain ⟨s1, s2⟩ := same
        subst s1; subst s2
        refine ⟨.node h k v l r, by simp [c], hb, ?_⟩
        simp only [abs, List.filter_append, List.filter_cons, c, if_true, ← a1, ← a2]
      · obtain ⟨t', e3, b3, a3, _⟩ := join_spec newL newR k v b1 b2
        exact ⟨t', by simp [c, same, e3], b3, by simp [a3, abs, a1, a2, c]⟩
    · obtain ⟨t', e3, b3, a3⟩ := concat_spec newL newR b1 b2
      exact ⟨t', by simp [c, e3], b3, by simp [a3, abs, a1, a2, c]⟩

theorem partition_spec (f : K → V → Bool) (t : Tree K V) (hb : Bal t) :
    ∃ a b, partition f t = some (a, b) ∧ Bal a ∧ Bal b ∧
      abs a = (abs t).filter (fun p => f p.1 p.2) ∧ abs b = (abs t).filter (fun p => !f p.1 p.2) := by
  induction t with
  | empty => exact ⟨.empty, .empty, rfl, hb, hb, by simp [abs], by simp [abs]⟩
  | leaf k v =>
    simp only [partition]
    by_cases c : f k v = true
    · exact ⟨.leaf k v, .empty, by simp [c], hb, by simp [Bal], by simp [abs, c], by simp [abs, c]⟩
    · exact ⟨.empty, .leaf k v, by simp [c], by simp [Bal], hb, by simp [abs, c], by simp [abs, c]⟩
  | node h k v l r ihl ihr =>
    obtain ⟨bll, brr, _⟩ := bal_node hb
    obtain ⟨lt, lf, e1, b1, b1', a1, a1'⟩ := ihl bll
    obtain ⟨rt, rf, e2, b2, b2', a2, a2'⟩ := ihr brr
    simp only [partition, e1, e2]
    by_cases c : f k v = true
    · obtain ⟨x, e3, b3, a3, _⟩ := join_spec lt rt k v b1 b2
      obtain ⟨y, e4, b4, a4⟩ := concat_spec lf rf b1' b2'
      exact ⟨x, y, by simp [c, e3, e4], b3, b4, by simp [a3, abs, a1, a2, c], by simp [a4, abs, a1', a2', c]⟩
    · obtain ⟨x, e3, b3, a3⟩ := concat_spec lt rt b1 b2
      obtain ⟨y, e4, b4, a4, _⟩ := join_spec lf rf k v b1' b2'
      exact ⟨x, y, by simp [c, e3, e4], b3, b4, by simp [a3, abs, a1, a2, c], by simp [a4, abs, a1', a2', c]⟩

/-- `t` represents the finite map `m`: invariant + same graph. -/
def Rel (rank : K → Int) (t : Tree K V) (m : K → Option V) : Prop :=
  Bal t ∧ Ordered rank t ∧ ∀ q w, (q, w) ∈ abs t ↔ m q = some w

theorem rel_empty (rank : K → Int) : Rel rank (Tree.empty : Tree K V) (fun _ => none) := by
  simp [Rel, Bal, Ordered, abs]

theorem mapValues_bal (f : K → V → V) (t : Tree K V) :
    height (mapValues f t) = height t ∧ (Bal t → Bal (mapValues f t)) := by
  induction t with
  | empty => simp [mapValues]
  | leaf k v => simp [mapValues, Bal]
  | node h k v l r ihl ihr =>
    refine ⟨by simp [mapValues], ?_⟩
    intro hb
    simp only [Bal] at hb ⊢
    simp only [mapValues, Bal, ihl.1, ihr.1]
    exact ⟨ihl.2 hb.1, ihr.2 hb.2.1, hb.2.2⟩

/-- keys in an ordered tree are unique -/
theorem ordered_unique {rank : K → Int} {t : Tree K V} (ho : Ordered rank t) {q : K} {w w' : V}
    (h1 : (q, w) ∈ abs t) (h2 : (q, w') ∈ abs t) : w = w' := by
  simp only [Ordered] at ho
  generalize abs t = xs at *
  induction xs with
  | nil => simp at h1
  | cons x xs ih =>
    simp only [List.pairwise_cons] at ho
    simp only [List.mem_cons] at h1 h2
    rcases h1 with h1 | h1 <;> rcases h2 with h2 | h2
    · rw [← h1] at h2; exact (Prod.mk.inj h2).2.symm ▸ rfl
    · have := ho.1 _ h2; rw [← h1] at this; simp at this
    · have := ho.1 _ h1; rw [← h2] at this; simp at this
    · exact ih ho.2 h1 h2

inductive MOp (K V : Type) where
  | ins (d s : Nat) (k : K) (v : V)
  | rem (d s : Nat) (k : K)
  | fil (d s : Nat) (f : K → V → Bool)
  | parT (d s : Nat) (f : K → V → Bool)
  | parF (d s : Nat) (f : K → V → Bool)
  | splL (d s : Nat) (k : K)
  | splR (d s : Nat) (k : K)
  | mapV (d s : Nat) (f : K → V → V)

def setReg {A : Type} (regs : Nat → A) (d : Nat) (x : A) : Nat → A := fun i => if i = d then x else regs i

/-- one operation on the registers of trees (`none` = the std code would panic) -/
def stepOp (cmp : K → K → Int) (regs : Nat → Tree K V) : MOp K V → Option (Nat → Tree K V)
  | .ins d s k v => (insert cmp (regs s) k v).map (setReg regs d)
  | .rem d s k => (remove cmp (regs s) k).map (setReg regs d)
  | .fil d s f => (filter f (regs s)).map (setReg regs d)
  | .parT d s f => (partition f (regs s)).map (fun p => setReg regs d p.1)
  | .parF d s f => (partition f (regs s)).map (fun p => setReg regs d p.2)
  | .splL d s k => (split cmp (regs s) k).map (fun p => setReg regs d p.1)
  | .splR d s k => (split cmp (regs s) k).map (fun p => setReg regs d p.2.2)
  | .mapV d s f => some (setReg regs d (mapValues f (regs s)))

/-- the same operation on registers of mathematical finite maps -/
def specOp (rank : K → Int) (ms : Nat → K → Option V) : MOp K V → (Nat → K → Option V)
  | .ins d s k v => setReg ms d (fun q => if q = k then some v else ms s q)
  | .rem d s k => setReg ms d (fun q => if q = k then none else ms s q)
  | .fil d s f => setReg ms d (fun q => (ms s q).filter (f q))
  | .parT d s f => setReg ms d (fun q => (ms s q).filter (f q))
  | .parF d s f => setReg ms d (fun q => (ms s q).filter (fun w => !f q w))
  | .splL d s k => setReg ms d (fun q => if rank q < rank k then ms s q else none)
  | .splR d s k => setReg ms d (fun q => if rank k < rank q then ms s q else none)
  | .mapV d s f => setReg ms d (fun q => (ms s q).map (f q))

def runOps (cmp : K → K → Int) : (Nat → Tree K V) → List (MOp K V) → Option (Nat → Tree K V)
  | regs, [] => some regs
  | regs, op :: ops =>
    match stepOp cmp regs op with
    | none => none
    | some regs' => runOps cmp regs' ops

def specOps (rank : K → Int) : (Nat → K → Option V) → List (MOp K V) → (Nat → K → Option V)
  | ms, [] => ms
  | ms, op :: ops => specOps rank (specOp rank ms op) ops

theorem rel_set {rank : K → Int} {regs : Nat → Tree K V} {ms : Nat → K → Option V}
    (h : ∀ i, Rel rank (regs i) (ms i)) (d : Nat) {t : Tree K V} {m : K → Option V} (ht : Rel rank t m) :
    ∀ i, Rel rank (setReg regs d t i) (setReg ms d m i) := by
  intro i
  simp only [setReg]
  split
  · exact ht
  · exact h i

theorem rel_filter {rank : K → Int} {t t' : Tree K V} {m : K → Option V} (g : K → V → Bool)
    (hr : Rel rank t m) (b : Bal t') (a : abs t' = (abs t).filter (fun p => g p.1 p.2)) :
    Rel rank t' (fun q => (m q).filter (g q)) := by
  refine ⟨b, ?_, ?_⟩
  · simp only [Ordered, a]; exact hr.2.1.sublist List.filter_sublist
  · intro q w
    rw [a, List.mem_filter, hr.2.2 q w]
    simp [Option.filter_eq_some_iff]

theorem step_refines {cmp : K → K → Int} {rank : K → Int} (hc : Lawful cmp rank)
    (regs : Nat → Tree K V) (ms : Nat → K → Option V) (h : ∀ i, Rel rank (regs i) (ms i)) (op : MOp K V) :
    ∃ regs', stepOp cmp regs op = some regs' ∧ ∀ i, Rel rank (regs' i) (specOp rank ms op i) := by
  cases op with
  | ins d s k v =>
    obtain ⟨b, o, g⟩ := h s
    obtain ⟨t', e, b', o', m, _⟩ := insert_spec hc (regs s) k v b o
    refine ⟨_, by simp [stepOp, e], rel_set h d ⟨b', o', ?_⟩⟩
    intro q w
    rw [m]
    by_cases c : q = k
    · subst c; simp; exact eq_comm
    · simp [c, g q w]
  | rem d s k =>
    obtain ⟨b, o, g⟩ := h s
    obtain ⟨t', e, b', o', m, _⟩ := remove_spec hc (regs s) k b o
    refine ⟨_, by simp [stepOp, e], rel_set h d ⟨b', o', ?_⟩⟩
    intro q w
    rw [m]
    by_cases c : q = k
    · subst c; simp
    · simp [c, g q w]
  | fil d s f =>
    obtain ⟨t', e, b', a⟩ := filter_spec f (regs s) (h s).1
    exact ⟨_, by simp [stepOp, e], rel_set h d (rel_filter f (h s) b' a)⟩
  | parT d s f =>
    obtain ⟨x, y, e, b1, b2, a1, a2⟩ := partition_spec f (regs s) (h s).1
    exact ⟨_, by simp [stepOp, e], rel_set h d (rel_filter f (h s) b1 a1)⟩
  | parF d s f =>
    obtain ⟨x, y, e, b1, b2, a1, a2⟩ := partition_spec f (regs s) (h s).1
    exact ⟨_, by simp [stepOp, e], rel_set h d (rel_filter (fun k v => !f k v) (h s) b2 a2)⟩
  | splL d s k =>
    obtain ⟨b, o, g⟩ := h s
    obtain ⟨l, pres, r, e, b1, b2, a, g1, g2⟩ := split_spec hc (regs s) k b o
    have o' := o
    simp only [Ordered, a] at o'
    refine ⟨_, by simp [stepOp, e], rel_set h d ⟨b1, ?_, ?_⟩⟩
    · simp only [Ordered]; exact (List.pairwise_append.1 (List.pairwise_append.1 o').1).1
    · intro q w
      constructor
      · intro hm
        have := g1 _ hm
        simp only at this
        simp only [this, if_true]
        exact (g q w).1 (by rw [a]; simp [hm])
      · intro hm
        simp only [] at hm
        split at hm
        · rename_i lt
          have hin := (g q w).2 hm
          rw [a] at hin
          simp only [List.mem_append] at hin
          rcases hin with (h1 | h1) | h1
          · exact h1
          · cases pres with
            | none => simp [midList] at h1
            | some w' => simp [midList] at h1; rw [h1.1] at lt; omega
          · have := g2 _ h1; simp only at this; omega
        · simp at hm
  | splR d s k =>
    obtain ⟨b, o, g⟩ := h s
    obtain ⟨l, pres, r, e, b1, b2, a, g1, g2⟩ := split_spec hc (regs s) k b o
    have o' := o
    simp only [Ordered, a] at o'
    refine ⟨_, by simp [stepOp, e], rel_set h d ⟨b2, ?_, ?_⟩⟩
    · simp only [Ordered]; exact (List.pairwise_append.1 o').2.1
    · intro q w
      constructor
      · intro hm
        have := g2 _ hm
        simp only at this
        simp only [this, if_true]
        exact (g q w).1 (by rw [a]; simp [hm])
      · intro hm
        simp only [] at hm
        split at hm
        · rename_i lt
          have hin := (g q w).2 hm
          rw [a] at hin
          simp only [List.mem_append] at hin
          rcases hin with (h1 | h1) | h1
          · have := g1 _ h1; simp only at this; omega
          · cases pres with
            | none => simp [midList] at h1
            | some w' => simp [midList] at h1; rw [h1.1] at lt; omega
          · exact h1
        · simp at hm
  | mapV d s f =>
    obtain ⟨b, o, g⟩ := h s
    refine ⟨_, rfl, rel_set h d ⟨(mapValues_bal f (regs s)).2 b, ?_, ?_⟩⟩
    · simp only [Ordered, mapValues_refines, List.pairwise_map]
      exact o
    · intro q w
      rw [mapValues_refines, List.mem_map]
      constructor
      · rintro ⟨⟨q', w'⟩, hin, e⟩
        simp only [Prod.mk.injEq] at e
        obtain ⟨e1, e2⟩ := e
        subst e1
        show Option.map (f q') (ms s q') = some w; rw [(g q' w').1 hin]; simp [e2]
      · intro hm
        simp only [] at hm
        cases hq : ms s q with
        | none => simp [hq] at hm
        | some w' =>
          simp [hq] at hm
          exact ⟨(q, w'), (g q w').2 hq, by simp [hm]⟩

/-- **Histories mixing all proved operations** on any number of map registers. -/
theorem ops_refine_lemma {cmp : K → K → Int} {rank : K → Int} (hc : Lawful cmp rank)
    (ops : List (MOp K V)) (regs : Nat → Tree K V) (ms : Nat → K → Option V)
    (h : ∀ i, Rel rank (regs i) (ms i)) :
    ∃ regs', runOps cmp regs ops = some regs' ∧ ∀ i, Rel rank (regs' i) (specOps rank ms ops i) := by
  induction ops generalizing regs ms with
  | nil => exact ⟨regs, rfl, h⟩
  | cons op ops ih =>
    obtain ⟨r1, e1, h1⟩ := step_refines hc regs ms h op
    obtain ⟨r2, e2, h2⟩ := ih r1 _ h1
    exact ⟨r2, by simp [runOps, e1, e2], h2⟩

end SamVerif.StdMap
