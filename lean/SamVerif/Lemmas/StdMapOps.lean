import SamVerif.Lemmas.StdMap
/-! Specifications of the rebuilding operations of `Model/StdMap.lean`: `addMin/MaxBinding`,
`addMin/MaxNode`, `join`, `concat`, `internalMerge`, `remove`, `split`, `filter`, `partition`. -/
namespace SamVerif.StdMap
set_option linter.unusedSectionVars false
variable {K V : Type} [DecidableEq K] [DecidableEq V]

theorem ite_ge_eq_max (a b : Int) : (if a ≥ b then a else b) = Max.max a b := by
  split <;> omega

/-- `balanced_spec` with `max` (omega-friendly). -/
theorem balanced_spec' (l r : Tree K V) (k : K) (v : V) (hl : Bal l) (hr : Bal r)
    (h1 : height l ≤ height r + 3) (h2 : height r ≤ height l + 3) :
    ∃ t, balanced l k v r = some t ∧ Bal t ∧ abs t = abs l ++ (k, v) :: abs r ∧
      height t ≤ Max.max (height l) (height r) + 1 ∧ Max.max (height l) (height r) ≤ height t ∧
      (height l ≤ height r + 2 → height r ≤ height l + 2 → height t = Max.max (height l) (height r) + 1) := by
  obtain ⟨t, e, b, a, g1, g2, g3⟩ := balanced_spec l r k v hl hr h1 h2
  rw [ite_ge_eq_max] at g1 g2 g3
  exact ⟨t, e, b, a, g1, g2, fun x y => g3 ⟨x, y⟩⟩

theorem bal_node {h : Int} {k : K} {v : V} {l r : Tree K V} (hb : Bal (.node h k v l r)) :
    Bal l ∧ Bal r ∧ h = Max.max (height l) (height r) + 1 ∧ height l ≤ height r + 2 ∧
      height r ≤ height l + 2 ∧ 0 ≤ height l ∧ 0 ≤ height r := by
  simp only [Bal] at hb
  obtain ⟨bl, br, hh, d1, d2, _⟩ := hb
  rw [show (if height l ≥ height r then height l + 1 else height r + 1) =
    (if height l ≥ height r then height l else height r) + 1 by split <;> rfl, ite_ge_eq_max] at hh
  exact ⟨bl, br, hh, d1, d2, height_nonneg l bl, height_nonneg r br⟩

theorem addMinBinding_spec (k : K) (v : V) (t : Tree K V) (hb : Bal t) :
    ∃ t', addMinBinding k v t = some t' ∧ Bal t' ∧ abs t' = (k, v) :: abs t ∧
      height t ≤ height t' ∧ height t' ≤ height t + 1 := by
  induction t with
  | empty => exact ⟨.leaf k v, rfl, by simp [Bal], by simp [abs], by simp⟩
  | leaf k' v' => exact ⟨.node 2 k v .empty (.leaf k' v'), rfl, by simp [Bal], by simp [abs], by simp⟩
  | node h k' v' l r ihl _ =>
    obtain ⟨bl, br, hh, d1, d2, nl, nr⟩ := bal_node hb
    obtain ⟨l', e, b1, a1, g1, g2⟩ := ihl bl
    obtain ⟨t', e2, b2, a2, g3, g4, g5⟩ := balanced_spec' l' r k' v' b1 br (by omega) (by omega)
    refine ⟨t', by simp [addMinBinding, e, e2], b2, by simp [a2, a1, abs], ?_, ?_⟩ <;>
      (try simp only [height_node]) <;> omega

theorem addMaxBinding_spec (k : K) (v : V) (t : Tree K V) (hb : Bal t) :
    ∃ t', addMaxBinding k v t = some t' ∧ Bal t' ∧ abs t' = abs t ++ [(k, v)] ∧
      height t ≤ height t' ∧ height t' ≤ height t + 1 := by
  induction t with
  | empty => exact ⟨.leaf k v, rfl, by simp [Bal], by simp [abs], by simp⟩
  | leaf k' v' => exact ⟨.node 2 k v (.leaf k' v') .empty, rfl, by simp [Bal], by simp [abs], by simp⟩
  | node h k' v' l r _ ihr =>
    obtain ⟨bl, br, hh, d1, d2, nl, nr⟩ := bal_node hb
    obtain ⟨r', e, b1, a1, g1, g2⟩ := ihr br
    obtain ⟨t', e2, b2, a2, g3, g4, g5⟩ := balanced_spec' l r' k' v' bl b1 (by omega) (by omega)
    refine ⟨t', by simp [addMaxBinding, e, e2], b2, by simp [a2, a1, abs], ?_, ?_⟩ <;>
      (try simp only [height_node]) <;> omega

theorem addMinNode_spec (a : K) (b : V) (t : Tree K V) (hb : Bal t) :
    ∃ t', addMinNode (.leaf a b) t = some t' ∧ Bal t' ∧ abs t' = (a, b) :: abs t ∧
      height t ≤ height t' ∧ height t' ≤ height t + 1 ∧ 1 ≤ height t' := by
  induction t with
  | empty => exact ⟨.leaf a b, rfl, by simp [Bal], by simp [abs], by simp⟩
  | leaf k' v' => exact ⟨.node 2 k' v' (.leaf a b) .empty, rfl, by simp [Bal], by simp [abs], by simp⟩
  | node h k' v' l r ihl _ =>
    obtain ⟨bl, br, hh, d1, d2, nl, nr⟩ := bal_node hb
    obtain ⟨l', e, b1, a1, g1, g2, g6⟩ := ihl bl
    obtain ⟨t', e2, b2, a2, g3, g4, g5⟩ := balanced_spec' l' r k' v' b1 br (by omega) (by omega)
    refine ⟨t', by simp [addMinNode, e, e2], b2, by simp [a2, a1, abs], ?_, ?_, ?_⟩ <;>
      (try simp only [height_node]) <;> omega

theorem addMaxNode_spec (a : K) (b : V) (t : Tree K V) (hb : Bal t) :
    ∃ t', addMaxNode (.leaf a b) t = some t' ∧ Bal t' ∧ abs t' = abs t ++ [(a, b)] ∧
      height t ≤ height t' ∧ height t' ≤ height t + 1 ∧ 1 ≤ height t' := by
  induction t with
  | empty => exact ⟨.leaf a b, rfl, by simp [Bal], by simp [abs], by simp⟩
  | leaf k' v' => exact ⟨.node 2 k' v' .empty (.leaf a b), rfl, by simp [Bal], by simp [abs], by simp⟩
  | node h k' v' l r _ ihr =>
    obtain ⟨bl, br, hh, d1, d2, nl, nr⟩ := bal_node hb
    obtain ⟨r', e, b1, a1, g1, g2, g6⟩ := ihr br
    obtain ⟨t', e2, b2, a2, g3, g4, g5⟩ := balanced_spec' l r' k' v' bl b1 (by omega) (by omega)
    refine ⟨t', by simp [addMaxNode, e, e2], b2, by simp [a2, a1, abs], ?_, ?_, ?_⟩ <;>
      (try simp only [height_node]) <;> omega

theorem ite_succ_max (a b : Int) : (if a ≥ b then a + 1 else b + 1) = Max.max a b + 1 := by
  split <;> omega

theorem bal_leaf (a : K) (b : V) : Bal (Tree.leaf a b) := by simp [Bal]

theorem join_spec (l r : Tree K V) (k : K) (v : V) (hl : Bal l) (hr : Bal r) :
    ∃ t, join l k v r = some t ∧ Bal t ∧ abs t = abs l ++ (k, v) :: abs r ∧
      Max.max (height l) (height r) ≤ height t ∧ height t ≤ Max.max (height l) (height r) + 1 := by
  fun_induction join l k v r
  case case1 k v r =>
    obtain ⟨t, e, b, a, g1, g2⟩ := addMinBinding_spec k v r hr
    have := height_nonneg r hr
    exact ⟨t, e, b, by simp [a, abs], by simp only [height_empty]; omega, by simp only [height_empty]; omega⟩
  case case2 a b k v =>
    obtain ⟨t, e, b, a, g1, g2⟩ := addMaxBinding_spec k v (.leaf a b) hl
    exact ⟨t, e, b, by simp [a, abs], by simp only [height_empty, height_leaf] at *; omega,
      by simp only [height_empty, height_leaf] at *; omega⟩
  case case3 lh lk lv ll lr k v =>
    obtain ⟨t, e, b, a, g1, g2⟩ := addMaxBinding_spec k v _ hl
    obtain ⟨_, _, hh, _, _, _, _⟩ := bal_node hl
    exact ⟨t, e, b, by simp [a, abs], by simp only [height_empty, height_node] at *; omega,
      by simp only [height_empty, height_node] at *; omega⟩
  case case4 a b k v c d =>
    exact ⟨_, rfl, by simp [Bal], by simp [abs], by simp, by simp⟩
  case case5 a b k v rh rk rv rl rr h x ih =>
    obtain ⟨brl, brr, hh, d1, d2, n1, n2⟩ := bal_node hr
    obtain ⟨t, e, _⟩ := ih hl brl
    rw [e] at x; cases x
  case case6 a b k v rh rk rv rl rr h t' x ih =>
    obtain ⟨brl, brr, hh, d1, d2, n1, n2⟩ := bal_node hr
    obtain ⟨t, e, b1, a1, g1, g2⟩ := ih hl brl
    rw [e] at x; cases x
    simp only [height_leaf] at g1 g2
    obtain ⟨t2, e2, b2, a2, g3, g4, g5⟩ := balanced_spec' t' rr rk rv b1 brr (by omega) (by omega)
    refine ⟨t2, e2, b2, by simp [a2, a1, abs], ?_, ?_⟩ <;> simp only [height_leaf, height_node] <;> omega
  case case7 a b k v rh rk rv rl rr h =>
    obtain ⟨brl, brr, hh, d1, d2, n1, n2⟩ := bal_node hr
    obtain ⟨b1, a1, e1⟩ := create_spec (.leaf a b) (.node rh rk rv rl rr) k v hl hr
      (by simp only [height_leaf, height_node]; omega) (by simp only [height_leaf, height_node]; omega)
    rw [ite_succ_max] at e1
    refine ⟨_, rfl, b1, a1, ?_, ?_⟩ <;> rw [e1] <;> omega
  case case8 lh lk lv ll lr k v c d h x ih =>
    obtain ⟨bll, blr, hh, d1, d2, n1, n2⟩ := bal_node hl
    obtain ⟨t, e, _⟩ := ih blr hr
    rw [e] at x; cases x
  case case9 lh lk lv ll lr k v c d h t' x ih =>
    obtain ⟨bll, blr, hh, d1, d2, n1, n2⟩ := bal_node hl
    obtain ⟨t, e, b1, a1, g1, g2⟩ := ih blr hr
    rw [e] at x; cases x
    simp only [height_leaf] at g1 g2
    obtain ⟨t2, e2, b2, a2, g3, g4, g5⟩ := balanced_spec' ll t' lk lv bll b1 (by omega) (by omega)
    refine ⟨t2, e2, b2, by simp [a2, a1, abs], ?_, ?_⟩ <;> simp only [height_leaf, height_node] <;> omega
  case case10 lh lk lv ll lr k v c d h =>
    obtain ⟨bll, blr, hh, d1, d2, n1, n2⟩ := bal_node hl
    obtain ⟨b1, a1, e1⟩ := create_spec (.node lh lk lv ll lr) (.leaf c d) k v hl hr
      (by simp only [height_leaf, height_node]; omega) (by simp only [height_leaf, height_node]; omega)
    rw [ite_succ_max] at e1
    refine ⟨_, rfl, b1, a1, ?_, ?_⟩ <;> rw [e1] <;> omega
  case case11 lh lk lv ll lr k v rh rk rv rl rr h x ih =>
    obtain ⟨bll, blr, hh, d1, d2, n1, n2⟩ := bal_node hl
    obtain ⟨t, e, _⟩ := ih blr hr
    rw [e] at x; cases x
  case case12 lh lk lv ll lr k v rh rk rv rl rr h t' x ih =>
    obtain ⟨bll, blr, hh, d1, d2, n1, n2⟩ := bal_node hl
    obtain ⟨brl, brr, hh', d1', d2', n1', n2'⟩ := bal_node hr
    obtain ⟨t, e, b1, a1, g1, g2⟩ := ih blr hr
    rw [e] at x; cases x
    simp only [height_node] at g1 g2
    obtain ⟨t2, e2, b2, a2, g3, g4, g5⟩ := balanced_spec' ll t' lk lv bll b1 (by omega) (by omega)
    refine ⟨t2, e2, b2, by simp [a2, a1, abs], ?_, ?_⟩ <;> simp only [height_node] <;> omega
  case case13 lh lk lv ll lr k v rh rk rv rl rr h1 h2 x ih =>
    obtain ⟨brl, brr, hh', d1', d2', n1', n2'⟩ := bal_node hr
    obtain ⟨t, e, _⟩ := ih hl brl
    rw [e] at x; cases x
  case case14 lh lk lv ll lr k v rh rk rv rl rr h1 h2 t' x ih =>
    obtain ⟨bll, blr, hh, d1, d2, n1, n2⟩ := bal_node hl
    obtain ⟨brl, brr, hh', d1', d2', n1', n2'⟩ := bal_node hr
    obtain ⟨t, e, b1, a1, g1, g2⟩ := ih hl brl
    rw [e] at x; cases x
    simp only [height_node] at g1 g2
    obtain ⟨t2, e2, b2, a2, g3, g4, g5⟩ := balanced_spec' t' rr rk rv b1 brr (by omega) (by omega)
    refine ⟨t2, e2, b2, by simp [a2, a1, abs], ?_, ?_⟩ <;> simp only [height_node] <;> omega
  case case15 lh lk lv ll lr k v rh rk rv rl rr h1 h2 =>
    obtain ⟨b1, a1, e1⟩ := create_spec (.node lh lk lv ll lr) (.node rh rk rv rl rr) k v hl hr
      (by simp only [height_node]; omega) (by simp only [height_node]; omega)
    rw [ite_succ_max] at e1
    refine ⟨_, rfl, b1, a1, ?_, ?_⟩ <;> rw [e1] <;> omega
end SamVerif.StdMap
