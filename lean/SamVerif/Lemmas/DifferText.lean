import SamVerif.Lemmas.Differ
import SamVerif.Model.DifferText
/-! Helper lemmas for the text level of the list differ (C16). -/
namespace SamVerif.Differ
variable {α : Type} [DecidableEq α]
set_option linter.unusedSectionVars false

/-- Layout of the old items in the document text: item `i` occupies `[st i, en i)`. -/
structure Lay (st en : Nat → Nat) : Prop where
  le : ∀ i, st i ≤ en i
  mono : ∀ i j, i < j → en i ≤ st j

theorem Lay.bnd_le_st {st en : Nat → Nat} (h : Lay st en) (c : Nat) : bnd st en c ≤ st c := by
  unfold bnd
  split
  · subst_vars; exact Nat.le_refl _
  · exact h.mono _ _ (by omega)

theorem bnd_succ (st en : Nat → Nat) (c : Nat) : bnd st en (c + 1) = en c := by simp [bnd]

theorem dslice_append (doc : Text) (a b c : Nat) (hab : a ≤ b) (hbc : b ≤ c) :
    dslice doc a b ++ dslice doc b c = dslice doc a c := by
  unfold dslice
  have h1 : doc.drop b = (doc.drop a).drop (b - a) := by rw [List.drop_drop]; congr 1; omega
  have h2 : c - a = (b - a) + (c - b) := by omega
  rw [h1, h2, List.take_add]

theorem dslice_self (doc : Text) (a : Nat) : dslice doc a a = [] := by simp [dslice]

theorem dslice_drop (doc : Text) (a b : Nat) (hab : a ≤ b) : dslice doc a b ++ doc.drop b = doc.drop a := by
  unfold dslice
  have h1 : doc.drop b = (doc.drop a).drop (b - a) := by rw [List.drop_drop]; congr 1; omega
  rw [h1, List.take_append_drop]

theorem rangeOf_ins (st en : Nat → Nat) (c : Nat) (items : List α) (ld : Bool) :
    rangeOf st en (Int.ofNat c - 1, Change.insert items ld) = (bnd st en c, bnd st en c) := by
  by_cases hc : c = 0
  · subst hc; simp [rangeOf, bnd]
  · have h1 : ¬ (Int.ofNat c - 1 < 0) := by simp only [Int.ofNat_eq_natCast]; omega
    have h2 : (Int.ofNat c - 1).toNat = c - 1 := by simp only [Int.ofNat_eq_natCast]; omega
    simp only [rangeOf, bnd, h1, h2, hc, ↓reduceIte]

theorem rangeOf_del (st en : Nat → Nat) (c : Nat) (e : α) :
    rangeOf st en (Int.ofNat c, Change.delete e) = (st c, en c) := by simp [rangeOf]

theorem rangeOf_rep (st en : Nat → Nat) (c : Nat) (e b : α) :
    rangeOf st en (Int.ofNat c, Change.replace e b) = (st c, en c) := by simp [rangeOf]

theorem toOffEdits_cons (st en : Nat → Nat) (rnd : α → Text) (ch : Int × Change α) (s : Script α) :
    toOffEdits st en rnd (ch :: s) =
      ((rangeOf st en ch).1, (rangeOf st en ch).2, changeText rnd ch.2) :: toOffEdits st en rnd s := rfl

theorem flat_cons (c : Chunk α) (cs : List (Chunk α)) : flatChunks (c :: cs) = c.2 ++ flatChunks cs := by
  simp [flatChunks]

theorem flat_append (a b : List (Chunk α)) : flatChunks (a ++ b) = flatChunks a ++ flatChunks b := by
  simp [flatChunks]

theorem flat_insChunks_cons (rnd : α → Text) (as : List α) :
    ∀ (a : α) (ld : Bool), flatChunks (insChunks rnd (a :: as) ld) =
      (if ld then sepNL else []) ++ joinSep sepNL ((a :: as).map rnd) := by
  induction as with
  | nil =>
    intro a ld
    cases ld <;> simp [insChunks, flatChunks, joinSep]
  | cons b bs ih =>
    intro a ld
    have h := ih b true
    simp only [↓reduceIte] at h
    have e1 : insChunks rnd (a :: b :: bs) ld =
        (if ld then [(none, sepNL)] else []) ++ (some a, rnd a) :: insChunks rnd (b :: bs) true := rfl
    rw [e1, flat_append, flat_cons, h]
    cases ld <;> simp [flatChunks, joinSep, List.append_assoc]

theorem flat_insChunks (rnd : α → Text) (items : List α) (ld : Bool) (h : items ≠ []) :
    flatChunks (insChunks rnd items ld) = changeText rnd (Change.insert items ld) := by
  cases items with
  | nil => exact absurd rfl h
  | cons a as => rw [flat_insChunks_cons]; rfl

/-- Text-level version of `seg_apply`. -/
theorem tseg_apply (doc : Text) (st en : Nat → Nat) (hl : Lay st en) (rnd : α → Text) (old : List α)
    (len : Nat) :
    ∀ (items : List α) (ld : Bool) (c o0 : Nat) (rest : Script α) (R : Text),
      o0 ≤ bnd st en c → c + len ≤ old.length → NoDelUpTo (Int.ofNat (c + len)) rest →
      (∀ o1, o1 ≤ bnd st en (c + len) →
        applyTE o1 (doc.drop o1) (toOffEdits st en rnd (fuse rest)) = dslice doc o1 (bnd st en (c + len)) ++ R) →
      applyTE o0 (doc.drop o0)
          (toOffEdits st en rnd (fuse (insOpt (Int.ofNat c - 1) items ld ++ (delRun old c len ++ rest))))
        = dslice doc o0 (bnd st en c) ++ (flatChunks (segChunks doc st en rnd items ld c len) ++ R) := by
  induction len with
  | zero =>
    intro items ld c o0 rest R h0 hn hnd hrest
    simp only [delRun, List.nil_append, Nat.add_zero] at *
    by_cases hi : items = []
    · subst hi
      simp only [insOpt, ↓reduceIte, List.nil_append, segChunks, insChunks, flatChunks, List.map_nil,
        List.flatten_nil]
      exact hrest o0 h0
    · simp only [insOpt, hi, ↓reduceIte, List.singleton_append]
      rw [fuse_ins_cons_nofuse _ _ _ _ (by simpa using hnd)]
      rw [toOffEdits_cons, rangeOf_ins]
      simp only [applyTE, segChunks]
      have hrest' := hrest (bnd st en c) (Nat.le_refl _)
      rw [List.drop_drop]
      have : o0 + (bnd st en c - o0) = bnd st en c := by omega
      rw [this, hrest', dslice_self, flat_insChunks rnd items ld hi]
      simp [dslice]
  | succ len ih =>
    intro items ld c o0 rest R h0 hn hnd hrest
    have hc : c < old.length := by omega
    have hget : old[c]? = some old[c] := List.getElem?_eq_getElem hc
    have hrun : delRun old c (len + 1) = (Int.ofNat c, Change.delete old[c]) :: delRun old (c + 1) len := by
      simp only [delRun, hget]
    have hlen : c + 1 + len = c + (len + 1) := by omega
    have hb := hl.bnd_le_st c
    have hse := hl.le c
    have ih' := fun items ld => ih items ld (c + 1) (en c) rest R (by rw [bnd_succ]; exact Nat.le_refl _)
      (by omega) (by rw [hlen]; exact hnd) (by intro o1 h1; rw [hlen] at h1 ⊢; exact hrest o1 h1)
    have hdrop : (doc.drop o0).drop (en c - o0) = doc.drop (en c) := by
      rw [List.drop_drop]; congr 1; omega
    have htake : (doc.drop o0).take (st c - o0) = dslice doc o0 (bnd st en c) ++ dslice doc (bnd st en c) (st c) := by
      rw [dslice_append doc _ _ _ h0 hb]; rfl
    have hnat : (Int.ofNat c).toNat = c := by simp
    rw [hrun]
    cases items with
    | nil =>
      simp only [insOpt, ↓reduceIte, List.nil_append, List.cons_append]
      rw [fuse_del_cons]
      rw [toOffEdits_cons, rangeOf_del]
      simp only [applyTE, changeText, List.append_nil, segChunks, flat_cons]
      rw [hdrop, htake]
      have := ih' [] ld
      simp only [insOpt, ↓reduceIte, List.nil_append, bnd_succ, dslice_self] at this
      rw [this]
      simp [List.append_assoc]
    | cons it items =>
      simp only [insOpt, List.cons_ne_nil, ↓reduceIte, List.cons_append, List.nil_append]
      rw [fuse_ins_del]
      rw [toOffEdits_cons, rangeOf_rep]
      simp only [applyTE, changeText, segChunks, flat_cons]
      rw [hdrop, htake]
      have := ih' items true
      simp only [bnd_succ, dslice_self] at this
      rw [this]
      simp [List.append_assoc]


theorem ttrace_apply (doc : Text) (st en : Nat → Nat) (hl : Lay st en) (rnd : α → Text)
    (old new : List α) (tr : Trace) :
    ∀ (first c o0 : Nat), ValidFrom old new c first tr → c ≤ old.length → first ≤ new.length →
      o0 ≤ bnd st en c →
      applyTE o0 (doc.drop o0) (toOffEdits st en rnd (fuse (segs old new (Int.ofNat c - 1) first c tr)))
        = dslice doc o0 (bnd st en c) ++ flatChunks (expChunks doc st en rnd old new c first tr) := by
  induction tr with
  | nil =>
    intro first c o0 _ hc hf h0
    simp only [segs, expChunks]
    have := tseg_apply doc st en hl rnd old (old.length - c) (slice new first new.length) false c o0 []
      (doc.drop (bnd st en old.length)) h0 (by omega) trivial (by
        intro o1 h1
        have : c + (old.length - c) = old.length := by omega
        rw [this] at h1 ⊢
        simp only [fuse, toOffEdits, List.map_nil, applyTE]
        exact (dslice_drop doc o1 _ h1).symm)
    simp only [List.append_nil] at this
    rw [this, flat_append]
    simp [flatChunks]
  | cons p tr ih =>
    intro first c o0 hv hc hf h0
    obtain ⟨x, y⟩ := p
    simp only [ValidFrom] at hv
    obtain ⟨hcx, hfy, ⟨e, hox, hny⟩, hv'⟩ := hv
    have hx := (List.getElem?_eq_some_iff.mp hox).1
    have hy := (List.getElem?_eq_some_iff.mp hny).1
    simp only [segs, expChunks]
    have hsum : c + (x - c) = x := by omega
    have hbx := hl.bnd_le_st x
    have hsx := hl.le x
    have := tseg_apply doc st en hl rnd old (x - c) (slice new first y) false c o0
      (segs old new (Int.ofNat x) (y + 1) (x + 1) tr)
      (dslice doc (bnd st en x) (st x) ++ (dslice doc (st x) (en x) ++
        flatChunks (expChunks doc st en rnd old new (x + 1) (y + 1) tr)))
      h0 (by omega)
      (by rw [hsum]; exact nodel_segs old new tr _ _ _ _ hv' (by simp only [Int.ofNat_eq_natCast]; omega))
      (by
        intro o1 h1
        rw [hsum] at h1 ⊢
        have hpx : Int.ofNat x = Int.ofNat (x + 1) - 1 := by simp
        rw [hpx, ih (y + 1) (x + 1) o1 hv' (by omega) (by omega) (by rw [bnd_succ]; omega), bnd_succ]
        rw [← dslice_append doc o1 (bnd st en x) (en x) h1 (by omega),
          ← dslice_append doc (bnd st en x) (st x) (en x) hbx hsx]
        simp [List.append_assoc])
    rw [this, flat_append]
    simp [flat_cons, List.append_assoc]

theorem items_insChunks (rnd : α → Text) (items : List α) :
    ∀ ld, (insChunks rnd items ld).filterMap (·.1) = items := by
  induction items with
  | nil => intro ld; simp [insChunks]
  | cons a as ih => intro ld; cases ld <;> simp [insChunks, ih]

theorem items_segChunks (doc : Text) (st en : Nat → Nat) (rnd : α → Text) (len : Nat) :
    ∀ (items : List α) (ld : Bool) (c : Nat),
      (segChunks doc st en rnd items ld c len).filterMap (·.1) = items := by
  induction len with
  | zero => intro items ld c; simp [segChunks, items_insChunks]
  | succ len ih =>
    intro items ld c
    cases items with
    | nil => simp [segChunks, ih]
    | cons it rest => simp [segChunks, ih]

theorem items_expChunks (doc : Text) (st en : Nat → Nat) (rnd : α → Text) (old new : List α) (tr : Trace) :
    ∀ (first c : Nat), ValidFrom old new c first tr → first ≤ new.length →
      (expChunks doc st en rnd old new c first tr).filterMap (·.1) = new.drop first := by
  induction tr with
  | nil =>
    intro first c _ hf
    simp only [expChunks, List.filterMap_append, items_segChunks]
    simp only [slice, List.filterMap_cons, List.filterMap_nil, List.append_nil]
    rw [List.take_of_length_le]; simp
  | cons p tr ih =>
    intro first c hv hf
    obtain ⟨x, y⟩ := p
    simp only [ValidFrom] at hv
    obtain ⟨_, hfy, ⟨e, hox, hny⟩, hv'⟩ := hv
    have hy := (List.getElem?_eq_some_iff.mp hny).1
    simp only [expChunks, List.filterMap_append, items_segChunks, List.filterMap_cons, hox]
    rw [ih (y + 1) (x + 1) hv' (by omega)]
    rw [← slice_append_drop new first y hfy, List.drop_eq_getElem_cons hy]
    have : new[y] = e := by
      have := List.getElem?_eq_getElem hy
      rw [hny] at this; exact (Option.some.inj this).symm
    rw [this]

/-- Positions → offsets: the position-level edits of `importEdits`, mapped through `off`, are the
offset edits of the layout `st i = off (start of item i)`, `en i = off (end of item i)`. -/
theorem importEdits_off (doc : Doc) (locs : List (Pos × Pos)) (rnd : α → Text) (s : Script α) :
    (importEdits locs rnd s).map (fun ed => (off doc ed.start, off doc ed.stop, ed.text)) =
      toOffEdits (fun i => off doc (locStart locs i)) (fun i => off doc (locStop locs i)) rnd s := by
  simp only [importEdits, toOffEdits, List.map_map]
  apply List.map_congr_left
  intro ch _
  obtain ⟨p, c⟩ := ch
  cases c with
  | insert it ld =>
    simp only [Function.comp, rangeOfPos, rangeOf]
    split <;> rfl
  | delete x => rfl
  | replace x y => rfl


/-! ## Lines, `flatten`, `off` -/

theorem splitLines_ne_nil (t : Text) : splitLines t ≠ [] := by
  cases t with
  | nil => simp [splitLines]
  | cons b t =>
    simp only [splitLines]
    split
    · simp
    · split <;> simp

theorem flatten_cons_cons (a b : Text) (rest : Doc) :
    flatten (a :: b :: rest) = a ++ sepNL ++ flatten (b :: rest) := by
  simp [flatten, joinSep]

theorem flatten_splitLines_aux (t : Text) : flatten (splitLines t) = t := by
  induction t with
  | nil => simp [splitLines, flatten, joinSep]
  | cons b t ih =>
    simp only [splitLines]
    split
    · rename_i hb
      subst hb
      have hne := splitLines_ne_nil t
      cases hs : splitLines t with
      | nil => exact absurd hs hne
      | cons l ls =>
        rw [flatten_cons_cons, ← hs, ih]
        simp [sepNL]
    · cases hs : splitLines t with
      | nil => exact absurd hs (splitLines_ne_nil t)
      | cons l ls =>
        simp only
        rw [hs] at ih
        cases ls with
        | nil =>
          simp only [flatten, joinSep] at ih ⊢
          rw [ih]
        | cons l2 ls2 =>
          rw [flatten_cons_cons] at ih ⊢
          rw [← ih]
          simp

theorem foldl_len_add (xs : Doc) (a : Nat) :
    xs.foldl (fun a l => a + l.length + 1) a = a + xs.foldl (fun a l => a + l.length + 1) 0 := by
  induction xs generalizing a with
  | nil => simp
  | cons x xs ih =>
    simp only [List.foldl_cons]
    rw [ih (a + x.length + 1), ih (0 + x.length + 1)]
    omega

theorem off_succ (a : Text) (doc : Doc) (l c : Nat) :
    off (a :: doc) (l + 1, c) = a.length + 1 + off doc (l, c) := by
  simp only [off, List.take_succ_cons, List.foldl_cons]
  rw [foldl_len_add]
  omega

theorem off_line_aux (doc : Doc) :
    ∀ (l : Nat) (hl : l < doc.length),
      ((flatten doc).drop (off doc (l, 0))).take doc[l].length = doc[l] ∧
        off doc (l, 0) + doc[l].length ≤ (flatten doc).length := by
  induction doc with
  | nil => intro l hl; simp at hl
  | cons a doc ih =>
    intro l hl
    cases l with
    | zero =>
      cases doc with
      | nil => simp [off, flatten, joinSep]
      | cons b rest =>
        rw [flatten_cons_cons]
        simp [off]
    | succ l =>
      have hl' : l < doc.length := by simpa using hl
      cases doc with
      | nil => simp at hl'
      | cons b rest =>
        rw [off_succ, flatten_cons_cons]
        obtain ⟨h1, h2⟩ := ih l hl'
        have hd : (a ++ sepNL ++ flatten (b :: rest)).drop (a.length + 1 + off (b :: rest) (l, 0)) =
            (flatten (b :: rest)).drop (off (b :: rest) (l, 0)) := by
          have : (a ++ sepNL).length = a.length + 1 := by simp [sepNL]
          rw [← this, ← List.drop_drop, List.drop_left']
          rfl
        simp only [List.getElem_cons_succ]
        rw [hd]
        refine ⟨h1, ?_⟩
        simp only [List.length_append, sepNL, List.length_cons, List.length_nil]
        omega


/-! ## Toplevel `Err` path -/

theorem toplevelEdits_off_empty (doc : Doc) (locsI : List (Pos × Pos)) (rnd : α → Text) (s : Script α) :
    (toplevelEdits locsI [] rnd s).map (fun ed => (off doc ed.start, off doc ed.stop, ed.text)) =
      toOffEdits
        (fun _ => off doc (if locsI.isEmpty then ((0, 0) : Pos) else locStop locsI (locsI.length - 1)))
        (fun _ => off doc (if locsI.isEmpty then ((0, 0) : Pos) else locStop locsI (locsI.length - 1))) rnd s := by
  simp only [toplevelEdits, toOffEdits, List.map_map]
  apply List.map_congr_left
  intro ch _
  obtain ⟨p, c⟩ := ch
  cases c with
  | insert it ld =>
    simp only [Function.comp, rangeOfPosT, rangeOf, List.isEmpty_nil, ↓reduceIte]
    split <;> (split <;> rfl)
  | delete x => simp [Function.comp, rangeOfPosT, rangeOf]
  | replace x y => simp [Function.comp, rangeOfPosT, rangeOf]

theorem toplevelEdits_off_nonempty (doc : Doc) (locsI locsT : List (Pos × Pos)) (hne : locsT ≠ [])
    (rnd : α → Text) (s : Script α) :
    toplevelEdits locsI locsT rnd s = importEdits locsT rnd s := by
  have : locsT.isEmpty = false := by cases locsT <;> simp_all
  simp [toplevelEdits, importEdits, rangeOfPosT, this]

theorem validTrace_nil_old (new : List α) (tr : Trace) (hv : ValidTrace [] new tr) : tr = [] := by
  cases tr with
  | nil => rfl
  | cons p tr =>
    obtain ⟨x, y⟩ := p
    simp [ValidTrace, ValidFrom] at hv


theorem flatten_length_le_off (doc : Doc) :
    ∀ (l c : Nat), doc.length ≤ l → (flatten doc).length ≤ off doc (l, c) := by
  induction doc with
  | nil => intro l c _; simp [flatten, joinSep]
  | cons a doc ih =>
    intro l c hl
    cases l with
    | zero => simp at hl
    | succ l =>
      rw [off_succ]
      cases doc with
      | nil => simp [flatten, joinSep]; omega
      | cons b rest =>
        rw [flatten_cons_cons]
        have := ih l c (by simpa using hl)
        simp only [List.length_append, sepNL, List.length_cons, List.length_nil]
        omega


/-! ## Composition of two edit lists -/

theorem applyTE_run (E : List (Nat × Nat × Text)) :
    ∀ (pos : Nat) (rest : Text), applyTE pos rest E = (runTE pos rest E).1 ++ (runTE pos rest E).2.2 := by
  induction E with
  | nil => intro pos rest; simp [applyTE, runTE]
  | cons ed E ih =>
    intro pos rest
    obtain ⟨s, e, t⟩ := ed
    simp only [applyTE, runTE]
    rw [ih]
    simp [List.append_assoc]

theorem applyTE_append (E K : List (Nat × Nat × Text)) :
    ∀ (pos : Nat) (rest : Text),
      applyTE pos rest (E ++ K) =
        (runTE pos rest E).1 ++ applyTE (runTE pos rest E).2.1 (runTE pos rest E).2.2 K := by
  induction E with
  | nil => intro pos rest; simp [runTE]
  | cons ed E ih =>
    intro pos rest
    obtain ⟨s, e, t⟩ := ed
    simp only [List.cons_append, applyTE, runTE]
    rw [ih]
    simp [List.append_assoc]

/-- Running ordered edits that lie in `[pos, B]` leaves the cursor inside `[pos, B]` with exactly the
rest of the document behind it. -/
theorem runTE_wf (doc : Text) (B : Nat) (E : List (Nat × Nat × Text)) :
    ∀ (pos : Nat), pos ≤ B → (∀ e ∈ E, pos ≤ e.1 ∧ e.1 ≤ e.2.1 ∧ e.2.1 ≤ B) →
      E.Pairwise (fun a b => a.2.1 ≤ b.1) →
      (runTE pos (doc.drop pos) E).2.2 = doc.drop (runTE pos (doc.drop pos) E).2.1 ∧
        pos ≤ (runTE pos (doc.drop pos) E).2.1 ∧ (runTE pos (doc.drop pos) E).2.1 ≤ B := by
  induction E with
  | nil => intro pos hB _ _; simp [runTE, hB]
  | cons ed E ih =>
    intro pos hB hb hp
    obtain ⟨s, e, t⟩ := ed
    obtain ⟨h1, h2⟩ := List.pairwise_cons.mp hp
    have hed := hb (s, e, t) (by simp)
    simp only at hed
    have hdrop : (doc.drop pos).drop (e - pos) = doc.drop e := by
      rw [List.drop_drop]; congr 1; omega
    simp only [runTE, hdrop]
    have := ih e hed.2.2 (fun x hx => ⟨h1 x hx, (hb x (by simp [hx])).2⟩) h2
    exact ⟨this.1, by omega, this.2.2⟩

theorem expChunks_split (doc : Text) (st en : Nat → Nat) (rnd : α → Text) (old new : List α) (tr : Trace) :
    ∀ (c first : Nat), expChunks doc st en rnd old new c first tr =
      expChunksBody doc st en rnd old new c first tr ++ [(none, doc.drop (bnd st en old.length))] := by
  induction tr with
  | nil => intro c first; simp [expChunks, expChunksBody]
  | cons p tr ih =>
    intro c first
    obtain ⟨x, y⟩ := p
    simp only [expChunks, expChunksBody, ih, List.append_assoc, List.cons_append]

end SamVerif.Differ
