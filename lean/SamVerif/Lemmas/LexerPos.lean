import SamVerif.Lemmas.LexerValid
/-! Position bookkeeping lemmas (C14): every scanner path advances the tracked position exactly as
the ground truth `advanceAll` does over the bytes it consumes. -/
namespace SamVerif.Lexer
open SamVerif.Generated.Keywords

/-- bytes without a newline only move the column (`next_n_column`, `loc_of_advance`) -/
theorem advanceAll_no_newline (p : Pos) (bs : Bytes) (h : ∀ b ∈ bs, b.toNat ≠ 10) :
    advanceAll p bs = addCol p bs.length := by
  induction bs generalizing p with
  | nil => simp [advanceAll, addCol]
  | cons b bs ih =>
    have hb : b.toNat ≠ 10 := h b (List.mem_cons_self ..)
    have := ih (advance p b) (fun x hx => h x (List.mem_cons_of_mem _ hx))
    simp only [advanceAll, List.foldl_cons] at this ⊢
    rw [this]
    simp [advance, hb, addCol, Nat.add_assoc, Nat.add_comm 1]

/-- **skip_whitespace tracks positions exactly**: after the whitespace run the tracked position is
the ground-truth position of the bytes skipped (newlines, CR, tabs, form feeds included). -/
theorem wsPos_exact (bs : Bytes) (p : Pos) :
    wsPos bs p = advanceAll p (bs.take (run isAsciiWs bs)) := by
  induction bs generalizing p with
  | nil => simp [wsPos, run, advanceAll]
  | cons b bs ih =>
    simp only [wsPos, run]
    split
    · simp [ih, advanceAll]
    · simp [advanceAll]

/-- **the block-comment loop tracks positions exactly**: when `blockEnd` finds the closing `*/`
after `m - n` bytes, the position it reports is the ground-truth position after those bytes
(multi-line comments included). -/
theorem blockEnd_pos_exact (cs : Bytes) (p : Pos) (n m : Nat) (q : Pos)
    (h : blockEnd cs p n = some (m, q)) : n ≤ m ∧ q = advanceAll p (cs.take (m - n)) := by
  fun_induction blockEnd cs p n with
  | case1 c d cs p n hq =>
    simp only [Option.some.injEq, Prod.mk.injEq] at h
    obtain ⟨rfl, rfl⟩ := h
    refine ⟨by omega, ?_⟩
    have : n + 2 - n = 2 := by omega
    rw [this]
    simp [advanceAll, advance, addCol, hq.1, hq.2]
  | case2 c d cs p n _ ih =>
    obtain ⟨hle, hq⟩ := ih h
    refine ⟨by omega, ?_⟩
    have : m - n = (m - (n + 1)) + 1 := by omega
    rw [this, hq]
    simp [advanceAll]
  | case3 => simp at h

/-- a string literal never spans a line: the bytes `strEnd` accepts contain no newline, so the
column-only update `position.1 += pos + 1` (lexer.rs:344) is exact -/
theorem strEnd_no_newline (cs : Bytes) (esc pos n : Nat) (h : strEnd cs esc pos = some n) :
    ∀ b ∈ cs.take (n - pos), b.toNat ≠ 10 := by
  fun_induction strEnd cs esc pos with
  | case1 => simp at h
  | case2 c cs esc pos hq =>
    simp only [Option.some.injEq] at h
    subst h
    have : pos + 1 - pos = 1 := by omega
    rw [this]
    intro b hb
    simp at hb
    subst hb
    omega
  | case3 => simp at h
  | case4 c cs esc pos hq hn ih =>
    have hgt := strEnd_gt _ _ _ _ h
    have : n - pos = (n - (pos + 1)) + 1 := by omega
    rw [this]
    intro b hb
    simp only [List.take_succ_cons, List.mem_cons] at hb
    rcases hb with rfl | hb
    · exact hn
    · exact ih h b hb



theorem advanceAll_append (p : Pos) (a b : Bytes) :
    advanceAll p (a ++ b) = advanceAll (advanceAll p a) b := by
  simp [advanceAll, List.foldl_append]

theorem advanceAll_take_add (p : Pos) (bs : Bytes) (k n : Nat) :
    advanceAll p (bs.take (k + n)) = advanceAll (advanceAll p (bs.take k)) ((bs.drop k).take n) := by
  rw [← advanceAll_append, List.take_add]

theorem run_all (p : UInt8 → Bool) (bs : Bytes) : ∀ x ∈ bs.take (run p bs), p x = true := by
  induction bs with
  | nil => simp [run]
  | cons b bs ih =>
    simp only [run]
    split
    · rename_i hb
      intro x hx
      simp only [List.take_succ_cons, List.mem_cons] at hx
      rcases hx with rfl | hx
      · exact hb
      · exact ih x hx
    · simp

/-- what one sub-lexer establishes: it consumed `n ≥ 1` bytes, the token starts at `pos`, and its
end (= the tracked position afterwards) is the ground-truth position after those bytes; identifier
tokens spell exactly the consumed bytes on one line. -/
def StepSpec (rest : Bytes) (pos : Pos) (s : Scanned) : Prop :=
  ∃ n, 0 < n ∧ n ≤ rest.length ∧ s.rest = rest.drop n ∧ s.tok.start = pos ∧
    s.tok.stop = advanceAll pos (rest.take n) ∧ s.pos = s.tok.stop ∧
    ((s.tok.kind = .upper ∨ s.tok.kind = .lower) →
      s.tok.text = rest.take n ∧ s.tok.stop = addCol pos n)

theorem lexStrLit_spec {rest : Bytes} {pos : Pos} {s : Scanned}
    (h : lexStrLit rest pos = .yes s) : StepSpec rest pos s := by
  unfold lexStrLit at h
  split at h
  · rename_i q body
    split at h
    · rename_i hq
      split at h
      · contradiction
      · rename_i n hn
        split at h
        · contradiction
        · rename_i rest' hb
          cases h
          obtain ⟨i, hi, hn', _⟩ := strEnd_spec _ _ _ _ hn
          have hnl := strEnd_no_newline _ _ _ _ hn
          have hlen : n ≤ (q :: body).length := by simp only [List.length_cons]; omega
          refine ⟨n, by omega, hlen, bump_eq hb, rfl, ?_, rfl, by simp⟩
          have hall : ∀ b ∈ (q :: body).take n, b.toNat ≠ 10 := by
            have : n = (n - 1) + 1 := by omega
            rw [this, List.take_succ_cons]
            intro b hb'
            rcases List.mem_cons.mp hb' with rfl | hb'
            · omega
            · exact hnl b hb'
          rw [advanceAll_no_newline _ _ hall]
          simp only [List.length_take]
          congr 1; omega
    · contradiction
  · contradiction

theorem lexLineComment_spec {rest : Bytes} {pos : Pos} {s : Scanned}
    (h : lexLineComment rest pos = .yes s) : StepSpec rest pos s := by
  unfold lexLineComment at h
  split at h
  · rename_i a b body
    split at h
    · rename_i hq
      dsimp only at h
      split at h
      · contradiction
      · rename_i rest' hb
        cases h
        have hle := run_le (fun c => decide (c.toNat ≠ 10)) body
        have hall := run_all (fun c => decide (c.toNat ≠ 10)) body
        generalize run (fun c => decide (c.toNat ≠ 10)) body = k at *
        have hlen : 2 + k ≤ (a :: b :: body).length := by simp only [List.length_cons]; omega
        refine ⟨2 + k, by omega, hlen, bump_eq hb, rfl, ?_, rfl, by simp⟩
        have hall' : ∀ x ∈ (a :: b :: body).take (2 + k), x.toNat ≠ 10 := by
          rw [Nat.add_comm, List.take_succ_cons, List.take_succ_cons]
          intro x hx
          rcases List.mem_cons.mp hx with rfl | hx
          · omega
          rcases List.mem_cons.mp hx with rfl | hx
          · omega
          · simpa using hall x hx
        rw [advanceAll_no_newline _ _ hall']
        simp only [List.length_take]
        congr 1; omega
    · contradiction
  · contradiction

theorem lexBlockComment_spec {rest : Bytes} {pos : Pos} {s : Scanned}
    (h : lexBlockComment rest pos = .yes s) : StepSpec rest pos s := by
  unfold lexBlockComment at h
  split at h
  · rename_i a b body
    split at h
    · rename_i hq
      split at h
      · contradiction
      · rename_i n stop hn
        split at h
        · contradiction
        · rename_i rest' hb
          dsimp only at h
          split at h
          · contradiction
          · cases h
            obtain ⟨i, hi, hn', _, _⟩ := blockEnd_spec _ _ _ _ _ hn
            obtain ⟨hle, hq'⟩ := blockEnd_pos_exact _ _ _ _ _ hn
            have hlen : n ≤ (a :: b :: body).length := by simp only [List.length_cons]; omega
            refine ⟨n, by omega, hlen, bump_eq hb, rfl, ?_, rfl, by
              intro hk; simp only at hk; rcases hk with hk | hk <;> (split at hk <;> contradiction)⟩
            have : n = (n - 2) + 1 + 1 := by omega
            rw [this, List.take_succ_cons, List.take_succ_cons]
            simp only [advanceAll, List.foldl_cons]
            simp only [advanceAll] at hq'
            rw [hq']
            have ha : advance (advance pos a) b = addCol pos 2 := by
              simp [advance, addCol, hq.1, hq.2]
            rw [ha]
    · contradiction
  · contradiction

theorem keywords_no_newline : ∀ e ∈ keywords, ∀ b ∈ e.1, b.toNat ≠ 10 := by decide
theorem operators_no_newline : ∀ e ∈ operators, ∀ b ∈ e.1, b.toNat ≠ 10 := by decide

theorem isPrefixOf_take {k bs : Bytes} (h : k.isPrefixOf bs = true) :
    bs.take k.length = k ∧ k.length ≤ bs.length := by
  induction k generalizing bs with
  | nil => simp
  | cons a k ih =>
    cases bs with
    | nil => simp [List.isPrefixOf] at h
    | cons b bs =>
      simp only [List.isPrefixOf, Bool.and_eq_true, beq_iff_eq] at h
      have := ih h.2
      simp only [List.length_cons, List.take_succ_cons, h.1, this.1, true_and]
      omega

theorem bestLit_bytes {table : List (Bytes × Bytes)} (ht : ∀ e ∈ table, ∀ b ∈ e.1, b.toNat ≠ 10)
    (rest : Bytes) : (bestLit table rest).1 ≤ rest.length ∧
      ∀ b ∈ rest.take (bestLit table rest).1, b.toNat ≠ 10 := by
  rcases bestLit_spec table rest with h0 | ⟨e, he, hp, hl⟩
  · rw [h0]; simp
  · rw [hl]
    have := isPrefixOf_take hp
    rw [this.1]
    exact ⟨this.2, ht e he⟩

theorem regexMatch_bytes (rest : Bytes) : (regexMatch rest).2 ≤ rest.length ∧
    ∀ b ∈ rest.take (regexMatch rest).2, b.toNat ≠ 10 := by
  unfold regexMatch
  split
  · simp
  · rename_i b bs
    have hr {p : UInt8 → Bool} (hp : ∀ x, p x = true → x.toNat ≠ 10) (hb : b.toNat ≠ 10) :
        run p bs + 1 ≤ (b :: bs).length ∧ ∀ x ∈ (b :: bs).take (run p bs + 1), x.toNat ≠ 10 := by
      refine ⟨by have := run_le p bs; simp only [List.length_cons]; omega, ?_⟩
      rw [List.take_succ_cons]
      intro x hx
      rcases List.mem_cons.mp hx with rfl | hx
      · exact hb
      · exact hp x (run_all p bs x hx)
    have halnum : ∀ x, isAlnum x = true → x.toNat ≠ 10 := by
      intro x hx; simp [isAlnum, isUpper, isLower, isDigit] at hx; omega
    have hdig : ∀ x, isDigit x = true → x.toNat ≠ 10 := by
      intro x hx; simp [isDigit] at hx; omega
    split
    · rename_i hu; exact hr halnum (by simp [isUpper] at hu; omega)
    · split
      · rename_i hu; exact hr halnum (by simp [isLower] at hu; omega)
      · split
        · rename_i hz
          refine ⟨by simp, ?_⟩
          intro x hx
          simp at hx
          subst hx; omega
        · split
          · rename_i hd; exact hr hdig (hdig b hd)
          · simp

theorem regexMatch_kind (rest : Bytes) (h : 0 < (regexMatch rest).2) :
    (regexMatch rest).1 ≠ .kw ∧ (regexMatch rest).1 ≠ .op := by
  unfold regexMatch at *
  split
  · simp at h
  · repeat' split
    all_goals simp_all

theorem logosNext_spec {rest : Bytes} {k : Kind} {n : Nat} {t : Bytes}
    (h : logosNext rest = .tok k n t) :
    0 < n ∧ n ≤ rest.length ∧ (∀ b ∈ rest.take n, b.toNat ≠ 10) ∧
      ((k = .upper ∨ k = .lower) → t = rest.take n) := by
  have hpos := logosNext_pos h
  unfold logosNext at h
  simp only at h
  split at h
  · contradiction
  · split at h
    · cases h
      have := bestLit_bytes keywords_no_newline rest
      exact ⟨hpos, this.1, this.2, by simp⟩
    · split at h
      · cases h
        have := bestLit_bytes operators_no_newline rest
        exact ⟨hpos, this.1, this.2, by simp⟩
      · cases h
        have := regexMatch_bytes rest
        exact ⟨hpos, this.1, this.2, fun _ => rfl⟩

theorem lexError_spec {b : UInt8} {tl : Bytes} {pos : Pos} {s : Scanned}
    (hb : isAsciiWs b = false) (h : lexError (b :: tl) pos = .yes s) : StepSpec (b :: tl) pos s := by
  unfold lexError at h
  dsimp only at h
  split at h
  · contradiction
  · rename_i rest' hbump
    cases h
    simp only [List.drop_succ_cons, List.drop_zero] at hbump ⊢
    have hc := run_le isCont tl
    have hcall := run_all isCont tl
    generalize hk : run isCont tl = k at *
    have hrem : List.drop (1 + k) (b :: tl) = tl.drop k := by
      rw [Nat.add_comm, List.drop_succ_cons]
    rw [hrem] at hbump ⊢
    have hs := run_le (fun c => !isAsciiWs c) (tl.drop k)
    have hsall := run_all (fun c => !isAsciiWs c) (tl.drop k)
    generalize hj : run (fun c => !isAsciiWs c) (tl.drop k) = j at *
    simp only [List.length_drop] at hs
    have hlen : 1 + k + j ≤ (b :: tl).length := by simp only [List.length_cons]; omega
    refine ⟨1 + k + j, by omega, hlen, ?_, rfl, ?_, rfl, by simp⟩
    · rw [bump_eq hbump, List.drop_drop]
      have : 1 + k + j = (k + j) + 1 := by omega
      rw [this, List.drop_succ_cons]
    · have hall : ∀ x ∈ (b :: tl).take (1 + k + j), x.toNat ≠ 10 := by
        have : 1 + k + j = (k + j) + 1 := by omega
        rw [this, List.take_succ_cons, List.take_add]
        intro x hx
        rcases List.mem_cons.mp hx with rfl | hx
        · simp [isAsciiWs] at hb; omega
        rcases List.mem_append.mp hx with hx | hx
        · have := isCont_ge (hcall x hx); omega
        · have := hsall x hx
          simp [isAsciiWs] at this; omega
      rw [advanceAll_no_newline _ _ hall]
      simp only [List.length_take, addCol]
      congr 1
      simp only [List.length_cons]; omega

/-- **one scanner step tracks positions exactly**: `nextRaw` skips `k1` bytes of whitespace and then
consumes a token of `k2 - k1 ≥ 1` bytes; the token's start and end are the ground-truth positions
of the offsets `k1` and `k2`. -/
theorem nextRaw_spec {input : Bytes} {pos0 : Pos} {s : Scanned} (h : nextRaw input pos0 = .tok s) :
    ∃ k1 k2, k1 < k2 ∧ k2 ≤ input.length ∧ s.rest = input.drop k2 ∧
      s.tok.start = advanceAll pos0 (input.take k1) ∧ s.tok.stop = advanceAll pos0 (input.take k2) ∧
      s.pos = s.tok.stop ∧
      ((s.tok.kind = .upper ∨ s.tok.kind = .lower) →
        s.tok.text = (input.drop k1).take (k2 - k1) ∧ s.tok.stop = addCol s.tok.start (k2 - k1)) := by
  unfold nextRaw at h
  simp only at h
  split at h
  · contradiction
  · rename_i rest hb
    have hrest := bump_eq hb
    have hk := run_le isAsciiWs input
    have hstop := run_stop isAsciiWs input
    rw [wsPos_exact] at h
    generalize hkk : run isAsciiWs input = k at *
    generalize hpos : advanceAll pos0 (List.take k input) = pos at h
    -- lift a sub-lexer's `StepSpec` on `rest` to offsets of `input`
    have lift : ∀ s', StepSpec rest pos s' → ∃ k1 k2, k1 < k2 ∧ k2 ≤ input.length ∧
        s'.rest = input.drop k2 ∧
        s'.tok.start = advanceAll pos0 (input.take k1) ∧ s'.tok.stop = advanceAll pos0 (input.take k2) ∧
        s'.pos = s'.tok.stop ∧
        ((s'.tok.kind = .upper ∨ s'.tok.kind = .lower) →
          s'.tok.text = (input.drop k1).take (k2 - k1) ∧ s'.tok.stop = addCol s'.tok.start (k2 - k1)) := by
      rintro s' ⟨n, hn0, hnl, hr, hst, hsp, hp, hid⟩
      subst hrest
      simp only [List.length_drop] at hnl
      refine ⟨k, k + n, by omega, by omega, by rw [hr, List.drop_drop], by rw [hst, hpos], ?_, hp, ?_⟩
      · rw [hsp, advanceAll_take_add, hpos]
      · intro hkind
        have := hid hkind
        have hsub : k + n - k = n := by omega
        rw [hsub, hst]
        exact this
    cases h1 : lexStrLit rest pos with
    | yes s1 => simp only [h1, ofTry] at h; cases h; exact lift _ (lexStrLit_spec h1)
    | panic => simp [h1, ofTry] at h
    | no =>
      cases h2 : lexLineComment rest pos with
      | yes s2 => simp only [h1, h2, ofTry] at h; cases h; exact lift _ (lexLineComment_spec h2)
      | panic => simp [h1, h2, ofTry] at h
      | no =>
        cases h3 : lexBlockComment rest pos with
        | yes s3 => simp only [h1, h2, h3, ofTry] at h; cases h; exact lift _ (lexBlockComment_spec h3)
        | panic => simp [h1, h2, h3, ofTry] at h
        | no =>
          simp only [h1, h2, h3, ofTry] at h
          split at h
          · contradiction
          · rename_i hne
            split at h
            · -- error token: the first byte of `rest` is not whitespace
              cases hr : rest with
              | nil => simp [hr] at hne
              | cons b tl =>
                have hbws : isAsciiWs b = false := by
                  rcases hstop with he | ⟨hlt, hf⟩
                  · rw [hrest, he] at hr; simp at hr
                  · rw [hrest, List.drop_eq_getElem_cons hlt] at hr
                    cases hr; exact hf
                rw [hr] at h
                cases h4 : lexError (b :: tl) pos with
                | yes s4 =>
                  simp only [h4] at h; cases h
                  exact lift _ (hr ▸ lexError_spec hbws h4)
                | panic => simp [h4] at h
                | no => simp [h4] at h
            · rename_i kd n text hl
              cases h
              obtain ⟨hn0, hnl, hall, hid⟩ := logosNext_spec hl
              apply lift
              refine ⟨n, hn0, hnl, rfl, rfl, ?_, rfl, ?_⟩
              · simp only
                rw [advanceAll_no_newline _ _ hall]
                simp only [List.length_take]; congr 1; omega
              · intro hkind
                exact ⟨hid hkind, rfl⟩



theorem le_advance (p : Pos) (b : UInt8) : p ≤ advance p b := by
  unfold advance; split
  · exact Or.inl (by simp)
  · exact Or.inr ⟨rfl, by simp⟩

theorem Pos.le_refl' (a : Pos) : a ≤ a := Or.inr ⟨rfl, Nat.le_refl _⟩
theorem Pos.le_trans' {a b c : Pos} (h1 : a ≤ b) (h2 : b ≤ c) : a ≤ c := by
  rcases h1 with h1 | ⟨h1, h1'⟩ <;> rcases h2 with h2 | ⟨h2, h2'⟩
  · exact Or.inl (by omega)
  · exact Or.inl (by omega)
  · exact Or.inl (by omega)
  · exact Or.inr ⟨by omega, by omega⟩

theorem le_advanceAll (p : Pos) (bs : Bytes) : p ≤ advanceAll p bs := by
  induction bs generalizing p with
  | nil => exact Pos.le_refl' p
  | cons b bs ih => exact Pos.le_trans' (le_advance p b) (ih (advance p b))

/-- ground-truth positions are monotone in the offset -/
theorem posOf_mono (doc : Bytes) (a b : Nat) (h : a ≤ b) : posOf (doc.take a) ≤ posOf (doc.take b) := by
  have : b = a + (b - a) := by omega
  rw [this]
  unfold posOf
  rw [advanceAll_take_add]
  exact le_advanceAll _ _

/-- The tokens `ts` sit in `doc` at strictly increasing, non-overlapping byte ranges `[a, b)` at or
after offset `o`; each token's `start`/`stop` are the ground-truth positions of `a` and `b`; an
identifier token's text is exactly the bytes of its range and its span stays on one line with
length = name length. -/
def TokensAt (doc : Bytes) : Nat → List Token → Prop
  | _, [] => True
  | o, t :: ts => ∃ a b, o ≤ a ∧ a < b ∧ b ≤ doc.length ∧
      t.start = posOf (doc.take a) ∧ t.stop = posOf (doc.take b) ∧
      ((t.kind = .upper ∨ t.kind = .lower) →
        t.text = (doc.drop a).take (b - a) ∧ t.stop = addCol t.start t.text.length) ∧
      TokensAt doc b ts

theorem rawLoop_tracked (doc : Bytes) (fuel o : Nat) (ho : o ≤ doc.length) :
    TokensAt doc o (rawLoop fuel (doc.drop o) (posOf (doc.take o))).toks := by
  induction fuel generalizing o with
  | zero => simp [rawLoop, TokensAt]
  | succ fuel ih =>
    unfold rawLoop
    split
    · simp [TokensAt]
    · simp [TokensAt]
    · rename_i s hs
      obtain ⟨k1, k2, hlt, hle, hrest, hstart, hstop, hpos, hid⟩ := nextRaw_spec hs
      simp only [List.length_drop] at hle
      have hb : o + k2 ≤ doc.length := by omega
      have e1 : posOf (doc.take (o + k1)) = advanceAll (posOf (doc.take o)) ((doc.drop o).take k1) := by
        unfold posOf; rw [advanceAll_take_add]
      have e2 : posOf (doc.take (o + k2)) = advanceAll (posOf (doc.take o)) ((doc.drop o).take k2) := by
        unfold posOf; rw [advanceAll_take_add]
      refine ⟨o + k1, o + k2, by omega, by omega, hb, by rw [hstart, e1], by rw [hstop, e2], ?_, ?_⟩
      · intro hk
        obtain ⟨ht, hs'⟩ := hid hk
        have hsub : o + k2 - (o + k1) = k2 - k1 := by omega
        rw [hsub, ← List.drop_drop]
        refine ⟨ht, ?_⟩
        rw [hs', ht, List.length_take, List.length_drop, List.length_drop]
        congr 1; omega
      · have := ih (o + k2) hb
        rw [hrest, List.drop_drop, hpos, hstop, ← e2]
        exact this


end SamVerif.Lexer
