import SamVerif.Model.CastInsert
namespace SamVerif.CastInsert

theorem subTy_refl (t : WTy) : subTy t t = true := by cases t <;> simp [subTy]

theorem lowerFor_validates (Γ : Locals) (e : Expr) (target : WTy) (h : exprOk Γ e target) :
    subTy (opTy Γ (lowerFor Γ e target)) target = true := by
  cases e with
  | lit =>
    simp only [exprOk] at h
    subst h
    simp [lowerFor, lowerPlain, opTy, subTy]
  | var n occ =>
    obtain ⟨_, h⟩ := h
    rcases h with h | ⟨h, t, ht⟩
    · cases target with
      | i32 => simp [lowerFor, lowerPlain, opTy, h, subTy]
      | eq => simp [lowerFor, lowerPlain, opTy, h, subTy]
      | ref t => simp [lowerFor, opTy, h, subTy]
    · subst ht
      simp [lowerFor, opTy, h, subTy]

theorem lowerPtr_validates (Γ : Locals) (n t : Nat) (h : Γ n = .ref t ∨ Γ n = .eq) :
    subTy (opTy Γ (lowerPtr Γ n t)) (.ref t) = true := by
  rcases h with h | h <;> simp [lowerPtr, opTy, h, subTy]

end SamVerif.CastInsert
