import SamVerif.Model.Scope
import SamVerif.Model.ScopeSig
/-! Helper lemmas for `Props/C13.lean` and `Props/C15.lean`: renaming commutes with every piece of
the scope machine and of the traversal. -/
namespace SamVerif.Scope

variable {α β : Type} [DecidableEq α] [DecidableEq β]

theorem lookupKV_map (f : α → β) (hf : Function.Injective f) (n : α) (s : Scope α) :
    lookupKV (f n) (Scope.map f s) = lookupKV n s := by
  induction s with
  | nil => rfl
  | cons e s ih =>
    obtain ⟨k, v⟩ := e
    simp only [Scope.map, List.map_cons, lookupKV] at ih ⊢
    by_cases h : k = n
    · simp [h]
    · have : f k ≠ f n := fun h' => h (hf h')
      simp [h, this, ih]

theorem insertKV_map (f : α → β) (hf : Function.Injective f) (n : α) (l : Nat) (s : Scope α) :
    insertKV (f n) l (Scope.map f s) = Scope.map f (insertKV n l s) := by
  simp only [insertKV, Scope.map, List.map_cons, List.filter_map]
  congr 1
  congr 1
  apply List.filter_congr
  intro e _
  by_cases h : e.1 = n
  · simp [h]
  · have : f e.1 ≠ f n := fun h' => h (hf h')
    simp [h, this]

theorem lookupCtx_map (f : α → β) (hf : Function.Injective f) (n : α) (ls : List (Scope α)) :
    lookupCtx (f n) (ls.map (Scope.map f)) = lookupCtx n ls := by
  induction ls with
  | nil => rfl
  | cons s ls ih => simp only [List.map_cons, lookupCtx, lookupKV_map f hf, ih]

theorem recordCapture_map (f : α → β) (hf : Function.Injective f) (n : α) (l k : Nat)
    (cs : List (Scope α)) :
    recordCapture (f n) l k (cs.map (Scope.map f)) = (recordCapture n l k cs).map (Scope.map f) := by
  induction k generalizing cs with
  | zero => simp [recordCapture]
  | succ k ih =>
    cases cs with
    | nil => simp [recordCapture]
    | cons c cs => simp only [List.map_cons, recordCapture, insertKV_map f hf, ih]

theorem previousDef_map (f : α → β) (hf : Function.Injective f) (n : α) (ls : List (Scope α)) :
    previousDef (f n) (ls.map (Scope.map f)) = previousDef n ls := by
  induction ls with
  | nil => rfl
  | cons s ls ih => simp only [List.map_cons, previousDef, lookupKV_map f hf, ih]

theorem insertLocal_map (f : α → β) (hf : Function.Injective f) (n : α) (l : Nat)
    (ls : List (Scope α)) :
    insertLocal (f n) l (ls.map (Scope.map f)) = (insertLocal n l ls).map (Scope.map f) := by
  cases ls with
  | nil => rfl
  | cons s ls => simp only [List.map_cons, insertLocal, insertKV_map f hf]

theorem defineId_map (f : α → β) (hf : Function.Injective f) (st : St α) (n : α) (loc : Nat) :
    defineId (st.map f) (f n) loc = (defineId st n loc).map f := by
  simp only [defineId, St.map, previousDef_map f hf, insertLocal_map f hf]
  cases previousDef n st.locals with
  | none => simp
  | some prev =>
    by_cases h : loc ∈ st.invalid
    · simp [h]
    · simp [h, Err.map]

theorem useId_map (f : α → β) (hf : Function.Injective f) (st : St α) (n : α) (loc : Nat)
    (ft : Bool) :
    useId (st.map f) (f n) loc ft = (useId st n loc ft).map f := by
  simp only [useId, St.map, lookupCtx_map f hf]
  cases lookupCtx n st.locals with
  | none => simp [Err.map]
  | some r =>
    obtain ⟨k, l⟩ := r
    cases ft <;> simp [recordCapture_map f hf]

theorem insertKV_nat_map (f : α → β) (loc : Nat) (l : Scope α) (m : List (Nat × Scope α)) :
    insertKV loc (Scope.map f l) (m.map fun e => (e.1, Scope.map f e.2))
      = (insertKV loc l m).map fun e => (e.1, Scope.map f e.2) := by
  simp only [insertKV, List.map_cons, List.filter_map]
  congr 1

theorem step_map (f : α → β) (hf : Function.Injective f) (st : St α) (ev : Ev α) :
    step (st.map f) (ev.map f) = (step st ev).map f := by
  cases ev with
  | push => simp [step, St.map, Ev.map, Scope.map]
  | define n l => simpa [step, Ev.map] using defineId_map f hf st n l
  | use n l ft => simpa [step, Ev.map] using useId_map f hf st n l ft
  | pop k loc =>
    simp only [step, Ev.map, St.map]
    cases hl : st.locals with
    | nil => simp
    | cons l ls =>
      cases hc : st.captured with
      | nil => simp
      | cons c cs =>
        cases k <;> simp [insertKV_nat_map]

theorem run_map (f : α → β) (hf : Function.Injective f) (evs : List (Ev α)) (st : St α) :
    run (evs.map (Ev.map f)) (st.map f) = (run evs st).map f := by
  induction evs generalizing st with
  | nil => rfl
  | cons ev evs ih =>
    simp only [run, List.map_cons, List.foldl_cons] at ih ⊢
    rw [step_map f hf]
    exact ih (step st ev)

/-! ### the traversal commutes with renaming (no injectivity needed) -/

mutual
theorem visit_map (f : α → β) : ∀ n : Node α, visit (Node.map f n) = (visit n).map (Ev.map f)
  | .mk tag name loc kids => by
    have hk := visitList_map f kids
    match kids with
    | [] => cases tag <;> cases name <;> simp [visit, Node.map, Node.mapList, visitList, usesList, Ev.map]
    | [k1] =>
      have h1 := visit_map f k1
      cases tag <;> cases name <;>
        simp_all [visit, Node.map, Node.mapList, visitList, usesList, Ev.map]
    | [k1, k2] =>
      have h1 := visit_map f k1
      have h2 := visit_map f k2
      have u2 := uses_map f k2
      cases tag <;> cases name <;>
        simp_all [visit, Node.map, Node.mapList, visitList, usesList, Ev.map]
    | [k1, k2, k3] =>
      have h1 := visit_map f k1
      have h2 := visit_map f k2
      have h3 := visit_map f k3
      have u := usesList_map f [k2, k3]
      cases tag <;> cases name <;>
        simp_all [visit, Node.map, Node.mapList, visitList, usesList, Ev.map]
    | [k1, k2, k3, k4] =>
      have h1 := visit_map f k1
      have h2 := visit_map f k2
      have h3 := visit_map f k3
      have h4 := visit_map f k4
      have u := usesList_map f [k2, k3, k4]
      cases tag <;> cases name <;>
        simp_all [visit, Node.map, Node.mapList, visitList, usesList, Ev.map]
    | k1 :: k2 :: k3 :: k4 :: k5 :: ks =>
      have h1 := visit_map f k1
      have u := usesList_map f (k2 :: k3 :: k4 :: k5 :: ks)
      cases tag <;> cases name <;>
        simp_all [visit, Node.map, Node.mapList, visitList, usesList, Ev.map]
theorem visitList_map (f : α → β) : ∀ ks : List (Node α),
    visitList (Node.mapList f ks) = (visitList ks).map (Ev.map f)
  | [] => by simp [visitList, Node.mapList]
  | k :: ks => by simp [visitList, Node.mapList, visit_map f k, visitList_map f ks]
theorem uses_map (f : α → β) : ∀ n : Node α, uses (Node.map f n) = (uses n).map (Ev.map f)
  | .mk tag name loc kids => by
    have hu := usesList_map f kids
    cases tag <;> cases name <;> simp_all [uses, Node.map, Ev.map]
theorem usesList_map (f : α → β) : ∀ ks : List (Node α),
    usesList (Node.mapList f ks) = (usesList ks).map (Ev.map f)
  | [] => by simp [usesList, Node.mapList]
  | k :: ks => by simp [usesList, Node.mapList, uses_map f k, usesList_map f ks]
end


theorem flatMap_congr' {γ δ : Type} {l : List γ} {f g : γ → List δ} (h : ∀ a ∈ l, f a = g a) :
    l.flatMap f = l.flatMap g := by
  induction l with
  | nil => rfl
  | cons a l ih =>
    simp only [List.flatMap_cons]
    rw [h a (by simp), ih (fun b hb => h b (by simp [hb]))]

theorem visitTParams_map (f : α → β) (tps : List (TParam α)) :
    visitTParams (tps.map (TParam.map f)) = (visitTParams tps).map (Ev.map f) := by
  simp only [visitTParams, List.map_append, List.map_map, List.flatMap_map, List.map_flatMap]
  congr 1
  · congr 1
    · apply flatMap_congr'
      intro tp _
      cases h : tp.bound <;> simp [TParam.map, h, Ev.map]
  · apply flatMap_congr'
    intro tp _
    cases h : tp.bound <;> simp [TParam.map, h, visitList_map]

theorem visitMember_map (f : α → β) (m : Member α) :
    visitMember (Member.map f m) = (visitMember m).map (Ev.map f) := by
  simp only [visitMember, Member.map, visitTParams_map, List.map_append, List.map_map,
    List.flatMap_map, List.map_flatMap, visit_map, List.map_cons, List.map_nil, Ev.map]
  cases m.body <;> simp [visit_map, Function.comp_def, Ev.map]

theorem visitTypeDef_map (f : α → β) (t : TypeDef α) :
    visitTypeDef (TypeDef.map f t) = (visitTypeDef t).map (Ev.map f) := by
  cases t <;>
    simp [visitTypeDef, TypeDef.map, List.flatMap_map, List.map_flatMap, visit_map, visitList_map,
      Function.comp_def, Ev.map]

theorem visitMembers_map (f : α → β) (t : Toplevel α) (b : Bool) :
    visitMembers (Toplevel.map f t) b = (visitMembers t b).map (Ev.map f) := by
  simp only [visitMembers, Toplevel.map, List.filter_map, List.flatMap_map, List.map_flatMap]
  have : ((fun m : Member β => m.isMethod == b) ∘ Member.map f) = fun m : Member α => m.isMethod == b := by
    funext m; simp [Member.map]
  rw [this]
  apply flatMap_congr'
  intro m _
  exact visitMember_map f m

theorem visitToplevel_map (f : α → β) (this : α) (t : Toplevel α) :
    visitToplevel (f this) (Toplevel.map f t) = (visitToplevel this t).map (Ev.map f) := by
  have h1 := visitMembers_map f t true
  have h2 := visitMembers_map f t false
  simp only [visitToplevel, h1, h2]
  simp only [Toplevel.map, visitTParams_map, visitTypeDef_map, List.map_append, List.map_map,
    List.flatMap_map, List.map_flatMap, List.map_cons, List.map_nil, Ev.map, Function.comp_def,
    visitList_map, TParam.map, Member.map]
  by_cases h : t.isClass = true <;> simp [h, Ev.map]

theorem visitModule_map (f : α → β) (this : α) (m : Module α) :
    visitModule (f this) (Module.map f m) = (visitModule this m).map (Ev.map f) := by
  simp only [visitModule, Module.map, List.map_append, List.map_map, List.flatMap_map,
    List.map_flatMap, Function.comp_def, Ev.map, visitToplevel_map]
  simp [Toplevel.map]

theorem init_map (f : α → β) : (init : St α).map f = init := by
  simp [init, St.map, Scope.map]

end SamVerif.Scope
