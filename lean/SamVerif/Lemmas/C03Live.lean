import SamVerif.Model.OptKernel
/-!
The only place where C03 depends on C02's use-collector model (`Model/OptKernel.lean`: `US`, one
constructor per syntactic use position of `collect_use_from_stmt`; `US.uses`; `dceU`; the `While`
arm's `loopVarsStage1`).  C03 reads the names as ids of *entities a kept statement refers to* and
re-exports, under its own names, the facts behind "a reference in any use position keeps the
referenced entity" (the class of seeded fault C03e: a collector arm that skips one position).
The lemma is proved here from the model's definitions (it coincides with C02's `dceU_kept_uses_live`),
so that C03 does not depend on the names or the build state of `Props/C02.lean`.
-/
namespace SamVerif.C03Live
open SamVerif.Opt

/-- every name a kept statement reads - in any position - is in the collected set at block entry -/
theorem kept_uses_collected (p : List US) (live : List Nat) :
    ∀ s, s ∈ (dceU true p live).1 → ∀ x, x ∈ s.uses true → x ∈ (dceU true p live).2 := by
  induction p with
  | nil => intro s h; simp [dceU] at h
  | cons t r ih =>
    intro s hs x hx
    simp only [dceU] at hs ⊢
    by_cases hc : t.kept (dceU true r live).2 = true
    · simp only [hc, if_true] at hs ⊢
      simp only [List.mem_cons] at hs
      rcases hs with rfl | hs
      · exact List.mem_append_left _ hx
      · exact List.mem_append_right _ (ih s hs x hx)
    · simp only [hc] at hs ⊢
      exact ih s hs x hx

/-- what is live after the block stays collected -/
theorem live_stays_collected (p : List US) (live : List Nat) : ∀ x, x ∈ live → x ∈ (dceU true p live).2 := by
  induction p with
  | nil => intro x h; exact h
  | cons s r ih =>
    intro x h
    simp only [dceU]
    split
    · exact List.mem_append_right _ (ih x h)
    · exact ih x h

/-- a statement with an effect (call, break) always stays -/
theorem mustStay_kept (p q : List US) (s : US) (live : List Nat) (h : s.mustStay = true) :
    s ∈ (dceU true (p ++ s :: q) live).1 := by
  induction p with
  | nil =>
    simp only [List.nil_append, dceU, US.kept, h, Bool.true_or, if_true]
    exact List.mem_cons_self
  | cons t r ih =>
    simp only [List.cons_append, dceU]
    split
    · exact List.mem_cons_of_mem _ ih
    · exact ih

/-- the names the `While` arm looks at before it drops loop variables: initial values, LOOP VALUES and
every use position of the body -/
def whileMentioned (lvs : List (Nat × Operand × Operand)) (body : List US) : List Nat :=
  lvs.flatMap (fun lv => lv.2.1.vars ++ lv.2.2.vars) ++ body.flatMap (US.uses true)

theorem loopVarsStage1_eq (lvs : List (Nat × Operand × Operand)) (body : List US) :
    loopVarsStage1 true lvs body = lvs.filter (fun lv => (whileMentioned lvs body).contains lv.1) := rfl

end SamVerif.C03Live
