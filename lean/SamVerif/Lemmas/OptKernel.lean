import SamVerif.Model.OptKernel
/-! Helper lemmas for C02: two's-complement wrap-around is a ring congruence; commutation of the
target operators. (Property theorems live in `Props/C02.lean`.) -/
namespace SamVerif.Opt

theorem wrap32_of_inRange {x : Int} (h : InRange x) : wrap32 x = x := by
  unfold InRange at h; unfold wrap32; omega
theorem wrap32_add_mul (a k : Int) : wrap32 (a + 4294967296 * k) = wrap32 a := by
  unfold wrap32; omega
theorem wrap32_spec (a : Int) : ∃ k : Int, wrap32 a = a + 4294967296 * k := by
  refine ⟨-((a + 2147483648) / 4294967296), ?_⟩
  unfold wrap32; omega
theorem wrap32_mul_left (a b : Int) : wrap32 (wrap32 a * b) = wrap32 (a * b) := by
  obtain ⟨k, hk⟩ := wrap32_spec a
  rw [hk]
  have : (a + 4294967296 * k) * b = a * b + 4294967296 * (k * b) := by grind
  rw [this, wrap32_add_mul]
theorem wrap32_mul_right (a b : Int) : wrap32 (a * wrap32 b) = wrap32 (a * b) := by
  rw [Int.mul_comm, wrap32_mul_left, Int.mul_comm]
theorem wrap32_add_left (a b : Int) : wrap32 (wrap32 a + b) = wrap32 (a + b) := by
  unfold wrap32; omega
theorem wrap32_add_right (a b : Int) : wrap32 (a + wrap32 b) = wrap32 (a + b) := by
  unfold wrap32; omega

theorem wrap32_inRange (x : Int) : InRange (wrap32 x) := by
  unfold InRange wrap32; omega

theorem emod32_of_range {b : Int} (h : 0 ≤ b ∧ b < 32) : b % 32 = b := by omega

theorem evalTarget_comm (op : Op) (a b : Int)
    (h : op = .mul ∨ op = .add ∨ op = .land ∨ op = .lor ∨ op = .xor ∨ op = .eq ∨ op = .ne) :
    evalTarget op a b = evalTarget op b a := by
  rcases h with rfl | rfl | rfl | rfl | rfl | rfl | rfl <;> simp only [evalTarget]
  · rw [Int.mul_comm]
  · rw [Int.add_comm]
  · rw [BitVec.and_comm]
  · rw [BitVec.or_comm]
  · rw [BitVec.xor_comm]
  · congr 2; simp [eq_comm]
  · congr 2; simp [ne_comm]

theorem derived_eq (L : ObsLoop) (i : Int) : L.derived i = wrap32 (L.c + L.m * i) := by
  unfold ObsLoop.derived mulT addT
  split
  · rename_i h; rw [h, Int.zero_add, Int.mul_comm]
  · split
    · rename_i h; rw [h, Int.one_mul, Int.add_comm]
    · rw [wrap32_add_left, Int.add_comm, Int.mul_comm]

theorem tripLT_exact (i0 step bound mx n : Int) (h : tripLT i0 step bound mx = .count n) :
    0 ≤ n ∧ (∀ k : Int, 0 ≤ k → k < n → i0 ≤ i0 + step * k ∧ i0 + step * k < bound) ∧
    ¬ (i0 + step * n < bound) ∧ i0 ≤ i0 + step * n ∧ i0 + step * n ≤ max mx i0 := by
  unfold tripLT at h
  split at h
  · injection h with h; subst h
    refine ⟨by omega, ?_, ?_, ?_, ?_⟩
    · intro k h0 h1; omega
    · simp; omega
    · simp
    · simp; omega
  · split at h
    · simp at h
    · rename_i hb hs
      simp only at h
      have hd : 0 < bound - i0 := by omega
      have hs' : 0 < step := by omega
      generalize hdd : bound - i0 = d at *
      have e1 : Int.tdiv d step = d / step := Int.tdiv_eq_ediv_of_nonneg (by omega)
      have e2 : Int.tmod d step = d % step := Int.tmod_eq_emod_of_nonneg (by omega)
      rw [e1, e2] at h
      have hq : step * (d / step) + d % step = d := Int.mul_ediv_add_emod d step
      have hr0 : 0 ≤ d % step := Int.emod_nonneg d (by omega)
      have hr1 : d % step < step := Int.emod_lt_of_pos d hs'
      have hqn : 0 ≤ d / step := Int.ediv_nonneg (by omega) (by omega)
      generalize d / step = q at *
      generalize d % step = r at *
      by_cases hr : r = 0
      · simp only [hr, ne_eq, not_true_eq_false, if_false, Int.add_zero] at h
        split at h
        · simp at h
        · split at h
          · simp at h
          · rename_i hfin hfit
            injection h with h
            subst h
            have hpos : 0 ≤ step * q := Int.mul_nonneg (by omega) hqn
            refine ⟨hqn, ?_, ?_, ?_, ?_⟩
            · intro k h0 h1
              have : step * k ≤ step * (q - 1) := Int.mul_le_mul_of_nonneg_left (by omega) (by omega)
              rw [Int.mul_sub, Int.mul_one] at this
              have : 0 ≤ step * k := Int.mul_nonneg (by omega) h0
              omega
            · omega
            · omega
            · omega
      · simp only [hr, ne_eq, not_false_eq_true, if_true] at h
        split at h
        · simp at h
        · split at h
          · simp at h
          · rename_i hfin hfit
            injection h with h
            subst h
            have hpos : 0 ≤ step * q := Int.mul_nonneg (by omega) hqn
            rw [Int.mul_add, Int.mul_one] at hfin ⊢
            refine ⟨by omega, ?_, ?_, ?_, ?_⟩
            · intro k h0 h1
              have : step * k ≤ step * q := Int.mul_le_mul_of_nonneg_left (by omega) (by omega)
              have : 0 ≤ step * k := Int.mul_nonneg (by omega) h0
              omega
            · omega
            · omega
            · omega

theorem iterW_eq (i0 step : Int) (hi : InRange i0) (k : Nat) :
    iterW i0 step k = wrap32 (i0 + step * (k : Int)) := by
  induction k with
  | zero => simp [iterW, wrap32_of_inRange hi]
  | succ k ih =>
    simp only [iterW, ih, wrap32_add_left]
    congr 1
    rw [Int.natCast_succ, Int.mul_add, Int.mul_one, Int.add_assoc]

/-- Reading of the closed form for all four guard kinds: the guard holds at steps `0..n-1` (with the
counter staying between the initial value and the bound), fails at step `n`, and the counter value
at step `n` is still a 32-bit value (this is what the `maxFinal` test of the code guarantees). -/
theorem tripCount_ideal (g : Guard) (i0 step bound n : Int) (hi : InRange i0)
    (h : tripCount g i0 step bound = .count n) :
    0 ≤ n ∧
    (∀ k : Int, 0 ≤ k → k < n → g.holds (i0 + step * k) bound = true ∧
        ((i0 ≤ i0 + step * k ∧ i0 + step * k ≤ bound) ∨ (bound ≤ i0 + step * k ∧ i0 + step * k ≤ i0))) ∧
    g.holds (i0 + step * n) bound = false ∧ InRange (i0 + step * n) := by
  unfold InRange at hi
  cases g <;> simp only [tripCount] at h
  case lt =>
    obtain ⟨h0, h1, h2, h3, h4⟩ := tripLT_exact _ _ _ _ _ h
    refine ⟨h0, fun k hk0 hk1 => ?_, ?_, ?_⟩
    · have := h1 k hk0 hk1
      simp only [Guard.holds, decide_eq_true_eq]; omega
    · simp only [Guard.holds, decide_eq_false_iff_not]; exact h2
    · unfold InRange; omega
  case le =>
    obtain ⟨h0, h1, h2, h3, h4⟩ := tripLT_exact _ _ _ _ _ h
    refine ⟨h0, fun k hk0 hk1 => ?_, ?_, ?_⟩
    · have := h1 k hk0 hk1
      simp only [Guard.holds, decide_eq_true_eq]; omega
    · simp only [Guard.holds, decide_eq_false_iff_not]; omega
    · unfold InRange; omega
  case gt =>
    obtain ⟨h0, h1, h2, h3, h4⟩ := tripLT_exact _ _ _ _ _ h
    rw [Int.neg_mul] at h2 h3 h4
    refine ⟨h0, fun k hk0 hk1 => ?_, ?_, ?_⟩
    · have := h1 k hk0 hk1
      rw [Int.neg_mul] at this
      simp only [Guard.holds, decide_eq_true_eq]; omega
    · simp only [Guard.holds, decide_eq_false_iff_not]; omega
    · unfold InRange; omega
  case ge =>
    obtain ⟨h0, h1, h2, h3, h4⟩ := tripLT_exact _ _ _ _ _ h
    rw [Int.neg_mul] at h2 h3 h4
    refine ⟨h0, fun k hk0 hk1 => ?_, ?_, ?_⟩
    · have := h1 k hk0 hk1
      rw [Int.neg_mul] at this
      simp only [Guard.holds, decide_eq_true_eq]; omega
    · simp only [Guard.holds, decide_eq_false_iff_not]; omega
    · unfold InRange; omega
theorem derivedOf_eq (m c i : Int) : derivedOf m c i = wrap32 (c + m * i) := by
  unfold derivedOf mulT addT
  split
  · rename_i h; rw [h, Int.zero_add, Int.mul_comm]
  · split
    · rename_i h; rw [h, Int.one_mul, Int.add_comm]
    · rw [wrap32_add_left, Int.add_comm, Int.mul_comm]
theorem iterW_wrap_step (i0 st : Int) (k : Nat) : iterW i0 (wrap32 st) k = iterW i0 st k := by
  induction k with
  | zero => rfl
  | succ k ih => simp only [iterW, ih, wrap32_add_right]
theorem strength_iter (i0 st m c : Int) (k : Nat) :
    iterW (addT c (mulT m i0)) (wrap32 (st * m)) k = derivedOf m c (iterW i0 st k) := by
  rw [iterW_wrap_step, derivedOf_eq]
  induction k with
  | zero => simp only [iterW, addT, mulT, wrap32_add_right]
  | succ k ih =>
    simp only [iterW]
    rw [ih, wrap32_add_left]
    have h1 : wrap32 (c + m * wrap32 (iterW i0 st k + st))
        = wrap32 (c + m * (iterW i0 st k + st)) := by
      rw [← wrap32_add_right c (m * wrap32 _), wrap32_mul_right, wrap32_add_right]
    rw [h1]
    congr 1
    grind

theorem iterW_succ' (i0 st : Int) (k : Nat) : iterW i0 st (k + 1) = addT (iterW i0 st k) st := rfl

theorem derived_is_derivedOf (L : ObsLoop) (i : Int) : L.derived i = derivedOf L.m L.c i := rfl

theorem addT_mulT_eq (m c i : Int) : addT c (mulT m i) = wrap32 (c + m * i) := by
  unfold addT mulT; rw [wrap32_add_right]

/-- index form of the original loop -/
theorem runStrength_eq (L : ObsLoop) (fuel k : Nat) (last : Int) (acc : List Int) :
    runStrength L (wrap32 (L.step * L.m)) fuel (iterW L.i0 L.step k)
      (iterW (addT L.c (mulT L.m L.i0)) (wrap32 (L.step * L.m)) k) last acc
    = runOrig L fuel (iterW L.i0 L.step k) last acc := by
  induction fuel generalizing k last acc with
  | zero => rfl
  | succ fuel ih =>
    simp only [runStrength, runOrig]
    split
    · have := ih (k + 1) (iterW (addT L.c (mulT L.m L.i0)) (wrap32 (L.step * L.m)) k) (acc ++ [last])
      rw [iterW_succ', iterW_succ'] at this
      rw [this, strength_iter, derived_is_derivedOf]
    · rfl

theorem runElim_eq (L : ObsLoop) (n : Nat)
    (hbr : BreaksAt L.g L.i0 L.step L.bound n)
    (hg : ∀ k, k ≤ n →
      decide (iterW (addT L.c (mulT L.m L.i0)) (wrap32 (L.step * L.m)) k < addT L.c (mulT L.m L.bound))
        = L.g.holds (iterW L.i0 L.step k) L.bound)
    (fuel k : Nat) (hk : k ≤ n) (last : Int) (acc : List Int) :
    runElim (addT L.c (mulT L.m L.i0)) (wrap32 (L.step * L.m)) (addT L.c (mulT L.m L.bound)) fuel
      (iterW (addT L.c (mulT L.m L.i0)) (wrap32 (L.step * L.m)) k) last acc
    = runOrig L fuel (iterW L.i0 L.step k) last acc := by
  induction fuel generalizing k last acc with
  | zero => rfl
  | succ fuel ih =>
    simp only [runElim, runOrig]
    have hgk := hg k hk
    by_cases hh : L.g.holds (iterW L.i0 L.step k) L.bound = true
    · have hlt : iterW (addT L.c (mulT L.m L.i0)) (wrap32 (L.step * L.m)) k < addT L.c (mulT L.m L.bound) := by
        rw [hh] at hgk; exact of_decide_eq_true hgk
      have hkn : k < n := by
        rcases Nat.lt_or_ge k n with h | h
        · exact h
        · have : k = n := by omega
          subst this; rw [hbr.2] at hh; exact absurd hh (by simp)
      simp only [hh, hlt, if_true]
      have := ih (k + 1) (by omega) (iterW (addT L.c (mulT L.m L.i0)) (wrap32 (L.step * L.m)) k) (acc ++ [last])
      rw [iterW_succ', iterW_succ'] at this
      rw [this, strength_iter, derived_is_derivedOf]
    · have hnlt : ¬ iterW (addT L.c (mulT L.m L.i0)) (wrap32 (L.step * L.m)) k < addT L.c (mulT L.m L.bound) := by
        intro hlt
        have : decide (iterW (addT L.c (mulT L.m L.i0)) (wrap32 (L.step * L.m)) k < addT L.c (mulT L.m L.bound)) = true := decide_eq_true hlt
        rw [hgk] at this; exact hh this
      simp only [hh, hnlt, if_false]
      rfl

theorem dce_live_mono (p : List SStmt) (live : List Nat) : ∀ x, x ∈ live → x ∈ (dce p live).2 := by
  induction p with
  | nil => intro x h; exact h
  | cons s r ih =>
    intro x h
    cases s with
    | bin y op a b =>
      simp only [dce]
      split <;> simp_all
    | print a =>
      simp only [dce]
      simp_all

theorem eval_agree (e : Operand) (ρ1 ρ2 : Nat → Int) (h : ∀ x, x ∈ e.vars → ρ1 x = ρ2 x) :
    e.eval ρ1 = e.eval ρ2 := by
  cases e with
  | lit n => rfl
  | var x => exact h x (by simp [Operand.vars])

/-- No division or remainder can disappear without changing the trap behaviour; pure results that
nobody reads can. -/
theorem evalTarget_total_of_not_div (op : Op) (a b : Int) (h1 : op ≠ .div) (h2 : op ≠ .mod) :
    ∃ v, evalTarget op a b = some v := by
  cases op <;> simp_all [evalTarget]

theorem dce_bin (x : Nat) (op : Op) (a b : Operand) (r : List SStmt) (live : List Nat) :
    dce (.bin x op a b :: r) live =
      if x ∉ (dce r live).2 ∧ op ≠ .div ∧ op ≠ .mod then dce r live
      else (.bin x op a b :: (dce r live).1, a.vars ++ b.vars ++ (dce r live).2) := by
  simp only [dce]

theorem dce_print (a : Operand) (r : List SStmt) (live : List Nat) :
    dce (.print a :: r) live = (.print a :: (dce r live).1, a.vars ++ (dce r live).2) := rfl

theorem licm_hoisted_noTrap (p : List SStmt) (variant : List Nat) :
    ∀ s ∈ (licm p variant).1, noTrapStmt s = true := by
  induction p generalizing variant with
  | nil => intro s h; simp [licm] at h
  | cons st r ih =>
    intro s h
    cases st with
    | print a => simp only [licm] at h; exact ih variant s h
    | bin x op a b =>
      simp only [licm] at h
      split at h
      · rename_i hc
        simp only [List.mem_cons] at h
        rcases h with rfl | h
        · simp [noTrapStmt, hc.1, hc.2.1]
        · exact ih variant s h
      · exact ih (x :: variant) s h

theorem execS_noTrap (p : List SStmt) (h : ∀ s ∈ p, noTrapStmt s = true) (ρ : Nat → Int) :
    (execS p ρ).1 = [] ∧ (execS p ρ).2.isSome = true := by
  induction p generalizing ρ with
  | nil => simp [execS]
  | cons s r ih =>
    cases s with
    | print a => have := h (.print a) (by simp); simp [noTrapStmt] at this
    | bin x op a b =>
      have hs := h (.bin x op a b) (by simp)
      simp only [noTrapStmt, decide_eq_true_eq] at hs
      obtain ⟨v, hv⟩ := evalTarget_total_of_not_div op (a.eval ρ) (b.eval ρ) hs.1 hs.2
      simp only [execS, hv]
      exact ih (fun s hs => h s (by simp [hs])) _

theorem lookup_mem {α β : Type} [BEq α] [LawfulBEq α] (l : List (α × β)) (k : α) (v : β)
    (h : l.lookup k = some v) : (k, v) ∈ l := by
  induction l with
  | nil => simp [List.lookup] at h
  | cons p r ih =>
    obtain ⟨k', v'⟩ := p
    simp only [List.lookup] at h
    split at h
    · rename_i he
      have : k = k' := by simpa using he
      injection h with h; subst h; subst this; simp
    · exact List.mem_cons_of_mem _ (ih h)

theorem lookup_none_of_not_key {α β : Type} [BEq α] [LawfulBEq α] (l : List (α × β)) (k : α)
    (h : ∀ v, (k, v) ∉ l) : l.lookup k = none := by
  cases hl : l.lookup k with
  | none => rfl
  | some v => exact absurd (lookup_mem l k v hl) (h v)

structure Inv (seen : List Nat) (cx : Cx) (ρ1 ρ2 : Nat → Int) : Prop where
  rel : ∀ v, v ∈ seen → ρ1 v = ρ2 (rn cx.ren v)
  renSeen : ∀ x y, (x, y) ∈ cx.ren → x ∈ seen ∧ y ∈ seen
  availSeen : ∀ (k : Key) (n : Nat), (k, n) ∈ cx.avail →
    (∀ v, v ∈ k.2.1.vars → v ∈ seen) ∧ (∀ v, v ∈ k.2.2.vars → v ∈ seen) ∧ n ∈ seen
  availVal : ∀ (k : Key) (n : Nat), (k, n) ∈ cx.avail →
    evalTarget k.1 (k.2.1.eval ρ2) (k.2.2.eval ρ2) = some (ρ2 n)

theorem rn_seen {seen cx ρ1 ρ2} (h : Inv seen cx ρ1 ρ2) (v : Nat) (hv : v ∈ seen) : rn cx.ren v ∈ seen := by
  unfold rn
  cases hl : cx.ren.lookup v with
  | none => simpa using hv
  | some y => simpa using (h.renSeen v y (lookup_mem _ _ _ hl)).2

theorem rn_fresh {seen cx ρ1 ρ2} (h : Inv seen cx ρ1 ρ2) (x : Nat) (hx : x ∉ seen) : cx.ren.lookup x = none :=
  lookup_none_of_not_key _ _ (fun y hy => hx (h.renSeen x y hy).1)

theorem rnO_eval {seen cx ρ1 ρ2} (h : Inv seen cx ρ1 ρ2) (a : Operand) (ha : ∀ v, v ∈ a.vars → v ∈ seen) :
    (rnO cx.ren a).eval ρ2 = a.eval ρ1 := by
  cases a with
  | lit n => rfl
  | var x => simp only [rnO, Operand.eval]; exact (h.rel x (ha x (by simp [Operand.vars]))).symm

theorem rnO_vars_seen {seen cx ρ1 ρ2} (h : Inv seen cx ρ1 ρ2) (a : Operand) (ha : ∀ v, v ∈ a.vars → v ∈ seen) :
    ∀ v, v ∈ (rnO cx.ren a).vars → v ∈ seen := by
  cases a with
  | lit n => intro v hv; simp [rnO, Operand.vars] at hv
  | var x =>
    intro v hv
    simp only [rnO, Operand.vars, List.mem_singleton] at hv
    subst hv
    exact rn_seen h x (ha x (by simp [Operand.vars]))

theorem eval_update_of_not_mem (a : Operand) (ρ : Nat → Int) (x : Nat) (v : Int) (h : x ∉ a.vars) :
    a.eval (update ρ x v) = a.eval ρ := by
  cases a with
  | lit n => rfl
  | var y =>
    simp only [Operand.eval, update]
    have : y ≠ x := fun e => h (by simp [Operand.vars, e])
    simp [this]

def seenAfter : List Simple → List Nat → List Nat
  | [], seen => seen
  | .bin x _ _ _ :: r, seen => seenAfter r (x :: seen)
  | _ :: r, seen => seenAfter r seen

def ResRel (seen : List Nat) (cx : Cx) : Res → Res → Prop
  | .trap, .trap => True
  | .brk v, .brk w => v = w
  | .next ρ1, .next ρ2 => Inv seen cx ρ1 ρ2
  | _, _ => False

theorem vars_all {a : Operand} {seen : List Nat} (h : a.vars.all seen.contains = true) :
    ∀ v, v ∈ a.vars → v ∈ seen := by
  intro v hv
  have := List.all_eq_true.mp h v hv
  simpa using this


/-- kept `Binary`: both sides define `x` with the same value -/
theorem inv_bin_kept {seen cx ρ1 ρ2} (h : Inv seen cx ρ1 ρ2) (x : Nat) (op : Op) (a b : Operand)
    (hx : x ∉ seen) (ha : ∀ v, v ∈ a.vars → v ∈ seen) (hb : ∀ v, v ∈ b.vars → v ∈ seen) (v : Int)
    (hv : evalTarget op ((rnO cx.ren a).eval ρ2) ((rnO cx.ren b).eval ρ2) = some v) :
    Inv (x :: seen) { cx with avail := ((op, rnO cx.ren a, rnO cx.ren b), x) :: cx.avail }
      (update ρ1 x v) (update ρ2 x v) := by
  have hfresh := rn_fresh h x hx
  constructor
  · intro w hw
    simp only [List.mem_cons] at hw
    rcases hw with rfl | hw
    · simp [rn, hfresh, update]
    · have hwx : w ≠ x := fun e => hx (e ▸ hw)
      have hr : rn cx.ren w ≠ x := fun e => hx (e ▸ rn_seen h w hw)
      simp only [update, hwx, hr, if_false]
      exact h.rel w hw
  · intro y z hyz
    have := h.renSeen y z hyz
    exact ⟨List.mem_cons_of_mem _ this.1, List.mem_cons_of_mem _ this.2⟩
  · intro k n hk
    simp only [List.mem_cons] at hk
    rcases hk with hk | hk
    · injection hk with hk1 hk2; subst hk1; subst hk2
      refine ⟨fun w hw => List.mem_cons_of_mem _ (rnO_vars_seen h a ha w hw),
              fun w hw => List.mem_cons_of_mem _ (rnO_vars_seen h b hb w hw), by simp⟩
    · have := h.availSeen k n hk
      exact ⟨fun w hw => List.mem_cons_of_mem _ (this.1 w hw), fun w hw => List.mem_cons_of_mem _ (this.2.1 w hw),
             List.mem_cons_of_mem _ this.2.2⟩
  · intro k n hk
    simp only [List.mem_cons] at hk
    rcases hk with hk | hk
    · have h1 : x ∉ (rnO cx.ren a).vars := fun e => hx (rnO_vars_seen h a ha x e)
      have h2 : x ∉ (rnO cx.ren b).vars := fun e => hx (rnO_vars_seen h b hb x e)
      injection hk with hk1 hk2
      rw [hk1, hk2]
      simp only [eval_update_of_not_mem _ _ _ _ h1, eval_update_of_not_mem _ _ _ _ h2, hv]
      simp [update]
    · have hs := h.availSeen k n hk
      have h1 : x ∉ k.2.1.vars := fun e => hx (hs.1 x e)
      have h2 : x ∉ k.2.2.vars := fun e => hx (hs.2.1 x e)
      have h3 : n ≠ x := fun e => hx (e ▸ hs.2.2)
      simp only [eval_update_of_not_mem _ _ _ _ h1, eval_update_of_not_mem _ _ _ _ h2, update, h3, if_false]
      exact h.availVal k n hk

/-- deleted `Binary`: the original defines `x`, the optimised block records `x ↦ n` -/
theorem inv_bin_deleted {seen cx ρ1 ρ2} (h : Inv seen cx ρ1 ρ2) (x n : Nat) (hx : x ∉ seen) (hn : n ∈ seen) :
    Inv (x :: seen) { cx with ren := (x, (cx.ren.lookup x).getD n) :: cx.ren } (update ρ1 x (ρ2 n)) ρ2 := by
  have hfresh := rn_fresh h x hx
  rw [hfresh]
  simp only [Option.getD]
  constructor
  · intro w hw
    simp only [List.mem_cons] at hw
    rcases hw with rfl | hw
    · simp [rn, update, List.lookup]
    · have hwx : w ≠ x := fun e => hx (e ▸ hw)
      have : rn ((x, n) :: cx.ren) w = rn cx.ren w := by
        have hb : (w == x) = false := by simpa using hwx
        simp [rn, List.lookup, hb]
      simp only [update, hwx, if_false, this]
      exact h.rel w hw
  · intro y z hyz
    simp only [List.mem_cons] at hyz
    rcases hyz with hyz | hyz
    · injection hyz with e1 e2; subst e1; subst e2
      exact ⟨by simp, List.mem_cons_of_mem _ hn⟩
    · have := h.renSeen y z hyz
      exact ⟨List.mem_cons_of_mem _ this.1, List.mem_cons_of_mem _ this.2⟩
  · intro k m hk
    have := h.availSeen k m hk
    exact ⟨fun w hw => List.mem_cons_of_mem _ (this.1 w hw), fun w hw => List.mem_cons_of_mem _ (this.2.1 w hw),
           List.mem_cons_of_mem _ this.2.2⟩
  · exact h.availVal

/-- FULL STRENGTH: local value numbering of a block of Binary / call / Break statements. For every
SSA block, every renaming/availability context and every pair of environments related by it: the
optimised block prints the same values and ends the same way (trap / break with the same value /
falls through into related environments). -/
theorem lvnSimple_preserves (p : List Simple) (seen : List Nat) (cx : Cx) (ρ1 ρ2 : Nat → Int)
    (hwf : wfSimple p seen = true) (h : Inv seen cx ρ1 ρ2) :
    (execSimple p ρ1).1 = (execSimple (lvnSimple p cx).1 ρ2).1 ∧
    ResRel (seenAfter p seen) (lvnSimple p cx).2 (execSimple p ρ1).2 (execSimple (lvnSimple p cx).1 ρ2).2 := by
  induction p generalizing seen cx ρ1 ρ2 with
  | nil => exact ⟨rfl, h⟩
  | cons st r ih =>
    cases st with
    | print a =>
      simp only [wfSimple, Bool.and_eq_true] at hwf
      have ha := vars_all hwf.1
      have := ih seen cx ρ1 ρ2 hwf.2 h
      simp only [lvnSimple, lvn1, execSimple, seenAfter, rnO_eval h a ha]
      exact ⟨by rw [this.1], this.2⟩
    | brk a =>
      simp only [wfSimple, Bool.and_eq_true] at hwf
      have ha := vars_all hwf.1
      simp only [lvnSimple, lvn1, execSimple, seenAfter, rnO_eval h a ha]
      exact ⟨trivial, by simp [ResRel]⟩
    | bin x op a b =>
      simp only [wfSimple, Bool.and_eq_true, Bool.not_eq_true'] at hwf
      obtain ⟨⟨⟨hx, ha⟩, hb⟩, hr⟩ := hwf
      have hx : x ∉ seen := by simpa using hx
      have ha := vars_all ha
      have hb := vars_all hb
      have ea := rnO_eval h a ha
      have eb := rnO_eval h b hb
      simp only [lvnSimple, lvn1, seenAfter]
      cases hl : cx.avail.lookup (op, rnO cx.ren a, rnO cx.ren b) with
      | some n =>
        simp only
        have hmem := lookup_mem _ _ _ hl
        have hval := h.availVal _ n hmem
        simp only at hval
        rw [ea, eb] at hval
        simp only [execSimple, hval]
        exact ih (x :: seen) _ _ _ hr (inv_bin_deleted h x n hx (h.availSeen _ n hmem).2.2)
      | none =>
        simp only [execSimple, ea, eb]
        cases hv : evalTarget op (a.eval ρ1) (b.eval ρ1) with
        | none => exact ⟨rfl, trivial⟩
        | some v =>
          simp only
          exact ih (x :: seen) _ _ _ hr (inv_bin_kept h x op a b hx ha hb v (by rw [ea, eb]; exact hv))

theorem inv_empty (seen : List Nat) (ρ : Nat → Int) : Inv seen { ren := [], avail := [] } ρ ρ := by
  constructor
  · intro v _; simp [rn, List.lookup]
  · intro x y h; simp at h
  · intro k n h; simp at h
  · intro k n h; simp at h

theorem execSimple_frame (p : List Simple) (ρ ρ' : Nat → Int)
    (h : (execSimple p ρ).2 = .next ρ') : ∀ v, v ∉ defsSimple p → ρ' v = ρ v := by
  induction p generalizing ρ with
  | nil => intro v _; simp only [execSimple] at h; injection h with h; rw [h]
  | cons st r ih =>
    cases st with
    | print a => intro v hv; simp only [execSimple] at h; exact ih ρ h v (by simpa [defsSimple] using hv)
    | brk a => simp [execSimple] at h
    | bin x op a b =>
      intro v hv
      simp only [defsSimple, List.mem_cons, not_or] at hv
      simp only [execSimple] at h
      cases hv' : evalTarget op (a.eval ρ) (b.eval ρ) with
      | none => rw [hv'] at h; simp at h
      | some w =>
        rw [hv'] at h
        have := ih (update ρ x w) h v hv.2
        rw [this]; simp [update, hv.1]

theorem defs_lvnSimple (p : List Simple) (cx : Cx) : ∀ v, v ∈ defsSimple (lvnSimple p cx).1 → v ∈ defsSimple p := by
  induction p generalizing cx with
  | nil => intro v h; simp [lvnSimple, defsSimple] at h
  | cons st r ih =>
    intro v h
    cases st with
    | print a => simp only [lvnSimple, lvn1, defsSimple] at h ⊢; exact ih _ v h
    | brk a => simp only [lvnSimple, lvn1, defsSimple] at h ⊢; exact ih _ v h
    | bin x op a b =>
      simp only [lvnSimple, lvn1] at h
      cases hl : cx.avail.lookup (op, rnO cx.ren a, rnO cx.ren b) with
      | some n =>
        rw [hl] at h
        simp only [defsSimple] at h ⊢; exact List.mem_cons_of_mem _ (ih _ v h)
      | none =>
        rw [hl] at h
        simp only [defsSimple, List.mem_cons] at h ⊢
        rcases h with h | h
        · exact Or.inl h
        · exact Or.inr (ih _ v h)

theorem defs_not_seen (p : List Simple) (seen : List Nat) (h : wfSimple p seen = true) :
    ∀ v, v ∈ defsSimple p → v ∉ seen := by
  induction p generalizing seen with
  | nil => intro v hv; simp [defsSimple] at hv
  | cons st r ih =>
    intro v hv
    cases st with
    | print a => simp only [wfSimple, Bool.and_eq_true] at h; exact ih seen h.2 v (by simpa [defsSimple] using hv)
    | brk a => simp only [wfSimple, Bool.and_eq_true] at h; exact ih seen h.2 v (by simpa [defsSimple] using hv)
    | bin x op a b =>
      simp only [wfSimple, Bool.and_eq_true, Bool.not_eq_true'] at h
      simp only [defsSimple, List.mem_cons] at hv
      rcases hv with rfl | hv
      · simpa using h.1.1.1
      · intro hs; exact ih (x :: seen) h.2 v hv (List.mem_cons_of_mem _ hs)

/-- leaving a nested block: the outer contexts are still valid for the environments the block
falls through with -/
theorem inv_frame {seen cx ρ1 ρ2 ρ1' ρ2'} (h : Inv seen cx ρ1 ρ2)
    (f1 : ∀ v, v ∈ seen → ρ1' v = ρ1 v) (f2 : ∀ v, v ∈ seen → ρ2' v = ρ2 v) : Inv seen cx ρ1' ρ2' := by
  constructor
  · intro v hv; rw [f1 v hv, f2 _ (rn_seen h v hv)]; exact h.rel v hv
  · exact h.renSeen
  · exact h.availSeen
  · intro k n hk
    have hs := h.availSeen k n hk
    have e1 : k.2.1.eval ρ2' = k.2.1.eval ρ2 := eval_agree _ _ _ (fun x hx => f2 x (hs.1 x hx))
    have e2 : k.2.2.eval ρ2' = k.2.2.eval ρ2 := eval_agree _ _ _ (fun x hx => f2 x (hs.2.1 x hx))
    rw [e1, e2, f2 n hs.2.2]; exact h.availVal k n hk

def wfFa : List Nat → List Nat → Bool
  | [], _ => true
  | x :: r, seen => !seen.contains x && wfFa r (x :: seen)

def seenFa : List Nat → List Nat → List Nat
  | [], seen => seen
  | x :: r, seen => seenFa r (x :: seen)

def wfL : List LStmt → List Nat → Bool
  | [], _ => true
  | .s st :: r, seen => wfSimple [st] seen && wfL r (seenAfter [st] seen)
  | .sif c _ body :: r, seen => c.vars.all seen.contains && wfSimple body seen && wfL r seen
  | .ife c s1 s2 fas :: r, seen =>
    c.vars.all seen.contains && wfSimple s1 seen && wfSimple s2 seen
      && fas.all (fun fa => fa.2.1.vars.all (seenAfter s1 seen).contains && fa.2.2.vars.all (seenAfter s2 seen).contains)
      && wfFa (fas.map (·.1)) seen && wfL r (seenFa (fas.map (·.1)) seen)

/-- binding a fresh name to the same value on both sides keeps the contexts valid -/
theorem inv_update_same {seen cx ρ1 ρ2} (h : Inv seen cx ρ1 ρ2) (x : Nat) (v : Int) (hx : x ∉ seen) :
    Inv (x :: seen) cx (update ρ1 x v) (update ρ2 x v) := by
  have hfresh := rn_fresh h x hx
  constructor
  · intro w hw
    simp only [List.mem_cons] at hw
    rcases hw with rfl | hw
    · simp [rn, hfresh, update]
    · have hwx : w ≠ x := fun e => hx (e ▸ hw)
      have hr : rn cx.ren w ≠ x := fun e => hx (e ▸ rn_seen h w hw)
      simp only [update, hwx, hr, if_false]
      exact h.rel w hw
  · intro y z hyz
    have := h.renSeen y z hyz
    exact ⟨List.mem_cons_of_mem _ this.1, List.mem_cons_of_mem _ this.2⟩
  · intro k n hk
    have := h.availSeen k n hk
    exact ⟨fun w hw => List.mem_cons_of_mem _ (this.1 w hw), fun w hw => List.mem_cons_of_mem _ (this.2.1 w hw),
           List.mem_cons_of_mem _ this.2.2⟩
  · intro k n hk
    have hs := h.availSeen k n hk
    have h1 : x ∉ k.2.1.vars := fun e => hx (hs.1 x e)
    have h2 : x ∉ k.2.2.vars := fun e => hx (hs.2.1 x e)
    have h3 : n ≠ x := fun e => hx (e ▸ hs.2.2)
    simp only [eval_update_of_not_mem _ _ _ _ h1, eval_update_of_not_mem _ _ _ _ h2, update, h3, if_false]
    exact h.availVal k n hk

theorem assign_inv {cx} (l : List (Nat × Int)) (seen : List Nat) (ρ1 ρ2 : Nat → Int)
    (h : Inv seen cx ρ1 ρ2) (hw : wfFa (l.map (·.1)) seen = true) :
    Inv (seenFa (l.map (·.1)) seen) cx (assignAll ρ1 l) (assignAll ρ2 l) := by
  induction l generalizing seen ρ1 ρ2 with
  | nil => exact h
  | cons p r ih =>
    obtain ⟨x, v⟩ := p
    simp only [List.map_cons, wfFa, Bool.and_eq_true, Bool.not_eq_true'] at hw
    have hx : x ∉ seen := by simpa using hw.1
    simp only [List.map_cons, seenFa, assignAll]
    exact ih (x :: seen) _ _ (inv_update_same h x v hx) hw.2

theorem lvn_branch {seen cx ρ1 ρ2} (h : Inv seen cx ρ1 ρ2) (body : List Simple)
    (hb : wfSimple body seen = true) (fas : List (Nat × Operand × Operand))
    (sel : Operand × Operand → Operand)
    (hfa : ∀ fa, fa ∈ fas → ∀ v, v ∈ (sel fa.2).vars → v ∈ seenAfter body seen)
    (hw : wfFa (fas.map (·.1)) seen = true) :
    (execSimple body ρ1).1 = (execSimple (lvnSimple body cx).1 ρ2).1 ∧
    (match (execSimple body ρ1).2, (execSimple (lvnSimple body cx).1 ρ2).2 with
     | .trap, .trap => True
     | .brk v, .brk w => v = w
     | .next ρ1', .next ρ2' =>
        Inv (seenFa (fas.map (·.1)) seen) cx
          (assignAll ρ1' (fas.map fun fa => (fa.1, (sel fa.2).eval ρ1')))
          (assignAll ρ2' (fas.map fun fa => (fa.1, (rnO (lvnSimple body cx).2.ren (sel fa.2)).eval ρ2')))
     | _, _ => False) := by
  have hs := lvnSimple_preserves body seen cx ρ1 ρ2 hb h
  refine ⟨hs.1, ?_⟩
  have hs2 := hs.2
  cases hr1 : execSimple body ρ1 with
  | mk t1 res1 =>
    cases hr2 : execSimple (lvnSimple body cx).1 ρ2 with
    | mk t2 res2 =>
      rw [hr1, hr2] at hs2
      cases res1 <;> cases res2 <;> simp only [ResRel] at hs2 ⊢
      all_goals first | trivial | exact hs2.elim | exact hs2 | skip
      rename_i ρ1' ρ2'
      have f1 : ∀ v, v ∈ seen → ρ1' v = ρ1 v := fun v hv =>
        execSimple_frame body ρ1 ρ1' (by rw [hr1]) v (fun hd => defs_not_seen body seen hb v hd hv)
      have f2 : ∀ v, v ∈ seen → ρ2' v = ρ2 v := fun v hv =>
        execSimple_frame _ ρ2 ρ2' (by rw [hr2]) v
          (fun hd => defs_not_seen body seen hb v (defs_lvnSimple body cx v hd) hv)
      have hout := inv_frame h f1 f2
      have hvals : (fas.map fun fa => (fa.1, (rnO (lvnSimple body cx).2.ren (sel fa.2)).eval ρ2'))
          = (fas.map fun fa => (fa.1, (sel fa.2).eval ρ1')) := by
        apply List.map_congr_left
        intro fa hfa'
        rw [rnO_eval hs2 (sel fa.2) (hfa fa hfa')]
      rw [hvals]
      have := assign_inv (fas.map fun fa => (fa.1, (sel fa.2).eval ρ1')) seen ρ1' ρ2' hout
        (by simpa [List.map_map, Function.comp_def] using hw)
      simpa [List.map_map, Function.comp_def] using this

def seenAfterL : List LStmt → List Nat → List Nat
  | [], seen => seen
  | .s st :: r, seen => seenAfterL r (seenAfter [st] seen)
  | .sif _ _ _ :: r, seen => seenAfterL r seen
  | .ife _ _ _ fas :: r, seen => seenAfterL r (seenFa (fas.map (·.1)) seen)

/-- the contexts at the end of a block: only top-level statements thread them -/
def lvnCx : List LStmt → Cx → Cx
  | [], cx => cx
  | .s st :: r, cx => lvnCx r (lvn1 st cx).2
  | _ :: r, cx => lvnCx r cx

theorem lvnLc_eq (p : List LStmt) (cx : Cx) : lvnLc p cx = (lvnL p cx, lvnCx p cx) := by
  induction p generalizing cx with
  | nil => rfl
  | cons st r ih =>
    cases st with
    | s st =>
      simp only [lvnLc, lvnL, lvnCx]
      cases h : lvn1 st cx with
      | mk o cx1 => cases o <;> simp [ih]
    | sif c inv body => simp [lvnLc, lvnL, lvnCx, ih]
    | ife c s1 s2 fas => simp [lvnLc, lvnL, lvnCx, ih]

def defsL : List LStmt → List Nat
  | [] => []
  | .s st :: r => defsSimple [st] ++ defsL r
  | .sif _ _ body :: r => defsSimple body ++ defsL r
  | .ife _ s1 s2 fas :: r => defsSimple s1 ++ defsSimple s2 ++ fas.map (·.1) ++ defsL r

theorem assignAll_frame (l : List (Nat × Int)) (ρ : Nat → Int) (v : Nat) (h : v ∉ l.map (·.1)) :
    assignAll ρ l v = ρ v := by
  induction l generalizing ρ with
  | nil => rfl
  | cons p r ih =>
    obtain ⟨x, w⟩ := p
    simp only [List.map_cons, List.mem_cons, not_or] at h
    simp only [assignAll]
    rw [ih _ h.2]; simp [update, h.1]

theorem execL_frame (p : List LStmt) (ρ ρ' : Nat → Int) (h : (execL p ρ).2 = .next ρ') :
    ∀ v, v ∉ defsL p → ρ' v = ρ v := by
  induction p generalizing ρ with
  | nil => intro v _; simp only [execL] at h; injection h with h; rw [h]
  | cons st r ih =>
    intro v hv
    cases st with
    | s st =>
      simp only [defsL, List.mem_append, not_or] at hv
      simp only [execL] at h
      cases hr : execSimple [st] ρ with
      | mk t res =>
        rw [hr] at h
        cases res with
        | trap => simp at h
        | brk w => simp at h
        | next ρ1 =>
          simp only at h
          rw [ih ρ1 h v hv.2]
          exact execSimple_frame [st] ρ ρ1 (by rw [hr]) v hv.1
    | sif c inv body =>
      simp only [defsL, List.mem_append, not_or] at hv
      simp only [execL] at h
      split at h
      · cases hr : execSimple body ρ with
        | mk t res =>
          rw [hr] at h
          cases res with
          | trap => simp at h
          | brk w => simp at h
          | next ρ1 =>
            simp only at h
            rw [ih ρ1 h v hv.2]
            exact execSimple_frame body ρ ρ1 (by rw [hr]) v hv.1
      · exact ih ρ h v hv.2
    | ife c s1 s2 fas =>
      simp only [defsL, List.mem_append, not_or] at hv
      obtain ⟨⟨⟨h1, h2⟩, h3⟩, h4⟩ := hv
      simp only [execL] at h
      split at h
      · cases hr : execSimple s1 ρ with
        | mk t res =>
          rw [hr] at h
          cases res with
          | trap => simp at h
          | brk w => simp at h
          | next ρ1 =>
            simp only at h
            rw [ih _ h v h4, assignAll_frame _ _ _ (by simpa [List.map_map, Function.comp_def] using h3)]
            exact execSimple_frame s1 ρ ρ1 (by rw [hr]) v h1
      · cases hr : execSimple s2 ρ with
        | mk t res =>
          rw [hr] at h
          cases res with
          | trap => simp at h
          | brk w => simp at h
          | next ρ1 =>
            simp only at h
            rw [ih _ h v h4, assignAll_frame _ _ _ (by simpa [List.map_map, Function.comp_def] using h3)]
            exact execSimple_frame s2 ρ ρ1 (by rw [hr]) v h2

theorem mem_seenFa (l seen : List Nat) (v : Nat) : v ∈ seenFa l seen ↔ v ∈ l ∨ v ∈ seen := by
  induction l generalizing seen with
  | nil => simp [seenFa]
  | cons x r ih => simp only [seenFa, ih, List.mem_cons]; grind

theorem mem_seenAfter (p : List Simple) (seen : List Nat) (v : Nat) : v ∈ seenAfter p seen ↔ v ∈ defsSimple p ∨ v ∈ seen := by
  induction p generalizing seen with
  | nil => simp [seenAfter, defsSimple]
  | cons st r ih =>
    cases st with
    | bin x op a b => simp only [seenAfter, defsSimple, ih, List.mem_cons]; grind
    | print a => simp only [seenAfter, defsSimple, ih]
    | brk a => simp only [seenAfter, defsSimple, ih]

theorem wfFa_not_seen (l seen : List Nat) (h : wfFa l seen = true) : ∀ v, v ∈ l → v ∉ seen := by
  induction l generalizing seen with
  | nil => intro v hv; simp at hv
  | cons x r ih =>
    simp only [wfFa, Bool.and_eq_true, Bool.not_eq_true'] at h
    intro v hv
    simp only [List.mem_cons] at hv
    rcases hv with rfl | hv
    · simpa using h.1
    · intro hs; exact ih (x :: seen) h.2 v hv (List.mem_cons_of_mem _ hs)

theorem defsL_not_seen (p : List LStmt) (seen : List Nat) (h : wfL p seen = true) :
    ∀ v, v ∈ defsL p → v ∉ seen := by
  induction p generalizing seen with
  | nil => intro v hv; simp [defsL] at hv
  | cons st r ih =>
    intro v hv
    cases st with
    | s st =>
      simp only [wfL, Bool.and_eq_true] at h
      simp only [defsL, List.mem_append] at hv
      rcases hv with hv | hv
      · exact defs_not_seen [st] seen h.1 v hv
      · intro hs
        exact ih _ h.2 v hv ((mem_seenAfter [st] seen v).mpr (Or.inr hs))
    | sif c inv body =>
      simp only [wfL, Bool.and_eq_true] at h
      simp only [defsL, List.mem_append] at hv
      rcases hv with hv | hv
      · exact defs_not_seen body seen h.1.2 v hv
      · exact ih _ h.2 v hv
    | ife c s1 s2 fas =>
      simp only [wfL, Bool.and_eq_true] at h
      obtain ⟨⟨⟨⟨⟨hc, hb1⟩, hb2⟩, hfas⟩, hwfa⟩, hr⟩ := h
      simp only [defsL, List.mem_append] at hv
      rcases hv with ((hv | hv) | hv) | hv
      · exact defs_not_seen s1 seen hb1 v hv
      · exact defs_not_seen s2 seen hb2 v hv
      · exact wfFa_not_seen _ seen hwfa v hv
      · intro hs
        exact ih _ hr v hv ((mem_seenFa _ seen v).mpr (Or.inr hs))

theorem defs_lvn1 (st : Simple) (cx : Cx) :
    ∀ v, v ∈ defsSimple (match (lvn1 st cx).1 with | some st' => [st'] | none => []) → v ∈ defsSimple [st] := by
  intro v h
  have := defs_lvnSimple [st] cx v
  simp only [lvnSimple] at this
  apply this
  cases ho : (lvn1 st cx).1 <;> simp only [ho] at h ⊢ <;> exact h

theorem defsL_lvnL (p : List LStmt) (cx : Cx) : ∀ v, v ∈ defsL (lvnL p cx) → v ∈ defsL p := by
  induction p generalizing cx with
  | nil => intro v h; simp [lvnL, defsL] at h
  | cons st r ih =>
    intro v h
    cases st with
    | s st =>
      simp only [lvnL] at h
      cases ho : lvn1 st cx with
      | mk o cx1 =>
        rw [ho] at h
        simp only [defsL, List.mem_append]
        cases o with
        | none => exact Or.inr (ih _ v h)
        | some st' =>
          simp only [defsL, List.mem_append] at h
          rcases h with h | h
          · refine Or.inl (defs_lvn1 st cx v ?_)
            rw [ho]; exact h
          · exact Or.inr (ih _ v h)
    | sif c inv body =>
      simp only [lvnL, defsL, List.mem_append] at h ⊢
      rcases h with h | h
      · exact Or.inl (defs_lvnSimple body cx v h)
      · exact Or.inr (ih _ v h)
    | ife c s1 s2 fas =>
      simp only [lvnL, defsL, List.mem_append, List.map_map, Function.comp_def] at h ⊢
      rcases h with ((h | h) | h) | h
      · exact Or.inl (Or.inl (Or.inl (defs_lvnSimple s1 cx v h)))
      · exact Or.inl (Or.inl (Or.inr (defs_lvnSimple s2 cx v h)))
      · exact Or.inl (Or.inr h)
      · exact Or.inr (ih _ v h)

theorem keysOf_noDiv (p : List Simple) : ∀ k, k ∈ keysOf p → k.1 ≠ .div ∧ k.1 ≠ .mod := by
  induction p with
  | nil => intro k h; simp [keysOf] at h
  | cons st r ih =>
    intro k h
    cases st with
    | print a => exact ih k (by simpa [keysOf] using h)
    | brk a => exact ih k (by simpa [keysOf] using h)
    | bin x op a b =>
      simp only [keysOf] at h
      split at h
      · rename_i hc
        simp only [List.mem_cons] at h
        rcases h with rfl | h
        · exact hc
        · exact ih k h
      · exact ih k h

theorem cseHoisted_total (ks : List Key) (hk : ∀ k, k ∈ ks → k.1 ≠ .div ∧ k.1 ≠ .mod) (fresh : Nat) (ρ : Nat → Int) :
    (execSimple (cseHoisted ks fresh) ρ).1 = [] ∧ ∃ ρ', (execSimple (cseHoisted ks fresh) ρ).2 = .next ρ' := by
  induction ks generalizing fresh ρ with
  | nil => exact ⟨rfl, ρ, rfl⟩
  | cons k r ih =>
    obtain ⟨op, a, b⟩ := k
    have h := hk (op, a, b) (by simp)
    obtain ⟨v, hv⟩ := evalTarget_total_of_not_div op (a.eval ρ) (b.eval ρ) h.1 h.2
    simp only [cseHoisted, execSimple, hv]
    exact ih (fun k hk' => hk k (List.mem_cons_of_mem _ hk')) _ _

def keys (cx : ICx) : List Nat := cx.map (·.1)

theorem lookup_some_of_key (cx : ICx) (n : Nat) (h : n ∈ keys cx) : ∃ e, cx.lookup n = some e := by
  induction cx with
  | nil => simp [keys] at h
  | cons p r ih =>
    obtain ⟨k, e⟩ := p
    simp only [keys, List.map_cons, List.mem_cons] at h
    by_cases hk : n = k
    · subst hk; exact ⟨e, by simp [List.lookup]⟩
    · have hb : (n == k) = false := by simpa using hk
      rcases h with h | h
      · exact absurd h hk
      · obtain ⟨e', he'⟩ := ih h
        exact ⟨e', by simp [List.lookup, hb, he']⟩

/-- the callee's environment `σ` is represented in the caller's environment `ρ'` through `cx` -/
structure IInv (mg : Nat → Nat) (S : List Nat) (cx : ICx) (σ ρ' ρ : Nat → Int) : Prop where
  rep : ∀ n e, cx.lookup n = some e → σ n = e.eval ρ' ∧ (∀ v, v ∈ e.vars → v ∈ S ∨ ∃ y, y ∈ keys cx ∧ v = mg y)
  frame : ∀ v, v ∈ S → ρ' v = ρ v

theorem irw_eval {mg S cx σ ρ' ρ} (h : IInv mg S cx σ ρ' ρ) (a : Operand) (ha : ∀ v, v ∈ a.vars → v ∈ keys cx) :
    (irw cx a).eval ρ' = a.eval σ := by
  cases a with
  | lit n => rfl
  | var x =>
    obtain ⟨e, he⟩ := lookup_some_of_key cx x (ha x (by simp [Operand.vars]))
    simp only [irw, he, Option.getD, Operand.eval]
    exact ((h.rep x e he).1).symm

/-- SSA discipline of the callee body relative to the names bound so far -/
def wfCallee : List Simple → List Nat → Bool
  | [], _ => true
  | .bin x _ a b :: r, sc => !sc.contains x && a.vars.all sc.contains && b.vars.all sc.contains && wfCallee r (x :: sc)
  | .print a :: r, sc => a.vars.all sc.contains && wfCallee r sc
  | .brk _ :: _, _ => false

theorem irw_cons_of_not_mem (cx : ICx) (x : Nat) (e : Operand) (a : Operand) (h : x ∉ a.vars) :
    irw ((x, e) :: cx) a = irw cx a := by
  cases a with
  | lit n => rfl
  | var y =>
    have : y ≠ x := fun e' => h (by simp [Operand.vars, e'])
    have hb : (y == x) = false := by simpa using this
    simp [irw, List.lookup, hb]

theorem inlineBody_preserves (mg : Nat → Nat) (S : List Nat) (hinj : ∀ x y, mg x = mg y → x = y)
    (hfresh : ∀ x, mg x ∉ S)
    (body : List Simple) (cx : ICx) (σ ρ' ρ : Nat → Int)
    (hwf : wfCallee body (keys cx) = true) (h : IInv mg S cx σ ρ' ρ) :
    (execSimple body σ).1 = (execSimple (inlineBody mg body cx).1 ρ').1 ∧
    (match (execSimple body σ).2, (execSimple (inlineBody mg body cx).1 ρ').2 with
     | .trap, .trap => True
     | .next σ', .next ρ'' => IInv mg S (inlineBody mg body cx).2 σ' ρ'' ρ ∧
         (∀ v, v ∈ keys cx → v ∈ keys (inlineBody mg body cx).2)
     | _, _ => False) := by
  induction body generalizing cx σ ρ' with
  | nil => exact ⟨rfl, h, fun v hv => hv⟩
  | cons st r ih =>
    cases st with
    | brk a => simp [wfCallee] at hwf
    | print a =>
      simp only [wfCallee, Bool.and_eq_true] at hwf
      have ea := irw_eval h a (vars_all hwf.1)
      have := ih cx σ ρ' hwf.2 h
      simp only [inlineBody, execSimple, ea]
      exact ⟨by rw [this.1], this.2⟩
    | bin x op a b =>
      simp only [wfCallee, Bool.and_eq_true, Bool.not_eq_true'] at hwf
      obtain ⟨⟨⟨hx, ha⟩, hb⟩, hr⟩ := hwf
      have hx : x ∉ keys cx := by simpa using hx
      have ha := vars_all ha
      have hb := vars_all hb
      have hxa : x ∉ a.vars := fun e => hx (ha x e)
      have hxb : x ∉ b.vars := fun e => hx (hb x e)
      simp only [inlineBody, execSimple, irw_cons_of_not_mem _ _ _ _ hxa, irw_cons_of_not_mem _ _ _ _ hxb,
        irw_eval h a ha, irw_eval h b hb]
      cases hv : evalTarget op (a.eval σ) (b.eval σ) with
      | none => exact ⟨rfl, trivial⟩
      | some v =>
        simp only
        have hnew : IInv mg S ((x, .var (mg x)) :: cx) (update σ x v) (update ρ' (mg x) v) ρ := by
          constructor
          · intro n e hl
            by_cases hn : n = x
            · subst hn
              simp only [List.lookup, beq_self_eq_true] at hl
              injection hl with hl; subst hl
              refine ⟨by simp [update, Operand.eval], ?_⟩
              intro w hw
              simp only [Operand.vars, List.mem_singleton] at hw
              exact Or.inr ⟨n, by simp [keys], hw⟩
            · have hbq : (n == x) = false := by simpa using hn
              simp only [List.lookup, hbq] at hl
              obtain ⟨h1, h2⟩ := h.rep n e hl
              have hnot : mg x ∉ e.vars := by
                intro hm
                rcases h2 (mg x) hm with hs | ⟨y, hy, hmy⟩
                · exact hfresh x hs
                · exact hx (hinj x y hmy ▸ hy)
              refine ⟨?_, ?_⟩
              · simp only [update, hn, if_false]
                rw [eval_update_of_not_mem _ _ _ _ hnot]; exact h1
              · intro w hw
                rcases h2 w hw with hs | ⟨y, hy, hwy⟩
                · exact Or.inl hs
                · exact Or.inr ⟨y, by simp [keys] at hy ⊢; exact Or.inr hy, hwy⟩
          · intro w hw
            have : w ≠ mg x := fun e => hfresh x (e ▸ hw)
            simp only [update, this, if_false]
            exact h.frame w hw
        have := ih ((x, .var (mg x)) :: cx) (update σ x v) (update ρ' (mg x) v) (by simpa [keys] using hr) hnew
        refine ⟨this.1, ?_⟩
        revert this
        cases (execSimple r (update σ x v)).2 <;>
          cases (execSimple (inlineBody mg r ((x, .var (mg x)) :: cx)).1 (update ρ' (mg x) v)).2 <;>
          simp only <;> intro this
        all_goals first
          | trivial
          | exact this.2.elim
          | exact ⟨this.2.1, fun w hw => this.2.2 w (by simp [keys] at hw ⊢; exact Or.inr hw)⟩

theorem keys_inlineBody (mg : Nat → Nat) (body : List Simple) (cx : ICx) :
    ∀ v, v ∈ keys (inlineBody mg body cx).2 ↔ v ∈ defsSimple body ∨ v ∈ keys cx := by
  induction body generalizing cx with
  | nil => intro v; simp [inlineBody, defsSimple]
  | cons st r ih =>
    intro v
    cases st with
    | print a => simp only [inlineBody, defsSimple]; exact ih cx v
    | brk a => simp only [inlineBody, defsSimple]; exact ih cx v
    | bin x op a b =>
      simp only [inlineBody, defsSimple, List.mem_cons]
      rw [ih]
      simp only [keys, List.map_cons, List.mem_cons]
      constructor
      · rintro (h | h | h)
        · exact Or.inl (Or.inr h)
        · exact Or.inl (Or.inl h)
        · exact Or.inr h
      · rintro ((h | h) | h)
        · exact Or.inr (Or.inl h)
        · exact Or.inl h
        · exact Or.inr (Or.inr h)

theorem execSimple_append (p q : List Simple) (ρ : Nat → Int) :
    execSimple (p ++ q) ρ =
      match execSimple p ρ with
      | (t, .next ρ') => (t ++ (execSimple q ρ').1, (execSimple q ρ').2)
      | (t, other) => (t, other) := by
  induction p generalizing ρ with
  | nil => simp [execSimple]
  | cons st r ih =>
    cases st with
    | brk a => simp [execSimple]
    | print a =>
      simp only [List.cons_append, execSimple, ih]
      cases h : execSimple r ρ with
      | mk t res => cases res <;> simp
    | bin x op a b =>
      simp only [List.cons_append, execSimple]
      cases evalTarget op (a.eval ρ) (b.eval ρ) with
      | none => simp
      | some v => simp only; exact ih _

theorem iinv_init (mg : Nat → Nat) (S : List Nat) (ps : List Nat) (args : List Operand) (ρ : Nat → Int)
    (hargs : ∀ a, a ∈ args → ∀ v, v ∈ a.vars → v ∈ S) :
    IInv mg S (ps.zip args) (bindParams ps (args.map (·.eval ρ))) ρ ρ := by
  constructor
  · induction ps generalizing args with
    | nil => intro n e h; simp [List.lookup] at h
    | cons p ps ih =>
      cases args with
      | nil => intro n e h; simp [List.lookup] at h
      | cons a as =>
        intro n e h
        simp only [List.zip_cons_cons, List.lookup] at h
        by_cases hn : n = p
        · subst hn
          simp only [beq_self_eq_true] at h
          injection h with h; subst h
          exact ⟨by simp [bindParams, update], fun v hv => Or.inl (hargs _ (by simp) v hv)⟩
        · have hb : (n == p) = false := by simpa using hn
          simp only [hb] at h
          obtain ⟨h1, h2⟩ := ih as (fun a' ha' => hargs a' (List.mem_cons_of_mem _ ha')) n e h
          refine ⟨by simp only [bindParams, List.map_cons, update, hn, if_false]; exact h1, ?_⟩
          intro v hv
          rcases h2 v hv with hs | ⟨y, hy, hvy⟩
          · exact Or.inl hs
          · exact Or.inr ⟨y, by simp [keys] at hy ⊢; exact Or.inr hy, hvy⟩
  · intro v _; rfl

end SamVerif.Opt
