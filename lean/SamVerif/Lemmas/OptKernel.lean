import SamVerif.Model.OptKernel
/-! Helper lemmas for C02: two's-complement wrap-around is a ring congruence; commutation of the
target operators. (Property theorems live in `Props/C02.lean`.) -/
namespace SamVerif.Opt

theorem wrap32_of_inRange {x : Int} (h : InRange x) : wrap32 x = x := by
  unfold InRange at h; unfold wrap32; omega
theorem wrap32_add_mul (a k : Int) : wrap32 (a + 4294967296 * k) = wrap32 a := by
  unfold wrap32; omega
theorem wrap32_spec (a : Int) : ∃ k : Int, wrap32 a = a + 4294967296 * k := by
  refine ⟨-((a + 2147483648) / 4294967296), ?_⟩
  unfold wrap32; omega
theorem wrap32_mul_left (a b : Int) : wrap32 (wrap32 a * b) = wrap32 (a * b) := by
  obtain ⟨k, hk⟩ := wrap32_spec a
  rw [hk]
  have : (a + 4294967296 * k) * b = a * b + 4294967296 * (k * b) := by grind
  rw [this, wrap32_add_mul]
theorem wrap32_mul_right (a b : Int) : wrap32 (a * wrap32 b) = wrap32 (a * b) := by
  rw [Int.mul_comm, wrap32_mul_left, Int.mul_comm]
theorem wrap32_add_left (a b : Int) : wrap32 (wrap32 a + b) = wrap32 (a + b) := by
  unfold wrap32; omega
theorem wrap32_add_right (a b : Int) : wrap32 (a + wrap32 b) = wrap32 (a + b) := by
  unfold wrap32; omega

theorem wrap32_inRange (x : Int) : InRange (wrap32 x) := by
  unfold InRange wrap32; omega

theorem emod32_of_range {b : Int} (h : 0 ≤ b ∧ b < 32) : b % 32 = b := by omega

theorem evalTarget_comm (op : Op) (a b : Int)
    (h : op = .mul ∨ op = .add ∨ op = .land ∨ op = .lor ∨ op = .xor ∨ op = .eq ∨ op = .ne) :
    evalTarget op a b = evalTarget op b a := by
  rcases h with rfl | rfl | rfl | rfl | rfl | rfl | rfl <;> simp only [evalTarget]
  · rw [Int.mul_comm]
  · rw [Int.add_comm]
  · rw [BitVec.and_comm]
  · rw [BitVec.or_comm]
  · rw [BitVec.xor_comm]
  · congr 2; simp [eq_comm]
  · congr 2; simp [ne_comm]

theorem derived_eq (L : ObsLoop) (i : Int) : L.derived i = wrap32 (L.c + L.m * i) := by
  unfold ObsLoop.derived mulT addT
  split
  · rename_i h; rw [h, Int.zero_add, Int.mul_comm]
  · split
    · rename_i h; rw [h, Int.one_mul, Int.add_comm]
    · rw [wrap32_add_left, Int.add_comm, Int.mul_comm]

theorem tripLT_exact (i0 step bound n : Int) (h : tripLT i0 step bound = .count n) :
    0 ≤ n ∧ (∀ k : Int, 0 ≤ k → k < n → i0 ≤ i0 + step * k ∧ i0 + step * k < bound) ∧ ¬ (i0 + step * n < bound) := by
  unfold tripLT at h
  split at h
  · injection h with h; subst h
    refine ⟨by omega, ?_, ?_⟩
    · intro k h0 h1; omega
    · simp; omega
  · split at h
    · simp at h
    · rename_i hb hs
      simp only at h
      split at h
      · simp at h
      · injection h with h
        have hd : 0 < bound - i0 := by omega
        have hs' : 0 < step := by omega
        generalize hdd : bound - i0 = d at *
        have e1 : Int.tdiv d step = d / step := Int.tdiv_eq_ediv_of_nonneg (by omega)
        have e2 : Int.tmod d step = d % step := Int.tmod_eq_emod_of_nonneg (by omega)
        rw [e1, e2] at h
        have hq : step * (d / step) + d % step = d := Int.mul_ediv_add_emod d step
        have hr0 : 0 ≤ d % step := Int.emod_nonneg d (by omega)
        have hr1 : d % step < step := Int.emod_lt_of_pos d hs'
        have hqn : 0 ≤ d / step := Int.ediv_nonneg (by omega) (by omega)
        generalize d / step = q at *
        generalize d % step = r at *
        by_cases hr : r = 0
        · simp [hr] at h
          subst h
          refine ⟨hqn, ?_, ?_⟩
          · intro k h0 h1
            have : step * k ≤ step * (q - 1) := Int.mul_le_mul_of_nonneg_left (by omega) (by omega)
            rw [Int.mul_sub, Int.mul_one] at this
            have : 0 ≤ step * k := Int.mul_nonneg (by omega) h0
            omega
          · omega
        · simp [hr] at h
          subst h
          refine ⟨by omega, ?_, ?_⟩
          · intro k h0 h1
            have : step * k ≤ step * q := Int.mul_le_mul_of_nonneg_left (by omega) (by omega)
            have : 0 ≤ step * k := Int.mul_nonneg (by omega) h0
            omega
          · rw [Int.mul_add, Int.mul_one]; omega

theorem iterW_eq (i0 step : Int) (hi : InRange i0) (k : Nat) :
    iterW i0 step k = wrap32 (i0 + step * (k : Int)) := by
  induction k with
  | zero => simp [iterW, wrap32_of_inRange hi]
  | succ k ih =>
    simp only [iterW, ih, wrap32_add_left]
    congr 1
    rw [Int.natCast_succ, Int.mul_add, Int.mul_one, Int.add_assoc]

/-- Ideal (unbounded-integer) reading of the closed form, for all four guard kinds: the guard holds
at steps `0..n-1` (with the counter staying between the initial value and the bound) and fails at
step `n`. -/
theorem tripCount_ideal (g : Guard) (i0 step bound n : Int) (h : tripCount g i0 step bound = .count n) :
    0 ≤ n ∧
    (∀ k : Int, 0 ≤ k → k < n → g.holds (i0 + step * k) bound = true ∧
        ((i0 ≤ i0 + step * k ∧ i0 + step * k ≤ bound) ∨ (bound ≤ i0 + step * k ∧ i0 + step * k ≤ i0))) ∧
    g.holds (i0 + step * n) bound = false := by
  cases g <;> simp only [tripCount] at h
  case lt =>
    obtain ⟨h0, h1, h2⟩ := tripLT_exact _ _ _ _ h
    refine ⟨h0, fun k hk0 hk1 => ?_, ?_⟩
    · have := h1 k hk0 hk1
      simp only [Guard.holds, decide_eq_true_eq]; omega
    · simp only [Guard.holds, decide_eq_false_iff_not]; exact h2
  case le =>
    split at h
    · obtain ⟨h0, h1, h2⟩ := tripLT_exact _ _ _ _ h
      refine ⟨h0, fun k hk0 hk1 => ?_, ?_⟩
      · have := h1 k hk0 hk1
        simp only [Guard.holds, decide_eq_true_eq]; omega
      · simp only [Guard.holds, decide_eq_false_iff_not]; omega
    · simp at h
  case gt =>
    split at h
    · obtain ⟨h0, h1, h2⟩ := tripLT_exact _ _ _ _ h
      refine ⟨h0, fun k hk0 hk1 => ?_, ?_⟩
      · have := h1 k hk0 hk1
        rw [Int.neg_mul] at this
        simp only [Guard.holds, decide_eq_true_eq]; omega
      · rw [Int.neg_mul] at h2
        simp only [Guard.holds, decide_eq_false_iff_not]; omega
    · simp at h
  case ge =>
    split at h
    · obtain ⟨h0, h1, h2⟩ := tripLT_exact _ _ _ _ h
      refine ⟨h0, fun k hk0 hk1 => ?_, ?_⟩
      · have := h1 k hk0 hk1
        rw [Int.neg_mul] at this
        simp only [Guard.holds, decide_eq_true_eq]; omega
      · rw [Int.neg_mul] at h2
        simp only [Guard.holds, decide_eq_false_iff_not]; omega
    · simp at h

end SamVerif.Opt
