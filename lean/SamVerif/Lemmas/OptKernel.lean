import SamVerif.Model.OptKernel
/-! Helper lemmas for C02: two's-complement wrap-around is a ring congruence; commutation of the
target operators. (Property theorems live in `Props/C02.lean`.) -/
namespace SamVerif.Opt

theorem wrap32_of_inRange {x : Int} (h : InRange x) : wrap32 x = x := by
  unfold InRange at h; unfold wrap32; omega
theorem wrap32_add_mul (a k : Int) : wrap32 (a + 4294967296 * k) = wrap32 a := by
  unfold wrap32; omega
theorem wrap32_spec (a : Int) : ∃ k : Int, wrap32 a = a + 4294967296 * k := by
  refine ⟨-((a + 2147483648) / 4294967296), ?_⟩
  unfold wrap32; omega
theorem wrap32_mul_left (a b : Int) : wrap32 (wrap32 a * b) = wrap32 (a * b) := by
  obtain ⟨k, hk⟩ := wrap32_spec a
  rw [hk]
  have : (a + 4294967296 * k) * b = a * b + 4294967296 * (k * b) := by grind
  rw [this, wrap32_add_mul]
theorem wrap32_mul_right (a b : Int) : wrap32 (a * wrap32 b) = wrap32 (a * b) := by
  rw [Int.mul_comm, wrap32_mul_left, Int.mul_comm]
theorem wrap32_add_left (a b : Int) : wrap32 (wrap32 a + b) = wrap32 (a + b) := by
  unfold wrap32; omega
theorem wrap32_add_right (a b : Int) : wrap32 (a + wrap32 b) = wrap32 (a + b) := by
  unfold wrap32; omega

theorem wrap32_inRange (x : Int) : InRange (wrap32 x) := by
  unfold InRange wrap32; omega

theorem emod32_of_range {b : Int} (h : 0 ≤ b ∧ b < 32) : b % 32 = b := by omega

theorem evalTarget_comm (op : Op) (a b : Int)
    (h : op = .mul ∨ op = .add ∨ op = .land ∨ op = .lor ∨ op = .xor ∨ op = .eq ∨ op = .ne) :
    evalTarget op a b = evalTarget op b a := by
  rcases h with rfl | rfl | rfl | rfl | rfl | rfl | rfl <;> simp only [evalTarget]
  · rw [Int.mul_comm]
  · rw [Int.add_comm]
  · rw [BitVec.and_comm]
  · rw [BitVec.or_comm]
  · rw [BitVec.xor_comm]
  · congr 2; simp [eq_comm]
  · congr 2; simp [ne_comm]

theorem derived_eq (L : ObsLoop) (i : Int) : L.derived i = wrap32 (L.c + L.m * i) := by
  unfold ObsLoop.derived mulT addT
  split
  · rename_i h; rw [h, Int.zero_add, Int.mul_comm]
  · split
    · rename_i h; rw [h, Int.one_mul, Int.add_comm]
    · rw [wrap32_add_left, Int.add_comm, Int.mul_comm]

theorem tripLT_exact (i0 step bound mx n : Int) (h : tripLT i0 step bound mx = .count n) :
    0 ≤ n ∧ (∀ k : Int, 0 ≤ k → k < n → i0 ≤ i0 + step * k ∧ i0 + step * k < bound) ∧
    ¬ (i0 + step * n < bound) ∧ i0 ≤ i0 + step * n ∧ i0 + step * n ≤ max mx i0 := by
  unfold tripLT at h
  split at h
  · injection h with h; subst h
    refine ⟨by omega, ?_, ?_, ?_, ?_⟩
    · intro k h0 h1; omega
    · simp; omega
    · simp
    · simp; omega
  · split at h
    · simp at h
    · rename_i hb hs
      simp only at h
      have hd : 0 < bound - i0 := by omega
      have hs' : 0 < step := by omega
      generalize hdd : bound - i0 = d at *
      have e1 : Int.tdiv d step = d / step := Int.tdiv_eq_ediv_of_nonneg (by omega)
      have e2 : Int.tmod d step = d % step := Int.tmod_eq_emod_of_nonneg (by omega)
      rw [e1, e2] at h
      have hq : step * (d / step) + d % step = d := Int.mul_ediv_add_emod d step
      have hr0 : 0 ≤ d % step := Int.emod_nonneg d (by omega)
      have hr1 : d % step < step := Int.emod_lt_of_pos d hs'
      have hqn : 0 ≤ d / step := Int.ediv_nonneg (by omega) (by omega)
      generalize d / step = q at *
      generalize d % step = r at *
      by_cases hr : r = 0
      · simp only [hr, ne_eq, not_true_eq_false, if_false, Int.add_zero] at h
        split at h
        · simp at h
        · split at h
          · simp at h
          · rename_i hfin hfit
            injection h with h
            subst h
            have hpos : 0 ≤ step * q := Int.mul_nonneg (by omega) hqn
            refine ⟨hqn, ?_, ?_, ?_, ?_⟩
            · intro k h0 h1
              have : step * k ≤ step * (q - 1) := Int.mul_le_mul_of_nonneg_left (by omega) (by omega)
              rw [Int.mul_sub, Int.mul_one] at this
              have : 0 ≤ step * k := Int.mul_nonneg (by omega) h0
              omega
            · omega
            · omega
            · omega
      · simp only [hr, ne_eq, not_false_eq_true, if_true] at h
        split at h
        · simp at h
        · split at h
          · simp at h
          · rename_i hfin hfit
            injection h with h
            subst h
            have hpos : 0 ≤ step * q := Int.mul_nonneg (by omega) hqn
            rw [Int.mul_add, Int.mul_one] at hfin ⊢
            refine ⟨by omega, ?_, ?_, ?_, ?_⟩
            · intro k h0 h1
              have : step * k ≤ step * q := Int.mul_le_mul_of_nonneg_left (by omega) (by omega)
              have : 0 ≤ step * k := Int.mul_nonneg (by omega) h0
              omega
            · omega
            · omega
            · omega

theorem iterW_eq (i0 step : Int) (hi : InRange i0) (k : Nat) :
    iterW i0 step k = wrap32 (i0 + step * (k : Int)) := by
  induction k with
  | zero => simp [iterW, wrap32_of_inRange hi]
  | succ k ih =>
    simp only [iterW, ih, wrap32_add_left]
    congr 1
    rw [Int.natCast_succ, Int.mul_add, Int.mul_one, Int.add_assoc]

/-- Reading of the closed form for all four guard kinds: the guard holds at steps `0..n-1` (with the
counter staying between the initial value and the bound), fails at step `n`, and the counter value
at step `n` is still a 32-bit value (this is what the `maxFinal` test of the code guarantees). -/
theorem tripCount_ideal (g : Guard) (i0 step bound n : Int) (hi : InRange i0)
    (h : tripCount g i0 step bound = .count n) :
    0 ≤ n ∧
    (∀ k : Int, 0 ≤ k → k < n → g.holds (i0 + step * k) bound = true ∧
        ((i0 ≤ i0 + step * k ∧ i0 + step * k ≤ bound) ∨ (bound ≤ i0 + step * k ∧ i0 + step * k ≤ i0))) ∧
    g.holds (i0 + step * n) bound = false ∧ InRange (i0 + step * n) := by
  unfold InRange at hi
  cases g <;> simp only [tripCount] at h
  case lt =>
    obtain ⟨h0, h1, h2, h3, h4⟩ := tripLT_exact _ _ _ _ _ h
    refine ⟨h0, fun k hk0 hk1 => ?_, ?_, ?_⟩
    · have := h1 k hk0 hk1
      simp only [Guard.holds, decide_eq_true_eq]; omega
    · simp only [Guard.holds, decide_eq_false_iff_not]; exact h2
    · unfold InRange; omega
  case le =>
    obtain ⟨h0, h1, h2, h3, h4⟩ := tripLT_exact _ _ _ _ _ h
    refine ⟨h0, fun k hk0 hk1 => ?_, ?_, ?_⟩
    · have := h1 k hk0 hk1
      simp only [Guard.holds, decide_eq_true_eq]; omega
    · simp only [Guard.holds, decide_eq_false_iff_not]; omega
    · unfold InRange; omega
  case gt =>
    obtain ⟨h0, h1, h2, h3, h4⟩ := tripLT_exact _ _ _ _ _ h
    rw [Int.neg_mul] at h2 h3 h4
    refine ⟨h0, fun k hk0 hk1 => ?_, ?_, ?_⟩
    · have := h1 k hk0 hk1
      rw [Int.neg_mul] at this
      simp only [Guard.holds, decide_eq_true_eq]; omega
    · simp only [Guard.holds, decide_eq_false_iff_not]; omega
    · unfold InRange; omega
  case ge =>
    obtain ⟨h0, h1, h2, h3, h4⟩ := tripLT_exact _ _ _ _ _ h
    rw [Int.neg_mul] at h2 h3 h4
    refine ⟨h0, fun k hk0 hk1 => ?_, ?_, ?_⟩
    · have := h1 k hk0 hk1
      rw [Int.neg_mul] at this
      simp only [Guard.holds, decide_eq_true_eq]; omega
    · simp only [Guard.holds, decide_eq_false_iff_not]; omega
    · unfold InRange; omega
theorem derivedOf_eq (m c i : Int) : derivedOf m c i = wrap32 (c + m * i) := by
  unfold derivedOf mulT addT
  split
  · rename_i h; rw [h, Int.zero_add, Int.mul_comm]
  · split
    · rename_i h; rw [h, Int.one_mul, Int.add_comm]
    · rw [wrap32_add_left, Int.add_comm, Int.mul_comm]
theorem iterW_wrap_step (i0 st : Int) (k : Nat) : iterW i0 (wrap32 st) k = iterW i0 st k := by
  induction k with
  | zero => rfl
  | succ k ih => simp only [iterW, ih, wrap32_add_right]
theorem strength_iter (i0 st m c : Int) (k : Nat) :
    iterW (addT c (mulT m i0)) (wrap32 (st * m)) k = derivedOf m c (iterW i0 st k) := by
  rw [iterW_wrap_step, derivedOf_eq]
  induction k with
  | zero => simp only [iterW, addT, mulT, wrap32_add_right]
  | succ k ih =>
    simp only [iterW]
    rw [ih, wrap32_add_left]
    have h1 : wrap32 (c + m * wrap32 (iterW i0 st k + st))
        = wrap32 (c + m * (iterW i0 st k + st)) := by
      rw [← wrap32_add_right c (m * wrap32 _), wrap32_mul_right, wrap32_add_right]
    rw [h1]
    congr 1
    grind

theorem iterW_succ' (i0 st : Int) (k : Nat) : iterW i0 st (k + 1) = addT (iterW i0 st k) st := rfl

theorem derived_is_derivedOf (L : ObsLoop) (i : Int) : L.derived i = derivedOf L.m L.c i := rfl

theorem addT_mulT_eq (m c i : Int) : addT c (mulT m i) = wrap32 (c + m * i) := by
  unfold addT mulT; rw [wrap32_add_right]

/-- index form of the original loop -/
theorem runStrength_eq (L : ObsLoop) (fuel k : Nat) (last : Int) (acc : List Int) :
    runStrength L (wrap32 (L.step * L.m)) fuel (iterW L.i0 L.step k)
      (iterW (addT L.c (mulT L.m L.i0)) (wrap32 (L.step * L.m)) k) last acc
    = runOrig L fuel (iterW L.i0 L.step k) last acc := by
  induction fuel generalizing k last acc with
  | zero => rfl
  | succ fuel ih =>
    simp only [runStrength, runOrig]
    split
    · have := ih (k + 1) (iterW (addT L.c (mulT L.m L.i0)) (wrap32 (L.step * L.m)) k) (acc ++ [last])
      rw [iterW_succ', iterW_succ'] at this
      rw [this, strength_iter, derived_is_derivedOf]
    · rfl

theorem runElim_eq (L : ObsLoop) (n : Nat)
    (hbr : BreaksAt L.g L.i0 L.step L.bound n)
    (hg : ∀ k, k ≤ n →
      decide (iterW (addT L.c (mulT L.m L.i0)) (wrap32 (L.step * L.m)) k < addT L.c (mulT L.m L.bound))
        = L.g.holds (iterW L.i0 L.step k) L.bound)
    (fuel k : Nat) (hk : k ≤ n) (last : Int) (acc : List Int) :
    runElim (addT L.c (mulT L.m L.i0)) (wrap32 (L.step * L.m)) (addT L.c (mulT L.m L.bound)) fuel
      (iterW (addT L.c (mulT L.m L.i0)) (wrap32 (L.step * L.m)) k) last acc
    = runOrig L fuel (iterW L.i0 L.step k) last acc := by
  induction fuel generalizing k last acc with
  | zero => rfl
  | succ fuel ih =>
    simp only [runElim, runOrig]
    have hgk := hg k hk
    by_cases hh : L.g.holds (iterW L.i0 L.step k) L.bound = true
    · have hlt : iterW (addT L.c (mulT L.m L.i0)) (wrap32 (L.step * L.m)) k < addT L.c (mulT L.m L.bound) := by
        rw [hh] at hgk; exact of_decide_eq_true hgk
      have hkn : k < n := by
        rcases Nat.lt_or_ge k n with h | h
        · exact h
        · have : k = n := by omega
          subst this; rw [hbr.2] at hh; exact absurd hh (by simp)
      simp only [hh, hlt, if_true]
      have := ih (k + 1) (by omega) (iterW (addT L.c (mulT L.m L.i0)) (wrap32 (L.step * L.m)) k) (acc ++ [last])
      rw [iterW_succ', iterW_succ'] at this
      rw [this, strength_iter, derived_is_derivedOf]
    · have hnlt : ¬ iterW (addT L.c (mulT L.m L.i0)) (wrap32 (L.step * L.m)) k < addT L.c (mulT L.m L.bound) := by
        intro hlt
        have : decide (iterW (addT L.c (mulT L.m L.i0)) (wrap32 (L.step * L.m)) k < addT L.c (mulT L.m L.bound)) = true := decide_eq_true hlt
        rw [hgk] at this; exact hh this
      simp only [hh, hnlt, if_false]
      rfl

theorem dce_live_mono (p : List SStmt) (live : List Nat) : ∀ x, x ∈ live → x ∈ (dce p live).2 := by
  induction p with
  | nil => intro x h; exact h
  | cons s r ih =>
    intro x h
    cases s with
    | bin y op a b =>
      simp only [dce]
      split <;> simp_all
    | print a =>
      simp only [dce]
      simp_all

theorem eval_agree (e : Operand) (ρ1 ρ2 : Nat → Int) (h : ∀ x, x ∈ e.vars → ρ1 x = ρ2 x) :
    e.eval ρ1 = e.eval ρ2 := by
  cases e with
  | lit n => rfl
  | var x => exact h x (by simp [Operand.vars])

/-- No division or remainder can disappear without changing the trap behaviour; pure results that
nobody reads can. -/
theorem evalTarget_total_of_not_div (op : Op) (a b : Int) (h1 : op ≠ .div) (h2 : op ≠ .mod) :
    ∃ v, evalTarget op a b = some v := by
  cases op <;> simp_all [evalTarget]

theorem dce_bin (x : Nat) (op : Op) (a b : Operand) (r : List SStmt) (live : List Nat) :
    dce (.bin x op a b :: r) live =
      if x ∉ (dce r live).2 ∧ op ≠ .div ∧ op ≠ .mod then dce r live
      else (.bin x op a b :: (dce r live).1, a.vars ++ b.vars ++ (dce r live).2) := by
  simp only [dce]

theorem dce_print (a : Operand) (r : List SStmt) (live : List Nat) :
    dce (.print a :: r) live = (.print a :: (dce r live).1, a.vars ++ (dce r live).2) := rfl

theorem licm_hoisted_noTrap (p : List SStmt) (variant : List Nat) :
    ∀ s ∈ (licm p variant).1, noTrapStmt s = true := by
  induction p generalizing variant with
  | nil => intro s h; simp [licm] at h
  | cons st r ih =>
    intro s h
    cases st with
    | print a => simp only [licm] at h; exact ih variant s h
    | bin x op a b =>
      simp only [licm] at h
      split at h
      · rename_i hc
        simp only [List.mem_cons] at h
        rcases h with rfl | h
        · simp [noTrapStmt, hc.1, hc.2.1]
        · exact ih variant s h
      · exact ih (x :: variant) s h

theorem execS_noTrap (p : List SStmt) (h : ∀ s ∈ p, noTrapStmt s = true) (ρ : Nat → Int) :
    (execS p ρ).1 = [] ∧ (execS p ρ).2.isSome = true := by
  induction p generalizing ρ with
  | nil => simp [execS]
  | cons s r ih =>
    cases s with
    | print a => have := h (.print a) (by simp); simp [noTrapStmt] at this
    | bin x op a b =>
      have hs := h (.bin x op a b) (by simp)
      simp only [noTrapStmt, decide_eq_true_eq] at hs
      obtain ⟨v, hv⟩ := evalTarget_total_of_not_div op (a.eval ρ) (b.eval ρ) hs.1 hs.2
      simp only [execS, hv]
      exact ih (fun s hs => h s (by simp [hs])) _

end SamVerif.Opt
