import SamVerif.Model.BoundCheck
namespace SamVerif.BoundCheck

theorem validateFrom_iff (sat : Nat → Nat → Bool) : ∀ (ps : List (Option Nat)) (as : List Nat) (i k : Nat),
    k ∈ validateFrom sat ps as i ↔
      ∃ j b a, k = i + j ∧ ps[j]? = some (some b) ∧ as[j]? = some a ∧ sat a b = false
  | [], as, i, k => by simp [validateFrom]
  | p :: ps, [], i, k => by simp [validateFrom]
  | none :: ps, a :: as, i, k => by
    rw [validateFrom, validateFrom_iff sat ps as (i + 1) k]
    constructor
    · rintro ⟨j, b, a', hk, hp, ha, hs⟩
      exact ⟨j + 1, b, a', by omega, by simpa using hp, by simpa using ha, hs⟩
    · rintro ⟨j, b, a', hk, hp, ha, hs⟩
      cases j with
      | zero => simp at hp
      | succ j => exact ⟨j, b, a', by omega, by simpa using hp, by simpa using ha, hs⟩
  | some b0 :: ps, a0 :: as, i, k => by
    rw [validateFrom]
    have ih := validateFrom_iff sat ps as (i + 1) k
    by_cases hs0 : sat a0 b0 = true
    · simp only [hs0, if_true, ih]
      constructor
      · rintro ⟨j, b, a', hk, hp, ha, hs⟩
        exact ⟨j + 1, b, a', by omega, by simpa using hp, by simpa using ha, hs⟩
      · rintro ⟨j, b, a', hk, hp, ha, hs⟩
        cases j with
        | zero =>
          simp only [List.getElem?_cons_zero, Option.some.injEq] at hp ha
          subst hp; subst ha; rw [hs0] at hs; cases hs
        | succ j => exact ⟨j, b, a', by omega, by simpa using hp, by simpa using ha, hs⟩
    · have hf : sat a0 b0 = false := by simpa using hs0
      simp only [hf, Bool.false_eq_true, if_false, List.mem_cons, ih]
      constructor
      · rintro (hk | ⟨j, b, a', hk, hp, ha, hs⟩)
        · exact ⟨0, b0, a0, by omega, by simp, by simp, hf⟩
        · exact ⟨j + 1, b, a', by omega, by simpa using hp, by simpa using ha, hs⟩
      · rintro ⟨j, b, a', hk, hp, ha, hs⟩
        cases j with
        | zero => exact Or.inl (by omega)
        | succ j => exact Or.inr ⟨j, b, a', by omega, by simpa using hp, by simpa using ha, hs⟩

end SamVerif.BoundCheck
