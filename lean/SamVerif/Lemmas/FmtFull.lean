import SamVerif.Model.FmtFull
/-!
Helper lemmas for the full C08 fragment (`Model/FmtFull.lean`): the same structure as
`Lemmas/Fmt.lean` (budgeted parser relations, rules of the recursive-descent parser, loop invariant
`main`), extended to argument lists, tuples, blocks, if-else, match and calls, by mutual structural
recursion over `Expr` / `Args` / `Cases`.
-/
namespace SamVerif.FmtFull
open SamVerif.Fmt (BinOp UOp)

def PTop (n : Nat) (ts : List Tok) (e : Expr) (r : List Tok) : Prop :=
  ∀ f, n ≤ f → parseTop f ts = some (e, r)
def PBase (n : Nat) (ts : List Tok) (e : Expr) (r : List Tok) : Prop :=
  ∀ f, n ≤ f → parseBase f ts = some (e, r)
def PUn (n : Nat) (ts : List Tok) (e : Expr) (r : List Tok) : Prop :=
  ∀ f, n ≤ f → parseUnary f ts = some (e, r)
def PLevel (n k : Nat) (ts : List Tok) (e : Expr) (r : List Tok) : Prop :=
  ∀ f, n ≤ f → parseLevel f k ts = some (e, r)
def PLoop (n k : Nat) (acc : Expr) (ts : List Tok) (e : Expr) (r : List Tok) : Prop :=
  ∀ f, n ≤ f → parseLoop f k acc ts = some (e, r)
def PArgs (n : Nat) (ts : List Tok) (es : Args) (r : List Tok) : Prop :=
  ∀ f, n ≤ f → parseArgs f ts = some (es, r)
def PCases (n : Nat) (ts : List Tok) (cs : Cases) (r : List Tok) : Prop :=
  ∀ f, n ≤ f → parseCases f ts = some (cs, r)
def PStmts (n : Nat) (ts : List Tok) (b : Blk) (r : List Tok) : Prop :=
  ∀ f, n ≤ f → parseStmts f ts = some (b, r)

theorem PTop.mono {n n' ts e r} (h : PTop n ts e r) (hn : n ≤ n') : PTop n' ts e r :=
  fun f hf => h f (by omega)
theorem PBase.mono {n n' ts e r} (h : PBase n ts e r) (hn : n ≤ n') : PBase n' ts e r :=
  fun f hf => h f (by omega)
theorem PLevel.mono {n n' k ts e r} (h : PLevel n k ts e r) (hn : n ≤ n') : PLevel n' k ts e r :=
  fun f hf => h f (by omega)
theorem PLoop.mono {n n' k a ts e r} (h : PLoop n k a ts e r) (hn : n ≤ n') : PLoop n' k a ts e r :=
  fun f hf => h f (by omega)
theorem PArgs.mono {n n' ts e r} (h : PArgs n ts e r) (hn : n ≤ n') : PArgs n' ts e r :=
  fun f hf => h f (by omega)
theorem PCases.mono {n n' ts e r} (h : PCases n ts e r) (hn : n ≤ n') : PCases n' ts e r :=
  fun f hf => h f (by omega)
theorem PStmts.mono {n n' ts e r} (h : PStmts n ts e r) (hn : n ≤ n') : PStmts n' ts e r :=
  fun f hf => h f (by omega)

theorem succ_of_le {n f : Nat} (h : n + 1 ≤ f) : ∃ f', f = f' + 1 ∧ n ≤ f' := ⟨f - 1, by omega, by omega⟩

def notKw (ts : List Tok) : Prop := ∀ r, ts ≠ .kwIf :: r ∧ ts ≠ .kwMatch :: r
def startsBase (ts : List Tok) : Prop := ∀ r, ts ≠ .bang :: r ∧ ts ≠ .op .minus :: r
def notRp (ts : List Tok) : Prop := ∀ r, ts ≠ .rp :: r
def notRb (ts : List Tok) : Prop := ∀ r, ts ≠ .rb :: r

theorem ptop_level {n ts e r} (h : PLevel n 0 ts e r) (hk : notKw ts) : PTop (n + 1) ts e r := by
  intro f hf
  obtain ⟨f', rfl, hf'⟩ := succ_of_le hf
  rw [parseTop]
  · exact h f' hf'
  · intro ts' he; exact (hk ts').2 he
  · intro ts' he; exact (hk ts').1 he

theorem ptop_if {n1 n2 n3 ts c t e r1 r2 r3} (h1 : PTop n1 ts c (.lb :: r1))
    (h2 : PStmts n2 r1 t (.kwElse :: .lb :: r2)) (h3 : PStmts n3 r2 e r3) :
    PTop (n1 + n2 + n3 + 1) (.kwIf :: ts) (.ifElse c t e) r3 := by
  intro f hf
  obtain ⟨f', rfl, hf'⟩ := succ_of_le hf
  simp [parseTop, h1 f' (by omega), h2 f' (by omega), h3 f' (by omega)]

theorem ptop_match {n1 n2 ts m cs r r'} (h1 : PTop n1 ts m (.lb :: r)) (h2 : PCases n2 r cs r') :
    PTop (n1 + n2 + 1) (.kwMatch :: ts) (.matchE m cs) r' := by
  intro f hf
  obtain ⟨f', rfl, hf'⟩ := succ_of_le hf
  simp [parseTop, h1 f' (by omega), h2 f' (by omega)]

theorem pcases_one {n ts b r} (k : Nat) (h : PTop n ts b (.comma :: .rb :: r)) :
    PCases (n + 1) (.pat k :: ts) (.one k b) r := by
  intro f hf
  obtain ⟨f', rfl, hf'⟩ := succ_of_le hf
  simp [parseCases, h f' hf']

theorem pcases_cons {n1 n2 ts b r cs r'} (k : Nat) (h1 : PTop n1 ts b (.comma :: r)) (hr : notRb r)
    (h2 : PCases n2 r cs r') : PCases (n1 + n2 + 1) (.pat k :: ts) (.cons k b cs) r' := by
  intro f hf
  obtain ⟨f', rfl, hf'⟩ := succ_of_le hf
  rw [parseCases, h1 f' (by omega)]
  cases r with
  | nil => simp [h2 f' (by omega)]
  | cons t r =>
    cases t <;> first | exact absurd rfl (hr r) | simp [h2 f' (by omega)]

theorem pargs_one {n ts e r} (h : PTop n ts e (.rp :: r)) : PArgs (n + 1) ts (.one e) r := by
  intro f hf
  obtain ⟨f', rfl, hf'⟩ := succ_of_le hf
  simp [parseArgs, h f' hf']

theorem pargs_cons {n1 n2 ts e r es r'} (h1 : PTop n1 ts e (.comma :: r)) (hr : notRp r)
    (h2 : PArgs n2 r es r') : PArgs (n1 + n2 + 1) ts (.cons e es) r' := by
  intro f hf
  obtain ⟨f', rfl, hf'⟩ := succ_of_le hf
  rw [parseArgs, h1 f' (by omega)]
  cases r with
  | nil => simp [h2 f' (by omega)]
  | cons t r =>
    cases t <;> first | exact absurd rfl (hr r) | simp [h2 f' (by omega)]

theorem pbase_atom (a : Nat) (r : List Tok) : PBase 1 (.atom a :: r) (.atom a) r := by
  intro f hf; obtain ⟨f', rfl, _⟩ := succ_of_le hf; simp [parseBase]

theorem pbase_paren {n ts e r} (h : PTop n ts e (.rp :: r)) : PBase (n + 1) (.lp :: ts) e r := by
  intro f hf; obtain ⟨f', rfl, hf'⟩ := succ_of_le hf; simp [parseBase, h f' hf']

theorem pbase_tuple {n1 n2 ts e r es r'} (h1 : PTop n1 ts e (.comma :: r)) (hr : notRp r)
    (h2 : PArgs n2 r es r') : PBase (n1 + n2 + 1) (.lp :: ts) (.tuple e es) r' := by
  intro f hf; obtain ⟨f', rfl, hf'⟩ := succ_of_le hf
  simp only [parseBase, h1 f' (by omega)]
  cases r with
  | nil => simp [h2 f' (by omega)]
  | cons t r =>
    cases t <;> first | exact absurd rfl (hr r) | simp [h2 f' (by omega)]

theorem pbase_block {n ts b r} (h : PStmts n ts b r) : PBase (n + 1) (.lb :: ts) (.block b) r := by
  intro f hf; obtain ⟨f', rfl, hf'⟩ := succ_of_le hf; simp [parseBase, h f' hf']

/-- the input does not start with a token that `parse_block` dispatches on. -/
def exprStart (ts : List Tok) : Prop :=
  (∀ r, ts ≠ .rb :: r) ∧ (∀ r, ts ≠ .semi :: r) ∧ (∀ k r, ts ≠ .letK k :: r)

theorem pstmts_rb (r : List Tok) : PStmts 1 (.rb :: r) (.noFin .nil) r := by
  intro f hf; obtain ⟨f', rfl, _⟩ := succ_of_le hf; simp [parseStmts]

theorem pstmts_let {n1 n2 ts e r b r'} (k : Nat) (h1 : PTop n1 ts e (.semi :: r))
    (h2 : PStmts n2 r b r') : PStmts (n1 + n2 + 1) (.letK k :: ts) (b.consLet k e) r' := by
  intro f hf; obtain ⟨f', rfl, hf'⟩ := succ_of_le hf
  simp [parseStmts, h1 f' (by omega), h2 f' (by omega)]

theorem pstmts_expr {n1 n2 ts e r b r'} (hs : exprStart ts) (h1 : PTop n1 ts e (.semi :: r))
    (h2 : PStmts n2 r b r') : PStmts (n1 + n2 + 1) ts (b.consExpr e) r' := by
  intro f hf; obtain ⟨f', rfl, hf'⟩ := succ_of_le hf
  rw [parseStmts]
  · simp [h1 f' (by omega), h2 f' (by omega)]
  · intro r0 he; exact hs.1 r0 he
  · intro r0 he; exact hs.2.1 r0 he
  · intro k0 r0 he; exact hs.2.2 k0 r0 he

theorem pstmts_fin {n ts e r} (hs : exprStart ts) (h1 : PTop n ts e (.rb :: r)) :
    PStmts (n + 1) ts (.fin .nil e) r := by
  intro f hf; obtain ⟨f', rfl, hf'⟩ := succ_of_le hf
  rw [parseStmts]
  · simp [h1 f' (by omega)]
  · intro r0 he; exact hs.1 r0 he
  · intro r0 he; exact hs.2.1 r0 he
  · intro k0 r0 he; exact hs.2.2 k0 r0 he

theorem pbase_lam {n ts body r} (k : Nat) (h : PTop n ts body r) :
    PBase (n + 1) (.lam k :: ts) (.lambda k body) r := by
  intro f hf; obtain ⟨f', rfl, hf'⟩ := succ_of_le hf; simp [parseBase, h f' hf']

theorem pun_not {n ts e r} (h : PLevel n 6 ts e r) : PUn (n + 1) (.bang :: ts) (.unary .not e) r := by
  intro f hf; obtain ⟨f', rfl, hf'⟩ := succ_of_le hf; simp [parseUnary, h f' hf']

theorem pun_neg {n ts e r} (h : PLevel n 6 ts e r) :
    PUn (n + 1) (.op .minus :: ts) (.unary .neg e) r := by
  intro f hf; obtain ⟨f', rfl, hf'⟩ := succ_of_le hf; simp [parseUnary, h f' hf']

theorem pun_other {n ts e r} (h : PLevel n 6 ts e r) (hs : startsBase ts) : PUn (n + 1) ts e r := by
  intro f hf
  obtain ⟨f', rfl, hf'⟩ := succ_of_le hf
  rw [parseUnary]
  · exact h f' hf'
  · intro ts' he; exact (hs ts').1 he
  · intro ts' he; exact (hs ts').2 he

theorem plevel6 {n1 n2 k ts x e r1 r} (hk : 6 ≤ k) (h1 : PBase n1 ts x r1)
    (h2 : PLoop n2 6 x r1 e r) : PLevel (n1 + n2 + 1) k ts e r := by
  intro f hf
  obtain ⟨f', rfl, hf'⟩ := succ_of_le hf
  simp [parseLevel, hk, h1 f' (by omega), h2 f' (by omega)]

theorem plevel5 {n ts e r} (h : PUn n ts e r) : PLevel (n + 1) 5 ts e r := by
  intro f hf
  obtain ⟨f', rfl, hf'⟩ := succ_of_le hf
  simp [parseLevel, h f' hf']

theorem plevel_step {n1 n2 k ts x e r1 r} (hk : k < 5) (h1 : PLevel n1 (k + 1) ts x r1)
    (h2 : PLoop n2 k x r1 e r) : PLevel (n1 + n2 + 1) k ts e r := by
  intro f hf
  obtain ⟨f', rfl, hf'⟩ := succ_of_le hf
  have a : ¬ (6 ≤ k) := by omega
  have b : ¬ (k = 5) := by omega
  simp [parseLevel, a, b, h1 f' (by omega), h2 f' (by omega)]

/-- the loop level that would consume the token, if any. -/
def bl : Tok → Option Nat
  | .op o => some o.plevel
  | .post _ _ => some 6
  | .lp => some 6
  | _ => none

def stopsAbove (k : Nat) (ts : List Tok) : Prop :=
  ∀ t rest b, ts = t :: rest → bl t = some b → b < k

theorem plevel_le4 (o : BinOp) : o.plevel ≤ 4 := by cases o <;> decide

theorem bl_le6 {t : Tok} {b : Nat} (h : bl t = some b) : b ≤ 6 := by
  cases t <;> simp [bl] at h
  · omega
  · have := plevel_le4 ‹BinOp›; omega
  · omega

theorem ploop_stop {k : Nat} {e : Expr} {ts : List Tok}
    (h : ∀ t rest, ts = t :: rest → bl t ≠ some k) : PLoop 1 k e ts e ts := by
  intro f hf
  obtain ⟨f', rfl, _⟩ := succ_of_le hf
  cases ts with
  | nil => simp [parseLoop]
  | cons t ts =>
    have ht := h t ts rfl
    cases t with
    | op o =>
      have : ¬ o.plevel = k := by simpa [bl] using ht
      simp [parseLoop, this]
    | post p fld =>
      have : ¬ k = 6 := by intro e; apply ht; simp [bl, e]
      simp [parseLoop, this]
    | lp =>
      have : ¬ k = 6 := by intro e; apply ht; simp [bl, e]
      simp [parseLoop, this]
    | rp => simp [parseLoop]
    | bang => simp [parseLoop]
    | comma => simp [parseLoop]
    | lb => simp [parseLoop]
    | rb => simp [parseLoop]
    | kwIf => simp [parseLoop]
    | kwElse => simp [parseLoop]
    | kwMatch => simp [parseLoop]
    | semi => simp [parseLoop]
    | atom a => simp [parseLoop]
    | pat a => simp [parseLoop]
    | letK a => simp [parseLoop]
    | lam a => simp [parseLoop]

theorem ploop_stop_of {k k' : Nat} {e : Expr} {ts : List Tok} (h : stopsAbove k ts) (hk : k ≤ k') :
    PLoop 1 k' e ts e ts :=
  ploop_stop (fun t rest ht hb => by have := h t rest k' ht hb; omega)

theorem ploop_step {n1 n2 k o acc x e ts r1 r} (ho : BinOp.plevel o = k)
    (h1 : PLevel n1 (k + 1) ts x r1) (h2 : PLoop n2 k (.binary o acc x) r1 e r) :
    PLoop (n1 + n2 + 1) k acc (.op o :: ts) e r := by
  intro f hf
  obtain ⟨f', rfl, hf'⟩ := succ_of_le hf
  simp [parseLoop, ho, h1 f' (by omega), h2 f' (by omega)]

theorem ploop_post {n acc p fld e ts r} (hlt : fld = true → startsLt ts = false)
    (h : PLoop n 6 (.post acc p fld) ts e r) : PLoop (n + 1) 6 acc (.post p fld :: ts) e r := by
  intro f hf
  obtain ⟨f', rfl, hf'⟩ := succ_of_le hf
  have : (fld && startsLt ts) = false := by
    cases fld <;> simp_all
  simp [parseLoop, h f' hf', this]

theorem ploop_call0 {n acc e r r'} (h : PLoop n 6 (.call0 acc) r e r') :
    PLoop (n + 1) 6 acc (.lp :: .rp :: r) e r' := by
  intro f hf
  obtain ⟨f', rfl, hf'⟩ := succ_of_le hf
  simp [parseLoop, h f' hf']

theorem ploop_call {n1 n2 acc ts args e r r'} (hr : notRp ts) (h1 : PArgs n1 ts args r)
    (h2 : PLoop n2 6 (.call acc args) r e r') : PLoop (n1 + n2 + 1) 6 acc (.lp :: ts) e r' := by
  intro f hf
  obtain ⟨f', rfl, hf'⟩ := succ_of_le hf
  simp only [parseLoop, if_true]
  cases ts with
  | nil => simp [h1 f' (by omega), h2 f' (by omega)]
  | cons t ts =>
    cases t <;> first | exact absurd rfl (hr ts) | simp [h1 f' (by omega), h2 f' (by omega)]

def okAfter (e : Expr) (rest : List Tok) : Prop := lastField e = true → startsLt rest = false

theorem startsLt_of_stops0 {rest : List Tok} (h : stopsAbove 0 rest) : startsLt rest = false := by
  cases rest with
  | nil => rfl
  | cons t r =>
    cases t <;> try rfl
    rename_i o
    have := h (.op o) r o.plevel rfl rfl
    omega

theorem stopsAbove_mono {k k' : Nat} {ts : List Tok} (h : stopsAbove k ts) (hk : k ≤ k') :
    stopsAbove k' ts := fun t rest b ht hb => Nat.lt_of_lt_of_le (h t rest b ht hb) hk

theorem stopsAbove_of_none {k : Nat} {t : Tok} (T : List Tok) (h : bl t = none) :
    stopsAbove k (t :: T) := by
  intro t' rest b he hb; cases he; rw [h] at hb; cases hb

theorem stopsAbove_nil (k : Nat) : stopsAbove k [] := by
  intro t' rest b h; cases h

theorem stopsAbove_op {k : Nat} {o : BinOp} {t : List Tok} (h : o.plevel < k) :
    stopsAbove k (.op o :: t) := by
  intro t' rest b he hb; cases he; simp [bl] at hb; omega

theorem stopsAbove_7 (ts : List Tok) : stopsAbove 7 ts := by
  intro t rest b _ hb; have := bl_le6 hb; omega

theorem lift {n j : Nat} (hj : j ≤ 6) {ts : List Tok} {x : Expr} {r : List Tok}
    (h : PLevel n j ts x r) (hb : j = 6 → startsBase ts) :
    ∀ (d k : Nat), k + d = j → stopsAbove k r → PLevel (n + 2 * d) k ts x r := by
  intro d
  induction d with
  | zero => intro k hk _; have : k = j := by omega
            subst this; exact h
  | succ d ih =>
    intro k hk hs
    have h1 : PLevel (n + 2 * d) (k + 1) ts x r := ih (k + 1) (by omega) (stopsAbove_mono hs (by omega))
    by_cases h5 : k = 5
    · subst h5
      have : j = 6 := by omega
      have hd : d = 0 := by omega
      subst hd
      exact (plevel5 (pun_other h1 (hb this))).mono (by omega)
    · exact (plevel_step (by omega) h1 (ploop_stop_of hs (Nat.le_refl k))).mono (by omega)

theorem paren_append (ts T : List Tok) : paren ts ++ T = .lp :: (ts ++ .rp :: T) := by
  simp [paren]

theorem shortcutOk_lt (r : Expr) : shortcutOk .lt r = false := by
  cases r <;> simp [shortcutOk]

theorem printE_binary (o : BinOp) (l r : Expr) :
    printE (.binary o l r) =
      (if lParen o l then paren (printE l) else printE l) ++
        .op o :: (if rParen o l r then paren (printE r) else printE r) := by
  simp only [printE, lParen, rParen, sub]
  by_cases h0 : o = .lt ∧ endsMember l = true
  · obtain ⟨rfl, hm⟩ := h0
    by_cases h1 : l.prec = 4 + BinOp.lt.pprec
    · simp [hm, h1]
    · simp [hm, h1, shortcutOk_lt]
  · by_cases h1 : l.prec = 4 + o.pprec
    · simp [h0, h1]
    · by_cases h2 : r.prec = 4 + o.pprec ∧ shortcutOk o r = true
      · simp [h0, h1, h2]
      · simp [h0, h1, h2]

theorem endsMember_of_lastField : (e : Expr) → lastField e = true → endsMember e = true
  | .atom a, h => by simp [lastField] at h
  | .tuple e es, h => by simp [lastField] at h
  | .block b, h => by simp [lastField] at h
  | .call0 f, h => by simp [lastField] at h
  | .call f a, h => by simp [lastField] at h
  | .ifElse c t e, h => by simp [lastField] at h
  | .matchE m cs, h => by simp [lastField] at h
  | .post e p fld, h => by simpa [lastField, endsMember] using h
  | .lambda k b, h => by
    simp only [lastField] at h; simp only [endsMember]; exact endsMember_of_lastField b h
  | .unary u a, h => by
    simp only [lastField] at h
    by_cases hp : needParen 2 true a = true
    · simp [hp] at h
    · simp only [hp] at h
      simp only [endsMember, Bool.and_eq_true, decide_eq_true_eq]
      refine ⟨?_, endsMember_of_lastField a h⟩
      simp [needParen] at hp; omega
  | .binary o l r, h => by
    simp only [lastField] at h
    by_cases hp : rParen o l r = true
    · simp [hp] at h
    · simp only [hp] at h
      simp only [endsMember]; exact endsMember_of_lastField r h

theorem lvl_le6 (e : Expr) : e.lvl ≤ 6 := by
  cases e <;> simp [Expr.lvl]
  have := plevel_le4 ‹BinOp›; omega

theorem prec_le12 (e : Expr) : e.prec ≤ 12 := by
  cases e <;> simp [Expr.prec]
  rename_i o _ _; cases o <;> simp [BinOp.pprec]

/-! ### per-node facts about the printer's table and the parser's level order -/

theorem plevel_eq (o : BinOp) : o.plevel = 4 - o.pprec := by cases o <;> rfl
theorem pprec_le4 (o : BinOp) : o.pprec ≤ 4 := by cases o <;> decide

theorem post_ok (e : Expr) : needParen 1 false e = true ∨ (e.operandOk = true ∧ e.lvl = 6) := by
  cases e <;> simp [needParen, Expr.prec, Expr.lvl, Expr.operandOk] <;> omega

theorem unary_ok (e : Expr) : needParen 2 true e = true ∨ (e.operandOk = true ∧ e.lvl = 6) := by
  cases e <;> simp [needParen, Expr.prec, Expr.lvl, Expr.operandOk] <;> omega

theorem lParen_true {o : BinOp} {l : Expr} (h1 : l.prec ≠ 4 + o.pprec) (h2 : l.prec ≥ 4 + o.pprec) :
    lParen o l = true := by
  unfold lParen
  split
  · rfl
  · simp [h1, needParen, h2]

theorem prec_cases (e : Expr) :
    (e.prec ≤ 1 ∧ e.operandOk = true ∧ e.lvl = 6) ∨ (e.prec = 2 ∧ e.operandOk = true ∧ e.lvl = 5) ∨
    (∃ o l r, e = .binary o l r) ∨ (e.prec ≥ 10) := by
  cases e <;> simp [Expr.prec, Expr.lvl, Expr.operandOk]

theorem left_ok (o : BinOp) (l : Expr) :
    lParen o l = true ∨ (l.operandOk = true ∧ l.lvl ≥ o.plevel ∧
      (l.prec ≠ 4 + o.pprec → l.lvl > o.plevel)) := by
  have hpl := plevel_eq o
  have hp4 := pprec_le4 o
  rcases prec_cases l with h | h | ⟨ol, l1, l2, rfl⟩ | h
  · right; exact ⟨h.2.1, by omega, fun _ => by omega⟩
  · right; exact ⟨h.2.1, by omega, fun _ => by omega⟩
  · have hol := plevel_eq ol
    have := pprec_le4 ol
    have hlp : (Expr.binary ol l1 l2).prec = 4 + ol.pprec := rfl
    by_cases hgt : o.pprec < ol.pprec
    · left; exact lParen_true (by rw [hlp]; omega) (by rw [hlp]; omega)
    · right; simp only [Expr.lvl, Expr.operandOk, hlp]; exact ⟨trivial, by omega, fun h => by omega⟩
  · left; exact lParen_true (by omega) (by omega)

theorem rParen_true {o : BinOp} {l r : Expr} (h2 : r.prec ≥ 4 + o.pprec)
    (h3 : usesShortcut o l r = false) : rParen o l r = true := by
  unfold rParen
  by_cases hlq : l.prec = 4 + o.pprec
  · simp [hlq, needParen, h2]
  · simp only [hlq, if_false]
    by_cases hc : r.prec = 4 + o.pprec ∧ shortcutOk o r = true
    · simp [usesShortcut, hlq, hc.1, hc.2] at h3
    · simp [hc, needParen, h2]

theorem right_ok (o : BinOp) (l r : Expr) :
    rParen o l r = true ∨ usesShortcut o l r = true ∨ (r.operandOk = true ∧ r.lvl > o.plevel) := by
  have hpl := plevel_eq o
  have hp4 := pprec_le4 o
  by_cases hs : usesShortcut o l r = true
  · exact .inr (.inl hs)
  · have hs' : usesShortcut o l r = false := by simpa using hs
    rcases prec_cases r with h | h | ⟨or_, r1, r2, rfl⟩ | h
    · right; right; exact ⟨h.2.1, by omega⟩
    · right; right; exact ⟨h.2.1, by omega⟩
    · have hor := plevel_eq or_
      have := pprec_le4 or_
      have hrp : (Expr.binary or_ r1 r2).prec = 4 + or_.pprec := rfl
      by_cases hgt : or_.pprec < o.pprec
      · right; right; simp only [Expr.lvl, Expr.operandOk]; exact ⟨trivial, by omega⟩
      · left; exact rParen_true (by rw [hrp]; omega) hs'
    · left; exact rParen_true (by omega) hs'

theorem lt_ok (l : Expr) (h : lParen .lt l = false) : lastField l = false := by
  by_cases hf : lastField l = true
  · have hm := endsMember_of_lastField l hf
    simp [lParen, hm] at h
  · simpa using hf

theorem shortcutOk_shape {o : BinOp} {e : Expr} (h : shortcutOk o e = true) :
    o ≠ .lt ∧ ∃ r1 r2, e = .binary o r1 r2 ∧ r1.prec ≠ 4 + o.pprec := by
  have hlt : o ≠ .lt := by
    intro e'; subst e'; rw [shortcutOk_lt] at h; cases h
  refine ⟨hlt, ?_⟩
  cases e <;> simp [shortcutOk] at h
  rename_i o' r1 r2
  obtain ⟨⟨_, rfl⟩, h5⟩ := h
  exact ⟨r1, r2, rfl, h5⟩

theorem shortcut_shape {o : BinOp} {l r : Expr} (h : usesShortcut o l r = true) :
    l.prec ≠ 4 + o.pprec ∧ o ≠ .lt ∧ rParen o l r = false ∧ shortcutOk o r = true := by
  simp only [usesShortcut, Bool.and_eq_true, bne_iff_ne, ne_eq, beq_iff_eq] at h
  obtain ⟨⟨h1, h2⟩, h3⟩ := h
  exact ⟨h1, (shortcutOk_shape h3).1, by simp [rParen, h1, h2, h3], h3⟩

/-! ### first token of a printed expression -/

def headBase (ts : List Tok) : Prop :=
  ∃ t r, ts = t :: r ∧ (t = .lp ∨ t = .lb ∨ ∃ a, t = .atom a)
def headOk (ts : List Tok) : Prop :=
  ∃ t r, ts = t :: r ∧ (t = .lp ∨ t = .lb ∨ (∃ a, t = .atom a) ∨ t = .bang ∨ t = .op .minus)

theorem headBase_append {ts : List Tok} (h : headBase ts) (T : List Tok) : headBase (ts ++ T) := by
  obtain ⟨t, r, rfl, ht⟩ := h; exact ⟨t, r ++ T, rfl, ht⟩
theorem headOk_append {ts : List Tok} (h : headOk ts) (T : List Tok) : headOk (ts ++ T) := by
  obtain ⟨t, r, rfl, ht⟩ := h; exact ⟨t, r ++ T, rfl, ht⟩
theorem headOk_of_base {ts : List Tok} (h : headBase ts) : headOk ts := by
  obtain ⟨t, r, rfl, ht⟩ := h
  exact ⟨t, r, rfl, by rcases ht with h | h | h; exact .inl h; exact .inr (.inl h); exact .inr (.inr (.inl h))⟩
theorem headBase_paren (ts : List Tok) : headBase (paren ts) := ⟨.lp, ts ++ [.rp], rfl, .inl rfl⟩

theorem startsBase_of_headBase {ts : List Tok} (h : headBase ts) : startsBase ts := by
  obtain ⟨t, r, rfl, ht⟩ := h
  intro r'
  constructor <;> intro he <;> cases he <;> rcases ht with h | h | ⟨a, h⟩ <;> cases h
theorem notKw_of_headOk {ts : List Tok} (h : headOk ts) : notKw ts := by
  obtain ⟨t, r, rfl, ht⟩ := h
  intro r'
  constructor <;> intro he <;> cases he <;> rcases ht with h | h | ⟨a, h⟩ | h | h <;> cases h
theorem notRp_of_headOk {ts : List Tok} (h : headOk ts) : notRp ts := by
  obtain ⟨t, r, rfl, ht⟩ := h
  intro r' he; cases he; rcases ht with h | h | ⟨a, h⟩ | h | h <;> cases h

theorem head_base : (e : Expr) → e.operandOk = true → e.lvl = 6 → headBase (printE e)
  | .atom a, _, _ => ⟨.atom a, [], rfl, .inr (.inr ⟨a, rfl⟩)⟩
  | .tuple e es, _, _ => ⟨.lp, printE e ++ .comma :: (printArgs es ++ [.rp]), by simp [printE], .inl rfl⟩
  | .block b, _, _ => ⟨.lb, printBody b, by simp [printE], .inr (.inl rfl)⟩
  | .post e p fld, _, _ => by
    simp only [printE, sub]
    by_cases hp : needParen 1 false e = true
    · simp only [hp, if_true]; exact headBase_append (headBase_paren _) _
    · simp only [hp]
      rcases post_ok e with h2 | h2
      · exact absurd h2 hp
      · exact headBase_append (head_base e h2.1 h2.2) _
  | .call0 e, _, _ => by
    simp only [printE, sub]
    by_cases hp : needParen 1 false e = true
    · simp only [hp, if_true]; exact headBase_append (headBase_paren _) _
    · simp only [hp]
      rcases post_ok e with h2 | h2
      · exact absurd h2 hp
      · exact headBase_append (head_base e h2.1 h2.2) _
  | .call e args, _, _ => by
    simp only [printE, sub]
    by_cases hp : needParen 1 false e = true
    · simp only [hp, if_true]; exact headBase_append (headBase_paren _) _
    · simp only [hp]
      rcases post_ok e with h2 | h2
      · exact absurd h2 hp
      · exact headBase_append (head_base e h2.1 h2.2) _
  | .unary u e, _, hl => by simp [Expr.lvl] at hl
  | .binary o l r, _, hl => by simp [Expr.lvl] at hl; have := plevel_le4 o; omega
  | .ifElse c t e, ho, _ => by simp [Expr.operandOk] at ho
  | .matchE m cs, ho, _ => by simp [Expr.operandOk] at ho
  | .lambda k b, ho, _ => by simp [Expr.operandOk] at ho

theorem head_ok : (e : Expr) → e.operandOk = true → headOk (printE e)
  | .atom a, ho => headOk_of_base (head_base _ ho rfl)
  | .tuple e es, ho => headOk_of_base (head_base _ ho rfl)
  | .block e, ho => headOk_of_base (head_base _ ho rfl)
  | .post e p fld, ho => headOk_of_base (head_base _ ho rfl)
  | .call0 e, ho => headOk_of_base (head_base _ ho rfl)
  | .call e a, ho => headOk_of_base (head_base _ ho rfl)
  | .unary u e, _ => by
    cases u
    · exact ⟨.bang, _, rfl, .inr (.inr (.inr (.inl rfl)))⟩
    · exact ⟨.op .minus, _, rfl, .inr (.inr (.inr (.inr rfl)))⟩
  | .binary o l r, _ => by
    rw [printE_binary]
    by_cases hp : lParen o l = true
    · simp only [hp, if_true]; exact headOk_append (headOk_of_base (headBase_paren _)) _
    · simp only [hp]
      rcases left_ok o l with h2 | h2
      · exact absurd h2 hp
      · exact headOk_append (head_ok l h2.1) _
  | .ifElse c t e, ho => by simp [Expr.operandOk] at ho
  | .matchE m cs, ho => by simp [Expr.operandOk] at ho
  | .lambda k b, ho => by simp [Expr.operandOk] at ho

/-- every printed expression starts with a token that is not `)`. -/
theorem head_notRp (e : Expr) : notRp (printE e) := by
  by_cases ho : e.operandOk = true
  · exact notRp_of_headOk (head_ok e ho)
  · intro r he
    cases e <;> simp [Expr.operandOk] at ho <;> simp [printE] at he

/-! ### the main lemma -/

mutual
def B : Expr → Nat
  | .atom _ => 4
  | .tuple e es => B e + BArgs es + 100
  | .block b => BBlk b + 100
  | .post e _ _ => B e + 100
  | .call0 f => B f + 100
  | .call f args => B f + BArgs args + 100
  | .unary _ e => B e + 100
  | .binary _ l r => B l + B r + 160
  | .ifElse c t e => B c + BBlk t + BBlk e + 160
  | .matchE m cs => B m + BCases cs + 100
  | .lambda _ b => B b + 100
def BArgs : Args → Nat
  | .one e => B e + 40
  | .cons e rest => B e + BArgs rest + 40
def BCases : Cases → Nat
  | .one _ b => B b + 40
  | .cons _ b rest => B b + BCases rest + 40
def BBlk : Blk → Nat
  | .fin ss e => BStmts ss + B e + 60
  | .noFin ss => BStmts ss + 20
def BStmts : Stmts → Nat
  | .nil => 0
  | .letS _ e rest => B e + BStmts rest + 40
  | .exprS e rest => B e + BStmts rest + 40
end

/-- prepend statements to a block. -/
def Stmts.push : Stmts → Blk → Blk
  | .nil, b => b
  | .letS k e rest, b => (rest.push b).consLet k e
  | .exprS e rest, b => (rest.push b).consExpr e

theorem push_fin : (ss : Stmts) → (x : Expr) → ss.push (.fin .nil x) = .fin ss x
  | .nil, x => rfl
  | .letS k e rest, x => by simp [Stmts.push, push_fin rest x, Blk.consLet]
  | .exprS e rest, x => by simp [Stmts.push, push_fin rest x, Blk.consExpr]

theorem push_noFin : (ss : Stmts) → ss.push (.noFin .nil) = .noFin ss
  | .nil => rfl
  | .letS k e rest => by simp [Stmts.push, push_noFin rest, Blk.consLet]
  | .exprS e rest => by simp [Stmts.push, push_noFin rest, Blk.consExpr]

def MainConcl (e : Expr) : Prop :=
  (e.operandOk = false → ∀ rest, stopsAbove 0 rest →
    PTop (B e) (printE e ++ rest) (regroup e) rest) ∧
  (e.operandOk = true → e.lvl = 5 → ∀ rest, stopsAbove 6 rest → okAfter e rest →
    PLevel (B e) 5 (printE e ++ rest) (regroup e) rest) ∧
  (e.operandOk = true → e.lvl ≠ 5 → ∀ rest x r1 m, stopsAbove (e.lvl + 1) rest → okAfter e rest →
    PLoop m e.lvl (regroup e) rest x r1 → PLevel (B e + m) e.lvl (printE e ++ rest) x r1) ∧
  (∀ o, shortcutOk o e = true → ∀ acc rest x r1 m, stopsAbove (o.plevel + 1) rest →
    okAfter e rest → PLoop m o.plevel (graftR o acc e) rest x r1 →
    PLoop (B e + m) o.plevel acc (.op o :: (printE e ++ rest)) x r1)

def MainArgs (es : Args) : Prop :=
  ∀ rest, PArgs (BArgs es) (printArgs es ++ .rp :: rest) (rgArgs es) rest
def MainCases (cs : Cases) : Prop :=
  ∀ rest, PCases (BCases cs) (printCases cs ++ .rb :: rest) (rgCases cs) rest
def MainBody (b : Blk) : Prop :=
  ∀ rest, PStmts (BBlk b) (printBody b ++ rest) (rgBlk b) rest
def MainStmts (ss : Stmts) : Prop :=
  ∀ T b r n, PStmts n T b r → PStmts (BStmts ss + n) (printStmts ss ++ T) ((rgStmts ss).push b) r

theorem main_at {e : Expr} (hm : MainConcl e) (ho : e.operandOk = true)
    {k : Nat} (hk : k ≤ e.lvl) {rest : List Tok} (hs : stopsAbove k rest) (hok : okAfter e rest) :
    PLevel (B e + 16) k (printE e ++ rest) (regroup e) rest := by
  have h6 := lvl_le6 e
  by_cases h5 : e.lvl = 5
  · have := hm.2.1 ho h5 rest (stopsAbove_mono hs (by omega)) hok
    exact (lift (by omega) this (by omega) (5 - k) k (by omega) hs).mono (by omega)
  · have hl : PLoop 1 e.lvl (regroup e) rest (regroup e) rest := ploop_stop_of hs hk
    have := hm.2.2.1 ho h5 rest (regroup e) rest 1 (stopsAbove_mono hs (by omega)) hok hl
    refine (lift h6 this (fun h => ?_) (e.lvl - k) k (by omega) hs).mono (by omega)
    exact startsBase_of_headBase (headBase_append (head_base e ho h) rest)

theorem main_top {e : Expr} (hm : MainConcl e) {rest : List Tok}
    (hs : stopsAbove 0 rest) : PTop (B e + 20) (printE e ++ rest) (regroup e) rest := by
  by_cases ho : e.operandOk = true
  · have h0 := main_at hm ho (Nat.zero_le _) hs (fun _ => startsLt_of_stops0 hs)
    exact (ptop_level h0 (notKw_of_headOk (headOk_append (head_ok e ho) rest))).mono (by omega)
  · exact (hm.1 (by simpa using ho) rest hs).mono (by omega)

theorem operand_paren {s : Expr} (hm : MainConcl s) {k : Nat} (hk6 : k ≤ 6)
    {T : List Tok} (hs : stopsAbove k T) :
    PLevel (B s + 40) k (paren (printE s) ++ T) (regroup s) T := by
  rw [paren_append]
  have h0 := main_top hm (stopsAbove_of_none (k := 0) T (t := .rp) rfl)
  have h6 := plevel6 (Nat.le_refl 6) (pbase_paren h0) (ploop_stop_of (e := regroup s) hs hk6)
  refine (lift (Nat.le_refl 6) h6 (fun _ => ?_) (6 - k) k (by omega) hs).mono (by omega)
  exact startsBase_of_headBase ⟨.lp, _, rfl, .inl rfl⟩

theorem regroup_binary (o : BinOp) (l r : Expr) :
    regroup (.binary o l r) =
      if usesShortcut o l r then graftR o (regroup l) r else .binary o (regroup l) (regroup r) := by
  simp [regroup, graftR, rg]

theorem graftR_binary (o o' : BinOp) (acc a b : Expr) :
    graftR o acc (.binary o' a b) =
      if usesShortcut o a b then graftR o (.binary o acc (regroup a)) b
      else .binary o (.binary o acc (regroup a)) (regroup b) := by
  simp [regroup, graftR, rg]

theorem left_strict_parse {o : BinOp} {l : Expr} (hml : MainConcl l) (hne : l.prec ≠ 4 + o.pprec)
    {T : List Tok} (hso : stopsAbove (o.plevel + 1) T) (hokl : lParen o l = false → okAfter l T) :
    PLevel (B l + 40) (o.plevel + 1)
      ((if lParen o l then paren (printE l) else printE l) ++ T) (regroup l) T := by
  have hj4 := plevel_le4 o
  by_cases hp : lParen o l = true
  · simp only [hp, if_true]
    exact operand_paren hml (by omega) hso
  · simp only [hp]
    rcases left_ok o l with h2 | h2
    · exact absurd h2 hp
    · exact (main_at hml h2.1 (by have := h2.2.2 hne; omega) hso
        (hokl (by simpa using hp))).mono (by omega)

/-- base of a postfix chain / callee: read at the postfix level, continuing its loop. -/
theorem chain_base {e : Expr} (hme : MainConcl e) {T : List Tok} {x : Expr} {r1 : List Tok} {m : Nat}
    (hT : startsLt T = false) (hL : PLoop m 6 (regroup e) T x r1) :
    PLevel (B e + m + 40) 6 (sub 1 false e (printE e) ++ T) x r1 := by
  simp only [sub]
  by_cases hp : needParen 1 false e = true
  · simp only [hp, if_true, paren_append]
    have hb := pbase_paren (main_top hme (stopsAbove_of_none (k := 0) T (t := .rp) rfl))
    exact (plevel6 (Nat.le_refl 6) hb hL).mono (by omega)
  · simp only [hp]
    rcases post_ok e with h2 | h2
    · exact absurd h2 hp
    · have hl6 : e.lvl = 6 := h2.2
      have := hme.2.2.1 h2.1 (by omega) T x r1 m
        (by rw [hl6]; exact stopsAbove_7 _) (fun _ => hT) (by rw [hl6]; exact hL)
      rw [hl6] at this
      exact this.mono (by omega)

theorem printArgs_notRp (es : Args) (T : List Tok) : notRp (printArgs es ++ T) := by
  cases es with
  | one e =>
    simp only [printArgs]
    have := head_notRp e
    intro r he
    cases hpe : printE e with
    | nil => by_cases ho : e.operandOk = true
             · obtain ⟨t, r', h, _⟩ := head_ok e ho; rw [hpe] at h; cases h
             · cases e <;> simp [Expr.operandOk] at ho <;> simp [printE] at hpe
    | cons t r' => rw [hpe] at he this; cases he; exact this r' rfl
  | cons e rest =>
    simp only [printArgs]
    have := head_notRp e
    intro r he
    cases hpe : printE e with
    | nil => by_cases ho : e.operandOk = true
             · obtain ⟨t, r', h, _⟩ := head_ok e ho; rw [hpe] at h; cases h
             · cases e <;> simp [Expr.operandOk] at ho <;> simp [printE] at hpe
    | cons t r' => rw [hpe] at he this; cases he; exact this r' rfl

theorem printCases_notRb (cs : Cases) (T : List Tok) : notRb (printCases cs ++ T) := by
  cases cs <;> (simp only [printCases]; intro r he; cases he)

theorem stops_comma (T : List Tok) : stopsAbove 0 (.comma :: T) := stopsAbove_of_none T rfl
theorem stops_rb (T : List Tok) : stopsAbove 0 (.rb :: T) := stopsAbove_of_none T rfl
theorem stops_lb (T : List Tok) : stopsAbove 0 (.lb :: T) := stopsAbove_of_none T rfl
theorem stops_rp (T : List Tok) : stopsAbove 0 (.rp :: T) := stopsAbove_of_none T rfl
theorem stops_semi (T : List Tok) : stopsAbove 0 (.semi :: T) := stopsAbove_of_none T rfl

/-- a printed expression does not start with `}`, `;` or `let`. -/
theorem exprStart_print (e : Expr) (T : List Tok) : exprStart (printE e ++ T) := by
  by_cases ho : e.operandOk = true
  · obtain ⟨t, r, h, ht⟩ := head_ok e ho
    rw [h]
    refine ⟨?_, ?_, ?_⟩ <;> intros <;> intro he <;> cases he <;>
      rcases ht with h | h | ⟨a, h⟩ | h | h <;> cases h
  · cases e <;> simp [Expr.operandOk] at ho <;>
      (simp only [printE]; refine ⟨?_, ?_, ?_⟩ <;> intros <;> intro he <;> cases he)

theorem noSC {e : Expr} (h : ∀ o l r, e ≠ .binary o l r) (o : BinOp) : shortcutOk o e = false := by
  cases e <;> first | rfl | exact absurd rfl (h _ _ _)

mutual
/-- **Loop invariant of precedence climbing** for printed expressions (all expressions). -/
theorem main : (e : Expr) → MainConcl e
  | .atom a => by
    refine ⟨fun ho => by simp [Expr.operandOk] at ho, fun _ h5 => by simp [Expr.lvl] at h5,
      fun _ _ rest x r1 m _ _ hloop => ?_, fun o h => by simp [shortcutOk] at h⟩
    have hrg : regroup (.atom a) = .atom a := by simp [regroup, rg, wrapCtx]
    rw [hrg] at hloop
    simp only [printE, List.singleton_append, Expr.lvl] at hloop ⊢
    exact (plevel6 (Nat.le_refl 6) (pbase_atom a rest) hloop).mono (by simp only [B]; omega)
  | .tuple e es => by
    have hme := main e
    have hma := mainArgs es
    refine ⟨fun ho => by simp [Expr.operandOk] at ho, fun _ h5 => by simp [Expr.lvl] at h5,
      fun _ _ rest x r1 m _ _ hloop => ?_, fun o h => by simp [shortcutOk] at h⟩
    have hrg : regroup (.tuple e es) = .tuple (regroup e) (rgArgs es) := by simp [regroup, rg, wrapCtx]
    rw [hrg] at hloop
    simp only [Expr.lvl] at hloop ⊢
    simp only [printE, List.cons_append, List.append_assoc, List.singleton_append]
    have hb := pbase_tuple (main_top hme (stops_comma (printArgs es ++ .rp :: rest)))
      (printArgs_notRp es (.rp :: rest)) (hma rest)
    exact (plevel6 (Nat.le_refl 6) hb hloop).mono (by simp only [B]; omega)
  | .block b => by
    have hmb := mainBody b
    refine ⟨fun ho => by simp [Expr.operandOk] at ho, fun _ h5 => by simp [Expr.lvl] at h5,
      fun _ _ rest x r1 m _ _ hloop => ?_, fun o h => by simp [shortcutOk] at h⟩
    have hrg : regroup (.block b) = .block (rgBlk b) := by simp [regroup, rg, wrapCtx]
    rw [hrg] at hloop
    simp only [Expr.lvl] at hloop ⊢
    simp only [printE, List.cons_append]
    have hb := pbase_block (hmb rest)
    exact (plevel6 (Nat.le_refl 6) hb hloop).mono (by simp only [B]; omega)
  | .post e p fld => by
    have hme := main e
    refine ⟨fun ho => by simp [Expr.operandOk] at ho, fun _ h5 => by simp [Expr.lvl] at h5,
      fun _ _ rest x r1 m _ hok hloop => ?_, fun o h => by simp [shortcutOk] at h⟩
    have hrg : regroup (.post e p fld) = .post (regroup e) p fld := by simp [regroup, rg, wrapCtx]
    rw [hrg] at hloop
    simp only [Expr.lvl] at hloop ⊢
    have hL : PLoop (m + 1) 6 (regroup e) (.post p fld :: rest) x r1 :=
      ploop_post (fun hf => hok (by simp [lastField, hf])) hloop
    simp only [printE, List.append_assoc, List.singleton_append]
    exact (chain_base hme rfl hL).mono (by simp only [B]; omega)
  | .call0 f => by
    have hme := main f
    refine ⟨fun ho => by simp [Expr.operandOk] at ho, fun _ h5 => by simp [Expr.lvl] at h5,
      fun _ _ rest x r1 m _ _ hloop => ?_, fun o h => by simp [shortcutOk] at h⟩
    have hrg : regroup (.call0 f) = .call0 (regroup f) := by simp [regroup, rg, wrapCtx]
    rw [hrg] at hloop
    simp only [Expr.lvl] at hloop ⊢
    have hL : PLoop (m + 1) 6 (regroup f) (.lp :: .rp :: rest) x r1 := ploop_call0 hloop
    simp only [printE, List.append_assoc, List.cons_append, List.nil_append]
    exact (chain_base hme rfl hL).mono (by simp only [B]; omega)
  | .call f args => by
    have hme := main f
    have hma := mainArgs args
    refine ⟨fun ho => by simp [Expr.operandOk] at ho, fun _ h5 => by simp [Expr.lvl] at h5,
      fun _ _ rest x r1 m _ _ hloop => ?_, fun o h => by simp [shortcutOk] at h⟩
    have hrg : regroup (.call f args) = .call (regroup f) (rgArgs args) := by
      simp [regroup, rg, wrapCtx]
    rw [hrg] at hloop
    simp only [Expr.lvl] at hloop ⊢
    have hL := ploop_call (acc := regroup f) (printArgs_notRp args (.rp :: rest)) (hma rest) hloop
    simp only [printE, List.append_assoc, List.cons_append, List.singleton_append]
    exact (chain_base hme rfl hL).mono (by simp only [B]; omega)
  | .ifElse c t e => by
    have hmc := main c
    have hmt := mainBody t
    have hme := mainBody e
    refine ⟨fun _ rest _ => ?_, fun ho => by simp [Expr.operandOk] at ho,
      fun ho => by simp [Expr.operandOk] at ho, fun o h => by simp [shortcutOk] at h⟩
    have hrg : regroup (.ifElse c t e) = .ifElse (regroup c) (rgBlk t) (rgBlk e) := by
      simp [regroup, rg, wrapCtx]
    rw [hrg]
    simp only [printE, List.cons_append, List.append_assoc]
    exact (ptop_if (main_top hmc (stops_lb _)) (hmt _) (hme rest)).mono (by simp only [B]; omega)
  | .matchE m cs => by
    have hmm := main m
    have hmc := mainCases cs
    refine ⟨fun _ rest _ => ?_, fun ho => by simp [Expr.operandOk] at ho,
      fun ho => by simp [Expr.operandOk] at ho, fun o h => by simp [shortcutOk] at h⟩
    have hrg : regroup (.matchE m cs) = .matchE (regroup m) (rgCases cs) := by
      simp [regroup, rg, wrapCtx]
    rw [hrg]
    simp only [printE, List.cons_append, List.append_assoc, List.singleton_append]
    exact (ptop_match (main_top hmm (stops_lb _)) (hmc rest)).mono (by simp only [B]; omega)
  | .lambda k body => by
    have hmb := main body
    refine ⟨fun _ rest hs => ?_, fun ho => by simp [Expr.operandOk] at ho,
      fun ho => by simp [Expr.operandOk] at ho, fun o h => by simp [shortcutOk] at h⟩
    have hnp : needParen 12 false body = false := by
      have := prec_le12 body; simp [needParen]; omega
    have hrg : regroup (.lambda k body) = .lambda k (regroup body) := by simp [regroup, rg, wrapCtx]
    rw [hrg]
    simp only [printE, sub, hnp, List.cons_append]
    have hb := pbase_lam k (main_top hmb hs)
    have h6 := plevel6 (Nat.le_refl 6) hb
      (ploop_stop_of (e := .lambda k (regroup body)) hs (Nat.zero_le 6))
    have hsb : startsBase (.lam k :: (printE body ++ rest)) := by
      intro r; constructor <;> intro he <;> cases he
    have h0 := lift (Nat.le_refl 6) h6 (fun _ => hsb) 6 0 (by omega) hs
    have hnk : notKw (.lam k :: (printE body ++ rest)) := by
      intro r; constructor <;> intro he <;> cases he
    exact (ptop_level h0 hnk).mono (by simp only [B]; omega)
  | .unary u a => by
    have hma := main a
    refine ⟨fun ho => by simp [Expr.operandOk] at ho, fun _ _ rest hs hok => ?_,
      fun _ h5 => by simp [Expr.lvl] at h5, fun o h => by simp [shortcutOk] at h⟩
    have hrg : regroup (.unary u a) = .unary u (regroup a) := by simp [regroup, rg, wrapCtx]
    rw [hrg]
    have hb : PLevel (B a + 40) 6 (sub 2 true a (printE a) ++ rest) (regroup a) rest := by
      simp only [sub]
      by_cases hp : needParen 2 true a = true
      · simp only [hp, if_true]
        exact operand_paren hma (Nat.le_refl 6) hs
      · simp only [hp]
        rcases unary_ok a with h2 | h2
        · exact absurd h2 hp
        · have hl6 : a.lvl = 6 := h2.2
          have hoka : okAfter a rest := fun hf => hok (by simp [lastField, hp, hf])
          have := hma.2.2.1 h2.1 (by omega) rest (regroup a) rest 1
            (by rw [hl6]; exact stopsAbove_7 _) hoka
            (by rw [hl6]; exact ploop_stop_of hs (Nat.le_refl 6))
          rw [hl6] at this
          exact this.mono (by omega)
    simp only [printE, List.cons_append]
    cases u with
    | not => exact (plevel5 (pun_not hb)).mono (by simp only [B]; omega)
    | neg => exact (plevel5 (pun_neg hb)).mono (by simp only [B]; omega)
  | .binary o l r => by
    have hml := main l
    have hmr := main r
    have hj4 : o.plevel ≤ 4 := plevel_le4 o
    have hRight : ∀ rest, usesShortcut o l r = false → stopsAbove (o.plevel + 1) rest →
        okAfter (.binary o l r) rest →
        PLevel (B r + 40) (o.plevel + 1)
          ((if rParen o l r then paren (printE r) else printE r) ++ rest) (regroup r) rest := by
      intro rest hns hs hok
      by_cases hp : rParen o l r = true
      · simp only [hp, if_true]
        exact operand_paren hmr (by omega) hs
      · simp only [hp]
        rcases right_ok o l r with h2 | h2 | h2
        · exact absurd h2 hp
        · rw [hns] at h2; cases h2
        · have hokr : okAfter r rest := fun hf => hok (by simp [lastField, hp, hf])
          exact (main_at hmr h2.1 (by omega) hs hokr).mono (by omega)
    have hokL : ∀ T, lParen o l = false → okAfter l (.op o :: T) := by
      intro T hp hf
      by_cases hlt : o = .lt
      · subst hlt; rw [lt_ok l hp] at hf; cases hf
      · cases o <;> first | rfl | exact absurd rfl hlt
    refine ⟨fun ho => by simp [Expr.operandOk] at ho,
      fun _ h5 => by simp [Expr.lvl] at h5; omega, fun _ _ rest x r1 m hs hok hloop => ?_,
      fun o2 hsc acc rest x r1 m hs hok hloop => ?_⟩
    · simp only [Expr.lvl] at hs hloop ⊢
      rw [printE_binary, List.append_assoc, List.cons_append]
      rw [regroup_binary] at hloop
      by_cases hsh : usesShortcut o l r = true
      · obtain ⟨hne, _, hrp, hscr⟩ := shortcut_shape hsh
        simp only [hsh, if_true] at hloop
        simp only [hrp, Bool.false_eq_true, if_false]
        have hokr : okAfter r rest := fun hf => hok (by simp [lastField, hrp, hf])
        have hL := hmr.2.2.2 o hscr (regroup l) rest x r1 m hs hokr hloop
        have hso : stopsAbove (o.plevel + 1) (.op o :: (printE r ++ rest)) := stopsAbove_op (by omega)
        exact (plevel_step (by omega)
          (left_strict_parse hml hne hso (fun hp => hokL _ hp)) hL).mono (by simp only [B]; omega)
      · have hns : usesShortcut o l r = false := by simpa using hsh
        simp only [hns, Bool.false_eq_true, if_false] at hloop
        have hR := hRight rest hns hs hok
        have hL := ploop_step (acc := regroup l) rfl hR hloop
        have hso : stopsAbove (o.plevel + 1)
            (.op o :: ((if rParen o l r then paren (printE r) else printE r) ++ rest)) :=
          stopsAbove_op (by omega)
        by_cases hp : lParen o l = true
        · simp only [hp, if_true]
          exact (plevel_step (by omega) (operand_paren hml (by omega) hso) hL).mono
            (by simp only [B]; omega)
        · simp only [hp]
          have hokl := hokL ((if rParen o l r then paren (printE r) else printE r) ++ rest)
            (by simpa using hp)
          rcases left_ok o l with h2 | h2
          · exact absurd h2 hp
          · by_cases heq : l.lvl = o.plevel
            · have := hml.2.2.1 h2.1 (by omega) _ x r1 _ (by rw [heq]; exact hso) hokl
                (by rw [heq]; exact hL)
              rw [heq] at this
              exact this.mono (by simp only [B]; omega)
            · exact (plevel_step (by omega)
                (main_at hml h2.1 (by have := h2.2.1; omega) hso hokl) hL).mono
                (by simp only [B]; omega)
    · obtain ⟨hlt2, r1', r2', heq, hne1⟩ := shortcutOk_shape hsc
      cases heq
      rw [printE_binary, List.append_assoc, List.cons_append]
      rw [graftR_binary] at hloop
      by_cases hsh : usesShortcut o l r = true
      · obtain ⟨_, _, hrp, hscr⟩ := shortcut_shape hsh
        simp only [hsh, if_true] at hloop
        simp only [hrp, Bool.false_eq_true, if_false]
        have hokr : okAfter r rest := fun hf => hok (by simp [lastField, hrp, hf])
        have hL := hmr.2.2.2 o hscr (.binary o acc (regroup l)) rest x r1 m hs hokr hloop
        have hso : stopsAbove (o.plevel + 1) (.op o :: (printE r ++ rest)) := stopsAbove_op (by omega)
        exact (ploop_step rfl (left_strict_parse hml hne1 hso (fun hp => hokL _ hp)) hL).mono
          (by simp only [B]; omega)
      · have hns : usesShortcut o l r = false := by simpa using hsh
        simp only [hns, Bool.false_eq_true, if_false] at hloop
        have hR := hRight rest hns hs hok
        have hL := ploop_step (acc := .binary o acc (regroup l)) rfl hR hloop
        have hso : stopsAbove (o.plevel + 1)
            (.op o :: ((if rParen o l r then paren (printE r) else printE r) ++ rest)) :=
          stopsAbove_op (by omega)
        exact (ploop_step rfl (left_strict_parse hml hne1 hso (fun hp => hokL _ hp)) hL).mono
          (by simp only [B]; omega)
theorem mainArgs : (es : Args) → MainArgs es
  | .one e => by
    have hme := main e
    intro rest
    have hrg : rgArgs (.one e) = .one (regroup e) := by simp [rgArgs, regroup]
    rw [hrg]
    simp only [printArgs]
    exact (pargs_one (main_top hme (stops_rp rest))).mono (by simp only [BArgs]; omega)
  | .cons e es => by
    have hme := main e
    have hms := mainArgs es
    intro rest
    have hrg : rgArgs (.cons e es) = .cons (regroup e) (rgArgs es) := by simp [rgArgs, regroup]
    rw [hrg]
    simp only [printArgs, List.append_assoc, List.cons_append]
    exact (pargs_cons (main_top hme (stops_comma _)) (printArgs_notRp es (.rp :: rest))
      (hms rest)).mono (by simp only [BArgs]; omega)
theorem mainCases : (cs : Cases) → MainCases cs
  | .one k b => by
    have hmb := main b
    intro rest
    have hrg : rgCases (.one k b) = .one k (regroup b) := by simp [rgCases, regroup]
    rw [hrg]
    simp only [printCases, List.cons_append, List.append_assoc, List.singleton_append]
    exact (pcases_one k (main_top hmb (stops_comma _))).mono (by simp only [BCases]; omega)
  | .cons k b cs => by
    have hmb := main b
    have hms := mainCases cs
    intro rest
    have hrg : rgCases (.cons k b cs) = .cons k (regroup b) (rgCases cs) := by simp [rgCases, regroup]
    rw [hrg]
    simp only [printCases, List.cons_append, List.append_assoc]
    exact (pcases_cons k (main_top hmb (stops_comma _)) (printCases_notRb cs (.rb :: rest))
      (hms rest)).mono (by simp only [BCases]; omega)
theorem mainBody : (b : Blk) → MainBody b
  | .fin ss e => by
    have hme := main e
    have hms := mainStmts ss
    intro rest
    have hrg : rgBlk (.fin ss e) = .fin (rgStmts ss) (regroup e) := by simp [rgBlk, regroup]
    rw [hrg, show Blk.fin (rgStmts ss) (regroup e) = (rgStmts ss).push (.fin .nil (regroup e)) from
      (push_fin _ _).symm]
    simp only [printBody, List.append_assoc, List.singleton_append]
    have hbase := pstmts_fin (exprStart_print e _) (main_top hme (stops_rb rest))
    exact (hms _ _ _ _ hbase).mono (by simp only [BBlk]; omega)
  | .noFin ss => by
    have hms := mainStmts ss
    intro rest
    have hrg : rgBlk (.noFin ss) = .noFin (rgStmts ss) := by simp [rgBlk]
    rw [hrg, show Blk.noFin (rgStmts ss) = (rgStmts ss).push (.noFin .nil) from (push_noFin _).symm]
    simp only [printBody, List.append_assoc, List.singleton_append]
    exact (hms _ _ _ _ (pstmts_rb rest)).mono (by simp only [BBlk]; omega)
theorem mainStmts : (ss : Stmts) → MainStmts ss
  | .nil => by
    intro T b r n h
    simpa [printStmts, rgStmts, Stmts.push, BStmts] using h
  | .letS k e rest => by
    have hme := main e
    have hms := mainStmts rest
    intro T b r n h
    have hrg : rgStmts (.letS k e rest) = .letS k (regroup e) (rgStmts rest) := by
      simp [rgStmts, regroup]
    rw [hrg]
    simp only [printStmts, List.cons_append, List.append_assoc, Stmts.push]
    exact (pstmts_let k (main_top hme (stops_semi _)) (hms T b r n h)).mono
      (by simp only [BStmts]; omega)
  | .exprS e rest => by
    have hme := main e
    have hms := mainStmts rest
    intro T b r n h
    have hrg : rgStmts (.exprS e rest) = .exprS (regroup e) (rgStmts rest) := by
      simp [rgStmts, regroup]
    rw [hrg]
    simp only [printStmts, List.cons_append, List.append_assoc, Stmts.push]
    exact (pstmts_expr (exprStart_print e _) (main_top hme (stops_semi _)) (hms T b r n h)).mono
      (by simp only [BStmts]; omega)
end


/-! ### the budget of `parseE` suffices -/

theorem length_sub (p : Nat) (b : Bool) (e : Expr) (ts : List Tok) :
    ts.length ≤ (sub p b e ts).length := by
  simp only [sub]; split <;> simp [paren] <;> omega

mutual
theorem B_le : (e : Expr) → B e ≤ 160 * (printE e).length
  | .atom a => by simp [B, printE]
  | .tuple e es => by
    have := B_le e; have := BArgs_le es
    simp only [B, printE, List.length_cons, List.length_append, List.length_nil]; omega
  | .block b => by
    have := BBlk_le b
    simp only [B, printE, List.length_cons]; omega
  | .post e p fld => by
    have := B_le e; have := length_sub 1 false e (printE e)
    simp only [B, printE, List.length_append, List.length_cons, List.length_nil]; omega
  | .call0 f => by
    have := B_le f; have := length_sub 1 false f (printE f)
    simp only [B, printE, List.length_append, List.length_cons, List.length_nil]; omega
  | .call f args => by
    have := B_le f; have := BArgs_le args; have := length_sub 1 false f (printE f)
    simp only [B, printE, List.length_append, List.length_cons, List.length_nil]; omega
  | .unary u e => by
    have := B_le e; have := length_sub 2 true e (printE e)
    simp only [B, printE, List.length_cons]; omega
  | .binary o l r => by
    have := B_le l; have := B_le r
    rw [printE_binary]
    have h1 : (printE l).length ≤ (if lParen o l then paren (printE l) else printE l).length := by
      split <;> simp [paren] <;> omega
    have h2 : (printE r).length ≤ (if rParen o l r then paren (printE r) else printE r).length := by
      split <;> simp [paren] <;> omega
    simp only [B, List.length_append, List.length_cons]; omega
  | .ifElse c t e => by
    have := B_le c; have := BBlk_le t; have := BBlk_le e
    simp only [B, printE, List.length_cons, List.length_append]; omega
  | .matchE m cs => by
    have := B_le m; have := BCases_le cs
    simp only [B, printE, List.length_cons, List.length_append, List.length_nil]; omega
  | .lambda k b => by
    have := B_le b; have := length_sub 12 false b (printE b)
    simp only [B, printE, List.length_cons]; omega
theorem BArgs_le : (es : Args) → BArgs es ≤ 160 * (printArgs es).length + 40
  | .one e => by have := B_le e; simp only [BArgs, printArgs]; omega
  | .cons e rest => by
    have := B_le e; have := BArgs_le rest
    simp only [BArgs, printArgs, List.length_append, List.length_cons]; omega
theorem BCases_le : (cs : Cases) → BCases cs ≤ 160 * (printCases cs).length
  | .one k b => by
    have := B_le b
    simp only [BCases, printCases, List.length_cons, List.length_append, List.length_nil]; omega
  | .cons k b rest => by
    have := B_le b; have := BCases_le rest
    simp only [BCases, printCases, List.length_cons, List.length_append]; omega
theorem BBlk_le : (b : Blk) → BBlk b ≤ 160 * (printBody b).length
  | .fin ss e => by
    have := B_le e; have := BStmts_le ss
    simp only [BBlk, printBody, List.length_cons, List.length_append, List.length_nil]; omega
  | .noFin ss => by
    have := BStmts_le ss
    simp only [BBlk, printBody, List.length_cons, List.length_append, List.length_nil]; omega
theorem BStmts_le : (ss : Stmts) → BStmts ss ≤ 160 * (printStmts ss).length
  | .nil => by simp [BStmts]
  | .letS k e rest => by
    have := B_le e; have := BStmts_le rest
    simp only [BStmts, printStmts, List.length_cons, List.length_append]; omega
  | .exprS e rest => by
    have := B_le e; have := BStmts_le rest
    simp only [BStmts, printStmts, List.length_cons, List.length_append]; omega
end

/-! ## The recursion budget only matters for definedness -/

def MonoAt (f : Nat) : Prop :=
  (∀ ts r, parseTop f ts = some r → parseTop (f + 1) ts = some r) ∧
  (∀ ts r, parseCases f ts = some r → parseCases (f + 1) ts = some r) ∧
  (∀ ts r, parseArgs f ts = some r → parseArgs (f + 1) ts = some r) ∧
  (∀ ts r, parseBase f ts = some r → parseBase (f + 1) ts = some r) ∧
  (∀ ts r, parseUnary f ts = some r → parseUnary (f + 1) ts = some r) ∧
  (∀ k ts r, parseLevel f k ts = some r → parseLevel (f + 1) k ts = some r) ∧
  (∀ k e ts r, parseLoop f k e ts = some r → parseLoop (f + 1) k e ts = some r) ∧
  (∀ ts r, parseStmts f ts = some r → parseStmts (f + 1) ts = some r)

theorem mono_all : ∀ f, MonoAt f := by
  intro f
  induction f with
  | zero =>
    refine ⟨?_, ?_, ?_, ?_, ?_, ?_, ?_, ?_⟩ <;> intros <;>
      simp_all [parseTop, parseCases, parseArgs, parseBase, parseUnary, parseLevel, parseLoop, parseStmts]
  | succ f ih =>
    obtain ⟨ht, hc, ha, hb, hu, hl, hp, hs⟩ := ih
    refine ⟨?_, ?_, ?_, ?_, ?_, ?_, ?_, ?_⟩
    · -- parseTop
      intro ts r h
      have other : ∀ ts, (∀ r', ts ≠ .kwMatch :: r') → (∀ r', ts ≠ .kwIf :: r') →
          parseTop (f + 1) ts = some r → parseTop (f + 1 + 1) ts = some r := by
        intro ts h1 h2 h
        rw [parseTop] at h ⊢
        · exact hl _ _ _ h
        all_goals (intro ts' he; first | exact h1 ts' he | exact h2 ts' he)
      cases ts with
      | nil => exact other [] (by intro _ he; cases he) (by intro _ he; cases he) h
      | cons t ts =>
        cases t with
        | kwMatch =>
          simp only [parseTop] at h ⊢
          cases h0 : parseTop f ts with
          | none => simp [h0] at h
          | some p =>
            rw [ht ts p h0]
            simp only [h0] at h
            obtain ⟨m, r0⟩ := p
            cases r0 with
            | nil => simp at h
            | cons t0 r0 =>
              cases t0 <;> simp at h ⊢
              cases h1 : parseCases f r0 with
              | none => simp [h1] at h
              | some q => rw [hc r0 q h1]; simpa [h1] using h
        | kwIf =>
          simp only [parseTop] at h ⊢
          cases h0 : parseTop f ts with
          | none => simp [h0] at h
          | some p =>
            rw [ht ts p h0]
            simp only [h0] at h
            obtain ⟨c, r0⟩ := p
            cases r0 with
            | nil => simp at h
            | cons t0 r0 =>
              cases t0 <;> simp at h ⊢
              cases h1 : parseStmts f r0 with
              | none => simp [h1] at h
              | some q =>
                rw [hs r0 q h1]
                simp only [h1] at h
                obtain ⟨t1, r1⟩ := q
                split at h
                · rename_i e1 r2 heq
                  cases heq
                  cases h2 : parseStmts f r2 with
                  | none => simp [h2] at h
                  | some q2 => rw [hs r2 q2 h2]; simpa [h2] using h
                · cases h
        | lp => exact other _ (by intro _ he; cases he) (by intro _ he; cases he) h
        | rp => exact other _ (by intro _ he; cases he) (by intro _ he; cases he) h
        | bang => exact other _ (by intro _ he; cases he) (by intro _ he; cases he) h
        | comma => exact other _ (by intro _ he; cases he) (by intro _ he; cases he) h
        | lb => exact other _ (by intro _ he; cases he) (by intro _ he; cases he) h
        | rb => exact other _ (by intro _ he; cases he) (by intro _ he; cases he) h
        | kwElse => exact other _ (by intro _ he; cases he) (by intro _ he; cases he) h
        | op o => exact other _ (by intro _ he; cases he) (by intro _ he; cases he) h
        | atom a => exact other _ (by intro _ he; cases he) (by intro _ he; cases he) h
        | post a b => exact other _ (by intro _ he; cases he) (by intro _ he; cases he) h
        | pat a => exact other _ (by intro _ he; cases he) (by intro _ he; cases he) h
        | lam a => exact other _ (by intro _ he; cases he) (by intro _ he; cases he) h
        | semi => exact other _ (by intro _ he; cases he) (by intro _ he; cases he) h
        | letK a => exact other _ (by intro _ he; cases he) (by intro _ he; cases he) h
    · -- parseCases
      intro ts r h
      cases ts with
      | nil => simp [parseCases] at h
      | cons t ts =>
        cases t <;> try (simp [parseCases] at h; done)
        rename_i k
        simp only [parseCases] at h ⊢
        cases h0 : parseTop f ts with
        | none => simp [h0] at h
        | some p =>
          rw [ht ts p h0]
          simp only [h0] at h
          split at h
          · rename_i heq; cases heq; simpa using h
          · rename_i heq; cases heq; simpa using h
          · rename_i b r0 _ heq
            cases heq
            cases h1 : parseCases f r0 with
            | none => simp [h1] at h
            | some q =>
              simp only [h1] at h
              simp only [hc r0 q h1]; exact h
          · cases h
    · -- parseArgs
      intro ts r h
      unfold parseArgs at h ⊢
      cases h0 : parseTop f ts with
      | none => simp [h0] at h
      | some p =>
        rw [ht ts p h0]
        simp only [h0] at h
        split at h
        · rename_i heq; cases heq; simpa using h
        · rename_i heq; cases heq; simpa using h
        · rename_i b r0 _ heq
          cases heq
          cases h1 : parseArgs f r0 with
          | none => simp [h1] at h
          | some q =>
            simp only [h1] at h
            simp only [ha r0 q h1]; exact h
        · cases h
    · -- parseBase
      intro ts r h
      cases ts with
      | nil => simp [parseBase] at h
      | cons t ts =>
        cases t <;> try (simp [parseBase] at h; done)
        · -- lp
          simp only [parseBase] at h ⊢
          cases h0 : parseTop f ts with
          | none => simp [h0] at h
          | some p =>
            rw [ht ts p h0]
            simp only [h0] at h
            split at h
            · rename_i heq; cases heq; simpa using h
            · rename_i heq; cases heq; simpa using h
            · rename_i e0 r0 _ heq
              cases heq
              cases h1 : parseArgs f r0 with
              | none => simp [h1] at h
              | some q => simp only [h1] at h; simp only [ha r0 q h1]; exact h
            · cases h
        · -- lb
          simp only [parseBase] at h ⊢
          cases h0 : parseStmts f ts with
          | none => simp [h0] at h
          | some p => rw [hs ts p h0]; simpa [h0] using h
        · -- atom
          simpa [parseBase] using h
        · -- lam
          simp only [parseBase] at h ⊢
          cases h0 : parseTop f ts with
          | none => simp [h0] at h
          | some p => rw [ht ts p h0]; simpa [h0] using h
    · -- parseUnary
      intro ts r h
      have other : ∀ ts, (∀ r', ts ≠ .bang :: r') → (∀ r', ts ≠ .op .minus :: r') →
          parseUnary (f + 1) ts = some r → parseUnary (f + 1 + 1) ts = some r := by
        intro ts h1 h2 h
        rw [parseUnary] at h ⊢
        · exact hl _ _ _ h
        all_goals (intro ts' he; first | exact h1 ts' he | exact h2 ts' he)
      cases ts with
      | nil => exact other [] (by intro _ he; cases he) (by intro _ he; cases he) h
      | cons t ts =>
        cases t with
        | bang =>
          simp only [parseUnary] at h ⊢
          cases h0 : parseLevel f 6 ts with
          | none => simp [h0] at h
          | some p => rw [hl 6 ts p h0]; simpa [h0] using h
        | op o =>
          by_cases ho : o = .minus
          · subst ho
            simp only [parseUnary] at h ⊢
            cases h0 : parseLevel f 6 ts with
            | none => simp [h0] at h
            | some p => rw [hl 6 ts p h0]; simpa [h0] using h
          · exact other _ (by intro _ he; cases he) (by intro _ he; cases he; exact ho rfl) h
        | lp => exact other _ (by intro _ he; cases he) (by intro _ he; cases he) h
        | rp => exact other _ (by intro _ he; cases he) (by intro _ he; cases he) h
        | comma => exact other _ (by intro _ he; cases he) (by intro _ he; cases he) h
        | lb => exact other _ (by intro _ he; cases he) (by intro _ he; cases he) h
        | rb => exact other _ (by intro _ he; cases he) (by intro _ he; cases he) h
        | kwIf => exact other _ (by intro _ he; cases he) (by intro _ he; cases he) h
        | kwElse => exact other _ (by intro _ he; cases he) (by intro _ he; cases he) h
        | kwMatch => exact other _ (by intro _ he; cases he) (by intro _ he; cases he) h
        | atom a => exact other _ (by intro _ he; cases he) (by intro _ he; cases he) h
        | post a b => exact other _ (by intro _ he; cases he) (by intro _ he; cases he) h
        | pat a => exact other _ (by intro _ he; cases he) (by intro _ he; cases he) h
        | lam a => exact other _ (by intro _ he; cases he) (by intro _ he; cases he) h
        | semi => exact other _ (by intro _ he; cases he) (by intro _ he; cases he) h
        | letK a => exact other _ (by intro _ he; cases he) (by intro _ he; cases he) h
    · -- parseLevel
      intro k ts r h
      rw [parseLevel] at h ⊢
      by_cases hk : k ≥ 6
      · simp only [hk, if_true] at h ⊢
        cases h0 : parseBase f ts with
        | none => simp [h0] at h
        | some p =>
          rw [hb ts p h0]
          simp only [h0] at h
          exact hp _ _ _ _ h
      · simp only [hk, if_false] at h ⊢
        by_cases h5 : k = 5
        · simp only [h5, if_true] at h ⊢; exact hu _ _ h
        · simp only [h5, if_false] at h ⊢
          cases h0 : parseLevel f (k + 1) ts with
          | none => simp [h0] at h
          | some p =>
            rw [hl (k + 1) ts p h0]
            simp only [h0] at h
            exact hp _ _ _ _ h
    · -- parseLoop
      intro k e ts r h
      cases ts with
      | nil => simpa [parseLoop] using h
      | cons t ts =>
        cases t with
        | op o =>
          simp only [parseLoop] at h ⊢
          by_cases ho : o.plevel = k
          · simp only [ho, if_true] at h ⊢
            cases h0 : parseLevel f (k + 1) ts with
            | none => simp [h0] at h
            | some p =>
              rw [hl (k + 1) ts p h0]
              simp only [h0] at h
              exact hp _ _ _ _ h
          · simpa [ho] using h
        | post p fld =>
          simp only [parseLoop] at h ⊢
          by_cases hk : k = 6
          · simp only [hk, if_true] at h ⊢
            by_cases hc : (fld && startsLt ts) = true
            · simp [hc] at h
            · simp only [hc] at h ⊢; exact hp _ _ _ _ h
          · simpa [hk] using h
        | lp =>
          by_cases hk : k = 6
          · subst hk
            have other : ∀ ts, (∀ r0, ts ≠ .rp :: r0) →
                parseLoop (f + 1) 6 e (.lp :: ts) = some r → parseLoop (f + 1 + 1) 6 e (.lp :: ts) = some r := by
              intro ts hnr h
              rw [parseLoop] at h ⊢
              · simp only [if_true] at h ⊢
                cases h1 : parseArgs f ts with
                | none => simp [h1] at h
                | some q =>
                  simp only [h1] at h
                  simp only [ha ts q h1]; exact hp _ _ _ _ h
              all_goals (intro r0 he; exact hnr r0 he)
            cases ts with
            | nil => exact other [] (by intro _ he; cases he) h
            | cons t2 ts2 =>
              cases t2 <;> first
                | (simp only [parseLoop, if_true] at h ⊢; exact hp _ _ _ _ h)
                | exact other _ (by intro _ he; cases he) h
          · simp only [parseLoop, hk, if_false] at h ⊢; exact h
        | atom a => simpa [parseLoop] using h
        | rp => simpa [parseLoop] using h
        | bang => simpa [parseLoop] using h
        | comma => simpa [parseLoop] using h
        | lb => simpa [parseLoop] using h
        | rb => simpa [parseLoop] using h
        | kwIf => simpa [parseLoop] using h
        | kwElse => simpa [parseLoop] using h
        | kwMatch => simpa [parseLoop] using h
        | pat a => simpa [parseLoop] using h
        | lam a => simpa [parseLoop] using h
        | semi => simpa [parseLoop] using h
        | letK a => simpa [parseLoop] using h
    · -- parseStmts
      intro ts r h
      have other : ∀ ts, (∀ r', ts ≠ .rb :: r') → (∀ r', ts ≠ .semi :: r') → (∀ k r', ts ≠ .letK k :: r') →
          parseStmts (f + 1) ts = some r → parseStmts (f + 1 + 1) ts = some r := by
        intro ts h1 h2 h3 h
        rw [parseStmts] at h ⊢
        · cases h0 : parseTop f ts with
          | none => simp [h0] at h
          | some p =>
            rw [ht ts p h0]
            simp only [h0] at h
            split at h
            · rename_i e0 r0 heq
              cases heq
              cases h1' : parseStmts f r0 with
              | none => simp [h1'] at h
              | some q => simp only [h1'] at h; simp only [hs r0 q h1']; exact h
            · rename_i heq; cases heq; simpa using h
            · cases h
        all_goals (intros; first | exact h1 _ ‹_› | exact h2 _ ‹_› | exact h3 _ _ ‹_›)
      cases ts with
      | nil => exact other [] (by intro _ he; cases he) (by intro _ he; cases he) (by intro _ _ he; cases he) h
      | cons t ts =>
        cases t with
        | rb => simpa [parseStmts] using h
        | semi => simp only [parseStmts] at h ⊢; exact hs _ _ h
        | letK k =>
          simp only [parseStmts] at h ⊢
          cases h0 : parseTop f ts with
          | none => simp [h0] at h
          | some p =>
            rw [ht ts p h0]
            simp only [h0] at h
            split at h
            · rename_i e0 r0 heq
              cases heq
              cases h1' : parseStmts f r0 with
              | none => simp [h1'] at h
              | some q => simp only [h1'] at h; simp only [hs r0 q h1']; exact h
            · cases h
        | lp => exact other _ (by intro _ he; cases he) (by intro _ he; cases he) (by intro _ _ he; cases he) h
        | rp => exact other _ (by intro _ he; cases he) (by intro _ he; cases he) (by intro _ _ he; cases he) h
        | bang => exact other _ (by intro _ he; cases he) (by intro _ he; cases he) (by intro _ _ he; cases he) h
        | comma => exact other _ (by intro _ he; cases he) (by intro _ he; cases he) (by intro _ _ he; cases he) h
        | lb => exact other _ (by intro _ he; cases he) (by intro _ he; cases he) (by intro _ _ he; cases he) h
        | kwIf => exact other _ (by intro _ he; cases he) (by intro _ he; cases he) (by intro _ _ he; cases he) h
        | kwElse => exact other _ (by intro _ he; cases he) (by intro _ he; cases he) (by intro _ _ he; cases he) h
        | kwMatch => exact other _ (by intro _ he; cases he) (by intro _ he; cases he) (by intro _ _ he; cases he) h
        | op o => exact other _ (by intro _ he; cases he) (by intro _ he; cases he) (by intro _ _ he; cases he) h
        | atom a => exact other _ (by intro _ he; cases he) (by intro _ he; cases he) (by intro _ _ he; cases he) h
        | post a b => exact other _ (by intro _ he; cases he) (by intro _ he; cases he) (by intro _ _ he; cases he) h
        | pat a => exact other _ (by intro _ he; cases he) (by intro _ he; cases he) (by intro _ _ he; cases he) h
        | lam a => exact other _ (by intro _ he; cases he) (by intro _ he; cases he) (by intro _ _ he; cases he) h

theorem parseTop_mono {f f' : Nat} {ts : List Tok} {r : Expr × List Tok}
    (h : parseTop f ts = some r) (hf : f ≤ f') : parseTop f' ts = some r := by
  obtain ⟨d, rfl⟩ : ∃ d, f' = f + d := ⟨f' - f, by omega⟩
  induction d with
  | zero => exact h
  | succ d ih => exact (mono_all (f + d)).1 ts r (ih (by omega))

theorem ptop_of_some {f : Nat} {ts : List Tok} {e : Expr} {r : List Tok}
    (h : parseTop f ts = some (e, r)) : PTop f ts e r := fun _ hf => parseTop_mono h hf

theorem parseFuel_some {f : Nat} {ts : List Tok} {e : Expr} (h : parseFuel f ts = some e) :
    parseTop f ts = some (e, []) := by
  unfold parseFuel at h
  split at h
  · rename_i e' heq; cases h; exact heq
  · cases h

/-! ## Appending a closing parenthesis to a successfully parsed input -/

def ExtAt (f : Nat) : Prop :=
  (∀ ts e r, parseTop f ts = some (e, r) → parseTop f (ts ++ [.rp]) = some (e, r ++ [.rp])) ∧
  (∀ ts e r, parseCases f ts = some (e, r) → parseCases f (ts ++ [.rp]) = some (e, r ++ [.rp])) ∧
  (∀ ts e r, parseArgs f ts = some (e, r) → parseArgs f (ts ++ [.rp]) = some (e, r ++ [.rp])) ∧
  (∀ ts e r, parseBase f ts = some (e, r) → parseBase f (ts ++ [.rp]) = some (e, r ++ [.rp])) ∧
  (∀ ts e r, parseUnary f ts = some (e, r) → parseUnary f (ts ++ [.rp]) = some (e, r ++ [.rp])) ∧
  (∀ k ts e r, parseLevel f k ts = some (e, r) → parseLevel f k (ts ++ [.rp]) = some (e, r ++ [.rp])) ∧
  (∀ k a ts e r, parseLoop f k a ts = some (e, r) → parseLoop f k a (ts ++ [.rp]) = some (e, r ++ [.rp])) ∧
  (∀ ts e r, parseStmts f ts = some (e, r) → parseStmts f (ts ++ [.rp]) = some (e, r ++ [.rp]))

theorem startsLt_append (ts : List Tok) : startsLt (ts ++ [.rp]) = startsLt ts := by
  cases ts with
  | nil => rfl
  | cons t ts' =>
    cases t <;> try rfl
    rename_i o; cases o <;> rfl

theorem empty_none : ∀ f, parseTop f [] = none ∧ (∀ k, parseLevel f k [] = none) ∧
    parseUnary f [] = none ∧ parseBase f [] = none := by
  intro f
  induction f with
  | zero => simp [parseTop, parseLevel, parseUnary, parseBase]
  | succ f ih =>
    obtain ⟨h1, h2, h3, h4⟩ := ih
    refine ⟨?_, ?_, ?_, ?_⟩
    · rw [parseTop]; exact h2 0
      all_goals (intro _ he; cases he)
    · intro k
      rw [parseLevel]
      by_cases hk : k ≥ 6
      · simp [hk, h4]
      · by_cases h5 : k = 5
        · simp [h5, h3]
        · simp [hk, h5, h2]
    · rw [parseUnary]; exact h2 6
      all_goals (intro _ he; cases he)
    · simp [parseBase]

theorem parseArgs_nil (f : Nat) : parseArgs f [] = none := by
  cases f with
  | zero => simp [parseArgs]
  | succ f => unfold parseArgs; simp [(empty_none f).1]

theorem ext_all : ∀ f, ExtAt f := by
  intro f
  induction f with
  | zero =>
    refine ⟨?_, ?_, ?_, ?_, ?_, ?_, ?_, ?_⟩ <;> intros <;>
      simp_all [parseTop, parseCases, parseArgs, parseBase, parseUnary, parseLevel, parseLoop, parseStmts]
  | succ f ih =>
    obtain ⟨ht, hc, ha, hb, hu, hl, hp, hs⟩ := ih
    refine ⟨?_, ?_, ?_, ?_, ?_, ?_, ?_, ?_⟩
    · -- parseTop
      intro ts e r h
      have other : ∀ ts, (∀ r', ts ≠ .kwMatch :: r') → (∀ r', ts ≠ .kwIf :: r') →
          parseTop (f + 1) ts = some (e, r) → parseTop (f + 1) (ts ++ [.rp]) = some (e, r ++ [.rp]) := by
        intro ts h1 h2 h
        rw [parseTop] at h
        · rw [parseTop]
          · exact hl _ _ _ _ h
          all_goals
            intro ts' he
            cases ts with
            | nil => cases he
            | cons t ts0 =>
              simp only [List.cons_append, List.cons.injEq] at he
              obtain ⟨rfl, _⟩ := he
              first | exact absurd rfl (h1 ts0) | exact absurd rfl (h2 ts0)
        all_goals (intro ts' he; first | exact h1 ts' he | exact h2 ts' he)
      cases ts with
      | nil => exact other [] (by intro _ he; cases he) (by intro _ he; cases he) h
      | cons t ts =>
        cases t with
        | kwMatch =>
          simp only [parseTop, List.cons_append] at h ⊢
          cases h0 : parseTop f ts with
          | none => simp [h0] at h
          | some p =>
            obtain ⟨m, r0⟩ := p
            rw [ht ts m r0 h0]
            simp only [h0] at h
            split at h
            · rename_i m' r1 heq
              cases heq
              simp only [List.cons_append]
              cases h1 : parseCases f r1 with
              | none => simp [h1] at h
              | some q =>
                obtain ⟨cs, r2⟩ := q
                simp only [h1, Option.some.injEq, Prod.mk.injEq] at h
                simp only [hc r1 cs r2 h1]
                simp [h.1, h.2]
            · cases h
        | kwIf =>
          simp only [parseTop, List.cons_append] at h ⊢
          cases h0 : parseTop f ts with
          | none => simp [h0] at h
          | some p =>
            obtain ⟨c, r0⟩ := p
            rw [ht ts c r0 h0]
            simp only [h0] at h
            split at h
            · rename_i c' r1 heq
              cases heq
              simp only [List.cons_append]
              cases h1 : parseStmts f r1 with
              | none => simp [h1] at h
              | some q =>
                obtain ⟨t1, r2⟩ := q
                rw [hs r1 t1 r2 h1]
                simp only [h1] at h
                split at h
                · rename_i t1' r3 heq
                  cases heq
                  simp only [List.cons_append]
                  cases h2 : parseStmts f r3 with
                  | none => simp [h2] at h
                  | some q2 =>
                    obtain ⟨e2, r4⟩ := q2
                    rw [hs r3 e2 r4 h2]
                    simp only [h2, Option.some.injEq, Prod.mk.injEq] at h
                    simp [h.1, h.2]
                · cases h
            · cases h
        | lp => exact other _ (by intro _ he; cases he) (by intro _ he; cases he) h
        | rp => exact other _ (by intro _ he; cases he) (by intro _ he; cases he) h
        | bang => exact other _ (by intro _ he; cases he) (by intro _ he; cases he) h
        | comma => exact other _ (by intro _ he; cases he) (by intro _ he; cases he) h
        | lb => exact other _ (by intro _ he; cases he) (by intro _ he; cases he) h
        | rb => exact other _ (by intro _ he; cases he) (by intro _ he; cases he) h
        | kwElse => exact other _ (by intro _ he; cases he) (by intro _ he; cases he) h
        | op o => exact other _ (by intro _ he; cases he) (by intro _ he; cases he) h
        | atom a => exact other _ (by intro _ he; cases he) (by intro _ he; cases he) h
        | post a b => exact other _ (by intro _ he; cases he) (by intro _ he; cases he) h
        | pat a => exact other _ (by intro _ he; cases he) (by intro _ he; cases he) h
        | lam a => exact other _ (by intro _ he; cases he) (by intro _ he; cases he) h
        | semi => exact other _ (by intro _ he; cases he) (by intro _ he; cases he) h
        | letK a => exact other _ (by intro _ he; cases he) (by intro _ he; cases he) h
    · -- parseCases
      intro ts e r h
      cases ts with
      | nil => simp [parseCases] at h
      | cons t ts =>
        cases t <;> try (simp [parseCases] at h; done)
        rename_i k
        simp only [parseCases, List.cons_append] at h ⊢
        cases h0 : parseTop f ts with
        | none => simp [h0] at h
        | some p =>
          obtain ⟨b, r0⟩ := p
          rw [ht ts b r0 h0]
          simp only [h0] at h
          split at h
          · rename_i heq; cases heq
            simp only [Option.some.injEq, Prod.mk.injEq] at h
            simp [h.1, h.2]
          · rename_i heq; cases heq
            simp only [Option.some.injEq, Prod.mk.injEq] at h
            simp [h.1, h.2]
          · rename_i b' r1 hnr heq
            cases heq
            cases h1 : parseCases f r1 with
            | none => simp [h1] at h
            | some q =>
              obtain ⟨cs, r2⟩ := q
              simp only [h1, Option.some.injEq, Prod.mk.injEq] at h
              have := hc r1 cs r2 h1
              cases r1 with
              | nil => cases f <;> simp [parseCases] at h1
              | cons t1 r1' =>
                cases t1 <;> first
                  | exact absurd rfl (hnr r1')
                  | (simp only [List.cons_append] at this ⊢; simp [this, h.1, h.2])
          · cases h
    · -- parseArgs
      intro ts e r h
      unfold parseArgs at h ⊢
      cases h0 : parseTop f ts with
      | none => simp [h0] at h
      | some p =>
        obtain ⟨b, r0⟩ := p
        rw [ht ts b r0 h0]
        simp only [h0] at h
        split at h
        · rename_i heq; cases heq
          simp only [Option.some.injEq, Prod.mk.injEq] at h
          simp [h.1, h.2]
        · rename_i heq; cases heq
          simp only [Option.some.injEq, Prod.mk.injEq] at h
          simp [h.1, h.2]
        · rename_i b' r1 hnr heq
          cases heq
          cases h1 : parseArgs f r1 with
          | none => simp [h1] at h
          | some q =>
            obtain ⟨es, r2⟩ := q
            simp only [h1, Option.some.injEq, Prod.mk.injEq] at h
            have := ha r1 es r2 h1
            cases r1 with
            | nil => rw [parseArgs_nil] at h1; cases h1
            | cons t1 r1' =>
              cases t1 <;> first
                | exact absurd rfl (hnr r1')
                | (simp only [List.cons_append] at this ⊢; simp [this, h.1, h.2])
        · cases h
    · -- parseBase
      intro ts e r h
      cases ts with
      | nil => simp [parseBase] at h
      | cons t ts =>
        cases t <;> try (simp [parseBase] at h; done)
        · -- lp
          simp only [parseBase, List.cons_append] at h ⊢
          cases h0 : parseTop f ts with
          | none => simp [h0] at h
          | some p =>
            obtain ⟨e0, r0⟩ := p
            rw [ht ts e0 r0 h0]
            simp only [h0] at h
            split at h
            · rename_i heq; cases heq
              simp only [Option.some.injEq, Prod.mk.injEq] at h
              simp [h.1, h.2]
            · rename_i heq; cases heq
              simp only [Option.some.injEq, Prod.mk.injEq] at h
              simp [h.1, h.2]
            · rename_i e0' r1 hnr heq
              cases heq
              cases h1 : parseArgs f r1 with
              | none => simp [h1] at h
              | some q =>
                obtain ⟨es, r2⟩ := q
                simp only [h1, Option.some.injEq, Prod.mk.injEq] at h
                have := ha r1 es r2 h1
                cases r1 with
                | nil => rw [parseArgs_nil] at h1; cases h1
                | cons t1 r1' =>
                  cases t1 <;> first
                    | exact absurd rfl (hnr r1')
                    | (simp only [List.cons_append] at this ⊢; simp [this, h.1, h.2])
            · cases h
        · -- lb
          simp only [parseBase, List.cons_append] at h ⊢
          cases h0 : parseStmts f ts with
          | none => simp [h0] at h
          | some p =>
            obtain ⟨b0, r0⟩ := p
            rw [hs ts b0 r0 h0]
            simp only [h0, Option.some.injEq, Prod.mk.injEq] at h
            simp [h.1, h.2]
        · -- atom
          simp only [parseBase, Option.some.injEq, Prod.mk.injEq] at h
          simp [parseBase, h.1, h.2]
        · -- lam
          simp only [parseBase, List.cons_append] at h ⊢
          cases h0 : parseTop f ts with
          | none => simp [h0] at h
          | some p =>
            obtain ⟨e0, r0⟩ := p
            rw [ht ts e0 r0 h0]
            simp only [h0, Option.some.injEq, Prod.mk.injEq] at h
            simp [h.1, h.2]
    · -- parseUnary
      intro ts e r h
      have other : ∀ ts, (∀ r', ts ≠ .bang :: r') → (∀ r', ts ≠ .op .minus :: r') →
          parseUnary (f + 1) ts = some (e, r) → parseUnary (f + 1) (ts ++ [.rp]) = some (e, r ++ [.rp]) := by
        intro ts h1 h2 h
        rw [parseUnary] at h
        · rw [parseUnary]
          · exact hl _ _ _ _ h
          all_goals
            intro ts' he
            cases ts with
            | nil => cases he
            | cons t ts0 =>
              simp only [List.cons_append, List.cons.injEq] at he
              obtain ⟨rfl, _⟩ := he
              first | exact absurd rfl (h1 ts0) | exact absurd rfl (h2 ts0)
        all_goals (intro ts' he; first | exact h1 ts' he | exact h2 ts' he)
      cases ts with
      | nil => exact other [] (by intro _ he; cases he) (by intro _ he; cases he) h
      | cons t ts =>
        cases t with
        | bang =>
          simp only [parseUnary, List.cons_append] at h ⊢
          cases h0 : parseLevel f 6 ts with
          | none => simp [h0] at h
          | some p =>
            obtain ⟨e', r'⟩ := p
            rw [hl 6 ts e' r' h0]
            simp only [h0, Option.some.injEq, Prod.mk.injEq] at h
            simp [h.1, h.2]
        | op o =>
          by_cases ho : o = .minus
          · subst ho
            simp only [parseUnary, List.cons_append] at h ⊢
            cases h0 : parseLevel f 6 ts with
            | none => simp [h0] at h
            | some p =>
              obtain ⟨e', r'⟩ := p
              rw [hl 6 ts e' r' h0]
              simp only [h0, Option.some.injEq, Prod.mk.injEq] at h
              simp [h.1, h.2]
          · exact other _ (by intro _ he; cases he) (by intro _ he; cases he; exact ho rfl) h
        | lp => exact other _ (by intro _ he; cases he) (by intro _ he; cases he) h
        | rp => exact other _ (by intro _ he; cases he) (by intro _ he; cases he) h
        | comma => exact other _ (by intro _ he; cases he) (by intro _ he; cases he) h
        | lb => exact other _ (by intro _ he; cases he) (by intro _ he; cases he) h
        | rb => exact other _ (by intro _ he; cases he) (by intro _ he; cases he) h
        | kwIf => exact other _ (by intro _ he; cases he) (by intro _ he; cases he) h
        | kwElse => exact other _ (by intro _ he; cases he) (by intro _ he; cases he) h
        | kwMatch => exact other _ (by intro _ he; cases he) (by intro _ he; cases he) h
        | atom a => exact other _ (by intro _ he; cases he) (by intro _ he; cases he) h
        | post a b => exact other _ (by intro _ he; cases he) (by intro _ he; cases he) h
        | pat a => exact other _ (by intro _ he; cases he) (by intro _ he; cases he) h
        | lam a => exact other _ (by intro _ he; cases he) (by intro _ he; cases he) h
        | semi => exact other _ (by intro _ he; cases he) (by intro _ he; cases he) h
        | letK a => exact other _ (by intro _ he; cases he) (by intro _ he; cases he) h
    · -- parseLevel
      intro k ts e r h
      rw [parseLevel] at h ⊢
      by_cases hk : k ≥ 6
      · simp only [hk, if_true] at h ⊢
        cases h0 : parseBase f ts with
        | none => simp [h0] at h
        | some p =>
          obtain ⟨e', r'⟩ := p
          rw [hb ts e' r' h0]
          simp only [h0] at h
          exact hp _ _ _ _ _ h
      · simp only [hk, if_false] at h ⊢
        by_cases h5 : k = 5
        · simp only [h5, if_true] at h ⊢; exact hu _ _ _ h
        · simp only [h5, if_false] at h ⊢
          cases h0 : parseLevel f (k + 1) ts with
          | none => simp [h0] at h
          | some p =>
            obtain ⟨e', r'⟩ := p
            rw [hl (k + 1) ts e' r' h0]
            simp only [h0] at h
            exact hp _ _ _ _ _ h
    · -- parseLoop
      intro k a ts e r h
      cases ts with
      | nil =>
        simp only [parseLoop, Option.some.injEq, Prod.mk.injEq] at h
        simp [parseLoop, h.1, ← h.2]
      | cons t ts =>
        cases t with
        | op o =>
          simp only [parseLoop, List.cons_append] at h ⊢
          by_cases ho : o.plevel = k
          · simp only [ho, if_true] at h ⊢
            cases h0 : parseLevel f (k + 1) ts with
            | none => simp [h0] at h
            | some p =>
              obtain ⟨e', r'⟩ := p
              rw [hl (k + 1) ts e' r' h0]
              simp only [h0] at h
              exact hp _ _ _ _ _ h
          · simp only [ho, if_false, Option.some.injEq, Prod.mk.injEq] at h ⊢
            exact ⟨h.1, by rw [← h.2]; rfl⟩
        | post p fld =>
          simp only [parseLoop, List.cons_append] at h ⊢
          by_cases hk : k = 6
          · simp only [hk, if_true] at h ⊢
            rw [startsLt_append]
            by_cases hc : (fld && startsLt ts) = true
            · simp [hc] at h
            · simp only [hc] at h ⊢; exact hp _ _ _ _ _ h
          · simp only [hk, if_false, Option.some.injEq, Prod.mk.injEq] at h ⊢
            exact ⟨h.1, by rw [← h.2]; rfl⟩
        | lp =>
          by_cases hk : k = 6
          · subst hk
            have other : ∀ t0 ts0, t0 ≠ .rp →
                parseLoop (f + 1) 6 a (.lp :: t0 :: ts0) = some (e, r) →
                parseLoop (f + 1) 6 a (.lp :: t0 :: (ts0 ++ [.rp])) = some (e, r ++ [.rp]) := by
              intro t0 ts0 hne h
              rw [parseLoop] at h
              · rw [parseLoop]
                · simp only [if_true] at h ⊢
                  cases h1 : parseArgs f (t0 :: ts0) with
                  | none => simp [h1] at h
                  | some q =>
                    obtain ⟨args, r'⟩ := q
                    simp only [h1] at h
                    have := ha _ args r' h1
                    simp only [List.cons_append] at this
                    simp only [this]
                    exact hp _ _ _ _ _ h
                all_goals (intro r0 he; cases he; exact hne rfl)
              all_goals (intro r0 he; cases he; exact hne rfl)
            cases ts with
            | nil =>
              simp only [parseLoop, if_true] at h
              rw [parseArgs_nil] at h; cases h
            | cons t2 ts2 =>
              cases t2 <;> first
                | (simp only [parseLoop, if_true, List.cons_append] at h ⊢; exact hp _ _ _ _ _ h)
                | exact other _ ts2 (by intro he; cases he) h
          · simp only [parseLoop, hk, if_false, Option.some.injEq, Prod.mk.injEq, List.cons_append] at h ⊢
            exact ⟨h.1, by rw [← h.2]; rfl⟩
        | atom x => simp only [parseLoop, Option.some.injEq, Prod.mk.injEq, List.cons_append] at h ⊢; exact ⟨h.1, by rw [← h.2]; rfl⟩
        | rp => simp only [parseLoop, Option.some.injEq, Prod.mk.injEq, List.cons_append] at h ⊢; exact ⟨h.1, by rw [← h.2]; rfl⟩
        | bang => simp only [parseLoop, Option.some.injEq, Prod.mk.injEq, List.cons_append] at h ⊢; exact ⟨h.1, by rw [← h.2]; rfl⟩
        | comma => simp only [parseLoop, Option.some.injEq, Prod.mk.injEq, List.cons_append] at h ⊢; exact ⟨h.1, by rw [← h.2]; rfl⟩
        | lb => simp only [parseLoop, Option.some.injEq, Prod.mk.injEq, List.cons_append] at h ⊢; exact ⟨h.1, by rw [← h.2]; rfl⟩
        | rb => simp only [parseLoop, Option.some.injEq, Prod.mk.injEq, List.cons_append] at h ⊢; exact ⟨h.1, by rw [← h.2]; rfl⟩
        | kwIf => simp only [parseLoop, Option.some.injEq, Prod.mk.injEq, List.cons_append] at h ⊢; exact ⟨h.1, by rw [← h.2]; rfl⟩
        | kwElse => simp only [parseLoop, Option.some.injEq, Prod.mk.injEq, List.cons_append] at h ⊢; exact ⟨h.1, by rw [← h.2]; rfl⟩
        | kwMatch => simp only [parseLoop, Option.some.injEq, Prod.mk.injEq, List.cons_append] at h ⊢; exact ⟨h.1, by rw [← h.2]; rfl⟩
        | pat x => simp only [parseLoop, Option.some.injEq, Prod.mk.injEq, List.cons_append] at h ⊢; exact ⟨h.1, by rw [← h.2]; rfl⟩
        | lam x => simp only [parseLoop, Option.some.injEq, Prod.mk.injEq, List.cons_append] at h ⊢; exact ⟨h.1, by rw [← h.2]; rfl⟩
        | semi => simp only [parseLoop, Option.some.injEq, Prod.mk.injEq, List.cons_append] at h ⊢; exact ⟨h.1, by rw [← h.2]; rfl⟩
        | letK x => simp only [parseLoop, Option.some.injEq, Prod.mk.injEq, List.cons_append] at h ⊢; exact ⟨h.1, by rw [← h.2]; rfl⟩
    · -- parseStmts
      intro ts e r h
      have other : ∀ t0 ts0, t0 ≠ .rb → t0 ≠ .semi → (∀ k, t0 ≠ .letK k) →
          parseStmts (f + 1) (t0 :: ts0) = some (e, r) →
          parseStmts (f + 1) (t0 :: (ts0 ++ [.rp])) = some (e, r ++ [.rp]) := by
        intro t0 ts0 h1 h2 h3 h
        rw [parseStmts] at h
        · rw [parseStmts]
          · cases h0 : parseTop f (t0 :: ts0) with
            | none => simp [h0] at h
            | some p =>
              obtain ⟨e0, r0⟩ := p
              have := ht _ e0 r0 h0
              simp only [List.cons_append] at this
              rw [this]
              simp only [h0] at h
              split at h
              · rename_i e0' r1 heq
                cases heq
                cases h1' : parseStmts f r1 with
                | none => simp [h1'] at h
                | some q =>
                  obtain ⟨b1, r2⟩ := q
                  simp only [h1', Option.some.injEq, Prod.mk.injEq] at h
                  simp [hs r1 b1 r2 h1', h.1, h.2]
              · rename_i heq; cases heq
                simp only [Option.some.injEq, Prod.mk.injEq] at h
                simp [h.1, h.2]
              · cases h
          all_goals (intros; rename_i he; cases he; first | exact h1 rfl | exact h2 rfl | exact h3 _ rfl)
        all_goals (intros; rename_i he; cases he; first | exact h1 rfl | exact h2 rfl | exact h3 _ rfl)
      cases ts with
      | nil =>
        rw [parseStmts] at h
        · rw [(empty_none f).1] at h; cases h
        all_goals (intros; rename_i he; cases he)
      | cons t ts =>
        cases t with
        | rb =>
          simp only [parseStmts, Option.some.injEq, Prod.mk.injEq] at h
          simp [parseStmts, h.1, h.2]
        | semi => simp only [parseStmts, List.cons_append] at h ⊢; exact hs _ _ _ h
        | letK k =>
          simp only [parseStmts, List.cons_append] at h ⊢
          cases h0 : parseTop f ts with
          | none => simp [h0] at h
          | some p =>
            obtain ⟨e0, r0⟩ := p
            rw [ht ts e0 r0 h0]
            simp only [h0] at h
            split at h
            · rename_i e0' r1 heq
              cases heq
              cases h1' : parseStmts f r1 with
              | none => simp [h1'] at h
              | some q =>
                obtain ⟨b1, r2⟩ := q
                simp only [h1', Option.some.injEq, Prod.mk.injEq] at h
                simp [hs r1 b1 r2 h1', h.1, h.2]
            · cases h
        | lp => exact other _ ts (by intro he; cases he) (by intro he; cases he) (by intro _ he; cases he) h
        | rp => exact other _ ts (by intro he; cases he) (by intro he; cases he) (by intro _ he; cases he) h
        | bang => exact other _ ts (by intro he; cases he) (by intro he; cases he) (by intro _ he; cases he) h
        | comma => exact other _ ts (by intro he; cases he) (by intro he; cases he) (by intro _ he; cases he) h
        | lb => exact other _ ts (by intro he; cases he) (by intro he; cases he) (by intro _ he; cases he) h
        | kwIf => exact other _ ts (by intro he; cases he) (by intro he; cases he) (by intro _ he; cases he) h
        | kwElse => exact other _ ts (by intro he; cases he) (by intro he; cases he) (by intro _ he; cases he) h
        | kwMatch => exact other _ ts (by intro he; cases he) (by intro he; cases he) (by intro _ he; cases he) h
        | op o => exact other _ ts (by intro he; cases he) (by intro he; cases he) (by intro _ he; cases he) h
        | atom a => exact other _ ts (by intro he; cases he) (by intro he; cases he) (by intro _ he; cases he) h
        | post a b => exact other _ ts (by intro he; cases he) (by intro he; cases he) (by intro _ he; cases he) h
        | pat a => exact other _ ts (by intro he; cases he) (by intro he; cases he) (by intro _ he; cases he) h
        | lam a => exact other _ ts (by intro he; cases he) (by intro he; cases he) (by intro _ he; cases he) h

/-! ## The tuple size limit is preserved by regrouping -/

theorem len_rgArgs : (es : Args) → (rgArgs es).len = es.len
  | .one e => by simp [rgArgs, Args.len]
  | .cons e rest => by simp [rgArgs, Args.len, len_rgArgs rest]

theorem sizeOk_wrap (ctx : Option (BinOp × Expr)) (x : Expr) :
    sizeOk (wrapCtx ctx x) = (match ctx with | none => sizeOk x | some (_, acc) => sizeOk acc && sizeOk x) := by
  cases ctx with
  | none => rfl
  | some p => obtain ⟨o, acc⟩ := p; simp [wrapCtx, sizeOk]

mutual
theorem sizeOk_rg : (e : Expr) → sizeOk (rg none e) = sizeOk e ∧
    ∀ o acc, sizeOk (rg (some (o, acc)) e) = (sizeOk acc && sizeOk e)
  | .atom a => by simp [rg, sizeOk_wrap, sizeOk]
  | .tuple e es => by
    simp [rg, sizeOk_wrap, sizeOk, (sizeOk_rg e).1, sizeOkArgs_rg es, len_rgArgs]
  | .block b => by simp [rg, sizeOk_wrap, sizeOk, sizeOkBlk_rg b]
  | .post e p f => by simp [rg, sizeOk_wrap, sizeOk, (sizeOk_rg e).1]
  | .call0 f => by simp [rg, sizeOk_wrap, sizeOk, (sizeOk_rg f).1]
  | .call f args => by simp [rg, sizeOk_wrap, sizeOk, (sizeOk_rg f).1, sizeOkArgs_rg args]
  | .unary u e => by simp [rg, sizeOk_wrap, sizeOk, (sizeOk_rg e).1]
  | .ifElse c t e => by simp [rg, sizeOk_wrap, sizeOk, (sizeOk_rg c).1, sizeOkBlk_rg t, sizeOkBlk_rg e]
  | .matchE m cs => by simp [rg, sizeOk_wrap, sizeOk, (sizeOk_rg m).1, sizeOkCases_rg cs]
  | .lambda k b => by simp [rg, sizeOk_wrap, sizeOk, (sizeOk_rg b).1]
  | .binary o' a b => by
    have iha := (sizeOk_rg a).1
    have ihb := sizeOk_rg b
    constructor
    · simp only [rg]
      by_cases h : usesShortcut o' a b = true
      · simp only [h, if_true]; rw [ihb.2, iha]; simp [sizeOk]
      · simp only [h]; simp [sizeOk, iha, ihb.1]
    · intro o acc
      simp only [rg]
      by_cases h : usesShortcut o a b = true
      · simp only [h, if_true]; rw [ihb.2]; simp [sizeOk, iha, Bool.and_assoc]
      · simp only [h]; simp [sizeOk, iha, ihb.1, Bool.and_assoc]
theorem sizeOkArgs_rg : (es : Args) → sizeOkArgs (rgArgs es) = sizeOkArgs es
  | .one e => by simp [rgArgs, sizeOkArgs, (sizeOk_rg e).1]
  | .cons e rest => by simp [rgArgs, sizeOkArgs, (sizeOk_rg e).1, sizeOkArgs_rg rest]
theorem sizeOkCases_rg : (cs : Cases) → sizeOkCases (rgCases cs) = sizeOkCases cs
  | .one k b => by simp [rgCases, sizeOkCases, (sizeOk_rg b).1]
  | .cons k b rest => by simp [rgCases, sizeOkCases, (sizeOk_rg b).1, sizeOkCases_rg rest]
theorem sizeOkBlk_rg : (b : Blk) → sizeOkBlk (rgBlk b) = sizeOkBlk b
  | .fin ss e => by simp [rgBlk, sizeOkBlk, (sizeOk_rg e).1, sizeOkStmts_rg ss]
  | .noFin ss => by simp [rgBlk, sizeOkBlk, sizeOkStmts_rg ss]
theorem sizeOkStmts_rg : (ss : Stmts) → sizeOkStmts (rgStmts ss) = sizeOkStmts ss
  | .nil => by simp [rgStmts]
  | .letS k e rest => by simp [rgStmts, sizeOkStmts, (sizeOk_rg e).1, sizeOkStmts_rg rest]
  | .exprS e rest => by simp [rgStmts, sizeOkStmts, (sizeOk_rg e).1, sizeOkStmts_rg rest]
end

theorem sizeOk_regroup (e : Expr) : sizeOk (regroup e) = sizeOk e := (sizeOk_rg e).1

end SamVerif.FmtFull
