import SamVerif.Model.Lexer
/-! Helper lemmas about the scanner model (`Model/Lexer.lean`) for C05 and C14. -/
namespace SamVerif.Lexer

theorem bump_eq {bs : Bytes} {n : Nat} {r : Bytes} (h : bump bs n = some r) : r = bs.drop n := by
  unfold bump at h; split at h <;> simp_all

theorem strEnd_gt (cs : Bytes) (esc pos n : Nat) (h : strEnd cs esc pos = some n) : pos < n := by
  fun_induction strEnd cs esc pos <;> grind

theorem blockEnd_ge (cs : Bytes) (p : Pos) (n m : Nat) (q : Pos)
    (h : blockEnd cs p n = some (m, q)) : n + 2 ≤ m := by
  fun_induction blockEnd cs p n <;> grind

theorem length_drop_lt {α} (l : List α) (n : Nat) (hn : 0 < n) (hl : l ≠ []) :
    (l.drop n).length < l.length := by
  cases l with
  | nil => contradiction
  | cons a t => simp only [List.length_drop, List.length_cons]; omega

theorem lexStrLit_progress {rest : Bytes} {pos : Pos} {s : Scanned}
    (h : lexStrLit rest pos = .yes s) : s.rest.length < rest.length := by
  unfold lexStrLit at h
  split at h
  · rename_i q body
    split at h
    · split at h
      · contradiction
      · rename_i n hn
        split at h
        · contradiction
        · rename_i rest' hb
          cases h
          have := strEnd_gt _ _ _ _ hn
          rw [bump_eq hb]
          exact length_drop_lt _ _ (by omega) (by simp)
    · contradiction
  · contradiction


theorem lexLineComment_progress {rest : Bytes} {pos : Pos} {s : Scanned}
    (h : lexLineComment rest pos = .yes s) : s.rest.length < rest.length := by
  unfold lexLineComment at h
  split at h
  · split at h
    · dsimp only at h
      split at h
      · contradiction
      · rename_i rest' hb
        cases h
        rw [bump_eq hb]
        exact length_drop_lt _ _ (by omega) (by simp)
    · contradiction
  · contradiction

theorem lexBlockComment_progress {rest : Bytes} {pos : Pos} {s : Scanned}
    (h : lexBlockComment rest pos = .yes s) : s.rest.length < rest.length := by
  unfold lexBlockComment at h
  split at h
  · split at h
    · split at h
      · contradiction
      · rename_i n stop hn
        split at h
        · contradiction
        · rename_i rest' hb
          dsimp only at h
          split at h
          · contradiction
          · cases h
            have := blockEnd_ge _ _ _ _ _ hn
            rw [bump_eq hb]
            exact length_drop_lt _ _ (by omega) (by simp)
    · contradiction
  · contradiction

theorem logosNext_pos {rest : Bytes} {k : Kind} {n : Nat} {t : Bytes}
    (h : logosNext rest = .tok k n t) : 0 < n := by
  unfold logosNext at h
  simp only at h
  split at h
  · contradiction
  · split at h
    · cases h; omega
    · split at h
      · cases h; omega
      · cases h; omega

theorem lexError_progress {rest : Bytes} {pos : Pos} {s : Scanned} (hne : rest ≠ [])
    (h : lexError rest pos = .yes s) : s.rest.length < rest.length := by
  unfold lexError at h
  simp only at h
  split at h
  · contradiction
  · rename_i rest' hb
    cases h
    rw [bump_eq hb, List.drop_drop]
    exact length_drop_lt _ _ (by omega) hne

theorem nextRaw_progress {input : Bytes} {pos0 : Pos} {s : Scanned}
    (h : nextRaw input pos0 = .tok s) : s.rest.length < input.length := by
  unfold nextRaw at h
  simp only at h
  split at h
  · contradiction
  · rename_i rest hb
    have hle : rest.length ≤ input.length := by
      rw [bump_eq hb]; simp only [List.length_drop]; omega
    generalize wsPos input pos0 = pos at h
    cases h1 : lexStrLit rest pos with
    | yes s1 => simp only [h1, ofTry] at h; cases h; have := lexStrLit_progress h1; omega
    | panic => simp [h1, ofTry] at h
    | no =>
      cases h2 : lexLineComment rest pos with
      | yes s2 => simp only [h1, h2, ofTry] at h; cases h; have := lexLineComment_progress h2; omega
      | panic => simp [h1, h2, ofTry] at h
      | no =>
        cases h3 : lexBlockComment rest pos with
        | yes s3 => simp only [h1, h2, h3, ofTry] at h; cases h; have := lexBlockComment_progress h3; omega
        | panic => simp [h1, h2, h3, ofTry] at h
        | no =>
          simp only [h1, h2, h3, ofTry] at h
          split at h
          · contradiction
          · rename_i hne
            have hne' : rest ≠ [] := by simpa using hne
            split at h
            · cases h4 : lexError rest pos with
              | yes s4 => simp only [h4] at h; cases h; have := lexError_progress hne' h4; omega
              | panic => simp [h4] at h
              | no => simp [h4] at h
            · rename_i k n text hl
              cases h
              have := logosNext_pos hl
              have := length_drop_lt rest n this hne'
              simp only; omega

end SamVerif.Lexer
